(* L5: canonical forms, progress and preservation for the group-free typing relation has_type0
   (the rules of has_type except t_let and t_hole, conversion restricted to conv0 between hole-free
   types).  Proofs/ConvConsistent.v shows that on hole-free group-free terms and hole-free types
   has_type0 IS has_type, and transfers the theorems. *)
From Coq Require Import List ZArith Lia Bool Arith Relations.
Import ListNotations.
Require Import Gram.Model.Term Gram.Model.DeBruijn Gram.Model.Eval Gram.Spec.Cbv Gram.Spec.Typing
  Gram.Proofs.DeBruijnLaws Gram.Proofs.CtxProofs Gram.Proofs.WeakenProofs Gram.Proofs.CbvProofs
  Gram.Proofs.ConflLaws Gram.Proofs.Confluence Gram.Proofs.ConfluenceCons Gram.Proofs.ConfluenceEval.

(* contexts of bound variables without definitions: the list of their types, innermost first *)
Definition binds (G : list term) : ctx := map (fun A => (A, 0, @None term)) G.

Inductive has_type0 (G : list term) : term -> term -> Prop :=
| t0_type : has_type0 G TType TType
| t0_int : has_type0 G TInt TType
| t0_bool : has_type0 G TBool TType
| t0_true : has_type0 G TTrue TBool
| t0_false : has_type0 G TFalse TBool
| t0_lit z : has_type0 G (TLit z) TInt
| t0_var i A : nth_error G i = Some A -> hole_free A = true -> has_type0 G (TVar i) (ushift A 0 (S i))
| t0_lam im d b B : has_type0 G d TType -> has_type0 (d :: G) b B -> has_type0 G (TLam im d b) (TPi im d B)
| t0_pi im d b : has_type0 G d TType -> has_type0 (d :: G) b TType -> has_type0 G (TPi im d b) TType
| t0_app f a A B : has_type0 G f (TPi false A B) -> has_type0 G a A -> has_type0 G (TApp f a) (open B 0 a 0)
| t0_neg a : has_type0 G a TInt -> has_type0 G (TNeg a) TInt
| t0_bin o a b : has_type0 G a TInt -> has_type0 G b TInt -> has_type0 G (TBin o a b) (bin_ty o)
| t0_if c a b A : has_type0 G c TBool -> has_type0 G a A -> has_type0 G b A -> has_type0 G (TIf c a b) A
| t0_conv t A B : has_type0 G t A -> conv0 A B -> hole_free B = true -> has_type0 G t B.

(* has_type0 is a sub-relation of the declarative typing *)
Theorem has_type0_has_type G t T : has_type0 G t T -> has_type (binds G) t T.
Proof.
  induction 1; try (econstructor; eauto; fail).
  - apply t_var. unfold lookup_ty, binds. rewrite nth_error_map, H. cbn [option_map]. do 2 f_equal. lia.
  - eapply t_conv; [eassumption | now apply conv0_conv].
Qed.

Lemma bin_ty_hf o : hole_free (bin_ty o) = true.
Proof. destruct o; reflexivity. Qed.

Lemma has_type0_hf G t T : has_type0 G t T -> hole_free t = true /\ hole_free T = true.
Proof.
  induction 1; repeat match goal with H : _ /\ _ |- _ => destruct H end; cbn [hole_free];
    repeat match goal with H : hole_free (_ _ _ _) = true |- _ => progress cbn [hole_free] in H end;
    split_hf; split; auto using bin_ty_hf, hole_free_ushift, hole_free_open;
    repeat (apply andb_true_intro; split); auto.
Qed.

Lemma has_type0_no_let G t T : has_type0 G t T -> no_let t = true.
Proof. induction 1; cbn [no_let]; auto; repeat (apply andb_true_intro; split); auto. Qed.

(* ---------- conv0 is stable under shifting and opening (hole-free endpoints), via Church-Rosser ---------- *)
Lemma pstar_ushift t t' c n : pstar t t' -> pstar (ushift t c n) (ushift t' c n).
Proof. apply (rt_cong pred pred (fun x => ushift x c n)). intros; now apply pred_ushift. Qed.

Lemma pstar_open t t' i s k : hole_free s = true -> pstar t t' -> pstar (open t i s k) (open t' i s k).
Proof. intros Hs. apply (rt_cong pred pred (fun x => open x i s k)). intros; apply pred_open; auto using pred_refl. Qed.

Lemma pstar_open_arg t i s s' k : hole_free t = true -> pstar s s' -> pstar (open t i s k) (open t i s' k).
Proof. intros Ht. apply (rt_cong pred pred (fun x => open t i x k)). intros; apply pred_open; auto using pred_refl. Qed.

Lemma conv0_ushift a b c n : hole_free a = true -> hole_free b = true -> conv0 a b ->
  conv0 (ushift a c n) (ushift b c n).
Proof.
  intros Ha Hb H. destruct (church_rosser _ _ Ha Hb H) as (u & H1 & H2).
  apply joinable_conv0. exists (ushift u c n). split; now apply pstar_ushift.
Qed.

Lemma conv0_open a b i s k : hole_free a = true -> hole_free b = true -> hole_free s = true -> conv0 a b ->
  conv0 (open a i s k) (open b i s k).
Proof.
  intros Ha Hb Hs H. destruct (church_rosser _ _ Ha Hb H) as (u & H1 & H2).
  apply joinable_conv0. exists (open u i s k). split; now apply pstar_open.
Qed.

Lemma conv0_open_arg t i s s' k : hole_free t = true -> hole_free s = true -> hole_free s' = true -> conv0 s s' ->
  conv0 (open t i s k) (open t i s' k).
Proof.
  intros Ht Hs Hs' H. destruct (church_rosser _ _ Hs Hs' H) as (u & H1 & H2).
  apply joinable_conv0. exists (open t i u k). split; now apply pstar_open_arg.
Qed.

(* ---------- weakening ---------- *)
Fixpoint shl (L : list term) (n : nat) : list term :=
  match L with [] => [] | A :: L0 => ushift A (length L0) n :: shl L0 n end.

Lemma shl_length L n : length (shl L n) = length L.
Proof. induction L; cbn; auto. Qed.

Lemma nth_error_shl : forall L n i A, nth_error L i = Some A ->
  nth_error (shl L n) i = Some (ushift A (length L - S i) n).
Proof.
  induction L as [|X L IH]; intros n i A H; [destruct i; discriminate|].
  destruct i as [|i]; cbn [nth_error shl length] in *.
  - injection H as <-. do 2 f_equal. lia.
  - apply IH. exact H.
Qed.

Theorem weakening : forall G0 t T, has_type0 G0 t T -> forall L B G, G0 = L ++ G ->
  has_type0 (shl L (length B) ++ B ++ G) (ushift t (length L) (length B)) (ushift T (length L) (length B)).
Proof.
  intros G0 t T H. induction H as
    [G0|G0|G0|G0|G0|G0 z|G0 i A H Hf|G0 im d b B0 _ IH1 _ IH2|G0 im d b _ IH1 _ IH2|G0 f a A B0 H1 IH1 H2 IH2
    |G0 a _ IH1|G0 o a b _ IH1 _ IH2|G0 c a b A _ IH1 _ IH2 _ IH3|G0 t A B0 H1 IH1 Hc Hf];
    intros L B G ->; cbn [ushift]; try (constructor; eauto; fail).
  - (* var *)
    destruct (Nat.lt_ge_cases i (length L)) as [Hi|Hi].
    + rewrite up_idx_lt by exact Hi. rewrite nth_error_app1 in H by exact Hi.
      replace (ushift (ushift A 0 (S i)) (length L) (length B))
        with (ushift (ushift A (length L - S i) (length B)) 0 (S i)).
      * apply t0_var; [|now apply hole_free_ushift].
        rewrite nth_error_app1 by (rewrite shl_length; exact Hi). now apply nth_error_shl.
      * rewrite <- (ushift_comm A 0 (S i) (length L - S i) (length B)) by lia. f_equal. lia.
    + rewrite up_idx_ge by exact Hi. rewrite nth_error_app2 in H by exact Hi.
      rewrite ushift_merge by lia.
      replace (S i + length B) with (S (i + length B)) by lia.
      apply t0_var; [|assumption].
      rewrite nth_error_app2 by (rewrite shl_length; lia). rewrite shl_length.
      rewrite nth_error_app2 by lia. rewrite <- H. f_equal. lia.
  - (* lam *)
    apply t0_lam; [eauto|]. apply (IH2 (d :: L) B G eq_refl).
  - (* pi *)
    apply t0_pi; [apply (IH1 L B G eq_refl)|]. apply (IH2 (d :: L) B G eq_refl).
  - (* app *)
    destruct (has_type0_hf _ _ _ H1) as [_ HP]. cbn [hole_free] in HP. split_hf.
    rewrite ushift_open0 by (auto; lia).
    eapply t0_app; [apply (IH1 L B G eq_refl) | eauto].
  - (* bin *)
    replace (ushift (bin_ty o) (length L) (length B)) with (bin_ty o) by (destruct o; reflexivity).
    constructor; [apply (IH1 L B G eq_refl) | apply (IH2 L B G eq_refl)].
  - (* conv *)
    eapply t0_conv; [eauto | | now apply hole_free_ushift].
    apply conv0_ushift; auto. now destruct (has_type0_hf _ _ _ H1).
Qed.

Corollary weakening0 G B t T : has_type0 G t T ->
  has_type0 (B ++ G) (ushift t 0 (length B)) (ushift T 0 (length B)).
Proof. intros H. exact (weakening _ _ _ H [] B G eq_refl). Qed.

(* ---------- substitution ---------- *)
Fixpoint sbl (L : list term) (a : term) : list term :=
  match L with [] => [] | X :: L0 => open X (length L0) a (length L0) :: sbl L0 a end.

Lemma sbl_length L a : length (sbl L a) = length L.
Proof. induction L; cbn; auto. Qed.

Lemma nth_error_sbl : forall L a i X, nth_error L i = Some X ->
  nth_error (sbl L a) i = Some (open X (length L - S i) a (length L - S i)).
Proof.
  induction L as [|Y L IH]; intros a i X H; [destruct i; discriminate|].
  destruct i as [|i]; cbn [nth_error sbl length] in *.
  - injection H as <-. replace (S (length L) - 1) with (length L) by lia. reflexivity.
  - apply IH. exact H.
Qed.

Theorem substitution : forall G0 t T, has_type0 G0 t T -> forall L A G a, G0 = L ++ A :: G ->
  has_type0 G a A ->
  has_type0 (sbl L a ++ G) (open t (length L) a (length L)) (open T (length L) a (length L)).
Proof.
  intros G0 t T H. induction H as
    [G0|G0|G0|G0|G0|G0 z|G0 i X H Hf|G0 im d b B0 _ IH1 _ IH2|G0 im d b _ IH1 _ IH2|G0 f x X B0 H1 IH1 H2 IH2
    |G0 x _ IH1|G0 o x y _ IH1 _ IH2|G0 c x y X _ IH1 _ IH2 _ IH3|G0 t X B0 H1 IH1 Hc Hf];
    intros L A G a -> Ha; destruct (has_type0_hf _ _ _ Ha) as [Fa FA];
    cbn [open]; try (constructor; eauto; fail).
  - (* var *)
    destruct (Nat.eqb_spec i (length L)) as [->|Hne].
    + rewrite nth_error_app2 in H by lia. rewrite Nat.sub_diag in H. cbn [nth_error] in H. injection H as <-.
      rewrite open_ushift_cancel_gen by (auto; lia).
      pose proof (weakening0 G (sbl L a) a A Ha) as W. now rewrite sbl_length in W.
    + destruct (Nat.lt_ge_cases i (length L)) as [Hi|Hi].
      * rewrite nth_error_app1 in H by exact Hi.
        replace (open_idx i (length L)) with i by (unfold open_idx; destruct (Nat.ltb_spec (length L) i); lia).
        replace (open (ushift X 0 (S i)) (length L) a (length L))
          with (ushift (open X (length L - S i) a (length L - S i)) 0 (S i)).
        -- apply t0_var; [|now apply hole_free_open].
           rewrite nth_error_app1 by (rewrite sbl_length; exact Hi). now apply nth_error_sbl.
        -- rewrite ushift_open_below by (auto; lia). f_equal; lia.
      * rewrite nth_error_app2 in H by exact Hi.
        replace (open_idx i (length L)) with (i - 1) by (unfold open_idx; destruct (Nat.ltb_spec (length L) i); lia).
        destruct i as [|i]; [lia|].
        rewrite open_ushift_cancel_gen by (auto; lia).
        replace (S i - 1) with i by lia.
        apply t0_var; [|assumption].
        rewrite nth_error_app2 by (rewrite sbl_length; lia). rewrite sbl_length.
        replace (S i - length L) with (S (i - length L)) in H by lia. exact H.
  - (* lam *)
    apply t0_lam; [eauto|]. apply (IH2 (d :: L) A G a eq_refl Ha).
  - (* pi *)
    apply t0_pi; [eauto|]. apply (IH2 (d :: L) A G a eq_refl Ha).
  - (* app *)
    destruct (has_type0_hf _ _ _ H1) as [_ HP]. cbn [hole_free] in HP. split_hf.
    destruct (has_type0_hf _ _ _ H2) as [Fx _].
    rewrite open_open0 by auto.
    eapply t0_app; [apply (IH1 L A G a eq_refl Ha) | eauto].
  - (* bin *)
    replace (open (bin_ty o) (length L) a (length L)) with (bin_ty o) by (destruct o; reflexivity).
    constructor; eauto.
  - (* conv *)
    eapply t0_conv; [eauto | | now apply hole_free_open].
    apply conv0_open; auto. now destruct (has_type0_hf _ _ _ H1).
Qed.

Corollary substitution0 G A b B a : has_type0 (A :: G) b B -> has_type0 G a A ->
  has_type0 G (open b 0 a 0) (open B 0 a 0).
Proof. intros Hb Ha. exact (substitution _ _ _ Hb [] A G a eq_refl Ha). Qed.

(* ---------- generation (inversion up to conversion) ---------- *)
Definition natural (v T : term) : Prop :=
  match v with
  | TLit _ => conv0 TInt T
  | TTrue | TFalse => conv0 TBool T
  | TType | TInt | TBool | TPi _ _ _ => conv0 TType T
  | TLam im d b => exists B, conv0 (TPi im d B) T /\ hole_free B = true
  | _ => True
  end.

Lemma natural_conv v T T' : natural v T -> conv0 T T' -> natural v T'.
Proof.
  destruct v; cbn [natural]; intros H C; eauto using c0_trans.
  destruct H as (B & H & F). exists B. eauto using c0_trans.
Qed.

Lemma natural_gen G v T : has_type0 G v T -> natural v T.
Proof.
  induction 1; cbn [natural]; auto using c0_refl.
  - exists B. split; [apply c0_refl | now destruct (has_type0_hf _ _ _ H0)].
  - eapply natural_conv; eauto.
Qed.

Lemma lam_gen G im d b T : has_type0 G (TLam im d b) T ->
  exists B, has_type0 G d TType /\ has_type0 (d :: G) b B /\ conv0 (TPi im d B) T.
Proof.
  intros H. remember (TLam im d b) as v eqn:E. revert im d b E.
  induction H; intros im' d' b' E; try discriminate.
  - injection E as -> -> ->. exists B. repeat split; auto using c0_refl.
  - destruct (IHhas_type0 _ _ _ E) as (B0 & K1 & K2 & K3). exists B0. repeat split; eauto using c0_trans.
Qed.

(* ---------- canonical forms ---------- *)
Theorem canonical_int G v T : has_type0 G v T -> is_value v = true -> conv0 T TInt -> exists z, v = TLit z.
Proof.
  intros H V C. apply natural_gen in H. destruct v; try discriminate; cbn [natural] in H.
  - exfalso. apply conv0_type_int. eauto using c0_trans.
  - exfalso. apply conv0_type_int. eauto using c0_trans.
  - exfalso. apply conv0_type_int. eauto using c0_trans.
  - exfalso. apply conv0_int_bool. apply c0_sym. eauto using c0_trans.
  - exfalso. apply conv0_int_bool. apply c0_sym. eauto using c0_trans.
  - eauto.
  - destruct H as (B & H & _). exfalso. apply (conv0_int_pi impl v1 B). apply c0_sym. eauto using c0_trans.
  - exfalso. apply conv0_type_int. eauto using c0_trans.
Qed.

Theorem canonical_bool G v T : has_type0 G v T -> is_value v = true -> conv0 T TBool -> v = TTrue \/ v = TFalse.
Proof.
  intros H V C. apply natural_gen in H. destruct v; try discriminate; cbn [natural] in H; auto.
  - exfalso. apply conv0_type_bool. eauto using c0_trans.
  - exfalso. apply conv0_type_bool. eauto using c0_trans.
  - exfalso. apply conv0_type_bool. eauto using c0_trans.
  - exfalso. apply conv0_int_bool. eauto using c0_trans.
  - destruct H as (B & H & _). exfalso. apply (conv0_bool_pi impl v1 B). apply c0_sym. eauto using c0_trans.
  - exfalso. apply conv0_type_bool. eauto using c0_trans.
Qed.

Theorem canonical_pi G v T im A B : has_type0 G v T -> is_value v = true -> conv0 T (TPi im A B) ->
  exists d b, v = TLam im d b.
Proof.
  intros H V C. apply natural_gen in H. destruct v; try discriminate; cbn [natural] in H.
  - exfalso. apply (conv0_type_pi im A B). eauto using c0_trans.
  - exfalso. apply (conv0_type_pi im A B). eauto using c0_trans.
  - exfalso. apply (conv0_type_pi im A B). eauto using c0_trans.
  - exfalso. apply (conv0_bool_pi im A B). eauto using c0_trans.
  - exfalso. apply (conv0_bool_pi im A B). eauto using c0_trans.
  - exfalso. apply (conv0_int_pi im A B). eauto using c0_trans.
  - destruct H as (B0 & H & _).
    assert (C' : conv0 (TPi impl v1 B0) (TPi im A B)) by eauto using c0_trans.
    apply conv0_pi_inj_strip in C' as [-> _]. eauto.
  - exfalso. apply (conv0_type_pi im A B). eauto using c0_trans.
Qed.

(* ---------- progress ---------- *)
Definition div_stuck (t : term) : Prop := step t = None /\ is_value t = false /\ stuck_reason t = Some DivByZero.

Lemma arith_none o x y : arith o x y = None -> o = OQuot /\ y = 0%Z.
Proof.
  destruct o; cbn; try discriminate. destruct (Z.eqb_spec y 0); [auto | discriminate].
Qed.

Theorem progress t T : has_type0 [] t T ->
  is_value t = true \/ (exists t', step t = Some t') \/ div_stuck t.
Proof.
  intros H. remember (@nil term) as G eqn:EG.
  induction H as
    [G|G|G|G|G|G z|G i X H Hf|G im d b B0 _ IH1 _ IH2|G im d b _ IH1 _ IH2|G f x X B0 H1 IH1 H2 IH2
    |G x H1 IH1|G o x y H1 IH1 H2 IH2|G c x y X H1 IH1 _ IH2 _ IH3|G t X B0 H1 IH1 Hc Hf];
    subst G; auto.
  - destruct i; discriminate.
  - (* app *)
    right. destruct (IH1 eq_refl) as [V1|[(f' & S1)|(S1 & V1 & R1)]].
    + destruct (canonical_pi _ _ _ _ _ _ H1 V1 (c0_refl _)) as (d & b & ->).
      destruct (IH2 eq_refl) as [V2|[(x' & S2)|(S2 & V2 & R2)]].
      * left. exists (open b 0 x 0). cbn [step is_value negb]. now rewrite (value_no_step _ V2), V2.
      * left. exists (TApp (TLam false d b) x'). cbn [step is_value negb]. now rewrite S2.
      * right. unfold div_stuck. cbn [step stuck_reason is_value negb]. now rewrite S2, V2.
    + left. exists (TApp f' x). cbn [step]. now rewrite S1.
    + right. unfold div_stuck. cbn [step stuck_reason is_value]. now rewrite S1, V1.
  - (* neg *)
    right. destruct (IH1 eq_refl) as [V1|[(f' & S1)|(S1 & V1 & R1)]].
    + destruct (canonical_int _ _ _ H1 V1 (c0_refl _)) as (z & ->). left. eexists. reflexivity.
    + left. exists (TNeg f'). cbn [step]. now rewrite S1.
    + right. unfold div_stuck. cbn [step stuck_reason is_value]. rewrite S1, V1. cbn [negb].
      repeat split; auto. destruct x; try reflexivity. discriminate.
  - (* bin *)
    right. destruct (IH1 eq_refl) as [V1|[(f' & S1)|(S1 & V1 & R1)]].
    + destruct (canonical_int _ _ _ H1 V1 (c0_refl _)) as (z1 & ->).
      destruct (IH2 eq_refl) as [V2|[(y' & S2)|(S2 & V2 & R2)]].
      * destruct (canonical_int _ _ _ H2 V2 (c0_refl _)) as (z2 & ->).
        destruct (arith o z1 z2) as [r|] eqn:A.
        -- left. exists r. cbn [step is_value negb]. exact A.
        -- right. unfold div_stuck. cbn [step stuck_reason is_value negb]. rewrite A.
           destruct (arith_none _ _ _ A) as [-> ->]. repeat split; reflexivity.
      * left. exists (TBin o (TLit z1) y'). cbn [step is_value negb]. now rewrite S2.
      * right. unfold div_stuck. cbn [step stuck_reason is_value negb]. rewrite S2, V2. cbn [negb].
        repeat split; auto. destruct y; try reflexivity. discriminate.
    + left. exists (TBin o f' y). cbn [step]. now rewrite S1.
    + right. unfold div_stuck. cbn [step stuck_reason is_value]. now rewrite S1, V1.
  - (* if *)
    right. destruct (IH1 eq_refl) as [V1|[(f' & S1)|(S1 & V1 & R1)]].
    + destruct (canonical_bool _ _ _ H1 V1 (c0_refl _)) as [-> | ->]; left; eexists; reflexivity.
    + left. exists (TIf f' x y). cbn [step]. now rewrite S1.
    + right. unfold div_stuck. cbn [step stuck_reason is_value]. rewrite S1, V1. cbn [negb].
      repeat split; auto. destruct c; try reflexivity; discriminate.
Qed.

(* ---------- preservation ---------- *)
Lemma arith_typed G o x y r : arith o x y = Some r -> has_type0 G r (bin_ty o).
Proof.
  destruct o; cbn; try (intros [= <-]; constructor);
    try (intros [= <-]; match goal with |- context[if ?b then _ else _] => destruct b end; constructor).
  destruct (y =? 0)%Z; [discriminate|]. intros [= <-]. constructor.
Qed.

Theorem preservation G t T : has_type0 G t T -> forall t', step t = Some t' -> has_type0 G t' T.
Proof.
  intros H. induction H as
    [G|G|G|G|G|G z|G i X H Hf|G im d b B0 _ IH1 _ IH2|G im d b _ IH1 _ IH2|G f x X B0 H1 IH1 H2 IH2
    |G x H1 IH1|G o x y H1 IH1 H2 IH2|G c x y X H1 IH1 H2 IH2 H3 IH3|G t X B0 H1 IH1 Hc Hf];
    intros t' Hs; cbn [step] in Hs; try discriminate.
  - (* app *)
    destruct (has_type0_hf _ _ _ H1) as [Ff HP]. cbn [hole_free] in HP. split_hf.
    destruct (has_type0_hf _ _ _ H2) as [Fx FX].
    destruct (step f) as [f'|] eqn:S1.
    + injection Hs as <-. eapply t0_app; eauto.
    + destruct (is_value f); cbn [negb] in Hs; [|discriminate].
      destruct (step x) as [x'|] eqn:S2.
      * injection Hs as <-.
        destruct (step_pred _ _ Fx (has_type0_no_let _ _ _ H2) S2) as [P _].
        eapply t0_conv; [eapply t0_app; [exact H1 | eauto] | | now apply hole_free_open].
        apply c0_sym, pred_conv0. apply pred_open; auto using pred_refl.
      * destruct (is_value x); cbn [negb] in Hs; [|discriminate].
        destruct f; try discriminate. injection Hs as <-.
        destruct (lam_gen _ _ _ _ _ H1) as (B1 & K1 & K2 & K3).
        destruct (has_type0_hf _ _ _ K2) as [_ FB1]. destruct (has_type0_hf _ _ _ K1) as [Fd _].
        apply conv0_pi_inj in K3 as (-> & Cd & CB); auto.
        eapply t0_conv; [eapply substitution0; [exact K2|] | | now apply hole_free_open].
        -- eapply t0_conv; [exact H2 | now apply c0_sym | assumption].
        -- apply conv0_open; auto.
  - (* neg *)
    destruct (step x) as [x'|] eqn:S1.
    + injection Hs as <-. constructor; auto.
    + destruct x; try discriminate. injection Hs as <-. constructor.
  - (* bin *)
    destruct (step x) as [x'|] eqn:S1.
    + injection Hs as <-. constructor; auto.
    + destruct (is_value x); cbn [negb] in Hs; [|discriminate].
      destruct (step y) as [y'|] eqn:S2.
      * injection Hs as <-. constructor; auto.
      * destruct x; try discriminate. destruct y; try discriminate. eapply arith_typed; eauto.
  - (* if *)
    destruct (step c) as [c'|] eqn:S1.
    + injection Hs as <-. constructor; auto.
    + destruct c; try discriminate; injection Hs as <-; assumption.
  - (* conv *)
    eapply t0_conv; eauto.
Qed.

(* the checker's own reduction (weak-head steps, arguments not evaluated first) preserves types too *)
Theorem preservation_red0 G t T : has_type0 G t T -> forall t', red0 t t' -> has_type0 G t' T.
Proof.
  intros H. induction H as
    [G|G|G|G|G|G z|G i X H Hf|G im d b B0 _ IH1 _ IH2|G im d b _ IH1 _ IH2|G f x X B0 H1 IH1 H2 IH2
    |G x H1 IH1|G o x y H1 IH1 H2 IH2|G c x y X H1 IH1 H2 IH2 H3 IH3|G t X B0 H1 IH1 Hc Hf];
    intros t' Hr; try (inversion Hr; fail).
  - (* app *)
    destruct (has_type0_hf _ _ _ H1) as [Ff HP]. cbn [hole_free] in HP. split_hf.
    destruct (has_type0_hf _ _ _ H2) as [Fx FX].
    inversion Hr; subst.
    + destruct (lam_gen _ _ _ _ _ H1) as (B1 & K1 & K2 & K3).
      destruct (has_type0_hf _ _ _ K2) as [_ FB1]. destruct (has_type0_hf _ _ _ K1) as [Fd _].
      apply conv0_pi_inj in K3 as (-> & Cd & CB); auto.
      eapply t0_conv; [eapply substitution0; [exact K2|] | | now apply hole_free_open].
      * eapply t0_conv; [exact H2 | now apply c0_sym | assumption].
      * apply conv0_open; auto.
    + eapply t0_app; eauto.
  - inversion Hr; subst; [constructor | constructor; auto].
  - inversion Hr; subst; [eapply arith_typed; eauto | constructor; auto | constructor; auto].
  - inversion Hr; subst; [assumption | assumption | constructor; auto].
  - eapply t0_conv; eauto.
Qed.

(* ---------- type safety ---------- *)
Theorem type_safety : forall f t T v, has_type0 [] t T -> evaluate f t = Some v ->
  has_type0 [] v T /\ (is_value v = true \/ div_stuck v).
Proof.
  induction f as [|f IH]; intros t T v H E; cbn [evaluate] in E; [discriminate|].
  destruct (step t) as [t'|] eqn:S.
  - apply (IH t' T v); [eapply preservation; eauto | exact E].
  - injection E as <-. split; [assumption|].
    destruct (progress _ _ H) as [V|[(t' & S')|D]]; auto. congruence.
Qed.

(* a well-typed closed program of type int / bool that evaluates to a value evaluates to a literal / boolean *)
Corollary eval_int f t v : has_type0 [] t TInt -> evaluate f t = Some v -> (exists z, v = TLit z) \/ div_stuck v.
Proof.
  intros H E. destruct (type_safety _ _ _ _ H E) as [Hv [V|D]]; auto.
  left. eapply canonical_int; eauto using c0_refl.
Qed.
Corollary eval_bool f t v : has_type0 [] t TBool -> evaluate f t = Some v -> (v = TTrue \/ v = TFalse) \/ div_stuck v.
Proof.
  intros H E. destruct (type_safety _ _ _ _ H E) as [Hv [V|D]]; auto.
  left. eapply canonical_bool; eauto using c0_refl.
Qed.

(* non-vacuity *)
Example ex_typed :
  has_type0 [] (TApp (TLam false TInt (TIf (TBin OLt (TVar 0) (TLit 10)) (TBin OProd (TVar 0) (TLit 2)) (TNeg (TVar 0))))
                     (TBin OSum (TLit 3) (TLit 4))) TInt.
Proof.
  apply (t0_app [] _ _ TInt TInt).
  - apply t0_lam; [constructor|].
    assert (V : has_type0 [TInt] (TVar 0) TInt) by (apply (t0_var [TInt] 0 TInt); reflexivity).
    apply t0_if; [apply (t0_bin _ OLt) | apply (t0_bin _ OProd) | apply t0_neg]; auto; constructor.
  - apply (t0_bin _ OSum); constructor.
Qed.
(* a dependent example: the polymorphic identity applied at int; the conversion rule is exercised *)
Example ex_poly :
  has_type0 [] (TApp (TApp (TLam false TType (TLam false (TVar 0) (TVar 0))) TInt) (TLit 3)) TInt.
Proof.
  apply (t0_app [] _ _ TInt TInt); [|constructor].
  apply (t0_app [] _ TInt TType (TPi false (TVar 0) (TVar 1))); [|constructor].
  apply t0_lam; [constructor|]. apply t0_lam.
  - apply (t0_var [TType] 0 TType); reflexivity.
  - apply (t0_var [TVar 0; TType] 0 (TVar 0)); reflexivity.
Qed.
Example ex_div_stuck :
  has_type0 [] (TBin OQuot (TLit 1) (TLit 0)) TInt /\ div_stuck (TBin OQuot (TLit 1) (TLit 0)).
Proof. split; [apply (t0_bin _ OQuot); constructor | repeat split; reflexivity]. Qed.

(* FINDING (by design of c_lam): convertible terms need not have the same types, because the
   annotation on the bound variable of a function is ignored by conversion but not by typing *)
Example conv0_not_type_preserving :
  conv0 (TLam false TInt (TVar 0)) (TLam false TBool (TVar 0)) /\
  has_type0 [] (TLam false TInt (TVar 0)) (TPi false TInt TInt) /\
  ~ has_type0 [] (TLam false TBool (TVar 0)) (TPi false TInt TInt).
Proof.
  split; [apply c0_lam, c0_refl|]. split.
  - apply t0_lam; [constructor|]. apply (t0_var [TInt] 0 TInt); reflexivity.
  - intros H. apply lam_gen in H as (B & _ & _ & C).
    apply conv0_pi_inj_strip in C as (_ & C & _). cbn [strip] in C. apply conv0_int_bool. now apply c0_sym.
Qed.

Print Assumptions has_type0_has_type.
Print Assumptions preservation_red0.
Print Assumptions conv0_not_type_preserving.
Print Assumptions weakening.
Print Assumptions substitution.
Print Assumptions canonical_int.
Print Assumptions canonical_bool.
Print Assumptions canonical_pi.
Print Assumptions progress.
Print Assumptions preservation.
Print Assumptions type_safety.
