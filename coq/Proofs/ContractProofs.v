(* A failing stage of the models returns a non-empty error list (C14). *)
From Coq Require Import List ZArith NArith Bool Arith.
Import ListNotations.
Require Import Gram.Model.Term Gram.Model.Token Gram.Gen.TokenTables Gram.Model.Tokenizer.
Require Import Gram.Model.Grammar Gram.Model.Parser Gram.Model.ParserPost.

Theorem tokenize_errors_nonempty : forall gend cs es, tokenize gend cs = Err es -> es <> [].
Proof.
  intros gend cs es. unfold tokenize.
  destruct (errs (lex gend cs 0 Start {| toks := []; errs := [] |})) as [|e r] eqn:E.
  - destruct (filter2 _); discriminate.
  - intros [= <-]. cbn [rev]. intros H. apply app_eq_nil in H. destruct H as [_ H]. discriminate H.
Qed.

Theorem parse_errors_nonempty : forall toks memo ctx n, fst (fst (parse_top toks memo ctx)) = PErr n -> n <> 0.
Proof.
  intros toks memo ctx n. unfold parse_top.
  destruct (parse_stage1 toks memo) as [[st m] sc] eqn:E. cbn [fst].
  destruct st as [|e| |t]; try discriminate.
  - (* errors of stage 1: the count is non-zero by the test in parse_stage1_ *)
    intros [= <-]. unfold parse_stage1, parse_stage1_ in E.
    destruct (parse _ _ _ _ _ _ _ _) as [r s]. destruct r as [|t nx c]; [discriminate|].
    destruct (Nat.eqb (nerrs t) 0) eqn:Z; cbn [negb] in E.
    + destruct (N.eqb nx _); cbn [negb] in E; [destruct (has_error_node t); discriminate|]. injection E as <- _ _. discriminate.
    + injection E as <- _ _. now apply Nat.eqb_neq in Z.
  - destruct (resolve _ _ _ _ _) as [[rt c] s]. destruct (check_definitions rt); [|destruct (Nat.eqb _ 0); discriminate].
    destruct (Nat.eqb (rerrs s + errs) 0) eqn:Z; [discriminate|]. intros [= <-]. now apply Nat.eqb_neq in Z.
Qed.
