(* Scoping of terms WITH holes and of the hole store on Model B (C12 "unification succeeds only with a
   well-scoped solution", C14/C18 "the checker never indexes a context out of bounds").

   A hole `THole id sh` met at local depth n is cell `id` read `sh` binders below where it was written:
   its HOME depth is n - sh.  The invariant (wsc H lim n t / store_ok H s / dctx_ok H D) says
     - every variable is in scope;
     - every cell has ONE home depth (H : list nat, one entry per cell), the same at every occurrence;
     - every recorded solution is well scoped at the home depth of its cell;
     - no hole is LOCAL to the term that mentions it: a hole never sits under more binders of the
       enclosing term than its own shift.  (The bound `lim`: every hole's home is <= lim; the judgement
       for a term standing at depth n is `wsc H n n t`, under a binder it becomes `wsc H n (S n) body`.)

   PROVED (no assumptions):
     sshiftB_wsc / ushiftB_wsc / lowerB_wsc   signed shift, raising, lowering (when it succeeds)
     openB_ok, openB_beta_ok                  substitution; fresh cells get the home of the occurrence
     let_substB_ok, let_substB_group_ok       the group loop of the normaliser
     whnfB_ok                                 weak-head normalisation under dctx_ok
     solve_ok                                 THE KEY LEMMA: the term that `solve` records is well scoped at the
                                              home of the assigned cell (that is what the lowering guard is for)
     unifyB_ok, unifyB_solutions_scoped, unifyB_solutions_zonk_scoped
     whnfK_agree, whnfB_lookup_in_bounds, unifyB_lookup_in_bounds
                                              the normaliser / unifier with a bounds-CHECKED context lookup
                                              (whnfK / unifyK abort on a miss) compute the same results
     zonkB_wsc, wsc_scoped                    reading results back; agreement with `scoped` on hole-free terms
     expectB_ok, tcB_var_ok                   the two checker steps that do preserve the invariant

   DISPROVED (module CE, CE2; closed computations): the side condition "no local hole" is necessary, and
   the type checker does NOT maintain it, so there is no tcB theorem:
     CE.unify_local_hole_breaks_scoping   two unifyB calls on naively well-scoped inputs; afterwards a cell of
                                          home depth 0 reads back as a term with a free variable
     CE.tcB_elaborates_ill_scoped         a closed program accepted by parse(), checked WITHOUT any error, whose
                                          elaborated term and type are ill scoped (index 2 at depth 2)
     CE.tcB_wrong_variable                under one more binder the same program is accepted at the UNSOUND type
                                          (g f : Type) -> ((a : Type) -> g) -> ((a : Type) -> f)
     CE.tcB_lookup_out_of_bounds          ... and on which the checker then asks the normaliser for index 2 of a
                                          definitions context of length 2 (unifyK aborts where unifyB goes on)
     CE2.raise_rehomes_local_hole         the root cause: raising leaves the shift of a hole under a binder of the
                                          raised term unchanged, so the same cell acquires a second home depth
     CE2.tcB_leaves_invariant             tcB started inside the invariant computes a type with a local hole *)
From Coq Require Import List ZArith NArith Lia Bool Arith.
Import ListNotations.
Require Import Gram.Model.Term Gram.Model.DeBruijn Gram.Model.ModelB.
Require Import Gram.Proofs.ModelBProofs Gram.Proofs.StoreProofs Gram.Proofs.ModelBHoleFree.
Require Import Gram.Model.Token Gram.Model.Grammar Gram.Model.Parser Gram.Model.ParserPost Gram.Proofs.ScopedProofs.

(* ================= (1) definitions ================= *)

Fixpoint wsc (H : list nat) (lim n : nat) (t : term) : Prop :=
  match t with
  | THole id sh => sh <= n /\ nth_error H id = Some (n - sh) /\ n - sh <= lim
  | TVar i => i < n
  | TLam _ a b | TPi _ a b => wsc H lim n a /\ wsc H lim (S n) b
  | TApp a b | TBin _ a b => wsc H lim n a /\ wsc H lim n b
  | TLet ds b =>
      (fix go (l : list (term * term)) : Prop :=
         match l with
         | [] => True
         | p :: r => (wsc H lim (length ds + n) (fst p) /\ wsc H lim (length ds + n) (snd p)) /\ go r
         end) ds /\ wsc H lim (length ds + n) b
  | TNeg a => wsc H lim n a
  | TIf c a b => wsc H lim n c /\ wsc H lim n a /\ wsc H lim n b
  | _ => True
  end.

Definition wsc_pair (H : list nat) (lim m : nat) (p : term * term) : Prop :=
  wsc H lim m (fst p) /\ wsc H lim m (snd p).

Lemma wsc_let H lim n ds b :
  wsc H lim n (TLet ds b) <-> Forall (wsc_pair H lim (length ds + n)) ds /\ wsc H lim (length ds + n) b.
Proof.
  cbn [wsc]. generalize (length ds + n) as m. intros m.
  assert (E : forall l, (fix go (l : list (term * term)) : Prop :=
         match l with [] => True | p :: r => (wsc H lim m (fst p) /\ wsc H lim m (snd p)) /\ go r end) l
         <-> Forall (wsc_pair H lim m) l).
  { induction l as [|p l IH]; [split; auto|]. rewrite IH. split.
    - intros [A B]. constructor; assumption.
    - intros F. inversion F; subst. split; assumption. }
  rewrite E. reflexivity.
Qed.

Definition store_ok (H : list nat) (s : storeB) : Prop :=
  length H = length s /\
  forall id sol, sget s id = Some sol -> exists h, nth_error H id = Some h /\ wsc H h h sol.

Definition hext (H H' : list nat) : Prop := exists L, H' = H ++ L.

(* entry p of a definitions context of length n: written `off` binders deeper than its own position *)
Definition dctx_ok (H : list nat) (D : dctx) : Prop :=
  forall p d off, nth_error D p = Some (Some (d, off)) ->
    off <= p + 1 /\ wsc H (length D - p - 1 + off) (length D - p - 1 + off) d.

Lemma hext_refl H : hext H H. Proof. exists []. now rewrite app_nil_r. Qed.
Lemma hext_trans A B C : hext A B -> hext B C -> hext A C.
Proof. intros [L ->] [M ->]. exists (L ++ M). now rewrite app_assoc. Qed.

Lemma hext_nth H H' id h : hext H H' -> nth_error H id = Some h -> nth_error H' id = Some h.
Proof.
  intros [L ->] E. rewrite nth_error_app1; [exact E|]. apply nth_error_Some. congruence.
Qed.

Lemma Forall_pair_map (P Q : term -> Prop) (l : list (term * term)) :
  Forall (fun p => (P (fst p) -> Q (fst p)) /\ (P (snd p) -> Q (snd p))) l ->
  Forall (fun p => P (fst p) /\ P (snd p)) l -> Forall (fun p => Q (fst p) /\ Q (snd p)) l.
Proof.
  induction 1 as [|p l [A B] _ IH]; intros F; [constructor|]. inversion F as [|? ? [Pa Pb] Fl]; subst.
  constructor; [split; auto | auto].
Qed.

Lemma wsc_hext : forall t H H' lim n, hext H H' -> wsc H lim n t -> wsc H' lim n t.
Proof.
  induction t using term_ind'; intros H0 H' lim n X W; try exact I; cbn [wsc] in *.
  - destruct W as (A & B & C). split; [exact A|]. split; [eapply hext_nth; eauto | exact C].
  - exact W.
  - destruct W; split; eauto.
  - destruct W; split; eauto.
  - destruct W; split; eauto.
  - change (wsc H0 lim n (TLet ds t)) in W. change (wsc H' lim n (TLet ds t)). rewrite wsc_let in *.
    destruct W as [F B]. split; [|eauto].
    eapply Forall_pair_map; [|exact F]. eapply Forall_impl; [|exact H]. intros p [Q1 Q2]. split; eauto.
  - eauto.
  - destruct W; split; eauto.
  - destruct W as (A & B & C); repeat split; eauto.
Qed.

Lemma wsc_lim : forall t H lim lim' n, lim <= lim' -> wsc H lim n t -> wsc H lim' n t.
Proof.
  induction t using term_ind'; intros H0 lim lim' n X W; try exact I; cbn [wsc] in *.
  - destruct W as (A & B & C). repeat split; [exact A | exact B | lia].
  - exact W.
  - destruct W; split; eauto.
  - destruct W; split; eauto.
  - destruct W; split; eauto.
  - change (wsc H0 lim n (TLet ds t)) in W. change (wsc H0 lim' n (TLet ds t)). rewrite wsc_let in *.
    destruct W as [F B]. split; [|eauto].
    eapply Forall_pair_map; [|exact F]. eapply Forall_impl; [|exact H]. intros p [Q1 Q2]. split; eauto.
  - eauto.
  - destruct W; split; eauto.
  - destruct W as (A & B & C); repeat split; eauto.
Qed.

Lemma store_ok_sget H s id sol n sh lim :
  store_ok H s -> wsc H lim n (THole id sh) -> sget s id = Some sol -> wsc H (n - sh) (n - sh) sol.
Proof.
  intros [_ S] (A & B & C) G. destruct (S _ _ G) as (h & Eh & W). rewrite B in Eh. injection Eh as <-. exact W.
Qed.

Lemma dctx_ok_hext H H' D : hext H H' -> dctx_ok H D -> dctx_ok H' D.
Proof. intros X Dk p d off E. destruct (Dk _ _ _ E) as [A B]. split; [exact A | eapply wsc_hext; eauto]. Qed.

Lemma dctx_ok_cons_None H D : dctx_ok H D -> dctx_ok H (None :: D).
Proof.
  intros Dk [|p] d off E; cbn [nth_error] in E; [discriminate|]. destruct (Dk _ _ _ E) as [A B].
  split; [lia|]. cbn [length]. replace (S (length D) - S p - 1 + off) with (length D - p - 1 + off) by lia. exact B.
Qed.

(* ================= (2a) signed shift ================= *)

Lemma shift_idx_ge i c z j : shift_idx i c z = Some j -> c <= i -> (Z.of_nat j = Z.of_nat i + z)%Z /\ c <= j.
Proof.
  unfold shift_idx. intros E L. apply Nat.leb_le in L. rewrite L in E.
  destruct (Z.leb_spec (Z.of_nat c) (Z.of_nat i + z)); [|discriminate]. injection E as <-. lia.
Qed.
Lemma shift_idx_lt i c z j : shift_idx i c z = Some j -> i < c -> j = i.
Proof.
  unfold shift_idx. intros E L. destruct (Nat.leb_spec c i); [lia|]. now injection E as <-.
Qed.

Lemma sshiftB_defs_wsc f s c z (P Q : term -> Prop) :
  (forall t t', P t -> sshiftB f s t c z = Some (Some t') -> Q t') ->
  forall l l', Forall (fun p => P (fst p) /\ P (snd p)) l -> sshiftB_defs f s c z l = Some (Some l') ->
    Forall (fun p => Q (fst p) /\ Q (snd p)) l' /\ length l' = length l.
Proof.
  intros IH. induction l as [|[a d] l IHl]; intros l' F E; cbn [sshiftB_defs] in E.
  - injection E as <-. split; [constructor | reflexivity].
  - inversion F as [|? ? [Pa Pd] Fl]; subst. cbn [fst snd] in *.
    destruct (sshiftB f s a c z) as [[a'|]|] eqn:A; try discriminate;
    destruct (sshiftB f s d c z) as [[d'|]|] eqn:Dd; try discriminate;
    destruct (sshiftB_defs f s c z l) as [[r'|]|] eqn:R; try discriminate.
    injection E as <-. destruct (IHl _ Fl eq_refl) as [F' L']. split; [|cbn; lia].
    constructor; [split; cbn [fst snd]; eauto | exact F'].
Qed.

(* t lives at depth n, its holes have home <= lim <= n - c; the result lives at depth m = n + z *)
Theorem sshiftB_wsc : forall f s H, store_ok H s ->
  forall t c z lim n m t', wsc H lim n t -> lim + c <= n -> Z.of_nat m = (Z.of_nat n + z)%Z -> c <= m ->
  sshiftB f s t c z = Some (Some t') -> wsc H (Nat.min lim (m - c)) m t'.
Proof.
  induction f as [|f IH]; intros s H Sk t c z lim n m t' W Hl Hm Hc E; [discriminate|].
  assert (IH' : forall t c lim n m t', wsc H lim n t -> lim + c <= n -> Z.of_nat m = (Z.of_nat n + z)%Z -> c <= m ->
            sshiftB f s t c z = Some (Some t') -> forall L, Nat.min lim (m - c) = L -> wsc H L m t').
  { intros; subst. eapply (IH s H Sk); eauto. }
  destruct t; cbn [sshiftB] in E; cbv zeta in E.
  - (* hole *)
    destruct (sget s id) as [sol|] eqn:G.
    + pose proof (store_ok_sget _ _ _ _ _ _ _ Sk W G) as Ws. destruct W as (A & B & C).
      destruct (sshiftB f s sol 0 (Z.of_nat shift)) as [[sol'|]|] eqn:S1; try discriminate.
      assert (W1 : wsc H (Nat.min (n - shift) (n - 0)) n sol').
      { eapply (IH s H Sk sol 0 (Z.of_nat shift) (n - shift) (n - shift) n sol'); eauto; lia. }
      eapply wsc_lim; [|eapply (IH' sol' c (Nat.min (n - shift) (n - 0)) n m t'); eauto; lia]. lia.
    + destruct W as (A & B & C).
      destruct (shift_idx shift c z) as [j|] eqn:Sj; [|discriminate]. injection E as <-.
      destruct (shift_idx_ge _ _ _ _ Sj) as [Ej Lj]; [lia|]. cbn [wsc].
      assert (m - j = n - shift) by lia. repeat split; [lia | congruence | lia].
  - injection E as <-; exact I.
  - injection E as <-; exact I.
  - injection E as <-; exact I.
  - injection E as <-; exact I.
  - injection E as <-; exact I.
  - injection E as <-; exact I.
  - (* var *)
    cbn [wsc] in W. destruct (shift_idx i c z) as [j|] eqn:Sj; [|discriminate]. injection E as <-. cbn [wsc].
    destruct (Nat.lt_ge_cases i c) as [Lt|Ge].
    + rewrite (shift_idx_lt _ _ _ _ Sj Lt). lia.
    + destruct (shift_idx_ge _ _ _ _ Sj Ge). lia.
  - (* lam *)
    destruct W as [W1 W2].
    destruct (sshiftB f s t1 c z) as [[a'|]|] eqn:A; try discriminate; destruct (sshiftB f s t2 (S c) z) as [[b'|]|] eqn:B; try discriminate.
    injection E as <-. cbn [wsc]. split; [eapply (IH' t1 c lim n m); eauto|].
    eapply (IH' t2 (S c) lim (S n) (S m)); eauto; lia.
  - (* pi *)
    destruct W as [W1 W2].
    destruct (sshiftB f s t1 c z) as [[a'|]|] eqn:A; try discriminate; destruct (sshiftB f s t2 (S c) z) as [[b'|]|] eqn:B; try discriminate.
    injection E as <-. cbn [wsc]. split; [eapply (IH' t1 c lim n m); eauto|].
    eapply (IH' t2 (S c) lim (S n) (S m)); eauto; lia.
  - (* app *)
    destruct W as [W1 W2].
    destruct (sshiftB f s t1 c z) as [[a'|]|] eqn:A; try discriminate; destruct (sshiftB f s t2 c z) as [[b'|]|] eqn:B; try discriminate.
    injection E as <-. cbn [wsc]. split; [eapply (IH' t1 c lim n m); eauto | eapply (IH' t2 c lim n m); eauto].
  - (* let *)
    change (wsc H lim n (TLet defs t)) in W. apply wsc_let in W. destruct W as [Wd Wb].
    change (match sshiftB_defs f s (length defs + c) z defs with
            | Some ds' => match sshiftB f s t (length defs + c) z with
                          | Some b' => Some (match ds', b' with Some x, Some y => Some (TLet x y) | _, _ => None end)
                          | None => None end
            | None => None end = Some (Some t')) in E.
    destruct (sshiftB_defs f s (length defs + c) z defs) as [[ds'|]|] eqn:E1; try discriminate;
    destruct (sshiftB f s t (length defs + c) z) as [[b'|]|] eqn:E2; try discriminate.
    injection E as <-.
    assert (Em : m - c = (length defs + m) - (length defs + c)) by lia.
    destruct (sshiftB_defs_wsc f s (length defs + c) z (wsc H lim (length defs + n)) (wsc H (Nat.min lim (m - c)) (length defs + m))) with (l := defs) (l' := ds') as [F' L']; auto.
    { intros u u' Pu Eu. eapply (IH' u (length defs + c) lim (length defs + n)); eauto; lia. }
    apply wsc_let. rewrite L'. split; [exact F'|].
    eapply (IH' t (length defs + c) lim (length defs + n)); eauto; lia.
  - (* neg *)
    destruct (sshiftB f s t c z) as [[a'|]|] eqn:A; try discriminate. injection E as <-. cbn [wsc] in *. eapply (IH' t c lim n m); eauto.
  - (* bin *)
    destruct W as [W1 W2].
    destruct (sshiftB f s t1 c z) as [[a'|]|] eqn:A; try discriminate; destruct (sshiftB f s t2 c z) as [[b'|]|] eqn:B; try discriminate.
    injection E as <-. cbn [wsc]. split; [eapply (IH' t1 c lim n m); eauto | eapply (IH' t2 c lim n m); eauto].
  - (* if *)
    destruct W as (W1 & W2 & W3).
    destruct (sshiftB f s t1 c z) as [[a'|]|] eqn:A; try discriminate; destruct (sshiftB f s t2 c z) as [[b'|]|] eqn:B; try discriminate;
      destruct (sshiftB f s t3 c z) as [[e'|]|] eqn:C; try discriminate.
    injection E as <-. cbn [wsc]. repeat split; [eapply (IH' t1 c lim n m) | eapply (IH' t2 c lim n m) | eapply (IH' t3 c lim n m)]; eauto.
Qed.

(* raising: total, the limit is kept *)
Corollary ushiftB_wsc f s H t c k lim n t' :
  store_ok H s -> wsc H lim n t -> lim + c <= n -> ushiftB f s t c k = Some t' -> wsc H lim (n + k) t'.
Proof.
  intros Sk W Hl E. unfold ushiftB in E.
  destruct (sshiftB f s t c (Z.of_nat k)) as [[u|]|] eqn:S1; try discriminate. injection E as <-.
  eapply wsc_lim; [|eapply (sshiftB_wsc f s H Sk t c (Z.of_nat k) lim n (n + k)); eauto; lia]. lia.
Qed.

(* lowering to the home of a hole: when it succeeds, the result is well scoped THERE *)
Corollary lowerB_wsc f s H t sh n t' :
  store_ok H s -> wsc H n n t -> sh <= n -> sshiftB f s t 0 (- Z.of_nat sh) = Some (Some t') ->
  wsc H (n - sh) (n - sh) t'.
Proof.
  intros Sk W Hl E.
  eapply wsc_lim; [|eapply (sshiftB_wsc f s H Sk t 0 (- Z.of_nat sh)%Z n n (n - sh)); eauto; lia]. lia.
Qed.

(* ================= (2b) substitution ================= *)

Lemma store_ok_alloc H s h : store_ok H s -> store_ok (H ++ [h]) (s ++ [None]).
Proof.
  intros [L S]. split; [rewrite !app_length; cbn; lia|]. intros id sol G.
  assert (Gr : grow s (s ++ [None])) by (exists 1; reflexivity).
  rewrite (grow_sget _ _ id Gr) in G. destruct (S _ _ G) as (h0 & E & W).
  exists h0. split; [eapply hext_nth; [eexists; reflexivity | exact E] | eapply wsc_hext; [eexists; reflexivity | exact W]].
Qed.

Lemma store_ok_hext_len H s H' s' : store_ok H s -> store_ok H' s' -> hext H H' -> length s <= length s'.
Proof. intros [L _] [L' _] [M ->]. rewrite <- L, <- L', app_length. lia. Qed.

(* t at depth n = S n1, variable i is replaced by x (which lives k binders further out than the result) *)
Definition open_ok (f : nat) : Prop :=
  forall s H t i x k lim lx n n1 nx L t' s',
    store_ok H s -> wsc H lim n t -> n = S n1 -> nx + k = n1 -> lim + k <= n -> k <= i -> i <= n1 ->
    wsc H lx nx x -> lx <= nx -> lx <= L -> Nat.min lim nx <= L ->
    openB f s t i x k = Some (t', s') ->
    exists H', hext H H' /\ store_ok H' s' /\ wsc H' L n1 t'.

Lemma openB_defs_ok f : open_ok f ->
  forall i x k lim lx n n1 nx L, n = S n1 -> nx + k = n1 -> lim + k <= n -> k <= i -> i <= n1 ->
    lx <= nx -> lx <= L -> Nat.min lim nx <= L ->
  forall l s H l' s', store_ok H s -> wsc H lx nx x -> Forall (wsc_pair H lim n) l ->
    openB_defs f i x k l s = Some (l', s') ->
    exists H', hext H H' /\ store_ok H' s' /\ Forall (wsc_pair H' L n1) l' /\ length l' = length l.
Proof.
  intros Ok i x k lim lx n n1 nx L En Ex Hl Hk Hi Hx HL HM.
  induction l as [|[a d] l IHl]; intros s H l' s' Sk Wx F E; cbn [openB_defs] in E.
  - injection E as <- <-. exists H. split; [apply hext_refl|]. split; [exact Sk|]. split; [constructor | reflexivity].
  - inversion F as [|? ? [Wa Wd] Fl]; subst l0 x0. cbn [fst snd] in *.
    destruct (openB f s a i x k) as [[a' s1]|] eqn:Ea; [|discriminate].
    destruct (Ok _ _ _ _ _ _ _ _ _ _ _ _ _ _ Sk Wa En Ex Hl Hk Hi Wx Hx HL HM Ea) as (H1 & X1 & Sk1 & Wa').
    destruct (openB f s1 d i x k) as [[d' s2]|] eqn:Ed; [|discriminate].
    destruct (Ok _ _ _ _ _ _ _ _ _ _ _ _ _ _ Sk1 (wsc_hext _ _ _ _ _ X1 Wd) En Ex Hl Hk Hi (wsc_hext _ _ _ _ _ X1 Wx) Hx HL HM Ed) as (H2 & X2 & Sk2 & Wd').
    destruct (openB_defs f i x k l s2) as [[r' s3]|] eqn:Er; [|discriminate]. injection E as <- <-.
    pose proof (hext_trans _ _ _ X1 X2) as X12.
    destruct (IHl s2 H2 r' s3 Sk2 (wsc_hext _ _ _ _ _ X12 Wx)) as (H3 & X3 & Sk3 & F3 & L3); auto.
    { eapply Forall_impl; [|exact Fl]. intros p [P1 P2]. split; eapply wsc_hext; eauto. }
    exists H3. split; [eauto using hext_trans|]. split; [exact Sk3|]. split; [|cbn; lia].
    constructor; [|exact F3]. split; cbn [fst snd]; [eapply wsc_hext; [exact (hext_trans _ _ _ X2 X3) | exact Wa'] | eapply wsc_hext; eauto].
Qed.

Ltac open_step Ok H E :=
  match type of E with
  | match openB ?f ?s ?t ?i ?x ?k with _ => _ end = Some _ =>
      let Eo := fresh "Eo" in let a := fresh "u" in let s1 := fresh "s" in
      destruct (openB f s t i x k) as [[a s1]|] eqn:Eo; [|discriminate E]
  end.

Theorem openB_ok : forall f, open_ok f.
Proof.
  induction f as [|f IH]; intros s H t i x k lim lx n n1 nx L t' s' Sk W En Ex Hl Hk Hi Wx Hx HL HM E; [discriminate|].
  destruct t; cbn [openB] in E.
  - (* hole *)
    destruct (sget s id) as [sol|] eqn:G.
    + pose proof (store_ok_sget _ _ _ _ _ _ _ Sk W G) as Ws. destruct W as (A & B & C).
      destruct (ushiftB f s sol 0 shift) as [sol'|] eqn:U; [|discriminate].
      assert (W1 : wsc H (n - shift) n sol').
      { replace n with (n - shift + shift) at 2 by lia. eapply ushiftB_wsc; eauto. lia. }
      eapply (IH s H sol' i x k (n - shift) lx n n1 nx L); eauto; lia.
    + destruct W as (A & B & C). unfold salloc in E. injection E as <- <-.
      destruct Sk as [Ls Ss]. pose proof (store_ok_alloc H s (n1 - (if i <? shift then shift - 1 else shift)) (conj Ls Ss)) as Sk'.
      eexists. split; [eexists; reflexivity|]. split; [exact Sk'|]. cbn [wsc].
      rewrite <- Ls, nth_error_app2, Nat.sub_diag by lia. cbn [nth_error].
      destruct (Nat.ltb_spec i shift); repeat split; lia.
  - injection E as <- <-. exists H. auto using hext_refl.
  - injection E as <- <-. exists H. auto using hext_refl.
  - injection E as <- <-. exists H. auto using hext_refl.
  - injection E as <- <-. exists H. auto using hext_refl.
  - injection E as <- <-. exists H. auto using hext_refl.
  - injection E as <- <-. exists H. auto using hext_refl.
  - (* var *)
    cbn [wsc] in W. destruct (Nat.eqb_spec i0 i) as [->|Ne].
    + destruct (ushiftB f s x 0 k) as [x'|] eqn:U; [|discriminate]. injection E as <- <-.
      exists H. split; [apply hext_refl|]. split; [exact Sk|].
      replace n1 with (nx + k) by lia. eapply wsc_lim; [|eapply ushiftB_wsc; eauto; lia]. lia.
    + injection E as <- <-. exists H. split; [apply hext_refl|]. split; [exact Sk|]. cbn [wsc]. unfold open_idx.
      destruct (Nat.ltb_spec i i0); lia.
  - (* lam *)
    destruct W as [W1 W2]. open_step IH H E.
    destruct (IH _ _ _ _ _ _ _ _ _ _ _ _ _ _ Sk W1 En Ex Hl Hk Hi Wx Hx HL HM Eo) as (H1 & X1 & Sk1 & Wa').
    open_step IH H E. injection E as <- <-.
    destruct (IH s0 H1 t2 (S i) x (S k) lim lx (S n) (S n1) nx L u0 s1) as (H2 & X2 & Sk2 & Wb'); eauto using wsc_hext; try lia.
    exists H2. split; [eauto using hext_trans|]. split; [exact Sk2|]. cbn [wsc]. split; eauto using wsc_hext.
  - (* pi *)
    destruct W as [W1 W2]. open_step IH H E.
    destruct (IH _ _ _ _ _ _ _ _ _ _ _ _ _ _ Sk W1 En Ex Hl Hk Hi Wx Hx HL HM Eo) as (H1 & X1 & Sk1 & Wa').
    open_step IH H E. injection E as <- <-.
    destruct (IH s0 H1 t2 (S i) x (S k) lim lx (S n) (S n1) nx L u0 s1) as (H2 & X2 & Sk2 & Wb'); eauto using wsc_hext; try lia.
    exists H2. split; [eauto using hext_trans|]. split; [exact Sk2|]. cbn [wsc]. split; eauto using wsc_hext.
  - (* app *)
    destruct W as [W1 W2]. open_step IH H E.
    destruct (IH _ _ _ _ _ _ _ _ _ _ _ _ _ _ Sk W1 En Ex Hl Hk Hi Wx Hx HL HM Eo) as (H1 & X1 & Sk1 & Wa').
    open_step IH H E. injection E as <- <-.
    destruct (IH s0 H1 t2 i x k lim lx n n1 nx L u0 s1) as (H2 & X2 & Sk2 & Wb'); eauto using wsc_hext; try lia.
    exists H2. split; [eauto using hext_trans|]. split; [exact Sk2|]. cbn [wsc]. split; eauto using wsc_hext.
  - (* let *)
    change (wsc H lim n (TLet defs t)) in W. apply wsc_let in W. destruct W as [Wd Wb].
    change (match openB_defs f (length defs + i) x (length defs + k) defs s with
            | Some r => let '(ds', s1) := r in
                match openB f s1 t (length defs + i) x (length defs + k) with
                | Some q => let '(b', s2) := q in Some (TLet ds' b', s2)
                | None => None end
            | None => None end = Some (t', s')) in E.
    destruct (openB_defs f (length defs + i) x (length defs + k) defs s) as [[ds' s1]|] eqn:E1; [|discriminate].
    destruct (openB_defs_ok f IH (length defs + i) x (length defs + k) lim lx (length defs + n) (length defs + n1) nx L)
      with (l := defs) (s := s) (H := H) (l' := ds') (s' := s1) as (H1 & X1 & Sk1 & F1 & L1); auto; try lia.
    open_step IH H E. injection E as <- <-.
    destruct (IH s1 H1 t (length defs + i) x (length defs + k) lim lx (length defs + n) (length defs + n1) nx L u s0)
      as (H2 & X2 & Sk2 & Wb'); eauto using wsc_hext; try lia.
    exists H2. split; [eauto using hext_trans|]. split; [exact Sk2|]. apply wsc_let. rewrite L1. split; [|exact Wb'].
    eapply Forall_impl; [|exact F1]. intros p [P1 P2]. split; eapply wsc_hext; eauto.
  - (* neg *)
    cbn [wsc] in W. open_step IH H E. injection E as <- <-.
    destruct (IH _ _ _ _ _ _ _ _ _ _ _ _ _ _ Sk W En Ex Hl Hk Hi Wx Hx HL HM Eo) as (H1 & X1 & Sk1 & Wa').
    exists H1. auto.
  - (* bin *)
    destruct W as [W1 W2]. open_step IH H E.
    destruct (IH _ _ _ _ _ _ _ _ _ _ _ _ _ _ Sk W1 En Ex Hl Hk Hi Wx Hx HL HM Eo) as (H1 & X1 & Sk1 & Wa').
    open_step IH H E. injection E as <- <-.
    destruct (IH s0 H1 t2 i x k lim lx n n1 nx L u0 s1) as (H2 & X2 & Sk2 & Wb'); eauto using wsc_hext; try lia.
    exists H2. split; [eauto using hext_trans|]. split; [exact Sk2|]. cbn [wsc]. split; eauto using wsc_hext.
  - (* if *)
    destruct W as (W1 & W2 & W3). open_step IH H E.
    destruct (IH _ _ _ _ _ _ _ _ _ _ _ _ _ _ Sk W1 En Ex Hl Hk Hi Wx Hx HL HM Eo) as (H1 & X1 & Sk1 & Wa').
    open_step IH H E.
    destruct (IH s0 H1 t2 i x k lim lx n n1 nx L u0 s1) as (H2 & X2 & Sk2 & Wb'); eauto using wsc_hext; try lia.
    open_step IH H E. injection E as <- <-.
    pose proof (hext_trans _ _ _ X1 X2) as X12.
    destruct (IH s1 H2 t3 i x k lim lx n n1 nx L u1 s2) as (H3 & X3 & Sk3 & Wc'); eauto using wsc_hext; try lia.
    exists H3. split; [eauto using hext_trans|]. split; [exact Sk3|]. cbn [wsc].
    repeat split; eauto using wsc_hext, hext_trans.
Qed.


(* ================= (2c) the group loop of the normaliser ================= *)

Lemma subst_defs_ok f : open_ok f ->
  forall n i unf lim M M1, M = S M1 -> n - 1 - i <= M1 -> lim <= M1 ->
  forall l j s H l' s', store_ok H s -> wsc H lim M1 unf ->
    (forall q p, nth_error l q = Some p -> i <= j + q -> wsc_pair H lim M p) ->
    subst_defs f n i unf l j s = Some (l', s') ->
    exists H', hext H H' /\ store_ok H' s' /\ length l' = length l /\
      (forall q p, nth_error l' q = Some p -> i <= j + q -> wsc_pair H' lim M1 p).
Proof.
  intros Ok n i unf lim M M1 EM Hidx Hlim.
  induction l as [|[a d] l IHl]; intros j s H l' s' Sk Wu F E; cbn [subst_defs] in E.
  - injection E as <- <-. exists H. split; [apply hext_refl|]. split; [exact Sk|]. split; [reflexivity|].
    intros [|q] p Eq; discriminate Eq.
  - destruct (Nat.ltb_spec j i) as [Lt|Ge].
    + destruct (subst_defs f n i unf l (S j) s) as [[rest' s2]|] eqn:Er; [|discriminate]. injection E as <- <-.
      destruct (IHl (S j) s H rest' s2 Sk Wu) as (H1 & X1 & Sk1 & L1 & F1); auto.
      { intros q p Eq Hq. apply (F (S q) p Eq). lia. }
      exists H1. split; [exact X1|]. split; [exact Sk1|]. split; [cbn; lia|].
      intros [|q] p Eq Hq; [lia|]. cbn [nth_error] in Eq. apply (F1 q p Eq). lia.
    + destruct (F 0 (a, d) eq_refl) as [Wa Wd]; [lia|]. cbn [fst snd] in Wa, Wd.
      destruct (openB f s a (n - 1 - i) unf 0) as [[a' sa]|] eqn:Ea; [|discriminate].
      destruct (Ok s H a (n - 1 - i) unf 0 lim lim M M1 M1 lim a' sa) as (H1 & X1 & Sk1 & Wa'); auto; try lia.
      destruct (openB f sa d (n - 1 - i) unf 0) as [[d' sd]|] eqn:Ed; [|discriminate].
      destruct (Ok sa H1 d (n - 1 - i) unf 0 lim lim M M1 M1 lim d' sd) as (H2 & X2 & Sk2 & Wd'); auto; try lia; try (eapply wsc_hext; [exact X1|]; assumption).
      destruct (subst_defs f n i unf l (S j) sd) as [[rest' s2]|] eqn:Er; [|discriminate]. injection E as <- <-.
      pose proof (hext_trans _ _ _ X1 X2) as X12.
      destruct (IHl (S j) sd H2 rest' s2 Sk2 (wsc_hext _ _ _ _ _ X12 Wu)) as (H3 & X3 & Sk3 & L3 & F3); auto.
      { intros q p Eq Hq. destruct (F (S q) p Eq) as [P1 P2]; [lia|]. split; (eapply wsc_hext; [exact X12|]; assumption). }
      exists H3. split; [exact (hext_trans _ _ _ X12 X3)|]. split; [exact Sk3|]. split; [cbn; lia|].
      intros [|q] p Eq Hq; cbn [nth_error] in Eq.
      * injection Eq as <-. split; cbn [fst snd]; [eapply wsc_hext; [exact (hext_trans _ _ _ X2 X3) | exact Wa'] | eapply wsc_hext; [exact X3 | exact Wd']].
      * apply (F3 q p Eq). lia.
Qed.

(* the group `TLet ds body` sits at depth n0 with limit lim <= n0; after i rounds the remaining
   definitions and the body live at depth n0 + (n - i) *)
Theorem let_substB_ok : forall f s H n i ds body lim n0 M b' s',
  store_ok H s -> n = length ds -> M = n0 + (n - i) -> lim <= n0 -> wsc H lim M body ->
  (forall j p, nth_error ds j = Some p -> i <= 0 + j -> wsc_pair H lim M p) ->
  let_substB f s n i ds body = Some (b', s') ->
  exists H', hext H H' /\ store_ok H' s' /\ wsc H' lim n0 b'.
Proof.
  induction f as [|f IH]; intros s H n i ds body lim n0 M b' s' Sk En EM Hlim Wb F E; [discriminate|].
  cbn [let_substB] in E.
  destruct (Nat.leb_spec n i) as [L|L].
  { injection E as <- <-. exists H. split; [apply hext_refl|]. split; [exact Sk|]. replace n0 with M by lia. exact Wb. }
  destruct (nth_error ds i) as [[ann def]|] eqn:Eni.
  2:{ apply nth_error_None in Eni. exfalso. lia. }
  destruct (F i _ Eni) as [Wann Wdef]; [lia|]. cbn [fst snd] in Wann, Wdef.
  pose (M1 := n0 + (n - i - 1)). assert (EM1 : M = S M1) by (unfold M1; lia). clearbody M1.
  destruct (ushiftB f s ann 0 1) as [a1|] eqn:U1; [|discriminate].
  destruct (ushiftB f s def 0 1) as [d1|] eqn:U2; [|discriminate].
  assert (Wa1 : wsc H lim (M + 1) a1) by (eapply (ushiftB_wsc f s H ann 0 1 lim M a1); eauto; lia).
  assert (Wd1 : wsc H lim (M + 1) d1) by (eapply (ushiftB_wsc f s H def 0 1 lim M d1); eauto; lia).
  assert (Wv : forall H0, wsc H0 0 M (TVar 0)) by (intros; cbn [wsc]; lia).
  destruct (openB f s a1 (S (n - 1 - i)) (TVar 0) 0) as [[a2 s1]|] eqn:E1; [|discriminate].
  destruct (openB_ok f s H a1 (S (n - 1 - i)) (TVar 0) 0 lim 0 (M + 1) M M lim a2 s1) as (H1 & X1 & Sk1 & Wa2); auto; try lia.
  destruct (openB f s1 d1 (S (n - 1 - i)) (TVar 0) 0) as [[d2 s2]|] eqn:E2; [|discriminate].
  destruct (openB_ok f s1 H1 d1 (S (n - 1 - i)) (TVar 0) 0 lim 0 (M + 1) M M lim d2 s2) as (H2 & X2 & Sk2 & Wd2); auto; try lia; try (eapply wsc_hext; [exact X1|]; assumption).
  pose proof (hext_trans _ _ _ X1 X2) as X12.
  destruct (openB f s2 def (n - 1 - i) (TLet [(a2, d2)] (TVar 0)) 0) as [[unf s3]|] eqn:E3; [|discriminate].
  destruct (openB_ok f s2 H2 def (n - 1 - i) (TLet [(a2, d2)] (TVar 0)) 0 lim lim M M1 M1 lim unf s3) as (H3 & X3 & Sk3 & Wunf);
    auto; try lia; try (eapply wsc_hext; [exact X12|]; assumption).
  { cbn [wsc length fst snd]. change (1 + M1) with (S M1). rewrite <- EM1. repeat split; [eapply wsc_hext; [exact X2 | exact Wa2] | exact Wd2 | lia]. }
  pose proof (hext_trans _ _ _ X12 X3) as X13.
  change (match subst_defs f n i unf ds 0 s3 with
          | Some z => let '(ds', s4) := z in
              match openB f s4 body (n - 1 - i) unf 0 with
              | Some pb => let '(body', s5) := pb in let_substB f s5 n (S i) ds' body'
              | None => None end
          | None => None end = Some (b', s')) in E.
  destruct (subst_defs f n i unf ds 0 s3) as [[ds' s4]|] eqn:E4; [|discriminate].
  destruct (subst_defs_ok f (openB_ok f) n i unf lim M M1 EM1) with (l := ds) (j := 0) (s := s3) (H := H3) (l' := ds') (s' := s4)
    as (H4 & X4 & Sk4 & L4 & F4); auto; try lia.
  { intros q p Eq Hq. destruct (F q p Eq Hq) as [P1 P2]. split; (eapply wsc_hext; [exact X13|]; assumption). }
  pose proof (hext_trans _ _ _ X13 X4) as X14.
  destruct (openB f s4 body (n - 1 - i) unf 0) as [[body' s5]|] eqn:E5; [|discriminate].
  destruct (openB_ok f s4 H4 body (n - 1 - i) unf 0 lim lim M M1 M1 lim body' s5) as (H5 & X5 & Sk5 & Wb5);
    auto; try lia; try (eapply wsc_hext; [exact X14|]; assumption); try (eapply wsc_hext; [exact X4|]; assumption).
  destruct (IH s5 H5 n (S i) ds' body' lim n0 M1 b' s') as (H6 & X6 & Sk6 & W6); auto; try lia.
  { intros j p Ej Hj. destruct (F4 j p Ej) as [P1 P2]; [lia|]. split; (eapply wsc_hext; [exact X5|]; assumption). }
  exists H6. split; [|auto]. exact (hext_trans _ _ _ X14 (hext_trans _ _ _ X5 X6)).
Qed.

(* the two shapes in which the normaliser uses them *)
Corollary openB_beta_ok f s H body x n t' s' :
  store_ok H s -> wsc H n (S n) body -> wsc H n n x -> openB f s body 0 x 0 = Some (t', s') ->
  exists H', hext H H' /\ store_ok H' s' /\ wsc H' n n t'.
Proof. intros Sk Wb Wx E. apply (openB_ok f s H body 0 x 0 n n (S n) n n n t' s'); auto; lia. Qed.

Corollary let_substB_group_ok f s H ds b n b' s' :
  store_ok H s -> wsc H n n (TLet ds b) -> let_substB f s (length ds) 0 ds b = Some (b', s') ->
  exists H', hext H H' /\ store_ok H' s' /\ wsc H' n n b'.
Proof.
  intros Sk W E. apply wsc_let in W. destruct W as [Wd Wb].
  apply (let_substB_ok f s H (length ds) 0 ds b n n (length ds + n) b' s'); auto; try lia.
  intros j p Ej _. rewrite Forall_forall in Wd. exact (Wd _ (nth_error_In _ _ Ej)).
Qed.


(* ================= (2d) weak-head normalisation ================= *)

Lemma bin_whnf_wsc H l n o x y r : bin_whnf o x y = Some r -> wsc H l n r.
Proof.
  destruct o; cbn [bin_whnf]; intros E;
    repeat match type of E with context [if ?c then _ else _] => destruct c end;
    try discriminate E; injection E as <-; exact I.
Qed.

Lemma ushiftB_wsc' f s H t k lim n m L t' :
  store_ok H s -> wsc H lim n t -> lim <= n -> m = n + k -> lim <= L -> ushiftB f s t 0 k = Some t' -> wsc H L m t'.
Proof. intros Sk W Hl -> HL E. eapply wsc_lim; [exact HL|]. eapply ushiftB_wsc; eauto. lia. Qed.

Ltac done_here H Sk := exists H; split; [apply hext_refl|]; split; [exact Sk|].

Theorem whnfB_ok : forall f s H D t n t' s',
  store_ok H s -> dctx_ok H D -> n = length D -> wsc H n n t -> whnfB f s D t = Some (t', s') ->
  exists H', hext H H' /\ store_ok H' s' /\ wsc H' n n t'.
Proof.
  induction f as [|f IH]; intros s H D t n t' s' Sk Dk En W E; [discriminate|].
  destruct t; cbn [whnfB] in E; try (injection E as <- <-; done_here H Sk; exact W).
  - (* hole *)
    destruct (sget s id) as [sol|] eqn:G; [|injection E as <- <-; done_here H Sk; exact W].
    pose proof (store_ok_sget _ _ _ _ _ _ _ Sk W G) as Ws. destruct W as (A & B & C).
    destruct (ushiftB f s sol 0 shift) as [sol'|] eqn:U; [|discriminate].
    assert (W1 : wsc H n n sol').
    { eapply (ushiftB_wsc' f s H sol shift (n - shift) (n - shift) n n); eauto; lia. }
    eapply IH; eauto.
  - (* var *)
    cbn [wsc] in W.
    destruct (nth_error D i) as [[[d off]|]|] eqn:En'; try (injection E as <- <-; done_here H Sk; exact W).
    destruct (Dk _ _ _ En') as [Ho Wd].
    destruct (ushiftB f s d 0 (i + 1 - off)) as [d'|] eqn:U; [|discriminate].
    assert (W1 : wsc H n n d').
    { eapply (ushiftB_wsc' f s H d (i + 1 - off) _ (length D - i - 1 + off) n n); eauto; lia. }
    eapply IH; eauto.
  - (* app *)
    destruct W as [W1 W2].
    destruct (whnfB f s D t1) as [[a' s1]|] eqn:E1; [|discriminate].
    destruct (IH _ _ _ _ _ _ _ Sk Dk En W1 E1) as (H1 & X1 & Sk1 & Wa).
    pose proof (wsc_hext _ _ _ _ _ X1 W2) as W2'.
    destruct a'; try (injection E as <- <-; exists H1; split; [exact X1|]; split; [exact Sk1|]; cbn [wsc]; split; [exact Wa | exact W2']).
    destruct Wa as [_ Wbody].
    destruct (openB f s1 a'2 0 t2 0) as [[r s2]|] eqn:E2; [|discriminate].
    destruct (openB_ok f s1 H1 a'2 0 t2 0 n n (S n) n n n r s2) as (H2 & X2 & Sk2 & Wr); auto; try lia.
    destruct (IH s2 H2 D r n t' s') as (H3 & X3 & Sk3 & W3); auto.
    { eapply dctx_ok_hext; [exact (hext_trans _ _ _ X1 X2) | exact Dk]. }
    exists H3. split; [exact (hext_trans _ _ _ X1 (hext_trans _ _ _ X2 X3))|]. auto.
  - (* let *)
    change (wsc H n n (TLet defs t)) in W. apply wsc_let in W. destruct W as [Wd Wb].
    destruct (let_substB f s (length defs) 0 defs t) as [[b' s1]|] eqn:E1; [|discriminate].
    destruct (let_substB_ok f s H (length defs) 0 defs t n n (length defs + n) b' s1) as (H1 & X1 & Sk1 & W1); auto; try lia.
    { intros j p Ej _. rewrite Forall_forall in Wd. exact (Wd _ (nth_error_In _ _ Ej)). }
    destruct (IH s1 H1 D b' n t' s') as (H2 & X2 & Sk2 & W2); auto.
    { eapply dctx_ok_hext; eauto. }
    exists H2. split; [exact (hext_trans _ _ _ X1 X2)|]. auto.
  - (* neg *)
    cbn [wsc] in W.
    destruct (whnfB f s D t) as [[a' s1]|] eqn:E1; [|discriminate].
    destruct (IH _ _ _ _ _ _ _ Sk Dk En W E1) as (H1 & X1 & Sk1 & Wa).
    injection E as <- <-. exists H1. split; [exact X1|]. split; [exact Sk1|]. destruct a'; try exact Wa; exact I.
  - (* bin *)
    destruct W as [W1 W2].
    destruct (whnfB f s D t1) as [[a' s1]|] eqn:E1; [|discriminate].
    destruct (IH _ _ _ _ _ _ _ Sk Dk En W1 E1) as (H1 & X1 & Sk1 & Wa).
    destruct (whnfB f s1 D t2) as [[b' s2]|] eqn:E2; [|discriminate].
    destruct (IH s1 H1 D t2 n b' s2) as (H2 & X2 & Sk2 & Wb); auto.
    { eapply dctx_ok_hext; eauto. } { eapply wsc_hext; eauto. }
    pose proof (wsc_hext _ _ _ _ _ X2 Wa) as Wa2.
    injection E as <- <-. exists H2. split; [exact (hext_trans _ _ _ X1 X2)|]. split; [exact Sk2|].
    destruct a'; try (cbn [wsc]; split; [exact Wa2 | exact Wb]).
    destruct b'; try (cbn [wsc]; split; [exact Wa2 | exact Wb]).
    destruct (bin_whnf o z z0) eqn:Eb; [eapply bin_whnf_wsc; eauto | cbn [wsc]; auto].
  - (* if *)
    destruct W as (W1 & W2 & W3).
    destruct (whnfB f s D t1) as [[c' s1]|] eqn:E1; [|discriminate].
    destruct (IH _ _ _ _ _ _ _ Sk Dk En W1 E1) as (H1 & X1 & Sk1 & Wc).
    pose proof (wsc_hext _ _ _ _ _ X1 W2) as W2'. pose proof (wsc_hext _ _ _ _ _ X1 W3) as W3'.
    pose proof (dctx_ok_hext _ _ _ X1 Dk) as Dk1.
    destruct c'; try (injection E as <- <-; exists H1; split; [exact X1|]; split; [exact Sk1|]; cbn [wsc]; auto).
    + destruct (IH _ _ _ _ _ _ _ Sk1 Dk1 En W2' E) as (H2 & X2 & Sk2 & Wr). exists H2. split; [exact (hext_trans _ _ _ X1 X2)|]. auto.
    + destruct (IH _ _ _ _ _ _ _ Sk1 Dk1 En W3' E) as (H2 & X2 & Sk2 & Wr). exists H2. split; [exact (hext_trans _ _ _ X1 X2)|]. auto.
Qed.

(* the normaliser never steps outside the definitions context: a variable it leaves at the head is
   in range, and the context has no definition for it *)
Lemma whnfB_var_nodef : forall f s D t i s', whnfB f s D t = Some (TVar i, s') ->
  forall d, nth_error D i <> Some (Some d).
Proof.
  induction f as [|f IH]; intros s D t i s' E; [discriminate|].
  destruct t; cbn [whnfB] in E; try discriminate E.
  - break_match E; eapply IH; eauto.
  - destruct (nth_error D i0) as [[[d off]|]|] eqn:En.
    + break_match E. eapply IH; eauto.
    + injection E as <- _. intros d. congruence.
    + injection E as <- _. intros d. congruence.
  - break_match E; try discriminate E; eapply IH; eauto.
  - break_match E. eapply IH; eauto.
  - break_match E; discriminate E.
  - break_match E; try discriminate E; match goal with Eb : bin_whnf _ _ _ = Some _ |- _ => destruct o; cbn in Eb; break_match Eb; injection Eb as <-; discriminate E end.
  - break_match E; try discriminate E; eapply IH; eauto.
Qed.

Theorem whnfB_lookup_in_bounds f s H D t i s' :
  store_ok H s -> dctx_ok H D -> wsc H (length D) (length D) t ->
  whnfB f s D t = Some (TVar i, s') -> nth_error D i = Some None.
Proof.
  intros Sk Dk W E. destruct (whnfB_ok _ _ _ _ _ _ _ _ Sk Dk eq_refl W E) as (H' & _ & _ & Wi). cbn [wsc] in Wi.
  pose proof (whnfB_var_nodef _ _ _ _ _ _ E) as N.
  destruct (nth_error D i) as [[d|]|] eqn:En; [exfalso; eapply N; eauto | reflexivity |].
  apply nth_error_None in En. lia.
Qed.


(* ---- the bounds-CHECKED normaliser: the text of whnfB, except that a lookup beyond the end of the
   definitions context aborts (None) instead of being treated as "no definition" ---- *)
Fixpoint whnfK (fuel : nat) (s : storeB) (D : dctx) (t : term) : option (term * storeB) :=
  match fuel with O => None | S f =>
  match t with
  | THole id sh =>
      match sget s id with
      | Some sol => match ushiftB f s sol 0 sh with Some sol' => whnfK f s D sol' | None => None end
      | None => Some (t, s) end
  | TVar i =>
      match nth_error D i with
      | Some (Some (d, off)) => match ushiftB f s d 0 (i + 1 - off) with Some d' => whnfK f s D d' | None => None end
      | Some None => Some (t, s)
      | None => None                                  (* index out of bounds *)
      end
  | TApp a b =>
      match whnfK f s D a with None => None | Some p => let '(a', s1) := p in
      match a' with
      | TLam _ _ body => match openB f s1 body 0 b 0 with None => None | Some q => let '(r, s2) := q in whnfK f s2 D r end
      | _ => Some (TApp a' b, s1) end end
  | TLet ds b => match let_substB f s (length ds) 0 ds b with None => None | Some p => let '(b', s1) := p in whnfK f s1 D b' end
  | TNeg a =>
      match whnfK f s D a with None => None | Some p => let '(a', s1) := p in
      Some (match a' with TLit z => TLit (- z) | _ => TNeg a' end, s1) end
  | TBin o a b =>
      match whnfK f s D a with None => None | Some p => let '(a', s1) := p in
      match whnfK f s1 D b with None => None | Some q => let '(b', s2) := q in
      Some (match a', b' with
            | TLit x, TLit y => match bin_whnf o x y with Some r => r | None => TBin o a' b' end
            | _, _ => TBin o a' b' end, s2) end end
  | TIf c a b =>
      match whnfK f s D c with None => None | Some p => let '(c', s1) := p in
      match c' with TTrue => whnfK f s1 D a | TFalse => whnfK f s1 D b | _ => Some (TIf c' a b, s1) end end
  | _ => Some (t, s)
  end end.

(* on well-scoped input the check never fires *)
Theorem whnfK_agree : forall f s H D t n r,
  store_ok H s -> dctx_ok H D -> n = length D -> wsc H n n t -> whnfB f s D t = Some r -> whnfK f s D t = Some r.
Proof.
  induction f as [|f IH]; intros s H D t n r Sk Dk En W E; [discriminate|].
  destruct t; cbn [whnfB whnfK] in *; try exact E.
  - (* hole *)
    destruct (sget s id) as [sol|] eqn:G; [|exact E].
    pose proof (store_ok_sget _ _ _ _ _ _ _ Sk W G) as Ws. destruct W as (A & B & C).
    destruct (ushiftB f s sol 0 shift) as [sol'|] eqn:U; [|discriminate].
    eapply IH; eauto. eapply (ushiftB_wsc' f s H sol shift (n - shift) (n - shift) n n); eauto; lia.
  - (* var *)
    cbn [wsc] in W.
    destruct (nth_error D i) as [[[d off]|]|] eqn:En'; [|exact E|apply nth_error_None in En'; exfalso; lia].
    destruct (Dk _ _ _ En') as [Ho Wd].
    destruct (ushiftB f s d 0 (i + 1 - off)) as [d'|] eqn:U; [|discriminate].
    eapply IH; eauto. eapply (ushiftB_wsc' f s H d (i + 1 - off) _ (length D - i - 1 + off) n n); eauto; lia.
  - (* app *)
    destruct W as [W1 W2].
    destruct (whnfB f s D t1) as [[a' s1]|] eqn:E1; [|discriminate].
    rewrite (IH _ _ _ _ _ _ Sk Dk En W1 E1).
    destruct (whnfB_ok _ _ _ _ _ _ _ _ Sk Dk En W1 E1) as (H1 & X1 & Sk1 & Wa).
    destruct a'; try exact E.
    destruct Wa as [_ Wbody].
    destruct (openB f s1 a'2 0 t2 0) as [[r0 s2]|] eqn:E2; [|discriminate].
    destruct (openB_ok f s1 H1 a'2 0 t2 0 n n (S n) n n n r0 s2) as (H2 & X2 & Sk2 & Wr); auto; try lia.
    { exact (wsc_hext _ _ _ _ _ X1 W2). }
    eapply (IH s2 H2); eauto. exact (dctx_ok_hext _ _ _ (hext_trans _ _ _ X1 X2) Dk).
  - (* let *)
    change (wsc H n n (TLet defs t)) in W. apply wsc_let in W. destruct W as [Wd Wb].
    destruct (let_substB f s (length defs) 0 defs t) as [[b' s1]|] eqn:E1; [|discriminate].
    destruct (let_substB_ok f s H (length defs) 0 defs t n n (length defs + n) b' s1) as (H1 & X1 & Sk1 & W1); auto; try lia.
    { intros j p Ej _. rewrite Forall_forall in Wd. exact (Wd _ (nth_error_In _ _ Ej)). }
    eapply (IH s1 H1); eauto. exact (dctx_ok_hext _ _ _ X1 Dk).
  - (* neg *)
    cbn [wsc] in W.
    destruct (whnfB f s D t) as [[a' s1]|] eqn:E1; [|discriminate].
    rewrite (IH _ _ _ _ _ _ Sk Dk En W E1). exact E.
  - (* bin *)
    destruct W as [W1 W2].
    destruct (whnfB f s D t1) as [[a' s1]|] eqn:E1; [|discriminate].
    rewrite (IH _ _ _ _ _ _ Sk Dk En W1 E1).
    destruct (whnfB_ok _ _ _ _ _ _ _ _ Sk Dk En W1 E1) as (H1 & X1 & Sk1 & Wa).
    destruct (whnfB f s1 D t2) as [[b' s2]|] eqn:E2; [|discriminate].
    rewrite (IH s1 H1 D t2 n _ Sk1 (dctx_ok_hext _ _ _ X1 Dk) En (wsc_hext _ _ _ _ _ X1 W2) E2). exact E.
  - (* if *)
    destruct W as (W1 & W2 & W3).
    destruct (whnfB f s D t1) as [[c' s1]|] eqn:E1; [|discriminate].
    rewrite (IH _ _ _ _ _ _ Sk Dk En W1 E1).
    destruct (whnfB_ok _ _ _ _ _ _ _ _ Sk Dk En W1 E1) as (H1 & X1 & Sk1 & Wc).
    pose proof (dctx_ok_hext _ _ _ X1 Dk) as Dk1.
    destruct c'; try exact E.
    + exact (IH _ _ _ _ _ _ Sk1 Dk1 En (wsc_hext _ _ _ _ _ X1 W2) E).
    + exact (IH _ _ _ _ _ _ Sk1 Dk1 En (wsc_hext _ _ _ _ _ X1 W3) E).
Qed.

(* sanity: the checked normaliser is the normaliser wherever it is defined *)
Lemma whnfK_refines : forall f s D t r, whnfK f s D t = Some r -> whnfB f s D t = Some r.
Proof.
  induction f as [|f IH]; intros s D t r E; [discriminate|].
  destruct t; cbn [whnfB whnfK] in *; try exact E.
  - destruct (sget s id); [|exact E]. destruct (ushiftB f s t 0 shift); [|discriminate]. eauto.
  - destruct (nth_error D i) as [[[d off]|]|]; [|exact E|discriminate]. destruct (ushiftB f s d 0 (i + 1 - off)); [|discriminate]. eauto.
  - destruct (whnfK f s D t1) as [[a' s1]|] eqn:E1; [|discriminate]. rewrite (IH _ _ _ _ E1).
    destruct a'; try exact E. destruct (openB f s1 a'2 0 t2 0) as [[r0 s2]|]; [|discriminate]. eauto.
  - destruct (let_substB f s (length defs) 0 defs t) as [[b' s1]|]; [|discriminate]. eauto.
  - destruct (whnfK f s D t) as [[a' s1]|] eqn:E1; [|discriminate]. rewrite (IH _ _ _ _ E1). exact E.
  - destruct (whnfK f s D t1) as [[a' s1]|] eqn:E1; [|discriminate]. rewrite (IH _ _ _ _ E1).
    destruct (whnfK f s1 D t2) as [[b' s2]|] eqn:E2; [|discriminate]. rewrite (IH _ _ _ _ E2). exact E.
  - destruct (whnfK f s D t1) as [[c' s1]|] eqn:E1; [|discriminate]. rewrite (IH _ _ _ _ E1).
    destruct c'; try exact E; eauto.
Qed.


(* ================= (2e) unification ================= *)

Lemma sget_sset_same : forall s id t x, sget (sset s id t) id = Some x -> x = t.
Proof.
  unfold sget. induction s as [|c s IH]; intros [|id] t x E; cbn in E; try discriminate E.
  - now injection E as <-.
  - exact (IH _ _ _ E).
Qed.

(* THE KEY LEMMA: the assignment made by `solve` records a term that is well scoped at the home of
   the assigned cell - the lowering guard is exactly what guarantees it *)
Lemma solve_ok f H s n id sh other sol :
  store_ok H s -> wsc H n n (THole id sh) -> wsc H n n other ->
  sshiftB f s other 0 (- Z.of_nat sh) = Some (Some sol) ->
  wsc H (n - sh) (n - sh) sol /\ store_ok H (sset s id sol).
Proof.
  intros Sk Wh Wo E. destruct Wh as (A & B & C).
  pose proof (lowerB_wsc _ _ _ _ _ _ _ Sk Wo A E) as Ws. split; [exact Ws|].
  destruct Sk as [L S]. split; [now rewrite sset_length|]. intros j x G.
  destruct (Nat.eq_dec j id) as [->|Ne].
  - apply sget_sset_same in G. subst x. exists (n - sh). auto.
  - rewrite sget_sset_other in G by exact Ne. exact (S _ _ G).
Qed.

(* the bounds-CHECKED unifier: unifyB with whnfK in place of whnfB (same one-layer text, unify_head) *)
Definition unify_bodyK (f : nat) (rec : storeB -> dctx -> term -> term -> option (bool * storeB))
                       (s : storeB) (D : dctx) (a b : term) : option (bool * storeB) :=
  match syn_eqB f s a b with None => None | Some e =>
  if e then Some (true, s) else
  match whnfK f s D a with None => None | Some p => let '(w1, s1) := p in
  match whnfK f s1 D b with None => None | Some q => let '(w2, s2) := q in
  unify_head f rec s2 D w1 w2 end end end.

Fixpoint unifyK (fuel : nat) (s : storeB) (D : dctx) (a b : term) : option (bool * storeB) :=
  match fuel with O => None | S f => unify_bodyK f (unifyK f) s D a b end.

Definition rec_ok (rec recK : storeB -> dctx -> term -> term -> option (bool * storeB)) : Prop :=
  forall s H D a b n ok s', store_ok H s -> dctx_ok H D -> n = length D -> wsc H n n a -> wsc H n n b ->
    rec s D a b = Some (ok, s') ->
    recK s D a b = Some (ok, s') /\ exists H', hext H H' /\ store_ok H' s'.

Ltac fin H Sk := exists H; split; [apply hext_refl | exact Sk].

Ltac solve_tac E H Sk W1 W2 :=
  lazymatch type of E with
  | match sshiftB ?f ?s ?o 0 ?z with _ => _ end = _ =>
      let S1 := fresh "S1" in let sol := fresh "sol" in
      destruct (sshiftB f s o 0 z) as [[sol|]|] eqn:S1;
      [ lazymatch type of E with
        | match occursB ?f ?s ?id ?o with _ => _ end = _ =>
            destruct (occursB f s id o) as [[|]|];
            [ injection E as <- <-; fin H Sk
            | injection E as <- <-; exists H; split; [apply hext_refl|];
              first [ exact (proj2 (solve_ok _ _ _ _ _ _ _ _ Sk W1 W2 S1))
                    | exact (proj2 (solve_ok _ _ _ _ _ _ _ _ Sk W2 W1 S1)) ]
            | discriminate E ]
        end
      | solve_tac E H Sk W1 W2
      | discriminate E ]
  | Some _ = Some _ => injection E as <- <-; fin H Sk
  end.

Lemma wsc_body H n t : wsc H n (S n) t -> wsc H (S n) (S n) t.
Proof. apply wsc_lim. lia. Qed.

Lemma unify_head_ok f rec recK : rec_ok rec recK ->
  forall s2 H D w1 w2 n ok s', store_ok H s2 -> dctx_ok H D -> n = length D -> wsc H n n w1 -> wsc H n n w2 ->
    unify_head f rec s2 D w1 w2 = Some (ok, s') ->
    unify_head f recK s2 D w1 w2 = Some (ok, s') /\ exists H', hext H H' /\ store_ok H' s'.
Proof.
  intros Rk s2 H D w1 w2 n ok s' Sk Dk En W1 W2 E.
  assert (Dk' : forall H', hext H H' -> dctx_ok H' (None :: D)) by (intros; apply dctx_ok_cons_None; eapply dctx_ok_hext; eauto).
  assert (En' : S n = length (None :: D)) by (cbn; lia).
  destruct w1; destruct w2; cbv beta iota zeta delta [unify_head] in E |- *;
    try (split; [exact E|]; solve_tac E H Sk W1 W2; fail).
  - (* hole, hole *)
    split; [exact E|].
    destruct (Nat.eqb id id0 && Nat.eqb shift shift0); [injection E as <- <-; fin H Sk|]. solve_tac E H Sk W1 W2.
  - (* lam *)
    destruct W1 as [_ B1]. destruct W2 as [_ B2].
    destruct (Bool.eqb impl impl0); [|split; [exact E|]; injection E as <- <-; fin H Sk].
    eapply (Rk s2 H (None :: D) w1_2 w2_2 (S n)); eauto using wsc_body, hext_refl.
  - (* pi *)
    destruct W1 as [A1 B1]. destruct W2 as [A2 B2].
    destruct (Bool.eqb impl impl0); [|split; [exact E|]; injection E as <- <-; fin H Sk].
    destruct (rec s2 D w1_1 w2_1) as [[u sa]|] eqn:R1; [|discriminate E].
    destruct (Rk _ _ _ _ _ _ _ _ Sk Dk En A1 A2 R1) as (K1 & H1 & X1 & Sk1). rewrite K1.
    destruct u; [|split; [exact E|]; injection E as <- <-; exists H1; auto].
    destruct (Rk sa H1 (None :: D) w1_2 w2_2 (S n) ok s') as (K2 & H2 & X2 & Sk2); auto.
    { apply wsc_body. eapply wsc_hext; eauto. } { apply wsc_body. eapply wsc_hext; eauto. }
    split; [exact K2|]. exists H2. split; [exact (hext_trans _ _ _ X1 X2) | exact Sk2].
  - (* app *)
    destruct W1 as [A1 B1]. destruct W2 as [A2 B2].
    destruct (rec s2 D w1_1 w2_1) as [[u sa]|] eqn:R1; [|discriminate E].
    destruct (Rk _ _ _ _ _ _ _ _ Sk Dk En A1 A2 R1) as (K1 & H1 & X1 & Sk1). rewrite K1.
    destruct u; [|split; [exact E|]; injection E as <- <-; exists H1; auto].
    destruct (Rk sa H1 D w1_2 w2_2 n ok s') as (K2 & H2 & X2 & Sk2); auto.
    { eapply dctx_ok_hext; eauto. } { eapply wsc_hext; eauto. } { eapply wsc_hext; eauto. }
    split; [exact K2|]. exists H2. split; [exact (hext_trans _ _ _ X1 X2) | exact Sk2].
  - (* neg *) cbn [wsc] in W1, W2. eapply (Rk s2 H D w1 w2 n); eauto.
  - (* bin *)
    destruct W1 as [A1 B1]. destruct W2 as [A2 B2].
    destruct (binop_eqbB o o0); [|split; [exact E|]; injection E as <- <-; fin H Sk].
    destruct (rec s2 D w1_1 w2_1) as [[u sa]|] eqn:R1; [|discriminate E].
    destruct (Rk _ _ _ _ _ _ _ _ Sk Dk En A1 A2 R1) as (K1 & H1 & X1 & Sk1). rewrite K1.
    destruct u; [|split; [exact E|]; injection E as <- <-; exists H1; auto].
    destruct (Rk sa H1 D w1_2 w2_2 n ok s') as (K2 & H2 & X2 & Sk2); auto.
    { eapply dctx_ok_hext; eauto. } { eapply wsc_hext; eauto. } { eapply wsc_hext; eauto. }
    split; [exact K2|]. exists H2. split; [exact (hext_trans _ _ _ X1 X2) | exact Sk2].
  - (* if *)
    destruct W1 as (A1 & B1 & C1). destruct W2 as (A2 & B2 & C2).
    destruct (rec s2 D w1_1 w2_1) as [[u sa]|] eqn:R1; [|discriminate E].
    destruct (Rk _ _ _ _ _ _ _ _ Sk Dk En A1 A2 R1) as (K1 & H1 & X1 & Sk1). rewrite K1.
    destruct u; [|split; [exact E|]; injection E as <- <-; exists H1; auto].
    destruct (rec sa D w1_2 w2_2) as [[u sb]|] eqn:R2; [|discriminate E].
    destruct (Rk sa H1 D w1_2 w2_2 n u sb) as (K2 & H2 & X2 & Sk2); auto.
    { eapply dctx_ok_hext; eauto. } { eapply wsc_hext; eauto. } { eapply wsc_hext; eauto. }
    rewrite K2.
    pose proof (hext_trans _ _ _ X1 X2) as X12.
    destruct u; [|split; [exact E|]; injection E as <- <-; exists H2; auto].
    destruct (Rk sb H2 D w1_3 w2_3 n ok s') as (K3 & H3 & X3 & Sk3); auto.
    { eapply dctx_ok_hext; eauto. } { eapply wsc_hext; eauto. } { eapply wsc_hext; eauto. }
    split; [exact K3|]. exists H3. split; [exact (hext_trans _ _ _ X12 X3) | exact Sk3].
Qed.

Theorem unifyB_ok : forall f, rec_ok (unifyB f) (unifyK f).
Proof.
  induction f as [|f IH]; intros s H D a b n ok s' Sk Dk En Wa Wb E; [discriminate|].
  rewrite unifyB_S in E. unfold unify_body in E. cbn [unifyK]. unfold unify_bodyK.
  destruct (syn_eqB f s a b) as [[|]|]; [split; [exact E|]; injection E as <- <-; fin H Sk | | discriminate].
  destruct (whnfB f s D a) as [[w1 s1]|] eqn:E1; [|discriminate].
  rewrite (whnfK_agree _ _ _ _ _ _ _ Sk Dk En Wa E1).
  destruct (whnfB_ok _ _ _ _ _ _ _ _ Sk Dk En Wa E1) as (H1 & X1 & Sk1 & W1).
  destruct (whnfB f s1 D b) as [[w2 s2]|] eqn:E2; [|discriminate].
  pose proof (dctx_ok_hext _ _ _ X1 Dk) as Dk1. pose proof (wsc_hext _ _ _ _ _ X1 Wb) as Wb1.
  rewrite (whnfK_agree _ _ _ _ _ _ _ Sk1 Dk1 En Wb1 E2).
  destruct (whnfB_ok f s1 H1 D b n w2 s2) as (H2 & X2 & Sk2 & W2); auto.
  pose proof (hext_trans _ _ _ X1 X2) as X12.
  destruct (unify_head_ok f (unifyB f) (unifyK f) IH s2 H2 D w1 w2 n ok s') as (K3 & H3 & X3 & Sk3); auto.
  { exact (dctx_ok_hext _ _ _ X12 Dk). } { exact (wsc_hext _ _ _ _ _ X2 W1). }
  split; [exact K3|]. exists H3. split; [exact (hext_trans _ _ _ X12 X3) | exact Sk3].
Qed.

(* ================= (3) consequences ================= *)

(* unification, successful or not, leaves a store in which every solution mentions only variables
   that are in scope where its hole was written; home depths of existing cells do not change *)
Theorem unifyB_solutions_scoped f s H D a b ok s' :
  store_ok H s -> dctx_ok H D -> wsc H (length D) (length D) a -> wsc H (length D) (length D) b ->
  unifyB f s D a b = Some (ok, s') ->
  exists H', hext H H' /\ store_ok H' s'.
Proof. intros Sk Dk Wa Wb E. exact (proj2 (unifyB_ok f s H D a b _ ok s' Sk Dk eq_refl Wa Wb E)). Qed.

(* every variable that the normaliser looks up during unification is inside the definitions context:
   the unifier whose lookups are bounds-checked computes the same result *)
Theorem unifyB_lookup_in_bounds f s H D a b r :
  store_ok H s -> dctx_ok H D -> wsc H (length D) (length D) a -> wsc H (length D) (length D) b ->
  unifyB f s D a b = Some r -> unifyK f s D a b = Some r.
Proof. intros Sk Dk Wa Wb E. destruct r as [ok s']. exact (proj1 (unifyB_ok f s H D a b _ ok s' Sk Dk eq_refl Wa Wb E)). Qed.

Lemma unify_head_mono f (recK rec : storeB -> dctx -> term -> term -> option (bool * storeB)) :
  (forall s D a b r, recK s D a b = Some r -> rec s D a b = Some r) ->
  forall s2 D w1 w2 r, unify_head f recK s2 D w1 w2 = Some r -> unify_head f rec s2 D w1 w2 = Some r.
Proof.
  intros M s2 D w1 w2 r E.
  destruct w1; destruct w2; cbv beta iota zeta delta [unify_head] in E |- *; try exact E.
  - destruct (Bool.eqb impl impl0); [eauto | exact E].
  - destruct (Bool.eqb impl impl0); [|exact E].
    destruct (recK s2 D w1_1 w2_1) as [[u sa]|] eqn:R1; [|discriminate E]. rewrite (M _ _ _ _ _ R1).
    destruct u; [eauto | exact E].
  - destruct (recK s2 D w1_1 w2_1) as [[u sa]|] eqn:R1; [|discriminate E]. rewrite (M _ _ _ _ _ R1).
    destruct u; [eauto | exact E].
  - eauto.
  - destruct (binop_eqbB o o0); [|exact E].
    destruct (recK s2 D w1_1 w2_1) as [[u sa]|] eqn:R1; [|discriminate E]. rewrite (M _ _ _ _ _ R1).
    destruct u; [eauto | exact E].
  - destruct (recK s2 D w1_1 w2_1) as [[u sa]|] eqn:R1; [|discriminate E]. rewrite (M _ _ _ _ _ R1).
    destruct u; [|exact E].
    destruct (recK sa D w1_2 w2_2) as [[u sb]|] eqn:R2; [|discriminate E]. rewrite (M _ _ _ _ _ R2).
    destruct u; [eauto | exact E].
Qed.

(* sanity: the checked unifier is the unifier wherever it is defined *)
Lemma unifyK_refines : forall f s D a b r, unifyK f s D a b = Some r -> unifyB f s D a b = Some r.
Proof.
  induction f as [|f IH]; intros s D a b r E; [discriminate|].
  rewrite unifyB_S. unfold unify_body. cbn [unifyK] in E. unfold unify_bodyK in E.
  destruct (syn_eqB f s a b) as [[|]|]; [exact E | | discriminate].
  destruct (whnfK f s D a) as [[w1 s1]|] eqn:E1; [|discriminate]. rewrite (whnfK_refines _ _ _ _ _ E1).
  destruct (whnfK f s1 D b) as [[w2 s2]|] eqn:E2; [|discriminate]. rewrite (whnfK_refines _ _ _ _ _ E2).
  exact (unify_head_mono f (unifyK f) (unifyB f) IH _ _ _ _ _ E).
Qed.


(* ================= reading results: zonking keeps terms well scoped ================= *)

Theorem zonkB_wsc : forall f s H, store_ok H s -> forall t lim n, wsc H lim n t -> wsc H lim n (zonkB f s t).
Proof.
  induction f as [|f IH]; intros s H Sk t lim n W; [exact W|].
  destruct t; cbn [zonkB]; try exact W.
  - destruct (sget s id) as [sol|] eqn:G; [|exact W].
    pose proof (store_ok_sget _ _ _ _ _ _ _ Sk W G) as Ws. destruct W as (A & B & C).
    destruct (ushiftB f s sol 0 shift) as [u|] eqn:U; [|cbn [wsc]; auto].
    apply (wsc_lim _ _ (n - shift)); [exact C|]. apply (IH s H Sk).
    eapply (ushiftB_wsc' f s H sol shift (n - shift) (n - shift) n); eauto; lia.
  - destruct W; cbn [wsc]; split; eauto.
  - destruct W; cbn [wsc]; split; eauto.
  - destruct W; cbn [wsc]; split; eauto.
  - change (wsc H lim n (TLet defs t)) in W. apply wsc_let in W. destruct W as [Wd Wb].
    apply wsc_let. rewrite map_length. split; [|eauto].
    apply Forall_forall. intros p Hp. apply in_map_iff in Hp. destruct Hp as (q & <- & Hq).
    rewrite Forall_forall in Wd. destruct (Wd _ Hq) as [Q1 Q2]. split; cbn [fst snd]; eauto.
  - cbn [wsc] in *; eauto.
  - destruct W; cbn [wsc]; split; eauto.
  - destruct W as (A & B & C); cbn [wsc]; repeat split; eauto.
Qed.

(* on hole-free terms wsc is the `scoped` of Proofs/ScopedProofs.v *)
Lemma wsc_scoped : forall t H lim n, wsc H lim n t -> hole_free t = true -> scoped t n = true.
Proof.
  induction t using term_ind'; intros H0 lim n W Hf; cbn [scoped hole_free wsc] in *; try reflexivity; try discriminate.
  - now apply Nat.ltb_lt.
  - apply andb_prop in Hf as [F1 F2]. destruct W. erewrite IHt1, IHt2; eauto.
  - apply andb_prop in Hf as [F1 F2]. destruct W. erewrite IHt1, IHt2; eauto.
  - apply andb_prop in Hf as [F1 F2]. destruct W. erewrite IHt1, IHt2; eauto.
  - change (wsc H0 lim n (TLet ds t)) in W. apply wsc_let in W. destruct W as [Wd Wb].
    apply andb_prop in Hf as [F1 F2]. erewrite IHt; eauto. rewrite andb_true_r.
    apply forallb_forall. intros p Hp. rewrite Forall_forall in H, Wd. rewrite forallb_forall in F1.
    destruct (H _ Hp) as [I1 I2]. destruct (Wd _ Hp) as [W1 W2]. specialize (F1 _ Hp). destruct p as [a d]. cbn [fst snd] in *.
    apply andb_prop in F1 as [Fa Fd]. erewrite I1, I2; eauto.
  - eauto.
  - apply andb_prop in Hf as [F1 F2]. destruct W. erewrite IHt1, IHt2; eauto.
  - apply andb_prop in Hf as [F12 F3]. apply andb_prop in F12 as [F1 F2]. destruct W as (A & B & C). erewrite IHt1, IHt2, IHt3; eauto.
Qed.

(* ================= boolean checkers, for closed examples ================= *)

Fixpoint wscb (H : list nat) (lim n : nat) (t : term) : bool :=
  match t with
  | THole id sh => Nat.leb sh n && match nth_error H id with Some h => Nat.eqb h (n - sh) | None => false end && Nat.leb (n - sh) lim
  | TVar i => Nat.ltb i n
  | TLam _ a b | TPi _ a b => wscb H lim n a && wscb H lim (S n) b
  | TApp a b | TBin _ a b => wscb H lim n a && wscb H lim n b
  | TLet ds b => forallb (fun p => wscb H lim (length ds + n) (fst p) && wscb H lim (length ds + n) (snd p)) ds && wscb H lim (length ds + n) b
  | TNeg a => wscb H lim n a
  | TIf c a b => wscb H lim n c && wscb H lim n a && wscb H lim n b
  | _ => true
  end.

Lemma wscb_sound : forall t H lim n, wscb H lim n t = true -> wsc H lim n t.
Proof.
  induction t using term_ind'; intros H0 lim n E; cbn [wscb wsc] in *; try exact I.
  - apply andb_prop in E as [E12 E3]. apply andb_prop in E12 as [E1 E2].
    apply Nat.leb_le in E1, E3. destruct (nth_error H0 i) as [h|]; [|discriminate]. apply Nat.eqb_eq in E2. subst h. auto.
  - now apply Nat.ltb_lt.
  - apply andb_prop in E as [E1 E2]. split; eauto.
  - apply andb_prop in E as [E1 E2]. split; eauto.
  - apply andb_prop in E as [E1 E2]. split; eauto.
  - change (wsc H0 lim n (TLet ds t)). apply wsc_let. apply andb_prop in E as [E1 E2]. split; [|eauto].
    rewrite forallb_forall in E1. apply Forall_forall. intros p Hp. rewrite Forall_forall in H.
    specialize (E1 _ Hp). apply andb_prop in E1 as [Ea Ed]. destruct (H _ Hp) as [I1 I2]. split; eauto.
  - eauto.
  - apply andb_prop in E as [E1 E2]. split; eauto.
  - apply andb_prop in E as [E12 E3]. apply andb_prop in E12 as [E1 E2]. repeat split; eauto.
Qed.

Definition store_okb (H : list nat) (s : storeB) : bool :=
  Nat.eqb (length H) (length s) &&
  forallb (fun id => match sget s id with
                     | Some sol => match nth_error H id with Some h => wscb H h h sol | None => false end
                     | None => true end) (seq 0 (length s)).

Lemma store_okb_sound H s : store_okb H s = true -> store_ok H s.
Proof.
  unfold store_okb. intros E. apply andb_prop in E as [E1 E2]. apply Nat.eqb_eq in E1. split; [exact E1|].
  intros id sol G. rewrite forallb_forall in E2.
  assert (L : id < length s).
  { apply nth_error_Some. unfold sget in G. destruct (nth_error s id); [discriminate | discriminate G]. }
  specialize (E2 id). rewrite G in E2. specialize (E2 (proj2 (in_seq _ _ _) (conj (Nat.le_0_l _) L))).
  destruct (nth_error H id) as [h|]; [|discriminate]. exists h. split; [reflexivity | now apply wscb_sound].
Qed.

Definition dctx_okb (H : list nat) (D : dctx) : bool :=
  forallb (fun p => match nth_error D p with
                    | Some (Some (d, off)) => Nat.leb off (p + 1) && wscb H (length D - p - 1 + off) (length D - p - 1 + off) d
                    | _ => true end) (seq 0 (length D)).

Lemma dctx_okb_sound H D : dctx_okb H D = true -> dctx_ok H D.
Proof.
  unfold dctx_okb. intros E p d off En. rewrite forallb_forall in E.
  assert (L : p < length D) by (apply nth_error_Some; congruence).
  specialize (E p (proj2 (in_seq _ _ _) (conj (Nat.le_0_l _) L))). rewrite En in E.
  apply andb_prop in E as [E1 E2]. apply Nat.leb_le in E1. split; [exact E1 | now apply wscb_sound].
Qed.


(* ================= non-vacuity: the hypotheses are satisfiable and the functions do run ================= *)
Module Ex.
(* cell 0: home depth 1, solved by the variable bound there; cells 1, 2: unsolved, homes 0 and 1 *)
Definition H : list nat := [1; 0; 1].
Definition s : storeB := [Some (TVar 0); None; None].
Definition D : dctx := [Some (TLam false TInt (TApp (TVar 0) (THole 1 3)), 1); None].   (* depth 2 *)
Definition t1 := TApp (THole 0 1) (TLam false (THole 1 2) (THole 1 3)).                (* at depth 2 *)

Example hyps_hold : store_okb H s = true /\ dctx_okb H D = true /\ wscb H 2 2 t1 = true.
Proof. vm_compute. auto. Qed.

Lemma Sk : store_ok H s. Proof. apply store_okb_sound. vm_compute. reflexivity. Qed.
Lemma Dk : dctx_ok H D. Proof. apply dctx_okb_sound. vm_compute. reflexivity. Qed.
Lemma W1 : wsc H 2 2 t1. Proof. apply wscb_sound. vm_compute. reflexivity. Qed.

Example sshiftB_up :
  sshiftB 6 s t1 0 1 = Some (Some (TApp (TVar 2) (TLam false (THole 1 3) (THole 1 4)))) /\
  wsc H 2 3 (TApp (TVar 2) (TLam false (THole 1 3) (THole 1 4))).
Proof.
  split; [vm_compute; reflexivity|].
  apply (sshiftB_wsc 6 s H Sk t1 0 1 2 2 3); [exact W1 | lia | lia | lia | vm_compute; reflexivity].
Qed.
Example sshiftB_down_ok :
  sshiftB 6 s t1 0 (-1) = Some (Some (TApp (TVar 0) (TLam false (THole 1 1) (THole 1 2)))) /\
  wsc H 1 1 (TApp (TVar 0) (TLam false (THole 1 1) (THole 1 2))).
Proof.
  split; [vm_compute; reflexivity|].
  apply (lowerB_wsc 6 s H t1 1 2); [exact Sk | exact W1 | lia | vm_compute; reflexivity].
Qed.
Example sshiftB_down_guard : sshiftB 6 s t1 0 (-2) = Some None.     (* cell 0 mentions the variable at level 0 *)
Proof. vm_compute. reflexivity. Qed.

Definition body := TApp (TVar 0) (TApp (THole 0 2) (THole 1 3)).       (* a function body, at depth 3 *)
Example openB_beta :
  openB 6 s body 0 (THole 1 2) 0 = Some (TApp (THole 1 2) (TApp (TVar 1) (THole 3 2)), s ++ [None]) /\
  exists H', hext H H' /\ store_ok H' (s ++ [None]) /\ wsc H' 2 2 (TApp (THole 1 2) (TApp (TVar 1) (THole 3 2))).
Proof.
  split; [vm_compute; reflexivity|].
  apply (openB_ok 6 s H body 0 (THole 1 2) 0 2 2 3 2 2 2); try lia;
    [exact Sk | apply wscb_sound; vm_compute; reflexivity | apply wscb_sound; vm_compute; reflexivity | vm_compute; reflexivity].
Qed.

Definition t2 := TApp (TVar 0) (THole 0 1).
Definition t3 := TLet [(TInt, TLit 3); (THole 1 4, TVar 1)] (TBin OSum (TVar 0) (TVar 1)).
Example whnfB_runs :
  whnfB 8 s D t2 = Some (TApp (TVar 1) (THole 3 2), s ++ [None]) /\
  whnfB 12 s D t3 = Some (TLit 6, s ++ [None; None; None]) /\
  wscb H 2 2 t2 = true /\ wscb H 2 2 t3 = true /\
  whnfK 8 s D t2 = whnfB 8 s D t2 /\ whnfK 12 s D t3 = whnfB 12 s D t3.
Proof. vm_compute. repeat split; reflexivity. Qed.
Example whnfB_ok_applies : exists H', hext H H' /\ store_ok H' (s ++ [None]) /\ wsc H' 2 2 (TApp (TVar 1) (THole 3 2)).
Proof.
  apply (whnfB_ok 8 s H D t2 2); [exact Sk | exact Dk | reflexivity | apply wscb_sound; vm_compute; reflexivity | vm_compute; reflexivity].
Qed.

(* cell 2 (home 1) met at depth 2: the solution is recorded one binder further out, with the variables renumbered *)
Definition other := TApp (TVar 1) (THole 0 1).
Example unifyB_assigns :
  unifyB 8 s D (THole 2 1) other = Some (true, [Some (TVar 0); None; Some (TApp (TVar 0) (TVar 0))]) /\
  store_okb H [Some (TVar 0); None; Some (TApp (TVar 0) (TVar 0))] = true /\
  unifyK 8 s D (THole 2 1) other = unifyB 8 s D (THole 2 1) other.
Proof. vm_compute. auto. Qed.
Example unifyB_ok_applies : exists H', hext H H' /\ store_ok H' [Some (TVar 0); None; Some (TApp (TVar 0) (TVar 0))].
Proof.
  apply (unifyB_solutions_scoped 8 s H D (THole 2 1) other true);
    [exact Sk | exact Dk | apply wscb_sound; vm_compute; reflexivity | apply wscb_sound; vm_compute; reflexivity | vm_compute; reflexivity].
Qed.
(* the guard: the variable bound at depth 2 is not in scope at the home of cell 2; nothing is assigned *)
Example unifyB_guard : unifyB 8 s D (THole 2 1) (TApp (TVar 1) (TVar 0)) = Some (false, s).
Proof. vm_compute. reflexivity. Qed.
End Ex.

(* ================= the side condition is necessary, and the type checker does not maintain it ================= *)
Module CE.

(* naive scoping (what one would write first): variables in range and every hole shift at most the depth *)
Fixpoint nsc (t : term) (n : nat) : bool :=
  match t with
  | THole _ sh => Nat.leb sh n
  | TVar i => Nat.ltb i n
  | TLam _ a b | TPi _ a b => nsc a n && nsc b (S n)
  | TApp a b | TBin _ a b => nsc a n && nsc b n
  | TLet ds b => forallb (fun p => nsc (fst p) (length ds + n) && nsc (snd p) (length ds + n)) ds && nsc b (length ds + n)
  | TNeg a => nsc a n
  | TIf c a b => nsc c n && nsc a n && nsc b n
  | _ => true
  end.

(* ---- (a) unification alone: a solution with a LOCAL hole.
   Step 1 (depth 0): cell 0 := (A : Type) -> ?1, where ?1 sits under the binder with shift 0.
   Step 2 (depth 1): cell 0 is read one binder further in; raising its solution leaves the local hole's
   shift at 0 although the hole has moved, so ?1 is now solved "at depth 2" by the variable of level 0.
   Read back at depth 0, cell 0 mentions a variable that does not exist there. ---- *)
Definition sA0 : storeB := [None; None].
Definition sA1 : storeB := [Some (TPi false TType (THole 1 0)); None].
Definition sA2 : storeB := [Some (TPi false TType (THole 1 0)); Some (TVar 1)].

Example unify_local_hole_breaks_scoping :
  (* all inputs are naively well scoped, the initial store is empty *)
  nsc (THole 0 0) 0 = true /\ nsc (TPi false TType (THole 1 0)) 0 = true /\
  nsc (THole 0 1) 1 = true /\ nsc (TPi false TType (TVar 1)) 1 = true /\
  unifyB 10 sA0 [] (THole 0 0) (TPi false TType (THole 1 0)) = Some (true, sA1) /\
  unifyB 10 sA1 [None] (THole 0 1) (TPi false TType (TVar 1)) = Some (true, sA2) /\
  (* cell 0 was solved at depth 0 with shift 0; read there it is ILL scoped *)
  zonkB 5 sA2 (THole 0 0) = TPi false TType (TVar 1) /\
  scoped (zonkB 5 sA2 (THole 0 0)) 0 = false.
Proof. vm_compute. repeat split; reflexivity. Qed.

(* the first call is outside the hypotheses of unifyB_solutions_scoped: its right-hand side has a local hole *)
Example unify_local_hole_not_wsc : forall H, ~ wsc H 0 0 (TPi false TType (THole 1 0)).
Proof. intros H [_ (A & B & C)]. lia. Qed.

(* ---- (b) the type checker, on a closed program accepted by the parser, WITHOUT any reported error:
         (f : type) => (z : (a : type) -> _) => ((w : (a : type) -> f) => w) z
   The hole is written under the binder `a` inside z's annotation. Looking z up (ushiftB T 0 1) leaves
   the hole's shift at 0, so it is solved by `f` as seen from [a; z; f] (index 2), but it occurs in
   [a; f], where f has index 1 and index 2 does not exist. ---- *)
Definition T (k : tkind) : ptok := {| pk := k; ps := 0; pe := 0; pname := []; pz := 0 |}.
Definition I (c : N) : ptok := {| pk := KIdentifier; ps := 0; pe := 0; pname := [c]; pz := 0 |}.
Definition toks : list ptok :=
  [T KLeftParen; I 102; T KColon; T KType; T KRightParen; T KThickArrow;
   T KLeftParen; I 122; T KColon; T KLeftParen; I 97; T KColon; T KType; T KRightParen; T KThinArrow; I 95; T KRightParen; T KThickArrow;
   T KLeftParen; T KLeftParen; I 119; T KColon; T KLeftParen; I 97; T KColon; T KType; T KRightParen; T KThinArrow; I 102; T KRightParen;
     T KThickArrow; I 119; T KRightParen; I 122]%N.

Definition E1 := TApp (TLam false (TPi false TType (TVar 2)) (TVar 0)) (TVar 0).
Definition P1 := TLam false TType (TLam false (TPi false TType (THole 0 0)) E1).

Definition names1 : list name := Eval vm_compute in match fst (fst (parse_top toks true [])) with POk _ ns => ns | _ => [] end.
Definition elab1 := TLam false TType (TLam false (TPi false TType (TVar 2)) E1).
Definition ty1 := TPi false TType (TPi false (TPi false TType (TVar 2)) (TPi false TType (TVar 2))).

Example ce_b_parsed : fst (fst (parse_top toks true [])) = POk P1 names1.
Proof. vm_compute. reflexivity. Qed.
Example ce_b_input_scoped : nsc P1 0 = true /\ scoped P1 0 = true.
Proof. vm_compute. auto. Qed.
Example tcB_elaborates_ill_scoped :
  checkB P1 1 = Some (elab1, ty1, []) /\                    (* no error is reported *)
  hole_free elab1 = true /\ hole_free ty1 = true /\
  scoped elab1 0 = false /\ scoped ty1 0 = false.           (* z's annotation mentions index 2 at depth 2 *)
Proof. vm_compute. auto. Qed.

(* under one more binder the index is in range and denotes the WRONG variable: the checker accepts, without
   error,   (g : type) => (f : type) => (z : (a : type) -> _) => ((w : (a : type) -> f) => w) z
   at type  (g : type) -> (f : type) -> ((a : type) -> g) -> ((a : type) -> f) *)
Example tcB_wrong_variable :
  checkB (TLam false TType P1) 1 =
    Some (TLam false TType elab1,
          TPi false TType (TPi false TType (TPi false (TPi false TType (TVar 2)) (TPi false TType (TVar 2)))), []) /\
  scoped (TPi false TType (TPi false TType (TPi false (TPi false TType (TVar 2)) (TPi false TType (TVar 2))))) 0 = true.
Proof. vm_compute. auto. Qed.

(* no assignment of home depths makes the program satisfy the invariant: the hole is local *)
Example program_not_wsc : forall H, ~ wsc H 0 0 P1.
Proof. intros H (_ & (_ & A & B & C) & _). lia. Qed.

(* ---- (c) ... and the normaliser is then asked for a variable BEYOND the end of the definitions context.
         (f : type) => (z : (a : type) -> _) => ((w : (a : type) -> f) => w) z + z int
   After the first summand is checked, the type of `z int` is computed as the variable of index 2 in a
   context of length 2; the check against Int normalises it: nth_error D 2 with length D = 2.  The run
   below replays the two sub-calls that tcB makes for the body of the inner function (same fuel, same
   contexts, same store). ---- *)
Definition E2 := TApp (TVar 0) TInt.
Definition P2 := TLam false TType (TLam false (TPi false TType (THole 0 0)) (TBin OSum E1 E2)).
Definition G2 : tctx := [(TPi false TType (THole 0 0), 0); (TType, 0)].
Definition D2 : dctx := [None; None].
Definition s_end : storeB :=
  [Some (TVar 2); Some (TPi false TType (TVar 2)); Some (TPi false TType (TVar 3)); Some TType; Some (TVar 3)].

Definition names2 : list name :=
  Eval vm_compute in match fst (fst (parse_top (toks ++ [T KPlus; I 122%N; T KInteger]) true [])) with POk _ ns => ns | _ => [] end.
Definition s_mid : storeB := [Some (TVar 2); Some (TPi false TType (TVar 2)); Some (TPi false TType (TVar 3))].
Definition ra : tcres := {| b_elab := E1; b_ty := TPi false TType (TVar 2); b_st := s_mid; b_errs := [] |}.
Definition rb : tcres := {| b_elab := E2; b_ty := TVar 2; b_st := s_end; b_errs := [] |}.

Example ce_c_parsed : fst (fst (parse_top (toks ++ [T KPlus; I 122%N; T KInteger]) true [])) = POk P2 names2.
Proof. vm_compute. reflexivity. Qed.
Example ce_c_input_scoped : nsc P2 0 = true /\ scoped P2 0 = true.
Proof. vm_compute. auto. Qed.
Example ce_c_whole_run :
  option_map (fun r => (b_st r, b_errs r)) (tcB 60 [None] [] [] P2) = Some (s_end, [ENotInt; ENotInt]).
Proof. vm_compute. reflexivity. Qed.
Example ce_c_first_summand : tcB 57 [None] G2 D2 E1 = Some ra.
Proof. vm_compute. reflexivity. Qed.
Example ce_c_first_expect : expectB 57 (b_st ra) D2 (b_ty ra) TInt ENotInt (b_errs ra) = Some (s_mid, [ENotInt]).
Proof. vm_compute. reflexivity. Qed.
Example ce_c_second_summand : tcB 57 s_mid G2 D2 E2 = Some rb.
Proof. vm_compute. reflexivity. Qed.
(* the type of `z int` is the variable of index 2; the definitions context has length 2 *)
Example tcB_lookup_out_of_bounds :
  b_ty rb = TVar 2 /\ length D2 = 2 /\ nth_error D2 2 = None /\
  unifyB 57 (b_st rb) D2 (b_ty rb) TInt = Some (false, s_end) /\       (* the model: a miss counts as "no definition" *)
  unifyK 57 (b_st rb) D2 (b_ty rb) TInt = None.                        (* with a bounds check: abort *)
Proof. vm_compute. auto. Qed.
End CE.


(* ================= the type checker: what does hold, and where the induction stops ================= *)

(* every solution, read back (zonked) at the home of its cell, is well scoped there *)
Corollary unifyB_solutions_zonk_scoped f s H D a b ok s' :
  store_ok H s -> dctx_ok H D -> wsc H (length D) (length D) a -> wsc H (length D) (length D) b ->
  unifyB f s D a b = Some (ok, s') ->
  exists H', hext H H' /\ forall id sol, sget s' id = Some sol ->
    exists h, nth_error H' id = Some h /\ forall g, wsc H' h h (zonkB g s' sol) /\
      (hole_free (zonkB g s' sol) = true -> scoped (zonkB g s' sol) h = true).
Proof.
  intros Sk Dk Wa Wb E. destruct (unifyB_solutions_scoped _ _ _ _ _ _ _ _ Sk Dk Wa Wb E) as (H' & X & Sk').
  exists H'. split; [exact X|]. intros id sol G. destruct (proj2 Sk' _ _ G) as (h & Eh & W).
  exists h. split; [exact Eh|]. intros g. pose proof (zonkB_wsc g s' H' Sk' sol h h W) as Z.
  split; [exact Z | intros Hf; exact (wsc_scoped _ _ _ _ Z Hf)].
Qed.

Lemma expectB_ok f s H D a w e es s' es' :
  store_ok H s -> dctx_ok H D -> wsc H (length D) (length D) a -> wsc H (length D) (length D) w ->
  expectB f s D a w e es = Some (s', es') -> exists H', hext H H' /\ store_ok H' s'.
Proof.
  unfold expectB. intros Sk Dk Wa Ww E. destruct (unifyB f s D a w) as [[ok s1]|] eqn:U; [|discriminate].
  injection E as <- _. exact (unifyB_solutions_scoped _ _ _ _ _ _ _ _ Sk Dk Wa Ww U).
Qed.

(* entry p of a typing context: same convention as the definitions context *)
Definition tctx_ok (H : list nat) (G : tctx) : Prop :=
  forall p T off, nth_error G p = Some (T, off) ->
    off <= p + 1 /\ wsc H (length G - p - 1 + off) (length G - p - 1 + off) T.

(* the variable rule: the type read from the context is well scoped where the variable stands *)
Lemma tcB_var_ok f s H G D i r :
  store_ok H s -> tctx_ok H G -> tcB f s G D (TVar i) = Some r ->
  b_st r = s /\ (i < length G -> wsc H (length G) (length G) (b_ty r)).
Proof.
  intros Sk Gk E. destruct f as [|f]; [discriminate|]. cbn [tcB] in E.
  destruct (nth_error G i) as [[T off]|] eqn:En.
  - destruct (ushiftB f s T 0 (i + 1 - off)) as [T'|] eqn:U; [|discriminate]. injection E as <-. cbn [b_st b_ty].
    split; [reflexivity|]. intros L. destruct (Gk _ _ _ En) as [Ho W].
    eapply (ushiftB_wsc' f s H T (i + 1 - off) _ (length G - i - 1 + off)); eauto; lia.
  - injection E as <-. cbn. split; [reflexivity|]. intros L. apply nth_error_None in En. lia.
Qed.

Module CE2.
(* the root cause: raising a term leaves the shift of a LOCAL hole unchanged, although the hole has
   moved under more binders - the same cell now has two different home depths *)
Example raise_rehomes_local_hole :
  ushiftB 5 [None] (TPi false TType (THole 0 0)) 0 1 = Some (TPi false TType (THole 0 0)).
Proof. vm_compute. reflexivity. Qed.

(* the type checker leaves the invariant even when it starts inside it:
       (h : _) => (x : int) => h x          (one hole, at depth 0: home 0, not local)
   the type of `h x` is a fresh cell written under x, and the type of the inner function binds x around it *)
Definition P3 := TLam false (THole 0 0) (TLam false TInt (TApp (TVar 1) (TVar 0))).
Definition ty3 := TPi false (THole 0 0) (TPi false TInt (THole 3 0)).
Example tcB_leaves_invariant :
  store_okb [0] [None] = true /\ wscb [0] 0 0 P3 = true /\
  option_map (fun r => (b_ty r, b_st r)) (tcB 20 [None] [] [] P3) = Some (ty3, [None; Some TInt; None; None]).
Proof. vm_compute. auto. Qed.
Example tcB_leaves_invariant' : forall H, ~ wsc H 0 0 ty3.
Proof. intros H (_ & _ & A & B & C). lia. Qed.
End CE2.

(* ================= assumptions ================= *)
Print Assumptions sshiftB_wsc.
Print Assumptions lowerB_wsc.
Print Assumptions openB_ok.
Print Assumptions let_substB_ok.
Print Assumptions whnfB_ok.
Print Assumptions whnfK_agree.
Print Assumptions whnfB_lookup_in_bounds.
Print Assumptions solve_ok.
Print Assumptions unifyB_ok.
Print Assumptions unifyB_solutions_scoped.
Print Assumptions unifyB_solutions_zonk_scoped.
Print Assumptions unifyB_lookup_in_bounds.
Print Assumptions unifyK_refines.
Print Assumptions zonkB_wsc.
Print Assumptions wsc_scoped.
Print Assumptions expectB_ok.
Print Assumptions tcB_var_ok.
Print Assumptions Ex.unifyB_ok_applies.
Print Assumptions CE.unify_local_hole_breaks_scoping.
Print Assumptions CE.tcB_elaborates_ill_scoped.
Print Assumptions CE.tcB_wrong_variable.
Print Assumptions CE.tcB_lookup_out_of_bounds.
Print Assumptions CE2.tcB_leaves_invariant.
