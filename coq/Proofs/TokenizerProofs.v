(* Tokenizer: generated-table obligations and panic-freedom of the second pass (C09, C10, C14). *)
From Coq Require Import List ZArith NArith Lia Bool Arith.
Import ListNotations.
Require Import Gram.Model.Token Gram.Gen.TokenTables Gram.Model.Tokenizer Gram.Spec.TokenSpec.

(* ---- obligations on the generated tables (re-checked whenever tokenizer.rs changes) ---- *)

(* the two line-break tables are the sets the property describes *)
Theorem linebreak_tables_are_spec :
  forallb (fun k => Bool.eqb (kind_lookup ends_table k) (in_kinds E_spec k)) all_kinds = true /\
  forallb (fun k => Bool.eqb (kind_lookup starts_table k) (in_kinds S_spec k)) all_kinds = true.
Proof. split; vm_compute; reflexivity. Qed.

(* every fixed token is produced from its own text: symbol, look-ahead and keyword tables agree with lexeme_of *)
Definition symbol_ok (p : N * tkind) : bool :=
  match lexeme_of (snd p) with Some w => list_N_eqb w [fst p] | None => false end.
Definition pair_ok (p : N * (list (N * tkind) * tkind)) : bool :=
  let '(c, (ps, alone)) := p in
  match lexeme_of alone with Some w => list_N_eqb w [c] | None => false end &&
  forallb (fun q => match lexeme_of (snd q) with Some w => list_N_eqb w [c; fst q] | None => false end) ps.
Definition keyword_ok (p : list N * tkind) : bool :=
  match lexeme_of (snd p) with Some w => list_N_eqb w (fst p) | None => false end &&
  existsb (tkind_eqb (snd p)) keyword_kinds.
Theorem tables_match_lexemes :
  forallb symbol_ok symbol_table = true /\ forallb pair_ok pair_table = true /\
  forallb keyword_ok keyword_table = true /\
  forallb (fun k => existsb (fun p => tkind_eqb (snd p) k) keyword_table) keyword_kinds = true.
Proof. repeat split; vm_compute; reflexivity. Qed.

(* no table produces a line-break terminator: only the `\n` arm does *)
Theorem tables_no_linebreak :
  forallb (fun p => negb (tkind_eqb (snd p) KLineBreak)) symbol_table = true /\
  forallb (fun p => negb (tkind_eqb (snd (snd p)) KLineBreak) &&
                    forallb (fun q => negb (tkind_eqb (snd q) KLineBreak)) (fst (snd p))) pair_table = true /\
  forallb (fun p => negb (tkind_eqb (snd p) KLineBreak)) keyword_table = true /\
  kind_lookup ends_table KLineBreak = false.
Proof. repeat split; vm_compute; reflexivity. Qed.

(* ---- the "two consecutive line break terminators" panic is unreachable ---- *)
Definition is_lb (t : tok) : bool := is_lbv (tv t).

Fixpoint nodbl (rts : list tok) : bool :=
  match rts with
  | a :: ((b :: _) as r) => negb (is_lb a && is_lb b) && nodbl r
  | _ => true
  end.

Lemma nodbl_emit o s e v : nodbl (toks o) = true ->
  (is_lbv v = true -> match toks o with t :: _ => is_lb t = false | [] => True end) ->
  nodbl (toks (emit o s e v)) = true.
Proof.
  intros H Hv. unfold emit; cbn [toks]. destruct (toks o) as [|t r] eqn:E; [reflexivity|].
  change (negb (is_lb {| tstart := s; tend := e; tv := v |} && is_lb t) && nodbl (t :: r) = true).
  rewrite H, andb_true_r. unfold is_lb at 1; cbn [tv].
  destruct (is_lbv v) eqn:L; [|reflexivity]. rewrite (Hv eq_refl). reflexivity.
Qed.

Lemma ends_expr_not_lb t : ends_expr (tv t) = true -> is_lb t = false.
Proof.
  unfold is_lb, is_lbv, ends_expr. destruct (tv t) as [k| |]; try reflexivity.
  destruct k; try reflexivity. cbn [kind_of].
  destruct tables_no_linebreak as (_ & _ & _ & H). rewrite H. discriminate.
Qed.

Lemma assoc_in {B} (tbl : list (N * B)) c v : assoc tbl c = Some v -> In (c, v) tbl.
Proof.
  unfold assoc. destruct (find _ tbl) as [[k w]|] eqn:F; [|discriminate]. intros [= <-].
  apply find_some in F as [Hin Heq]. cbn in Heq. apply N.eqb_eq in Heq. now subst.
Qed.

Lemma not_lb_kind k : negb (tkind_eqb k KLineBreak) = true -> is_lbv (TK k) = false.
Proof. destruct k; cbn; congruence. Qed.

Lemma single_symbol_not_lb c k : single_symbol c = Some k -> is_lbv (TK k) = false.
Proof.
  intros H. apply assoc_in in H. destruct tables_no_linebreak as (T & _).
  rewrite forallb_forall in T. apply not_lb_kind. exact (T _ H).
Qed.

Lemma pend_of_not_lb c ps alone : pend_of c = Some (ps, alone) ->
  is_lbv (TK alone) = false /\ forall d k, assoc ps d = Some k -> is_lbv (TK k) = false.
Proof.
  intros H. apply assoc_in in H. destruct tables_no_linebreak as (_ & T & _).
  rewrite forallb_forall in T. specialize (T _ H). cbn [snd fst] in T. apply andb_prop in T as [Ta Tp].
  split; [now apply not_lb_kind|]. intros d k Hk. apply assoc_in in Hk.
  rewrite forallb_forall in Tp. apply not_lb_kind. exact (Tp _ Hk).
Qed.

Lemma classify_word_not_lb w : is_lbv (classify_word w) = false.
Proof.
  unfold classify_word. destruct (find _ keyword_table) as [[x k]|] eqn:F; [|reflexivity].
  apply find_some in F as [Hin _]. destruct tables_no_linebreak as (_ & _ & T & _).
  rewrite forallb_forall in T. apply not_lb_kind. exact (T _ Hin).
Qed.

(* states carry only look-ahead tables that cannot yield a line break *)
Definition st_ok (s : st) : Prop :=
  match s with
  | InPend _ ps alone => is_lbv (TK alone) = false /\ forall d k, assoc ps d = Some k -> is_lbv (TK k) = false
  | _ => True
  end.

Section NoPanic.
Variable gend : nat -> nat.

Lemma dispatch_nodbl o i c s' o' : nodbl (toks o) = true -> dispatch gend o i c = (s', o') ->
  nodbl (toks o') = true /\ st_ok s'.
Proof.
  intros H. unfold dispatch.
  destruct (single_symbol (cp c)) as [k|] eqn:Es.
  - intros [= <- <-]. split; [|exact I]. apply nodbl_emit; auto. intros L. now rewrite (single_symbol_not_lb _ _ Es) in L.
  - destruct (N.eqb (cp c) c_nl).
    + intros [= <- <-]. split; [|exact I]. destruct (toks o) as [|t r] eqn:E; [now rewrite E|].
      destruct (ends_expr (tv t)) eqn:Ee; [|now rewrite E].
      apply nodbl_emit; [now rewrite E|]. intros _. rewrite E. now apply ends_expr_not_lb.
    + destruct (pend_of (cp c)) as [[ps alone]|] eqn:Ep.
      { intros [= <- <-]. split; auto. cbn [st_ok]. now apply (pend_of_not_lb _ _ _ Ep). }
      destruct (alpha c || N.eqb (cp c) c_us); [intros [= <- <-]; cbn; auto|].
      destruct (is_digit (cp c)); [intros [= <- <-]; cbn; auto|].
      destruct (ws c); [intros [= <- <-]; cbn; auto|].
      destruct (N.eqb (cp c) c_hash); intros [= <- <-]; cbn; auto.
Qed.

Lemma flush_nodbl s o i : st_ok s -> nodbl (toks o) = true -> nodbl (toks (flush s o i)) = true.
Proof.
  intros Hs H. destruct s; cbn [flush]; auto; apply nodbl_emit; auto.
  - intros L. now rewrite classify_word_not_lb in L.
  - discriminate.
  - cbn [st_ok] in Hs. destruct Hs as [Ha _]. intros L. now rewrite Ha in L.
Qed.

Lemma lex_nodbl : forall cs i s o, st_ok s -> nodbl (toks o) = true -> nodbl (toks (lex gend cs i s o)) = true.
Proof.
  induction cs as [|c cs IH]; intros i s o Hs H; cbn [lex].
  - now apply flush_nodbl.
  - destruct s.
    + destruct (dispatch gend o i c) as [s' o'] eqn:D. destruct (dispatch_nodbl _ _ _ _ _ H D). now apply IH.
    + destruct (alnum c || N.eqb (cp c) c_us); [now apply IH|].
      destruct (dispatch gend _ i c) as [s' o'] eqn:D.
      destruct (dispatch_nodbl _ _ _ _ _ (flush_nodbl _ _ i Hs H) D). now apply IH.
    + destruct (is_digit (cp c)); [now apply IH|].
      destruct (dispatch gend _ i c) as [s' o'] eqn:D.
      destruct (dispatch_nodbl _ _ _ _ _ (flush_nodbl _ _ i Hs H) D). now apply IH.
    + destruct (assoc pairs (cp c)) as [k|] eqn:Ep.
      * apply IH; [exact I|]. apply nodbl_emit; auto. intros L. cbn [st_ok] in Hs. destruct Hs as [_ Hp].
        now rewrite (Hp _ _ Ep) in L.
      * destruct (dispatch gend _ i c) as [s' o'] eqn:D.
        destruct (dispatch_nodbl _ _ _ _ _ (flush_nodbl _ _ i Hs H) D). now apply IH.
    + destruct (N.eqb (cp c) c_nl); [|now apply IH].
      destruct (dispatch gend o i c) as [s' o'] eqn:D. destruct (dispatch_nodbl _ _ _ _ _ H D). now apply IH.
Qed.

(* nodbl is symmetric under reversal *)
Lemma nodbl_app_single l t : nodbl (l ++ [t]) = nodbl l && match rev l with a :: _ => negb (is_lb a && is_lb t) | [] => true end.
Proof.
  induction l as [|a l IH]; [reflexivity|].
  destruct l as [|b l'].
  - cbn. now rewrite andb_true_r.
  - change (nodbl ((a :: b :: l') ++ [t])) with (negb (is_lb a && is_lb b) && nodbl ((b :: l') ++ [t])).
    rewrite IH. change (nodbl (a :: b :: l')) with (negb (is_lb a && is_lb b) && nodbl (b :: l')).
    rewrite <- andb_assoc. f_equal. f_equal.
    cbn [rev]. destruct (rev l' ++ [b]) eqn:E; [now destruct (rev l')|]. reflexivity.
Qed.

Lemma nodbl_rev : forall l, nodbl (rev l) = nodbl l.
Proof.
  induction l as [|a l IH]; [reflexivity|]. cbn [rev]. rewrite nodbl_app_single, IH, rev_involutive.
  destruct l as [|b l']; [reflexivity|].
  change (nodbl (a :: b :: l')) with (negb (is_lb a && is_lb b) && nodbl (b :: l')).
  rewrite andb_comm. f_equal. now rewrite (andb_comm (is_lb b)).
Qed.

Lemma filter2_total : forall ts, nodbl ts = true -> filter2 ts <> None.
Proof.
  induction ts as [|t rest IH]; cbn [filter2]; [discriminate|]. intros H.
  assert (Hr : nodbl rest = true).
  { destruct rest; auto. cbn [nodbl] in H. now apply andb_prop in H. }
  specialize (IH Hr).
  destruct (is_lbv (tv t)) eqn:Et.
  - destruct rest as [|n r]; [discriminate|].
    cbn [nodbl] in H. apply andb_prop in H as [H _]. unfold is_lb in H. rewrite Et in H. cbn in H.
    destruct (is_lbv (tv n)); [discriminate|]. destruct (filter2 (n :: r)); [discriminate|congruence].
  - destruct (filter2 rest); [discriminate|congruence].
Qed.

Theorem tokenize_no_panic : forall cs, tokenize gend cs <> Panic.
Proof.
  intros cs. unfold tokenize.
  destruct (errs (lex gend cs 0 Start {| toks := []; errs := [] |})); [|discriminate].
  destruct (filter2 _) eqn:F; [discriminate|]. exfalso.
  apply (filter2_total _ ) in F; auto. rewrite nodbl_rev. now apply lex_nodbl.
Qed.

End NoPanic.
