(* C08: the mirror of resolve_variables (names -> indices through a name->depth map with insert /
   overwrite / remove bookkeeping) computes exactly the stack-of-names specification `sresolve`:
   it reports no error precisely when the specification is defined, then yields the same term and
   the same number of fresh holes, and leaves the map as it found it (resolve_is_spec). *)
From Coq Require Import List ZArith NArith Lia Bool Arith.
Import ListNotations.
Require Import Gram.Model.Term Gram.Model.Token Gram.Model.Grammar Gram.Model.Parser Gram.Model.ParserPost Gram.Spec.ScopeSpec.

(* ---------- names ---------- *)
Lemma name_eqb_eq : forall a b, name_eqb a b = true <-> a = b.
Proof.
  unfold name_eqb. induction a as [|x a IH]; destruct b as [|y b]; split; try discriminate; try reflexivity.
  - intros H. apply andb_prop in H as [H1 H2]. apply N.eqb_eq in H1. apply IH in H2. now subst.
  - intros [= -> ->]. rewrite N.eqb_refl. cbn [andb]. now apply IH.
Qed.
Lemma name_eqb_refl a : name_eqb a a = true.
Proof. now apply name_eqb_eq. Qed.
Lemma name_eqb_sym a b : name_eqb a b = name_eqb b a.
Proof.
  destruct (name_eqb a b) eqn:E.
  - apply name_eqb_eq in E. subst. now rewrite name_eqb_refl.
  - destruct (name_eqb b a) eqn:E'; [|reflexivity]. apply name_eqb_eq in E'. subst. now rewrite name_eqb_refl in E.
Qed.

(* ---------- the name -> depth map ---------- *)
Lemma ctx_get_cons c x y d : ctx_get ((x, d) :: c) y = if name_eqb x y then Some d else ctx_get c y.
Proof. unfold ctx_get. cbn [find fst]. destruct (name_eqb x y); reflexivity. Qed.

Lemma ctx_get_remove c x y : ctx_get (ctx_remove c x) y = if name_eqb x y then None else ctx_get c y.
Proof.
  induction c as [|[z d] c IH]; [cbn; now destruct (name_eqb x y)|].
  unfold ctx_remove in *. cbn [filter fst]. destruct (name_eqb z x) eqn:Ezx; cbn [negb].
  - rewrite IH, ctx_get_cons. apply name_eqb_eq in Ezx. subst z. destruct (name_eqb x y); reflexivity.
  - rewrite !ctx_get_cons, IH. destruct (name_eqb z y) eqn:Ezy; [|reflexivity].
    apply name_eqb_eq in Ezy. subst z. rewrite name_eqb_sym, Ezx. reflexivity.
Qed.

Lemma ctx_get_insert c x d y : ctx_get (ctx_insert c x d) y = if name_eqb x y then Some d else ctx_get c y.
Proof. unfold ctx_insert. rewrite ctx_get_cons, ctx_get_remove. destruct (name_eqb x y); reflexivity. Qed.

Lemma ctx_get_removes : forall l c y,
  ctx_get (fold_left ctx_remove l c) y = if existsb (fun x => name_eqb x y) l then None else ctx_get c y.
Proof.
  induction l as [|x l IH]; intros c y; [reflexivity|]. cbn [fold_left existsb]. rewrite IH, ctx_get_remove.
  destruct (name_eqb x y); cbn [orb]; [now destruct (existsb _ l) | reflexivity].
Qed.

Definition ctx_equiv (c c' : ctx) : Prop := forall y, ctx_get c y = ctx_get c' y.

(* the map represents the stack G at the given depth *)
Definition ctx_rel (c : ctx) (G : list name) (depth : nat) : Prop :=
  length G = depth /\
  forall y, ctx_get c y = if is_placeholder y then None
                          else match index_of y G with Some i => Some (depth - 1 - i) | None => None end.

Lemma ctx_rel_equiv c c' G d : ctx_rel c G d -> ctx_equiv c' c -> ctx_rel c' G d.
Proof. intros [L H] E. split; [exact L|]. intros y. rewrite E. apply H. Qed.

Lemma index_of_lt : forall y G i, index_of y G = Some i -> i < length G.
Proof.
  induction G as [|z G IH]; intros i H; [discriminate|]. cbn [index_of] in H.
  destruct (name_eqb y z); [injection H as <-; cbn; lia|].
  destruct (index_of y G) as [j|]; [|discriminate]. injection H as <-. specialize (IH j eq_refl). cbn. lia.
Qed.

Lemma ctx_rel_bound c G d x : ctx_rel c G d -> is_placeholder x = false ->
  bound x G = match ctx_get c x with Some _ => true | None => false end.
Proof. intros [_ H] P. rewrite H, P. unfold bound. destruct (index_of x G); reflexivity. Qed.

(* pushing a binder *)
Lemma ctx_rel_push_placeholder c G d x : ctx_rel c G d -> is_placeholder x = true -> ctx_rel c (x :: G) (S d).
Proof.
  intros [L H] P. split; [cbn; lia|]. intros y. rewrite H. destruct (is_placeholder y) eqn:Py; [reflexivity|].
  cbn [index_of]. destruct (name_eqb y x) eqn:E.
  - apply name_eqb_eq in E. subst y. congruence.
  - destruct (index_of y G) as [i|]; [f_equal; lia | reflexivity].
Qed.

Lemma ctx_rel_push c G d x : ctx_rel c G d -> is_placeholder x = false -> ctx_rel (ctx_insert c x d) (x :: G) (S d).
Proof.
  intros [L H] P. split; [cbn; lia|]. intros y. rewrite ctx_get_insert. cbn [index_of]. rewrite (name_eqb_sym y x).
  destruct (name_eqb x y) eqn:E.
  - apply name_eqb_eq in E. subst y. rewrite P. f_equal. lia.
  - rewrite H. destruct (is_placeholder y); [reflexivity|]. destruct (index_of y G) as [i|]; [f_equal; lia | reflexivity].
Qed.

Lemma index_of_app_notin : forall N G y, existsb (fun x => name_eqb x y) N = false ->
  index_of y (N ++ G) = match index_of y G with Some i => Some (length N + i) | None => None end.
Proof.
  induction N as [|z N IH]; intros G y H; [cbn; now destruct (index_of y G)|].
  cbn [existsb] in H. apply orb_false_elim in H as [Hz HN]. cbn [app index_of length].
  rewrite name_eqb_sym, Hz, (IH G y HN). destruct (index_of y G); reflexivity.
Qed.

(* leaving the binders N again: removing their (non-placeholder) names gives back the outer map *)
Lemma ctx_rel_restore c3 c0 N G depth l :
  ctx_rel c3 (N ++ G) (depth + length N) -> ctx_rel c0 G depth ->
  (forall y, is_placeholder y = false -> existsb (fun x => name_eqb x y) l = existsb (fun x => name_eqb x y) N) ->
  (forall y, is_placeholder y = false -> existsb (fun x => name_eqb x y) N = true -> bound y G = false) ->
  ctx_equiv (fold_left ctx_remove l c3) c0.
Proof.
  intros [_ H3] [L0 H0] Hl Hfresh y. rewrite ctx_get_removes, H3, H0.
  destruct (is_placeholder y) eqn:P; [now destruct (existsb _ l)|].
  rewrite (Hl y P). destruct (existsb (fun x => name_eqb x y) N) eqn:E.
  - specialize (Hfresh y P E). unfold bound in Hfresh. destruct (index_of y G); [discriminate|reflexivity].
  - rewrite (index_of_app_notin N G y E). destruct (index_of y G) as [i|] eqn:I; [|reflexivity].
    apply index_of_lt in I. f_equal. lia.
Qed.

(* ---------- errors only accumulate ---------- *)
Lemma fold_left_inv {A B} (P : A -> Prop) (f : A -> B -> A) : forall l a,
  P a -> (forall a b, P a -> P (f a b)) -> P (fold_left f l a).
Proof. induction l as [|b l IH]; intros a Ha Hf; [exact Ha|]. cbn [fold_left]. apply IH; [apply Hf; exact Ha | exact Hf]. Qed.

Lemma rfresh_errs s : rerrs (snd (rfresh s)) = rerrs s.
Proof. reflexivity. Qed.

Lemma enter_binder_mono c x d s : rerrs s <= rerrs (snd (enter_binder c x d s)).
Proof. unfold enter_binder. destruct (name_eqb x placeholder); [cbn; lia|]. cbn [snd]. destruct (ctx_get c x); cbn; lia. Qed.

Lemma resolve_mono : forall f t depth c s, rerrs s <= rerrs (snd (resolve f t depth c s)).
Proof.
  induction f as [|f IH]; intros t depth c s; [cbn; lia|].
  destruct t; cbn [resolve]; try (cbn; lia).
  - (* var *) destruct (ctx_get c x); [cbn; lia|]. destruct (name_eqb x placeholder); cbn; lia.
  - (* lam *)
    assert (D : forall r, r = match dom with Some d => resolve f d depth c s
                                        | None => let '(h, s1) := rfresh s in (THole h 0, c, s1) end -> rerrs s <= rerrs (snd r)).
    { intros r ->. destruct dom as [d|]; [apply IH | cbn; lia]. }
    specialize (D _ eq_refl). destruct (match dom with Some _ => _ | None => _ end) as [[d' c1] s1]. cbn [snd] in D.
    pose proof (enter_binder_mono c1 x depth s1) as E. destruct (enter_binder c1 x depth s1) as [c2 s2]. cbn [snd] in E.
    pose proof (IH t (S depth) c2 (rname s2 x)) as B. destruct (resolve f t (S depth) c2 (rname s2 x)) as [[b' c3] s3].
    cbn [snd rname rerrs] in *. lia.
  - (* pi *)
    pose proof (IH t1 depth c s) as D. destruct (resolve f t1 depth c s) as [[d' c1] s1]. cbn [snd] in D.
    pose proof (enter_binder_mono c1 x depth s1) as E. destruct (enter_binder c1 x depth s1) as [c2 s2]. cbn [snd] in E.
    pose proof (IH t2 (S depth) c2 (rname s2 x)) as B. destruct (resolve f t2 (S depth) c2 (rname s2 x)) as [[b' c3] s3].
    cbn [snd rname rerrs] in *. lia.
  - (* app *)
    pose proof (IH t1 depth c s) as D. destruct (resolve f t1 depth c s) as [[g' c1] s1]. cbn [snd] in D.
    pose proof (IH t2 depth c1 s1) as B. destruct (resolve f t2 depth c1 s1) as [[a' c2] s2]. cbn [snd] in *. lia.
  - (* let *)
    destruct (collect_definitions (PLet i x xs xe ann t1 t2)) as [defs body].
    match goal with |- context [fold_left ?F defs (c, s, [], 0)] =>
      assert (M1 : rerrs s <= rerrs (snd (fst (fst (fold_left F defs (c, s, @nil name, 0))))));
      [ apply (fold_left_inv (fun st => rerrs s <= rerrs (snd (fst (fst st))))); [cbn; lia|];
        intros [[[c0 s0] ad] i0] df H; cbn [fst snd] in *;
        destruct (name_eqb (fst (fst df)) placeholder); cbn [fst snd]; [exact H|]; destruct (ctx_get c0 (fst (fst df))); cbn; lia
      | destruct (fold_left F defs (c, s, @nil name, 0)) as [[[c1 s1] added] i1] ]
    end. cbn [fst snd] in M1.
    match goal with |- context [fold_left ?F defs (?a0, c1, s1, 0)] =>
      assert (M2 : rerrs s1 <= rerrs (snd (fst (fold_left F defs (a0, c1, s1, 0)))));
      [ apply (fold_left_inv (fun st => rerrs s1 <= rerrs (snd (fst st)))); [cbn; lia|];
        intros [[[acc c0] s0] i0] [[x0 an] d] H; cbn [fst snd] in *;
        assert (A : forall r, r = match an with Some a => resolve f a (depth + length defs) c0 (rname s0 x0)
                                            | None => let '(h, s1) := rfresh (rname s0 x0) in (THole h (length defs - i0), c0, s1) end ->
                      rerrs s0 <= rerrs (snd r));
        [ intros r ->; destruct an as [a|]; [pose proof (IH a (depth + length defs) c0 (rname s0 x0)) as Q; cbn [rname rerrs] in Q; exact Q | cbn; lia] |];
        specialize (A _ eq_refl); destruct (match an with Some _ => _ | None => _ end) as [[an' c'] s']; cbn [snd] in A;
        pose proof (IH d (depth + length defs) c' s') as Dd; destruct (resolve f d (depth + length defs) c' s') as [[d' c''] s'']; cbn [fst snd] in *; lia
      | destruct (fold_left F defs (a0, c1, s1, 0)) as [[[rdefs c2] s2] i2] ]
    end. cbn [fst snd] in M2.
    pose proof (IH body (depth + length defs) c2 s2) as B. destruct (resolve f body (depth + length defs) c2 s2) as [[b' c3] s3].
    cbn [snd] in *. lia.
  - (* neg *) pose proof (IH t depth c s) as D. destruct (resolve f t depth c s) as [[a' c1] s1]. exact D.
  - (* bin *)
    pose proof (IH t1 depth c s) as D. destruct (resolve f t1 depth c s) as [[g' c1] s1]. cbn [snd] in D.
    pose proof (IH t2 depth c1 s1) as B. destruct (resolve f t2 depth c1 s1) as [[a' c2] s2]. cbn [snd] in *. lia.
  - (* if *)
    pose proof (IH t1 depth c s) as D. destruct (resolve f t1 depth c s) as [[g' c1] s1]. cbn [snd] in D.
    pose proof (IH t2 depth c1 s1) as B. destruct (resolve f t2 depth c1 s1) as [[a' c2] s2]. cbn [snd] in B.
    pose proof (IH t3 depth c2 s2) as E. destruct (resolve f t3 depth c2 s2) as [[e' c3] s3]. cbn [snd] in *. lia.
Qed.

(* ---------- agreement with the specification ---------- *)
Definition agree (res : term * ctx * rstate) (spec : option (term * nat)) (c : ctx) (s : rstate) : Prop :=
  match spec with
  | Some (r, h') => rerrs (snd res) = rerrs s /\ fst (fst res) = r /\ rnext_hole (snd res) = h' /\ ctx_equiv (snd (fst res)) c
  | None => rerrs s < rerrs (snd res)
  end.

(* the two passes over the definitions of a group, named *)
Definition names_of (defs : list (name * option pterm * pterm)) : list name := map (fun df => fst (fst df)) defs.

Definition push1 (depth : nat) (st : ctx * rstate * list name * nat) (df : name * option pterm * pterm) :=
  let '(c, s, added, i) := st in
  let x := fst (fst df) in
  if name_eqb x placeholder then (c, s, added, S i)
  else (ctx_insert c x (depth + i), (match ctx_get c x with Some _ => radd_err s | None => s end), x :: added, S i).

Definition push2 (acc : option (list name)) (df : name * option pterm * pterm) :=
  match acc with
  | None => None
  | Some G1 => let x := fst (fst df) in
      if negb (is_placeholder x) && bound x G1 then None else Some (x :: G1)
  end.

Lemma push2_none defs : fold_left push2 defs None = None.
Proof. induction defs; [reflexivity|]. exact IHdefs. Qed.

Lemma push1_mono depth : forall defs c s added i,
  rerrs s <= rerrs (snd (fst (fst (fold_left (push1 depth) defs (c, s, added, i))))).
Proof.
  induction defs as [|df defs IH]; intros c s added i; [cbn; lia|]. cbn [fold_left push1].
  destruct (name_eqb (fst (fst df)) placeholder); [apply IH|].
  etransitivity; [|apply IH]. destruct (ctx_get c (fst (fst df))); cbn; lia.
Qed.

Lemma bound_cons_false y x G : bound y (x :: G) = false -> bound y G = false.
Proof. unfold bound. cbn [index_of]. destruct (name_eqb y x); [discriminate|]. now destruct (index_of y G). Qed.

Lemma push_agree depth : forall defs c s added i G1,
  ctx_rel c G1 (depth + i) ->
  match fold_left push2 defs (Some G1) with
  | Some G2 =>
      fold_left (push1 depth) defs (c, s, added, i) =
        (fst (fst (fst (fold_left (push1 depth) defs (c, s, added, i)))), s,
         rev (filter (fun x => negb (is_placeholder x)) (names_of defs)) ++ added, i + length defs) /\
      ctx_rel (fst (fst (fst (fold_left (push1 depth) defs (c, s, added, i))))) G2 (depth + i + length defs) /\
      G2 = rev (names_of defs) ++ G1 /\
      (forall y, is_placeholder y = false -> existsb (fun x => name_eqb x y) (names_of defs) = true -> bound y G1 = false)
  | None => rerrs s < rerrs (snd (fst (fst (fold_left (push1 depth) defs (c, s, added, i)))))
  end.
Proof.
  induction defs as [|df defs IH]; intros c s added i G1 HR.
  - cbn. rewrite !Nat.add_0_r. split; [reflexivity|]. split; [exact HR|]. split; [reflexivity|]. intros y _ Hy; discriminate Hy.
  - cbn [fold_left push2 push1]. fold (is_placeholder (fst (fst df))).
    destruct (is_placeholder (fst (fst df))) eqn:P; cbn [negb andb].
    + assert (HR' : ctx_rel c (fst (fst df) :: G1) (depth + S i)) by (rewrite Nat.add_succ_r; now apply ctx_rel_push_placeholder).
      specialize (IH c s added (S i) _ HR'). destruct (fold_left push2 defs (Some (fst (fst df) :: G1))) as [G2|]; [|exact IH].
      destruct IH as (E & R & -> & Fr). cbn [names_of map filter length]. rewrite P. cbn [negb].
      replace (i + S (length defs)) with (S i + length defs) by lia.
      replace (depth + i + S (length defs)) with (depth + S i + length defs) by lia.
      split; [exact E|]. split; [exact R|]. split; [cbn [rev]; now rewrite <- app_assoc|].
      intros y Py Ey. cbn [existsb] in Ey. apply orb_prop in Ey as [Ey|Ey].
      * apply name_eqb_eq in Ey. subst y. congruence.
      * apply bound_cons_false with (x := fst (fst df)). now apply Fr.
    + rewrite (ctx_rel_bound _ _ _ _ HR P).
      destruct (ctx_get c (fst (fst df))) eqn:Gx.
      * rewrite push2_none. eapply Nat.lt_le_trans; [|apply push1_mono]. cbn. lia.
      * assert (HR' : ctx_rel (ctx_insert c (fst (fst df)) (depth + i)) (fst (fst df) :: G1) (depth + S i))
          by (rewrite Nat.add_succ_r; now apply ctx_rel_push).
        specialize (IH _ s (fst (fst df) :: added) (S i) _ HR').
        destruct (fold_left push2 defs (Some (fst (fst df) :: G1))) as [G2|]; [|exact IH].
        destruct IH as (E & R & -> & Fr). cbn [names_of map filter length]. rewrite P. cbn [negb rev].
        replace (i + S (length defs)) with (S i + length defs) by lia.
        replace (depth + i + S (length defs)) with (depth + S i + length defs) by lia.
        split; [rewrite <- app_assoc; exact E|]. split; [exact R|]. split; [now rewrite <- app_assoc|].
        intros y Py Ey. cbn [existsb] in Ey. apply orb_prop in Ey as [Ey|Ey].
        -- apply name_eqb_eq in Ey. subst y. rewrite (ctx_rel_bound _ _ _ _ HR P), Gx. reflexivity.
        -- apply bound_cons_false with (x := fst (fst df)). now apply Fr.
Qed.

Section Defs.
Variable f : nat.
Hypothesis IHf : forall t depth c s G, ctx_rel c G depth -> agree (resolve f t depth c s) (sresolve f G t (rnext_hole s)) c s.
Variables (nd n : nat) (G2 : list name).

Definition def1 (st : list (term * term) * ctx * rstate * nat) (df : name * option pterm * pterm) :=
  let '(acc, c, s, i) := st in
  let '(x, an, d) := df in
  let s0 := rname s x in
  let '(an', c', s') := match an with
                        | Some a => resolve f a nd c s0
                        | None => let '(h, s1) := rfresh s0 in (THole h (n - i), c, s1) end in
  let '(d', c'', s'') := resolve f d nd c' s' in
  (acc ++ [(an', d')], c'', s'', S i).

Definition def2 (acc : option (list (term * term) * nat * nat)) (df : name * option pterm * pterm) :=
  match acc with
  | None => None
  | Some (l, h, i) =>
      let '(_, an, d) := df in
      match (match an with Some a => sresolve f G2 a h | None => Some (THole h (n - i), S h) end) with
      | None => None
      | Some (an', h1) =>
          match sresolve f G2 d h1 with
          | Some (d', h2) => Some (l ++ [(an', d')], h2, S i)
          | None => None end
      end
  end.

Lemma def2_none defs : fold_left def2 defs None = None.
Proof. induction defs; [reflexivity|]. exact IHdefs. Qed.

Lemma def1_mono : forall defs acc c s i, rerrs s <= rerrs (snd (fst (fold_left def1 defs (acc, c, s, i)))).
Proof.
  induction defs as [|[[x an] d] defs IH]; intros acc c s i; [cbn; lia|]. cbn [fold_left def1].
  assert (A : forall r, r = match an with Some a => resolve f a nd c (rname s x)
                                      | None => let '(h, s1) := rfresh (rname s x) in (THole h (n - i), c, s1) end ->
                rerrs s <= rerrs (snd r)).
  { intros r ->. destruct an as [a|]; [pose proof (resolve_mono f a nd c (rname s x)) as Q; exact Q | cbn; lia]. }
  specialize (A _ eq_refl). destruct (match an with Some _ => _ | None => _ end) as [[an' c'] s']. cbn [snd] in A.
  pose proof (resolve_mono f d nd c' s') as Dd. destruct (resolve f d nd c' s') as [[d' c''] s'']. cbn [snd] in Dd.
  etransitivity; [|apply IH]. lia.
Qed.

Lemma defs_agree : forall defs acc c s i, ctx_rel c G2 nd ->
  match fold_left def2 defs (Some (acc, rnext_hole s, i)) with
  | Some (l, h1, _) =>
      let r := fold_left def1 defs (acc, c, s, i) in
      rerrs (snd (fst r)) = rerrs s /\ fst (fst (fst r)) = l /\ rnext_hole (snd (fst r)) = h1 /\ ctx_equiv (snd (fst (fst r))) c
  | None => rerrs s < rerrs (snd (fst (fold_left def1 defs (acc, c, s, i))))
  end.
Proof.
  induction defs as [|[[x an] d] defs IH]; intros acc c s i HR.
  - cbn. repeat split; auto.
  - cbn [fold_left def1 def2].
    (* the annotation *)
    assert (A : agree (match an with Some a => resolve f a nd c (rname s x)
                                | None => let '(h, s1) := rfresh (rname s x) in (THole h (n - i), c, s1) end)
                      (match an with Some a => sresolve f G2 a (rnext_hole s) | None => Some (THole (rnext_hole s) (n - i), S (rnext_hole s)) end)
                      c s).
    { destruct an as [a|]; [exact (IHf a nd c (rname s x) G2 HR)|]. cbn. repeat split; auto. }
    destruct (match an with Some a => resolve f a nd c (rname s x) | None => _ end) as [[an' c'] s'].
    destruct (match an with Some a => sresolve f G2 a (rnext_hole s) | None => _ end) as [[an0 h1]|]; cbn [agree fst snd] in A.
    2: { rewrite def2_none. pose proof (resolve_mono f d nd c' s') as Dd. destruct (resolve f d nd c' s') as [[d' c''] s''].
         cbn [snd] in Dd. eapply Nat.lt_le_trans; [|apply def1_mono]. lia. }
    destruct A as (E1 & -> & <- & Q1). pose proof (ctx_rel_equiv _ _ _ _ HR Q1) as HR1.
    pose proof (IHf d nd c' s' G2 HR1) as B. destruct (resolve f d nd c' s') as [[d' c''] s''].
    destruct (sresolve f G2 d (rnext_hole s')) as [[d0 h2]|]; cbn [agree fst snd] in B.
    2: { rewrite def2_none. eapply Nat.lt_le_trans; [|apply def1_mono]. lia. }
    destruct B as (E2 & -> & <- & Q2). pose proof (ctx_rel_equiv _ _ _ _ HR1 Q2) as HR2.
    specialize (IH (acc ++ [(an0, d0)]) c'' s'' (S i) HR2).
    destruct (fold_left def2 defs (Some (acc ++ [(an0, d0)], rnext_hole s'', S i))) as [[[l h3] i3]|].
    + cbv zeta in IH |- *. destruct IH as (E3 & L3 & H3 & Q3). split; [congruence|]. split; [exact L3|]. split; [exact H3|].
      intros y. rewrite Q3, Q2. apply Q1.
    + lia.
Qed.
End Defs.

Lemma ctx_equiv_refl c : ctx_equiv c c.
Proof. intros y; reflexivity. Qed.
Lemma ctx_equiv_trans a b c : ctx_equiv a b -> ctx_equiv b c -> ctx_equiv a c.
Proof. intros H1 H2 y. rewrite H1. apply H2. Qed.

(* leaving a single binder *)
Lemma leave_binder c3 c0 x G depth :
  ctx_rel c3 (x :: G) (S depth) -> ctx_rel c0 G depth -> (is_placeholder x = false -> bound x G = false) ->
  ctx_equiv (ctx_remove c3 x) c0.
Proof.
  intros H3 H0 Fr. change (ctx_remove c3 x) with (fold_left ctx_remove [x] c3).
  apply (ctx_rel_restore c3 c0 [x] G depth [x]); auto.
  - cbn [length]. now rewrite Nat.add_1_r.
  - intros y Py E. cbn [existsb] in E. rewrite orb_false_r in E. apply name_eqb_eq in E. subst y. now apply Fr.
Qed.

(* entering a binder in both worlds *)
Lemma enter_binder_agree c x depth s G :
  ctx_rel c G depth ->
  let r := enter_binder c x depth s in
  if negb (is_placeholder x) && bound x G then rerrs s < rerrs (snd r)
  else snd r = s /\ ctx_rel (fst r) (x :: G) (S depth) /\ (is_placeholder x = false -> bound x G = false).
Proof.
  intros HR. unfold enter_binder. fold (is_placeholder x). destruct (is_placeholder x) eqn:P; cbn [negb andb fst snd].
  - split; [reflexivity|]. split; [now apply ctx_rel_push_placeholder | discriminate].
  - rewrite (ctx_rel_bound _ _ _ _ HR P). destruct (ctx_get c x); [cbn; lia|].
    split; [reflexivity|]. split; [now apply ctx_rel_push | reflexivity].
Qed.

Lemma existsb_rev {A} (p : A -> bool) : forall l, existsb p (rev l) = existsb p l.
Proof.
  induction l as [|a l IH]; [reflexivity|]. cbn [rev existsb]. rewrite existsb_app, IH. cbn [existsb].
  rewrite orb_false_r. apply orb_comm.
Qed.
Lemma existsb_filter_nonph y : is_placeholder y = false -> forall l,
  existsb (fun x => name_eqb x y) (filter (fun x => negb (is_placeholder x)) l) = existsb (fun x => name_eqb x y) l.
Proof.
  intros P. induction l as [|a l IH]; [reflexivity|]. cbn [filter existsb].
  destruct (is_placeholder a) eqn:Pa; cbn [negb existsb]; rewrite IH; [|reflexivity].
  destruct (name_eqb a y) eqn:E; [|reflexivity]. apply name_eqb_eq in E. subst a. congruence.
Qed.

Theorem resolve_agrees : forall f t depth c s G,
  ctx_rel c G depth -> agree (resolve f t depth c s) (sresolve f G t (rnext_hole s)) c s.
Proof.
  induction f as [|f IH]; intros t depth c s G HR; [cbn; lia|].
  destruct t; cbn [resolve sresolve]; try (cbn; repeat split; auto; fail).
  - (* variable *)
    pose proof HR as [L H]. rewrite (H x). fold (is_placeholder x). destruct (is_placeholder x) eqn:P.
    + cbn. repeat split; auto.
    + destruct (index_of x G) as [j|] eqn:I; cbn; [|lia].
      apply index_of_lt in I. repeat split; auto. f_equal. lia.
  - (* function *)
    assert (A : agree (match dom with Some d => resolve f d depth c s | None => let '(h, s1) := rfresh s in (THole h 0, c, s1) end)
                      (match dom with Some d => sresolve f G d (rnext_hole s) | None => Some (THole (rnext_hole s) 0, S (rnext_hole s)) end) c s).
    { destruct dom as [d|]; [exact (IH d depth c s G HR)|]. cbn. repeat split; auto. }
    destruct (match dom with Some d => resolve f d depth c s | None => _ end) as [[d' c1] s1].
    destruct (match dom with Some d => sresolve f G d (rnext_hole s) | None => _ end) as [[d0 h1]|]; cbn [agree fst snd] in A.
    2: { pose proof (enter_binder_mono c1 x depth s1) as E. destruct (enter_binder c1 x depth s1) as [c2 s2]. cbn [snd] in E.
         pose proof (resolve_mono f t (S depth) c2 (rname s2 x)) as B. destruct (resolve f t (S depth) c2 (rname s2 x)) as [[b' c3] s3].
         cbn [agree snd rname rerrs] in *. lia. }
    destruct A as (E1 & -> & <- & Q1). pose proof (ctx_rel_equiv _ _ _ _ HR Q1) as HR1.
    pose proof (enter_binder_agree c1 x depth s1 G HR1) as EB. cbv zeta in EB.
    destruct (enter_binder c1 x depth s1) as [c2 s2]. cbn [fst snd] in EB.
    destruct (negb (is_placeholder x) && bound x G).
    { pose proof (resolve_mono f t (S depth) c2 (rname s2 x)) as B. destruct (resolve f t (S depth) c2 (rname s2 x)) as [[b' c3] s3].
      cbn [agree snd rname rerrs] in *. lia. }
    destruct EB as (-> & HR2 & Fr).
    pose proof (IH t (S depth) c2 (rname s1 x) (x :: G) HR2) as B. cbn [rname rnext_hole] in B.
    destruct (resolve f t (S depth) c2 (rname s1 x)) as [[b' c3] s3].
    destruct (sresolve f (x :: G) t (rnext_hole s1)) as [[b0 h2]|]; cbn [agree fst snd rname rerrs] in *; [|lia].
    destruct B as (E2 & -> & <- & Q2). split; [congruence|]. split; [reflexivity|]. split; [reflexivity|].
    eapply ctx_equiv_trans; [|exact Q1]. apply (leave_binder c3 c1 x G depth); auto. exact (ctx_rel_equiv _ _ _ _ HR2 Q2).
  - (* function type *)
    pose proof (IH t1 depth c s G HR) as A.
    destruct (resolve f t1 depth c s) as [[d' c1] s1].
    destruct (sresolve f G t1 (rnext_hole s)) as [[d0 h1]|]; cbn [agree fst snd] in A.
    2: { pose proof (enter_binder_mono c1 x depth s1) as E. destruct (enter_binder c1 x depth s1) as [c2 s2]. cbn [snd] in E.
         pose proof (resolve_mono f t2 (S depth) c2 (rname s2 x)) as B. destruct (resolve f t2 (S depth) c2 (rname s2 x)) as [[b' c3] s3].
         cbn [agree snd rname rerrs] in *. lia. }
    destruct A as (E1 & -> & <- & Q1). pose proof (ctx_rel_equiv _ _ _ _ HR Q1) as HR1.
    pose proof (enter_binder_agree c1 x depth s1 G HR1) as EB. cbv zeta in EB.
    destruct (enter_binder c1 x depth s1) as [c2 s2]. cbn [fst snd] in EB.
    destruct (negb (is_placeholder x) && bound x G).
    { pose proof (resolve_mono f t2 (S depth) c2 (rname s2 x)) as B. destruct (resolve f t2 (S depth) c2 (rname s2 x)) as [[b' c3] s3].
      cbn [agree snd rname rerrs] in *. lia. }
    destruct EB as (-> & HR2 & Fr).
    pose proof (IH t2 (S depth) c2 (rname s1 x) (x :: G) HR2) as B. cbn [rname rnext_hole] in B.
    destruct (resolve f t2 (S depth) c2 (rname s1 x)) as [[b' c3] s3].
    destruct (sresolve f (x :: G) t2 (rnext_hole s1)) as [[b0 h2]|]; cbn [agree fst snd rname rerrs] in *; [|lia].
    destruct B as (E2 & -> & <- & Q2). split; [congruence|]. split; [reflexivity|]. split; [reflexivity|].
    eapply ctx_equiv_trans; [|exact Q1]. apply (leave_binder c3 c1 x G depth); auto. exact (ctx_rel_equiv _ _ _ _ HR2 Q2).
  - (* application *)
    pose proof (IH t1 depth c s G HR) as A1. destruct (resolve f t1 depth c s) as [[g' c1] s1].
    destruct (sresolve f G t1 (rnext_hole s)) as [[g0 h1]|]; cbn [agree fst snd] in A1.
    2: { pose proof (resolve_mono f t2 depth c1 s1) as M. destruct (resolve f t2 depth c1 s1) as [[a' c2] s2]. cbn [agree snd] in *. lia. }
    destruct A1 as (E1 & -> & <- & Q1). pose proof (ctx_rel_equiv _ _ _ _ HR Q1) as HR1.
    pose proof (IH t2 depth c1 s1 G HR1) as A2. destruct (resolve f t2 depth c1 s1) as [[a' c2] s2].
    destruct (sresolve f G t2 (rnext_hole s1)) as [[a0 h2]|]; cbn [agree fst snd] in *; [|lia].
    destruct A2 as (E2 & -> & <- & Q2). split; [congruence|]. split; [reflexivity|]. split; [reflexivity|].
    exact (ctx_equiv_trans _ _ _ Q2 Q1).
  - (* group *)
    destruct (collect_definitions (PLet i x xs xe ann t1 t2)) as [defs body]. cbv zeta.
    match goal with |- context [fold_left ?F defs (c, s, [], 0)] => change F with (push1 depth) end.
    match goal with |- context [fold_left ?F defs (Some G)] => change F with push2 end.
    assert (HR0 : ctx_rel c G (depth + 0)) by now rewrite Nat.add_0_r.
    pose proof (push_agree depth defs c s [] 0 G HR0) as PA.
    pose proof (push1_mono depth defs c s [] 0) as M1.
    destruct (fold_left push2 defs (Some G)) as [G2|].
    2: { destruct (fold_left (push1 depth) defs (c, s, [], 0)) as [[[c1 s1] added] i1]. cbn [fst snd] in PA, M1.
         match goal with |- context [fold_left ?F defs (?a0, c1, s1, 0)] =>
           change F with (def1 f (depth + length defs) (length defs));
           pose proof (def1_mono f (depth + length defs) (length defs) defs a0 c1 s1 0) as M2;
           destruct (fold_left (def1 f (depth + length defs) (length defs)) defs (a0, c1, s1, 0)) as [[[rdefs c2] s2] i2] end.
         cbn [fst snd] in M2.
         pose proof (resolve_mono f body (depth + length defs) c2 s2) as B.
         destruct (resolve f body (depth + length defs) c2 s2) as [[b' c3] s3]. cbn [agree snd] in *. lia. }
    destruct PA as (E & R & -> & Fr). rewrite E. clear E M1.
    set (c1 := fst (fst (fst (fold_left (push1 depth) defs (c, s, [], 0))))) in *.
    rewrite Nat.add_0_r in R.
    match goal with |- context [fold_left ?F defs (?a0, c1, s, 0)] => change F with (def1 f (depth + length defs) (length defs)) end.
    match goal with |- context [fold_left ?F defs (Some (?a0, rnext_hole s, 0))] => change F with (def2 f (length defs) (rev (names_of defs) ++ G)) end.
    pose proof (defs_agree f IH (depth + length defs) (length defs) (rev (names_of defs) ++ G) defs [] c1 s 0 R) as DA.
    pose proof (def1_mono f (depth + length defs) (length defs) defs [] c1 s 0) as M2.
    destruct (fold_left (def2 f (length defs) (rev (names_of defs) ++ G)) defs (Some ([], rnext_hole s, 0))) as [[[l h1] i3]|].
    2: { destruct (fold_left (def1 f (depth + length defs) (length defs)) defs ([], c1, s, 0)) as [[[rdefs c2] s2] i2]. cbn [fst snd] in DA, M2.
         pose proof (resolve_mono f body (depth + length defs) c2 s2) as B.
         destruct (resolve f body (depth + length defs) c2 s2) as [[b' c3] s3]. cbn [agree snd] in *. lia. }
    cbv zeta in DA.
    destruct (fold_left (def1 f (depth + length defs) (length defs)) defs ([], c1, s, 0)) as [[[rdefs c2] s2] i2]. cbn [fst snd] in DA, M2.
    destruct DA as (E2 & -> & <- & Q2). pose proof (ctx_rel_equiv _ _ _ _ R Q2) as R2.
    pose proof (IH body (depth + length defs) c2 s2 _ R2) as B.
    destruct (resolve f body (depth + length defs) c2 s2) as [[b' c3] s3].
    destruct (sresolve f (rev (names_of defs) ++ G) body (rnext_hole s2)) as [[b0 h2]|]; cbn [agree fst snd] in *; [|lia].
    destruct B as (E3 & -> & <- & Q3). split; [congruence|]. split; [reflexivity|]. split; [reflexivity|].
    apply (ctx_rel_restore c3 c (rev (names_of defs)) G depth).
    + rewrite rev_length. unfold names_of. rewrite map_length. exact (ctx_rel_equiv _ _ _ _ R2 Q3).
    + exact HR.
    + intros y Py. rewrite app_nil_r, rev_involutive, existsb_rev. now apply existsb_filter_nonph.
    + intros y Py Ey. rewrite existsb_rev in Ey. now apply Fr.
  - (* negation *)
    pose proof (IH t depth c s G HR) as A1. destruct (resolve f t depth c s) as [[a' c1] s1].
    destruct (sresolve f G t (rnext_hole s)) as [[a0 h1]|]; cbn [agree fst snd] in *; [|lia].
    destruct A1 as (E1 & -> & <- & Q1). repeat split; auto.
  - (* binary operator *)
    pose proof (IH t1 depth c s G HR) as A1. destruct (resolve f t1 depth c s) as [[g' c1] s1].
    destruct (sresolve f G t1 (rnext_hole s)) as [[g0 h1]|]; cbn [agree fst snd] in A1.
    2: { pose proof (resolve_mono f t2 depth c1 s1) as M. destruct (resolve f t2 depth c1 s1) as [[a' c2] s2]. cbn [agree snd] in *. lia. }
    destruct A1 as (E1 & -> & <- & Q1). pose proof (ctx_rel_equiv _ _ _ _ HR Q1) as HR1.
    pose proof (IH t2 depth c1 s1 G HR1) as A2. destruct (resolve f t2 depth c1 s1) as [[a' c2] s2].
    destruct (sresolve f G t2 (rnext_hole s1)) as [[a0 h2]|]; cbn [agree fst snd] in *; [|lia].
    destruct A2 as (E2 & -> & <- & Q2). split; [congruence|]. split; [reflexivity|]. split; [reflexivity|].
    exact (ctx_equiv_trans _ _ _ Q2 Q1).
  - (* conditional *)
    pose proof (IH t1 depth c s G HR) as A1. destruct (resolve f t1 depth c s) as [[g' c1] s1].
    destruct (sresolve f G t1 (rnext_hole s)) as [[g0 h1]|]; cbn [agree fst snd] in A1.
    2: { pose proof (resolve_mono f t2 depth c1 s1) as M. destruct (resolve f t2 depth c1 s1) as [[a' c2] s2]. cbn [snd] in M.
         pose proof (resolve_mono f t3 depth c2 s2) as M3. destruct (resolve f t3 depth c2 s2) as [[e' c3] s3]. cbn [agree snd] in *. lia. }
    destruct A1 as (E1 & -> & <- & Q1). pose proof (ctx_rel_equiv _ _ _ _ HR Q1) as HR1.
    pose proof (IH t2 depth c1 s1 G HR1) as A2. destruct (resolve f t2 depth c1 s1) as [[a' c2] s2].
    destruct (sresolve f G t2 (rnext_hole s1)) as [[a0 h2]|]; cbn [agree fst snd] in A2.
    2: { pose proof (resolve_mono f t3 depth c2 s2) as M3. destruct (resolve f t3 depth c2 s2) as [[e' c3] s3]. cbn [agree snd] in *. lia. }
    destruct A2 as (E2 & -> & <- & Q2). pose proof (ctx_rel_equiv _ _ _ _ HR1 Q2) as HR2.
    pose proof (IH t3 depth c2 s2 G HR2) as A3. destruct (resolve f t3 depth c2 s2) as [[e' c3] s3].
    destruct (sresolve f G t3 (rnext_hole s2)) as [[e0 h3]|]; cbn [agree fst snd] in *; [|lia].
    destruct A3 as (E3 & -> & <- & Q3). split; [congruence|]. split; [reflexivity|]. split; [reflexivity|].
    exact (ctx_equiv_trans _ _ _ Q3 (ctx_equiv_trans _ _ _ Q2 Q1)).
Qed.

(* ---------- the top level ---------- *)
Definition s0 : rstate := {| rerrs := 0; rnext_hole := 0; rnames := [] |}.

Lemma ctx_rel_empty : ctx_rel [] [] 0.
Proof. split; [reflexivity|]. intros y. cbn. now destruct (is_placeholder y). Qed.

Theorem resolve_is_spec : forall r,
  match scope_spec r with
  | Some t => rerrs (snd (resolve (S (psize r)) r 0 [] s0)) = 0 /\ fst (fst (resolve (S (psize r)) r 0 [] s0)) = t
  | None => 0 < rerrs (snd (resolve (S (psize r)) r 0 [] s0))
  end.
Proof.
  intros r. unfold scope_spec. pose proof (resolve_agrees (S (psize r)) r 0 [] s0 [] ctx_rel_empty) as A.
  change (rnext_hole s0) with 0 in A.
  destruct (sresolve (S (psize r)) [] r 0) as [[t h]|]; unfold agree in A; cbn [rerrs s0] in A.
  - destruct A as (E & T & _). split; assumption.
  - exact A.
Qed.

(* parse(): a tree that passes the syntactic stages is accepted only with the specification's term,
   and is accepted whenever the specification is defined and the definition-order check passes *)
Theorem parse_top_scope_sound : forall toks tree t ns,
  syntax_tree toks = Some tree -> fst (fst (parse_top toks true [])) = POk t ns ->
  scope_spec tree = Some t /\ check_definitions t = CDOk 0.
Proof.
  intros toks tree t ns. unfold syntax_tree, parse_top.
  destruct (parse_stage1 toks true) as [[st misses] scans]. destruct st; try discriminate.
  intros [= <-]. cbn -[resolve psize reassociate check_definitions Nat.eqb].
  pose proof (resolve_is_spec (reassociate t0)) as R. unfold s0 in R.
  destruct (resolve (S (psize (reassociate t0))) (reassociate t0) 0 [] _) as [[rt c'] s]. cbn [fst snd] in *.
  destruct (check_definitions rt) as [e|] eqn:CD; [|destruct (Nat.eqb (rerrs s) 0); discriminate].
  destruct (Nat.eqb (rerrs s + e) 0) eqn:Z; [|discriminate]. intros [= <- _]. apply Nat.eqb_eq in Z.
  destruct (scope_spec (reassociate t0)) as [t'|]; [|exfalso; lia]. destruct R as [_ ->]. split; [reflexivity|]. rewrite CD. f_equal. lia.
Qed.

Theorem parse_top_scope_complete : forall toks tree t,
  syntax_tree toks = Some tree -> scope_spec tree = Some t -> check_definitions t = CDOk 0 ->
  exists ns, fst (fst (parse_top toks true [])) = POk t ns.
Proof.
  intros toks tree t. unfold syntax_tree, parse_top.
  destruct (parse_stage1 toks true) as [[st misses] scans]. destruct st; try discriminate.
  intros [= <-] SS CD. cbn -[resolve psize reassociate check_definitions Nat.eqb].
  pose proof (resolve_is_spec (reassociate t0)) as R. unfold s0 in R. rewrite SS in R.
  destruct (resolve (S (psize (reassociate t0))) (reassociate t0) 0 [] _) as [[rt c'] s]. cbn [fst snd] in *.
  destruct R as [E ->]. rewrite CD, E. cbn. eexists. reflexivity.
Qed.
