(* Consequences of Church-Rosser on the fragment (L3): distinct type formers and distinct canonical
   constants are not convertible, Pi is injective. *)
From Coq Require Import List ZArith Lia Bool Arith Relations.
Import ListNotations.
Require Import Gram.Model.Term Gram.Model.DeBruijn Gram.Model.Eval Gram.Spec.Typing
  Gram.Proofs.DeBruijnLaws Gram.Proofs.CtxProofs Gram.Proofs.WeakenProofs Gram.Proofs.ConflLaws
  Gram.Proofs.Confluence.

(* ---------- reducts of head-normal shapes ---------- *)
Lemma pred_atom_inv t t' : atom t = true -> pred t t' -> t' = t.
Proof. intros A H. destruct t; try discriminate; inversion H; subst; reflexivity. Qed.

Lemma pstar_atom_inv t t' : atom t = true -> pstar t t' -> t' = t.
Proof.
  intros A H. apply clos_rt_rt1n in H. induction H as [|t u v Hs _ IH]; [reflexivity|].
  apply (pred_atom_inv _ _ A) in Hs. subst u. auto.
Qed.

Lemma pred_pi_inv im d b t : pred (TPi im d b) t -> exists d' b', t = TPi im d' b' /\ pred d d' /\ pred b b'.
Proof. intros H. inversion H; subst; [discriminate|]. eauto. Qed.

Lemma pstar_pi_inv im d b t : pstar (TPi im d b) t ->
  exists d' b', t = TPi im d' b' /\ pstar d d' /\ pstar b b'.
Proof.
  intros H. apply clos_rt_rt1n in H. remember (TPi im d b) as u eqn:E. revert d b E.
  induction H as [|u v w Hs _ IH]; intros d b ->.
  - exists d, b. repeat split; apply rt_refl.
  - apply pred_pi_inv in Hs as (d1 & b1 & -> & Hd & Hb).
    destruct (IH d1 b1 eq_refl) as (d2 & b2 & -> & Hd2 & Hb2).
    exists d2, b2. repeat split; eapply pstar_step; eauto.
Qed.

Lemma pstar_lam_inv im d b t : pstar (TLam im d b) t ->
  exists d' b', t = TLam im d' b' /\ pstar b b'.
Proof.
  intros H. apply clos_rt_rt1n in H. remember (TLam im d b) as u eqn:E. revert d b E.
  induction H as [|u v w Hs _ IH]; intros d b ->.
  - exists d, b. split; [reflexivity | apply rt_refl].
  - apply pred_lam_inv in Hs as (d1 & b1 & -> & _ & Hb).
    destruct (IH d1 b1 eq_refl) as (d2 & b2 & -> & Hb2).
    exists d2, b2. split; [reflexivity | eapply pstar_step; eauto].
Qed.

(* ---------- atoms: the constants TType TInt TBool TTrue TFalse, literals, variables ---------- *)
Theorem conv0_atoms a b : atom a = true -> atom b = true -> conv0 a b -> a = b.
Proof.
  intros Aa Ab H. apply church_rosser_strip in H as (c & H1 & H2).
  assert (Ea : strip a = a) by (destruct a; try discriminate; reflexivity).
  assert (Eb : strip b = b) by (destruct b; try discriminate; reflexivity).
  rewrite Ea in H1. rewrite Eb in H2.
  apply (pstar_atom_inv _ _ Aa) in H1. apply (pstar_atom_inv _ _ Ab) in H2. congruence.
Qed.

Corollary conv0_int_bool : ~ conv0 TInt TBool.
Proof. intros H. apply conv0_atoms in H; [discriminate | reflexivity | reflexivity]. Qed.
Corollary conv0_type_int : ~ conv0 TType TInt.
Proof. intros H. apply conv0_atoms in H; [discriminate | reflexivity | reflexivity]. Qed.
Corollary conv0_type_bool : ~ conv0 TType TBool.
Proof. intros H. apply conv0_atoms in H; [discriminate | reflexivity | reflexivity]. Qed.
Corollary conv0_true_false : ~ conv0 TTrue TFalse.
Proof. intros H. apply conv0_atoms in H; [discriminate | reflexivity | reflexivity]. Qed.
Corollary conv0_lit_inj x y : conv0 (TLit x) (TLit y) -> x = y.
Proof. intros H. apply conv0_atoms in H; [congruence | reflexivity | reflexivity]. Qed.
Corollary conv0_var_inj i j : conv0 (TVar i) (TVar j) -> i = j.
Proof. intros H. apply conv0_atoms in H; [congruence | reflexivity | reflexivity]. Qed.

(* ---------- an atom is not a Pi type, nor a function ---------- *)
Theorem conv0_atom_pi a im A B : atom a = true -> ~ conv0 a (TPi im A B).
Proof.
  intros Aa H. apply church_rosser_strip in H as (c & H1 & H2).
  assert (Ea : strip a = a) by (destruct a; try discriminate; reflexivity).
  rewrite Ea in H1. apply (pstar_atom_inv _ _ Aa) in H1. subst c.
  cbn [strip] in H2. apply pstar_pi_inv in H2 as (d' & b' & E & _). subst a. discriminate.
Qed.
Corollary conv0_int_pi im A B : ~ conv0 TInt (TPi im A B).   Proof. now apply conv0_atom_pi. Qed.
Corollary conv0_bool_pi im A B : ~ conv0 TBool (TPi im A B). Proof. now apply conv0_atom_pi. Qed.
Corollary conv0_type_pi im A B : ~ conv0 TType (TPi im A B). Proof. now apply conv0_atom_pi. Qed.

Theorem conv0_atom_lam a im d b : atom a = true -> ~ conv0 a (TLam im d b).
Proof.
  intros Aa H. apply church_rosser_strip in H as (c & H1 & H2).
  assert (Ea : strip a = a) by (destruct a; try discriminate; reflexivity).
  rewrite Ea in H1. apply (pstar_atom_inv _ _ Aa) in H1. subst c.
  cbn [strip] in H2. apply pstar_lam_inv in H2 as (d' & b' & E & _). subst a. discriminate.
Qed.

Theorem conv0_pi_lam im A B im' d b : ~ conv0 (TPi im A B) (TLam im' d b).
Proof.
  intros H. apply church_rosser_strip in H as (c & H1 & H2). cbn [strip] in *.
  apply pstar_pi_inv in H1 as (? & ? & -> & _). apply pstar_lam_inv in H2 as (? & ? & E & _). discriminate.
Qed.

(* ---------- injectivity of Pi ---------- *)
Theorem conv0_pi_inj_strip im A B im' A' B' : conv0 (TPi im A B) (TPi im' A' B') ->
  im = im' /\ conv0 (strip A) (strip A') /\ conv0 (strip B) (strip B').
Proof.
  intros H. apply church_rosser_strip in H as (c & H1 & H2). cbn [strip] in *.
  apply pstar_pi_inv in H1 as (d1 & b1 & -> & Hd1 & Hb1).
  apply pstar_pi_inv in H2 as (d2 & b2 & E & Hd2 & Hb2). injection E as -> -> ->.
  repeat split; apply joinable_conv0; eexists; split; eassumption.
Qed.

Theorem conv0_pi_inj im A B im' A' B' :
  hole_free A = true -> hole_free B = true -> hole_free A' = true -> hole_free B' = true ->
  conv0 (TPi im A B) (TPi im' A' B') -> im = im' /\ conv0 A A' /\ conv0 B B'.
Proof.
  intros HA HB HA' HB' H. apply conv0_pi_inj_strip in H. now rewrite !strip_id in H by assumption.
Qed.

(* functions: bodies of convertible functions are convertible (the annotations are unrelated) *)
Theorem conv0_lam_inj im d b im' d' b' : hole_free b = true -> hole_free b' = true ->
  conv0 (TLam im d b) (TLam im' d' b') -> im = im' /\ conv0 b b'.
Proof.
  intros Hb Hb' H. apply church_rosser_strip in H as (c & H1 & H2). cbn [strip] in *.
  apply pstar_lam_inv in H1 as (d1 & b1 & -> & Hb1).
  apply pstar_lam_inv in H2 as (d2 & b2 & E & Hb2). injection E as -> _ ->.
  rewrite (strip_id b) in Hb1 by assumption. rewrite (strip_id b') in Hb2 by assumption.
  split; [reflexivity|]. apply joinable_conv0; eexists; split; eassumption.
Qed.

(* non-vacuity: conv0 identifies what it should (annotation-irrelevant beta/arith/if) *)
Example conv0_ex1 : conv0 (TApp (TLam false TInt (TBin OSum (TVar 0) (TLit 1))) (TLit 2)) (TLit 3).
Proof.
  eapply c0_trans; [apply c0_red, r0_beta|]. cbn. apply c0_red. now apply r0_bin.
Qed.
Example conv0_ex2 : conv0 (TLam false TInt (TIf TTrue (TVar 0) (TLit 1))) (TLam false TBool (TVar 0)).
Proof. apply c0_lam. apply c0_red, r0_if_t. Qed.
Example conv0_ex3 : conv0 (TPi false (TApp (TLam false TType (TVar 0)) TInt) TBool) (TPi false TInt TBool).
Proof. apply c0_pi; [|apply c0_refl]. apply c0_red. apply (r0_beta false TType (TVar 0) TInt). Qed.

Print Assumptions pred_diamond.
Print Assumptions pstar_confluent.
Print Assumptions church_rosser.
Print Assumptions conv0_atoms.
Print Assumptions conv0_pi_inj.
Print Assumptions conv0_conv.
