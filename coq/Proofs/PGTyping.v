(* Subject reduction with definition groups, part 3: the hole-free typing relation tyH.
   tyH has the rules of has_type (Spec/Typing.v) on hole-free terms, with two group rules:
     h_let1  the rule t_let for a group with ONE definition (dependent, the definition visible);
     h_letn  a group with any number of definitions whose annotations and result type do not mention
             the variables of the group and whose definitions are checked with the group variables OPAQUE.
   tyH is a sub-relation of has_type (tyH_has_type).  Weakening, substitution (of a bound variable and of a
   variable with a definition), replacement of context definitions by convertible ones, generation. *)
From Coq Require Import List ZArith Lia Bool Arith Relations.
Import ListNotations.
Require Import Gram.Model.Term Gram.Model.DeBruijn Gram.Model.Eval Gram.Spec.Cbv Gram.Spec.Typing
  Gram.Proofs.DeBruijnLaws Gram.Proofs.CtxProofs Gram.Proofs.WeakenProofs Gram.Proofs.WeakenInfer Gram.Proofs.CbvProofs
  Gram.Proofs.ConflLaws Gram.Proofs.Confluence Gram.Proofs.ConfluenceEval Gram.Proofs.ConfluenceDelta
  Gram.Proofs.ConvConsistent Gram.Proofs.ConvProofs Gram.Proofs.PGConv Gram.Proofs.PGCtx.

(* the opaque context of a group whose annotations as0 are written OUTSIDE the group: definition number q
   becomes a bound variable of type (ushift a0_q 0 (j + q)) *)
Fixpoint gb (as0 : list term) (j : nat) (G : ctx) : ctx :=
  match as0 with [] => G | a0 :: r => gb r (S j) (bind G (ushift a0 0 j)) end.

Inductive tyH (G : ctx) : term -> term -> Prop :=
| h_type : tyH G TType TType
| h_int : tyH G TInt TType
| h_bool : tyH G TBool TType
| h_true : tyH G TTrue TBool
| h_false : tyH G TFalse TBool
| h_lit z : tyH G (TLit z) TInt
| h_var i T : lookup_ty G i = Some T -> hole_free T = true -> tyH G (TVar i) T
| h_lam im d b B : tyH G d TType -> tyH (bind G d) b B -> tyH G (TLam im d b) (TPi im d B)
| h_pi im d b : tyH G d TType -> tyH (bind G d) b TType -> tyH G (TPi im d b) TType
| h_app f a A B : tyH G f (TPi false A B) -> tyH G a A -> tyH G (TApp f a) (open B 0 a 0)
| h_let1 a d b B :
    tyH ((a, 1, Some d) :: G) a TType -> tyH ((a, 1, Some d) :: G) d a -> tyH ((a, 1, Some d) :: G) b B ->
    tyH G (TLet [(a, d)] b) (open B 0 (TLet [(a, d)] (TVar 0)) 0)
| h_letn as0 ds b B0 :
    length as0 = length ds ->
    (forall j a d a0, nth_error ds j = Some (a, d) -> nth_error as0 j = Some a0 -> a = ushift a0 0 (length ds)) ->
    (forall j a d, nth_error ds j = Some (a, d) -> tyH (gb as0 0 G) a TType) ->
    (forall j a d, nth_error ds j = Some (a, d) -> tyH (gb as0 0 G) d a) ->
    tyH (gb as0 0 G) b (ushift B0 0 (length ds)) ->
    tyH G (TLet ds b) B0
| h_neg a : tyH G a TInt -> tyH G (TNeg a) TInt
| h_bin o a b : tyH G a TInt -> tyH G b TInt -> tyH G (TBin o a b) (bin_ty o)
| h_if c a b A : tyH G c TBool -> tyH G a A -> tyH G b A -> tyH G (TIf c a b) A
| h_conv t A B : tyH G t A -> conv G A B -> hole_free B = true -> tyH G t B.

(* ---------- hole-freeness ---------- *)
Lemma hf_defs_nth ds : (forall j a d, nth_error ds j = Some (a, d) -> hole_free a = true /\ hole_free d = true) ->
  hf_defs ds = true.
Proof.
  intros H. unfold hf_defs. apply forallb_forall. intros [a d] Hin.
  destruct (In_nth_error _ _ Hin) as (j & E). destruct (H _ _ _ E) as [-> ->]. reflexivity.
Qed.

Lemma hf_single a d : hole_free a = true -> hole_free d = true -> hole_free (TLet [(a, d)] (TVar 0)) = true.
Proof. intros Ha Hd. cbn [hole_free forallb]. now rewrite Ha, Hd. Qed.

Lemma tyH_hf G t T : tyH G t T -> hole_free t = true /\ hole_free T = true.
Proof.
  induction 1; repeat match goal with H : _ /\ _ |- _ => destruct H end;
    try (split; reflexivity).
  - (* var *) split; [reflexivity | assumption].
  - (* lam *) cbn [hole_free]. split; apply andb_true_intro; auto.
  - (* pi *) cbn [hole_free]. split; [apply andb_true_intro; auto | reflexivity].
  - (* app *) cbn [hole_free] in *. split_hf. split; [apply andb_true_intro; auto | apply hole_free_open; auto].
  - (* let1 *)
    split; [cbn [hole_free forallb]; repeat (apply andb_true_intro; split); auto|].
    apply hole_free_open; auto using hf_single.
  - (* letn *)
    split.
    + cbn [hole_free]. apply andb_true_intro. split; [|assumption].
      apply (hf_defs_nth ds). intros j a d E. split; [exact (proj1 (H2 _ _ _ E)) | exact (proj1 (H4 _ _ _ E))].
    + match goal with K : hole_free (ushift B0 _ _) = true |- _ => now rewrite hole_free_ushift_eq in K end.
  - (* neg *) split; [assumption | reflexivity].
  - (* bin *) cbn [hole_free]. split; [apply andb_true_intro; auto | apply bin_ty_hole_free].
  - (* if *) cbn [hole_free]. split; [repeat (apply andb_true_intro; split); auto | assumption].
  - (* conv *) split; assumption.
Qed.
Lemma tyH_hf_l G t T : tyH G t T -> hole_free t = true. Proof. intros H. now apply tyH_hf in H. Qed.
Lemma tyH_hf_r G t T : tyH G t T -> hole_free T = true. Proof. intros H. now apply tyH_hf in H. Qed.

(* ---------- lookups in gb ---------- *)
Lemma gb_length as0 : forall j G, length (gb as0 j G) = length as0 + length G.
Proof. induction as0 as [|a r IH]; intros j G; cbn [gb length]; [reflexivity|]. rewrite IH. cbn [bind length]. lia. Qed.

Lemma wf_offsets_gb as0 : forall j G, wf_offsets G -> wf_offsets (gb as0 j G).
Proof. induction as0 as [|a r IH]; intros j G W; cbn [gb]; auto using wf_offsets_bind. Qed.

Lemma ctx_hf_gb as0 : forall j G, ctx_hf G -> ctx_hf (gb as0 j G).
Proof. induction as0 as [|a r IH]; intros j G W; cbn [gb]; auto using ctx_hf_bind. Qed.

Lemma lookup_ty_gb_ge as0 : forall j G z, wf_offsets G ->
  lookup_ty (gb as0 j G) (length as0 + z) = option_map (fun T => ushift T 0 (length as0)) (lookup_ty G z).
Proof.
  induction as0 as [|a r IH]; intros j G z W; cbn [gb length Nat.add].
  - destruct (lookup_ty G z); cbn [option_map]; [now rewrite ushift_zero | reflexivity].
  - replace (S (length r + z)) with (length r + S z) by lia. rewrite IH by auto using wf_offsets_bind.
    unfold bind. rewrite lookup_ty_cons_S by assumption.
    destruct (lookup_ty G z); cbn [option_map]; [|reflexivity]. now rewrite ushift_add.
Qed.

Lemma lookup_def_gb_ge as0 : forall j G z, wf_offsets G ->
  lookup_def (gb as0 j G) (length as0 + z) = option_map (fun T => ushift T 0 (length as0)) (lookup_def G z).
Proof.
  induction as0 as [|a r IH]; intros j G z W; cbn [gb length Nat.add].
  - destruct (lookup_def G z); cbn [option_map]; [now rewrite ushift_zero | reflexivity].
  - replace (S (length r + z)) with (length r + S z) by lia. rewrite IH by auto using wf_offsets_bind.
    unfold bind. rewrite lookup_def_cons_S by assumption.
    destruct (lookup_def G z); cbn [option_map]; [|reflexivity]. now rewrite ushift_add.
Qed.

Lemma gb_nth_above as0 : forall j G y, nth_error (gb as0 j G) (length as0 + y) = nth_error G y.
Proof.
  induction as0 as [|e r IH]; intros j G y; cbn [gb length Nat.add]; [reflexivity|].
  replace (S (length r + y)) with (length r + S y) by lia. rewrite IH. reflexivity.
Qed.

Lemma gb_nth_lt as0 : forall j G z, z < length as0 -> exists T, nth_error (gb as0 j G) z = Some (T, 0, None).
Proof.
  induction as0 as [|a r IH]; intros j G z Hz; cbn [gb length] in *; [lia|].
  destruct (Nat.eq_dec z (length r)) as [->|Hne].
  - pose proof (gb_nth_above r (S j) (bind G (ushift a 0 j)) 0) as K. rewrite Nat.add_0_r in K. rewrite K.
    cbn [bind nth_error]. eauto.
  - apply IH. lia.
Qed.

Lemma lookup_def_gb_lt as0 j G z : z < length as0 -> lookup_def (gb as0 j G) z = None.
Proof. intros Hz. destruct (gb_nth_lt as0 j G z Hz) as (T & E). unfold lookup_def. now rewrite E. Qed.

Lemma lookup_ty_gb_lt as0 : forall j G q a0, nth_error as0 q = Some a0 ->
  lookup_ty (gb as0 j G) (length as0 - 1 - q) = Some (ushift a0 0 (j + length as0)).
Proof.
  induction as0 as [|a r IH]; intros j G q a0 E; [destruct q; discriminate|].
  cbn [gb length]. destruct q as [|q]; cbn [nth_error] in E.
  - injection E as ->. replace (S (length r) - 1 - 0) with (length r + 0) by lia.
    unfold lookup_ty. rewrite gb_nth_above. cbn [bind nth_error].
    rewrite ushift_add. do 2 f_equal. lia.
  - replace (S (length r) - 1 - S q) with (length r - 1 - q) by lia.
    rewrite (IH (S j) _ q a0 E). do 2 f_equal. lia.
Qed.

(* ---------- the relations of PGConv/PGCtx through gb ---------- *)
Lemma Ins_gb r : forall c0 j m H H', Ins (c0 + j) m H H' ->
  Ins (c0 + j + length r) m (gb r j H) (gb (map (fun a => ushift a c0 m) r) j H').
Proof.
  induction r as [|a r IH]; intros c0 j m H H' I; cbn [gb map length].
  - now rewrite Nat.add_0_r.
  - replace (c0 + j + S (length r)) with (c0 + S j + length r) by lia. apply IH.
    replace (c0 + S j) with (S (c0 + j)) by lia.
    replace (ushift (ushift a c0 m) 0 j) with (ushift (ushift a 0 j) (c0 + j) m) by (apply ushift_comm; lia).
    now apply Ins_bind.
Qed.

Lemma CtxConv_gb r : forall j H H', CtxConv H H' -> CtxConv (gb r j H) (gb r j H').
Proof.
  induction r as [|a r IH]; intros j H H' C; cbn [gb]; [exact C|].
  apply IH. exact (CtxConv_cons_same H H' _ 0 None (Nat.le_0_l 1) I C).
Qed.

(* (gb as0 0 G) and (enter ds G) have the same types when the annotations of ds are the shifted as0 *)
Lemma DefSub_gb_enter as0 ds G : wf_offsets G -> length as0 = length ds ->
  (forall j a d a0, nth_error ds j = Some (a, d) -> nth_error as0 j = Some a0 -> a = ushift a0 0 (length ds)) ->
  DefSub (gb as0 0 G) (enter ds G).
Proof.
  intros W L Hc. split; auto using wf_offsets_gb, wf_offsets_enter.
  - intros z. destruct (Nat.lt_ge_cases z (length ds)) as [Hl|Hl].
    + rewrite lookup_ty_enter_lt by lia. unfold ann_at.
      destruct (nth_error ds (length ds - 1 - z)) as [[a d]|] eqn:E;
        [|apply nth_error_None in E; lia].
      destruct (nth_error as0 (length ds - 1 - z)) as [a0|] eqn:E0;
        [|apply nth_error_None in E0; lia].
      rewrite (Hc _ _ _ _ E E0).
      replace z with (length as0 - 1 - (length ds - 1 - z)) by lia.
      rewrite (lookup_ty_gb_lt as0 0 G _ a0 E0). cbn [Nat.add]. now rewrite L.
    + replace z with (length ds + (z - length ds)) by lia. generalize (z - length ds). intros y.
      rewrite lookup_ty_enter_ge by assumption. rewrite <- L. now rewrite lookup_ty_gb_ge by assumption.
  - intros z x E. destruct (Nat.lt_ge_cases z (length ds)) as [Hl|Hl].
    + rewrite lookup_def_gb_lt in E by lia. discriminate.
    + replace z with (length ds + (z - length ds)) in * by lia. revert E. generalize (z - length ds). intros y E.
      rewrite lookup_def_enter_ge by assumption. rewrite <- L in *. now rewrite lookup_def_gb_ge in E by assumption.
Qed.

(* ---------- tyH is a sub-relation of has_type ---------- *)
Lemma group_type_closed n ds : forall k i B r, hole_free B = true ->
  group_type n ds i k (ushift B 0 (k + r)) = ushift B 0 r.
Proof.
  induction k as [|k IH]; intros i B r HB; cbn [group_type Nat.add]; [reflexivity|].
  rewrite open_ushift_cancel_gen by (auto; lia). apply IH. exact HB.
Qed.

Lemma group_type_one a d B : group_type 1 [(a, d)] 0 1 B = open B 0 (TLet [(a, d)] (TVar 0)) 0.
Proof. cbn [group_type map fst snd Nat.sub]. now rewrite !ushift_zero. Qed.

Theorem tyH_has_type G t T : tyH G t T -> wf_offsets G -> has_type G t T.
Proof.
  induction 1; intros W; try (econstructor; eauto using wf_offsets_bind; fail).
  - (* let1 *)
    rewrite <- group_type_one.
    assert (W1 : wf_offsets ((a, 1, Some d) :: G)) by (apply wf_offsets_cons; auto).
    apply (t_let G [(a, d)] b B); [|exact (IHtyH3 W1)].
    constructor; [|constructor]. cbn [fst snd]. split; [exact (IHtyH1 W1) | exact (IHtyH2 W1)].
  - (* letn *)
    assert (Wg : wf_offsets (gb as0 0 G)) by now apply wf_offsets_gb.
    assert (S : DefSub (gb as0 0 G) (enter ds G)) by now apply DefSub_gb_enter.
    assert (HB : hole_free B0 = true).
    { apply tyH_hf_r in H5. now rewrite hole_free_ushift_eq in H5. }
    replace B0 with (group_type (length ds) ds 0 (length ds) (ushift B0 0 (length ds))).
    + apply t_let; [|eapply has_type_defsub; eauto].
      apply Forall_forall. intros [a d] Hin. destruct (In_nth_error _ _ Hin) as (j & E). cbn [fst snd].
      split; eapply has_type_defsub; eauto.
    + pose proof (group_type_closed (length ds) ds (length ds) 0 B0 0 HB) as K.
      rewrite Nat.add_0_r, ushift_zero in K. exact K.
Qed.

(* ---------- weakening ---------- *)
Lemma nth_error_map_inv {A B} (f : A -> B) l j y : nth_error (map f l) j = Some y ->
  exists x, nth_error l j = Some x /\ y = f x.
Proof. rewrite nth_error_map. destruct (nth_error l j) as [x|]; [|discriminate]. intros [= <-]. eauto. Qed.

Theorem tyH_weaken G t T : tyH G t T -> forall cc nn G', Ins cc nn G G' -> ctx_hf G -> ctx_hf G' ->
  tyH G' (ushift t cc nn) (ushift T cc nn).
Proof.
  induction 1; intros cc nn G' I F F'; cbn [ushift]; try (constructor; eauto; fail).
  - (* var *)
    apply h_var; [|now apply hole_free_ushift]. rewrite (ins_ty _ _ _ _ I), H. reflexivity.
  - (* lam *)
    apply h_lam; [eauto|]. apply IHtyH2; auto using Ins_bind, ctx_hf_bind.
  - (* pi *)
    apply h_pi; [exact (IHtyH1 cc nn G' I F F')|]. apply (IHtyH2 (S cc) nn); auto using Ins_bind, ctx_hf_bind.
  - (* app *)
    destruct (tyH_hf _ _ _ H) as [_ HP]. cbn [hole_free] in HP. split_hf.
    rewrite ushift_open0 by (auto; lia).
    eapply h_app; [exact (IHtyH1 cc nn G' I F F') | eauto].
  - (* let1 *)
    cbn [map length]. destruct (tyH_hf _ _ _ H0) as [Fd Fa]. destruct (tyH_hf _ _ _ H1) as [_ FB].
    rewrite ushift_open0 by (auto; lia). cbn [ushift map length]. unfold up_idx at 1. cbn [Nat.leb Nat.add].
    pose proof (Ins_cons cc nn G G' a 1 (Some d) (le_n 1) I) as I1. cbn [option_map Nat.add] in I1.
    assert (F1 : ctx_hf ((a, 1, Some d) :: G)) by (apply ctx_hf_cons; auto).
    assert (F1' : ctx_hf ((ushift a (S cc) nn, 1, Some (ushift d (S cc) nn)) :: G'))
      by (apply ctx_hf_cons; auto using hole_free_ushift).
    apply h_let1; [exact (IHtyH1 _ _ _ I1 F1 F1') | exact (IHtyH2 _ _ _ I1 F1 F1') | exact (IHtyH3 _ _ _ I1 F1 F1')].
  - (* letn *)
    assert (Ig : Ins (length ds + cc) nn (gb as0 0 G) (gb (map (fun a => ushift a cc nn) as0) 0 G')).
    { pose proof (Ins_gb as0 cc 0 nn G G') as K. rewrite !Nat.add_0_r in K. rewrite H, Nat.add_comm in K. now apply K. }
    assert (Fg : ctx_hf (gb as0 0 G)) by now apply ctx_hf_gb.
    assert (Fg' : ctx_hf (gb (map (fun a => ushift a cc nn) as0) 0 G')) by now apply ctx_hf_gb.
    apply (h_letn G' (map (fun a => ushift a cc nn) as0)); rewrite ?map_length; auto.
    + intros j a' d' a0' E E0. apply nth_error_map_inv in E as ([a d] & E & [= -> ->]).
      apply nth_error_map_inv in E0 as (a0 & E0 & ->). rewrite (H0 _ _ _ _ E E0).
      rewrite (Nat.add_comm (length ds) cc). apply ushift_comm. lia.
    + intros j a' d' E. apply nth_error_map_inv in E as ([a d] & E & [= -> ->]).
      exact (H2 _ _ _ E _ _ _ Ig Fg Fg').
    + intros j a' d' E. apply nth_error_map_inv in E as ([a d] & E & [= -> ->]).
      exact (H4 _ _ _ E _ _ _ Ig Fg Fg').
    + replace (ushift (ushift B0 cc nn) 0 (length ds)) with (ushift (ushift B0 0 (length ds)) (length ds + cc) nn)
        by (rewrite (Nat.add_comm (length ds) cc); apply ushift_comm; lia).
      exact (IHtyH _ _ _ Ig Fg Fg').
  - (* bin *)
    replace (ushift (bin_ty o) cc nn) with (bin_ty o) by (destruct o; reflexivity).
    constructor; eauto.
  - (* conv *)
    eapply h_conv; [eauto | | now apply hole_free_ushift].
    eapply conv_ins; eauto using tyH_hf_r.
Qed.

Corollary tyH_weaken1 G e t T : tyH G t T -> wf_offsets G -> wf_offsets (e :: G) -> ctx_hf G -> ctx_hf (e :: G) ->
  tyH (e :: G) (ushift t 0 1) (ushift T 0 1).
Proof. intros H W W' F F'. exact (tyH_weaken G t T H 0 1 (e :: G) (Ins_base [e] G W W') F F'). Qed.

(* ---------- substitution ---------- *)
Record Sub (i : nat) (s : term) (k : nat) (G G' : ctx) : Prop := {
  sub_d : SubD i s k G G';
  sub_ty : forall j X, j <> i -> lookup_ty G j = Some X -> hole_free X = true ->
           lookup_ty G' (open_idx j i) = Some (open X i s k);
  sub_s : forall X, lookup_ty G i = Some X -> hole_free X = true -> tyH G' (ushift s 0 k) (open X i s k) }.

Lemma Sub_cons i s k G G' T o d : o <= 1 -> (match d with Some x => hole_free x = true | None => True end) ->
  Sub i s k G G' ->
  Sub (S i) s (S k) ((T, o, d) :: G)
      ((open T (o + i) s (o + k), o, option_map (fun x => open x (o + i) s (o + k)) d) :: G').
Proof.
  intros Ho Fd [SD HT HS]. pose proof (SubD_cons i s k G G' T o d Ho Fd SD) as SD'.
  destruct SD as [W W' F F' Hs Hk HD HE]. split; [exact SD'| |].
  - intros [|j] X Hj E FX.
    + unfold open_idx. cbn [Nat.ltb Nat.leb]. unfold lookup_ty in *. cbn [nth_error] in *.
      injection E as <-. f_equal. rewrite hole_free_ushift_eq in FX.
      destruct o as [|[|o]]; [| |lia]; cbn [Nat.sub Nat.add].
      * now apply ushift_open_below1.
      * now rewrite !ushift_zero.
    + replace (open_idx (S j) (S i)) with (S (open_idx j i))
        by (unfold open_idx; destruct (Nat.ltb_spec i j), (Nat.ltb_spec (S i) (S j)); lia).
      rewrite lookup_ty_cons_S in * by assumption.
      destruct (lookup_ty G j) as [Y|] eqn:EY; [|discriminate]. cbn [option_map] in E. injection E as <-.
      rewrite hole_free_ushift_eq in FX.
      rewrite (HT j Y) by (auto; lia). cbn [option_map]. f_equal. now apply ushift_open_below1.
  - intros X E FX. rewrite lookup_ty_cons_S in E by assumption.
    destruct (lookup_ty G i) as [Y|] eqn:EY; [|discriminate]. cbn [option_map] in E. injection E as <-.
    rewrite hole_free_ushift_eq in FX.
    replace (open (ushift Y 0 1) (S i) s (S k)) with (ushift (open Y i s k) 0 1) by (now apply ushift_open_below1).
    replace (ushift s 0 (S k)) with (ushift (ushift s 0 k) 0 1) by (rewrite ushift_add; f_equal; lia).
    apply tyH_weaken1; auto using (sd_wf' _ _ _ _ _ SD'), (sd_hf' _ _ _ _ _ SD').
Qed.

Lemma Sub_bind i s k G G' A : Sub i s k G G' -> Sub (S i) s (S k) (bind G A) (bind G' (open A i s k)).
Proof. intros H. exact (Sub_cons i s k G G' A 0 None (Nat.le_0_l 1) I H). Qed.

Lemma Sub_gb r : forall i0 k0 j s H H', Sub (i0 + j) s (k0 + j) H H' ->
  Forall (fun a => hole_free a = true) r ->
  Sub (i0 + j + length r) s (k0 + j + length r) (gb r j H) (gb (map (fun a => open a i0 s k0) r) j H').
Proof.
  induction r as [|a r IH]; intros i0 k0 j s H H' SS Fr; cbn [gb map length].
  - now rewrite !Nat.add_0_r.
  - inversion Fr as [|? ? Fa Fr']; subst.
    replace (i0 + j + S (length r)) with (i0 + S j + length r) by lia.
    replace (k0 + j + S (length r)) with (k0 + S j + length r) by lia. apply IH; [|assumption].
    replace (i0 + S j) with (S (i0 + j)) by lia. replace (k0 + S j) with (S (k0 + j)) by lia.
    replace (ushift (open a i0 s k0) 0 j) with (open (ushift a 0 j) (i0 + j) s (k0 + j))
      by (symmetry; apply ushift_open_below; auto; lia).
    now apply Sub_bind.
Qed.

Theorem tyH_subst G t T : tyH G t T -> forall i s k G', Sub i s k G G' ->
  tyH G' (open t i s k) (open T i s k).
Proof.
  induction 1; intros i0 s0 k0 G' SS; cbn [open]; try (constructor; eauto; fail).
  - (* var *)
    destruct (Nat.eqb_spec i i0) as [->|Hne].
    + now apply (sub_s _ _ _ _ _ SS).
    + apply h_var; [now apply (sub_ty _ _ _ _ _ SS) | apply hole_free_open; auto; apply (sd_s _ _ _ _ _ (sub_d _ _ _ _ _ SS))].
  - (* lam *)
    apply h_lam; [eauto|]. apply IHtyH2. now apply Sub_bind.
  - (* pi *)
    apply h_pi; [exact (IHtyH1 _ _ _ _ SS)|]. apply (IHtyH2 (S i0) s0 (S k0)). now apply Sub_bind.
  - (* app *)
    assert (Hs := sd_s _ _ _ _ _ (sub_d _ _ _ _ _ SS)).
    destruct (tyH_hf _ _ _ H) as [_ HP]. cbn [hole_free] in HP. split_hf.
    rewrite open_open0 by eauto using tyH_hf_l.
    eapply h_app; [exact (IHtyH1 _ _ _ _ SS) | eauto].
  - (* let1 *)
    assert (Hs := sd_s _ _ _ _ _ (sub_d _ _ _ _ _ SS)).
    cbn [map length]. destruct (tyH_hf _ _ _ H0) as [Fd Fa]. destruct (tyH_hf _ _ _ H1) as [_ FB].
    rewrite open_open0 by (auto using hf_single).
    cbn [open map length Nat.add]. cbn [Nat.eqb]. unfold open_idx at 1. cbn [Nat.ltb Nat.leb].
    pose proof (Sub_cons i0 s0 k0 G G' a 1 (Some d) (le_n 1) Fd SS) as S1. cbn [option_map Nat.add] in S1.
    apply h_let1; [exact (IHtyH1 _ _ _ _ S1) | exact (IHtyH2 _ _ _ _ S1) | exact (IHtyH3 _ _ _ _ S1)].
  - (* letn *)
    assert (Hs := sd_s _ _ _ _ _ (sub_d _ _ _ _ _ SS)).
    assert (HB : hole_free B0 = true).
    { apply tyH_hf_r in H5. now rewrite hole_free_ushift_eq in H5. }
    assert (Fas : Forall (fun a => hole_free a = true) as0).
    { apply Forall_forall. intros a0 Hin. destruct (In_nth_error _ _ Hin) as (j & E0).
      destruct (nth_error ds j) as [[a d]|] eqn:E;
        [|apply nth_error_None in E; assert (j < length as0) by (apply nth_error_Some; congruence); lia].
      pose proof (tyH_hf_l _ _ _ (H1 _ _ _ E)) as Fa. rewrite (H0 _ _ _ _ E E0), hole_free_ushift_eq in Fa. exact Fa. }
    assert (Sg : Sub (length ds + i0) s0 (length ds + k0) (gb as0 0 G) (gb (map (fun a => open a i0 s0 k0) as0) 0 G')).
    { pose proof (Sub_gb as0 i0 k0 0 s0 G G') as K. rewrite !Nat.add_0_r in K. rewrite H in K.
      rewrite (Nat.add_comm (length ds) i0), (Nat.add_comm (length ds) k0). now apply K. }
    apply (h_letn G' (map (fun a => open a i0 s0 k0) as0)); rewrite ?map_length; auto.
    + intros j a' d' a0' E E0. apply nth_error_map_inv in E as ([a d] & E & [= -> ->]).
      apply nth_error_map_inv in E0 as (a0 & E0 & ->). rewrite (H0 _ _ _ _ E E0).
      rewrite (Nat.add_comm (length ds) i0), (Nat.add_comm (length ds) k0).
      symmetry. apply ushift_open_below; [|lia|lia].
      rewrite Forall_forall in Fas. apply Fas. eapply nth_error_In; eauto.
    + intros j a' d' E. apply nth_error_map_inv in E as ([a d] & E & [= -> ->]).
      exact (H2 _ _ _ E _ _ _ _ Sg).
    + intros j a' d' E. apply nth_error_map_inv in E as ([a d] & E & [= -> ->]).
      exact (H4 _ _ _ E _ _ _ _ Sg).
    + replace (ushift (open B0 i0 s0 k0) 0 (length ds))
        with (open (ushift B0 0 (length ds)) (length ds + i0) s0 (length ds + k0))
        by (rewrite (Nat.add_comm (length ds) i0), (Nat.add_comm (length ds) k0);
            symmetry; apply ushift_open_below; auto; lia).
      exact (IHtyH _ _ _ _ Sg).
  - (* bin *)
    replace (open (bin_ty o) i0 s0 k0) with (bin_ty o) by (destruct o; reflexivity).
    constructor; eauto.
  - (* conv *)
    assert (Hs := sd_s _ _ _ _ _ (sub_d _ _ _ _ _ SS)).
    eapply h_conv; [eauto | | now apply hole_free_open].
    eapply conv_subst; eauto using tyH_hf_r, (sub_d _ _ _ _ _ SS).
Qed.

(* the base cases *)
Lemma Sub_base T o d G s : wf_offsets G -> ctx_hf G -> o <= 1 ->
  (match d with Some x => hole_free x = true | None => True end) -> hole_free s = true ->
  (forall x, d = Some x -> dpred (lookup_def G) 0 s (open (ushift x 0 (1 - o)) 0 s 0)) ->
  (hole_free T = true -> tyH G s (open (ushift T 0 (1 - o)) 0 s 0)) ->
  Sub 0 s 0 ((T, o, d) :: G) G.
Proof.
  intros W F Ho Fd Hs HE HS. split; [now apply SubD_base| |].
  - intros [|j] X Hj E FX; [lia|]. unfold open_idx. cbn [Nat.ltb Nat.leb Nat.sub]. rewrite Nat.sub_0_r.
    rewrite lookup_ty_cons_S in E by assumption.
    destruct (lookup_ty G j) as [Y|]; [|discriminate]. cbn [option_map] in E. injection E as <-.
    rewrite hole_free_ushift_eq in FX. f_equal. symmetry. now apply open_ushift_cancel0.
  - intros X E FX. unfold lookup_ty in E. cbn [nth_error] in E. injection E as <-.
    rewrite ushift_zero. rewrite hole_free_ushift_eq in FX. cbn [Nat.add]. now apply HS.
Qed.

Corollary tyH_subst0 G A b B a : wf_offsets G -> ctx_hf G -> tyH (bind G A) b B -> tyH G a A ->
  tyH G (open b 0 a 0) (open B 0 a 0).
Proof.
  intros W F Hb Ha. apply (tyH_subst _ _ _ Hb 0 a 0 G).
  apply Sub_base; auto; eauto using tyH_hf_l; [discriminate|].
  intros FA. cbn [Nat.sub]. now rewrite open_ushift_cancel0.
Qed.

(* G is G' with one entry, on which nothing depends and which has no definition, inserted at position i *)
Lemma Sub_of_Ins i s G G' : Ins i 1 G' G -> ctx_hf G -> ctx_hf G' -> hole_free s = true ->
  lookup_def G i = None ->
  (forall X, lookup_ty G i = Some X -> hole_free X = true -> tyH G' s (open X i s 0)) ->
  Sub i s 0 G G'.
Proof.
  intros [W' W HT HD] F F' Hs Hn HS.
  assert (U : forall j, j <> i -> up_idx (open_idx j i) i 1 = j).
  { intros j Hj. unfold up_idx, open_idx. destruct (Nat.ltb_spec i j).
    - destruct (Nat.leb_spec i (j - 1)); lia.
    - destruct (Nat.leb_spec i j); lia. }
  split; [split; auto; try lia| |].
  - intros j Hj. rewrite <- (U j Hj) at 2. rewrite HD.
    destruct (lookup_def G' (open_idx j i)) as [x|] eqn:E; cbn [option_map]; [|reflexivity].
    f_equal. symmetry. rewrite open_ushift_cancel_gen by (try lia; exact (ctx_hf_lookup G' _ x F' E)).
    apply ushift_zero.
  - intros x E. congruence.
  - intros j X Hj E FX. rewrite <- (U j Hj) in E. rewrite HT in E.
    destruct (lookup_ty G' (open_idx j i)) as [Y|]; [|discriminate]. cbn [option_map] in E. injection E as <-.
    rewrite hole_free_ushift_eq in FX. f_equal.
    rewrite open_ushift_cancel_gen by (auto; lia). symmetry. apply ushift_zero.
  - intros X E FX. rewrite ushift_zero. now apply HS.
Qed.

(* ---------- definitions of the context replaced by convertible ones ---------- *)
Theorem tyH_ctxconv G t T : tyH G t T -> forall G', CtxConv G G' -> tyH G' t T.
Proof.
  induction 1; intros G' C; try (econstructor; eauto; fail).
  - apply h_var; auto. now rewrite (cc_ty _ _ C).
  - apply h_lam; [eauto|]. apply IHtyH2. exact (CtxConv_cons_same G G' _ 0 None (Nat.le_0_l 1) I C).
  - apply h_pi; [eauto|]. apply IHtyH2. exact (CtxConv_cons_same G G' _ 0 None (Nat.le_0_l 1) I C).
  - assert (Fd := tyH_hf_l _ _ _ H0).
    pose proof (CtxConv_cons_same G G' a 1 (Some d) (le_n 1) Fd C) as C1.
    apply h_let1; eauto.
  - pose proof (CtxConv_gb as0 0 G G' C) as Cg.
    apply (h_letn G' as0); eauto.
  - eapply h_conv; [eauto | | assumption]. eapply conv_ctxconv; eauto using tyH_hf_r.
Qed.

Lemma CtxConv_add_def G T o d : wf_offsets G -> ctx_hf G -> o <= 1 -> hole_free d = true ->
  CtxConv ((T, o, None) :: G) ((T, o, Some d) :: G).
Proof.
  intros W F Ho Fd. split; auto using wf_offsets_cons.
  - now apply ctx_hf_cons. - now apply ctx_hf_cons.
  - intros [|j]; [reflexivity|]. now rewrite !lookup_ty_cons_S by assumption.
  - intros [|j] x E; [discriminate|]. exists x. split; [|apply c_refl].
    rewrite lookup_def_cons_S in * by assumption. exact E.
Qed.

(* ---------- generation ---------- *)
Lemma lam_genH G im d b T : tyH G (TLam im d b) T ->
  exists B, tyH G d TType /\ tyH (bind G d) b B /\ conv G (TPi im d B) T.
Proof.
  intros H. remember (TLam im d b) as v eqn:E. revert im d b E.
  induction H; intros im' d' b' E; try discriminate.
  - injection E as -> -> ->. exists B. repeat split; auto using c_refl.
  - destruct (IHtyH _ _ _ E) as (B0 & K1 & K2 & K3). exists B0. repeat split; eauto using c_trans.
Qed.

Lemma arith_typedH G o x y r : arith o x y = Some r -> tyH G r (bin_ty o).
Proof.
  destruct o; cbn; try (intros [= <-]; constructor);
    try (intros [= <-]; match goal with |- context[if ?b then _ else _] => destruct b end; constructor).
  destruct (y =? 0)%Z; [discriminate|]. intros [= <-]. constructor.
Qed.
