(* C14: the panic sites behind the parser are unreachable in the mirror of parse():
   (1) check_definitions' assertion that a hole it meets has shift 0 (resolve only creates holes with a
       non-zero shift as the annotation of a definition, which check_definitions does not visit);
   (2) [ref:error_check]: a tree with an error node always carries at least one error factory, so it
       never reaches the re-association passes (parse_stage1 never answers S1Panic). *)
From Coq Require Import List ZArith NArith Lia Bool Arith PArith FMapPositive.
Import ListNotations.
Require Import Gram.Model.Term Gram.Model.DeBruijn Gram.Model.Eval Gram.Model.Token Gram.Model.Grammar Gram.Gen.ParserSkeleton Gram.Model.Parser Gram.Model.ParserPost.
Require Import Gram.Proofs.ScopeProofs.

(* ---------- (1) check_definitions never meets a hole with a non-zero shift ---------- *)
Definition cd_ok (t : term) : Prop := exists e, check_definitions t = CDOk e.

Lemma cd_add_ok a b : (exists x, a = CDOk x) -> (exists y, b = CDOk y) -> exists z, cd_add a b = CDOk z.
Proof. intros [x ->] [y ->]. cbn. eauto. Qed.

Lemma go_ok (all : list (term * term)) (fu : nat) : forall r i, Forall (fun p => cd_ok (snd p)) r -> exists x,
  (fix go (l : list (term * term)) (i : nat) : cdres :=
     match l with
     | [] => CDOk 0
     | (_, d) :: r =>
         cd_add (check_definitions d)
           (cd_add (if is_value d then CDOk 0 else CDOk (snd (check_definition fu all i i [] 0))) (go r (S i)))
     end) r i = CDOk x.
Proof.
  induction r as [|[a d] r IH]; intros i H; [eauto|]. inversion H as [|? ? Hd Hr]; subst.
  apply cd_add_ok; [exact Hd|]. apply cd_add_ok; [destruct (is_value d); eauto | apply IH; exact Hr].
Qed.

Lemma cd_ok_let ds b : Forall (fun p => cd_ok (snd p)) ds -> cd_ok b -> cd_ok (TLet ds b).
Proof.
  intros Hds Hb. unfold cd_ok. cbn [check_definitions]. apply cd_add_ok; [|exact Hb].
  exact (go_ok ds (S (length ds)) ds 0 Hds).
Qed.

Lemma resolve_cd_ok : forall f t depth c s, cd_ok (fst (fst (resolve f t depth c s))).
Proof.
  induction f as [|f IH]; intros t depth c s; [cbn; unfold cd_ok; cbn; eauto|].
  destruct t; cbn [resolve]; try (unfold cd_ok; cbn; eauto; fail).
  - destruct (ctx_get c x); [unfold cd_ok; cbn; eauto|].
    destruct (name_eqb x placeholder); unfold cd_ok; cbn; eauto.
  - assert (A : forall r, r = match dom with Some d => resolve f d depth c s
                                        | None => let '(h, s1) := rfresh s in (THole h 0, c, s1) end -> cd_ok (fst (fst r))).
    { intros r ->. destruct dom as [d|]; [apply IH | unfold cd_ok; cbn; eauto]. }
    specialize (A _ eq_refl). destruct (match dom with Some _ => _ | None => _ end) as [[d' c1] s1]. cbn [fst] in A.
    destruct (enter_binder c1 x depth s1) as [c2 s2].
    pose proof (IH t (S depth) c2 (rname s2 x)) as B. destruct (resolve f t (S depth) c2 (rname s2 x)) as [[b' c3] s3].
    cbn [fst] in *. unfold cd_ok in *. cbn [check_definitions]. now apply cd_add_ok.
  - pose proof (IH t1 depth c s) as A. destruct (resolve f t1 depth c s) as [[d' c1] s1]. cbn [fst] in A.
    destruct (enter_binder c1 x depth s1) as [c2 s2].
    pose proof (IH t2 (S depth) c2 (rname s2 x)) as B. destruct (resolve f t2 (S depth) c2 (rname s2 x)) as [[b' c3] s3].
    cbn [fst] in *. unfold cd_ok in *. cbn [check_definitions]. now apply cd_add_ok.
  - pose proof (IH t1 depth c s) as A. destruct (resolve f t1 depth c s) as [[g' c1] s1]. cbn [fst] in A.
    pose proof (IH t2 depth c1 s1) as B. destruct (resolve f t2 depth c1 s1) as [[a' c2] s2].
    cbn [fst] in *. unfold cd_ok in *. cbn [check_definitions]. now apply cd_add_ok.
  - destruct (collect_definitions (PLet i x xs xe ann t1 t2)) as [defs body].
    destruct (fold_left _ defs (c, s, [], 0)) as [[[c1 s1] added] i1].
    match goal with |- context [fold_left ?F defs (?a0, c1, s1, 0)] =>
      assert (M2 : Forall (fun p => cd_ok (snd p)) (fst (fst (fst (fold_left F defs (a0, c1, s1, 0))))));
      [ apply (fold_left_inv (fun st => Forall (fun p => cd_ok (snd p)) (fst (fst (fst st))))); [constructor|];
        intros [[[acc c0] s0] i0] [[x0 an] d] H; cbn [fst snd] in *;
        destruct (match an with Some _ => _ | None => _ end) as [[an' c'] s'];
        pose proof (IH d (depth + length defs) c' s') as Dd; destruct (resolve f d (depth + length defs) c' s') as [[d' c''] s''];
        cbn [fst snd] in *; apply Forall_app; split; [exact H | repeat constructor; exact Dd]
      | destruct (fold_left F defs (a0, c1, s1, 0)) as [[[rdefs c2] s2] i2] ]
    end. cbn [fst] in M2.
    pose proof (IH body (depth + length defs) c2 s2) as B. destruct (resolve f body (depth + length defs) c2 s2) as [[b' c3] s3].
    cbn [fst] in *. now apply cd_ok_let.
  - pose proof (IH t depth c s) as A. destruct (resolve f t depth c s) as [[a' c1] s1]. exact A.
  - pose proof (IH t1 depth c s) as A. destruct (resolve f t1 depth c s) as [[g' c1] s1]. cbn [fst] in A.
    pose proof (IH t2 depth c1 s1) as B. destruct (resolve f t2 depth c1 s1) as [[a' c2] s2].
    cbn [fst] in *. unfold cd_ok in *. cbn [check_definitions]. now apply cd_add_ok.
  - pose proof (IH t1 depth c s) as A. destruct (resolve f t1 depth c s) as [[g' c1] s1]. cbn [fst] in A.
    pose proof (IH t2 depth c1 s1) as B. destruct (resolve f t2 depth c1 s1) as [[a' c2] s2]. cbn [fst] in B.
    pose proof (IH t3 depth c2 s2) as E. destruct (resolve f t3 depth c2 s2) as [[e' c3] s3].
    cbn [fst] in *. unfold cd_ok in *. cbn [check_definitions]. apply cd_add_ok; [exact A|]. now apply cd_add_ok.
Qed.

(* ---------- (2) an error node never comes without an error factory ---------- *)
Section ErrorCheck.
Variable use_memo : bool.
Variable tokmap : PositiveMap.t ptok.
Variable ntoks : nat.
Variable last_tok : option ptok.
Notation error_term' := (error_term tokmap last_tok).
Notation silent_error' := (silent_error tokmap last_tok).
Notation choose' := (choose tokmap last_tok).
Notation run' := (run tokmap last_tok).
Notation build' := (build tokmap last_tok).
Notation expect' := (expect tokmap ntoks).
Notation scan' := (scan tokmap).
Notation parse_let' := (parse_let tokmap ntoks last_tok).
Notation parse_if' := (parse_if tokmap ntoks last_tok).
Notation parse_group' := (parse_group tokmap ntoks last_tok).
Notation parse' := (parse use_memo tokmap ntoks last_tok).

(* the invariant of every parse result: an unconfident result, and a result containing an error node,
   carries at least one error factory *)
Definition Jt (t : pterm) (conf : bool) : Prop :=
  (conf = false -> 0 < nerrs t) /\ (has_error_node t = true -> 0 < nerrs t).
Definition J (r : pres) : Prop := match r with PFuel => True | PRes t _ conf => Jt t conf end.
Definition TJ (s : mstate) : Prop := forall k r, PositiveMap.find k (tbl s) = Some r -> J r.
Definition good (x : M pres) : Prop := forall s, TJ s -> J (fst (x s)) /\ TJ (snd (x s)).
Definition good_rec (rec : mrec) : Prop := forall n pos, good (rec n pos).

Lemma nerrs_error_term p : nerrs (error_term' p) = 1.
Proof. unfold error_term. destruct (empty_range tokmap last_tok p). reflexivity. Qed.
Lemma error_term_J p nx : J (PRes (error_term' p) nx false).
Proof. cbn. unfold Jt. rewrite nerrs_error_term. split; intros; lia. Qed.
Lemma is_perror_silent p : is_perror (silent_error' p) = true /\ nerrs (silent_error' p) = 0 /\ has_error_node (silent_error' p) = true.
Proof. unfold silent_error. destruct (empty_range tokmap last_tok p). repeat split. Qed.

Lemma good_ret r : J r -> good (ret r).
Proof. intros H s T. split; [exact H | exact T]. Qed.

Lemma choose_good rec pos : good_rec rec -> forall alts, good (choose' rec pos alts).
Proof.
  intros HR. induction alts as [|a r IH]; intros s T; cbn [choose].
  - split; [apply error_term_J | exact T].
  - destruct (HR a pos s T) as [Ja Ta]. destruct (rec a pos s) as [[|t nx c] s']; cbn [fst snd] in *; [split; auto|].
    destruct (is_perror t); [apply IH; exact Ta | split; assumption].
Qed.

Lemma bindP_good x k : good x -> (forall t nx c, Jt t c -> good (k t nx c)) -> good (bindP x k).
Proof.
  intros Hx Hk s T. unfold bindP. destruct (Hx s T) as [Jx Tx]. destruct (x s) as [[|t nx c] s']; cbn [fst snd] in *; [split; auto|].
  apply Hk; assumption.
Qed.

(* expect: only the scan counter changes; a token that is not found was not at the current position *)
Lemma scan_here want p t : at_ tokmap p = Some t -> want (pk t) = true -> fst (fst (scan' (S ntoks) want p 0 0)) = true.
Proof. intros A W. cbn [scan]. rewrite A, W. reflexivity. Qed.

Lemma expect_facts want p report s : 
  let r := expect' want p report s in
  tbl (snd r) = tbl s /\ (fst (fst (fst r)) = false -> report = true -> snd (fst r) = 1).
Proof.
  unfold expect. destruct (scan' (S ntoks) want p 0 0) as [[found nx] st] eqn:Sc. cbn [fst snd tbl].
  split; [reflexivity|]. intros -> ->. cbn [andb].
  destruct (at_ tokmap p) as [t|] eqn:A; [|reflexivity]. destruct (want (pk t)) eqn:W; [|reflexivity].
  pose proof (scan_here want p t A W) as H. rewrite Sc in H. discriminate H.
Qed.

Lemma TJ_same_tbl s s' : tbl s' = tbl s -> TJ s -> TJ s'.
Proof. intros E T k r. rewrite E. apply T. Qed.

(* what a sequence function collected: the built node's error factories and error nodes are its children's *)
Definition cn (c : child) : nat := match c with CTok _ => 0 | CTerm t => nerrs t end.
Definition ce (c : child) : bool := match c with CTok _ => false | CTerm t => has_error_node t end.

Lemma build_facts n cs t : build' n cs = Some t ->
  nerrs t = list_sum (map cn cs) /\ has_error_node t = existsb ce cs.
Proof.
  unfold build. intros H.
  destruct n; try discriminate H;
  repeat (match type of H with
          | match ?l with [] => _ | _ :: _ => _ end = Some _ => destruct l as [|[?p|?u] ?cs]; try discriminate H
          | (let '(_, _) := ?e in _) = Some _ => destruct e
          end);
  injection H as <-; cbn; rewrite ?Nat.add_0_r, ?orb_false_r; split; try reflexivity; try lia.
Qed.

Definition acc_ok (acc : list child) (conf : bool) : Prop :=
  (conf = false -> 0 < list_sum (map cn acc)) /\ Forall (fun c => ce c = true -> 0 < cn c) acc.

Lemma list_sum_rev l : list_sum (rev l) = list_sum l.
Proof. induction l as [|a l IH]; [reflexivity|]. cbn [rev]. rewrite list_sum_app, IH. unfold list_sum. simpl. lia. Qed.

Lemma in_sum_le c l : In c l -> cn c <= list_sum (map cn l).
Proof. induction l as [|a l IH]; [contradiction|]. intros [->|H]; simpl; [lia|]. specialize (IH H). lia. Qed.

Lemma acc_ok_built n acc conf t pos : acc_ok acc conf -> build' n (rev acc) = Some t -> J (PRes t pos conf).
Proof.
  intros [Hc Hf] B. apply build_facts in B as [Bn Be]. rewrite map_rev, list_sum_rev in Bn. cbn [J]. split.
  - intros E. rewrite Bn. now apply Hc.
  - intros E. rewrite Be in E. apply existsb_exists in E as (c & Hin & Ec). apply in_rev in Hin.
    rewrite Forall_forall in Hf. specialize (Hf c Hin Ec). rewrite Bn.
    pose proof (in_sum_le c acc Hin). lia.
Qed.

Lemma run_good rec n : good_rec rec -> forall steps pos acc conf, acc_ok acc conf -> good (run' rec n steps pos acc conf).
Proof.
  intros HR. induction steps as [|st steps IH]; intros pos acc conf HA s T; cbn [run].
  - split; [|exact T]. cbn [fst]. destruct (build' n (rev acc)) as [t|] eqn:B; [exact (acc_ok_built _ _ _ _ _ HA B) | apply error_term_J].
  - destruct st as [k|m|m].
    + destruct (is tokmap pos k); [|split; [apply error_term_J | exact T]].
      apply IH; [|exact T]. destruct HA as [_ Hf]. split; [discriminate|]. constructor; [discriminate | exact Hf].
    + destruct (HR m pos s T) as [Jm Tm]. destruct (rec m pos s) as [[|t nx c] s']; cbn [fst snd] in *; [split; auto|].
      destruct (is_perror t); [split; assumption|].
      apply IH; [|exact Tm]. destruct HA as [_ Hf]. destruct Jm as [J1 J2]. split.
      * intros E. simpl. specialize (J1 E). lia.
      * constructor; [exact J2 | exact Hf].
    + destruct (HR m pos s T) as [Jm Tm]. destruct (rec m pos s) as [[|t nx c] s']; cbn [fst snd] in *; [split; auto|].
      apply IH; [|exact Tm]. destruct HA as [_ Hf]. destruct Jm as [J1 J2]. split.
      * intros E. simpl. specialize (J1 E). lia.
      * constructor; [exact J2 | exact Hf].
Qed.

(* re-labelling a node (parse_group) *)
Lemma nerrs_with_info t i : is_perror t = false -> nerrs (with_info t i) + pnerr (info t) = nerrs t + pnerr i.
Proof. destruct t; cbn; try discriminate; intros _; lia. Qed.
Lemma has_error_with_info t i : is_perror t = false -> has_error_node (with_info t i) = has_error_node t.
Proof. destruct t; cbn; try discriminate; reflexivity. Qed.

Lemma parse_group_good rec start : good_rec rec -> good (parse_group' rec start).
Proof.
  intros HR. unfold parse_group. destruct (negb (is tokmap start KLeftParen)); [apply good_ret, error_term_J|].
  apply bindP_good; [apply HR|]. intros t p1 c [J1 J2].
  destruct (is_perror t) eqn:P; [apply good_ret; split; assumption|].
  intros s T. pose proof (expect_facts (want_kind KRightParen) p1 c s) as [Et Ef]. cbv zeta in Et, Ef.
  destruct (expect' (want_kind KRightParen) p1 c s) as [[[found p2] phony] s1]. cbn [fst snd] in *.
  destruct (tok_range tokmap last_tok start) as [gs ge0]. destruct (tok_range tokmap last_tok (N.pred p2)) as [gs1 ge].
  cbn [fst snd]. split; [|exact (TJ_same_tbl _ _ Et T)].
  pose proof (nerrs_with_info t (mk gs ge true (pnerr (info t) + (if found then phony else 1))) P) as N. cbn [pnerr mk] in N.
  cbn [J]. split.
  - intros ->. lia.
  - rewrite (has_error_with_info _ _ P). intros E. specialize (J2 E). lia.
Qed.

(* a sub-parse that is replaced by a silent error when its keyword was not found *)
Definition Pm (found : bool) (t : pterm) (c : bool) : Prop :=
  (found = true /\ Jt t c) \/ (found = false /\ c = false /\ nerrs t = 0).

Lemma sub_step rec (found : bool) p s : good_rec rec -> TJ s ->
  let r := (if found then rec Term p else ret (PRes (silent_error' p) p false)) s in
  TJ (snd r) /\ match fst r with PFuel => True | PRes t _ c => Pm found t c end.
Proof.
  intros HR T. destruct found; cbv zeta.
  - destruct (HR Term p s T) as [Jr Tr]. split; [exact Tr|]. destruct (fst (rec Term p s)); [exact I|]. left. split; [reflexivity | exact Jr].
  - cbn. split; [exact T|]. right. destruct (is_perror_silent p) as (_ & Z & _). auto.
Qed.

(* the accounting: W = error factories counted so far; an unconfident predecessor has W > 0; a keyword that
   is not found after a confident predecessor is reported (e = 1) *)
Lemma chain W (cprev found : bool) e t c :
  (cprev = false -> 0 < W) -> (found = false -> cprev = true -> e = 1) -> Pm found t c ->
  (c = false -> 0 < W + e + nerrs t) /\ (has_error_node t = true -> 0 < W + e + nerrs t).
Proof.
  intros HW He [[_ [A B]] | [F [-> Z]]].
  - split; intros E; [specialize (A E) | specialize (B E)]; lia.
  - destruct cprev; [specialize (He F eq_refl) | specialize (HW eq_refl)]; split; intros; lia.
Qed.

Lemma bindP_gen (Pmid : pterm -> bool -> Prop) (x : M pres) k s :
  (TJ (snd (x s)) /\ match fst (x s) with PFuel => True | PRes t _ c => Pmid t c end) ->
  (forall t nx c s', Pmid t c -> TJ s' -> J (fst (k t nx c s')) /\ TJ (snd (k t nx c s'))) ->
  J (fst (bindP x k s)) /\ TJ (snd (bindP x k s)).
Proof.
  intros [Tx Px] Hk. unfold bindP. destruct (x s) as [[|t nx c] s']; cbn [fst snd] in *; [split; [exact I | exact Tx]|].
  apply Hk; assumption.
Qed.

Lemma rec_step rec n p s : good_rec rec -> TJ s ->
  TJ (snd (rec n p s)) /\ match fst (rec n p s) with PFuel => True | PRes t _ c => Jt t c end.
Proof. intros HR T. destruct (HR n p s T) as [Jr Tr]. split; [exact Tr|]. destruct (fst (rec n p s)); [exact I | exact Jr]. Qed.

Lemma parse_if_good rec start : good_rec rec -> good (parse_if' rec start).
Proof.
  intros HR. unfold parse_if. destruct (negb (is tokmap start KIf)); [apply good_ret, error_term_J|].
  destruct (tok_range tokmap last_tok start) as [is_ ie].
  intros s T. apply (bindP_gen Jt); [apply rec_step; assumption|].
  intros c p1 cconf sa [C1 C2] Tc.
  pose proof (expect_facts (want_kind KThen) p1 cconf sa) as [Et1 Ef1]. cbv zeta in Et1, Ef1.
  destruct (expect' (want_kind KThen) p1 cconf sa) as [[[found_then p2] e1] s1]. cbn [fst snd] in *.
  pose proof (TJ_same_tbl _ _ Et1 Tc) as T1.
  apply (bindP_gen (Pm found_then)); [apply sub_step; assumption|].
  intros t p3 tconf s2 Pt T2.
  destruct (chain (nerrs c) cconf found_then e1 t tconf C1 Ef1 Pt) as [Wt1 Wt2].
  pose proof (expect_facts (want_kind KElse) p3 tconf s2) as [Et2 Ef2]. cbv zeta in Et2, Ef2.
  destruct (expect' (want_kind KElse) p3 tconf s2) as [[[found_else p4] e2] s3]. cbn [fst snd] in *.
  pose proof (TJ_same_tbl _ _ Et2 T2) as T3.
  apply (bindP_gen (Pm found_else)); [apply sub_step; assumption|].
  intros e p5 econf s4 Pe T4.
  destruct (chain (nerrs c + e1 + nerrs t) tconf found_else e2 e econf Wt1 Ef2 Pe) as [We1 We2].
  cbn [ret fst snd]. split; [|exact T4]. cbn [J]. unfold Jt. cbn [nerrs has_error_node info pnerr mk]. split.
  - intros E. specialize (We1 E). lia.
  - intros E. apply orb_prop in E as [E|E]; [apply orb_prop in E as [E|E]|].
    + specialize (C2 E). lia.
    + specialize (Wt2 E). lia.
    + specialize (We2 E). lia.
Qed.

Definition ann_nerrs (ann : option pterm) : nat := match ann with Some a => nerrs a | None => 0 end.
Definition ann_err (ann : option pterm) : bool := match ann with Some a => has_error_node a | None => false end.

(* the part of parse_let after the `=`: definition, terminator, body *)
Lemma let_tail_good rec x xs xe ann (ann_conf eq_found : bool) p3 e1 s :
  good_rec rec -> TJ s ->
  (ann_conf = false -> 0 < ann_nerrs ann) -> (ann_err ann = true -> 0 < ann_nerrs ann) ->
  (eq_found = false -> ann_conf = true -> e1 = 1) ->
  let r := bindP (if eq_found then rec Term p3 else ret (PRes (silent_error' p3) p3 false)) (fun d p4 dconf =>
        fun s =>
        let '((t_found, p5, e2), s1) := expect' want_terminator p4 dconf s in
        bindP (if t_found then rec Term p5 else ret (PRes (silent_error' p5) p5 false)) (fun b p6 bconf =>
          ret (PRes (PLet (mk xs (pre (info b)) false (e1 + e2)) x xs xe ann d b) p6 bconf)) s1) s in
  J (fst r) /\ TJ (snd r).
Proof.
  intros HR T A1 A2 Ef1. cbv zeta.
  apply (bindP_gen (Pm eq_found)); [apply sub_step; assumption|].
  intros d p4 dconf s2 Pd T2.
  destruct (chain (ann_nerrs ann) ann_conf eq_found e1 d dconf A1 Ef1 Pd) as [Wd1 Wd2].
  pose proof (expect_facts want_terminator p4 dconf s2) as [Et2 Ef2]. cbv zeta in Et2, Ef2.
  destruct (expect' want_terminator p4 dconf s2) as [[[t_found p5] e2] s3]. cbn [fst snd] in *.
  pose proof (TJ_same_tbl _ _ Et2 T2) as T3.
  apply (bindP_gen (Pm t_found)); [apply sub_step; assumption|].
  intros b p6 bconf s4 Pb T4.
  destruct (chain (ann_nerrs ann + e1 + nerrs d) dconf t_found e2 b bconf Wd1 Ef2 Pb) as [Wb1 Wb2].
  cbn [ret fst snd]. split; [|exact T4]. cbn [J]. unfold Jt. cbn [nerrs has_error_node info pnerr mk].
  fold (ann_nerrs ann). fold (ann_err ann). split.
  - intros E. specialize (Wb1 E). lia.
  - intros E. apply orb_prop in E as [E|E]; [apply orb_prop in E as [E|E]|].
    + specialize (A2 E). lia.
    + specialize (Wd2 E). lia.
    + specialize (Wb2 E). lia.
Qed.

Lemma parse_let_good rec start : good_rec rec -> good (parse_let' rec start).
Proof.
  intros HR. unfold parse_let. destruct (negb (is tokmap start KIdentifier)); [apply good_ret, error_term_J|].
  destruct (tok_range tokmap last_tok start) as [xs xe].
  destruct (is tokmap (N.succ start) KColon).
  - intros s T. apply (bindP_gen Jt); [apply rec_step; assumption|].
    intros a p2 c sa [A1 A2] Ta.
    destruct (is_perror a); [split; [split; assumption | exact Ta]|].
    pose proof (expect_facts (want_kind KEquals) p2 c sa) as [Et1 Ef1]. cbv zeta in Et1, Ef1.
    destruct (expect' (want_kind KEquals) p2 c sa) as [[[eq_found p3] e1] s1]. cbn [fst snd] in *.
    pose proof (TJ_same_tbl _ _ Et1 Ta) as T1.
    exact (let_tail_good rec (tok_name tokmap start) xs xe (Some a) c eq_found p3 e1 s1 HR T1 A1 A2 Ef1).
  - destruct (is tokmap (N.succ start) KEquals); [|apply good_ret, error_term_J].
    intros s T.
    refine (let_tail_good rec (tok_name tokmap start) xs xe None true true (N.succ (N.succ start)) 0 s HR T _ _ _); discriminate.
Qed.

(* every nonterminal, with the memo table *)
Lemma parse_good : forall fuel, good_rec (parse' fuel).
Proof.
  induction fuel as [|f IH]; intros n pos s T; cbn [parse]; [split; [exact I | exact T]|].
  destruct (if use_memo && memoised_fast n then PositiveMap.find (key n pos) (tbl s) else None) as [r|] eqn:Hit.
  - cbn [fst snd]. split; [|exact T]. destruct (use_memo && memoised_fast n); [exact (T _ _ Hit) | discriminate].
  - set (s0 := {| tbl := tbl s; misses := S (misses s); scans := scans s |}).
    assert (T0 : TJ s0) by exact T.
    assert (B : forall x : M pres, good x -> 
              J (fst (let '(r, s') := x s0 in (r, if use_memo && memoised_fast n
                then {| tbl := PositiveMap.add (key n pos) r (tbl s'); misses := misses s'; scans := scans s' |} else s'))) /\
              TJ (snd (let '(r, s') := x s0 in (r, if use_memo && memoised_fast n
                then {| tbl := PositiveMap.add (key n pos) r (tbl s'); misses := misses s'; scans := scans s' |} else s')))).
    { intros x Hx. destruct (Hx s0 T0) as [Jx Tx]. destruct (x s0) as [r s']. cbn [fst snd] in *. split; [exact Jx|].
      destruct (use_memo && memoised_fast n); [|exact Tx].
      intros k r0. cbn [tbl]. rewrite PositiveMapAdditionalFacts.gsspec. destruct (PositiveMap.E.eq_dec k (key n pos)); [intros [= <-]; exact Jx | apply Tx]. }
    destruct (skel_fast n) as [alts|steps|].
    + apply (B (choose' (parse' f) pos alts)). now apply choose_good.
    + apply (B (run' (parse' f) n steps pos [] true)). apply run_good; [exact IH|]. split; [discriminate | constructor].
    + destruct n;
        first [ apply (B (parse_group' (parse' f) pos)); now apply parse_group_good
              | apply (B (parse_let' (parse' f) pos)); now apply parse_let_good
              | apply (B (parse_if' (parse' f) pos)); now apply parse_if_good
              | apply (B (ret (PRes (error_term' pos) pos false))); apply good_ret, error_term_J ].
Qed.

Lemma TJ_empty : TJ empty_state.
Proof. intros k r. cbn. rewrite PositiveMap.gempty. discriminate. Qed.

(* [ref:error_check]: the re-association passes never see an error node *)
Theorem stage1_never_panics : fst (fst (parse_stage1_ use_memo tokmap ntoks last_tok)) <> S1Panic.
Proof.
  unfold parse_stage1_. destruct (parse_good (parse_fuel ntoks) Term 0%N empty_state TJ_empty) as [Jr _].
  destruct (parse' (parse_fuel ntoks) Term 0%N empty_state) as [[|t nx c] s]; cbn [fst snd] in *; [discriminate|].
  destruct (Nat.eqb (nerrs t) 0) eqn:Z; cbn [negb]; [|discriminate].
  destruct (negb (N.eqb nx (ntoksN ntoks))); [discriminate|].
  destruct (has_error_node t) eqn:E; [|discriminate].
  destruct Jr as [_ J2]. specialize (J2 E). apply Nat.eqb_eq in Z. lia.
Qed.
End ErrorCheck.

(* the mirror of parse() never reaches a panic site *)
Theorem parse_top_never_panics : forall toks memo context, fst (fst (parse_top toks memo context)) <> PPanic.
Proof.
  intros toks memo context. unfold parse_top.
  pose proof (stage1_never_panics memo (tokmap_of toks) (length toks) (last_opt toks)) as S1.
  unfold parse_stage1. destruct (parse_stage1_ memo (tokmap_of toks) (length toks) (last_opt toks)) as [[st m] sc].
  cbn [fst] in *. destruct st; try discriminate; [contradiction|].
  match goal with |- context [resolve ?f ?r ?d ?c ?s] => pose proof (resolve_cd_ok f r d c s) as [e CD]; destruct (resolve f r d c s) as [[rt c'] s'] end.
  cbn [fst] in CD. rewrite CD. destruct (Nat.eqb (rerrs s' + e) 0); discriminate.
Qed.
