(* C10: the line-break rule as a theorem (tokenize_layout). After a successful tokenization, a
   line-break terminator stands between two tokens a and b exactly when the text between them
   contains a line break, a can end an expression and b can start one; no terminator leads, trails
   or repeats. Route: a walker over the first pass's forward tokens (`rwh`/`rw`: terminator iff line
   break seen and a can end an expression), proved by induction on the text for all lexer states
   (Q_all); then the second pass deletes exactly the terminators that precede a token that cannot
   start an expression, and the trailing one (filter2_layout). *)
From Coq Require Import List ZArith NArith Lia Bool Arith.
Import ListNotations.
Require Import Gram.Model.Token Gram.Gen.TokenTables Gram.Model.Tokenizer Gram.Spec.TokenSpec
  Gram.Proofs.TokenizerProofs Gram.Proofs.PartitionProofs.

Definition nl (c : ch) : bool := N.eqb (cp c) c_nl.

(* ---------- has_nl on suffixes ---------- *)
Lemma has_nl_empty : forall cs i lo hi, hi <= lo -> has_nl cs i lo hi = false.
Proof.
  induction cs as [|c cs IH]; intros i lo hi H; [reflexivity|]. cbn [has_nl]. rewrite (IH _ _ _ H), orb_false_r.
  destruct (Nat.leb_spec lo i); [|reflexivity]. destruct (Nat.ltb_spec i hi); [lia|reflexivity].
Qed.

Lemma has_nl_lo' : forall cs i lo lo' hi, lo <= i -> lo' <= i -> has_nl cs i lo hi = has_nl cs i lo' hi.
Proof.
  induction cs as [|c cs IH]; intros i lo lo' hi H H'; [reflexivity|]. cbn [has_nl].
  rewrite (IH (i + width c) lo lo' hi) by lia.
  destruct (Nat.leb_spec lo i); [|lia]. destruct (Nat.leb_spec lo' i); [|lia]. reflexivity.
Qed.

Lemma has_nl_cons_out c cs i lo hi : i < lo -> has_nl (c :: cs) i lo hi = has_nl cs (i + width c) lo hi.
Proof. intros H. cbn [has_nl]. destruct (Nat.leb_spec lo i); [lia|reflexivity]. Qed.

Lemma has_nl_cons_in c cs i hi : i < hi -> has_nl (c :: cs) i i hi = nl c || has_nl cs (i + width c) i hi.
Proof. intros H. cbn [has_nl]. rewrite Nat.leb_refl. destruct (Nat.ltb_spec i hi); [reflexivity|lia]. Qed.

(* ---------- the walkers on the first pass's tokens ---------- *)
Fixpoint rw (cs : list ch) (i : nat) (a : tok) (pending : bool) (ts : list tok) : bool :=
  match ts with
  | [] => true
  | t :: ts' =>
      if is_lbv (tv t) then negb pending && rw cs i a true ts'
      else Bool.eqb pending (has_nl cs i (tend a) (tstart t) && ends_expr (tv a)) && rw cs i t false ts'
  end.

(* head walker: the token a ended before offset i; `seen` = a line break occurred in [tend a, i) *)
Fixpoint rwh (cs : list ch) (i : nat) (a : option tokv) (seen pending : bool) (ts : list tok) : bool :=
  match ts with
  | [] => true
  | t :: ts' =>
      if is_lbv (tv t) then
        match a with None => false | Some _ => negb pending && rwh cs i a seen true ts' end
      else
        match a with
        | None => negb pending
        | Some v => Bool.eqb pending ((seen || has_nl cs i i (tstart t)) && ends_expr v)
        end && rw cs i t false ts'
  end.

Lemma rw_shift c cs i : forall ts a p, Forall (fun t => i < tend t) (a :: ts) ->
  rw (c :: cs) i a p ts = rw cs (i + width c) a p ts.
Proof.
  induction ts as [|t ts IH]; intros a p H; [reflexivity|].
  inversion H as [|? ? Ha Hts]; subst. cbn [rw]. destruct (is_lbv (tv t)).
  - rewrite IH; [reflexivity|]. constructor; [exact Ha|]. now inversion Hts.
  - rewrite has_nl_cons_out by exact Ha. rewrite IH; [reflexivity|exact Hts].
Qed.

Lemma rwh_rw cs i t0 : tend t0 <= i -> forall ts p, rwh cs i (Some (tv t0)) false p ts = rw cs i t0 p ts.
Proof.
  intros H. induction ts as [|t ts IH]; intros p; [reflexivity|]. cbn [rwh rw]. destruct (is_lbv (tv t)).
  - rewrite IH. reflexivity.
  - cbn [orb]. rewrite (has_nl_lo' cs i (tend t0) i) by lia. reflexivity.
Qed.

(* the character at i lies in the gap (no token in progress, none starts here) *)
Lemma rwh_shift_gap c cs i a seen : forall r p,
  Forall (fun t => i + width c <= tstart t) r -> Forall (fun t => i < tend t) r -> 1 <= width c ->
  rwh (c :: cs) i a seen p r = rwh cs (i + width c) a (seen || nl c) p r.
Proof.
  induction r as [|t r IH]; intros p Hs He W; [reflexivity|].
  inversion Hs as [|? ? Hs1 Hs2]; inversion He as [|? ? He1 He2]; subst. cbn [rwh]. destruct (is_lbv (tv t)).
  - destruct a; [|reflexivity]. rewrite IH by assumption. reflexivity.
  - rewrite (rw_shift c cs i r t false) by (constructor; assumption). destruct a as [v|]; [|reflexivity].
    rewrite has_nl_cons_in by lia. rewrite (has_nl_lo' cs (i + width c) i (i + width c)) by lia.
    rewrite orb_assoc. reflexivity.
Qed.

(* the first token began at or before i (it is in progress at i, or starts with the character at i) *)
Lemma rwh_shift_tok c cs i a seen t0 r p :
  is_lbv (tv t0) = false -> tstart t0 <= i -> Forall (fun t => i < tend t) (t0 :: r) ->
  rwh (c :: cs) i a seen p (t0 :: r) = rwh cs (i + width c) a seen p (t0 :: r).
Proof.
  intros L S E. cbn [rwh]. rewrite L. rewrite (rw_shift c cs i r t0 false E).
  rewrite !has_nl_empty by lia. reflexivity.
Qed.

(* ---------- facts about the forward tokens ---------- *)
Definition st_inv (s : st) (i : nat) : Prop :=
  match s with InWord st0 _ | InNum st0 _ => st0 < i | InPend st0 _ _ => i = st0 + 1 | _ => True end /\ st_ok s.

Lemma st_inv_start s i : st_inv s i -> state_start s i <= i.
Proof. destruct s; cbn; intros [H _]; lia. Qed.

Lemma flushf_tend s i : st_inv s i -> Forall (fun t => i <= tend t) (flushf s i).
Proof. destruct s; cbn; intros [H _]; repeat constructor; cbn; lia. Qed.

Lemma flushf_not_lb s i : st_inv s i -> Forall (fun t => is_lbv (tv t) = false) (flushf s i).
Proof.
  destruct s; cbn; intros [_ H]; repeat constructor; cbn [tv mkt].
  - apply classify_word_not_lb.
  - apply H.
Qed.

Lemma dispatchf_inv last i c s' em : ch_wf c -> dispatchf last i c = Some (s', em) ->
  st_inv s' (i + width c) /\ Forall (fun t => tend t = i + 1 /\ tstart t = i) em.
Proof.
  intros W. unfold dispatchf. destruct (single_symbol (cp c)) eqn:S; [intros [= <- <-]; cbn; repeat split; auto|].
  destruct (N.eqb (cp c) c_nl).
  - intros [= <- <-]. split; [split; exact I|]. destruct last as [v|]; [destruct (ends_expr v)|]; cbn; auto.
  - destruct (pend_of (cp c)) as [[ps al]|] eqn:P.
    { intros [= <- <-]. destruct (pend_facts c ps al W P) as (Hw & _). cbn. rewrite Hw.
      split; [split; [reflexivity | exact (pend_of_not_lb _ _ _ P)] | auto]. }
    destruct W as [W _].
    destruct (alpha c || N.eqb (cp c) c_us); [intros [= <- <-]; cbn; split; [split; [lia|exact I]|auto]|].
    destruct (is_digit (cp c)); [intros [= <- <-]; cbn; split; [split; [lia|exact I]|auto]|].
    destruct (ws c); [intros [= <- <-]; cbn; repeat split; auto|].
    destruct (N.eqb (cp c) c_hash); [intros [= <- <-]; cbn; repeat split; auto|discriminate].
Qed.

Lemma lexf_tend : forall cs i s last ts, Forall ch_wf cs -> st_inv s i -> lexf cs i s last = Some ts ->
  Forall (fun t => i <= tend t) ts.
Proof.
  induction cs as [|c cs IH]; intros i s last ts Wf Hs H.
  - cbn [lexf] in H. injection H as <-. now apply flushf_tend.
  - inversion Wf as [|? ? Wc Wcs]; subst. pose proof Wc as [W1 _].
    assert (VD : forall pre, Forall (fun t => i <= tend t) pre ->
             forall r, match dispatchf (last_of pre last) i c with
                       | None => None
                       | Some (s', em) => match lexf cs (i + width c) s' (last_of em (last_of pre last)) with
                                          | Some r => Some (pre ++ em ++ r) | None => None end end = Some r ->
             Forall (fun t => i <= tend t) r).
    { intros pre Hpre r Hr. destruct (dispatchf (last_of pre last) i c) as [[s' em]|] eqn:D; [|discriminate].
      destruct (lexf cs (i + width c) s' _) as [r'|] eqn:L; [|discriminate]. injection Hr as <-.
      destruct (dispatchf_inv _ _ _ _ _ Wc D) as [Hs' Hem].
      apply Forall_app; split; [exact Hpre|]. apply Forall_app; split.
      - eapply Forall_impl; [|exact Hem]. intros t [-> _]. lia.
      - eapply Forall_impl; [|apply (IH _ _ _ _ Wcs Hs' L)]. cbn. intros; lia. }
    cbn [lexf] in H. pose proof Hs as [Hp Hok]. destruct s; cbn [st_inv] in Hp.
    + apply (VD [] (Forall_nil _) _ H).
    + destruct (alnum c || N.eqb (cp c) c_us).
      * assert (Hs' : st_inv (InWord start (cp c :: rev_text)) (i + width c)) by (cbn; split; [lia|exact I]).
        eapply Forall_impl; [|apply (IH (i + width c) _ last ts Wcs Hs' H)]. cbn. intros; lia.
      * apply (VD _ (flushf_tend (InWord start rev_text) i Hs) _ H).
    + destruct (is_digit (cp c)).
      * assert (Hs' : st_inv (InNum start (acc * 10 + (Z.of_N (cp c) - 48))) (i + width c)) by (cbn; split; [lia|exact I]).
        eapply Forall_impl; [|apply (IH (i + width c) _ last ts Wcs Hs' H)]. cbn. intros; lia.
      * apply (VD _ (flushf_tend (InNum start acc) i Hs) _ H).
    + destruct (assoc pairs (cp c)) as [k|].
      * destruct (lexf cs (i + width c) Start (Some (TK k))) as [r|] eqn:L; [|discriminate]. injection H as <-.
        constructor; [cbn; lia|]. eapply Forall_impl; [|apply (IH (i + width c) Start (Some (TK k)) r Wcs (conj I I) L)]. cbn. intros; lia.
      * apply (VD _ (flushf_tend (InPend start pairs alone) i Hs) _ H).
    + destruct (N.eqb (cp c) c_nl); [apply (VD [] (Forall_nil _) _ H)|].
      eapply Forall_impl; [|apply (IH (i + width c) InComment last ts Wcs (conj I I) H)]. cbn. intros; lia.
Qed.

(* a token in progress is the first token of the result *)
Definition in_progress (s : st) : option nat :=
  match s with InWord st0 _ | InNum st0 _ | InPend st0 _ _ => Some st0 | _ => None end.

Lemma lexf_inprogress : forall cs i s last ts st0, st_inv s i -> in_progress s = Some st0 -> lexf cs i s last = Some ts ->
  exists t0 r, ts = t0 :: r /\ tstart t0 = st0 /\ is_lbv (tv t0) = false.
Proof.
  induction cs as [|c cs IH]; intros i s last ts st0 Hs Hp H.
  - cbn [lexf] in H. injection H as <-. pose proof (flushf_not_lb s i Hs) as L. pose proof (flushf_starts s i) as S.
    destruct s; try discriminate; cbn in Hp; injection Hp as <-; cbn [flushf] in *;
      eexists _, _; (split; [reflexivity|]); (split; [reflexivity|]); now inversion L.
  - assert (VD : forall r, match dispatchf (last_of (flushf s i) last) i c with
                       | None => None
                       | Some (s', em) => match lexf cs (i + width c) s' (last_of em (last_of (flushf s i) last)) with
                                          | Some r => Some (flushf s i ++ em ++ r) | None => None end end = Some r ->
             exists t0 r', r = t0 :: r' /\ tstart t0 = st0 /\ is_lbv (tv t0) = false).
    { intros r Hr. destruct (dispatchf _ i c) as [[s' em]|]; [|discriminate].
      destruct (lexf cs (i + width c) s' _) as [r'|]; [|discriminate]. injection Hr as <-.
      pose proof (flushf_not_lb s i Hs) as L.
      destruct s; try discriminate; cbn in Hp; injection Hp as <-; cbn [flushf app] in *;
        eexists _, _; (split; [reflexivity|]); (split; [reflexivity|]); now inversion L. }
    cbn [lexf] in H. destruct Hs as [Hpos Hok]. destruct s; try discriminate; cbn in Hp; injection Hp as <-; cbn [st_inv] in Hpos.
    + destruct (alnum c || N.eqb (cp c) c_us); [|exact (VD _ H)].
      refine (IH (i + width c) (InWord start (cp c :: rev_text)) last ts start _ eq_refl H). cbn; split; [lia | exact I].
    + destruct (is_digit (cp c)); [|exact (VD _ H)].
      refine (IH (i + width c) (InNum start _) last ts start _ eq_refl H). cbn; split; [lia | exact I].
    + destruct (assoc pairs (cp c)) as [k|] eqn:A; [|exact (VD _ H)].
      destruct (lexf cs (i + width c) Start (Some (TK k))) as [r|]; [|discriminate]. injection H as <-.
      eexists _, _. split; [reflexivity|]. split; [reflexivity|]. cbn [tv mkt]. destruct Hok as [_ Hk]. exact (Hk _ _ A).
Qed.

(* ---------- the invariant of the first pass ---------- *)
Definition lb : tokv := TK KLineBreak.
Definition lastv (a : option tokv) (seen : bool) : option tokv :=
  match a with None => None | Some v => if seen && ends_expr v then Some lb else Some v end.
Definition pend (a : option tokv) (seen : bool) : bool :=
  match a with None => false | Some v => seen && ends_expr v end.

Lemma ends_lb : ends_expr lb = false.
Proof. destruct tables_no_linebreak as (_ & _ & _ & H). exact H. Qed.

Lemma st_inv_Start i : st_inv Start i.
Proof. split; exact I. Qed.
Lemma st_inv_Comment i : st_inv InComment i.
Proof. split; exact I. Qed.

Definition Q (cs : list ch) : Prop := forall i s a seen r,
  st_inv s i -> lexf cs i s (lastv a seen) = Some r -> rwh cs i a seen (pend a seen) r = true.

Lemma lastv_fresh v : lastv (Some v) false = Some v.
Proof. reflexivity. Qed.

Lemma head_ok cs i a seen hi : hi <= i ->
  match a with None => negb (pend a seen) | Some v => Bool.eqb (pend a seen) ((seen || has_nl cs i i hi) && ends_expr v) end = true.
Proof. intros H. destruct a as [v|]; [|reflexivity]. cbn [pend]. rewrite has_nl_empty by exact H. rewrite orb_false_r. apply eqb_reflx. Qed.

(* a token t that ends at i+1 and is followed by the forward tokens of the rest *)
Lemma after_token c cs i t r : Q cs -> Forall ch_wf (c :: cs) -> tend t = i + 1 ->
  lexf cs (i + width c) Start (Some (tv t)) = Some r -> rw (c :: cs) i t false r = true.
Proof.
  intros HQ Wf Et L. inversion Wf as [|? ? [W1 _] Wcs]; subst.
  pose proof (lexf_tend _ _ _ _ _ Wcs (st_inv_Start _) L) as Te.
  rewrite rw_shift by (constructor; [lia | eapply Forall_impl; [|exact Te]; cbn; intros; lia]).
  rewrite <- rwh_rw by lia. rewrite <- (lastv_fresh (tv t)) in L. exact (HQ _ Start _ _ _ (st_inv_Start _) L).
Qed.

(* the character at i is dispatched with no token in progress *)
Lemma disp_step c cs i a seen s' em r : Q cs -> Forall ch_wf (c :: cs) ->
  dispatchf (lastv a seen) i c = Some (s', em) ->
  lexf cs (i + width c) s' (last_of em (lastv a seen)) = Some r ->
  rwh (c :: cs) i a seen (pend a seen) (em ++ r) = true.
Proof.
  intros HQ Wf D L. pose proof Wf as Wf'. inversion Wf' as [|? ? Wc Wcs]; subst. pose proof Wc as [W1 _].
  destruct (dispatchf_inv _ _ _ _ _ Wc D) as [Hs' _].
  pose proof (lexf_tend _ _ _ _ _ Wcs Hs' L) as Te.
  assert (Te' : Forall (fun t => i < tend t) r) by (eapply Forall_impl; [|exact Te]; cbn; intros; lia).
  unfold dispatchf in D. destruct (single_symbol (cp c)) as [k|] eqn:S.
  { injection D as <- <-. cbn [app]. cbn [rwh tv mkt]. rewrite (single_symbol_not_lb _ _ S).
    cbn [tstart mkt]. rewrite (head_ok (c :: cs) i a seen i (le_n _)). cbn [andb].
    apply after_token; auto. }
  destruct (N.eqb (cp c) c_nl) eqn:Nl.
  { injection D as <- D. 
    pose proof (lexf_lb cs (i + width c) Start _ r (le_n _) L) as Ts. cbn [state_start] in Ts.
    destruct a as [v|].
    - cbn [lastv pend] in *. destruct (seen && ends_expr v) eqn:SE.
      + (* a terminator is already pending *)
        rewrite ends_lb in D. subst em. cbn [app]. rewrite rwh_shift_gap by assumption.
        apply andb_prop in SE as [-> Ev]. cbn [orb].
        specialize (HQ (i + width c) Start (Some v) true r (st_inv_Start _)). cbn [lastv pend] in HQ. rewrite Ev in HQ. cbn [andb] in HQ.
        cbn [last_of rev] in L. apply HQ. exact L.
      + destruct (ends_expr v) eqn:Ev.
        * (* the first line break after a token that can end an expression *)
          subst em. cbn [app]. cbn [rwh tv mkt is_lbv negb andb]. rewrite rwh_shift_gap by assumption.
          unfold nl. rewrite Nl, orb_true_r.
          specialize (HQ (i + width c) Start (Some v) true r (st_inv_Start _)). cbn [lastv pend] in HQ. rewrite Ev in HQ. cbn [andb] in HQ.
          apply HQ. exact L.
        * subst em. cbn [app]. rewrite rwh_shift_gap by assumption. unfold nl. rewrite Nl, orb_true_r.
          specialize (HQ (i + width c) Start (Some v) true r (st_inv_Start _)). cbn [lastv pend] in HQ. rewrite Ev in HQ. cbn [andb] in HQ.
          rewrite andb_false_r in *. apply HQ. exact L.
    - cbn [lastv pend] in *. subst em. cbn [app]. rewrite rwh_shift_gap by assumption.
      exact (HQ (i + width c) Start None _ r (st_inv_Start _) L). }
  assert (GAP : s' = Start \/ s' = InComment -> em = [] -> rwh (c :: cs) i a seen (pend a seen) (em ++ r) = true).
  { intros Hst ->. cbn [app]. 
    assert (Ts : Forall (fun t => i + width c <= tstart t) r).
    { destruct Hst; subst s'; [exact (lexf_lb cs (i + width c) Start _ r (le_n _) L) | exact (lexf_lb cs (i + width c) InComment _ r (le_n _) L)]. }
    rewrite rwh_shift_gap by assumption. unfold nl. rewrite Nl, orb_false_r.
    cbn [last_of rev] in L. exact (HQ _ _ _ _ _ Hs' L). }
  assert (TOK : in_progress s' = Some i -> em = [] -> rwh (c :: cs) i a seen (pend a seen) (em ++ r) = true).
  { intros Hp ->. cbn [app]. cbn [last_of rev] in L.
    destruct (lexf_inprogress _ _ _ _ _ _ Hs' Hp L) as (t0 & r' & -> & St & Lb).
    rewrite rwh_shift_tok; [| exact Lb | lia | exact Te']. exact (HQ _ _ _ _ _ Hs' L). }
  destruct (pend_of (cp c)) as [[ps al]|]; [injection D as <- <-; now apply TOK|].
  destruct (alpha c || N.eqb (cp c) c_us); [injection D as <- <-; now apply TOK|].
  destruct (is_digit (cp c)); [injection D as <- <-; now apply TOK|].
  destruct (ws c); [injection D as <- <-; apply GAP; auto|].
  destruct (N.eqb (cp c) c_hash); [injection D as <- <-; apply GAP; auto|discriminate].
Qed.

Lemma Q_nil : Q [].
Proof.
  intros i s a seen r Hs H. cbn [lexf] in H. injection H as <-.
  pose proof (flushf_not_lb s i Hs) as L. pose proof (flushf_starts s i) as S. pose proof (st_inv_start s i Hs) as Le.
  destruct (flushf s i) as [|t0 [|? ?]] eqn:F; [reflexivity | | destruct s; discriminate].
  inversion L as [|? ? L0 _]; inversion S as [|? ? S0 _]; subst. cbn [rwh rw]. rewrite L0, andb_true_r.
  apply head_ok. lia.
Qed.

(* a finished token t0 (flushed at i) followed by the dispatch of the character at i *)
Lemma flush_then_dispatch c cs i a seen t0 r : Q cs -> Forall ch_wf (c :: cs) ->
  is_lbv (tv t0) = false -> tstart t0 <= i -> tend t0 <= i ->
  match dispatchf (last_of [t0] (lastv a seen)) i c with
  | None => None
  | Some (s', em) => match lexf cs (i + width c) s' (last_of em (last_of [t0] (lastv a seen))) with
                     | Some r => Some ([t0] ++ em ++ r) | None => None end end = Some r ->
  rwh (c :: cs) i a seen (pend a seen) r = true.
Proof.
  intros HQ Wf Lb S E H. cbn [last_of rev app] in H.
  destruct (dispatchf (Some (tv t0)) i c) as [[s' em]|] eqn:D; [|discriminate].
  destruct (lexf cs (i + width c) s' _) as [r'|] eqn:L; [|discriminate]. injection H as <-.
  cbn [rwh]. rewrite Lb, (head_ok (c :: cs) i a seen (tstart t0) S). cbn [andb].
  rewrite <- rwh_rw by exact E.
  change (Some (tv t0)) with (lastv (Some (tv t0)) false) in D, L.
  exact (disp_step c cs i (Some (tv t0)) false s' em r' HQ Wf D L).
Qed.

Lemma Q_cons c cs : Forall ch_wf (c :: cs) -> Q cs -> Q (c :: cs).
Proof.
  intros Wf HQ i s a seen r Hs H. pose proof Wf as Wf'. inversion Wf' as [|? ? Wc Wcs]; subst. pose proof Wc as [W1 _].
  assert (CONT : forall s2 st0, in_progress s2 = Some st0 -> st0 <= i -> st_inv s2 (i + width c) ->
            lexf cs (i + width c) s2 (lastv a seen) = Some r -> rwh (c :: cs) i a seen (pend a seen) r = true).
  { intros s2 st0 Hp Hle Hs2 L. destruct (lexf_inprogress _ _ _ _ _ _ Hs2 Hp L) as (t0 & r' & -> & St & Lb).
    pose proof (lexf_tend _ _ _ _ _ Wcs Hs2 L) as Te.
    rewrite rwh_shift_tok; [exact (HQ _ _ _ _ _ Hs2 L) | exact Lb | lia |].
    eapply Forall_impl; [|exact Te]. cbn. intros; lia. }
  cbn [lexf] in H. pose proof Hs as [Hpos Hok]. pose proof (flushf_not_lb s i Hs) as FL.
  destruct s; cbn [st_inv] in Hpos.
  - cbn [last_of rev] in H. destruct (dispatchf (lastv a seen) i c) as [[s' em]|] eqn:D; [|discriminate].
    destruct (lexf cs (i + width c) s' _) as [r'|] eqn:L; [|discriminate]. injection H as <-. cbn [app].
    exact (disp_step c cs i a seen s' em r' HQ Wf D L).
  - destruct (alnum c || N.eqb (cp c) c_us).
    + apply (CONT (InWord start (cp c :: rev_text)) start eq_refl); [lia | cbn; split; [lia|exact I] | exact H].
    + cbn [flushf] in H, FL. pose proof (Forall_inv FL) as FL0. cbn beta in FL0.
      apply (flush_then_dispatch c cs i a seen _ r HQ Wf FL0); cbn [tstart tend mkt]; try lia. exact H.
  - destruct (is_digit (cp c)).
    + apply (CONT (InNum start (acc * 10 + (Z.of_N (cp c) - 48))) start eq_refl); [lia | cbn; split; [lia|exact I] | exact H].
    + cbn [flushf] in H, FL. pose proof (Forall_inv FL) as FL0. cbn beta in FL0.
      apply (flush_then_dispatch c cs i a seen _ r HQ Wf FL0); cbn [tstart tend mkt]; try lia. exact H.
  - destruct (assoc pairs (cp c)) as [k|] eqn:A.
    + destruct (lexf cs (i + width c) Start (Some (TK k))) as [r'|] eqn:L; [|discriminate]. injection H as <-.
      cbn [rwh tv mkt]. destruct Hok as [_ Hk]. rewrite (Hk _ _ A). cbn [tstart mkt].
      rewrite (head_ok (c :: cs) i a seen start) by lia. cbn [andb].
      apply after_token; auto. cbn. lia.
    + cbn [flushf] in H, FL. pose proof (Forall_inv FL) as FL0. cbn beta in FL0.
      apply (flush_then_dispatch c cs i a seen _ r HQ Wf FL0); cbn [tstart tend mkt]; try lia. exact H.
  - destruct (N.eqb (cp c) c_nl) eqn:Nl.
    + cbn [last_of rev] in H. destruct (dispatchf (lastv a seen) i c) as [[s' em]|] eqn:D; [|discriminate].
      destruct (lexf cs (i + width c) s' _) as [r'|] eqn:L; [|discriminate]. injection H as <-. cbn [app].
      exact (disp_step c cs i a seen s' em r' HQ Wf D L).
    + pose proof (lexf_tend _ _ _ _ _ Wcs (st_inv_Comment _) H) as Te.
      pose proof (lexf_lb cs (i + width c) InComment _ r (le_n _) H) as Ts. cbn [state_start] in Ts.
      rewrite rwh_shift_gap; [| exact Ts | eapply Forall_impl; [|exact Te]; cbn; intros; lia | exact W1].
      unfold nl. rewrite Nl, orb_false_r. exact (HQ _ _ _ _ _ (st_inv_Comment _) H).
Qed.

Theorem Q_all : forall cs, Forall ch_wf cs -> Q cs.
Proof. induction cs as [|c cs IH]; intros W; [exact Q_nil|]. apply Q_cons; [exact W|]. apply IH. now inversion W. Qed.

(* ---------- the second pass ---------- *)
Lemma all_kinds_complete k : In k all_kinds.
Proof. destruct k; cbn; tauto. Qed.

Lemma ends_spec v : ends_expr v = in_kinds E_spec (kind_of v).
Proof.
  destruct linebreak_tables_are_spec as [H _]. rewrite forallb_forall in H.
  specialize (H _ (all_kinds_complete (kind_of v))). now apply eqb_prop in H.
Qed.
Lemma starts_spec v : starts_expr v = in_kinds S_spec (kind_of v).
Proof.
  destruct linebreak_tables_are_spec as [_ H]. rewrite forallb_forall in H.
  specialize (H _ (all_kinds_complete (kind_of v))). now apply eqb_prop in H.
Qed.

Lemma filter2_layout_tail cs : forall ts a pending out,
  rw cs 0 a pending ts = true -> filter2 ts = Some out ->
  if pending then match ts with [] => out = [] | n :: _ => layout_walk cs (Some a) (starts_expr (tv n)) out = true end
  else layout_walk cs (Some a) false out = true.
Proof.
  induction ts as [|t rest IH]; intros a pending out R F.
  - cbn [filter2] in F. injection F as <-. destruct pending; reflexivity.
  - cbn [rw filter2] in R, F. destruct (is_lbv (tv t)) eqn:Lt.
    + apply andb_prop in R as [Rp R]. destruct pending; [discriminate|].
      destruct rest as [|n rest']; [injection F as <-; reflexivity|].
      destruct (is_lbv (tv n)) eqn:Ln; [discriminate|].
      destruct (filter2 (n :: rest')) as [r|] eqn:Fr; [|discriminate].
      pose proof (IH a true r R eq_refl) as G. cbn beta iota in G.
      destruct (starts_expr (tv n)); injection F as <-.
      * cbn [layout_walk]. rewrite Lt. cbn [negb andb]. exact G.
      * exact G.
    + apply andb_prop in R as [Re R]. destruct (filter2 rest) as [r|] eqn:Fr; [|discriminate]. injection F as <-.
      pose proof (IH t false r R eq_refl) as G. cbn beta iota in G.
      apply eqb_prop in Re. rewrite ends_spec in Re.
      destruct pending; cbn [layout_walk]; rewrite Lt, G, andb_true_r, <- Re; cbn [andb].
      * rewrite starts_spec. apply eqb_reflx.
      * reflexivity.
Qed.

Lemma filter2_layout_head cs ts out :
  rwh cs 0 None false false ts = true -> filter2 ts = Some out -> layout_walk cs None false out = true.
Proof.
  intros R F. destruct ts as [|t rest]; [cbn in F; injection F as <-; reflexivity|].
  cbn [rwh filter2] in R, F. destruct (is_lbv (tv t)) eqn:Lt; [discriminate|]. cbn [negb andb] in R.
  destruct (filter2 rest) as [r|] eqn:Fr; [|discriminate]. injection F as <-.
  cbn [layout_walk]. rewrite Lt. exact (filter2_layout_tail cs rest t false r R Fr).
Qed.

(* C10: the tokens of a successful tokenization obey the line-break rule *)
Theorem tokenize_layout : forall gend cs ts,
  Forall ch_wf cs -> tokenize gend cs = Ok ts -> layout_ok cs ts = true.
Proof.
  intros gend cs ts W H. unfold tokenize in H.
  pose proof (lex_lexf gend cs 0 Start {| toks := []; errs := [] |}) as (l & El & R).
  cbn [toks errs hd_tv] in *.
  destruct (errs (lex gend cs 0 Start {| toks := []; errs := [] |})) as [|e es] eqn:Ee; [|discriminate].
  rewrite app_nil_r in El. subst l.
  destruct (lexf cs 0 Start None) as [r|] eqn:L; [|now destruct R].
  destruct R as [_ Ht]. rewrite app_nil_r in Ht. rewrite Ht, rev_involutive in H.
  destruct (filter2 r) as [x|] eqn:F; [|discriminate]. injection H as <-.
  unfold layout_ok. apply (filter2_layout_head cs r x); [|exact F].
  exact (Q_all cs W 0 Start None false r (st_inv_Start 0) L).
Qed.
