(* C07: the grammar generated from grammar.y is unambiguous.

   Derivation trees are data (dtree: a node carries its nonterminal, its production and a forest of token
   leaves and subtrees; dt_ok: every node is a production of `grammar`; dyield: the leaves).
     derives_iff_tree      derives n w <-> exists d, dt_ok d /\ root d = n /\ dyield d = w
     grammar_unambiguous   dt_ok d1 -> dt_ok d2 -> root d1 = root d2 -> dyield d1 = dyield d2 -> d1 = d2
   (for every nonterminal, not only Term). Route: pegT, the tree-building version of the ordered-choice
   semantics pegR of PegSem.v, is a partial FUNCTION of (nonterminal, input) (pegT_det, on top of pegR_det),
   and every well-formed derivation tree, in any context that FOLLOW allows, is the tree it builds
   (peg_complete_tree, the tree-producing version of CompleteProofs.peg_complete). *)
From Coq Require Import List ZArith NArith Lia Bool Arith PArith Wf_nat.
Import ListNotations.
Require Import Gram.Model.Token Gram.Model.Grammar Gram.Gen.ParserSkeleton Gram.Gen.GrammarY Gram.Model.Parser.
Require Import Gram.Proofs.ParserProofs Gram.Proofs.PackratProofs Gram.Proofs.SoundProofs Gram.Proofs.PrintProofs.
Require Import Gram.Proofs.PegSem Gram.Proofs.GrammarTables Gram.Proofs.GrammarFacts Gram.Proofs.CompleteProofs.

#[local] Hint Rewrite @app_length @length_cons @length_nil : len.

(* ---------- derivation trees ---------- *)
Inductive dtree := DNode (n : nt) (rhs : list gsym) (f : dforest)
with dforest := FNil | FTok (k : tkind) (f : dforest) | FSub (d : dtree) (f : dforest).

Definition root (d : dtree) : nt := match d with DNode n _ _ => n end.
Fixpoint dyield (d : dtree) : list tkind := match d with DNode _ _ f => fyield f end
with fyield (f : dforest) : list tkind :=
  match f with FNil => [] | FTok k f => k :: fyield f | FSub d f => dyield d ++ fyield f end.

Inductive dt_ok : dtree -> Prop :=
| dt_node n rhs f : In (n, rhs) grammar -> df_ok rhs f -> dt_ok (DNode n rhs f)
with df_ok : list gsym -> dforest -> Prop :=
| df_nil : df_ok [] FNil
| df_tok k rhs f : df_ok rhs f -> df_ok (GT k :: rhs) (FTok k f)
| df_term k rhs f : is_terminator_kind k = true -> df_ok rhs f -> df_ok (GTerminator :: rhs) (FTok k f)
| df_sub d rhs f : dt_ok d -> df_ok rhs f -> df_ok (GN (root d) :: rhs) (FSub d f).

Scheme dt_ok_mind := Minimality for dt_ok Sort Prop
  with df_ok_mind := Minimality for df_ok Sort Prop.

Lemma tree_derives : forall d, dt_ok d -> derives (root d) (dyield d).
Proof.
  apply (dt_ok_mind (fun d => derives (root d) (dyield d)) (fun rhs f => derives_rhs rhs (fyield f))).
  - intros n rhs f Hin _ IH. exact (d_prod n rhs _ Hin IH).
  - constructor.
  - intros k rhs f _ IH. cbn. now constructor.
  - intros k rhs f Hk _ IH. cbn. now constructor.
  - intros d rhs f _ IH1 _ IH2. cbn. now constructor.
Qed.
Lemma derives_tree : forall n w, derives n w -> exists d, dt_ok d /\ root d = n /\ dyield d = w.
Proof.
  apply (derives_mind (fun n w => exists d, dt_ok d /\ root d = n /\ dyield d = w)
                      (fun rhs w => exists f, df_ok rhs f /\ fyield f = w)).
  - intros n rhs w Hin _ (f & Hf & E). exists (DNode n rhs f). split; [now constructor | split; [reflexivity | exact E]].
  - exists FNil. split; [constructor | reflexivity].
  - intros k rhs w _ (f & Hf & E). exists (FTok k f). split; [now constructor | cbn; now rewrite E].
  - intros k rhs w Hk _ (f & Hf & E). exists (FTok k f). split; [now constructor | cbn; now rewrite E].
  - intros m rhs w1 w2 _ (d & Hd & Er & Ed) _ (f & Hf & E). exists (FSub d f). split; [|cbn; now rewrite Ed, E].
    rewrite <- Er. now constructor.
Qed.
Theorem derives_iff_tree n w : derives n w <-> exists d, dt_ok d /\ root d = n /\ dyield d = w.
Proof. split; [apply derives_tree | intros (d & Hd & <- & <-); now apply tree_derives]. Qed.

(* ---------- the ordered-choice semantics is deterministic ---------- *)
Scheme pegR_mind := Minimality for pegR Sort Prop
  with pegC_mind := Minimality for pegC Sort Prop
  with pegS_mind := Minimality for pegS Sort Prop.

Lemma pegC_inv alts u r : pegC alts u r ->
  match alts with
  | [] => r = RFail
  | a :: rest => (exists r', r = ROk r' /\ pegR a u (ROk r')) \/ (pegR a u RFail /\ pegC rest u r)
  end.
Proof. intros H. inversion H; subst; eauto. Qed.
Lemma pegS_inv steps u r : pegS steps u r ->
  match steps with
  | [] => r = ROk u
  | SConsume k :: rest => (exists u', u = k :: u' /\ pegS rest u' r) \/ (hd_error u <> Some k /\ r = RFail)
  | STry m :: rest => (exists u', pegR m u (ROk u') /\ pegS rest u' r) \/ (pegR m u RFail /\ r = RFail)
  | SCommit m :: rest => exists u', pegR m u (ROk u') /\ pegS rest u' r
  end.
Proof. intros H. inversion H; subst; eauto. Qed.

Theorem pegR_det : forall n u r1, pegR n u r1 -> forall r2, pegR n u r2 -> r1 = r2.
Proof.
  apply (pegR_mind (fun n u r1 => forall r2, pegR n u r2 -> r1 = r2)
                   (fun alts u r1 => forall r2, pegC alts u r2 -> r1 = r2)
                   (fun steps u r1 => forall r2, pegS steps u r2 -> r1 = r2)).
  - intros n alts u r E _ IH r2 H. apply IH. exact (pegR_choice_inv _ _ _ _ E H).
  - intros n steps u r E _ IH r2 H. apply IH. exact (pegR_seq_inv _ _ _ _ E H).
  - intros u N r2 H. apply pegR_group_inv in H. destruct r2 as [|rest]; [reflexivity|].
    destruct H as (u' & -> & _). now contradiction N.
  - intros u _ IH r2 H. apply pegR_group_inv in H. destruct r2 as [|rest]; [reflexivity|].
    destruct H as (u' & E & H). injection E as <-. specialize (IH _ H). discriminate IH.
  - intros u r _ IH r2 H. apply pegR_group_inv in H. destruct r2 as [|rest].
    + destruct H as [N|(u' & E & H)]; [now contradiction N|]. injection E as <-. specialize (IH _ H). discriminate IH.
    + destruct H as (u' & E & H). injection E as <-. specialize (IH _ H). injection IH as <-. reflexivity.
  - intros u N r2 H. apply pegR_if_inv in H. destruct r2 as [|rest]; [reflexivity|].
    destruct H as (u1 & u2 & u3 & -> & _). now contradiction N.
  - intros u1 u2 u3 r _ IH1 _ IH2 _ IH3 r2 H. apply pegR_if_inv in H. destruct r2 as [|rest]; [now contradiction H|].
    destruct H as (v1 & v2 & v3 & E & H1 & H2 & H3). injection E as <-.
    specialize (IH1 _ H1). injection IH1 as <-. specialize (IH2 _ H2). injection IH2 as <-. exact (IH3 _ H3).
  - intros u N r2 H. apply pegR_let_inv in H. destruct r2 as [|rest]; [reflexivity|].
    destruct H as [(u' & u1 & k & u2 & -> & _)|(u1 & k & u2 & -> & _)]; now contradiction N.
  - intros u N1 N2 r2 H. apply pegR_let_inv in H. destruct r2 as [|rest]; [reflexivity|].
    destruct H as [(u' & u1 & k & u2 & E & _)|(u1 & k & u2 & E & _)]; injection E as ->; [now contradiction N1 | now contradiction N2].
  - intros u _ IH r2 H. apply pegR_let_inv in H. destruct r2 as [|rest]; [reflexivity|].
    destruct H as [(u' & u1 & k & u2 & E & H1 & _)|(u1 & k & u2 & E & _)]; [|discriminate E].
    injection E as <-. specialize (IH _ H1). discriminate IH.
  - intros u u1 k u2 r _ IH1 _ IH2 Hk _ IH3 r2 H. apply pegR_let_inv in H. destruct r2 as [|rest].
    + destruct H as [N|[(u' & E & N1 & _)|(u' & E & H)]].
      * now contradiction N.
      * injection E as <-. now contradiction N1.
      * injection E as <-. specialize (IH1 _ H). discriminate IH1.
    + destruct H as [(u' & v1 & k' & v2 & E & H1 & H2 & _ & H3)|(v1 & k' & v2 & E & _)]; [|discriminate E].
      injection E as <-. specialize (IH1 _ H1). injection IH1 as <-. specialize (IH2 _ H2). injection IH2 as <- <-. exact (IH3 _ H3).
  - intros u1 k u2 r _ IH2 Hk _ IH3 r2 H. apply pegR_let_inv in H. destruct r2 as [|rest].
    + destruct H as [N|[(u' & E & _ & N2)|(u' & E & _)]].
      * now contradiction N.
      * injection E as <-. now contradiction N2.
      * discriminate E.
    + destruct H as [(u' & v1 & k' & v2 & E & _)|(v1 & k' & v2 & E & H2 & _ & H3)]; [discriminate E|].
      injection E as <-. specialize (IH2 _ H2). injection IH2 as <- <-. exact (IH3 _ H3).
  - intros u r2 H. apply pegC_inv in H. now subst.
  - intros a alts u r _ IH r2 H. apply pegC_inv in H. destruct H as [(r' & -> & H)|[H _]]; [exact (IH _ H)|].
    specialize (IH _ H). discriminate IH.
  - intros a alts u r _ IH1 _ IH2 r2 H. apply pegC_inv in H. destruct H as [(r' & -> & H)|[_ H]]; [|exact (IH2 _ H)].
    specialize (IH1 _ H). discriminate IH1.
  - intros u r2 H. apply pegS_inv in H. now subst.
  - intros k steps u r _ IH r2 H. apply pegS_inv in H. destruct H as [(u' & E & H)|[N _]]; [|now contradiction N].
    injection E as <-. exact (IH _ H).
  - intros k steps u N r2 H. apply pegS_inv in H. destruct H as [(u' & -> & _)|[_ ->]]; [now contradiction N | reflexivity].
  - intros m steps u u' r _ IH1 _ IH2 r2 H. apply pegS_inv in H. destruct H as [(v & H1 & H2)|[H1 _]].
    + specialize (IH1 _ H1). injection IH1 as <-. exact (IH2 _ H2).
    + specialize (IH1 _ H1). discriminate IH1.
  - intros m steps u _ IH r2 H. apply pegS_inv in H. destruct H as [(v & H1 & _)|[_ ->]]; [|reflexivity].
    specialize (IH _ H1). discriminate IH.
  - intros m steps u u' r _ IH1 _ IH2 r2 H. apply pegS_inv in H. destruct H as (v & H1 & H2).
    specialize (IH1 _ H1). injection IH1 as <-. exact (IH2 _ H2).
Qed.

(* ---------- the tree that a successful parse builds ---------- *)
Definition rhs_group : list gsym := [GT KLeftParen; GN Term; GT KRightParen].
Definition rhs_if : list gsym := [GT KIf; GN Term; GT KThen; GN Term; GT KElse; GN Term].
Definition rhs_let : list gsym := [GT KIdentifier; GT KEquals; GN Term; GTerminator; GN Term].
Definition rhs_let_ann : list gsym := [GT KIdentifier; GT KColon; GN SmallTerm; GT KEquals; GN Term; GTerminator; GN Term].

Inductive pegT : nt -> list tkind -> dtree -> list tkind -> Prop :=
| pt_choice n alts u a c r : skel_fast n = FChoice alts -> pegTC alts u a c r -> pegT n u (DNode n [GN a] (FSub c FNil)) r
| pt_seq n steps u f r : skel_fast n = FSeq steps -> pegTS steps u f r -> pegT n u (DNode n (map erase steps) f) r
| pt_group u c r : pegT Term u c (KRightParen :: r) ->
    pegT Group (KLeftParen :: u) (DNode Group rhs_group (FTok KLeftParen (FSub c (FTok KRightParen FNil)))) r
| pt_if u1 u2 u3 c1 c2 c3 r : pegT Term u1 c1 (KThen :: u2) -> pegT Term u2 c2 (KElse :: u3) -> pegT Term u3 c3 r ->
    pegT If (KIf :: u1) (DNode If rhs_if (FTok KIf (FSub c1 (FTok KThen (FSub c2 (FTok KElse (FSub c3 FNil))))))) r
| pt_let_ann u u1 k u2 ca cd cb r : pegT SmallTerm u ca (KEquals :: u1) -> pegT Term u1 cd (k :: u2) ->
    is_terminator_kind k = true -> pegT Term u2 cb r ->
    pegT Let (KIdentifier :: KColon :: u)
      (DNode Let rhs_let_ann (FTok KIdentifier (FTok KColon (FSub ca (FTok KEquals (FSub cd (FTok k (FSub cb FNil)))))))) r
| pt_let_plain u1 k u2 cd cb r : pegT Term u1 cd (k :: u2) -> is_terminator_kind k = true -> pegT Term u2 cb r ->
    pegT Let (KIdentifier :: KEquals :: u1)
      (DNode Let rhs_let (FTok KIdentifier (FTok KEquals (FSub cd (FTok k (FSub cb FNil)))))) r
with pegTC : list nt -> list tkind -> nt -> dtree -> list tkind -> Prop :=
| ptc_ok a alts u c r : pegT a u c r -> pegTC (a :: alts) u a c r
| ptc_next a alts u b c r : pegR a u RFail -> pegTC alts u b c r -> pegTC (a :: alts) u b c r
with pegTS : list pstep -> list tkind -> dforest -> list tkind -> Prop :=
| pts_nil u : pegTS [] u FNil u
| pts_tok k steps u f r : pegTS steps u f r -> pegTS (SConsume k :: steps) (k :: u) (FTok k f) r
| pts_try m steps u c u' f r : pegT m u c u' -> pegTS steps u' f r -> pegTS (STry m :: steps) u (FSub c f) r
| pts_commit m steps u c u' f r : pegT m u c u' -> pegTS steps u' f r -> pegTS (SCommit m :: steps) u (FSub c f) r.

Scheme pegT_mind := Minimality for pegT Sort Prop
  with pegTC_mind := Minimality for pegTC Sort Prop
  with pegTS_mind := Minimality for pegTS Sort Prop.

(* forgetting the tree *)
Theorem pegT_pegR : forall n u d r, pegT n u d r -> pegR n u (ROk r).
Proof.
  apply (pegT_mind (fun n u d r => pegR n u (ROk r)) (fun alts u a c r => pegC alts u (ROk r))
                   (fun steps u f r => pegS steps u (ROk r))); intros; try (econstructor; eassumption).
Qed.

Lemma pegT_seq' n steps rhs u f r : skel_fast n = FSeq steps -> rhs = map erase steps -> pegTS steps u f r ->
  pegT n u (DNode n rhs f) r.
Proof. intros E -> H. now apply pt_seq. Qed.

(* inversion *)
Lemma pegT_choice_inv n alts u d r : skel_fast n = FChoice alts -> pegT n u d r ->
  exists a c, d = DNode n [GN a] (FSub c FNil) /\ pegTC alts u a c r.
Proof.
  intros E H. inversion H; subst; try (rewrite skel_Group in E; discriminate E); try (rewrite skel_If in E; discriminate E);
    try (rewrite skel_Let in E; discriminate E).
  - rewrite E in H0. injection H0 as <-. eauto.
  - rewrite E in H0. discriminate H0.
Qed.
Lemma pegT_seq_inv n steps u d r : skel_fast n = FSeq steps -> pegT n u d r ->
  exists f, d = DNode n (map erase steps) f /\ pegTS steps u f r.
Proof.
  intros E H. inversion H; subst; try (rewrite skel_Group in E; discriminate E); try (rewrite skel_If in E; discriminate E);
    try (rewrite skel_Let in E; discriminate E).
  - rewrite E in H0. discriminate H0.
  - rewrite E in H0. injection H0 as <-. eauto.
Qed.
Lemma pegT_group_inv u d r : pegT Group u d r ->
  exists u' c, u = KLeftParen :: u' /\ d = DNode Group rhs_group (FTok KLeftParen (FSub c (FTok KRightParen FNil))) /\
               pegT Term u' c (KRightParen :: r).
Proof. intros H. inversion H; subst; try (match goal with E : skel_fast Group = _ |- _ => discriminate E end); eauto. Qed.
Lemma pegT_if_inv u d r : pegT If u d r ->
  exists u1 u2 u3 c1 c2 c3, u = KIf :: u1 /\
    d = DNode If rhs_if (FTok KIf (FSub c1 (FTok KThen (FSub c2 (FTok KElse (FSub c3 FNil)))))) /\
    pegT Term u1 c1 (KThen :: u2) /\ pegT Term u2 c2 (KElse :: u3) /\ pegT Term u3 c3 r.
Proof. intros H. inversion H; subst; try (match goal with E : skel_fast If = _ |- _ => discriminate E end); eauto 12. Qed.
Lemma pegT_let_inv u d r : pegT Let u d r ->
  (exists u' u1 k u2 ca cd cb, u = KIdentifier :: KColon :: u' /\
     d = DNode Let rhs_let_ann (FTok KIdentifier (FTok KColon (FSub ca (FTok KEquals (FSub cd (FTok k (FSub cb FNil))))))) /\
     pegT SmallTerm u' ca (KEquals :: u1) /\ pegT Term u1 cd (k :: u2) /\ is_terminator_kind k = true /\ pegT Term u2 cb r) \/
  (exists u1 k u2 cd cb, u = KIdentifier :: KEquals :: u1 /\
     d = DNode Let rhs_let (FTok KIdentifier (FTok KEquals (FSub cd (FTok k (FSub cb FNil))))) /\
     pegT Term u1 cd (k :: u2) /\ is_terminator_kind k = true /\ pegT Term u2 cb r).
Proof.
  intros H. inversion H; subst; try (match goal with E : skel_fast Let = _ |- _ => discriminate E end); [left | right]; eauto 15.
Qed.
Lemma pegTC_inv alts u b c r : pegTC alts u b c r ->
  match alts with
  | [] => False
  | a :: rest => (b = a /\ pegT a u c r) \/ (pegR a u RFail /\ pegTC rest u b c r)
  end.
Proof. intros H. inversion H; subst; eauto. Qed.
Lemma pegTS_inv steps u f r : pegTS steps u f r ->
  match steps with
  | [] => f = FNil /\ r = u
  | SConsume k :: rest => exists u' f', u = k :: u' /\ f = FTok k f' /\ pegTS rest u' f' r
  | STry m :: rest | SCommit m :: rest => exists c u' f', f = FSub c f' /\ pegT m u c u' /\ pegTS rest u' f' r
  end.
Proof. intros H. inversion H; subst; eauto 8. Qed.

(* the tree is a function of the nonterminal and the input *)
Theorem pegT_det : forall n u d1 r1, pegT n u d1 r1 -> forall d2 r2, pegT n u d2 r2 -> d1 = d2 /\ r1 = r2.
Proof.
  apply (pegT_mind (fun n u d1 r1 => forall d2 r2, pegT n u d2 r2 -> d1 = d2 /\ r1 = r2)
                   (fun alts u a1 c1 r1 => forall a2 c2 r2, pegTC alts u a2 c2 r2 -> a1 = a2 /\ c1 = c2 /\ r1 = r2)
                   (fun steps u f1 r1 => forall f2 r2, pegTS steps u f2 r2 -> f1 = f2 /\ r1 = r2)).
  - intros n alts u a c r E _ IH d2 r2 H. destruct (pegT_choice_inv _ _ _ _ _ E H) as (a2 & c2 & -> & H2).
    destruct (IH _ _ _ H2) as (-> & -> & ->). auto.
  - intros n steps u f r E _ IH d2 r2 H. destruct (pegT_seq_inv _ _ _ _ _ E H) as (f2 & -> & H2).
    destruct (IH _ _ H2) as (-> & ->). auto.
  - intros u c r _ IH d2 r2 H. destruct (pegT_group_inv _ _ _ H) as (u' & c2 & E & -> & H2). injection E as <-.
    destruct (IH _ _ H2) as (-> & E). injection E as <-. auto.
  - intros u1 u2 u3 c1 c2 c3 r _ IH1 _ IH2 _ IH3 d2 r2 H.
    destruct (pegT_if_inv _ _ _ H) as (v1 & v2 & v3 & e1 & e2 & e3 & E & -> & H1 & H2 & H3). injection E as <-.
    destruct (IH1 _ _ H1) as (-> & E). injection E as <-. destruct (IH2 _ _ H2) as (-> & E). injection E as <-.
    destruct (IH3 _ _ H3) as (-> & ->). auto.
  - intros u u1 k u2 ca cd cb r _ IH1 _ IH2 Hk _ IH3 d2 r2 H.
    destruct (pegT_let_inv _ _ _ H) as [(u' & v1 & k' & v2 & ea & ed & eb & E & -> & H1 & H2 & _ & H3)|(v1 & k' & v2 & ed & eb & E & _)];
      [|discriminate E]. injection E as <-.
    destruct (IH1 _ _ H1) as (-> & E). injection E as <-. destruct (IH2 _ _ H2) as (-> & E). injection E as <- <-.
    destruct (IH3 _ _ H3) as (-> & ->). auto.
  - intros u1 k u2 cd cb r _ IH2 Hk _ IH3 d2 r2 H.
    destruct (pegT_let_inv _ _ _ H) as [(u' & v1 & k' & v2 & ea & ed & eb & E & _)|(v1 & k' & v2 & ed & eb & E & -> & H2 & _ & H3)];
      [discriminate E|]. injection E as <-.
    destruct (IH2 _ _ H2) as (-> & E). injection E as <- <-. destruct (IH3 _ _ H3) as (-> & ->). auto.
  - intros a alts u c r Ha IH a2 c2 r2 H. apply pegTC_inv in H. destruct H as [[-> H]|[F _]].
    + destruct (IH _ _ H) as (-> & ->). auto.
    + apply pegT_pegR in Ha. pose proof (pegR_det _ _ _ Ha _ F) as X. discriminate X.
  - intros a alts u b c r F _ IH a2 c2 r2 H. apply pegTC_inv in H. destruct H as [[-> H]|[_ H]]; [|exact (IH _ _ _ H)].
    apply pegT_pegR in H. pose proof (pegR_det _ _ _ H _ F) as X. discriminate X.
  - intros u f2 r2 H. apply pegTS_inv in H. destruct H as [-> ->]. auto.
  - intros k steps u f r _ IH f2 r2 H. apply pegTS_inv in H. destruct H as (u' & f' & E & -> & H). injection E as <-.
    destruct (IH _ _ H) as (-> & ->). auto.
  - intros m steps u c u' f r _ IH1 _ IH2 f2 r2 H. apply pegTS_inv in H. destruct H as (c2 & v & f' & -> & H1 & H2).
    destruct (IH1 _ _ H1) as (-> & ->). destruct (IH2 _ _ H2) as (-> & ->). auto.
  - intros m steps u c u' f r _ IH1 _ IH2 f2 r2 H. apply pegTS_inv in H. destruct H as (c2 & v & f' & -> & H1 & H2).
    destruct (IH1 _ _ H1) as (-> & ->). destruct (IH2 _ _ H2) as (-> & ->). auto.
Qed.

(* what pegT builds is a well-formed derivation tree of what it consumed *)
Lemma erase_in_grammar n steps : skel_fast n = FSeq steps -> In (n, map erase steps) grammar.
Proof. intros E. pose proof (sound_table_all n) as S. unfold sound_table in S. rewrite E in S. now apply prod_in_grammar. Qed.
Lemma alt_in_grammar n alts a : skel_fast n = FChoice alts -> In a alts -> In (n, [GN a]) grammar.
Proof.
  intros E Ha. pose proof (sound_table_all n) as S. unfold sound_table in S. rewrite E in S. rewrite forallb_forall in S.
  apply prod_in_grammar. now apply S.
Qed.

Lemma df_sub' d m rhs f : dt_ok d -> root d = m -> df_ok rhs f -> df_ok (GN m :: rhs) (FSub d f).
Proof. intros H <- Hf. now constructor. Qed.
Ltac df_tac :=
  repeat first [ apply df_nil | apply df_tok | apply df_term; [assumption|] | apply df_sub'; [assumption | assumption |] ].

Theorem pegT_sound : forall n u d r, pegT n u d r -> dt_ok d /\ root d = n /\ u = dyield d ++ r.
Proof.
  apply (pegT_mind (fun n u d r => dt_ok d /\ root d = n /\ u = dyield d ++ r)
                   (fun alts u a c r => In a alts /\ dt_ok c /\ root c = a /\ u = dyield c ++ r)
                   (fun steps u f r => df_ok (map erase steps) f /\ u = fyield f ++ r)).
  - intros n alts u a c r E _ (Ha & Hc & Hr & ->). split; [|split; [reflexivity | cbn [dyield fyield]; now rewrite app_nil_r]].
    constructor; [exact (alt_in_grammar _ _ _ E Ha)|]. df_tac.
  - intros n steps u f r E _ (Hf & ->). split; [|split; reflexivity]. constructor; [exact (erase_in_grammar _ _ E) | exact Hf].
  - intros u c r _ (Hc & Hr & ->). split; [|split; [reflexivity | cbn [dyield fyield app]; rewrite <- app_assoc; reflexivity]].
    constructor; [apply prod_in_grammar; apply special_productions_in_grammar|]. unfold rhs_group. df_tac.
  - intros u1 u2 u3 c1 c2 c3 r _ (H1 & R1 & ->) _ (H2 & R2 & ->) _ (H3 & R3 & ->).
    split; [|split; [reflexivity | cbn [dyield fyield app]; repeat (rewrite <- app_assoc; cbn [app]); rewrite ?app_nil_r; reflexivity]].
    constructor; [apply prod_in_grammar; apply special_productions_in_grammar|]. unfold rhs_if. df_tac.
  - intros u u1 k u2 ca cd cb r _ (H1 & R1 & ->) _ (H2 & R2 & ->) Hk _ (H3 & R3 & ->).
    split; [|split; [reflexivity | cbn [dyield fyield app]; repeat (rewrite <- app_assoc; cbn [app]); rewrite ?app_nil_r; reflexivity]].
    constructor; [apply prod_in_grammar; apply special_productions_in_grammar|]. unfold rhs_let_ann. df_tac.
  - intros u1 k u2 cd cb r _ (H2 & R2 & ->) Hk _ (H3 & R3 & ->).
    split; [|split; [reflexivity | cbn [dyield fyield app]; repeat (rewrite <- app_assoc; cbn [app]); rewrite ?app_nil_r; reflexivity]].
    constructor; [apply prod_in_grammar; apply special_productions_in_grammar|]. unfold rhs_let. df_tac.
  - intros a alts u c r _ (Hc & Hr & E). split; [now left | auto].
  - intros a alts u b c r _ _ (Hb & H). split; [now right | exact H].
  - intros u. split; [constructor | reflexivity].
  - intros k steps u f r _ (Hf & ->). split; [cbn; now constructor | reflexivity].
  - intros m steps u c u' f r _ (Hc & Hr & ->) _ (Hf & ->). split; [|cbn [fyield]; now rewrite app_assoc].
    cbn [map erase]. now apply df_sub'.
  - intros m steps u c u' f r _ (Hc & Hr & ->) _ (Hf & ->). split; [|cbn [fyield]; now rewrite app_assoc].
    cbn [map erase]. now apply df_sub'.
Qed.

(* ---------- every derivation tree is the tree that ordered choice builds ---------- *)
Lemma in_prods n rhs : In (n, rhs) grammar -> In rhs (productions_of n).
Proof.
  intros H. unfold productions_of. apply in_map_iff. exists (n, rhs). split; [reflexivity|]. apply filter_In.
  split; [assumption|]. cbn. now apply nt_eqb_eq.
Qed.
Lemma dt_len d : dt_ok d -> 0 < length (dyield d).
Proof. intros H. exact (derives_len _ _ (tree_derives _ H)). Qed.
Lemma dt_derives d m : dt_ok d -> root d = m -> derives m (dyield d).
Proof. intros H <-. now apply tree_derives. Qed.

Lemma al_pi_fail_all n w rest : lgb n = true -> derives n w ->
  pegR AnnotatedLambda (w ++ rest) RFail /\ pegR Pi (w ++ rest) RFail.
Proof.
  intros Hl D. apply (al_pi_fail (length w * 13)) with (n := n); [|exact Hl | exact D | apply le_n].
  intros n' w' rest' _ D' F'. now apply peg_complete.
Qed.

Lemma medium_stepT u c r : pegT SmallTerm u c r -> hd_error r <> Some KAsterisk -> hd_error r <> Some KSlash ->
  pegT MediumTerm u (DNode MediumTerm [GN SmallTerm] (FSub c FNil)) r.
Proof.
  intros H N1 N2. pose proof (pegT_pegR _ _ _ _ H) as HR. eapply pt_choice; [reflexivity|].
  apply ptc_next; [seq_rule; eapply ps_try; [exact HR|]; apply ps_tok_f; exact N1|].
  apply ptc_next; [seq_rule; eapply ps_try; [exact HR|]; apply ps_tok_f; exact N2|].
  apply ptc_ok. exact H.
Qed.
Lemma large_stepT u c r : pegT MediumTerm u c r -> hd_error u <> Some KMinus ->
  pegT LargeTerm u (DNode LargeTerm [GN MediumTerm] (FSub c FNil)) r.
Proof. intros H N. eapply pt_choice; [reflexivity|]. apply ptc_next; [seq_rule; apply ps_tok_f; exact N|]. apply ptc_ok. exact H. Qed.
Lemma huge_stepT u c r : pegT LargeTerm u c r -> is_addop (hd_error r) = false ->
  pegT HugeTerm u (DNode HugeTerm [GN LargeTerm] (FSub c FNil)) r.
Proof.
  intros H N. pose proof (pegT_pegR _ _ _ _ H) as HR. eapply pt_choice; [reflexivity|].
  apply ptc_next; [seq_rule; eapply ps_try; [exact HR|]; apply ps_tok_f; intros E; rewrite E in N; discriminate N|].
  apply ptc_next; [seq_rule; eapply ps_try; [exact HR|]; apply ps_tok_f; intros E; rewrite E in N; discriminate N|].
  apply ptc_ok. exact H.
Qed.
Lemma giant_stepT u c r : pegT HugeTerm u c r -> is_cmp (hd_error r) = false ->
  pegT GiantTerm u (DNode GiantTerm [GN HugeTerm] (FSub c FNil)) r.
Proof.
  intros H N. pose proof (pegT_pegR _ _ _ _ H) as HR. eapply pt_choice; [reflexivity|].
  do 5 (apply ptc_next; [seq_rule; eapply ps_try; [exact HR|]; apply ps_tok_f; intros E; rewrite E in N; discriminate N|]).
  apply ptc_ok. exact H.
Qed.
Lemma jumbo_stepT u c r : pegT GiantTerm u c r -> pegR Lambda u RFail -> pegR AnnotatedLambda u RFail -> pegR Pi u RFail ->
  hd_error u <> Some KLeftCurly -> hd_error u <> Some KIf -> hd_error r <> Some KThinArrow ->
  pegT JumboTerm u (DNode JumboTerm [GN GiantTerm] (FSub c FNil)) r.
Proof.
  intros H FL FA FP NC NI NR. pose proof (pegT_pegR _ _ _ _ H) as HR. eapply pt_choice; [reflexivity|].
  apply ptc_next; [exact FL|].
  apply ptc_next; [seq_rule; apply ps_tok_f; exact NC|].
  apply ptc_next; [exact FA|].
  apply ptc_next; [seq_rule; apply ps_tok_f; exact NC|].
  apply ptc_next; [exact FP|].
  apply ptc_next; [seq_rule; apply ps_tok_f; exact NC|].
  apply ptc_next; [exact (ndp_fail_giant _ _ HR NR)|].
  apply ptc_next; [apply pg_if_nf; exact NI|].
  apply ptc_ok. exact H.
Qed.
Lemma term_stepT u c r : pegT JumboTerm u c r -> pegR Let u RFail -> pegT Term u (DNode Term [GN JumboTerm] (FSub c FNil)) r.
Proof. intros H F. eapply pt_choice; [reflexivity|]. apply ptc_next; [exact F|]. apply ptc_ok. exact H. Qed.

Ltac inv_df :=
  repeat match goal with
         | H : df_ok (_ :: _) _ |- _ => inversion H; subst; clear H
         | H : df_ok [] _ |- _ => inversion H; subst; clear H
         end.
Ltac fix_roots :=
  repeat match goal with H : root ?d = _, H' : root _ = root ?d |- _ => rewrite H in H' end;
  repeat match goal with H : root ?d = _ |- context [root ?d] => rewrite H end.
Ltac prods Hin :=
  apply in_prods in Hin; vm_compute in Hin; repeat (destruct Hin as [<-|Hin]); [.. | contradiction Hin]; inv_df; fix_roots.
(* expose the production at the root of a subtree d whose nonterminal is known *)
Ltac open_tree d :=
  let n := fresh "n" in let rhs := fresh "rhs" in let f := fresh "f" in
  destruct d as [n rhs f]; cbn [root] in *; subst n;
  match goal with H : dt_ok (DNode _ _ _) |- _ =>
    let Hin := fresh "Hin" in inversion H as [? ? ? Hin ?]; subst; prods Hin end.
Ltac tnorm := cbn [dyield fyield]; rewrite ?app_nil_r; repeat (first [rewrite <- app_assoc | progress cbn [app]]).
Ltac mk_derives :=
  repeat match goal with
         | Hd : dt_ok ?d, Hr : root ?d = ?m |- _ =>
             lazymatch goal with _ : derives m (dyield d) |- _ => fail | _ => pose proof (dt_derives d m Hd Hr) end
         end.
Ltac fo_tac :=
  first [ reflexivity
        | match goal with F : fo _ (hd_error ?r) = true |- fo _ (hd_error ?r) = true =>
            revert F; generalize (hd_error r); intros [[]|]; cbn; congruence end ].
Ltac use_PC := apply peg_complete; [eassumption | fo_tac].

Section StepT.
Variable L : nat.
Hypothesis IHT : forall d m rest, length (dyield d) * 13 + rank m < L -> dt_ok d -> root d = m ->
  fo m (hd_error rest) = true -> pegT m (dyield d ++ rest) d rest.

Ltac lens :=
  repeat match goal with
         | H : dt_ok ?d |- _ => lazymatch goal with _ : 0 < length (dyield d) |- _ => fail | _ => pose proof (dt_len _ H) end
         end;
  cbn [dyield fyield] in *; len_norm; cbn [rank] in *; lia.
Ltac use_IHT := apply IHT; [lens | assumption | assumption | fo_tac].
Ltac seqT := eapply pegT_seq'; [reflexivity | reflexivity |].

Lemma main_stepT d rest : length (dyield d) * 13 + rank (root d) <= L -> dt_ok d -> fo (root d) (hd_error rest) = true ->
  pegT (root d) (dyield d ++ rest) d rest.
Proof.
  intros HL Hd F. destruct d as [n rhs f]. cbn [root] in *. inversion Hd as [n' rhs' f' Hin Hf]; subst. destruct n.
  - (* Term *)
    prods Hin; tnorm.
    + eapply pt_choice; [reflexivity|]. apply ptc_ok. use_IHT.
    + mk_derives. apply term_stepT; [use_IHT|]. apply let_fail.
      match goal with H : derives JumboTerm _ |- _ => apply (chk2f_sound JumboTerm _ _ _ jumbo_not_let H) end. fo_tac.
  - (* Type_ *) prods Hin. seqT. apply pts_tok. apply pts_nil.
  - (* Variable_ *) prods Hin. seqT. apply pts_tok. apply pts_nil.
  - (* Lambda *)
    prods Hin. tnorm. seqT. do 2 apply pts_tok. eapply pts_commit; [use_IHT | apply pts_nil].
  - (* LambdaImplicit *)
    prods Hin. tnorm. seqT. do 4 apply pts_tok. eapply pts_commit; [use_IHT | apply pts_nil].
  - (* AnnotatedLambda *)
    prods Hin. tnorm. seqT. do 3 apply pts_tok. eapply pts_try; [use_IHT|]. do 2 apply pts_tok.
    eapply pts_commit; [use_IHT | apply pts_nil].
  - (* AnnotatedLambdaImplicit *)
    prods Hin. tnorm. seqT. do 3 apply pts_tok. eapply pts_try; [use_IHT|]. do 2 apply pts_tok.
    eapply pts_commit; [use_IHT | apply pts_nil].
  - (* Pi *)
    prods Hin. tnorm. seqT. do 3 apply pts_tok. eapply pts_try; [use_IHT|]. do 2 apply pts_tok.
    eapply pts_commit; [use_IHT | apply pts_nil].
  - (* PiImplicit *)
    prods Hin. tnorm. seqT. do 3 apply pts_tok. eapply pts_try; [use_IHT|]. do 2 apply pts_tok.
    eapply pts_commit; [use_IHT | apply pts_nil].
  - (* NonDependentPi *)
    prods Hin. tnorm. seqT. eapply pts_try; [use_IHT|]. apply pts_tok. eapply pts_commit; [use_IHT | apply pts_nil].
  - (* Application *)
    prods Hin. tnorm. seqT. eapply pts_try; [use_IHT|]. eapply pts_try; [use_IHT | apply pts_nil].
  - (* Let *)
    prods Hin; match goal with H : is_terminator_kind _ = true |- _ => pose proof H as Hk; destruct (terminator_cases _ H) as [->| ->] end; tnorm.
    all: first [ eapply pt_let_plain; [use_IHT | reflexivity | use_IHT]
               | eapply pt_let_ann; [use_IHT | use_IHT | reflexivity | use_IHT] ].
  - (* Integer *) prods Hin. seqT. apply pts_tok. apply pts_nil.
  - (* IntegerLiteral *) prods Hin. seqT. apply pts_tok. apply pts_nil.
  - (* Negation *)
    prods Hin. tnorm. seqT. apply pts_tok. eapply pts_commit; [use_IHT | apply pts_nil].
  - (* Sum *)
    prods Hin. tnorm. seqT. eapply pts_try; [use_IHT|]. apply pts_tok. eapply pts_commit; [use_IHT | apply pts_nil].
  - (* Difference *)
    prods Hin. tnorm. seqT. eapply pts_try; [use_IHT|]. apply pts_tok. eapply pts_commit; [use_IHT | apply pts_nil].
  - (* Product *)
    prods Hin. tnorm. seqT. eapply pts_try; [use_IHT|]. apply pts_tok. eapply pts_commit; [use_IHT | apply pts_nil].
  - (* Quotient *)
    prods Hin. tnorm. seqT. eapply pts_try; [use_IHT|]. apply pts_tok. eapply pts_commit; [use_IHT | apply pts_nil].
  - (* LessThan *)
    prods Hin. tnorm. seqT. eapply pts_try; [use_IHT|]. apply pts_tok. eapply pts_commit; [use_IHT | apply pts_nil].
  - (* LessThanOrEqualTo *)
    prods Hin. tnorm. seqT. eapply pts_try; [use_IHT|]. apply pts_tok. eapply pts_commit; [use_IHT | apply pts_nil].
  - (* EqualTo *)
    prods Hin. tnorm. seqT. eapply pts_try; [use_IHT|]. apply pts_tok. eapply pts_commit; [use_IHT | apply pts_nil].
  - (* GreaterThan *)
    prods Hin. tnorm. seqT. eapply pts_try; [use_IHT|]. apply pts_tok. eapply pts_commit; [use_IHT | apply pts_nil].
  - (* GreaterThanOrEqualTo *)
    prods Hin. tnorm. seqT. eapply pts_try; [use_IHT|]. apply pts_tok. eapply pts_commit; [use_IHT | apply pts_nil].
  - (* Boolean *) prods Hin. seqT. apply pts_tok. apply pts_nil.
  - (* True_ *) prods Hin. seqT. apply pts_tok. apply pts_nil.
  - (* False_ *) prods Hin. seqT. apply pts_tok. apply pts_nil.
  - (* If *)
    prods Hin. tnorm. eapply pt_if; use_IHT.
  - (* Group *)
    prods Hin. tnorm. eapply pt_group. use_IHT.
  - (* Atom *)
    prods Hin; tnorm;
      match goal with Hr : root ?d = ?X |- pegT Atom (dyield ?d ++ _) _ _ =>
        assert (P : pegT X (dyield d ++ rest) d rest) by use_IHT; open_tree d end;
      cbn [dyield fyield app] in *; (eapply pt_choice; [reflexivity|]);
      repeat first [ apply ptc_ok; exact P | apply ptc_next; [tok_fail|] ].
  - (* SmallTerm *)
    prods Hin; tnorm.
    + eapply pt_choice; [reflexivity|]. apply ptc_ok. use_IHT.
    + assert (P : pegT Atom (dyield d ++ rest) d rest) by use_IHT.
      eapply pt_choice; [reflexivity|]. apply ptc_next.
      { seq_rule. eapply ps_try; [exact (pegT_pegR _ _ _ _ P)|]. apply ps_try_f. apply small_fail.
        intros k E; rewrite E in F; destruct k; try reflexivity; discriminate F. }
      apply ptc_ok. exact P.
  - (* MediumTerm *)
    prods Hin; tnorm.
    + eapply pt_choice; [reflexivity|]. apply ptc_ok. use_IHT.
    + assert (P : pegT Quotient (dyield d ++ rest) d rest) by use_IHT.
      open_tree d. mk_derives.
      eapply pt_choice; [reflexivity|]. apply ptc_next.
      { tnorm. seq_rule. eapply ps_try; [use_PC|]. apply ps_tok_f; cbn; discriminate. }
      apply ptc_ok. exact P.
    + apply medium_stepT; [use_IHT | intros E; rewrite E in F; discriminate F | intros E; rewrite E in F; discriminate F].
  - (* LargeTerm *)
    prods Hin; tnorm.
    + eapply pt_choice; [reflexivity|]. apply ptc_ok. use_IHT.
    + mk_derives. apply large_stepT; [use_IHT|]. apply hd_is_false.
      match goal with H : derives MediumTerm _ |- _ => exact (chk2a_sound _ _ _ _ medium_no_minus H) end.
  - (* HugeTerm *)
    prods Hin; tnorm.
    + eapply pt_choice; [reflexivity|]. apply ptc_ok. use_IHT.
    + assert (P : pegT Difference (dyield d ++ rest) d rest) by use_IHT.
      open_tree d. mk_derives.
      eapply pt_choice; [reflexivity|]. apply ptc_next.
      { tnorm. seq_rule. eapply ps_try; [use_PC|]. apply ps_tok_f; cbn; discriminate. }
      apply ptc_ok. exact P.
    + apply huge_stepT; [use_IHT|]. destruct (hd_error rest) as [[]|]; try reflexivity; discriminate F.
  - (* GiantTerm *)
    prods Hin; tnorm;
      try (match goal with Hr : root ?d = ?X |- pegT GiantTerm (dyield ?d ++ _) _ _ =>
             lazymatch X with HugeTerm => fail | _ => idtac end;
             assert (P : pegT X (dyield d ++ rest) d rest) by use_IHT; open_tree d; mk_derives end;
           (eapply pt_choice; [reflexivity|]);
           repeat first [ apply ptc_ok; exact P
                        | apply ptc_next; [tnorm; seq_rule; eapply ps_try; [use_PC|]; apply ps_tok_f; cbn; discriminate|] ]).
    apply giant_stepT; [use_IHT|]. destruct (hd_error rest) as [[]|]; try reflexivity; discriminate F.
  - (* JumboTerm *)
    prods Hin; tnorm.
    + (* Lambda *) eapply pt_choice; [reflexivity|]. apply ptc_ok. use_IHT.
    + (* LambdaImplicit *)
      assert (P : pegT LambdaImplicit (dyield d ++ rest) d rest) by use_IHT.
      open_tree d. cbn [dyield fyield app] in *.
      eapply pt_choice; [reflexivity|]. apply ptc_next; [tok_fail|]. apply ptc_ok. exact P.
    + (* AnnotatedLambda *)
      assert (P : pegT AnnotatedLambda (dyield d ++ rest) d rest) by use_IHT.
      open_tree d. cbn [dyield fyield app] in *.
      eapply pt_choice; [reflexivity|]. do 2 (apply ptc_next; [tok_fail|]). apply ptc_ok. exact P.
    + (* AnnotatedLambdaImplicit *)
      assert (P : pegT AnnotatedLambdaImplicit (dyield d ++ rest) d rest) by use_IHT.
      open_tree d. cbn [dyield fyield app] in *.
      eapply pt_choice; [reflexivity|]. do 3 (apply ptc_next; [tok_fail|]). apply ptc_ok. exact P.
    + (* Pi *)
      assert (P : pegT Pi (dyield d ++ rest) d rest) by use_IHT.
      open_tree d. mk_derives.
      eapply pt_choice; [reflexivity|]. do 2 (apply ptc_next; [cbn [dyield fyield app]; tok_fail|]).
      apply ptc_next.
      { tnorm. seq_rule. do 3 apply ps_tok. eapply ps_try; [use_PC|]. apply ps_tok. apply ps_tok_f. cbn. discriminate. }
      apply ptc_next; [cbn [dyield fyield app]; tok_fail|]. apply ptc_ok. exact P.
    + (* PiImplicit *)
      assert (P : pegT PiImplicit (dyield d ++ rest) d rest) by use_IHT.
      open_tree d. mk_derives.
      eapply pt_choice; [reflexivity|]. do 3 (apply ptc_next; [cbn [dyield fyield app]; tok_fail|]).
      apply ptc_next.
      { tnorm. seq_rule. do 3 apply ps_tok. eapply ps_try; [use_PC|]. apply ps_tok. apply ps_tok_f. cbn. discriminate. }
      apply ptc_next; [cbn [dyield fyield app]; tok_fail|]. apply ptc_ok. exact P.
    + (* NonDependentPi *)
      assert (P : pegT NonDependentPi (dyield d ++ rest) d rest) by use_IHT.
      mk_derives.
      assert (FN : fo NonDependentPi (hd_error rest) = true) by fo_tac.
      match goal with H1 : derives NonDependentPi _ |- _ =>
        pose proof (chk2f_sound NonDependentPi _ _ _ ndp_not_lam H1 FN) as LF;
        pose proof (hd_is_false _ _ (chk2a_sound NonDependentPi _ rest _ ndp_no_curly H1)) as HC;
        destruct (al_pi_fail_all NonDependentPi _ rest eq_refl H1) as [FA FP] end.
      eapply pt_choice; [reflexivity|].
      apply ptc_next; [now apply lambda_fail|].
      apply ptc_next; [seq_rule; apply ps_tok_f; exact HC|].
      apply ptc_next; [exact FA|].
      apply ptc_next; [seq_rule; apply ps_tok_f; exact HC|].
      apply ptc_next; [exact FP|].
      apply ptc_next; [seq_rule; apply ps_tok_f; exact HC|].
      apply ptc_ok. exact P.
    + (* If *)
      assert (P : pegT If (dyield d ++ rest) d rest) by use_IHT.
      open_tree d. cbn [dyield fyield app] in *.
      eapply pt_choice; [reflexivity|]. do 6 (apply ptc_next; [tok_fail|]).
      apply ptc_next; [apply ndp_fail_first; intros k E; cbn in E; injection E as <-; reflexivity|].
      apply ptc_ok. exact P.
    + (* GiantTerm *)
      mk_derives.
      assert (FN : fo GiantTerm (hd_error rest) = true) by fo_tac.
      match goal with H1 : derives GiantTerm _ |- _ =>
        destruct (al_pi_fail_all GiantTerm _ rest eq_refl H1) as [FA FP];
        apply jumbo_stepT;
          [ use_IHT
          | apply lambda_fail; exact (chk2f_sound GiantTerm _ _ _ giant_not_lam H1 FN)
          | exact FA | exact FP
          | exact (hd_is_false _ _ (chk2a_sound GiantTerm _ rest _ giant_no_curly H1))
          | exact (hd_is_false _ _ (chk2a_sound GiantTerm _ rest _ giant_no_if H1))
          | intros E; rewrite E in F; discriminate F ] end.
Qed.
End StepT.

Theorem peg_complete_tree : forall d rest, dt_ok d -> fo (root d) (hd_error rest) = true ->
  pegT (root d) (dyield d ++ rest) d rest.
Proof.
  assert (G : forall L d m rest, length (dyield d) * 13 + rank m = L -> dt_ok d -> root d = m ->
              fo m (hd_error rest) = true -> pegT m (dyield d ++ rest) d rest).
  { induction L as [L IH] using lt_wf_ind. intros d m rest EL Hd <- F.
    apply (main_stepT L); [|rewrite EL; apply le_n | exact Hd | exact F].
    intros d' m' rest' Hlt Hd' Hr' F'. exact (IH _ Hlt d' m' rest' eq_refl Hd' Hr' F'). }
  intros d rest Hd F. exact (G _ d (root d) rest eq_refl Hd eq_refl F).
Qed.

Lemma fo_end n : fo n None = true.
Proof. destruct n; reflexivity. Qed.

(* the grammar assigns at most one derivation tree to a word, whatever the nonterminal *)
Theorem grammar_unambiguous : forall d1 d2, dt_ok d1 -> dt_ok d2 -> root d1 = root d2 -> dyield d1 = dyield d2 -> d1 = d2.
Proof.
  intros d1 d2 H1 H2 Er Ey.
  pose proof (peg_complete_tree d1 [] H1 (fo_end _)) as P1. pose proof (peg_complete_tree d2 [] H2 (fo_end _)) as P2.
  rewrite Er, Ey in P1. exact (proj1 (pegT_det _ _ _ _ P1 _ _ P2)).
Qed.

Corollary sentence_has_unique_tree : forall w, derives Term w ->
  exists d, (dt_ok d /\ root d = Term /\ dyield d = w) /\
            forall d', dt_ok d' -> root d' = Term -> dyield d' = w -> d' = d.
Proof.
  intros w D. destruct (derives_tree _ _ D) as (d & Hd & Hr & Hy). exists d. split; [auto|].
  intros d' Hd' Hr' Hy'. apply grammar_unambiguous; congruence.
Qed.

(* ---------- a checker for well-formedness, and examples ---------- *)
Fixpoint dt_okb (d : dtree) : bool :=
  match d with DNode n rhs f => prod_in n rhs && df_okb rhs f end
with df_okb (rhs : list gsym) (f : dforest) : bool :=
  match f with
  | FNil => match rhs with [] => true | _ => false end
  | FTok k f' => match rhs with
                 | GT k' :: r => tkind_eqb k' k && df_okb r f'
                 | GTerminator :: r => is_terminator_kind k && df_okb r f'
                 | _ => false end
  | FSub d f' => match rhs with GN m :: r => nt_eqb m (root d) && dt_okb d && df_okb r f' | _ => false end
  end.

Scheme dtree_mind := Induction for dtree Sort Prop
  with dforest_mind := Induction for dforest Sort Prop.

Lemma dt_okb_eq n rhs f : dt_okb (DNode n rhs f) = prod_in n rhs && df_okb rhs f.
Proof. reflexivity. Qed.
Lemma df_okb_tok rhs k f : df_okb rhs (FTok k f) =
  match rhs with GT k' :: r => tkind_eqb k' k && df_okb r f | GTerminator :: r => is_terminator_kind k && df_okb r f | _ => false end.
Proof. reflexivity. Qed.
Lemma df_okb_sub rhs d f : df_okb rhs (FSub d f) =
  match rhs with GN m :: r => nt_eqb m (root d) && dt_okb d && df_okb r f | _ => false end.
Proof. reflexivity. Qed.
Lemma df_okb_nil rhs : df_okb rhs FNil = match rhs with [] => true | _ => false end.
Proof. reflexivity. Qed.

Lemma dt_okb_sound : forall d, dt_okb d = true -> dt_ok d.
Proof.
  apply (dtree_mind (fun d => dt_okb d = true -> dt_ok d) (fun f => forall rhs, df_okb rhs f = true -> df_ok rhs f)).
  - intros n rhs f IH H. rewrite dt_okb_eq in H. apply andb_prop in H as [H1 H2]. constructor; [now apply prod_in_grammar | now apply IH].
  - intros rhs H. rewrite df_okb_nil in H. destruct rhs; [constructor | discriminate H].
  - intros k f IH rhs H. rewrite df_okb_tok in H. destruct rhs as [|[k'| |m] r]; try discriminate H; apply andb_prop in H as [H1 H2].
    + apply SoundProofs.tkind_eqb_eq in H1. subst k'. constructor. now apply IH.
    + apply df_term; [exact H1 | now apply IH].
  - intros d IHd f IHf rhs H. rewrite df_okb_sub in H. destruct rhs as [|[k'| |m] r]; try discriminate H.
    apply andb_prop in H as [H H3]. apply andb_prop in H as [H1 H2]. apply nt_eqb_eq in H1. subst m.
    constructor; [now apply IHd | now apply IHf].
Qed.

(* unit productions are part of the tree: the derivation tree of `x` and of `( x )` from Term *)
Fixpoint unit_chain (ns : list nt) (d : dtree) : dtree :=
  match ns with [] => d | n :: r => DNode n [GN (root (unit_chain r d))] (FSub (unit_chain r d) FNil) end.
Definition var_atom : dtree := DNode Atom [GN Variable_] (FSub (DNode Variable_ [GT KIdentifier] (FTok KIdentifier FNil)) FNil).
Definition to_term (atom : dtree) : dtree :=
  unit_chain [Term; JumboTerm; GiantTerm; HugeTerm; LargeTerm; MediumTerm; SmallTerm] atom.
Definition var_term : dtree := to_term var_atom.
Definition group_atom (t : dtree) : dtree :=
  DNode Atom [GN Group] (FSub (DNode Group rhs_group (FTok KLeftParen (FSub t (FTok KRightParen FNil)))) FNil).
(* x - x - x : Difference is right-recursive in the grammar, so the derivation nests to the right *)
Definition var_large : dtree := unit_chain [LargeTerm; MediumTerm; SmallTerm] var_atom.
Definition diff (l h : dtree) : dtree :=
  DNode HugeTerm [GN Difference] (FSub (DNode Difference [GN LargeTerm; GT KMinus; GN HugeTerm] (FSub l (FTok KMinus (FSub h FNil)))) FNil).
Definition sub_sub_term : dtree :=
  unit_chain [Term; JumboTerm; GiantTerm] (diff var_large (diff var_large (DNode HugeTerm [GN LargeTerm] (FSub var_large FNil)))).

Example var_term_ok : dt_ok var_term /\ root var_term = Term /\ dyield var_term = [KIdentifier].
Proof. split; [apply dt_okb_sound; vm_compute; reflexivity | split; reflexivity]. Qed.
Example paren_term_ok : let d := to_term (group_atom var_term) in
  dt_ok d /\ root d = Term /\ dyield d = [KLeftParen; KIdentifier; KRightParen].
Proof. split; [apply dt_okb_sound; vm_compute; reflexivity | split; reflexivity]. Qed.
Example sub_sub_ok : dt_ok sub_sub_term /\ root sub_sub_term = Term /\
  dyield sub_sub_term = [KIdentifier; KMinus; KIdentifier; KMinus; KIdentifier].
Proof. split; [apply dt_okb_sound; vm_compute; reflexivity | split; reflexivity]. Qed.
(* it is THE derivation tree of x - x - x *)
Example sub_sub_unique : forall d, dt_ok d -> root d = Term ->
  dyield d = [KIdentifier; KMinus; KIdentifier; KMinus; KIdentifier] -> d = sub_sub_term.
Proof.
  intros d H R Y. destruct sub_sub_ok as (H' & R' & Y'). apply grammar_unambiguous; congruence.
Qed.
(* the left-nested tree is not a derivation: LargeTerm does not derive a difference *)
Example left_nested_not_ok :
  dt_okb (unit_chain [Term; JumboTerm; GiantTerm]
            (diff (DNode LargeTerm [GN HugeTerm] (FSub (diff var_large (DNode HugeTerm [GN LargeTerm] (FSub var_large FNil))) FNil))
                  (DNode HugeTerm [GN LargeTerm] (FSub var_large FNil)))) = false.
Proof. vm_compute. reflexivity. Qed.

Print Assumptions derives_iff_tree.
Print Assumptions pegT_det.
Print Assumptions peg_complete_tree.
Print Assumptions grammar_unambiguous.
