(* The scan counter of the packrat parser model is bounded: every execution of a parse-function body
   (a memo miss) calls `expect` at most twice (parse_let: 2, parse_if: 2, parse_group: 1, all the
   others: 0), and every `expect` runs the recovery scanner with fuel `S ntoks`, which adds at most
   `S ntoks` scan steps.  Hence  scans <= 2 * (ntoks + 1) * misses  as an invariant of every call
   of `parse` (for every fuel, every nonterminal, every position, every start state, memo on or off),
   and with the miss bound of PackratProofs the scan counter of a memoised run is at most
   2 * (ntoks + 1) * (36 * (ntoks + 1)). *)
From Coq Require Import List ZArith NArith Lia Bool Arith PArith FMapPositive.
Import ListNotations.
Require Import Gram.Model.Term Gram.Model.Token Gram.Model.Grammar Gram.Gen.ParserSkeleton Gram.Model.Parser
  Gram.Proofs.PackratProofs.

Section Scan.
Variable use_memo : bool.
Variable tokmap : PositiveMap.t ptok.
Variable ntoks : nat.
Variable last_tok : option ptok.
Notation error_term' := (error_term tokmap last_tok).
Notation silent_error' := (silent_error tokmap last_tok).
Notation choose' := (choose tokmap last_tok).
Notation run' := (run tokmap last_tok).
Notation expect' := (expect tokmap ntoks).
Notation scan' := (scan tokmap).
Notation parse_let' := (parse_let tokmap ntoks last_tok).
Notation parse_if' := (parse_if tokmap ntoks last_tok).
Notation parse_group' := (parse_group tokmap ntoks last_tok).
Notation parse' := (parse use_memo tokmap ntoks last_tok).

(* ---------- the scanner: at most one step per unit of fuel ---------- *)
Lemma scan_steps want : forall fuel p depth steps,
  snd (scan' fuel want p depth steps) <= steps + fuel.
Proof.
  induction fuel as [|f IH]; intros p depth steps; cbn [scan]; [cbn; lia|].
  destruct (at_ tokmap p) as [t|]; [|cbn; lia].
  assert (S1 : forall q d, snd (scan' f want q d (S steps)) <= steps + S f).
  { intros q d. specialize (IH q d (S steps)). lia. }
  destruct (want (pk t) && Nat.eqb depth 0); [cbn; lia|].
  destruct (pk t); try apply S1; destruct (Nat.eqb depth 0); try apply S1; cbn; lia.
Qed.

Definition W : nat := S ntoks.          (* the cost of one `expect` *)
Definition K : nat := 2 * W.            (* the budget of one body execution *)
Arguments W : simpl never.
Arguments K : simpl never.

(* one `expect`: table and miss counter untouched, at most W more scan steps *)
Lemma expect_scans want p report s :
  let r := expect' want p report s in
  tbl (snd r) = tbl s /\ misses (snd r) = misses s /\ scans s <= scans (snd r) <= scans s + W.
Proof.
  cbv zeta. unfold expect. pose proof (scan_steps want (S ntoks) p 0 0) as R.
  destruct (scan' (S ntoks) want p 0 0) as [[found nx] st]. cbn [fst snd tbl misses scans] in *.
  unfold W. repeat split; lia.
Qed.

(* ---------- the invariant of a call ---------- *)
Definition Sc (s s' : mstate) : Prop := scans s' + K * misses s <= scans s + K * misses s'.

Lemma Sc_refl s : Sc s s.
Proof. unfold Sc. lia. Qed.
Lemma Sc_trans s1 s2 s3 : Sc s1 s2 -> Sc s2 s3 -> Sc s1 s3.
Proof. unfold Sc. lia. Qed.

(* ---------- the body of a parse function: `e` scan steps spent by its own `expect` calls ---------- *)
Section Body.
Variable rec : mrec.
Hypothesis HRec : forall m q s, Sc s (snd (rec m q s)).
Variable s0 : mstate.

Definition Bd (e : nat) (s : mstate) : Prop := scans s + K * misses s0 <= scans s0 + K * misses s + e.

Lemma Bd_weaken e e' s : e <= e' -> Bd e s -> Bd e' s.
Proof. unfold Bd. lia. Qed.

Lemma call_sc e m q s : Bd e s -> Bd e (snd (rec m q s)).
Proof. intros H. pose proof (HRec m q s) as R. unfold Bd, Sc in *. lia. Qed.

Lemma expect_sc e want p report s : Bd e s -> Bd (e + W) (snd (expect' want p report s)).
Proof.
  intros H. pose proof (expect_scans want p report s) as (_ & E2 & E3). cbv zeta in E2, E3.
  unfold Bd in *. rewrite E2. lia.
Qed.

Lemma choose_sc e pos : forall alts s, Bd e s -> Bd e (snd (choose' rec pos alts s)).
Proof.
  induction alts as [|a r IH]; intros s HS; cbn [choose]; [exact HS|].
  pose proof (call_sc e a pos s HS) as Sa.
  destruct (rec a pos s) as [[|t nx c] s']; cbn [fst snd] in *; [exact Sa|].
  destruct (is_perror t); [apply IH; exact Sa | exact Sa].
Qed.

Lemma run_sc e n : forall steps cur acc conf s, Bd e s -> Bd e (snd (run' rec n steps cur acc conf s)).
Proof.
  induction steps as [|st steps IH]; intros cur acc conf s HS; cbn [run]; [exact HS|].
  destruct st as [k|m|m].
  - destruct (is tokmap cur k); [apply IH; exact HS | exact HS].
  - pose proof (call_sc e m cur s HS) as Sm.
    destruct (rec m cur s) as [[|t nx c] s']; cbn [fst snd] in *; [exact Sm|].
    destruct (is_perror t); [exact Sm | apply IH; exact Sm].
  - pose proof (call_sc e m cur s HS) as Sm.
    destruct (rec m cur s) as [[|t nx c] s']; cbn [fst snd] in *; [exact Sm|].
    apply IH; exact Sm.
Qed.

Lemma bind_sc e e' (x : M pres) k s : e <= e' ->
  Bd e (snd (x s)) ->
  (forall t nx c s', Bd e s' -> Bd e' (snd (k t nx c s'))) ->
  Bd e' (snd (bindP x k s)).
Proof.
  intros L Sx Hk. unfold bindP. destruct (x s) as [[|t nx c] s']; cbn [fst snd] in *.
  - eapply Bd_weaken; eassumption.
  - apply Hk; exact Sx.
Qed.

Lemma sub_sc e (found : bool) p s : Bd e s ->
  Bd e (snd ((if found then rec Term p else ret (PRes (silent_error' p) p false)) s)).
Proof. intros HS. destruct found; [now apply call_sc | exact HS]. Qed.

(* parse_group: one `expect` *)
Lemma parse_group_sc start s : Bd 0 s -> Bd W (snd (parse_group' rec start s)).
Proof.
  intros HS. unfold parse_group. destruct (is tokmap start KLeftParen); cbn [negb];
    [|cbn; eapply Bd_weaken; [|exact HS]; lia].
  apply (bind_sc 0); [lia | apply call_sc; exact HS|].
  intros t p1 c s1 S1. destruct (is_perror t).
  - cbn. eapply Bd_weaken; [|exact S1]. lia.
  - pose proof (expect_sc 0 (want_kind KRightParen) p1 c s1 S1) as E.
    destruct (expect' (want_kind KRightParen) p1 c s1) as [[[found p2] phony] s2]. cbn [fst snd] in *.
    destruct (tok_range tokmap last_tok start) as [gs ge0]. destruct (tok_range tokmap last_tok (N.pred p2)) as [gs1 ge].
    cbn [fst snd]. exact E.
Qed.

(* parse_if: two `expect`s *)
Lemma parse_if_sc start s : Bd 0 s -> Bd (2 * W) (snd (parse_if' rec start s)).
Proof.
  intros HS. unfold parse_if. destruct (is tokmap start KIf); cbn [negb];
    [|cbn; eapply Bd_weaken; [|exact HS]; lia].
  destruct (tok_range tokmap last_tok start) as [is_ ie].
  apply (bind_sc 0); [lia | apply call_sc; exact HS|].
  intros c p1 cconf s1 S1.
  pose proof (expect_sc 0 (want_kind KThen) p1 cconf s1 S1) as E.
  destruct (expect' (want_kind KThen) p1 cconf s1) as [[[found_then p2] e1] s2]. cbn [fst snd] in *.
  apply (bind_sc (0 + W)); [lia | apply sub_sc; exact E|].
  intros t p3 tconf s3 S3.
  pose proof (expect_sc _ (want_kind KElse) p3 tconf s3 S3) as F.
  destruct (expect' (want_kind KElse) p3 tconf s3) as [[[found_else p4] e2] s4]. cbn [fst snd] in *.
  apply (bind_sc (0 + W + W)); [lia | apply sub_sc; exact F|].
  intros e p5 econf s5 S5. cbn. eapply Bd_weaken; [|exact S5]. lia.
Qed.

(* the tail of parse_let after the `=`: one `expect` *)
Lemma let_tail_sc e x xs xe ann (eq_found : bool) p3 e1 s : Bd e s ->
  let r := bindP (if eq_found then rec Term p3 else ret (PRes (silent_error' p3) p3 false)) (fun d p4 dconf =>
        fun s =>
        let '((t_found, p5, e2), s1) := expect' want_terminator p4 dconf s in
        bindP (if t_found then rec Term p5 else ret (PRes (silent_error' p5) p5 false)) (fun b p6 bconf =>
          ret (PRes (PLet (mk xs (pre (info b)) false (e1 + e2)) x xs xe ann d b) p6 bconf)) s1) s in
  Bd (e + W) (snd r).
Proof.
  intros HS. cbv zeta.
  apply (bind_sc e); [lia | apply sub_sc; exact HS|].
  intros d p4 dconf s2 S2.
  pose proof (expect_sc e want_terminator p4 dconf s2 S2) as F.
  destruct (expect' want_terminator p4 dconf s2) as [[[t_found p5] e2] s3]. cbn [fst snd] in *.
  apply (bind_sc (e + W)); [lia | apply sub_sc; exact F|].
  intros b p6 bconf s4 S4. cbn. exact S4.
Qed.

(* parse_let: two `expect`s *)
Lemma parse_let_sc start s : Bd 0 s -> Bd (2 * W) (snd (parse_let' rec start s)).
Proof.
  intros HS. unfold parse_let. destruct (is tokmap start KIdentifier); cbn [negb];
    [|cbn; eapply Bd_weaken; [|exact HS]; lia].
  destruct (tok_range tokmap last_tok start) as [xs xe].
  destruct (is tokmap (N.succ start) KColon).
  - apply (bind_sc 0); [lia | apply call_sc; exact HS|].
    intros a p2 c s1 S1. destruct (is_perror a).
    + cbn. eapply Bd_weaken; [|exact S1]. lia.
    + pose proof (expect_sc 0 (want_kind KEquals) p2 c s1 S1) as E.
      destruct (expect' (want_kind KEquals) p2 c s1) as [[[eq_found p3] e1] s2]. cbn [fst snd] in *.
      eapply Bd_weaken; [|apply (let_tail_sc (0 + W)); exact E]. lia.
  - destruct (is tokmap (N.succ start) KEquals); [|cbn; eapply Bd_weaken; [|exact HS]; lia].
    eapply Bd_weaken; [|refine (let_tail_sc 0 (tok_name tokmap start) xs xe None true (N.succ (N.succ start)) 0 s HS)]. lia.
Qed.
End Body.

(* ---------- every call of the parser, whatever the fuel, the start state and the memo switch ---------- *)
Lemma parse_sc : forall f n p s, Sc s (snd (parse' f n p s)).
Proof.
  induction f as [|f IH]; intros n p s; cbn [parse]; [apply Sc_refl|].
  destruct (if use_memo && memoised_fast n then PositiveMap.find (key n p) (tbl s) else None) as [r|];
    [apply Sc_refl|].
  set (s0 := {| tbl := tbl s; misses := S (misses s); scans := scans s |}).
  assert (S00 : Bd s0 0 s0) by (unfold Bd; lia).
  assert (B : forall x : M pres, Bd s0 (2 * W) (snd (x s0)) ->
            Sc s (snd (let '(r, s') := x s0 in (r, if use_memo && memoised_fast n
                   then {| tbl := PositiveMap.add (key n p) r (tbl s'); misses := misses s'; scans := scans s' |} else s')))).
  { intros x Hx. destruct (x s0) as [r s']. cbn [fst snd] in *.
    assert (G : Sc s s') by (unfold Bd, Sc, K, s0 in *; cbn [misses scans] in *; lia).
    destruct (use_memo && memoised_fast n); [|exact G]. unfold Sc in *. cbn [misses scans]. exact G. }
  destruct (skel_fast n) as [alts|steps|].
  - apply (B (choose' (parse' f) p alts)). eapply Bd_weaken; [|apply choose_sc; [exact IH | exact S00]]. lia.
  - apply (B (run' (parse' f) n steps p [] true)). eapply Bd_weaken; [|apply run_sc; [exact IH | exact S00]]. lia.
  - destruct n;
      try (apply (B (fun s => (PRes (error_term' p) p false, s))); cbn [snd]; eapply Bd_weaken; [|exact S00]; lia).
    + apply (B (parse_let' (parse' f) p)). apply parse_let_sc; [exact IH | exact S00].
    + apply (B (parse_if' (parse' f) p)). apply parse_if_sc; [exact IH | exact S00].
    + apply (B (parse_group' (parse' f) p)). eapply Bd_weaken; [|apply parse_group_sc; [exact IH | exact S00]]. lia.
Qed.

(* the invariant, from the empty state: scans <= 2 * (ntoks + 1) * misses *)
Theorem scans_le_misses : forall f n p,
  let s := snd (parse' f n p empty_state) in scans s <= 2 * (ntoks + 1) * misses s.
Proof.
  intros f n p. cbv zeta. pose proof (parse_sc f n p empty_state) as H.
  unfold Sc, K, W in H. cbn [empty_state misses scans] in H.
  replace (ntoks + 1) with (S ntoks) by lia. lia.
Qed.
End Scan.

(* ---------- the theorems on parse_stage1 ---------- *)
(* for both settings of the memo switch: scans <= 2 * (ntoks + 1) * misses *)
Theorem stage1_scans_le_misses : forall toks memo,
  snd (parse_stage1 toks memo) <= 2 * (length toks + 1) * snd (fst (parse_stage1 toks memo)).
Proof.
  intros toks memo. unfold parse_stage1, parse_stage1_.
  pose proof (scans_le_misses memo (tokmap_of toks) (length toks) (last_opt toks) (parse_fuel (length toks)) Term 0%N) as H.
  cbv zeta in H.
  destruct (parse memo (tokmap_of toks) (length toks) (last_opt toks) (parse_fuel (length toks)) Term 0%N empty_state) as [r s].
  cbn [fst snd] in *. exact H.
Qed.

(* the packrat bound for the recovery scanner *)
Theorem packrat_scan_bound : forall toks,
  snd (parse_stage1 toks true) <= 2 * (length toks + 1) * (36 * (length toks + 1)).
Proof.
  intros toks. pose proof (stage1_scans_le_misses toks true) as A. pose proof (packrat_miss_bound toks) as B.
  eapply Nat.le_trans; [exact A|]. apply Nat.mul_le_mono_l. exact B.
Qed.

Print Assumptions scan_steps.
Print Assumptions parse_sc.
Print Assumptions stage1_scans_le_misses.
Print Assumptions packrat_scan_bound.
