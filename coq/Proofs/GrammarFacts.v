(* C07 (completeness half), part 2b: transfer of the computed tables of GrammarTables.v to derivations. *)
From Coq Require Import List ZArith NArith Lia Bool Arith PArith.
Import ListNotations.
Require Import Gram.Model.Token Gram.Model.Grammar Gram.Gen.ParserSkeleton Gram.Gen.GrammarY Gram.Model.Parser.
Require Import Gram.Proofs.ParserProofs Gram.Proofs.PackratProofs Gram.Proofs.SoundProofs Gram.Proofs.PrintProofs.
Require Import Gram.Proofs.GrammarTables.

Lemma firstn2_cons k (w : list tkind) : firstn 2 (k :: w) = firstn 2 (k :: firstn 2 w).
Proof. destruct w as [|a [|b w]]; reflexivity. Qed.
Theorem derives_P2 : forall n w, derives n w -> In (firstn 2 w) (P2 n).
Proof.
  apply (derives_mind (fun n w => In (firstn 2 w) (P2 n)) (fun rhs w => In (firstn 2 w) (rhs2 P2tab rhs))).
  - intros n rhs w Hin _ IH. pose proof P2_closed as C. unfold closed2 in C. rewrite forallb_forall in C.
    specialize (C _ Hin). cbn [fst snd] in C. unfold subset2 in C. rewrite forallb_forall in C. apply mem2_in. now apply C.
  - cbn. auto.
  - intros k rhs w _ IH. cbn [rhs2]. rewrite firstn2_cons. apply in_map_iff. eauto.
  - intros k rhs w Hk _ IH. cbn [rhs2]. rewrite firstn2_cons. apply in_flat_map. exists (firstn 2 w). split; [exact IH|].
    destruct (terminator_cases _ Hk) as [->| ->]; cbn [In]; auto.
  - intros m rhs w1 w2 _ IH1 _ IH2. cbn [rhs2]. cbv zeta. apply in_flat_map. exists (firstn 2 w1). split; [exact IH1|].
    destruct w1 as [|a [|b w1]].
    + apply in_map_iff. exists (firstn 2 w2). split; [destruct w2 as [|x [|y w2]]; reflexivity | exact IH2].
    + cbn [firstn]. apply in_map_iff. exists (firstn 2 w2). split; [|exact IH2]. cbn. destruct w2; reflexivity.
    + cbn. auto.
Qed.

(* ---------- what may follow a nonterminal ---------- *)
Definition FT (c : option tkind) : bool :=
  match c with
  | None => true
  | Some (KLineBreak | KSemicolon | KThen | KElse | KRightParen | KRightCurly) => true
  | _ => false
  end.
Definition is_cmp (c : option tkind) : bool :=
  match c with
  | Some (KLessThan | KLessThanOrEqualTo | KDoubleEquals | KGreaterThan | KGreaterThanOrEqualTo) => true
  | _ => false
  end.
Definition is_addop (c : option tkind) : bool := match c with Some (KPlus | KMinus) => true | _ => false end.
Definition is_small_follow (c : option tkind) : bool :=
  match c with Some (KAsterisk | KSlash | KThinArrow | KEquals) => true | _ => false end.

Definition fo (n : nt) (c : option tkind) : bool :=
  match n with
  | Term | JumboTerm | Lambda | LambdaImplicit | AnnotatedLambda | AnnotatedLambdaImplicit | Pi | PiImplicit
  | NonDependentPi | If | Let | GiantTerm
  | LessThan | LessThanOrEqualTo | EqualTo | GreaterThan | GreaterThanOrEqualTo => FT c
  | HugeTerm | Sum | Difference => FT c || is_cmp c
  | LargeTerm | Negation | MediumTerm | Product | Quotient => FT c || is_cmp c || is_addop c
  | SmallTerm | Application => FT c || is_cmp c || is_addop c || is_small_follow c
  | _ => true
  end.

Definition all_opts : list (option tkind) := None :: map Some all_kinds.
Lemma all_opts_in c : In c all_opts.
Proof. destruct c as [k|]; [|now left]. right. apply in_map. destruct k; cbn; tauto. Qed.

(* the first token of a grammar symbol *)
Definition first_sym (g : gsym) : list (option tkind) :=
  match g with
  | GT k => [Some k]
  | GTerminator => [Some KLineBreak; Some KSemicolon]
  | GN m => map (@hd_error tkind) (P2 m)
  end.
(* FOLLOW is closed: in every production, a nonterminal is followed by what the next symbol starts with,
   the last one by whatever follows the left-hand side; the end of input follows the start symbol *)
Fixpoint fo_rhs (lhs : nt) (rhs : list gsym) : bool :=
  match rhs with
  | [] => true
  | GN m :: r =>
      match r with
      | [] => forallb (fun c => implb (fo lhs c) (fo m c)) all_opts
      | g :: _ => forallb (fo m) (first_sym g)
      end && fo_rhs lhs r
  | _ :: r => fo_rhs lhs r
  end.
Theorem fo_closed : fo Term None = true /\ forallb (fun p : production => fo_rhs (fst p) (snd p)) grammar = true.
Proof. split; vm_compute; reflexivity. Qed.

Lemma fo_sub n m : forallb (fun c => implb (fo n c) (fo m c)) all_opts = true -> forall c, fo n c = true -> fo m c = true.
Proof. intros H c Hc. rewrite forallb_forall in H. specialize (H c (all_opts_in c)). rewrite Hc in H. exact H. Qed.

(* ---------- looking at the first two tokens of a derived word and what follows it ---------- *)
Definition optl (c : option tkind) : list tkind := match c with Some k => [k] | None => [] end.

Lemma look2_eq (w rest : list tkind) : w <> [] -> firstn 2 (w ++ rest) = firstn 2 (firstn 2 w ++ optl (hd_error rest)).
Proof. destruct w as [|a [|b w]]; [intros H; now contradiction H | intros _; destruct rest; reflexivity | reflexivity]. Qed.

Definition chk2 (n : nt) (c : option tkind) (bad : list tkind -> bool) : bool :=
  forallb (fun x => negb (bad (firstn 2 (x ++ optl c)))) (P2 n).
Lemma chk2_sound n w rest bad : derives n w -> chk2 n (hd_error rest) bad = true -> bad (firstn 2 (w ++ rest)) = false.
Proof.
  intros D C. rewrite look2_eq by (now apply derives_nonempty in D). unfold chk2 in C. rewrite forallb_forall in C.
  specialize (C _ (derives_P2 _ _ D)). now apply negb_true_iff in C.
Qed.
Lemma chk2_sound_at n w rest c bad : derives n w -> hd_error rest = c -> chk2 n c bad = true -> bad (firstn 2 (w ++ rest)) = false.
Proof. intros D <- C. now apply (chk2_sound n). Qed.
(* the same for every follower that fo allows *)
Definition chk2f (n : nt) (bad : list tkind -> bool) : bool := forallb (fun c => implb (fo n c) (chk2 n c bad)) all_opts.
Lemma chk2f_sound n w rest bad : chk2f n bad = true -> derives n w -> fo n (hd_error rest) = true -> bad (firstn 2 (w ++ rest)) = false.
Proof.
  intros C D F. apply (chk2_sound n); [exact D|]. unfold chk2f in C. rewrite forallb_forall in C.
  specialize (C _ (all_opts_in (hd_error rest))). rewrite F in C. exact C.
Qed.
(* and whatever follows *)
Definition chk2a (n : nt) (bad : list tkind -> bool) : bool := forallb (fun c => chk2 n c bad) all_opts.
Lemma chk2a_sound n w rest bad : chk2a n bad = true -> derives n w -> bad (firstn 2 (w ++ rest)) = false.
Proof.
  intros C D. apply (chk2_sound n); [exact D|]. unfold chk2a in C. rewrite forallb_forall in C.
  exact (C _ (all_opts_in (hd_error rest))).
Qed.

Definition hd_is (k : tkind) (x : list tkind) : bool := match x with a :: _ => tkind_eqb a k | [] => false end.
Lemma hd_is_false k (u : list tkind) : hd_is k (firstn 2 u) = false -> hd_error u <> Some k.
Proof.
  destruct u as [|a [|b u]]; cbn; try discriminate; intros H E; injection E as ->;
    assert (T : tkind_eqb k k = true) by (now apply Token.tkind_eqb_eq); congruence.
Qed.

(* ---------- the leftmost group of a word that starts with `(` ---------- *)
Definition lgb (n : nt) : bool :=
  match n with
  | Atom | Application | SmallTerm | Product | Quotient | MediumTerm | LargeTerm | Sum | Difference | HugeTerm
  | LessThan | LessThanOrEqualTo | EqualTo | GreaterThan | GreaterThanOrEqualTo | GiantTerm | NonDependentPi => true
  | _ => false
  end.
Definition no_paren_start (m : nt) : bool := forallb (fun x => negb (hd_is KLeftParen x)) (P2 m).
Definition lg_head (rhs : list gsym) : bool :=
  match rhs with
  | GT k :: _ => negb (tkind_eqb k KLeftParen)
  | GN m :: _ => lgb m || nt_eqb m Group || no_paren_start m
  | _ => false
  end.
Theorem lg_table : forallb (fun p : production => implb (lgb (fst p)) (lg_head (snd p))) grammar = true.
Proof. vm_compute. reflexivity. Qed.

Theorem leftmost_group : forall n w, derives n w -> lgb n = true -> hd_error w = Some KLeftParen ->
  exists g w2, w = g ++ w2 /\ derives Group g.
Proof.
  apply (derives_mind (fun n w => lgb n = true -> hd_error w = Some KLeftParen -> exists g w2, w = g ++ w2 /\ derives Group g)
                      (fun rhs w => lg_head rhs = true -> hd_error w = Some KLeftParen -> exists g w2, w = g ++ w2 /\ derives Group g)).
  - intros n rhs w Hin _ IH L H. apply IH; [|exact H]. pose proof lg_table as T. rewrite forallb_forall in T.
    specialize (T _ Hin). cbn [fst snd] in T. rewrite L in T. exact T.
  - discriminate.
  - intros k rhs w _ _ L H. cbn in L, H. injection H as ->. discriminate L.
  - discriminate.
  - intros m rhs w1 w2 D1 IH1 _ _ L H. cbn [lg_head] in L.
    assert (H1 : hd_error w1 = Some KLeftParen).
    { pose proof (derives_nonempty _ _ D1). destruct w1; [contradiction | exact H]. }
    apply orb_prop in L as [L|L]; [apply orb_prop in L as [L|L]|].
    + destruct (IH1 L H1) as (g & w3 & -> & G). exists g, (w3 ++ w2). rewrite app_assoc. auto.
    + apply nt_eqb_eq in L. subst m. exists w1, w2. auto.
    + exfalso. unfold no_paren_start in L. rewrite forallb_forall in L. specialize (L _ (derives_P2 _ _ D1)).
      apply negb_true_iff in L. apply hd_is_false in L. contradiction.
Qed.

(* ---------- the words of some nonterminals, by their productions ---------- *)
Lemma group_inv g : derives Group g -> exists T, g = KLeftParen :: T ++ [KRightParen] /\ derives Term T.
Proof. intros H. inv_derives H. eexists. split; [reflexivity | assumption]. Qed.

Definition bad_let (x : list tkind) : bool :=
  match x with KIdentifier :: KEquals :: _ | KIdentifier :: KColon :: _ => true | _ => false end.
Definition bad_lam (x : list tkind) : bool :=
  match x with KIdentifier :: KThickArrow :: _ => true | _ => false end.

Theorem jumbo_not_let : chk2f JumboTerm bad_let = true.
Proof. vm_compute. reflexivity. Qed.
Theorem jumbo_not_let_end : chk2 JumboTerm None bad_let = true.
Proof. vm_compute. reflexivity. Qed.

(* a term that starts with `id :` is an annotated definition *)
Lemma annotated_let_inv T'' : derives Term (KIdentifier :: KColon :: T'') ->
  exists S T1 k T2, T'' = S ++ KEquals :: T1 ++ k :: T2 /\ derives SmallTerm S /\ derives Term T1 /\
                    is_terminator_kind k = true /\ derives Term T2.
Proof.
  intros H. remember (KIdentifier :: KColon :: T'') as w eqn:Ew. inv_derives H.
  - match goal with E : ?w1 = _ :: _ :: _, H : derives Let ?w1 |- _ => inv_derives H end;
      match goal with E : _ = KIdentifier :: KColon :: _ |- _ => cbn [app] in E; [discriminate E || (injection E as <-)] end.
    eauto 10.
  - exfalso. match goal with E : ?w1 = _, H : derives JumboTerm ?w1 |- _ => subst w1; pose proof (chk2_sound _ _ [] _ H jumbo_not_let_end) as C end.
    rewrite app_nil_r in C. discriminate C.
Qed.
