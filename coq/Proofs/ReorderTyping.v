(* Meaning-preserving rewrites, the ACCEPTANCE half of "reordering definitions within a group":
   typing is stable under renaming of variables by a function compatible with the contexts (Part A),
   hence under the exchange of two adjacent definitions of a group (Part B), for the declarative rules
   has_type, for the hole-free sub-relation tyH, for the simply typed checker checkS (swaps anywhere, sequences
   of swaps) and for the verified checker infer with the SAME fuel (Part C).  No value-ness hypothesis. *)
From Coq Require Import List ZArith Lia Bool Arith Relations.
Import ListNotations.
Require Import Gram.Model.Term Gram.Model.DeBruijn Gram.Model.Eval Gram.Spec.Cbv Gram.Spec.Typing Gram.Oracle.Infer
  Gram.Proofs.DeBruijnLaws Gram.Proofs.CtxProofs Gram.Proofs.WeakenProofs Gram.Proofs.WeakenInfer Gram.Proofs.CbvProofs
  Gram.Proofs.ConflLaws Gram.Proofs.Confluence Gram.Proofs.ConfluenceCons Gram.Proofs.ConfluenceEval Gram.Proofs.ConfluenceDelta
  Gram.Proofs.ConfluenceConvb Gram.Proofs.ConvConsistent Gram.Proofs.ConvProofs
  Gram.Proofs.PGConv Gram.Proofs.PGCtx Gram.Proofs.PGTyping Gram.Proofs.PGPres Gram.Proofs.PreservationGroups
  Gram.Proofs.PGCounter Gram.Proofs.PGSimple Gram.Proofs.ReorderDefs.

(* ------------------------------------------------------------------------------------------- *)
(* Part A.1  The algebra of `rename`                                                            *)
(* ------------------------------------------------------------------------------------------- *)
Definition rnm (r : nat -> nat) (p : term * term) : term * term := let '(a, d) := p in (rename r a, rename r d).

Lemma rename_let r ds b :
  rename r (TLet ds b) = TLet (map (rnm (upn (length ds) r)) ds) (rename (upn (length ds) r) b).
Proof. reflexivity. Qed.

Lemma map_rnm_ext (f g : term -> term) (ds : list (term * term)) :
  Forall (fun p => f (fst p) = g (fst p) /\ f (snd p) = g (snd p)) ds ->
  map (fun p : term * term => let '(a, d) := p in (f a, f d)) ds =
  map (fun p : term * term => let '(a, d) := p in (g a, g d)) ds.
Proof. induction 1 as [|[a d] l [Ha Hd] _ IH]; cbn [map fst snd] in *; [reflexivity|]. now rewrite Ha, Hd, IH. Qed.

Lemma rename_ext : forall t r r2, (forall j, r j = r2 j) -> rename r t = rename r2 t.
Proof.
  induction t using term_ind'; intros r r2 E; cbn [rename]; try reflexivity.
  - now rewrite E.
  - f_equal; [apply IHt1 | apply IHt2]; auto using up_ext.
  - f_equal; [apply IHt1 | apply IHt2]; auto using up_ext.
  - f_equal; auto.
  - f_equal; [|apply IHt; now apply upn_ext].
    apply map_rnm_ext. eapply Forall_impl; [|exact H]. intros [a d] [Ha Hd]; cbn [fst snd] in *.
    split; [apply Ha | apply Hd]; now apply upn_ext.
  - f_equal; auto.
  - f_equal; auto.
  - f_equal; auto.
Qed.

Lemma rename_id : forall t r, (forall j, r j = j) -> rename r t = t.
Proof.
  induction t using term_ind'; intros r E; cbn [rename]; try reflexivity.
  - now rewrite E.
  - f_equal; [apply IHt1 | apply IHt2]; auto using up_id.
  - f_equal; [apply IHt1 | apply IHt2]; auto using up_id.
  - f_equal; auto.
  - f_equal; [|apply IHt; now apply upn_id].
    rewrite <- (map_id ds) at 2. apply map_ext_Forall. eapply Forall_impl; [|exact H].
    intros [a d] [Ha Hd]; cbn [fst snd] in *. f_equal; [apply Ha | apply Hd]; now apply upn_id.
  - f_equal; auto.
  - f_equal; auto.
  - f_equal; auto.
Qed.

Lemma up_comp r r2 j : up r (up r2 j) = up (fun x => r (r2 x)) j.
Proof. destruct j; reflexivity. Qed.
Lemma upn_comp n r r2 j : upn n r (upn n r2 j) = upn n (fun x => r (r2 x)) j.
Proof.
  unfold upn. destruct (Nat.ltb_spec j n).
  - destruct (Nat.ltb_spec j n); [reflexivity | lia].
  - destruct (Nat.ltb_spec (n + r2 (j - n)) n); [lia|]. do 2 f_equal. lia.
Qed.

Lemma rename_comp : forall t r r2, rename r (rename r2 t) = rename (fun j => r (r2 j)) t.
Proof.
  induction t using term_ind'; intros r r2; cbn [rename]; try reflexivity.
  - f_equal; [apply IHt1|]. rewrite IHt2. apply rename_ext. intros j. apply up_comp.
  - f_equal; [apply IHt1|]. rewrite IHt2. apply rename_ext. intros j. apply up_comp.
  - f_equal; auto.
  - rewrite map_length, map_map. f_equal.
    + apply map_ext_Forall. eapply Forall_impl; [|exact H]. intros [a d] [Ha Hd]; cbn [fst snd] in *.
      rewrite Ha, Hd. f_equal; apply rename_ext; intros j; apply upn_comp.
    + rewrite IHt. apply rename_ext. intros j. apply upn_comp.
  - f_equal; auto.
  - f_equal; auto.
  - f_equal; auto.
Qed.

(* renaming and shifting *)
Lemma up_idx_SS j c n : up_idx (S j) (S c) n = S (up_idx j c n).
Proof. unfold up_idx. cbn [Nat.leb]. destruct (Nat.leb c j); lia. Qed.
Lemma up_idx_plus m j c n : up_idx (m + j) (m + c) n = m + up_idx j c n.
Proof. unfold up_idx. destruct (Nat.leb_spec (m + c) (m + j)), (Nat.leb_spec c j); lia. Qed.
Lemma upn_lt n r j : j < n -> upn n r j = j.
Proof. intros H. unfold upn. destruct (Nat.ltb_spec j n); lia. Qed.
Lemma upn_ge n r j : upn n r (n + j) = n + r j.
Proof. unfold upn. destruct (Nat.ltb_spec (n + j) n); [lia|]. do 2 f_equal. lia. Qed.
Lemma upn_cases n r j : (j < n /\ upn n r j = j) \/ (exists j', j = n + j' /\ upn n r j = n + r j').
Proof.
  destruct (Nat.lt_ge_cases j n) as [H|H]; [left; split; auto using upn_lt|].
  right. exists (j - n). split; [lia|]. replace j with (n + (j - n)) at 1 by lia. apply upn_ge.
Qed.

Lemma rename_ushift : forall t r r2 c n, (forall j, r2 (up_idx j c n) = up_idx (r j) c n) ->
  rename r2 (ushift t c n) = ushift (rename r t) c n.
Proof.
  induction t using term_ind'; intros r r2 c n E; cbn [rename ushift]; try reflexivity.
  - now rewrite E.
  - f_equal; [now apply IHt1|]. apply IHt2. intros [|j]; [reflexivity|].
    rewrite up_idx_SS. cbn [up]. rewrite up_idx_SS. now rewrite E.
  - f_equal; [now apply IHt1|]. apply IHt2. intros [|j]; [reflexivity|].
    rewrite up_idx_SS. cbn [up]. rewrite up_idx_SS. now rewrite E.
  - f_equal; auto.
  - rewrite !map_length, !map_map.
    assert (E' : forall j, upn (length ds) r2 (up_idx j (length ds + c) n) = up_idx (upn (length ds) r j) (length ds + c) n).
    { intros j. destruct (upn_cases (length ds) r j) as [[Hj ->]|(j' & -> & ->)].
      - rewrite !up_idx_lt by lia. now apply upn_lt.
      - rewrite !up_idx_plus, upn_ge. now rewrite E. }
    f_equal; [|now apply IHt].
    apply map_ext_Forall. eapply Forall_impl; [|exact H]. intros [a d] [Ha Hd]; cbn [fst snd] in *.
    f_equal; [now apply Ha | now apply Hd].
  - f_equal; auto.
  - f_equal; auto.
  - f_equal; auto.
Qed.

(* a renaming that fixes everything a shifted term can mention *)
Lemma rename_ushift_fix t r c n : (forall j, r (up_idx j c n) = up_idx j c n) -> rename r (ushift t c n) = ushift t c n.
Proof. intros E. rewrite (rename_ushift t (fun j => j) r c n E). now rewrite rename_id. Qed.

Lemma open_idx_S j i : open_idx (S j) (S i) = S (open_idx j i).
Proof. unfold open_idx. destruct (Nat.ltb_spec (S i) (S j)), (Nat.ltb_spec i j); lia. Qed.
Lemma open_idx_plus m j i : open_idx (m + j) (m + i) = m + open_idx j i.
Proof.
  unfold open_idx. destruct (Nat.ltb_spec (m + i) (m + j)), (Nat.ltb_spec i j); lia.
Qed.
Lemma open_idx_lt j i : j < i -> open_idx j i = j.
Proof. intros H. unfold open_idx. destruct (Nat.ltb_spec i j); lia. Qed.

(* renaming and opening: r is the renaming after the variable i was removed, rp the one before, rs the one of
   the context of the substituted term *)
Definition open_compat (r rp : nat -> nat) (i : nat) : Prop :=
  rp i = i /\ forall j, j <> i -> rp j <> i /\ r (open_idx j i) = open_idx (rp j) i.

Lemma open_compat_up r rp i : open_compat r rp i -> open_compat (up r) (up rp) (S i).
Proof.
  intros [H1 H2]. split; [cbn [up]; now rewrite H1|].
  intros [|j] Hj; cbn [up]; [split; [lia | reflexivity]|].
  destruct (H2 j ltac:(lia)) as [K1 K2]. split; [lia|].
  rewrite !open_idx_S. cbn [up]. now rewrite K2.
Qed.

Lemma open_compat_upn m r rp i : open_compat r rp i -> open_compat (upn m r) (upn m rp) (m + i).
Proof.
  intros [H1 H2]. split; [rewrite upn_ge; now rewrite H1|].
  intros j Hj. destruct (upn_cases m rp j) as [[Hl E]|(j' & -> & E)]; rewrite E.
  - split; [lia|]. rewrite !open_idx_lt by lia. now apply upn_lt.
  - destruct (H2 j' ltac:(lia)) as [K1 K2]. split; [lia|]. rewrite !open_idx_plus, upn_ge. now rewrite K2.
Qed.

Lemma rename_open : forall t r rp rs i s k, open_compat r rp i -> (forall j, r (j + k) = rs j + k) ->
  rename r (open t i s k) = open (rename rp t) i (rename rs s) k.
Proof.
  induction t using term_ind'; intros r rp rs i0 s0 k HC H3; cbn [rename open]; try reflexivity.
  - destruct HC as [H1 H2]. destruct (Nat.eqb_spec i i0) as [->|Hne].
    + rewrite H1, Nat.eqb_refl. apply rename_ushift. intros j. unfold up_idx. cbn [Nat.leb]. apply H3.
    + destruct (H2 _ Hne) as [K1 K2]. destruct (Nat.eqb_spec (rp i) i0); [contradiction|]. cbn [rename]. now rewrite K2.
  - f_equal; [now apply IHt1|]. apply IHt2; [now apply open_compat_up|].
    intros j. replace (j + S k) with (S (j + k)) by lia. cbn [up]. rewrite H3. lia.
  - f_equal; [now apply IHt1|]. apply IHt2; [now apply open_compat_up|].
    intros j. replace (j + S k) with (S (j + k)) by lia. cbn [up]. rewrite H3. lia.
  - f_equal; auto.
  - rewrite !map_length, !map_map. set (m := length ds).
    assert (A3 : forall j, upn m r (j + (m + k)) = rs j + (m + k)).
    { intros j. replace (j + (m + k)) with (m + (j + k)) by lia. rewrite upn_ge, H3. lia. }
    f_equal; [|apply IHt; auto using open_compat_upn].
    apply map_ext_Forall. eapply Forall_impl; [|exact H]. intros [a d] [Ha Hd]; cbn [fst snd] in *.
    f_equal; [apply Ha | apply Hd]; auto using open_compat_upn.
  - f_equal; auto.
  - f_equal; auto.
  - f_equal; auto.
Qed.

Lemma oc_beta r : open_compat r (up r) 0.
Proof.
  split; [reflexivity|]. intros [|j] Hj; [lia|]. cbn [up]. split; [lia|].
  unfold open_idx. destruct (Nat.ltb_spec 0 (S j)), (Nat.ltb_spec 0 (S (r j))); try lia.
  replace (S j - 1) with j by lia. lia.
Qed.

Lemma oc_upn idx r : open_compat (upn idx r) (upn (S idx) r) idx.
Proof.
  split; [apply upn_lt; lia|]. intros j Hj.
  destruct (upn_cases (S idx) r j) as [[Hl E]|(j' & -> & E)]; rewrite E.
  - split; [lia|]. rewrite !open_idx_lt by lia. apply upn_lt. lia.
  - split; [lia|]. unfold open_idx. destruct (Nat.ltb_spec idx (S idx + j')), (Nat.ltb_spec idx (S idx + r j')); try lia.
    replace (S idx + j' - 1) with (idx + j') by lia. rewrite upn_ge. lia.
Qed.

Lemma rename_open0 r b a : rename r (open b 0 a 0) = open (rename (up r) b) 0 (rename r a) 0.
Proof. apply rename_open; [apply oc_beta|]. intros j. now rewrite !Nat.add_0_r. Qed.

Lemma rename_open_upn r t idx s : rename (upn idx r) (open t idx s 0) = open (rename (upn (S idx) r) t) idx (rename (upn idx r) s) 0.
Proof. apply rename_open; [apply oc_upn|]. intros j. now rewrite !Nat.add_0_r. Qed.

Lemma rename_unfold_first r ann d idx :
  rename (upn idx r) (unfold_first ann d idx) = unfold_first (rename (upn (S idx) r) ann) (rename (upn (S idx) r) d) idx.
Proof.
  unfold unfold_first. rewrite rename_open_upn. f_equal. cbn [rename length map]. 
  assert (K : forall t, rename (upn 1 (upn idx r)) (open (ushift t 0 1) (S idx) (TVar 0) 0) =
                        open (ushift (rename (upn (S idx) r) t) 0 1) (S idx) (TVar 0) 0).
  { intros t. rewrite (rename_open (ushift t 0 1) (upn 1 (upn idx r)) (upn 1 (upn (S idx) r)) (upn 1 (upn idx r)) (S idx) (TVar 0) 0).
    - f_equal. apply rename_ushift. intros j. unfold up_idx. cbn [Nat.leb].
      replace (j + 1) with (1 + j) by lia. rewrite upn_ge. lia.
    - exact (open_compat_upn 1 _ _ idx (oc_upn idx r)).
    - intros j. now rewrite !Nat.add_0_r. }
  now rewrite !K.
Qed.

Lemma let_subst_rename : forall k n i ds ds' body r,
  length ds = n -> length ds' = n ->
  (forall j, i <= j -> nth_error ds' j = option_map (rnm (upn (n - i) r)) (nth_error ds j)) ->
  let_subst k n i ds' (rename (upn (n - i) r) body) = rename (upn (n - i - k) r) (let_subst k n i ds body).
Proof.
  induction k as [|k IH]; intros n i ds ds' body r L1 L2 Hn; cbn [let_subst].
  - now rewrite Nat.sub_0_r.
  - rewrite (Hn i (le_n i)). destruct (nth_error ds i) as [[ann def]|] eqn:E; cbn [option_map rnm].
    + assert (Hi : i < n) by (rewrite <- L1; apply nth_error_Some; congruence).
      set (idx := n - 1 - i). replace (n - i) with (S idx) in * by lia. unfold unfold_def.
      rewrite <- (rename_unfold_first r ann def idx).
      set (u := unfold_first ann def idx).
      rewrite <- (rename_open_upn r body idx u).
      assert (Eidx : n - S i = idx) by lia.
      pose proof (IH n (S i) (open_from 0 i idx u ds) (open_from 0 i idx (rename (upn idx r) u) ds')
                    (open body idx u 0) r) as K.
      rewrite Eidx in K. cbn [Nat.sub]. apply K; clear K.
      * now rewrite open_from_length.
      * now rewrite open_from_length.
      * intros j Hj. rewrite !nth_error_open_from. cbn [Nat.add].
        destruct (Nat.ltb_spec j i); [lia|]. rewrite (Hn j) by lia.
        destruct (nth_error ds j) as [[a d]|] eqn:Ej; cbn [option_map rnm]; [|reflexivity].
        now rewrite !rename_open_upn.
    + assert (Hi : n <= i) by (rewrite <- L1; apply nth_error_None; exact E).
      replace (n - i) with 0 by lia. reflexivity.
Qed.

Lemma upn0 r j : upn 0 r j = r j.
Proof. unfold upn. cbn [Nat.ltb Nat.leb]. now rewrite Nat.sub_0_r. Qed.
Lemma upn_up r j : upn 1 r j = up r j.
Proof.
  destruct j; [reflexivity|]. unfold upn. cbn [up]. destruct (Nat.ltb_spec (S j) 1); [lia|].
  replace (S j - 1) with j by lia. reflexivity.
Qed.
Lemma upn_S n r j : upn (S n) r j = up (upn n r) j.
Proof.
  destruct j as [|j]; [reflexivity|]. cbn [up]. unfold upn.
  destruct (Nat.ltb_spec (S j) (S n)), (Nat.ltb_spec j n); try lia. reflexivity.
Qed.
Lemma upn_add m n r j : upn m (upn n r) j = upn (m + n) r j.
Proof.
  destruct (upn_cases m (upn n r) j) as [[Hl E]|(j' & -> & E)]; rewrite E.
  - symmetry. apply upn_lt. lia.
  - destruct (upn_cases n r j') as [[Hl' E']|(j2 & -> & E')]; rewrite E'.
    + symmetry. apply upn_lt. lia.
    + replace (m + (n + j2)) with (m + n + j2) by lia. rewrite upn_ge. lia.
Qed.

Theorem rename_let_whnf_body r ds b :
  rename r (let_whnf_body ds b) = let_whnf_body (map (rnm (upn (length ds) r)) ds) (rename (upn (length ds) r) b).
Proof.
  unfold let_whnf_body. rewrite map_length.
  pose proof (let_subst_rename (length ds) (length ds) 0 ds (map (rnm (upn (length ds) r)) ds) b r) as K.
  rewrite Nat.sub_0_r, Nat.sub_diag in K. rewrite K; auto using map_length.
  - apply rename_ext. intros j. now rewrite upn0.
  - intros j _. apply nth_error_map.
Qed.

Lemma map_shp_rnm n m r ds :
  map (rnm (upn n (upn m r))) (map (shp n m) ds) = map (shp n m) (map (rnm (upn n r)) ds).
Proof.
  rewrite !map_map. apply map_ext. intros [a d]. cbn [shp rnm].
  assert (K : forall t, rename (upn n (upn m r)) (ushift t n m) = ushift (rename (upn n r) t) n m).
  { intros t. apply rename_ushift. intros j.
    destruct (upn_cases n r j) as [[Hl E]|(j' & -> & E)]; rewrite E.
    - rewrite !up_idx_lt by lia. apply upn_lt. lia.
    - rewrite !up_idx_ge by lia. replace (n + j' + m) with (n + (m + j')) by lia. rewrite upn_ge, upn_ge. lia. }
  now rewrite !K.
Qed.

Lemma group_type_rename : forall k n ds i acc r, length ds = n -> i + k <= n ->
  group_type n (map (rnm (upn n r)) ds) i k (rename (upn (n - i) r) acc) = rename (upn (n - i - k) r) (group_type n ds i k acc).
Proof.
  induction k as [|k IH]; intros n ds i acc r L Hk; cbn [group_type].
  - now rewrite Nat.sub_0_r.
  - rewrite !group_sh_eq. set (m := n - 1 - i).
    replace (n - i - S k) with (n - S i - k) by lia. rewrite <- (IH n ds (S i)) by (auto; lia). f_equal.
    replace (n - S i) with m by lia.
    rewrite (rename_open acc (upn m r) (upn (n - i) r) (upn m r) 0 (TLet (map (shp n m) ds) (TVar i)) 0).
    + f_equal. rewrite rename_let, !map_length, L. rewrite map_shp_rnm. f_equal. cbn [rename]. f_equal. symmetry. apply upn_lt. lia.
    + replace (n - i) with (S m) by lia. split; [reflexivity|]. intros j Hj.
      destruct (oc_beta (upn m r)) as [_ K]. destruct (K j Hj) as [K1 K2]. rewrite upn_S. auto.
    + intros j. now rewrite !Nat.add_0_r.
Qed.

Corollary group_type_rename0 r ds B :
  rename r (group_type (length ds) ds 0 (length ds) B) =
  group_type (length ds) (map (rnm (upn (length ds) r)) ds) 0 (length ds) (rename (upn (length ds) r) B).
Proof.
  pose proof (group_type_rename (length ds) (length ds) ds 0 B r eq_refl (le_n _)) as K.
  rewrite Nat.sub_0_r, Nat.sub_diag in K. rewrite K. apply rename_ext. intros j. now rewrite upn0.
Qed.

(* ------------------------------------------------------------------------------------------- *)
(* Part A.2  Contexts related by a renaming; red, conv and has_type are stable                   *)
(* ------------------------------------------------------------------------------------------- *)
Record Ren (r : nat -> nat) (G G' : ctx) : Prop := {
  ren_wf : wf_offsets G;
  ren_wf' : wf_offsets G';
  ren_ty : forall j, lookup_ty G' (r j) = option_map (rename r) (lookup_ty G j);
  ren_def : forall j, lookup_def G' (r j) = option_map (rename r) (lookup_def G j) }.

Lemma Ren_ext r r2 G G' : (forall j, r j = r2 j) -> Ren r G G' -> Ren r2 G G'.
Proof.
  intros E [W W' HT HD]. split; auto; intros j; rewrite <- E.
  - rewrite HT. destruct (lookup_ty G j); cbn [option_map]; [|reflexivity]. f_equal. now apply rename_ext.
  - rewrite HD. destruct (lookup_def G j); cbn [option_map]; [|reflexivity]. f_equal. now apply rename_ext.
Qed.

Lemma Ren_id G : wf_offsets G -> Ren (fun j => j) G G.
Proof.
  intros W. split; auto; intros j.
  - destruct (lookup_ty G j); cbn [option_map]; [|reflexivity]. now rewrite rename_id.
  - destruct (lookup_def G j); cbn [option_map]; [|reflexivity]. now rewrite rename_id.
Qed.

Lemma rename_up_shift1 r t : rename (up r) (ushift t 0 1) = ushift (rename r t) 0 1.
Proof. apply rename_ushift. intros j. unfold up_idx. cbn [Nat.leb]. rewrite !Nat.add_1_r. reflexivity. Qed.

Lemma rename_upn_shift n r t : rename (upn n r) (ushift t 0 n) = ushift (rename r t) 0 n.
Proof.
  apply rename_ushift. intros j. unfold up_idx. cbn [Nat.leb]. replace (j + n) with (n + j) by lia.
  rewrite upn_ge. lia.
Qed.

Lemma Ren_bind r G G' A : Ren r G G' -> Ren (up r) (bind G A) (bind G' (rename r A)).
Proof.
  intros [W W' HT HD]. split; auto using wf_offsets_bind.
  - intros [|j]; cbn [up].
    + unfold lookup_ty, bind. cbn [nth_error option_map]. now rewrite rename_up_shift1.
    + unfold bind. rewrite !lookup_ty_cons_S by assumption. rewrite HT.
      destruct (lookup_ty G j); cbn [option_map]; [|reflexivity]. now rewrite rename_up_shift1.
  - intros [|j]; cbn [up].
    + reflexivity.
    + unfold bind. rewrite !lookup_def_cons_S by assumption. rewrite HD.
      destruct (lookup_def G j); cbn [option_map]; [|reflexivity]. now rewrite rename_up_shift1.
Qed.

Lemma ann_at_rnm r ds z : ann_at (map (rnm r) ds) z = option_map (rename r) (ann_at ds z).
Proof. unfold rnm. apply ann_at_map. Qed.
Lemma def_at_rnm r ds z : def_at (map (rnm r) ds) z = option_map (rename r) (def_at ds z).
Proof.
  unfold def_at. rewrite map_length, nth_error_map.
  destruct (nth_error ds (length ds - 1 - z)) as [[a d]|]; reflexivity.
Qed.

Lemma lk_ty_enter_ge ds G n j : length ds = n -> wf_offsets G ->
  lookup_ty (enter ds G) (n + j) = option_map (fun T => ushift T 0 n) (lookup_ty G j).
Proof. intros <- W. now apply lookup_ty_enter_ge. Qed.
Lemma lk_def_enter_ge ds G n j : length ds = n -> wf_offsets G ->
  lookup_def (enter ds G) (n + j) = option_map (fun T => ushift T 0 n) (lookup_def G j).
Proof. intros <- W. now apply lookup_def_enter_ge. Qed.
Lemma lk_ty_enter_o_ge ds G n j : length ds = n -> wf_offsets G ->
  lookup_ty (enter_o ds G) (n + j) = option_map (fun T => ushift T 0 n) (lookup_ty G j).
Proof. intros <- W. now apply lookup_ty_enter_o_ge. Qed.
Lemma lk_def_enter_o_ge ds G n j : length ds = n -> wf_offsets G ->
  lookup_def (enter_o ds G) (n + j) = option_map (fun T => ushift T 0 n) (lookup_def G j).
Proof. intros <- W. now apply lookup_def_enter_o_ge. Qed.

Lemma Ren_enter r G G' ds : Ren r G G' ->
  Ren (upn (length ds) r) (enter ds G) (enter (map (rnm (upn (length ds) r)) ds) G').
Proof.
  intros [W W' HT HD]. set (n := length ds).
  assert (Ln : length (map (rnm (upn n r)) ds) = n) by apply map_length.
  split; auto using wf_offsets_enter; intros j.
  - destruct (upn_cases n r j) as [[Hl E]|(j' & -> & E)]; rewrite E.
    + rewrite !lookup_ty_enter_lt by (rewrite ?Ln; exact Hl). apply ann_at_rnm.
    + rewrite (lk_ty_enter_ge _ G' n _ Ln W'), (lk_ty_enter_ge ds G n j' eq_refl W), HT.
      destruct (lookup_ty G j'); cbn [option_map]; [|reflexivity]. now rewrite rename_upn_shift.
  - destruct (upn_cases n r j) as [[Hl E]|(j' & -> & E)]; rewrite E.
    + rewrite !lookup_def_enter_lt by (rewrite ?Ln; exact Hl). apply def_at_rnm.
    + rewrite (lk_def_enter_ge _ G' n _ Ln W'), (lk_def_enter_ge ds G n j' eq_refl W), HD.
      destruct (lookup_def G j'); cbn [option_map]; [|reflexivity]. now rewrite rename_upn_shift.
Qed.

Lemma Ren_enter_o r G G' ds : Ren r G G' ->
  Ren (upn (length ds) r) (enter_o ds G) (enter_o (map (rnm (upn (length ds) r)) ds) G').
Proof.
  intros [W W' HT HD]. set (n := length ds).
  assert (Ln : length (map (rnm (upn n r)) ds) = n) by apply map_length.
  split; auto using wf_offsets_enter_o; intros j.
  - destruct (upn_cases n r j) as [[Hl E]|(j' & -> & E)]; rewrite E.
    + rewrite !lookup_ty_enter_o_lt by (rewrite ?Ln; exact Hl). apply ann_at_rnm.
    + rewrite (lk_ty_enter_o_ge _ G' n _ Ln W'), (lk_ty_enter_o_ge ds G n j' eq_refl W), HT.
      destruct (lookup_ty G j'); cbn [option_map]; [|reflexivity]. now rewrite rename_upn_shift.
  - destruct (upn_cases n r j) as [[Hl E]|(j' & -> & E)]; rewrite E.
    + rewrite !lookup_def_enter_o_lt by (rewrite ?Ln; exact Hl). reflexivity.
    + rewrite (lk_def_enter_o_ge _ G' n _ Ln W'), (lk_def_enter_o_ge ds G n j' eq_refl W), HD.
      destruct (lookup_def G j'); cbn [option_map]; [|reflexivity]. now rewrite rename_upn_shift.
Qed.

Lemma arith_rename o x y res r : arith o x y = Some res -> rename r res = res.
Proof.
  destruct o; cbn; try (intros [= <-]; reflexivity);
    try (intros [= <-]; match goal with |- context[if ?b then _ else _] => destruct b end; reflexivity).
  destruct (y =? 0)%Z; [discriminate|]. intros [= <-]. reflexivity.
Qed.

Lemma red_rename G a b : red G a b -> forall r G', Ren r G G' -> red G' (rename r a) (rename r b).
Proof.
  induction 1; intros r0 G' R; cbn [rename]; try (constructor; eauto; fail).
  - rewrite rename_open0. apply r_beta.
  - apply r_delta. rewrite (ren_def _ _ _ R), H. reflexivity.
  - rewrite rename_let_whnf_body. apply r_let.
  - rewrite (arith_rename _ _ _ _ r0 H). now apply r_bin.
Qed.

Lemma conv2s_length G ds ds' : conv2s G ds ds' -> length ds = length ds'.
Proof. induction 1; cbn; auto. Qed.

Lemma conv2_rename_mut : forall G,
  (forall a b, conv2 G a b -> forall r G', Ren r G G' -> conv2 G' (rename r a) (rename r b)) /\
  (forall ds ds', conv2s G ds ds' -> forall r G', Ren r G G' -> conv2s G' (map (rnm r) ds) (map (rnm r) ds')).
Proof.
  apply (conv2_mutind (fun G a b => forall r G', Ren r G G' -> conv2 G' (rename r a) (rename r b))
                      (fun G ds ds' => forall r G', Ren r G G' -> conv2s G' (map (rnm r) ds) (map (rnm r) ds')));
    intros; cbn [rename map rnm]; eauto using conv2, conv2s, red_rename, Ren_bind.
  rewrite <- (conv2s_length _ _ _ H). fold (rnm (upn (length ds) r)).
  change (map (fun p : term * term => let '(a, x) := p in (rename (upn (length ds) r) a, rename (upn (length ds) r) x)))
    with (map (rnm (upn (length ds) r))).
  apply c2_let; [apply H0 | apply H2]; now apply Ren_enter_o.
Qed.

Theorem conv_rename G a b r G' : Ren r G G' -> conv G a b -> conv G' (rename r a) (rename r b).
Proof. intros R C. apply conv_iff_conv2. apply conv_iff_conv2 in C. eapply (proj1 (conv2_rename_mut G)); eauto. Qed.

Lemma bin_ty_rename o r : rename r (bin_ty o) = bin_ty o.
Proof. destruct o; reflexivity. Qed.

Theorem has_type_rename G t T : has_type G t T -> forall r G', Ren r G G' -> has_type G' (rename r t) (rename r T).
Proof.
  intros H. induction H using has_type_ind2; intros r0 G' R; cbn [rename]; try (constructor; eauto using Ren_bind; fail).
  - apply t_var. rewrite (ren_ty _ _ _ R), H. reflexivity.
  - rewrite rename_open0. eapply t_app; [exact (IHhas_type1 _ _ R) | eauto].
  - rewrite group_type_rename0.
    change (map (fun p : term * term => let '(a, x) := p in (rename (upn (length ds) r0) a, rename (upn (length ds) r0) x)) ds)
      with (map (rnm (upn (length ds) r0)) ds).
    pose proof (Ren_enter r0 G G' ds R) as Re.
    pose proof (t_let G' (map (rnm (upn (length ds) r0)) ds) (rename (upn (length ds) r0) b) (rename (upn (length ds) r0) B)) as K.
    rewrite map_length in K. apply K; [|eauto].
    apply Forall_forall. intros p Hp. apply in_map_iff in Hp as ([a d] & <- & Hin).
    rewrite Forall_forall in H0. destruct (H0 _ Hin) as [K1 K2]. cbn [rnm fst snd] in *. split; eauto.
  - rewrite bin_ty_rename. constructor; eauto.
  - eapply t_conv; [eauto | eapply conv_rename; eauto].
Qed.

(* ------------------------------------------------------------------------------------------- *)
(* Part B.1  Exchanging two adjacent definitions of a group: the declarative rules              *)
(* ------------------------------------------------------------------------------------------- *)
Lemma split_at {A} i (l : list A) x y post : skipn i l = x :: y :: post ->
  l = firstn i l ++ x :: y :: post /\ length (firstn i l) = i /\ length l = i + 2 + length post.
Proof.
  intros E. pose proof (firstn_skipn i l) as K. rewrite E in K.
  assert (Li : i <= length l).
  { destruct (Nat.le_gt_cases i (length l)); [assumption|]. rewrite skipn_all2 in E by lia. discriminate. }
  assert (Lf : length (firstn i l) = i) by (rewrite firstn_length; lia).
  split; [now symmetry|]. split; [exact Lf|]. rewrite <- K at 1. rewrite app_length, Lf. cbn [length]. lia.
Qed.

Lemma firstn_skipn_exact {A} (l1 l2 : list A) : firstn (length l1) (l1 ++ l2) = l1 /\ skipn (length l1) (l1 ++ l2) = l2.
Proof. induction l1 as [|a l1 [IH1 IH2]]; cbn [length firstn skipn app]; [auto|]. now rewrite IH1, IH2. Qed.

(* the exchanged list, before renaming *)
Definition perm2 {A} (pre : list A) (x y : A) (post : list A) : list A := pre ++ y :: x :: post.

Lemma nth_perm2 {A} (pre : list A) x y post p :
  nth_error (perm2 pre x y post) p = nth_error (pre ++ x :: y :: post) (swp (length pre) p).
Proof.
  unfold perm2, swp. destruct (Nat.eqb_spec p (length pre)) as [->|N1].
  - rewrite !nth_error_app2 by lia. rewrite Nat.sub_diag. replace (S (length pre) - length pre) with 1 by lia. reflexivity.
  - destruct (Nat.eqb_spec p (S (length pre))) as [->|N2].
    + rewrite !nth_error_app2 by lia. rewrite Nat.sub_diag. replace (S (length pre) - length pre) with 1 by lia. reflexivity.
    + destruct (Nat.lt_ge_cases p (length pre)).
      * now rewrite !nth_error_app1 by lia.
      * rewrite !nth_error_app2 by lia. destruct (p - length pre) as [|[|q]] eqn:E; try lia. reflexivity.
Qed.

Lemma perm2_length {A} (pre : list A) x y post : length (perm2 pre x y post) = length (pre ++ x :: y :: post).
Proof. unfold perm2. rewrite !app_length. reflexivity. Qed.

Lemma perm2_In {A} (pre : list A) x y post p : In p (perm2 pre x y post) -> In p (pre ++ x :: y :: post).
Proof. unfold perm2. rewrite !in_app_iff. cbn [In]. tauto. Qed.

Lemma swap_defs_eq i ds b x y post : skipn i ds = x :: y :: post ->
  swap_defs i (TLet ds b) =
  TLet (map (rnm (swp (length post))) (perm2 (firstn i ds) x y post)) (rename (swp (length post)) b).
Proof.
  intros E. cbn [swap_defs]. rewrite E. unfold perm2. rewrite map_app. cbn [map]. reflexivity.
Qed.

Lemma swap_defs_short i ds b : (forall x y post, skipn i ds <> x :: y :: post) -> swap_defs i (TLet ds b) = TLet ds b.
Proof.
  intros H. cbn [swap_defs]. destruct (skipn i ds) as [|x [|y post]] eqn:E; try reflexivity. exfalso. eapply H; eauto.
Qed.

(* the index arithmetic: position p of the list is variable n - 1 - p of the group *)
Lemma swp_pos_var i a n j : n = i + 2 + a -> j < n -> swp i (n - 1 - swp a j) = n - 1 - j.
Proof.
  intros -> Hj. unfold swp.
  destruct (Nat.eqb_spec j a) as [->|N1].
  - replace (i + 2 + a - 1 - S a) with i by lia. rewrite Nat.eqb_refl. lia.
  - destruct (Nat.eqb_spec j (S a)) as [->|N2].
    + replace (i + 2 + a - 1 - a) with (S i) by lia. destruct (Nat.eqb_spec (S i) i); [lia|].
      rewrite Nat.eqb_refl. lia.
    + destruct (Nat.eqb_spec (i + 2 + a - 1 - j) i); [lia|].
      destruct (Nat.eqb_spec (i + 2 + a - 1 - j) (S i)); lia.
Qed.

Lemma ann_at_perm2 pre (x y : term * term) post j : j < length (pre ++ x :: y :: post) ->
  ann_at (perm2 pre x y post) (swp (length post) j) = ann_at (pre ++ x :: y :: post) j.
Proof.
  intros Hj. unfold ann_at. rewrite perm2_length, nth_perm2.
  rewrite (swp_pos_var (length pre) (length post) _ j); auto. rewrite app_length. cbn [length]. lia.
Qed.
Lemma def_at_perm2 pre (x y : term * term) post j : j < length (pre ++ x :: y :: post) ->
  def_at (perm2 pre x y post) (swp (length post) j) = def_at (pre ++ x :: y :: post) j.
Proof.
  intros Hj. unfold def_at. rewrite perm2_length, nth_perm2.
  rewrite (swp_pos_var (length pre) (length post) _ j); auto. rewrite app_length. cbn [length]. lia.
Qed.

Lemma swp_ge a j : S a < j -> swp a j = j.
Proof. intros H. unfold swp. destruct (Nat.eqb_spec j a); [lia|]. destruct (Nat.eqb_spec j (S a)); lia. Qed.

Lemma rename_swp_shift a n t : S a < n -> rename (swp a) (ushift t 0 n) = ushift t 0 n.
Proof. intros H. apply rename_ushift_fix. intros j. unfold up_idx. cbn [Nat.leb]. apply swp_ge. lia. Qed.

(* the two group contexts are related by the exchange of the two variables *)
Lemma Ren_swap G pre x y post : wf_offsets G ->
  let ds := pre ++ x :: y :: post in
  let ds' := map (rnm (swp (length post))) (perm2 pre x y post) in
  Ren (swp (length post)) (enter ds G) (enter ds' G) /\ Ren (swp (length post)) (enter_o ds G) (enter_o ds' G).
Proof.
  intros W ds ds'. set (a := length post). set (n := length ds).
  assert (Ln : n = length pre + 2 + a) by (unfold n, ds; rewrite app_length; cbn [length]; lia).
  assert (Ln' : length ds' = n) by (unfold ds'; rewrite map_length, perm2_length; reflexivity).
  assert (Ha : S a < n) by lia.
  split; split; auto using wf_offsets_enter, wf_offsets_enter_o; intros j.
  - destruct (Nat.lt_ge_cases j n) as [Hj|Hj].
    + rewrite !lookup_ty_enter_lt by (rewrite ?Ln'; try apply swp_lt; auto).
      unfold ds'. rewrite ann_at_rnm. unfold a. now rewrite ann_at_perm2.
    + rewrite swp_ge by lia. replace j with (n + (j - n)) by lia.
      rewrite (lk_ty_enter_ge ds' G n _ Ln' W), (lk_ty_enter_ge ds G n _ eq_refl W).
      destruct (lookup_ty G (j - n)); cbn [option_map]; [|reflexivity]. now rewrite rename_swp_shift.
  - destruct (Nat.lt_ge_cases j n) as [Hj|Hj].
    + rewrite !lookup_def_enter_lt by (rewrite ?Ln'; try apply swp_lt; auto).
      unfold ds'. rewrite def_at_rnm. unfold a. now rewrite def_at_perm2.
    + rewrite swp_ge by lia. replace j with (n + (j - n)) by lia.
      rewrite (lk_def_enter_ge ds' G n _ Ln' W), (lk_def_enter_ge ds G n _ eq_refl W).
      destruct (lookup_def G (j - n)); cbn [option_map]; [|reflexivity]. now rewrite rename_swp_shift.
  - destruct (Nat.lt_ge_cases j n) as [Hj|Hj].
    + rewrite !lookup_ty_enter_o_lt by (rewrite ?Ln'; try apply swp_lt; auto).
      unfold ds'. rewrite ann_at_rnm. unfold a. now rewrite ann_at_perm2.
    + rewrite swp_ge by lia. replace j with (n + (j - n)) by lia.
      rewrite (lk_ty_enter_o_ge ds' G n _ Ln' W), (lk_ty_enter_o_ge ds G n _ eq_refl W).
      destruct (lookup_ty G (j - n)); cbn [option_map]; [|reflexivity]. now rewrite rename_swp_shift.
  - destruct (Nat.lt_ge_cases j n) as [Hj|Hj].
    + rewrite !lookup_def_enter_o_lt by (rewrite ?Ln'; try apply swp_lt; auto). reflexivity.
    + rewrite swp_ge by lia. replace j with (n + (j - n)) by lia.
      rewrite (lk_def_enter_o_ge ds' G n _ Ln' W), (lk_def_enter_o_ge ds G n _ eq_refl W).
      destruct (lookup_def G (j - n)); cbn [option_map]; [|reflexivity]. now rewrite rename_swp_shift.
Qed.

(* the swapped list of definitions and the type the rule t_let gives to the swapped group *)
Definition swapped_ds (i : nat) (ds : list (term * term)) : list (term * term) :=
  match skipn i ds with
  | x :: y :: post => map (rnm (swp (length post))) (perm2 (firstn i ds) x y post)
  | _ => ds
  end.
Definition swapped_ty (i : nat) (ds : list (term * term)) (B : term) : term :=
  match skipn i ds with
  | x :: y :: post => group_type (length ds) (swapped_ds i ds) 0 (length ds) (rename (swp (length post)) B)
  | _ => group_type (length ds) ds 0 (length ds) B
  end.

Theorem swap_defs_typing_root G i ds b B : wf_offsets G ->
  Forall (fun p => has_type (enter ds G) (fst p) TType /\ has_type (enter ds G) (snd p) (fst p)) ds ->
  has_type (enter ds G) b B ->
  has_type G (swap_defs i (TLet ds b)) (swapped_ty i ds B).
Proof.
  intros W HF Hb. unfold swapped_ty, swapped_ds.
  destruct (skipn i ds) as [|x [|y post]] eqn:E;
    try (rewrite swap_defs_short by (intros ? ? ? K; rewrite E in K; discriminate K); now apply t_let).
  rewrite (swap_defs_eq _ _ _ _ _ _ E).
  destruct (split_at _ _ _ _ _ E) as (Eds & Lf & Ln).
  set (pre := firstn i ds) in *. set (a := length post) in *.
  destruct (Ren_swap G pre x y post W) as [R _]. rewrite <- Eds in R. fold a in R.
  set (ds' := map (rnm (swp a)) (perm2 pre x y post)) in *.
  assert (Ln' : length ds' = length ds).
  { unfold ds'. rewrite map_length, perm2_length. now rewrite <- Eds. }
  rewrite <- Ln'. apply t_let; [|eapply has_type_rename; eauto].
  apply Forall_forall. intros p Hp. unfold ds' in Hp. apply in_map_iff in Hp as ([u v] & <- & Hin).
  apply perm2_In in Hin. rewrite <- Eds in Hin. rewrite Forall_forall in HF. destruct (HF _ Hin) as [K1 K2].
  cbn [rnm fst snd] in *. split.
  - exact (has_type_rename _ _ _ K1 _ _ R).
  - exact (has_type_rename _ _ _ K2 _ _ R).
Qed.

(* acceptance: a typable group stays typable; its type is the one of the rule, for the swapped group *)
Theorem swap_defs_typing G i ds b T : wf_offsets G -> has_type G (TLet ds b) T ->
  exists B, conv G (group_type (length ds) ds 0 (length ds) B) T /\
            has_type G (swap_defs i (TLet ds b)) (swapped_ty i ds B).
Proof.
  intros W H. apply gen_let in H as (B & HF & Hb & C). exists B. split; [exact C|]. now apply swap_defs_typing_root.
Qed.

(* when the result type does not mention the group, it is the SAME type *)
Theorem swap_defs_typing_closed G i ds b B0 : wf_offsets G -> hole_free B0 = true ->
  Forall (fun p => has_type (enter ds G) (fst p) TType /\ has_type (enter ds G) (snd p) (fst p)) ds ->
  has_type (enter ds G) b (ushift B0 0 (length ds)) ->
  has_type G (TLet ds b) B0 /\ has_type G (swap_defs i (TLet ds b)) B0.
Proof.
  intros W HB HF Hb.
  assert (K0 : forall ds0, group_type (length ds) ds0 0 (length ds) (ushift B0 0 (length ds)) = B0).
  { intros ds0. pose proof (group_type_closed (length ds) ds0 (length ds) 0 B0 0 HB) as K.
    now rewrite Nat.add_0_r, ushift_zero in K. }
  split.
  - rewrite <- (K0 ds). now apply t_let.
  - pose proof (swap_defs_typing_root G i ds b _ W HF Hb) as K. unfold swapped_ty in K.
    destruct (skipn i ds) as [|x [|y post]] eqn:E; try (now rewrite K0 in K).
    destruct (split_at _ _ _ _ _ E) as (_ & _ & Ln).
    rewrite rename_swp_shift in K by lia. now rewrite K0 in K.
Qed.

(* the exchange is an involution, so the converse statements are instances *)
Lemma rnm_swp_invol a p : rnm (swp a) (rnm (swp a) p) = p.
Proof.
  destruct p as [u v]. cbn [rnm]. rewrite !rename_comp.
  f_equal; apply rename_id; intros j; apply swp_invol.
Qed.

Theorem swap_defs_invol i ds b : swap_defs i (swap_defs i (TLet ds b)) = TLet ds b.
Proof.
  destruct (skipn i ds) as [|x [|y post]] eqn:E;
    try (rewrite !swap_defs_short by (intros ? ? ? K; rewrite E in K; discriminate K); reflexivity).
  destruct (split_at _ _ _ _ _ E) as (Eds & Lf & Ln).
  rewrite (swap_defs_eq _ _ _ _ _ _ E). set (a := length post). set (f := rnm (swp a)).
  unfold perm2. rewrite map_app. cbn [map].
  assert (E2 : skipn i (map f (firstn i ds) ++ f y :: f x :: map f post) = f y :: f x :: map f post).
  { rewrite <- Lf at 1. rewrite <- (map_length f (firstn i ds)). apply firstn_skipn_exact. }
  assert (E3 : firstn i (map f (firstn i ds) ++ f y :: f x :: map f post) = map f (firstn i ds)).
  { rewrite <- Lf at 1. rewrite <- (map_length f (firstn i ds)). apply firstn_skipn_exact. }
  rewrite (swap_defs_eq _ _ _ _ _ _ E2). rewrite E3, map_length. fold a. fold f.
  unfold perm2. rewrite map_app. cbn [map]. rewrite !map_map.
  assert (Ff : forall p, f (f p) = p) by (intros p; apply rnm_swp_invol).
  rewrite !Ff. rewrite (map_ext _ (fun p => p)) by exact Ff. rewrite (map_ext (fun p => f (f p)) (fun p => p)) by exact Ff.
  rewrite !map_id. rewrite rename_comp, rename_id by (intros j; apply swp_invol).
  now rewrite <- Eds.
Qed.

Corollary swap_defs_typable_iff G i ds b : wf_offsets G ->
  (exists T, has_type G (TLet ds b) T) <-> (exists T, has_type G (swap_defs i (TLet ds b)) T).
Proof.
  intros W. split; intros (T & H).
  - destruct (swap_defs_typing G i ds b T W H) as (B & _ & K). eauto.
  - destruct (skipn i ds) as [|x [|y post]] eqn:E;
      try (rewrite swap_defs_short in H by (intros ? ? ? K; rewrite E in K; discriminate K); eauto).
    pose proof H as H'. rewrite (swap_defs_eq _ _ _ _ _ _ E) in H'.
    destruct (swap_defs_typing G i _ _ T W H') as (B & _ & K).
    rewrite <- (swap_defs_eq _ _ _ _ _ _ E), swap_defs_invol in K. eauto.
Qed.

(* ------------------------------------------------------------------------------------------- *)
(* Part B.2  The same for the sub-relation tyH: the exchange keeps the SAME type                 *)
(* ------------------------------------------------------------------------------------------- *)
Lemma hole_free_rename : forall t r, hole_free (rename r t) = hole_free t.
Proof.
  induction t using term_ind'; intros r; cbn [rename hole_free]; try reflexivity;
    rewrite ?IHt, ?IHt1, ?IHt2, ?IHt3; try reflexivity.
  f_equal. rewrite forallb_map'. apply forallb_ext_Forall'.
  eapply Forall_impl; [|exact H]. intros [a d] [Ha Hd]; cbn [fst snd] in *. now rewrite Ha, Hd.
Qed.

Lemma Ren_gb as0 : forall j r H H', Ren (upn j r) H H' ->
  Ren (upn (j + length as0) r) (gb as0 j H) (gb (map (rename r) as0) j H').
Proof.
  induction as0 as [|a l IH]; intros j r H H' R; cbn [gb map length].
  - now rewrite Nat.add_0_r.
  - replace (j + S (length l)) with (S j + length l) by lia. apply IH.
    apply (Ren_ext (up (upn j r))); [intros x; symmetry; apply upn_S|].
    rewrite <- (rename_upn_shift j r a). now apply Ren_bind.
Qed.

Theorem tyH_rename G t T : tyH G t T -> forall r G', Ren r G G' -> tyH G' (rename r t) (rename r T).
Proof.
  induction 1; intros r0 G' R; cbn [rename]; try (constructor; eauto using Ren_bind; fail).
  - apply h_var; [|now rewrite hole_free_rename]. rewrite (ren_ty _ _ _ R), H. reflexivity.
  - rewrite rename_open0. eapply h_app; [exact (IHtyH1 _ _ R) | eauto].
  - (* let1 *)
    cbn [length map]. rewrite rename_open0. cbn [rename length map]. rewrite (upn_lt 1 r0 0) by lia.
    rewrite (rename_ext B (up r0) (upn 1 r0)) by (intros j; symmetry; apply upn_up).
    pose proof (Ren_enter r0 G G' [(a, d)] R) as Re. unfold enter in Re. cbn [push_group length map rnm Nat.sub] in Re.
    apply h_let1; eauto.
  - (* letn *)
    assert (Rg : Ren (upn (length ds) r0) (gb as0 0 G) (gb (map (rename r0) as0) 0 G')).
    { rewrite <- H. apply (Ren_gb as0 0 r0 G G'). apply (Ren_ext r0); [intros j; symmetry; apply upn0 | exact R]. }
    apply (h_letn G' (map (rename r0) as0)); rewrite ?map_length; auto.
    + intros j a' d' a0' E E0. apply nth_error_map_inv in E as ([a d] & E & [= -> ->]).
      apply nth_error_map_inv in E0 as (a0 & E0 & ->). rewrite (H0 _ _ _ _ E E0). apply rename_upn_shift.
    + intros j a' d' E. apply nth_error_map_inv in E as ([a d] & E & [= -> ->]). exact (H2 _ _ _ E _ _ Rg).
    + intros j a' d' E. apply nth_error_map_inv in E as ([a d] & E & [= -> ->]). exact (H4 _ _ _ E _ _ Rg).
    + rewrite <- rename_upn_shift. exact (IHtyH _ _ Rg).
  - rewrite bin_ty_rename. constructor; eauto.
  - eapply h_conv; [eauto | eapply conv_rename; eauto | now rewrite hole_free_rename].
Qed.

Lemma lookup_ty_gb_lt' as0 G z : z < length as0 ->
  lookup_ty (gb as0 0 G) z = option_map (fun a0 => ushift a0 0 (length as0)) (nth_error as0 (length as0 - 1 - z)).
Proof.
  intros Hz. destruct (nth_error as0 (length as0 - 1 - z)) as [a0|] eqn:E; [|apply nth_error_None in E; lia].
  pose proof (lookup_ty_gb_lt as0 0 G _ a0 E) as K. replace (length as0 - 1 - (length as0 - 1 - z)) with z in K by lia.
  exact K.
Qed.

Lemma Ren_swap_gb G (pre : list term) x y post : wf_offsets G ->
  Ren (swp (length post)) (gb (pre ++ x :: y :: post) 0 G) (gb (perm2 pre x y post) 0 G).
Proof.
  intros W. set (a := length post). set (l := pre ++ x :: y :: post). set (n := length l).
  assert (Ln : n = length pre + 2 + a) by (unfold n, l; rewrite app_length; cbn [length]; lia).
  assert (Ln' : length (perm2 pre x y post) = n) by apply perm2_length.
  assert (Ha : S a < n) by lia.
  split; auto using wf_offsets_gb; intros j.
  - destruct (Nat.lt_ge_cases j n) as [Hj|Hj].
    + rewrite !lookup_ty_gb_lt' by (rewrite ?Ln'; try apply swp_lt; auto). rewrite Ln', nth_perm2.
      fold l. fold n. rewrite (swp_pos_var (length pre) a n j Ln Hj).
      destruct (nth_error l (n - 1 - j)); cbn [option_map]; [|reflexivity]. now rewrite rename_swp_shift.
    + rewrite swp_ge by lia. replace j with (n + (j - n)) by lia.
      rewrite <- Ln' at 1. rewrite lookup_ty_gb_ge by assumption. unfold n at 2. rewrite lookup_ty_gb_ge by assumption.
      rewrite Ln'. fold n. destruct (lookup_ty G (j - n)); cbn [option_map]; [|reflexivity]. now rewrite rename_swp_shift.
  - destruct (Nat.lt_ge_cases j n) as [Hj|Hj].
    + rewrite !lookup_def_gb_lt by (rewrite ?Ln'; try apply swp_lt; auto). reflexivity.
    + rewrite swp_ge by lia. replace j with (n + (j - n)) by lia.
      rewrite <- Ln' at 1. rewrite lookup_def_gb_ge by assumption. unfold n at 2. rewrite lookup_def_gb_ge by assumption.
      rewrite Ln'. fold n. destruct (lookup_def G (j - n)); cbn [option_map]; [|reflexivity]. now rewrite rename_swp_shift.
Qed.

Theorem tyH_swap_defs G i t T : wf_offsets G -> tyH G t T -> tyH G (swap_defs i t) T.
Proof.
  intros W H. induction H; try exact (ltac:(econstructor; eauto) : tyH G (swap_defs i _) _);
    try (cbn [swap_defs]; econstructor; eauto; fail).
  - (* let1: nothing to exchange *)
    rewrite swap_defs_short; [now apply h_let1|]. intros x y post K. destruct i as [|[|i]]; discriminate K.
  - (* letn *)
    destruct (skipn i ds) as [|x [|y post]] eqn:E;
      try (rewrite swap_defs_short by (intros ? ? ? K; rewrite E in K; discriminate K); eapply h_letn; eauto).
    destruct (split_at _ _ _ _ _ E) as (Eds & Lf & Ln).
    destruct (skipn i as0) as [|ax [|ay apost]] eqn:E0;
      try (exfalso; assert (Lk : length (skipn i as0) = length as0 - i) by apply skipn_length;
           rewrite E0 in Lk; cbn [length] in Lk; lia).
    destruct (split_at _ _ _ _ _ E0) as (Eas & Lfa & Lna).
    assert (La : length apost = length post) by lia.
    rewrite (swap_defs_eq _ _ _ _ _ _ E). set (a := length post) in *. set (pre := firstn i ds) in *.
    set (apre := firstn i as0) in *.
    pose proof (Ren_swap_gb G apre ax ay apost W) as R. rewrite <- Eas, La in R. fold a in R.
    set (as0' := perm2 apre ax ay apost) in *.
    set (ds' := map (rnm (swp a)) (perm2 pre x y post)).
    assert (Ln' : length ds' = length ds) by (unfold ds'; rewrite map_length, perm2_length; now rewrite <- Eds).
    assert (Nth : forall j, nth_error ds' j = option_map (rnm (swp a)) (nth_error ds (swp i j))).
    { intros j. unfold ds'. rewrite nth_error_map, nth_perm2. fold pre in Lf. rewrite Lf. now rewrite <- Eds. }
    assert (Nth0 : forall j, nth_error as0' j = nth_error as0 (swp i j)).
    { intros j. unfold as0'. rewrite nth_perm2. fold apre in Lfa. rewrite Lfa. now rewrite <- Eas. }
    assert (Ha : S a < length ds) by lia.
    apply (h_letn G as0'); rewrite ?Ln'.
    + unfold as0'. rewrite perm2_length, <- Eas. exact H.
    + intros j a' d' a0' Ej Ej0. rewrite Nth in Ej. rewrite Nth0 in Ej0.
      destruct (nth_error ds (swp i j)) as [[u v]|] eqn:Eu; [|discriminate]. cbn [option_map rnm] in Ej. injection Ej as <- <-.
      rewrite (H0 _ _ _ _ Eu Ej0). now apply rename_swp_shift.
    + intros j a' d' Ej. rewrite Nth in Ej.
      destruct (nth_error ds (swp i j)) as [[u v]|] eqn:Eu; [|discriminate]. cbn [option_map rnm] in Ej. injection Ej as <- <-.
      exact (tyH_rename _ _ _ (H1 _ _ _ Eu) _ _ R).
    + intros j a' d' Ej. rewrite Nth in Ej.
      destruct (nth_error ds (swp i j)) as [[u v]|] eqn:Eu; [|discriminate]. cbn [option_map rnm] in Ej. injection Ej as <- <-.
      exact (tyH_rename _ _ _ (H3 _ _ _ Eu) _ _ R).
    + pose proof (tyH_rename _ _ _ H5 _ _ R) as K. now rewrite rename_swp_shift in K.
Qed.

(* ------------------------------------------------------------------------------------------- *)
(* Part B.3  The simply typed checker: exchanges anywhere in the program, sequences of exchanges *)
(* ------------------------------------------------------------------------------------------- *)
Lemma stype_rename : forall t r, stype t = true -> rename r t = t.
Proof.
  induction t; intros r H; cbn [stype] in H; try discriminate; try reflexivity.
  apply andb_prop in H as [H1 H2]. cbn [rename]. now rewrite IHt1, IHt2.
Qed.

Lemma nth_error_rev {A} (l : list A) z : z < length l -> nth_error (rev l) z = nth_error l (length l - 1 - z).
Proof.
  intros Hz. destruct (nth_error l (length l - 1 - z)) as [x|] eqn:E; [|apply nth_error_None in E; lia].
  rewrite (nth_error_nth' (rev l) x) by (rewrite rev_length; lia).
  rewrite rev_nth by lia. replace (length l - S z) with (length l - 1 - z) by lia.
  f_equal. now apply nth_error_nth.
Qed.

(* the group part of the checker's context *)
Lemma nth_rev_app {A} (l C : list A) j :
  nth_error (rev l ++ C) j = if Nat.ltb j (length l) then nth_error l (length l - 1 - j) else nth_error C (j - length l).
Proof.
  destruct (Nat.ltb_spec j (length l)).
  - rewrite nth_error_app1 by (rewrite rev_length; lia). now apply nth_error_rev.
  - rewrite nth_error_app2 by (rewrite rev_length; lia). now rewrite rev_length.
Qed.

Definition crel (r : nat -> nat) (C C' : list term) : Prop := forall j, nth_error C' (r j) = nth_error C j.

Lemma crel_up r C C' d : crel r C C' -> crel (up r) (d :: C) (d :: C').
Proof. intros H [|j]; cbn [up nth_error]; auto. Qed.

Lemma crel_upn r C C' (l : list term) : crel r C C' -> crel (upn (length l) r) (rev l ++ C) (rev l ++ C').
Proof.
  intros H j. rewrite !nth_rev_app. destruct (upn_cases (length l) r j) as [[Hl E]|(j' & -> & E)]; rewrite E.
  - destruct (Nat.ltb_spec j (length l)); [reflexivity | lia].
  - destruct (Nat.ltb_spec (length l + r j') (length l)); [lia|].
    destruct (Nat.ltb_spec (length l + j') (length l)); [lia|].
    replace (length l + r j' - length l) with (r j') by lia. replace (length l + j' - length l) with j' by lia. apply H.
Qed.

Lemma checkS_rename : forall t C C' r T, crel r C C' -> checkS C t = Some T -> checkS C' (rename r t) = Some T.
Proof.
  induction t using term_ind'; intros C C' r T R Hc; cbn [checkS rename] in *; try discriminate; auto.
  - now rewrite R.
  - destruct (stype t1) eqn:S1; [|discriminate]. rewrite (stype_rename t1 r S1), S1.
    destruct (checkS (t1 :: C) t2) as [B|] eqn:E; [|discriminate].
    now rewrite (IHt2 _ _ _ _ (crel_up r C C' t1 R) E).
  - destruct (checkS C t1) as [F0|] eqn:E1; [|discriminate]. rewrite (IHt1 _ _ _ _ R E1).
    destruct F0 as [? ?| | | | | |?|?|? ? ?|im A B|? ?|? ?|?|? ? ?|? ? ?]; try discriminate. destruct im; [discriminate|].
    destruct (checkS C t2) as [A'|] eqn:E2; [|discriminate]. now rewrite (IHt2 _ _ _ _ R E2).
  - (* let *)
    set (n := length ds) in *.
    destruct (forallb _ ds) eqn:FB; [|discriminate].
    assert (Sa : forall a d, In (a, d) ds -> stype a = true).
    { intros a d Hin. rewrite forallb_forall in FB. specialize (FB _ Hin). cbn in FB. now apply andb_prop in FB as [? _]. }
    assert (Ef : map fst (map (fun p : term * term => let '(a, x) := p in (rename (upn n r) a, rename (upn n r) x)) ds)
                 = map fst ds).
    { rewrite map_map. apply map_ext_in. intros [a d] Hin. cbn [fst]. now apply stype_rename, (Sa a d). }
    rewrite Ef.
    assert (R' : crel (upn n r) (rev (map fst ds) ++ C) (rev (map fst ds) ++ C')).
    { unfold n. rewrite <- (map_length fst ds). now apply crel_upn. }
    replace (forallb _ (map _ ds)) with true; [now apply (IHt _ _ _ _ R')|].
    symmetry. rewrite forallb_map'. apply forallb_forall. intros [a d] Hin. cbn.
    rewrite forallb_forall in FB. pose proof (FB _ Hin) as Q. cbn in Q. apply andb_prop in Q as [Q1 Q2].
    rewrite (stype_rename a _ Q1), Q1. cbn [andb].
    destruct (checkS (rev (map fst ds) ++ C) d) as [A|] eqn:Ed; [|discriminate].
    rewrite Forall_forall in H. destruct (H _ Hin) as [_ IHd]. cbn [snd] in IHd.
    now rewrite (IHd _ _ _ _ R' Ed).
  - destruct (checkS C t) as [[]|] eqn:E; try discriminate. now rewrite (IHt _ _ _ _ R E).
  - destruct (checkS C t1) as [[]|] eqn:E1; try discriminate.
    destruct (checkS C t2) as [[]|] eqn:E2; try discriminate.
    now rewrite (IHt1 _ _ _ _ R E1), (IHt2 _ _ _ _ R E2).
  - destruct (checkS C t1) as [[]|] eqn:E1; try discriminate.
    destruct (checkS C t2) as [A|] eqn:E2; [|discriminate].
    destruct (checkS C t3) as [B|] eqn:E3; [|discriminate].
    now rewrite (IHt1 _ _ _ _ R E1), (IHt2 _ _ _ _ R E2), (IHt3 _ _ _ _ R E3).
Qed.

(* the root exchange *)
Theorem checkS_swap_defs C i t T : checkS C t = Some T -> checkS C (swap_defs i t) = Some T.
Proof.
  destruct t; try (intros H; exact H). rename defs into ds, t into b. intros Hc.
  destruct (skipn i ds) as [|x [|y post]] eqn:E;
    try (rewrite swap_defs_short by (intros ? ? ? K; rewrite E in K; discriminate K); exact Hc).
  destruct (split_at _ _ _ _ _ E) as (Eds & Lf & Ln).
  rewrite (swap_defs_eq _ _ _ _ _ _ E). set (a := length post) in *. set (pre := firstn i ds) in *.
  cbn [checkS] in *. destruct (forallb _ ds) eqn:FB; [|discriminate].
  assert (Sa : forall u v, In (u, v) ds -> stype u = true).
  { intros u v Hin. rewrite forallb_forall in FB. specialize (FB _ Hin). cbn in FB. now apply andb_prop in FB as [? _]. }
  set (ds' := map (rnm (swp a)) (perm2 pre x y post)).
  assert (Ef : map fst ds' = perm2 (map fst pre) (fst x) (fst y) (map fst post)).
  { unfold ds', perm2. rewrite map_map, map_app. cbn [map].
    assert (K : forall p, In p ds -> fst (rnm (swp a) p) = fst p).
    { intros [u v] Hin. cbn [rnm fst]. now apply stype_rename, (Sa u v). }
    rewrite (map_ext_in _ fst pre), (map_ext_in _ fst post), (K x), (K y); auto;
      try (rewrite Eds, in_app_iff; cbn [In]; tauto);
      intros p Hin; apply K; rewrite Eds, in_app_iff; cbn [In]; tauto. }
  assert (Ef0 : map fst ds = map fst pre ++ fst x :: fst y :: map fst post).
  { rewrite Eds at 1. rewrite map_app. reflexivity. }
  assert (Lp : length (map fst post) = a) by apply map_length.
  assert (R : crel (swp a) (rev (map fst ds) ++ C) (rev (map fst ds') ++ C)).
  { intros j. rewrite !nth_rev_app, Ef, Ef0, perm2_length. set (m := length (map fst pre ++ fst x :: fst y :: map fst post)).
    assert (Lm : m = length (map fst pre) + 2 + a) by (unfold m; rewrite app_length; cbn [length]; lia).
    destruct (Nat.ltb_spec j m).
    - assert (Hs : swp a j < m) by (apply swp_lt; lia).
      destruct (Nat.ltb_spec (swp a j) m); [|lia].
      rewrite nth_perm2. now rewrite (swp_pos_var _ a m j Lm).
    - rewrite swp_ge by lia. destruct (Nat.ltb_spec j m); [lia | reflexivity]. }
  replace (forallb _ ds') with true; [now apply (checkS_rename b _ _ _ _ R)|].
  symmetry. apply forallb_forall. intros p Hp. unfold ds' in Hp. apply in_map_iff in Hp as ([u v] & <- & Hin).
  apply perm2_In in Hin. rewrite <- Eds in Hin. cbn [rnm].
  rewrite forallb_forall in FB. pose proof (FB _ Hin) as Q. cbn in Q. apply andb_prop in Q as [Q1 Q2].
  rewrite (stype_rename u _ Q1), Q1. cbn [andb].
  destruct (checkS (rev (map fst ds) ++ C) v) as [A|] eqn:Ed; [|discriminate].
  now rewrite (checkS_rename v _ _ _ _ R Ed).
Qed.

(* one exchange of two adjacent definitions of one group somewhere in the term; unlike swap_in of ReorderDefs.v
   the two definitions need not be values (typing does not care) *)
Inductive swap_at : term -> term -> Prop :=
| SA_root i ds b x y : nth_error ds i = Some x -> nth_error ds (S i) = Some y -> swap_at (TLet ds b) (swap_defs i (TLet ds b))
| SA_lam_dom im d d' b : swap_at d d' -> swap_at (TLam im d b) (TLam im d' b)
| SA_lam_body im d b b' : swap_at b b' -> swap_at (TLam im d b) (TLam im d b')
| SA_pi_dom im d d' b : swap_at d d' -> swap_at (TPi im d b) (TPi im d' b)
| SA_pi_cod im d b b' : swap_at b b' -> swap_at (TPi im d b) (TPi im d b')
| SA_app_l f f' a : swap_at f f' -> swap_at (TApp f a) (TApp f' a)
| SA_app_r f a a' : swap_at a a' -> swap_at (TApp f a) (TApp f a')
| SA_let_body ds b b' : swap_at b b' -> swap_at (TLet ds b) (TLet ds b')
| SA_let_def pre a d d' post b : swap_at d d' -> swap_at (TLet (pre ++ (a, d) :: post) b) (TLet (pre ++ (a, d') :: post) b)
| SA_let_ann pre a a' d post b : swap_at a a' -> swap_at (TLet (pre ++ (a, d) :: post) b) (TLet (pre ++ (a', d) :: post) b)
| SA_neg a a' : swap_at a a' -> swap_at (TNeg a) (TNeg a')
| SA_bin_l o a a' b : swap_at a a' -> swap_at (TBin o a b) (TBin o a' b)
| SA_bin_r o a b b' : swap_at b b' -> swap_at (TBin o a b) (TBin o a b')
| SA_if_c c c' t e : swap_at c c' -> swap_at (TIf c t e) (TIf c' t e)
| SA_if_t c t t' e : swap_at t t' -> swap_at (TIf c t e) (TIf c t' e)
| SA_if_e c t e e' : swap_at e e' -> swap_at (TIf c t e) (TIf c t e').

Lemma stype_no_swap : forall t t', swap_at t t' -> stype t = true -> False.
Proof. induction 1; cbn [stype]; intros Hst; try discriminate; apply andb_prop in Hst as [? ?]; auto. Qed.

Lemma forallb_mid {A} (f : A -> bool) pre x post : forallb f (pre ++ x :: post) = forallb f pre && (f x && forallb f post).
Proof. rewrite forallb_app. reflexivity. Qed.

Theorem checkS_swap_at : forall t t', swap_at t t' -> forall C T, checkS C t = Some T -> checkS C t' = Some T.
Proof.
  induction 1; intros C T Hc.
  - now apply checkS_swap_defs.
  - cbn [checkS] in *. destruct (stype d) eqn:S; [|discriminate]. exfalso. eapply stype_no_swap; eauto.
  - cbn [checkS] in *. destruct (stype d); [|discriminate].
    destruct (checkS (d :: C) b) as [B|] eqn:E; [|discriminate]. now rewrite (IHswap_at _ _ E).
  - discriminate Hc.
  - discriminate Hc.
  - cbn [checkS] in *. destruct (checkS C f) as [F0|] eqn:E; [|discriminate]. now rewrite (IHswap_at _ _ E).
  - cbn [checkS] in *. destruct (checkS C f) as [F0|]; [|discriminate].
    destruct F0 as [? ?| | | | | |?|?|? ? ?|im A B|? ?|? ?|?|? ? ?|? ? ?]; try discriminate. destruct im; [discriminate|].
    destruct (checkS C a) as [A'|] eqn:E; [|discriminate]. now rewrite (IHswap_at _ _ E).
  - cbn [checkS] in *. destruct (forallb _ ds); [|discriminate]. now apply IHswap_at.
  - cbn [checkS] in *.
    assert (Ef : map fst (pre ++ (a, d') :: post) = map fst (pre ++ (a, d) :: post)) by (rewrite !map_app; reflexivity).
    rewrite Ef. set (C' := rev (map fst (pre ++ (a, d) :: post)) ++ C) in *.
    rewrite forallb_mid in *. destruct (forallb _ pre); [|discriminate]. cbn [andb] in *.
    destruct (stype a); [|discriminate]. cbn [andb] in *.
    destruct (checkS C' d) as [A|] eqn:E; [|discriminate]. now rewrite (IHswap_at _ _ E).
  - cbn [checkS] in *. exfalso. rewrite forallb_mid in Hc.
    destruct (forallb _ pre); [|discriminate]. cbn [andb] in Hc.
    destruct (stype a) eqn:S; [|discriminate]. eapply stype_no_swap; eauto.
  - cbn [checkS] in *. destruct (checkS C a) as [F0|] eqn:E; [|discriminate]. now rewrite (IHswap_at _ _ E).
  - cbn [checkS] in *. destruct (checkS C a) as [F0|] eqn:E; [|discriminate]. now rewrite (IHswap_at _ _ E).
  - cbn [checkS] in *. destruct (checkS C a) as [[]|]; try discriminate.
    destruct (checkS C b) as [F0|] eqn:E; [|discriminate]. now rewrite (IHswap_at _ _ E).
  - cbn [checkS] in *. destruct (checkS C c) as [F0|] eqn:E; [|discriminate]. now rewrite (IHswap_at _ _ E).
  - cbn [checkS] in *. destruct (checkS C c) as [[]|]; try discriminate.
    destruct (checkS C t) as [F0|] eqn:E; [|discriminate]. now rewrite (IHswap_at _ _ E).
  - cbn [checkS] in *. destruct (checkS C c) as [[]|]; try discriminate.
    destruct (checkS C t) as [A|]; [|discriminate].
    destruct (checkS C e) as [F0|] eqn:E; [|discriminate]. now rewrite (IHswap_at _ _ E).
Qed.

Inductive swaps_at : term -> term -> Prop :=
| swaps_at_refl t : swaps_at t t
| swaps_at_step t t' t'' : swap_at t t' -> swaps_at t' t'' -> swaps_at t t''.

Theorem checkS_swaps_at t t' : swaps_at t t' -> forall C T, checkS C t = Some T -> checkS C t' = Some T.
Proof. induction 1; intros C T Hc; [exact Hc|]. apply IHswaps_at. eapply checkS_swap_at; eauto. Qed.

Lemma swap_in_at t t' : swap_in t t' -> swap_at t t'.
Proof. induction 1; try (constructor; auto; fail). eapply SA_root; eauto. Qed.
Lemma swaps_swaps_at t t' : swaps t t' -> swaps_at t t'.
Proof. induction 1; [constructor|]. econstructor; eauto using swap_in_at. Qed.

Theorem checkS_swap_in t t' : swap_in t t' -> forall C T, checkS C t = Some T -> checkS C t' = Some T.
Proof. intros H. apply checkS_swap_at. now apply swap_in_at. Qed.
Theorem checkS_swaps t t' : swaps t t' -> forall C T, checkS C t = Some T -> checkS C t' = Some T.
Proof. intros H. apply checkS_swaps_at. now apply swaps_swaps_at. Qed.

(* acceptance, with the same type, of every program obtained by exchanging definitions anywhere, any number of times *)
Theorem simple_swaps_at_typed t t' T : checkS [] t = Some T -> swaps_at t t' ->
  checkS [] t' = Some T /\ has_type [] t T /\ has_type [] t' T.
Proof.
  intros Hc Hs. pose proof (checkS_swaps_at _ _ Hs _ _ Hc) as Hc'.
  split; [exact Hc'|]. split; [exact (proj2 (simple_typed _ _ Hc)) | exact (proj2 (simple_typed _ _ Hc'))].
Qed.

Theorem simple_swaps_typed t t' T : checkS [] t = Some T -> swaps t t' ->
  checkS [] t' = Some T /\ has_type [] t T /\ has_type [] t' T.
Proof.
  intros Hc Hs. pose proof (checkS_swaps _ _ Hs _ _ Hc) as Hc'.
  split; [exact Hc'|]. split; [exact (proj2 (simple_typed _ _ Hc)) | exact (proj2 (simple_typed _ _ Hc'))].
Qed.

(* ------------------------------------------------------------------------------------------- *)
(* Part C  The verified checker: whnf, convb and infer commute with an injective renaming,      *)
(*         with the SAME fuel; hence infer accepts the exchanged group                          *)
(* ------------------------------------------------------------------------------------------- *)
Definition inj (r : nat -> nat) : Prop := forall i j, r i = r j -> i = j.

Lemma inj_up r : inj r -> inj (up r).
Proof. intros H [|i] [|j] E; cbn [up] in E; try discriminate; [reflexivity|]. f_equal. apply H. lia. Qed.
Lemma inj_upn n r : inj r -> inj (upn n r).
Proof.
  intros H i j E.
  destruct (upn_cases n r i) as [[Hi Ei]|(i' & -> & Ei)], (upn_cases n r j) as [[Hj Ej]|(j' & -> & Ej)];
    rewrite Ei, Ej in E; try lia. f_equal. apply H. lia.
Qed.
Lemma inj_swp a : inj (swp a).
Proof. intros i j E. rewrite <- (swp_invol a i), <- (swp_invol a j). now rewrite E. Qed.

Lemma whnf_rename : forall f G G' r t, Ren r G G' ->
  whnf f G' (rename r t) = option_map (rename r) (whnf f G t).
Proof.
  induction f as [|f IH]; intros G G' r t R; [reflexivity|].
  destruct t; cbn [whnf rename option_map]; try reflexivity.
  - (* var *)
    rewrite (ren_def _ _ _ R). destruct (lookup_def G i) as [d|]; cbn [option_map]; [now apply IH | reflexivity].
  - (* app *)
    rewrite (IH G G' r t1 R). destruct (whnf f G t1) as [a'|]; cbn [option_map]; [|reflexivity].
    destruct a'; cbn [rename option_map]; try reflexivity.
    rewrite <- rename_open0. now apply IH.
  - (* let *)
    change (TLet (map (fun p : term * term => let '(a, x) := p in (rename (upn (length defs) r) a, rename (upn (length defs) r) x)) defs)
                 (rename (upn (length defs) r) t)) with (rename r (TLet defs t)).
    cbn [rename]. fold (rnm (upn (length defs) r)).
    change (map (fun p : term * term => let '(a, x) := p in (rename (upn (length defs) r) a, rename (upn (length defs) r) x)) defs)
      with (map (rnm (upn (length defs) r)) defs).
    rewrite <- rename_let_whnf_body. now apply IH.
  - (* neg *)
    rewrite (IH G G' r t R). destruct (whnf f G t) as [a'|]; cbn [option_map]; [|reflexivity].
    destruct a'; reflexivity.
  - (* bin *)
    rewrite (IH G G' r t1 R), (IH G G' r t2 R).
    destruct (whnf f G t1) as [a'|]; cbn [option_map]; [|reflexivity].
    destruct (whnf f G t2) as [b'|]; cbn [option_map]; [|destruct a'; reflexivity].
    destruct a'; cbn [rename]; try reflexivity; destruct b'; cbn [rename]; try reflexivity.
    destruct (arith o z z0) as [res|] eqn:A; cbn [option_map]; [|reflexivity]. now rewrite (arith_rename _ _ _ _ r A).
  - (* if *)
    rewrite (IH G G' r t1 R). destruct (whnf f G t1) as [c'|]; cbn [option_map]; [|reflexivity].
    destruct c'; cbn [rename option_map]; try reflexivity; now apply IH.
Qed.

Lemma convb_rename : forall f G G' r a b, Ren r G G' -> inj r ->
  convb f G' (rename r a) (rename r b) = convb f G a b.
Proof.
  induction f as [|f IH]; intros G G' r a b R I; [reflexivity|].
  cbn [convb]. rewrite !(whnf_rename f G G' r) by exact R.
  destruct (whnf f G a) as [a'|]; cbn [option_map]; [|reflexivity].
  destruct (whnf f G b) as [b'|]; cbn [option_map]; [|reflexivity].
  destruct a', b'; cbn [rename]; try reflexivity.
  - (* var *)
    f_equal. destruct (Nat.eqb_spec i i0) as [->|N]; [apply Nat.eqb_refl|]. apply Nat.eqb_neq. intros E. apply N. now apply I.
  - destruct (Bool.eqb impl impl0); [|reflexivity]. apply IH; auto using Ren_bind, inj_up.
  - destruct (Bool.eqb impl impl0); [|reflexivity]. apply and3_ext; [now apply IH|]. apply IH; auto using Ren_bind, inj_up.
  - apply and3_ext; now apply IH.
  - now apply IH.
  - destruct (binop_eqb o o0); [|reflexivity]. apply and3_ext; now apply IH.
  - apply and3_ext; [now apply IH|]. apply and3_ext; now apply IH.
Qed.

Lemma convb_rename_cst f G G' r a c : Ren r G G' -> inj r -> rename r c = c ->
  convb f G' (rename r a) c = convb f G a c.
Proof. intros R I E. rewrite <- E at 1. now apply convb_rename. Qed.

Lemma infer_rename : forall f G G' r t, Ren r G G' -> inj r ->
  infer f G' (rename r t) = option_map (rename r) (infer f G t).
Proof.
  induction f as [|f IH]; intros G G' r t R I; [reflexivity|].
  destruct t; try reflexivity.
  - (* var *) cbn [infer rename]. apply (ren_ty _ _ _ R).
  - (* lam *)
    cbn [infer rename]. rewrite (IH G G' r t1 R I). destruct (infer f G t1) as [Td|]; cbn [option_map]; [|reflexivity].
    rewrite (convb_rename_cst f G G' r Td TType R I eq_refl).
    destruct (is_true (convb f G Td TType)); [|reflexivity].
    rewrite (IH _ _ (up r) t2 (Ren_bind r G G' t1 R) (inj_up r I)).
    destruct (infer f (bind G t1) t2); reflexivity.
  - (* pi *)
    cbn [infer rename]. rewrite (IH G G' r t1 R I). destruct (infer f G t1) as [Td|]; cbn [option_map]; [|reflexivity].
    rewrite (convb_rename_cst f G G' r Td TType R I eq_refl).
    destruct (is_true (convb f G Td TType)); [|reflexivity].
    rewrite (IH _ _ (up r) t2 (Ren_bind r G G' t1 R) (inj_up r I)).
    destruct (infer f (bind G t1) t2) as [Tb|]; cbn [option_map]; [|reflexivity].
    rewrite (convb_rename_cst f _ _ (up r) Tb TType (Ren_bind r G G' t1 R) (inj_up r I) eq_refl).
    destruct (is_true (convb f (bind G t1) Tb TType)); reflexivity.
  - (* app *)
    cbn [infer rename]. rewrite (IH G G' r t1 R I). destruct (infer f G t1) as [F0|]; cbn [option_map]; [|reflexivity].
    rewrite (whnf_rename f G G' r F0 R). destruct (whnf f G F0) as [w|]; cbn [option_map]; [|reflexivity].
    destruct w; cbn [rename]; try reflexivity. destruct impl; [reflexivity|].
    rewrite (IH G G' r t2 R I). destruct (infer f G t2) as [A'|]; cbn [option_map]; [|reflexivity].
    rewrite (convb_rename f G G' r A' w1 R I). destruct (is_true (convb f G A' w1)); [|reflexivity].
    cbn [option_map]. now rewrite rename_open0.
  - (* let *)
    rewrite rename_let, !infer_let_eq, map_length.
    set (n := length defs). set (rho := upn n r).
    pose proof (Ren_enter r G G' defs R) as Re. fold n in Re. fold rho in Re.
    assert (Ir : inj rho) by (apply inj_upn; exact I).
    assert (ED : infer_defs (infer f (enter (map (rnm rho) defs) G')) (convb f (enter (map (rnm rho) defs) G')) (map (rnm rho) defs)
                 = infer_defs (infer f (enter defs G)) (convb f (enter defs G)) defs).
    { apply (infer_defs_map _ _ _ _ (rename rho)). intros a d _. repeat split.
      - now apply IH. - now apply IH.
      - intros Ta _. now apply convb_rename_cst.
      - intros Td _. now apply convb_rename. }
    rewrite ED. destruct (infer_defs _ _ defs); [|reflexivity].
    rewrite (IH _ _ rho t Re Ir). destruct (infer f (enter defs G) t) as [B|]; cbn [option_map]; [|reflexivity].
    f_equal. symmetry. apply group_type_rename0.
  - (* neg *)
    cbn [infer rename]. rewrite (IH G G' r t R I). destruct (infer f G t) as [Ta|]; cbn [option_map]; [|reflexivity].
    rewrite (convb_rename_cst f G G' r Ta TInt R I eq_refl). destruct (is_true (convb f G Ta TInt)); reflexivity.
  - (* bin *)
    cbn [infer rename]. rewrite (IH G G' r t1 R I), (IH G G' r t2 R I).
    destruct (infer f G t1) as [Ta|]; cbn [option_map]; [|reflexivity].
    destruct (infer f G t2) as [Tb|]; cbn [option_map]; [|reflexivity].
    rewrite (convb_rename_cst f G G' r Ta TInt R I eq_refl), (convb_rename_cst f G G' r Tb TInt R I eq_refl).
    destruct (is_true (convb f G Ta TInt) && is_true (convb f G Tb TInt)); cbn [option_map]; [|reflexivity].
    now rewrite bin_ty_rename.
  - (* if *)
    cbn [infer rename]. rewrite (IH G G' r t1 R I), (IH G G' r t2 R I), (IH G G' r t3 R I).
    destruct (infer f G t1) as [Tc|]; cbn [option_map]; [|reflexivity].
    destruct (infer f G t2) as [Ta|]; cbn [option_map]; [|reflexivity].
    destruct (infer f G t3) as [Tb|]; cbn [option_map]; [|reflexivity].
    rewrite (convb_rename_cst f G G' r Tc TBool R I eq_refl), (convb_rename f G G' r Tb Ta R I).
    destruct (is_true (convb f G Tc TBool) && is_true (convb f G Tb Ta)); reflexivity.
Qed.

(* infer_defs is a conjunction over the list: its value does not depend on the order *)
Definition def_ok (inf : term -> option term) (cv : term -> term -> option bool) (p : term * term) : bool :=
  let '(a, d) := p in
  match inf a, inf d with Some Ta, Some Td => is_true (cv Ta TType) && is_true (cv Td a) | _, _ => false end.

Lemma infer_defs_forallb inf cv l : infer_defs inf cv l = forallb (def_ok inf cv) l.
Proof.
  induction l as [|[a d] l IH]; cbn [infer_defs forallb def_ok]; [reflexivity|].
  destruct (inf a), (inf d); try reflexivity. now rewrite IH.
Qed.

Theorem infer_swap_defs f G i ds b T : wf_offsets G -> infer (S f) G (TLet ds b) = Some T ->
  exists B, infer f (enter ds G) b = Some B /\ T = group_type (length ds) ds 0 (length ds) B /\
            infer (S f) G (swap_defs i (TLet ds b)) = Some (swapped_ty i ds B).
Proof.
  intros W H. rewrite infer_let_eq in H.
  destruct (infer_defs _ _ ds) eqn:ED; [|discriminate].
  destruct (infer f (enter ds G) b) as [B|] eqn:EB; [|discriminate]. injection H as <-.
  exists B. split; [reflexivity|]. split; [reflexivity|]. unfold swapped_ty, swapped_ds.
  destruct (skipn i ds) as [|x [|y post]] eqn:E;
    try (rewrite swap_defs_short by (intros ? ? ? K; rewrite E in K; discriminate K);
         rewrite infer_let_eq, ED, EB; reflexivity).
  rewrite (swap_defs_eq _ _ _ _ _ _ E).
  destruct (split_at _ _ _ _ _ E) as (Eds & Lf & Ln).
  set (pre := firstn i ds) in *. set (a := length post) in *.
  destruct (Ren_swap G pre x y post W) as [R _]. rewrite <- Eds in R. fold a in R.
  set (ds' := map (rnm (swp a)) (perm2 pre x y post)) in *.
  assert (Ln' : length ds' = length ds) by (unfold ds'; rewrite map_length, perm2_length; now rewrite <- Eds).
  rewrite infer_let_eq, Ln'.
  assert (ED' : infer_defs (infer f (enter ds' G)) (convb f (enter ds' G)) ds' = true).
  { rewrite infer_defs_forallb in *. apply forallb_forall. intros p Hp. unfold ds' in Hp.
    apply in_map_iff in Hp as ([u v] & <- & Hin). apply perm2_In in Hin. rewrite <- Eds in Hin.
    rewrite forallb_forall in ED. specialize (ED _ Hin). cbn [def_ok rnm] in *.
    rewrite !(infer_rename f _ _ _ _ R (inj_swp a)).
    destruct (infer f (enter ds G) u) as [Ta|]; cbn [option_map]; [|discriminate].
    destruct (infer f (enter ds G) v) as [Td|]; cbn [option_map]; [|discriminate].
    now rewrite (convb_rename_cst f _ _ _ Ta TType R (inj_swp a) eq_refl), (convb_rename f _ _ _ Td u R (inj_swp a)). }
  rewrite ED'. rewrite (infer_rename f _ _ _ _ R (inj_swp a)), EB. reflexivity.
Qed.

Corollary infer_swap_defs_accepts f G i ds b : wf_offsets G ->
  (exists T, infer f G (TLet ds b) = Some T) <-> (exists T, infer f G (swap_defs i (TLet ds b)) = Some T).
Proof.
  intros W. destruct f as [|f]; [split; intros (T & H); discriminate H|]. split; intros (T & H).
  - destruct (infer_swap_defs f G i ds b T W H) as (B & _ & _ & K). eauto.
  - destruct (skipn i ds) as [|x [|y post]] eqn:E;
      try (rewrite swap_defs_short in H by (intros ? ? ? K; rewrite E in K; discriminate K); eauto).
    pose proof H as H'. rewrite (swap_defs_eq _ _ _ _ _ _ E) in H'.
    destruct (infer_swap_defs f G i _ _ T W H') as (B & _ & _ & K).
    rewrite <- (swap_defs_eq _ _ _ _ _ _ E), swap_defs_invol in K. eauto.
Qed.

Lemma swapped_ty_closed i ds B0 : hole_free B0 = true ->
  group_type (length ds) ds 0 (length ds) (ushift B0 0 (length ds)) = B0 /\
  swapped_ty i ds (ushift B0 0 (length ds)) = B0.
Proof.
  intros HB.
  assert (K0 : forall ds0, group_type (length ds) ds0 0 (length ds) (ushift B0 0 (length ds)) = B0).
  { intros ds0. pose proof (group_type_closed (length ds) ds0 (length ds) 0 B0 0 HB) as K.
    now rewrite Nat.add_0_r, ushift_zero in K. }
  split; [apply K0|]. unfold swapped_ty. destruct (skipn i ds) as [|x [|y post]] eqn:E; try apply K0.
  destruct (split_at _ _ _ _ _ E) as (_ & _ & Ln). rewrite rename_swp_shift by lia. apply K0.
Qed.

(* when the inferred type of the body does not mention the group, infer reports the SAME type for both *)
Corollary infer_swap_defs_same f G i ds b T B0 : wf_offsets G -> hole_free B0 = true ->
  infer f (enter ds G) b = Some (ushift B0 0 (length ds)) ->
  infer (S f) G (TLet ds b) = Some T -> T = B0 /\ infer (S f) G (swap_defs i (TLet ds b)) = Some B0.
Proof.
  intros W HB EB H. destruct (infer_swap_defs f G i ds b T W H) as (B & EB' & -> & K).
  rewrite EB in EB'. injection EB' as <-. destruct (swapped_ty_closed i ds B0 HB) as [K1 K2].
  rewrite K2 in K. now rewrite K1.
Qed.

(* ------------------------------------------------------------------------------------------- *)
(* Non-vacuity                                                                                  *)
(* ------------------------------------------------------------------------------------------- *)
Definition evenodd_swapped := swap_defs 0 evenodd.     (* odd first, then even, then the computed definition *)
Definition evenodd_swapped2 := swap_defs 1 evenodd.    (* even, the computed definition, odd *)

Example evenodd_swapped_is :
  evenodd_swapped =
  TLet [ (TPi false TInt TBool, TLam false TInt (TIf (TBin OEq (TVar 0) (TLit 0)) TFalse (TApp (TVar 2) (TBin ODiff (TVar 0) (TLit 1)))));
         (TPi false TInt TBool, TLam false TInt (TIf (TBin OEq (TVar 0) (TLit 0)) TTrue (TApp (TVar 3) (TBin ODiff (TVar 0) (TLit 1)))));
         (TBool, TApp (TVar 1) (TLit 7)) ]
       (TVar 0).
Proof. reflexivity. Qed.

(* through the theorem for the declarative rules *)
Example evenodd_swapped_typed : has_type [] evenodd_swapped TBool /\ has_type [] evenodd_swapped2 TBool.
Proof.
  assert (H : has_type [] evenodd TBool) by exact evenodd_typed.
  apply gen_let in H as (B & HF & Hb & _).
  (* the body is the variable of the third definition: its type is bool, which does not mention the group *)
  assert (Hb' : has_type (enter (match evenodd with TLet ds _ => ds | _ => [] end) []) (TVar 0) (ushift TBool 0 3))
    by (apply t_var; reflexivity).
  split.
  - exact (proj2 (swap_defs_typing_closed [] 0 _ (TVar 0) TBool wf_offsets_nil eq_refl HF Hb')).
  - exact (proj2 (swap_defs_typing_closed [] 1 _ (TVar 0) TBool wf_offsets_nil eq_refl HF Hb')).
Qed.

(* through the theorem for tyH, and for the simply typed checker (any sequence of exchanges, anywhere) *)
Example evenodd_swapped_tyH : tyH [] evenodd_swapped TBool.
Proof. exact (tyH_swap_defs [] 0 evenodd TBool wf_offsets_nil evenodd_tyH). Qed.

Example evenodd_swapped_checkS : checkS [] (swap_defs 1 (swap_defs 0 evenodd)) = Some TBool.
Proof. apply checkS_swap_defs, checkS_swap_defs. exact check_evenodd. Qed.

(* through the theorem for the verified checker, with the same fuel *)
Example evenodd_infer : infer 12 [] evenodd = Some TBool.
Proof. vm_compute. reflexivity. Qed.
Example evenodd_swapped_infer : infer 12 [] evenodd_swapped = Some TBool.
Proof.
  refine (proj2 (infer_swap_defs_same 11 [] 0 _ (TVar 0) TBool TBool wf_offsets_nil eq_refl _ evenodd_infer)).
  reflexivity.
Qed.

(* an exchange inside a program: the group of CbvProofs.evenodd2 under a lambda, and in a definition of an outer group *)
Example nested_swap_typed : forall t', swaps nested_prog t' -> checkS [] t' = Some TInt /\ has_type [] t' TInt.
Proof.
  intros t' Hs. destruct (simple_swaps_typed _ _ _ (proj1 check_nested) Hs) as (K1 & _ & K2). auto.
Qed.

Print Assumptions has_type_rename.
Print Assumptions conv_rename.
Print Assumptions swap_defs_typing.
Print Assumptions swap_defs_typing_closed.
Print Assumptions swap_defs_typable_iff.
Print Assumptions tyH_rename.
Print Assumptions tyH_swap_defs.
Print Assumptions checkS_swaps.
Print Assumptions simple_swaps_typed.
Print Assumptions infer_rename.
Print Assumptions infer_swap_defs.
Print Assumptions infer_swap_defs_accepts.
Print Assumptions infer_swap_defs_same.
Print Assumptions evenodd_swapped_typed.
Print Assumptions evenodd_swapped_infer.

(* ------------------------------------------------------------------------------------------- *)
(* The type of the exchanged group is in general NOT convertible with the original type.        *)
(*                                                                                              *)
(* In the context  F : int -> type, c : int -> int, e : int -> int  (no definitions) the group    *)
(*     x : int = c y;  y : int = e x;  q : F x = q;  q                                           *)
(* has the type  F (proj_x)  where proj_x = `the group; x`.  After exchanging x and y the rule   *)
(* gives  F (proj'_x)  with the projection of the exchanged group.  Both groups unfold (r_let)   *)
(* sequentially: proj_x  =>  c (e (c Y)),  Y = `y = e (c y); y`   and                            *)
(*               proj'_x =>  c (e X),      X = `x = c (e x); x`.                                 *)
(* The reducts of the first are c (e (c (e .. (c Y)))), those of the second c (e (c (e .. X))):  *)
(* the innermost single-definition group sits under c in one family and under e in the other.   *)
(* ------------------------------------------------------------------------------------------- *)
Module NotConv.
Definition Gc : ctx := [(TPi false TInt TInt, 0, None); (TPi false TInt TInt, 0, None); (TPi false TInt TType, 0, None)].
Definition dx3 := TApp (TVar 4) (TVar 1).     (* c y *)
Definition dy3 := TApp (TVar 3) (TVar 2).     (* e x *)
Definition Aq3 := TApp (TVar 5) (TVar 2).     (* F x *)
Definition ds3 := [(TInt, dx3); (TInt, dy3); (Aq3, TVar 0)].
Definition g3 := TLet ds3 (TVar 0).
Definition T3 := group_type 3 ds3 0 3 Aq3.
Definition T3' := swapped_ty 0 ds3 Aq3.
(* after the exchange *)
Definition dy3' := TApp (TVar 3) (TVar 1).    (* e x, x is now variable 1 *)
Definition dx3' := TApp (TVar 4) (TVar 2).    (* c y, y is now variable 2 *)

Lemma Gc_wf : wf_offsets Gc.
Proof. intros [|[|[|j]]] T k d E; cbn in E; try (injection E as <- <- <-; lia). destruct j; discriminate. Qed.
Lemma Gc_nodefs : ConfluenceConvb.nodefs Gc.
Proof. intros [|[|[|j]]]; try reflexivity. unfold lookup_def. cbn. destruct j; reflexivity. Qed.

Example g3_typed : has_type Gc g3 T3 /\ has_type Gc (swap_defs 0 g3) T3'.
Proof.
  assert (Hv : forall G i T, lookup_ty G i = Some T -> has_type G (TVar i) T) by (intros; now apply t_var).
  assert (HF : Forall (fun p => has_type (enter ds3 Gc) (fst p) TType /\ has_type (enter ds3 Gc) (snd p) (fst p)) ds3).
  { unfold ds3 at 3.
    apply Forall_cons; [split|apply Forall_cons; [split|apply Forall_cons; [split|apply Forall_nil]]]; cbn [fst snd].
    - constructor.
    - change TInt with (open TInt 0 (TVar 1) 0). apply (t_app _ (TVar 4) (TVar 1) TInt TInt); apply Hv; reflexivity.
    - constructor.
    - change TInt with (open TInt 0 (TVar 2) 0). apply (t_app _ (TVar 3) (TVar 2) TInt TInt); apply Hv; reflexivity.
    - change TType with (open TType 0 (TVar 2) 0). apply (t_app _ (TVar 5) (TVar 2) TInt TType); apply Hv; reflexivity.
    - apply Hv. reflexivity. }
  assert (Hb : has_type (enter ds3 Gc) (TVar 0) Aq3) by (apply Hv; reflexivity).
  split.
  - exact (t_let Gc ds3 (TVar 0) Aq3 HF Hb).
  - exact (swap_defs_typing_root Gc 0 ds3 (TVar 0) Aq3 Gc_wf HF Hb).
Qed.

(* the two families of reducts *)
Definition dYt := TApp (TVar 1) (TApp (TVar 2) (TVar 0)).    (* e (c y) inside the group of y *)
Definition dXt := TApp (TVar 2) (TApp (TVar 1) (TVar 0)).    (* c (e x) inside the group of x *)
Inductive RY : term -> Prop :=
| ry_fix a : RY (TLet [(a, dYt)] (TVar 0))
| ry_unf t : RY t -> RY (TApp (TVar 0) (TApp (TVar 1) t)).
Inductive RX : term -> Prop :=
| rx_fix a : RX (TLet [(a, dXt)] (TVar 0))
| rx_unf t : RX t -> RX (TApp (TVar 1) (TApp (TVar 0) t)).

Lemma pred_var k t : pred (TVar k) t -> t = TVar k.
Proof. apply pred_atom_inv. reflexivity. Qed.
Lemma pred_napp k s t : pred (TApp (TVar k) s) t -> exists s', t = TApp (TVar k) s' /\ pred s s'.
Proof. intros H. inversion H; subst; try discriminate. apply pred_var in H2. subst. eauto. Qed.
Lemma pred_napp2 k j v t : pred (TApp (TVar k) (TApp (TVar j) (TVar v))) t -> t = TApp (TVar k) (TApp (TVar j) (TVar v)).
Proof.
  intros H. apply pred_napp in H as (s & -> & H). apply pred_napp in H as (s' & -> & H). apply pred_var in H. now subst.
Qed.
Lemma pred_napp1 k v t : pred (TApp (TVar k) (TVar v)) t -> t = TApp (TVar k) (TVar v).
Proof. intros H. apply pred_napp in H as (s & -> & H). apply pred_var in H. now subst. Qed.

Lemma pred_let_inv ds b t : pred (TLet ds b) t ->
  exists ds' b', preds ds ds' /\ pred b b' /\ (t = TLet ds' b' \/ t = let_whnf_body ds' b').
Proof. intros H. inversion H; subst; try discriminate; eauto 8. Qed.

Lemma preds_cons_inv a d l l' : preds ((a, d) :: l) l' ->
  exists a' d' l2, l' = (a', d') :: l2 /\ pred d d' /\ preds l l2.
Proof. intros H. inversion H; subst. eauto 8. Qed.
Lemma preds_nil_inv l' : preds [] l' -> l' = [].
Proof. intros H. inversion H. reflexivity. Qed.
Lemma preds1 a d l : preds [(a, d)] l -> exists a' d', l = [(a', d')] /\ pred d d'.
Proof.
  intros H. apply preds_cons_inv in H as (a' & d' & l2 & -> & P & H). apply preds_nil_inv in H. subst. eauto.
Qed.
Lemma preds3 a1 d1 a2 d2 a3 d3 l : preds [(a1, d1); (a2, d2); (a3, d3)] l ->
  exists b1 e1 b2 e2 b3 e3, l = [(b1, e1); (b2, e2); (b3, e3)] /\ pred d1 e1 /\ pred d2 e2 /\ pred d3 e3.
Proof.
  intros H. apply preds_cons_inv in H as (b1 & e1 & l1 & -> & P1 & H).
  apply preds_cons_inv in H as (b2 & e2 & l2 & -> & P2 & H).
  apply preds_cons_inv in H as (b3 & e3 & l3 & -> & P3 & H). apply preds_nil_inv in H. subst.
  do 6 eexists. repeat split; eauto.
Qed.

Lemma RY_pred t : RY t -> forall t', pred t t' -> RY t'.
Proof.
  induction 1; intros t' P.
  - apply pred_let_inv in P as (ds' & b' & Pd & Pb & E). apply pred_var in Pb. subst b'.
    apply preds1 in Pd as (a' & d' & -> & Pd). apply pred_napp2 in Pd. subst d'.
    destruct E as [-> | ->]; [constructor|].
    rewrite lwb_single. unfold unfold_first, dYt.
    cbn [open ushift Nat.eqb open_idx up_idx Nat.ltb Nat.leb Nat.add Nat.sub map length].
    apply ry_unf, ry_fix.
  - apply pred_napp in P as (s & -> & P). apply pred_napp in P as (s' & -> & P). apply ry_unf. now apply IHRY.
Qed.
Lemma RX_pred t : RX t -> forall t', pred t t' -> RX t'.
Proof.
  induction 1; intros t' P.
  - apply pred_let_inv in P as (ds' & b' & Pd & Pb & E). apply pred_var in Pb. subst b'.
    apply preds1 in Pd as (a' & d' & -> & Pd). apply pred_napp2 in Pd. subst d'.
    destruct E as [-> | ->]; [constructor|].
    rewrite lwb_single. unfold unfold_first, dXt.
    cbn [open ushift Nat.eqb open_idx up_idx Nat.ltb Nat.leb Nat.add Nat.sub map length].
    apply rx_unf, rx_fix.
  - apply pred_napp in P as (s & -> & P). apply pred_napp in P as (s' & -> & P). apply rx_unf. now apply IHRX.
Qed.

Lemma RX_RY_disjoint t : RX t -> RY (TApp (TVar 0) t) -> False.
Proof.
  induction 1 as [a|t HX IH]; intros HY; inversion HY; subst.
  apply IH. assumption.
Qed.

(* reducts of the two projections *)
Definition FX (t : term) : Prop :=
  (exists a1 a2 a3, t = TLet [(a1, dx3); (a2, dy3); (a3, TVar 0)] (TVar 2)) \/ (exists t', t = TApp (TVar 1) t' /\ RY t').
Definition FX' (t : term) : Prop :=
  (exists a1 a2 a3, t = TLet [(a1, dy3'); (a2, dx3'); (a3, TVar 0)] (TVar 1)) \/ RX t.

Lemma FX_pred t t' : FX t -> pred t t' -> FX t'.
Proof.
  intros [(a1 & a2 & a3 & ->)|(s & -> & HY)] P.
  - apply pred_let_inv in P as (ds' & b' & Pd & Pb & E). apply pred_var in Pb. subst b'.
    apply preds3 in Pd as (b1 & e1 & b2 & e2 & b3 & e3 & -> & P1 & P2 & P3).
    apply pred_napp1 in P1. apply pred_napp1 in P2. apply pred_var in P3. subst e1 e2 e3.
    destruct E as [-> | ->]; [left; eauto|]. right.
    unfold let_whnf_body. cbn [length let_subst nth_error Nat.sub]. unfold unfold_def, unfold_first, dx3, dy3.
    cbn [open ushift open_from Nat.eqb Nat.ltb Nat.leb open_idx up_idx Nat.add Nat.sub map length let_subst nth_error].
    eexists. split; [reflexivity|]. apply ry_unf, ry_fix.
  - apply pred_napp in P as (s' & -> & P). right. eexists. split; [reflexivity|]. eapply RY_pred; eauto.
Qed.
Lemma FX'_pred t t' : FX' t -> pred t t' -> FX' t'.
Proof.
  intros [(a1 & a2 & a3 & ->)|HX] P.
  - apply pred_let_inv in P as (ds' & b' & Pd & Pb & E). apply pred_var in Pb. subst b'.
    apply preds3 in Pd as (b1 & e1 & b2 & e2 & b3 & e3 & -> & P1 & P2 & P3).
    apply pred_napp1 in P1. apply pred_napp1 in P2. apply pred_var in P3. subst e1 e2 e3.
    destruct E as [-> | ->]; [left; eauto|]. right.
    unfold let_whnf_body. cbn [length let_subst nth_error Nat.sub]. unfold unfold_def, unfold_first, dx3', dy3'.
    cbn [open ushift open_from Nat.eqb Nat.ltb Nat.leb open_idx up_idx Nat.add Nat.sub map length let_subst nth_error].
    apply rx_unf, rx_fix.
  - right. eapply RX_pred; eauto.
Qed.

Lemma FX_pstar t t' : pstar t t' -> FX t -> FX t'.
Proof. induction 1; auto. intros. eapply FX_pred; eauto. Qed.
Lemma FX'_pstar t t' : pstar t t' -> FX' t -> FX' t'.
Proof. induction 1; auto. intros. eapply FX'_pred; eauto. Qed.

Lemma FX_FX'_disjoint t : FX t -> FX' t -> False.
Proof.
  intros [(a1 & a2 & a3 & ->)|(s & -> & HY)] [(b1 & b2 & b3 & E)|HX]; try discriminate E.
  - inversion HX.
  - inversion HX; subst. eapply RX_RY_disjoint; eauto.
Qed.

Definition Px := TLet ds3 (TVar 2).                                   (* the group; x *)
Definition Px' := TLet [(TInt, dy3'); (TInt, dx3'); (TApp (TVar 5) (TVar 1), TVar 0)] (TVar 1).
Example Px'_is : Px' = swap_defs 0 Px. Proof. reflexivity. Qed.

Lemma not_conv0 : ~ conv0 (TApp (TVar 2) Px') (TApp (TVar 2) Px).
Proof.
  intros C. apply church_rosser in C as (u & P1 & P2); try reflexivity.
  apply pstar_app_inv in P1 as (f1 & u1 & -> & _ & Q1); [|reflexivity].
  apply pstar_app_inv in P2 as (f2 & u2 & E & _ & Q2); [|reflexivity]. injection E as _ <-.
  apply (FX_FX'_disjoint u1).
  - apply (FX_pstar _ _ Q2). left. unfold Px, ds3. eauto.
  - apply (FX'_pstar _ _ Q1). left. unfold Px'. eauto.
Qed.

Theorem swapped_type_not_conv : ~ conv Gc T3' T3.
Proof. intros C. apply (conv_nodefs_conv0 _ _ _ Gc_nodefs) in C. exact (not_conv0 C). Qed.

(* ACCEPTANCE can be lost when the exchange happens inside a type annotation of a dependently typed program:
   in the context  q : F (the group; x)   the term  ((p : F (the group; x)) => 0) q  is typable; with the
   two definitions of the group exchanged in the annotation only, it is not *)
Definition Gq : ctx := bind Gc (TApp (TVar 2) Px).
Definition tq := TApp (TLam false (TApp (TVar 3) (ushift Px 0 1)) (TLit 0)) (TVar 0).
Definition tq' := TApp (TLam false (TApp (TVar 3) (ushift Px' 0 1)) (TLit 0)) (TVar 0).

Example tq_swap_at : swap_at tq tq'.
Proof.
  unfold tq, tq'. apply SA_app_l, SA_lam_dom, SA_app_r.
  change (ushift Px' 0 1) with (swap_defs 0 (ushift Px 0 1)).
  unfold Px, ds3. cbn [ushift map length]. eapply SA_root; reflexivity.
Qed.

Example tq_typed : has_type Gq tq TInt.
Proof.
  assert (Hv : forall G i T, lookup_ty G i = Some T -> has_type G (TVar i) T) by (intros; now apply t_var).
  unfold tq.
  refine (t_app Gq _ (TVar 0) (TApp (TVar 3) (ushift Px 0 1)) TInt _ _); [|apply Hv; reflexivity].
  apply t_lam; [|constructor].
  refine (t_app Gq (TVar 3) _ TInt TType _ _); [apply Hv; reflexivity|].
  unfold Px, ds3. cbn [ushift map length]. unfold up_idx. cbn [Nat.leb Nat.add].
  set (dsq := [(TInt, ushift dx3 3 1); (TInt, ushift dy3 3 1); (ushift Aq3 3 1, TVar 0)]).
  refine (t_let Gq dsq (TVar 2) TInt _ _); [|apply Hv; reflexivity].
  unfold dsq at 3.
  apply Forall_cons; [split|apply Forall_cons; [split|apply Forall_cons; [split|apply Forall_nil]]]; cbn [fst snd].
  - constructor.
  - refine (t_app _ (TVar 5) (TVar 1) TInt TInt _ _); apply Hv; reflexivity.
  - constructor.
  - refine (t_app _ (TVar 4) (TVar 2) TInt TInt _ _); apply Hv; reflexivity.
  - refine (t_app _ (TVar 6) (TVar 2) TInt TType _ _); apply Hv; reflexivity.
  - apply Hv. reflexivity.
Qed.

Lemma Gq_nodefs : ConfluenceConvb.nodefs Gq.
Proof. apply ConfluenceConvb.nodefs_bind, Gc_nodefs. Qed.

Theorem tq'_untypable : forall T, ~ has_type Gq tq' T.
Proof.
  intros T H. unfold tq' in H.
  apply gen_app in H as (A & B & Hl & Hq & _).
  apply gen_lam in Hl as (B0 & _ & _ & C1). apply gen_var in Hq as (X & EX & C2).
  vm_compute in EX. injection EX as <-.
  apply (conv_nodefs_conv0 _ _ _ Gq_nodefs) in C1. apply (conv_nodefs_conv0 _ _ _ Gq_nodefs) in C2.
  cbn [strip] in C1. apply conv0_pi_inj_strip in C1 as (_ & C1 & _).
  rewrite (strip_id (strip A) (strip_hf A)) in C1.
  assert (C : conv0 (strip (TApp (TVar 3) (ushift Px' 0 1))) (strip (TApp (TVar 3) (ushift Px 0 1)))).
  { eapply c0_trans; [exact C1|]. apply c0_sym. exact C2. }
  rewrite !strip_id in C by reflexivity.
  apply (ConfluenceTyping.conv0_open _ _ 0 TType 0) in C; try reflexivity.
  exact (not_conv0 C).
Qed.

Theorem exchange_in_annotation_loses_acceptance :
  exists G t t', wf_offsets G /\ swap_at t t' /\ (exists T, has_type G t T) /\ forall T', ~ has_type G t' T'.
Proof.
  exists Gq, tq, tq'. split; [apply wf_offsets_bind, Gc_wf|]. split; [exact tq_swap_at|].
  split; [exists TInt; exact tq_typed | exact tq'_untypable].
Qed.

(* summary: both programs are typable, with the types of the rule, and these two types are not convertible *)
Theorem exchange_changes_type :
  exists G ds b B, wf_offsets G /\
    has_type G (TLet ds b) (group_type (length ds) ds 0 (length ds) B) /\
    has_type G (swap_defs 0 (TLet ds b)) (swapped_ty 0 ds B) /\
    ~ conv G (swapped_ty 0 ds B) (group_type (length ds) ds 0 (length ds) B).
Proof.
  exists Gc, ds3, (TVar 0), Aq3. split; [exact Gc_wf|]. split; [exact (proj1 g3_typed)|].
  split; [exact (proj2 g3_typed) | exact swapped_type_not_conv].
Qed.
End NotConv.

Print Assumptions NotConv.exchange_changes_type.
Print Assumptions NotConv.exchange_in_annotation_loses_acceptance.
Print Assumptions checkS_swap_at.
Print Assumptions simple_swaps_at_typed.
Print Assumptions swap_defs_invol.
Print Assumptions NotConv.swapped_type_not_conv.
