(* C12 on Model B: type checking keeps the store acyclic (tcB_acyclic), by a generic preservation theorem. *)
From Coq Require Import List ZArith Lia Bool Arith Relations.
Import ListNotations.
Require Import Gram.Model.Term Gram.Model.DeBruijn Gram.Model.ModelB Gram.Proofs.ModelBProofs Gram.Proofs.StoreProofs Gram.Proofs.StoreTc Gram.Proofs.AcyclicProofs.

(* ---------- any store property kept by allocation and by unification is kept by type checking ---------- *)
Section Preserve.
Variable Q : storeB -> Prop.
Hypothesis Qgrow : forall s s', grow s s' -> Q s -> Q s'.
Hypothesis Qunify : forall f s D a b ok s', unifyB f s D a b = Some (ok, s') -> Q s -> Q s'.

Lemma expectB_Q f s D a w e es s' es' : expectB f s D a w e es = Some (s', es') -> Q s -> Q s'.
Proof. unfold expectB. intros H. destruct (unifyB f s D a w) as [[ok s1]|] eqn:U; [|discriminate]. injection H as <- _. eapply Qunify; eauto. Qed.

Lemma tc_defs_Q f (tc : storeB -> term -> option tcres) D' :
  (forall s0 d r, tc s0 d = Some r -> Q s0 -> Q (b_st r)) ->
  forall l s0 es l' s1 es1, tc_defs f tc D' l s0 es = Some (l', s1, es1) -> Q s0 -> Q s1.
Proof.
  intros Htc. induction l as [|[a d] rest IHl]; intros s0 es l' s1 es1 H Q0; cbn [tc_defs] in H; [injection H as _ <- _; exact Q0|].
  destruct (tc s0 a) as [ra|] eqn:Ra; [|discriminate].
  destruct (expectB f (b_st ra) D' (b_ty ra) TType ENotType (es ++ b_errs ra)) as [[s0a es0]|] eqn:X1; [|discriminate].
  destruct (tc s0a d) as [rd|] eqn:Rd; [|discriminate].
  destruct (expectB f (b_st rd) D' (b_ty rd) a EAnnotation (es0 ++ b_errs rd)) as [[s1' es1']|] eqn:X2; [|discriminate].
  destruct (tc_defs f tc D' rest s1' es1') as [[[rest' s2] es2]|] eqn:Z; [|discriminate]. injection H as _ <- _.
  eapply IHl; [exact Z|]. eapply expectB_Q; [exact X2|]. eapply Htc; [exact Rd|]. eapply expectB_Q; [exact X1|]. eapply Htc; [exact Ra | exact Q0].
Qed.

Theorem tcB_preserves : forall f s G D t r, tcB f s G D t = Some r -> Q s -> Q (b_st r).
Proof.
  induction f as [|f IH]; intros s G D t r H Q0; [discriminate|].
  destruct t; cbn [tcB] in H.
  1-7: injection H as <-; exact Q0.
  - break_match H; injection H as <-; exact Q0.
  - (* lam *)
    destruct (tcB f s G D t1) as [rd|] eqn:Rd; [|discriminate].
    destruct (expectB f (b_st rd) D (b_ty rd) TType ENotType (b_errs rd)) as [[s1 es1]|] eqn:X; [|discriminate].
    destruct (tcB f s1 ((b_elab rd, 0) :: G) (None :: D) t2) as [rb|] eqn:Rb; [|discriminate]. injection H as <-. cbn [b_st].
    eapply IH; [exact Rb|]. eapply expectB_Q; [exact X|]. eapply IH; [exact Rd | exact Q0].
  - (* pi *)
    destruct (tcB f s G D t1) as [rd|] eqn:Rd; [|discriminate].
    destruct (expectB f (b_st rd) D (b_ty rd) TType ENotType (b_errs rd)) as [[s1 es1]|] eqn:X; [|discriminate].
    destruct (tcB f s1 ((b_elab rd, 0) :: G) (None :: D) t2) as [rb|] eqn:Rb; [|discriminate].
    destruct (expectB f (b_st rb) (None :: D) (b_ty rb) TType ENotType (es1 ++ b_errs rb)) as [[s2 es2]|] eqn:Y; [|discriminate].
    injection H as <-. cbn [b_st].
    eapply expectB_Q; [exact Y|]. eapply IH; [exact Rb|]. eapply expectB_Q; [exact X|]. eapply IH; [exact Rd | exact Q0].
  - (* app *)
    destruct (tcB f s G D t1) as [ra|] eqn:Ra; [|discriminate].
    unfold fresh_hole, salloc in H.
    match type of H with context [expectB f ?s2 D ?p (b_ty ra) ENotFunction (b_errs ra)] =>
      destruct (expectB f s2 D p (b_ty ra) ENotFunction (b_errs ra)) as [[s3 es3]|] eqn:X; [|discriminate];
      assert (A2 : grow (b_st ra) s2) by (exists 2; rewrite <- app_assoc; reflexivity) end.
    destruct (tcB f s3 G D t2) as [rb|] eqn:Rb; [|discriminate].
    match type of H with context [expectB f (b_st rb) D ?dom (b_ty rb) EArgument ?es] =>
      destruct (expectB f (b_st rb) D dom (b_ty rb) EArgument es) as [[s4 es4]|] eqn:Y; [|discriminate] end.
    match type of H with context [openB f s4 ?cod 0 (b_elab rb) 0] =>
      destruct (openB f s4 cod 0 (b_elab rb) 0) as [[T s5]|] eqn:O; [|discriminate] end.
    injection H as <-. cbn [b_st].
    eapply Qgrow; [eapply openB_grow; exact O|]. eapply expectB_Q; [exact Y|]. eapply IH; [exact Rb|].
    eapply expectB_Q; [exact X|]. eapply Qgrow; [exact A2|]. eapply IH; [exact Ra | exact Q0].
  - (* let *)
    match type of H with context [tc_defs f ?tc ?D' defs s []] =>
      destruct (tc_defs f tc D' defs s []) as [[[ds' s1] es1]|] eqn:Z; [|discriminate];
      assert (A1 : Q s1) by (eapply (tc_defs_Q f tc D'); [intros s0 d r0 Hr Qs; eapply IH; [exact Hr | exact Qs] | exact Z | exact Q0]) end.
    match type of H with context [tcB f s1 ?G' ?D' t] =>
      destruct (tcB f s1 G' D' t) as [rb|] eqn:Rb; [|discriminate] end.
    destruct (group_typeB f (length defs) ds' 0 (length defs) (b_ty rb) (b_st rb)) as [[T' s3]|] eqn:GT; [|discriminate].
    injection H as <-. cbn [b_st].
    eapply Qgrow; [eapply group_typeB_grow; exact GT|]. eapply IH; [exact Rb | exact A1].
  - (* neg *)
    destruct (tcB f s G D t) as [ra|] eqn:Ra; [|discriminate].
    destruct (expectB f (b_st ra) D (b_ty ra) TInt ENotInt (b_errs ra)) as [[s1 es1]|] eqn:X; [|discriminate]. injection H as <-. cbn [b_st].
    eapply expectB_Q; [exact X|]. eapply IH; [exact Ra | exact Q0].
  - (* bin *)
    destruct (tcB f s G D t1) as [ra|] eqn:Ra; [|discriminate].
    destruct (expectB f (b_st ra) D (b_ty ra) TInt ENotInt (b_errs ra)) as [[s1 es1]|] eqn:X; [|discriminate].
    destruct (tcB f s1 G D t2) as [rb|] eqn:Rb; [|discriminate].
    destruct (expectB f (b_st rb) D (b_ty rb) TInt ENotInt (es1 ++ b_errs rb)) as [[s2 es2]|] eqn:Y; [|discriminate]. injection H as <-. cbn [b_st].
    eapply expectB_Q; [exact Y|]. eapply IH; [exact Rb|]. eapply expectB_Q; [exact X|]. eapply IH; [exact Ra | exact Q0].
  - (* if *)
    destruct (tcB f s G D t1) as [rc|] eqn:Rc; [|discriminate].
    destruct (expectB f (b_st rc) D (b_ty rc) TBool ENotBool (b_errs rc)) as [[s1 es1]|] eqn:X; [|discriminate].
    destruct (tcB f s1 G D t2) as [ra|] eqn:Ra; [|discriminate].
    destruct (tcB f (b_st ra) G D t3) as [rb|] eqn:Rb; [|discriminate].
    destruct (expectB f (b_st rb) D (b_ty ra) (b_ty rb) EBranches (es1 ++ b_errs ra ++ b_errs rb)) as [[s2 es2]|] eqn:Y; [|discriminate].
    injection H as <-. cbn [b_st].
    eapply expectB_Q; [exact Y|]. eapply IH; [exact Rb|]. eapply IH; [exact Ra|]. eapply expectB_Q; [exact X|]. eapply IH; [exact Rc | exact Q0].
Qed.
End Preserve.

(* type checking never records a cyclic solution; a store of unsolved cells is acyclic *)
Theorem tcB_acyclic : forall f s G D t r, tcB f s G D t = Some r -> acyclic s -> acyclic (b_st r).
Proof. exact (tcB_preserves acyclic grow_acyclic unifyB_acyclic). Qed.

Lemma acyclic_unsolved n : acyclic (repeat None n).
Proof.
  assert (E : forall i j, ~ edge (repeat None n) i j).
  { intros i j (so & G & _). unfold sget in G. destruct (nth_error (repeat None n) i) as [o|] eqn:N; [|discriminate].
    apply nth_error_In, repeat_spec in N. subst o. discriminate. }
  intros i C. apply clos_trans_t1n in C. inversion C as [? X | ? ? X _]; subst; exact (E _ _ X).
Qed.

Corollary checkB_store_acyclic : forall f t nholes r, tcB f (repeat None nholes) [] [] t = Some r -> acyclic (b_st r).
Proof. intros f t n r H. exact (tcB_acyclic _ _ _ _ _ _ H (acyclic_unsolved n)). Qed.
