(* Subject reduction FAILS for has_type on groups with several definitions.

     x : int -> int    = (n : int) => ((p : F x) => x n) q
     q : F x           = q
     F : (int -> int) -> type = F
     0

   is typable (no conversion step is even needed), hole-free and closed; its first definition is a value,
   so the evaluator substitutes it: x becomes  u = (n) => ((p : F P) => P n) q  where P is the
   single-definition group  `z : int -> int = (n) => ((p : F z) => z n) q ; z`  built by unfold_first, and
   the annotation of q becomes F u.  To type P one must type its definition with q : F u against the
   parameter annotation F z: conv needs z = u, i.e. a common reduct of the group variable z (every reduct of
   which mentions z in head position) and of u (no reduct of which mentions z outside annotations).
   There is none, so the reduct has NO type at all:  sr_fails. *)
From Coq Require Import List ZArith Lia Bool Arith Relations.
Import ListNotations.
Require Import Gram.Model.Term Gram.Model.DeBruijn Gram.Model.Eval Gram.Spec.Cbv Gram.Spec.Typing
  Gram.Proofs.DeBruijnLaws Gram.Proofs.CtxProofs Gram.Proofs.WeakenProofs Gram.Proofs.WeakenInfer Gram.Proofs.CbvProofs
  Gram.Proofs.ConflLaws Gram.Proofs.Confluence Gram.Proofs.ConfluenceEval Gram.Proofs.ConfluenceDelta
  Gram.Proofs.ConvConsistent Gram.Proofs.ConvProofs Gram.Proofs.PGConv.

(* ---------- generation lemmas for has_type ---------- *)
Lemma gen_var G i T : has_type G (TVar i) T -> exists X, lookup_ty G i = Some X /\ conv G X T.
Proof.
  intros H. remember (TVar i) as v eqn:E. revert i E. induction H; intros i' E; try discriminate.
  - injection E as ->. eauto using c_refl.
  - destruct (IHhas_type _ E) as (X & K1 & K2). eauto using c_trans.
Qed.

Lemma gen_lam G im d b T : has_type G (TLam im d b) T ->
  exists B, has_type G d TType /\ has_type (bind G d) b B /\ conv G (TPi im d B) T.
Proof.
  intros H. remember (TLam im d b) as v eqn:E. revert im d b E. induction H; intros im' d' b' E; try discriminate.
  - injection E as -> -> ->. exists B. repeat split; auto using c_refl.
  - destruct (IHhas_type _ _ _ E) as (B0 & K1 & K2 & K3). exists B0. repeat split; eauto using c_trans.
Qed.

Lemma gen_app G f a T : has_type G (TApp f a) T ->
  exists A B, has_type G f (TPi false A B) /\ has_type G a A /\ conv G (open B 0 a 0) T.
Proof.
  intros H. remember (TApp f a) as v eqn:E. revert f a E. induction H; intros f' a' E; try discriminate.
  - injection E as -> ->. exists A, B. repeat split; auto using c_refl.
  - destruct (IHhas_type _ _ E) as (A0 & B0 & K1 & K2 & K3). exists A0, B0. repeat split; eauto using c_trans.
Qed.

Lemma gen_let G ds b T : has_type G (TLet ds b) T ->
  exists B, Forall (fun p => has_type (enter ds G) (fst p) TType /\ has_type (enter ds G) (snd p) (fst p)) ds /\
            has_type (enter ds G) b B /\ conv G (group_type (length ds) ds 0 (length ds) B) T.
Proof.
  intros H. remember (TLet ds b) as v eqn:E. revert ds b E. induction H; intros ds' b' E; try discriminate.
  - injection E as -> ->. exists B. repeat split; auto using c_refl.
  - destruct (IHhas_type _ _ E) as (B0 & K1 & K2 & K3). exists B0. repeat split; eauto using c_trans.
Qed.

(* ---------- erasure of all annotations (parallel reduction may change them arbitrarily) ---------- *)
Fixpoint era (t : term) : term :=
  match t with
  | THole _ _ | TType | TInt | TBool | TTrue | TFalse | TLit _ | TVar _ => t
  | TLam im d b => TLam im TType (era b)
  | TPi im d b => TPi im (era d) (era b)
  | TApp f a => TApp (era f) (era a)
  | TLet ds b => TLet (map (fun p : term * term => let '(a, d) := p in (TType, era d)) ds) (era b)
  | TNeg a => TNeg (era a)
  | TBin o a b => TBin o (era a) (era b)
  | TIf c a b => TIf (era c) (era a) (era b)
  end.
Definition eras (ds : list (term * term)) := map (fun p : term * term => let '(a, d) := p in (TType, era d)) ds.

Lemma era_ushift : forall t c n, era (ushift t c n) = ushift (era t) c n.
Proof.
  induction t using term_ind'; intros c n; cbn [era ushift]; try reflexivity; try (f_equal; auto; fail).
  rewrite !map_length, !map_map. f_equal; auto.
  apply map_ext_Forall. eapply Forall_impl; [|exact H]. intros [a d] [Ha Hd]; cbn [fst snd] in *.
  now rewrite Hd.
Qed.

Lemma era_open : forall t i s k, era (open t i s k) = open (era t) i (era s) k.
Proof.
  induction t using term_ind'; intros i0 s0 k0; cbn [era open]; try reflexivity; try (f_equal; auto; fail).
  - destruct (Nat.eqb i i0); [apply era_ushift | reflexivity].
  - rewrite !map_length, !map_map. f_equal; auto.
    apply map_ext_Forall. eapply Forall_impl; [|exact H]. intros [a d] [Ha Hd]; cbn [fst snd] in *.
    now rewrite Hd.
Qed.

Lemma era_hf : forall t, hole_free t = true -> hole_free (era t) = true.
Proof.
  induction t using term_ind'; cbn [era hole_free]; intros Hf; try discriminate; auto; split_hf;
    try (repeat (apply andb_true_intro; split); auto; fail).
  apply andb_true_intro. split; auto.
  apply hf_defs_map. intros a d Hin. rewrite Forall_forall in H. destruct (H _ Hin) as [_ Hd]. cbn [fst snd] in *.
  destruct (hf_defs_In _ _ _ H0 Hin). auto.
Qed.

Lemma era_unfold_first ann d idx : era (unfold_first ann d idx) = unfold_first TType (era d) idx.
Proof. unfold unfold_first. rewrite era_open. cbn [era map open ushift]. now rewrite !era_open, !era_ushift. Qed.

Lemma eras_open_from : forall ds j i idx u,
  eras (open_from j i idx u ds) = open_from j i idx (era u) (eras ds).
Proof.
  induction ds as [|[a d] r IH]; intros; cbn [open_from eras map]; [reflexivity|].
  fold (eras r). fold (eras (open_from (S j) i idx u r)). rewrite IH.
  destruct (Nat.ltb j i); [reflexivity | now rewrite !era_open].
Qed.

Lemma era_let_subst : forall k n i ds body,
  era (let_subst k n i ds body) = let_subst k n i (eras ds) (era body).
Proof.
  induction k as [|k IH]; intros n i ds body; cbn [let_subst]; [reflexivity|].
  unfold eras at 1. rewrite nth_error_map. destruct (nth_error ds i) as [[ann def]|]; cbn [option_map]; [|reflexivity].
  rewrite IH, eras_open_from, era_open. unfold unfold_def. now rewrite era_unfold_first.
Qed.

Lemma era_let_whnf_body ds b : era (let_whnf_body ds b) = let_whnf_body (eras ds) (era b).
Proof. unfold let_whnf_body, eras. rewrite map_length. apply era_let_subst. Qed.

Lemma arith_era o x y r : arith o x y = Some r -> era r = r.
Proof.
  destruct o; cbn; try (intros [= <-]; reflexivity);
    try (intros [= <-]; match goal with |- context[if ?b then _ else _] => destruct b end; reflexivity).
  destruct (y =? 0)%Z; [discriminate|]. intros [= <-]. reflexivity.
Qed.

Lemma hf_defs_shp c n ds : hf_defs (map (shp c n) ds) = hf_defs ds.
Proof.
  unfold hf_defs. induction ds as [|[a d] r IH]; cbn [map forallb shp]; [reflexivity|].
  now rewrite !hole_free_ushift_eq, IH.
Qed.

(* ---------- "variable zz does not occur outside annotations" is preserved by parallel reduction ---------- *)
Section ZFree.
Variable D : nat -> option term.
Hypothesis Dh : dhf D.
Variable zz : nat.
Hypothesis Hother : forall j d, D j = Some d -> j <> zz -> exists d0, era d = ushift d0 zz 1.

Definition Q (m : nat) (t : term) : Prop := exists t0, era t = ushift t0 (zz + m) 1.
Definition Qs (m : nat) (ds : list (term * term)) : Prop := exists ds0, eras ds = map (shp (zz + m) 1) ds0.

Ltac inv_shift E t0 :=
  destruct t0; cbn [ushift] in E; try discriminate E.

Lemma Q_pres_mut :
  (forall m t t', dpred D m t t' -> Q m t -> Q m t') /\
  (forall m ds ds', dpreds D m ds ds' -> Qs m ds -> Qs m ds').
Proof.
  apply dpred_mutind; intros; auto.
  - (* delta *)
    destruct H0 as (t0 & E). cbn [era] in E. inv_shift E t0. injection E as E.
    assert (Hj : j <> zz) by (unfold up_idx in E; destruct (Nat.leb_spec (zz + m) i); lia).
    destruct (Hother _ _ H Hj) as (d0 & Ed). exists (ushift d0 0 m).
    rewrite era_ushift, Ed. symmetry. apply ushift_comm. lia.
  - (* lam *)
    destruct H3 as (t0 & E). cbn [era] in E. inv_shift E t0. injection E as -> E1 E2.
    destruct H2 as (b0 & Eb); [exists t0_2; now replace (zz + S m) with (S (zz + m)) by lia|].
    exists (TLam impl TType b0). cbn [era ushift]. rewrite Eb. now replace (zz + S m) with (S (zz + m)) by lia.
  - (* pi *)
    destruct H3 as (t0 & E). cbn [era] in E. inv_shift E t0. injection E as -> E1 E2.
    destruct H0 as (d0 & Ed); [now exists t0_1|].
    destruct H2 as (b0 & Eb); [exists t0_2; now replace (zz + S m) with (S (zz + m)) by lia|].
    exists (TPi impl d0 b0). cbn [era ushift]. rewrite Ed, Eb. now replace (zz + S m) with (S (zz + m)) by lia.
  - (* app *)
    destruct H3 as (t0 & E). cbn [era] in E. inv_shift E t0. injection E as E1 E2.
    destruct H0 as (f0 & Ef); [now exists t0_1|]. destruct H2 as (a0 & Ea); [now exists t0_2|].
    exists (TApp f0 a0). cbn [era ushift]. now rewrite Ef, Ea.
  - (* neg *)
    destruct H1 as (t0 & E). cbn [era] in E. inv_shift E t0. injection E as E1.
    destruct H0 as (a0 & Ea); [now exists t0|]. exists (TNeg a0). cbn [era ushift]. now rewrite Ea.
  - (* bin *)
    destruct H3 as (t0 & E). cbn [era] in E. inv_shift E t0. injection E as -> E1 E2.
    destruct H0 as (f0 & Ef); [now exists t0_1|]. destruct H2 as (a0 & Ea); [now exists t0_2|].
    exists (TBin o0 f0 a0). cbn [era ushift]. now rewrite Ef, Ea.
  - (* if *)
    destruct H5 as (t0 & E). cbn [era] in E. inv_shift E t0. injection E as E1 E2 E3.
    destruct H0 as (c0 & Ec); [now exists t0_1|]. destruct H2 as (a0 & Ea); [now exists t0_2|].
    destruct H4 as (b0 & Eb); [now exists t0_3|].
    exists (TIf c0 a0 b0). cbn [era ushift]. now rewrite Ec, Ea, Eb.
  - (* let *)
    destruct H3 as (t0 & E). cbn [era] in E. inv_shift E t0. injection E as E1 E2.
    assert (L : length defs = length ds) by (apply (f_equal (@length _)) in E1; now rewrite !map_length in E1).
    rewrite L in *.
    destruct H0 as (ds0 & Eds); [exists defs; replace (zz + (length ds + m)) with (length ds + (zz + m)) by lia; exact E1|].
    destruct H2 as (b0 & Eb); [exists t0; replace (zz + (length ds + m)) with (length ds + (zz + m)) by lia; exact E2|].
    assert (L0 : length ds0 = length ds).
    { apply (f_equal (@length _)) in Eds. unfold eras in Eds. rewrite !map_length in Eds.
      rewrite <- Eds. symmetry. eapply dpreds_length; eauto. }
    exists (TLet ds0 b0). cbn [era ushift]. fold (eras ds'). rewrite Eds, Eb, L0.
    now replace (zz + (length ds + m)) with (length ds + (zz + m)) by lia.
  - (* unfold *)
    destruct H3 as (t0 & E). cbn [era] in E. inv_shift E t0. injection E as E1 E2.
    assert (L : length defs = length ds) by (apply (f_equal (@length _)) in E1; now rewrite !map_length in E1).
    rewrite L in *.
    destruct H0 as (ds0 & Eds); [exists defs; replace (zz + (length ds + m)) with (length ds + (zz + m)) by lia; exact E1|].
    destruct H2 as (b0 & Eb); [exists t0; replace (zz + (length ds + m)) with (length ds + (zz + m)) by lia; exact E2|].
    assert (L0 : length ds0 = length ds).
    { apply (f_equal (@length _)) in Eds. unfold eras in Eds. rewrite !map_length in Eds.
      rewrite <- Eds. symmetry. eapply dpreds_length; eauto. }
    replace (zz + (length ds + m)) with (length ds0 + (zz + m)) in Eds, Eb by lia.
    assert (Fds0 : hf_defs ds0 = true).
    { rewrite <- (hf_defs_shp (length ds0 + (zz + m)) 1), <- Eds. unfold eras. apply hf_defs_map.
      intros a d Hin. cbn [fst snd]. split; [reflexivity|]. apply era_hf.
      exact (proj2 (hf_defs_In _ _ _ (dpreds_hf_r _ Dh _ _ _ H) Hin)). }
    assert (Fb0 : hole_free b0 = true).
    { rewrite <- (hole_free_ushift_eq b0 (length ds0 + (zz + m)) 1), <- Eb. apply era_hf. eapply dpred_hf_r; eauto. }
    exists (let_whnf_body ds0 b0). rewrite era_let_whnf_body, Eds, Eb. now apply let_whnf_body_shift.
  - (* beta *)
    destruct H4 as (t0 & E). cbn [era] in E. inv_shift E t0. injection E as E1 E2.
    inv_shift E1 t0_1. injection E1 as -> E0 E1.
    destruct H1 as (b0 & Eb); [exists t0_1_2; now replace (zz + S m) with (S (zz + m)) by lia|].
    destruct H3 as (a0 & Ea); [now exists t0_2|].
    replace (zz + S m) with (S (zz + m)) in Eb by lia.
    assert (Fb0 : hole_free b0 = true).
    { rewrite <- (hole_free_ushift_eq b0 (S (zz + m)) 1), <- Eb. apply era_hf. eapply dpred_hf_r; eauto. }
    exists (open b0 0 a0 0). rewrite era_open, Eb, Ea. symmetry. apply ushift_open0; auto. lia.
  - (* negl *) exists (TLit (- z)). reflexivity.
  - (* arith *) exists r. rewrite (arith_era _ _ _ _ H). symmetry. eapply arith_closed; eauto.
  - (* ift *)
    destruct H2 as (t0 & E). cbn [era] in E. inv_shift E t0. injection E as E1 E2 E3. apply H0. now exists t0_2.
  - (* iff *)
    destruct H2 as (t0 & E). cbn [era] in E. inv_shift E t0. injection E as E1 E2 E3. apply H1. now exists t0_3.
  - (* cons *)
    destruct H5 as (ds0 & E). destruct ds0 as [|[x y] r0]; [discriminate|]. cbn [eras map shp] in E.
    injection E as _ E1 E2.
    destruct H2 as (d0 & Ed); [now exists y|]. destruct H4 as (r1 & Er); [now exists r0|].
    exists ((TType, d0) :: r1). cbn [eras map shp ushift]. fold (eras r'). now rewrite Ed, Er.
Qed.

Lemma Q_dstar m t t' : dstar D m t t' -> Q m t -> Q m t'.
Proof. induction 1; auto. now apply (proj1 Q_pres_mut). Qed.
End ZFree.

(* ---------- "variable k occurs in head position" ---------- *)
Fixpoint rocc (k : nat) (t : term) : bool :=
  match t with
  | TVar i => Nat.eqb i k
  | TLam _ _ b => rocc (S k) b
  | TApp f _ => rocc k f
  | _ => false
  end.

Lemma rocc_ushift : forall t k c n, c <= k -> rocc (k + n) (ushift t c n) = rocc k t.
Proof.
  induction t; intros k c n Hc; cbn [rocc ushift]; try reflexivity.
  - unfold up_idx. destruct (Nat.leb_spec c i), (Nat.eqb_spec i k); subst.
    + now rewrite Nat.eqb_refl.
    + apply Nat.eqb_neq. lia.
    + lia.
    + apply Nat.eqb_neq. lia.
  - apply (IHt2 (S k) (S c) n). lia.
  - now apply IHt1.
Qed.

Lemma rocc_open : forall t k i s kk, i <= k -> rocc (S k) t = true -> rocc k (open t i s kk) = true.
Proof.
  induction t; intros k i0 s kk Hi H; cbn [rocc open] in *; try discriminate.
  - apply Nat.eqb_eq in H. subst i. destruct (Nat.eqb_spec (S k) i0); [lia|]. cbn [rocc].
    apply Nat.eqb_eq. unfold open_idx. destruct (Nat.ltb_spec i0 (S k)); lia.
  - apply IHt2; [lia | assumption].
  - now apply IHt1.
Qed.

Lemma rocc_shifted : forall t k, rocc k (ushift t k 1) = false.
Proof.
  induction t; intros k; cbn [rocc ushift]; try reflexivity.
  - apply Nat.eqb_neq. unfold up_idx. destruct (Nat.leb_spec k i); lia.
  - apply IHt2.
  - apply IHt1.
Qed.

Lemma rocc_era : forall t k, rocc k (era t) = rocc k t.
Proof. induction t; intros k; cbn [rocc era]; auto. Qed.

Section Head.
Variable D : nat -> option term.
Variables (zz : nat) (dz : term).
Hypothesis Hz : D zz = Some dz.
Hypothesis Hr : rocc zz dz = true.

Lemma rocc_pres_mut :
  (forall m t t', dpred D m t t' -> rocc (zz + m) t = true -> rocc (zz + m) t' = true) /\
  (forall m ds ds', dpreds D m ds ds' -> True).
Proof.
  apply dpred_mutind; intros; auto; cbn [rocc] in *; try discriminate.
  - apply Nat.eqb_eq in H0. assert (j = zz) by lia. subst j. rewrite Hz in H. injection H as <-.
    now rewrite rocc_ushift by lia.
  - replace (S (zz + m)) with (zz + S m) by lia. apply H2. now replace (zz + S m) with (S (zz + m)) by lia.
  - apply rocc_open; [lia|]. replace (S (zz + m)) with (zz + S m) by lia. apply H1.
    now replace (zz + S m) with (S (zz + m)) by lia.
Qed.

Lemma rocc_dstar m t t' : dstar D m t t' -> rocc (zz + m) t = true -> rocc (zz + m) t' = true.
Proof. induction 1; auto. now apply (proj1 rocc_pres_mut). Qed.
End Head.

(* reducts of an application whose head is a variable that only unfolds to itself *)
Lemma dstar_app_var D m F a c : (forall t', dpred D m (TVar F) t' -> t' = TVar F) ->
  dstar D m (TApp (TVar F) a) c -> exists a', c = TApp (TVar F) a' /\ dstar D m a a'.
Proof.
  intros HF H. apply clos_rt_rt1n in H. remember (TApp (TVar F) a) as u eqn:E. revert a E.
  induction H as [|u v w Hs _ IH]; intros a ->.
  - exists a. split; [reflexivity | apply rt_refl].
  - inversion Hs; subst; try discriminate.
    apply HF in H2. subst f'. destruct (IH a' eq_refl) as (a2 & -> & Ha2).
    exists a2. split; [reflexivity|]. eapply dstar_step; eauto.
Qed.

(* ---------- the program ---------- *)
Definition Ax := TPi false TInt TInt.
Definition dx := TLam false TInt (TApp (TLam false (TApp (TVar 1) (TVar 3)) (TApp (TVar 4) (TVar 1))) (TVar 2)).
Definition Aq := TApp (TVar 0) (TVar 2).
Definition AF := TPi false (TPi false TInt TInt) TType.
Definition cx_ds := [(Ax, dx); (Aq, TVar 1); (AF, TVar 0)].
Definition cx := TLet cx_ds (TLit 0).

(* the reduct *)
Definition dz := TLam false TInt (TApp (TLam false (TApp (TVar 3) (TVar 1)) (TApp (TVar 2) (TVar 1))) (TVar 4)).
Definition P1 := TLet [(Ax, dz)] (TVar 0).
Definition dz2 := TLam false TInt (TApp (TLam false (TApp (TVar 4) (TVar 1)) (TApp (TVar 2) (TVar 1))) (TVar 5)).
Definition P2 := TLet [(Ax, dz2)] (TVar 0).
Definition ux := TLam false TInt (TApp (TLam false (TApp (TVar 1) P1) (TApp P2 (TVar 1))) (TVar 2)).
Definition cx'_ds := [(TApp (TVar 0) ux, TVar 1); (AF, TVar 0)].
Definition cx' := TLet cx'_ds (TLit 0).

Example cx_step : step cx = Some cx'.
Proof. reflexivity. Qed.

Example cx_closed_hole_free : hole_free cx = true /\ fvl cx 0 = [].
Proof. split; reflexivity. Qed.

Example cx_typed : has_type [] cx TInt.
Proof.
  assert (Hv : forall G i T, lookup_ty G i = Some T -> has_type G (TVar i) T) by (intros; now apply t_var).
  pose proof (t_let [] cx_ds (TLit 0) TInt) as K. apply K; clear K; [|constructor].
  set (G := enter cx_ds []).
  assert (HA : has_type G Ax TType) by (apply t_pi; constructor).
  unfold cx_ds at 1.
  apply Forall_cons; [split|apply Forall_cons; [split|apply Forall_cons; [split|apply Forall_nil]]]; cbn [fst snd].
  - exact HA.
  - (* dx *)
    unfold dx. apply t_lam; [constructor|].
    change TInt with (open TInt 0 (TVar 2) 0) at 2.
    apply (t_app _ _ (TVar 2) (TApp (TVar 1) (TVar 3)) TInt); [|apply Hv; reflexivity].
    apply t_lam.
    + change TType with (open TType 0 (TVar 3) 0).
      apply (t_app _ (TVar 1) (TVar 3) Ax TType); apply Hv; reflexivity.
    + change TInt with (open TInt 0 (TVar 1) 0).
      apply (t_app _ (TVar 4) (TVar 1) TInt TInt); apply Hv; reflexivity.
  - (* Aq *)
    change TType with (open TType 0 (TVar 2) 0).
    apply (t_app _ (TVar 0) (TVar 2) Ax TType); apply Hv; reflexivity.
  - apply Hv; reflexivity.
  - apply t_pi; [exact HA | constructor].
  - apply Hv; reflexivity.
Qed.

(* the context in which the definition of P1 must be checked:  n' : int ; z := dz ; n : int ; q ; F *)
Definition G2 : ctx := enter cx'_ds [].
Definition G3 : ctx := bind G2 TInt.
Definition G4 : ctx := enter [(Ax, dz)] G3.
Definition G5 : ctx := bind G4 TInt.

Lemma G5_wf : wf_offsets G5.
Proof. repeat first [apply wf_offsets_bind | apply wf_offsets_enter | apply wf_offsets_nil]. Qed.
Lemma G5_hf : ctx_hf G5.
Proof. repeat first [apply ctx_hf_bind | apply ctx_hf_enter; [reflexivity|] | constructor]. Qed.

Definition Uq : term := ushift ux 0 3.       (* the substituted definition of x, as seen from G5 *)

Lemma no_common_reduct e : dstar (lookup_def G5) 0 (TVar 1) e -> dstar (lookup_def G5) 0 Uq e -> False.
Proof.
  intros H1 H2.
  assert (Dh : dhf (lookup_def G5)) by exact (lookup_def_hf G5 G5_hf).
  assert (R : rocc 1 e = true).
  { apply (rocc_dstar (lookup_def G5) 1 (ushift dz 0 1) eq_refl eq_refl 0 _ _ H1). reflexivity. }
  assert (Z : Q 1 0 e).
  { apply (Q_dstar (lookup_def G5) Dh 1) with (t := Uq); [|exact H2|].
    - intros j d E Hj.
      destruct j as [|[|[|[|[|j]]]]]; vm_compute in E; try discriminate E; try (exfalso; lia).
      + injection E as <-. exists (TVar 2). reflexivity.
      + injection E as <-. exists (TVar 3). reflexivity.
      + destruct j; discriminate E.
    - exists (open (era Uq) 1 TType 0). vm_compute. reflexivity. }
  destruct Z as (e0 & Ee). cbn [Nat.add] in Ee.
  rewrite <- rocc_era, Ee, rocc_shifted in R. discriminate.
Qed.

Theorem cx'_untypable : forall T, ~ has_type [] cx' T.
Proof.
  intros T H.
  apply gen_let in H as (B & HF & _ & _). fold G2 in HF.
  inversion HF as [|? ? [Hq _] _]; subst. cbn [fst] in Hq.
  apply gen_app in Hq as (A1 & B1 & _ & Hu & _).
  apply gen_lam in Hu as (B2 & _ & Hbody & _). fold G3 in Hbody.
  apply gen_app in Hbody as (A3 & B3 & Hlam & _ & _).
  apply gen_lam in Hlam as (B4 & Hann & _ & _).
  apply gen_app in Hann as (A5 & B5 & _ & HP1 & _).
  unfold P1 in HP1. apply gen_let in HP1 as (B6 & HF6 & _ & _). fold G4 in HF6.
  inversion HF6 as [|? ? [_ Hdz] _]; subst. cbn [fst snd] in Hdz.
  unfold dz in Hdz. apply gen_lam in Hdz as (B7 & _ & Hb7 & _). fold G5 in Hb7.
  apply gen_app in Hb7 as (A8 & B8 & Hl8 & Hq8 & _).
  apply gen_lam in Hl8 as (B9 & _ & _ & C9).
  apply gen_var in Hq8 as (X & EX & CX).
  vm_compute in EX. injection EX as <-. fold ux in CX.
  change (TLam false TInt (TApp (TLam false (TApp (TVar 4) (TLet [(TPi false TInt TInt,
            TLam false TInt (TApp (TLam false (TApp (TVar 6) (TVar 1)) (TApp (TVar 2) (TVar 1))) (TVar 7)))] (TVar 0)))
            (TApp (TLet [(TPi false TInt TInt,
            TLam false TInt (TApp (TLam false (TApp (TVar 7) (TVar 1)) (TApp (TVar 2) (TVar 1))) (TVar 8)))] (TVar 0)) (TVar 1)))
            (TVar 5))) with Uq in CX.
  assert (W := G5_wf). assert (F := G5_hf). assert (Dh : dhf (lookup_def G5)) by exact (lookup_def_hf G5 F).
  apply conv_iff_conv2 in C9. apply church_rosser2_strip in C9 as (c9 & K1 & K2); auto.
  apply conv_iff_conv2 in CX. apply church_rosser2_strip in CX as (cX & K3 & K4); auto.
  cbn [strip] in K1, K2. apply dstar_pi_inv in K1 as (a1 & b1 & -> & Ka1 & _).
  apply dstar_pi_inv in K2 as (a2 & b2 & E2 & Ka2 & _). injection E2 as <- <-.
  (* F z ->* a1 *<- strip A8 ->* cX *<- F Uq *)
  destruct (dstar_confluent _ Dh _ _ _ _ Ka2 K4) as (e & Ke1 & Ke2).
  assert (L1 : dstar (lookup_def G5) 0 (TApp (TVar 3) (TVar 1)) e) by (eapply rt_trans; eauto).
  assert (L2 : dstar (lookup_def G5) 0 (TApp (TVar 3) Uq) e).
  { eapply rt_trans; [|exact Ke2]. replace (TApp (TVar 3) Uq) with (strip (TApp (TVar 3) Uq)); [exact K3|].
    apply strip_id. reflexivity. }
  assert (HF3 : forall t', dpred (lookup_def G5) 0 (TVar 3) t' -> t' = TVar 3).
  { intros t' P. inversion P; subst; [reflexivity|].
    match goal with E : lookup_def G5 ?j = Some _, E' : ?j + 0 = 3 |- _ =>
      assert (j = 3) by lia; subst j; vm_compute in E; injection E as <- end. reflexivity. }
  apply (dstar_app_var _ _ _ _ _ HF3) in L1 as (e1 & -> & M1).
  apply (dstar_app_var _ _ _ _ _ HF3) in L2 as (e2 & E & M2). injection E as <-.
  exact (no_common_reduct e1 M1 M2).
Qed.

(* subject reduction fails for has_type: a typable closed hole-free program steps to a program without a type *)
Theorem sr_fails :
  exists t t' T, hole_free t = true /\ fvl t 0 = [] /\ has_type [] t T /\ step t = Some t' /\
                 forall T', ~ has_type [] t' T'.
Proof.
  exists cx, cx', TInt. repeat split; try reflexivity; [exact cx_typed | exact cx'_untypable].
Qed.

Print Assumptions sr_fails.

(* ====================================================================================================
   A sharper counterexample: TWO definitions, BOTH values (functions).

     x : (F : int -> type) -> int -> int
       = (F) => (n) => ((g : (w : F (x F 0)) -> F (x F 0)) => x F n) (q F)
     q : (F : int -> type) -> (w : F (x F 0)) -> F (x F 0)
       = (F) => (w) => w
     0

   Typable without any conversion step.  After the evaluator substitutes x, the annotation of q mentions
   u = x's definition with the projection group P for x, while inside P the parameter annotation of g
   mentions the variable z of P: F (u F 0) against F (z F 0) under a bound F.
   ==================================================================================================== *)
Lemma gen_pi G im d b T : has_type G (TPi im d b) T -> has_type G d TType /\ has_type (bind G d) b TType.
Proof.
  intros H. remember (TPi im d b) as v eqn:E. revert im d b E. induction H; intros im' d' b' E; try discriminate.
  - injection E as -> -> ->. auto.
  - eauto.
Qed.

Definition TyF := TPi false TInt TType.
Definition Ax2 := TPi false TyF (TPi false TInt TInt).
Definition ANN2 := TPi false (TApp (TVar 1) (TApp (TApp (TVar 3) (TVar 1)) (TLit 0)))
                             (TApp (TVar 2) (TApp (TApp (TVar 4) (TVar 2)) (TLit 0))).
Definition dx2 := TLam false TyF (TLam false TInt
   (TApp (TLam false ANN2 (TApp (TApp (TVar 4) (TVar 2)) (TVar 1))) (TApp (TVar 2) (TVar 1)))).
Definition domq := TApp (TVar 0) (TApp (TApp (TVar 2) (TVar 0)) (TLit 0)).
Definition codq := TApp (TVar 1) (TApp (TApp (TVar 3) (TVar 1)) (TLit 0)).
Definition Aq2 := TPi false TyF (TPi false domq codq).
Definition dq2 := TLam false TyF (TLam false domq (TVar 0)).
Definition cx2_ds := [(Ax2, dx2); (Aq2, dq2)].
Definition cx2 := TLet cx2_ds (TLit 0).

Definition u2 := unfold_first Ax2 dx2 1.
Definition Aq2' := open Aq2 1 u2 0.
Definition dq2' := open dq2 1 u2 0.
Definition cx2' := TLet [(Aq2', dq2')] (TLit 0).

Example cx2_step : step cx2 = Some cx2'.
Proof. reflexivity. Qed.

Example cx2_facts : hole_free cx2 = true /\ fvl cx2 0 = [] /\ forallb (fun p => is_value (snd p)) cx2_ds = true.
Proof. repeat split; reflexivity. Qed.

Example cx2_typed : has_type [] cx2 TInt.
Proof.
  assert (Hv : forall G i T, lookup_ty G i = Some T -> has_type G (TVar i) T) by (intros; now apply t_var).
  assert (HF : forall G, has_type G TyF TType) by (intros; apply t_pi; constructor).
  (* F (x F 0) is a type wherever F : int -> type and x : Ax2 *)
  assert (HFx : forall G f x, lookup_ty G f = Some TyF -> lookup_ty G x = Some Ax2 ->
            has_type G (TApp (TVar f) (TApp (TApp (TVar x) (TVar f)) (TLit 0))) TType).
  { intros G f x Ef Ex. change TType with (open TType 0 (TApp (TApp (TVar x) (TVar f)) (TLit 0)) 0).
    apply (t_app _ _ _ TInt TType); [now apply Hv|].
    change TInt with (open TInt 0 (TLit 0) 0). apply (t_app _ _ _ TInt TInt); [|constructor].
    change (TPi false TInt TInt) with (open (TPi false TInt TInt) 0 (TVar f) 0).
    apply (t_app _ _ _ TyF (TPi false TInt TInt)); now apply Hv. }
  pose proof (t_let [] cx2_ds (TLit 0) TInt) as K. apply K; clear K; [|constructor].
  set (G := enter cx2_ds []). unfold cx2_ds at 1.
  apply Forall_cons; [split|apply Forall_cons; [split|apply Forall_nil]]; cbn [fst snd].
  - apply t_pi; [apply HF | apply t_pi; constructor].
  - (* dx2 *)
    unfold dx2. apply t_lam; [apply HF|]. apply t_lam; [constructor|].
    change TInt with (open TInt 0 (TApp (TVar 2) (TVar 1)) 0) at 2.
    apply (t_app _ _ _ ANN2 TInt).
    + apply t_lam.
      * unfold ANN2. apply t_pi; apply HFx; reflexivity.
      * change TInt with (open TInt 0 (TVar 1) 0). apply (t_app _ _ _ TInt TInt); [|now apply Hv].
        change (TPi false TInt TInt) with (open (TPi false TInt TInt) 0 (TVar 2) 0).
        apply (t_app _ _ _ TyF (TPi false TInt TInt)); now apply Hv.
    + change ANN2 with (open (TPi false (TApp (TVar 0) (TApp (TApp (TVar 4) (TVar 0)) (TLit 0)))
                                        (TApp (TVar 1) (TApp (TApp (TVar 5) (TVar 1)) (TLit 0)))) 0 (TVar 1) 0).
      apply (t_app _ _ _ TyF); now apply Hv.
  - (* Aq2 *)
    unfold Aq2. apply t_pi; [apply HF|]. apply t_pi; apply HFx; reflexivity.
  - (* dq2 *)
    unfold dq2, Aq2. apply t_lam; [apply HF|]. apply t_lam; [apply HFx; reflexivity | now apply Hv].
Qed.

Section Join.
Variable D : nat -> option term.
Hypothesis Dh : dhf D.

Lemma djoin_sym m a b : djoin D m a b -> djoin D m b a.
Proof. intros (c & H1 & H2). exists c. auto. Qed.

Lemma djoin_trans m a b c : djoin D m a b -> djoin D m b c -> djoin D m a c.
Proof.
  intros (x & H1 & H2) (y & H3 & H4). destruct (dstar_confluent D Dh _ _ _ _ H2 H3) as (w & K1 & K2).
  exists w. split; eapply rt_trans; eauto.
Qed.

Lemma djoin_pi m im d b im' d' b' : djoin D m (TPi im d b) (TPi im' d' b') -> djoin D m d d' /\ djoin D (S m) b b'.
Proof.
  intros (c & H1 & H2). apply dstar_pi_inv in H1 as (d1 & b1 & -> & Hd1 & Hb1).
  apply dstar_pi_inv in H2 as (d2 & b2 & E & Hd2 & Hb2). injection E as _ <- <-.
  split; [exists d1 | exists b1]; auto.
Qed.

Lemma djoin_open0 b b' s : hole_free s = true -> djoin D 1 b b' -> djoin D 0 (open b 0 s 0) (open b' 0 s 0).
Proof. intros Hs (c & H1 & H2). exists (open c 0 s 0). split; apply dstar_open0; auto. Qed.
End Join.

Lemma conv_J G a b : wf_offsets G -> ctx_hf G -> conv G a b -> djoin (lookup_def G) 0 (strip a) (strip b).
Proof. intros W F C. apply conv_iff_conv2 in C. now apply church_rosser2_strip in C. Qed.

Ltac norm_term H :=
  match type of H with has_type ?G ?t ?T => let t' := eval vm_compute in t in change (has_type G t' T) in H end.

Theorem cx2'_untypable : forall T, ~ has_type [] cx2' T.
Proof.
  intros T H. unfold cx2' in H.
  apply gen_let in H as (B & HF & _ & _).
  set (G1 := enter [(Aq2', dq2')] []) in *.
  inversion HF as [|? ? [Hq _] _]; subst. cbn [fst] in Hq. norm_term Hq.
  apply gen_pi in Hq as [_ Hq]. set (G2 := bind G1 _) in *.
  apply gen_pi in Hq as [Hq _].
  apply gen_app in Hq as (? & ? & _ & Hq & _).
  apply gen_app in Hq as (? & ? & Hq & _ & _).
  apply gen_app in Hq as (? & ? & Hq & _ & _).
  apply gen_lam in Hq as (? & _ & Hq & _). set (G3 := bind G2 _) in *.
  apply gen_lam in Hq as (? & _ & Hq & _). set (G4 := bind G3 _) in *.
  apply gen_app in Hq as (? & ? & Hq & _ & _).
  apply gen_lam in Hq as (? & Hq & _ & _).
  apply gen_pi in Hq as [Hq _].
  apply gen_app in Hq as (? & ? & _ & Hq & _).
  apply gen_app in Hq as (? & ? & Hq & _ & _).
  apply gen_app in Hq as (? & ? & Hq & _ & _).
  apply gen_let in Hq as (? & HF5 & _ & _). set (G5 := enter _ G4) in *.
  inversion HF5 as [|? ? [_ Hd] _]; subst. cbn [fst snd] in Hd.
  apply gen_lam in Hd as (? & _ & Hd & _). set (G6 := bind G5 _) in *.
  apply gen_lam in Hd as (? & _ & Hd & _). set (G7 := bind G6 _) in *.
  apply gen_app in Hd as (A & B1 & Hl & Ha & _).
  apply gen_lam in Hl as (B0 & _ & _ & C1).
  apply gen_app in Ha as (A' & B' & Hv & _ & C2).
  apply gen_var in Hv as (Xq & EX & C3).
  assert (W : wf_offsets G7)
    by (repeat first [apply wf_offsets_bind | apply wf_offsets_enter | apply wf_offsets_nil]).
  assert (F : ctx_hf G7)
    by (repeat first [apply ctx_hf_bind | apply ctx_hf_enter; [reflexivity|] | constructor]).
  assert (Dh : dhf (lookup_def G7)) by exact (lookup_def_hf G7 F).
  vm_compute in EX. injection EX as <-.
  apply (conv_J _ _ _ W F) in C1. apply (conv_J _ _ _ W F) in C2. apply (conv_J _ _ _ W F) in C3.
  cbn [strip] in C1. apply djoin_pi in C1 as [J1 _].
  rewrite strip_open in C2. cbn [strip] in C2.
  cbn [strip map] in C3. apply djoin_pi in C3 as [_ J3].
  apply (djoin_open0 _ Dh _ _ (TVar 1) eq_refl) in J3.
  pose proof (djoin_trans _ Dh _ _ _ _ J1 (djoin_sym _ _ _ _ (djoin_trans _ Dh _ _ _ _ J3 C2))) as J.
  cbn [open Nat.eqb open_idx Nat.ltb Nat.leb ushift up_idx Nat.add Nat.sub map length] in J.
  apply djoin_pi in J as [J _].
  destruct J as (e & L1 & L2).
  assert (HF1 : forall t', dpred (lookup_def G7) 0 (TVar 1) t' -> t' = TVar 1).
  { intros t' P. inversion P; subst; [reflexivity|].
    match goal with E : lookup_def G7 ?j = Some _, E' : ?j + 0 = 1 |- _ =>
      assert (j = 1) by lia; subst j; vm_compute in E; discriminate E end. }
  apply (dstar_app_var _ _ _ _ _ HF1) in L1 as (e1 & -> & M1).
  apply (dstar_app_var _ _ _ _ _ HF1) in L2 as (e2 & E & M2). injection E as <-.
  (* e1 is a common reduct of  z F 0  and  u F 0 *)
  assert (R : rocc 2 e1 = true).
  { eapply (rocc_dstar (lookup_def G7) 2 _ _ _ 0 _ _ M1). reflexivity.
    Unshelve. 2: (vm_compute; reflexivity). reflexivity. }
  assert (Z : Q 2 0 e1).
  { eapply (Q_dstar (lookup_def G7) Dh 2); [|exact M2|].
    - intros j d E Hj.
      destruct j as [|[|[|[|[|[|[|j]]]]]]]; vm_compute in E; try discriminate E; try (exfalso; lia).
      + injection E as <-.
        match goal with |- exists d0, era ?d = _ => exists (open (era d) 2 TType 0) end. vm_compute. reflexivity.
      + destruct j; discriminate E.
    - match goal with |- Q _ _ ?t => exists (open (era t) 2 TType 0) end. vm_compute. reflexivity. }
  destruct Z as (e0 & Ee). cbn [Nat.add] in Ee.
  rewrite <- rocc_era, Ee, rocc_shifted in R. discriminate.
Qed.

(* subject reduction fails already for a group of two mutually recursive FUNCTIONS (all definitions values) *)
Theorem sr_fails_values :
  exists ds b t' T, hole_free (TLet ds b) = true /\ fvl (TLet ds b) 0 = [] /\ length ds = 2 /\
                    forallb (fun p => is_value (snd p)) ds = true /\
                    has_type [] (TLet ds b) T /\ step (TLet ds b) = Some t' /\ forall T', ~ has_type [] t' T'.
Proof.
  exists cx2_ds, (TLit 0), cx2', TInt. repeat split; try reflexivity; [exact cx2_typed | exact cx2'_untypable].
Qed.

Print Assumptions sr_fails_values.

