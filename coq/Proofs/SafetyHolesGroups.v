(* C04 for programs WITH inferred annotations and definition groups of at most one definition each: simply typed programs
   (`simple`) whose annotations are omitted, whenever neither instrumented event occurs while checking; the completed
   program evaluates to values of the reported type and of the shape the property names.  Composition of
   TcHolesOk.tcN_sound_simple with PreservationGroups (subject reduction with single-definition groups). *)
From Coq Require Import List ZArith Lia Bool Arith.
Import ListNotations.
Require Import Gram.Model.Term Gram.Model.DeBruijn Gram.Model.Eval Gram.Model.ModelB Gram.Spec.Typing.
Require Import Gram.Proofs.PreservationGroups.
Require Gram.Proofs.TcSoundHF Gram.Proofs.AcyclicProofs Gram.Proofs.UnifyConsistent Gram.Proofs.TcSoundHoles Gram.Proofs.TcHolesOk.

Lemma bt_sg : forall t, TcHolesOk.bt t = true -> sg t = true.
Proof.
  induction t; cbn [TcHolesOk.bt sg]; intros H; try discriminate; try reflexivity.
  apply andb_prop in H as [A B]. now rewrite IHt1, IHt2.
Qed.

Lemma zk_sg s : TcHolesOk.J s ->
  (forall t u, TcSoundHF.zk s t u -> sg t = true -> sg u = true) /\
  (forall l lu, TcSoundHF.zkds s l lu -> forallb (fun p => let '(a, d) := p in sg a && sg d) l = true ->
     forallb (fun p => let '(a, d) := p in sg a && sg d) lu = true).
Proof.
  intros Js. apply (TcSoundHF.zk_zkds_ind s); intros; cbn [sg forallb] in *; auto;
    repeat match goal with H : _ && _ = true |- _ => apply andb_prop in H as [? ?] end;
    try discriminate;
    repeat (apply andb_true_intro; split); auto.
  - rewrite sg_ushift. match goal with IH : sg ?sol = true -> _, G : ModelB.sget s _ = Some ?sol |- _ => apply IH, bt_sg, (Js _ _ G) end.
  - erewrite TcSoundHF.zkds_length by eassumption. assumption.
Qed.

Theorem accepted_values_with_inferred_annotations : forall H f s t r v,
  TcHolesOk.simple t = true -> sg t = true ->
  TcHolesOk.J s -> TcSoundHoles.store_okM H s -> AcyclicProofs.acyclic s -> TcSoundHoles.wsM H 0 t ->
  TcSoundHoles.tcN f s [] [] t = Some r -> b_errs r = [] -> TcSoundHoles.base_ty v = true ->
  exists eu Tu,
    TcSoundHF.zk (UnifyConsistent.fill v (b_st r)) t eu /\ TcSoundHF.zk (UnifyConsistent.fill v (b_st r)) (b_ty r) Tu /\
    has_type [] eu Tu /\
    forall g w, evaluate g eu = Some w ->
      has_type [] w Tu /\
      (is_value w = true ->
         (Tu = TInt -> exists z, w = TLit z) /\ (Tu = TBool -> w = TTrue \/ w = TFalse) /\
         (forall im A B, Tu = TPi im A B -> exists d b, w = TLam im d b)).
Proof.
  intros H f s t r v Hs Hg Js Sk A W E Ee Hv.
  destruct (TcHolesOk.tcN_sound_simple H f s t r v Hs Js Sk A W E Ee Hv) as (_ & _ & eu & Tu & Z1 & Z2 & HT & _).
  destruct (TcHolesOk.tcN_simple f s [] [] t r Js (Forall_nil _) Hs E) as [Jr _].
  pose proof (TcHolesOk.J_fill v _ Jr Hv) as Jf.
  pose proof (proj1 (zk_sg _ Jf) _ _ Z1 Hg) as Gu.
  pose proof (TcSoundHF.zk_hf _ _ _ Z1) as Fu. pose proof (TcSoundHF.zk_hf _ _ _ Z2) as FT.
  exists eu, Tu. repeat split; auto.
  - exact (evaluate_preserves_type_sg g eu Tu w Fu Gu FT HT H0).
  - intros ->. exact (eval_int_sg g eu w Fu Gu H0 H1 HT).
  - intros ->. exact (eval_bool_sg g eu w Fu Gu H0 H1 HT).
  - intros im A0 B0 ->. cbn [hole_free] in FT. apply andb_prop in FT as [FA FB].
    exact (eval_pi_sg g eu w Fu Gu H0 H1 im A0 B0 FA FB HT).
Qed.

Print Assumptions accepted_values_with_inferred_annotations.
