(* C04 for what the checker model accepts, programs WITH definition groups of at most one definition each (`sg`:
   recursive function definitions, computed definitions, nested anywhere): soundness of the checker model
   (TcSoundHF) composed with subject reduction for such programs (PreservationGroups). *)
From Coq Require Import List ZArith Lia Bool Arith.
Import ListNotations.
Require Import Gram.Model.Term Gram.Model.DeBruijn Gram.Model.Eval Gram.Model.ModelB Gram.Spec.Typing.
Require Import Gram.Proofs.PreservationGroups.
Require Gram.Proofs.TcSoundHF.

Theorem accepted_values_have_the_reported_type : forall f t r g v,
  hole_free t = true -> sg t = true ->
  tcB f [] [] [] t = Some r -> b_errs r = [] ->
  evaluate g t = Some v ->
  exists T, TcSoundHF.zk (b_st r) (b_ty r) T /\ has_type [] v T.
Proof.
  intros f t r g v Hf Hg H He Ev.
  destruct (TcSoundHF.tcB_sound_hole_free f t r Hf H He) as (T & HT & Z1 & _).
  exists T. split; [exact Z1|].
  exact (evaluate_preserves_type_sg g t T v Hf Hg (TcSoundHF.zk_hf _ _ _ Z1) HT Ev).
Qed.

(* the shapes named by the property *)
Theorem accepted_values_have_the_reported_shape : forall f t r g v,
  hole_free t = true -> sg t = true ->
  tcB f [] [] [] t = Some r -> b_errs r = [] ->
  evaluate g t = Some v -> is_value v = true ->
  (TcSoundHF.zk (b_st r) (b_ty r) TInt -> exists z, v = TLit z) /\
  (TcSoundHF.zk (b_st r) (b_ty r) TBool -> v = TTrue \/ v = TFalse) /\
  (forall im A B, TcSoundHF.zk (b_st r) (b_ty r) (TPi im A B) -> exists d b, v = TLam im d b) /\
  (TcSoundHF.zk (b_st r) (b_ty r) TType -> is_type_former v = true).
Proof.
  intros f t r g v Hf Hg H He Ev V.
  destruct (TcSoundHF.tcB_sound_hole_free f t r Hf H He) as (T & HT & Z1 & _).
  repeat split.
  - intros Z. pose proof (TcSoundHF.zk_fun _ _ _ _ Z1 Z) as E. subst T. exact (eval_int_sg g t v Hf Hg Ev V HT).
  - intros Z. pose proof (TcSoundHF.zk_fun _ _ _ _ Z1 Z) as E. subst T. exact (eval_bool_sg g t v Hf Hg Ev V HT).
  - intros im A B Z. pose proof (TcSoundHF.zk_fun _ _ _ _ Z1 Z) as E. subst T.
    pose proof (TcSoundHF.zk_hf _ _ _ Z1) as HP. cbn [hole_free] in HP. apply andb_prop in HP as [HA HB].
    exact (eval_pi_sg g t v Hf Hg Ev V im A B HA HB HT).
  - intros Z. pose proof (TcSoundHF.zk_fun _ _ _ _ Z1 Z) as E. subst T. exact (eval_type_sg g t v Hf Hg Ev V HT).
Qed.

Print Assumptions accepted_values_have_the_reported_type.
Print Assumptions accepted_values_have_the_reported_shape.
