(* C19: reordering value (function) definitions inside a group preserves the outcome of a program.
   The two programs are run in lockstep by the reference interpreter (Spec/EvalEnv.v), their stores related
   by a bijection of cells; the result is transferred to the evaluator model by interpreters_agree_G3. *)
From Coq Require Import List ZArith Lia Bool Arith.
Import ListNotations.
Require Import Gram.Model.Term Gram.Model.DeBruijn Gram.Model.Eval Gram.Spec.Cbv Gram.Spec.EvalEnv.
Require Import Gram.Proofs.DeBruijnLaws Gram.Proofs.CbvProofs Gram.Proofs.EvalEnvProofs Gram.Proofs.EvalEnvGroups.
Require Import Gram.Proofs.DefinitionOrder.

(* ------------------------------------------------------------------------------------------- *)
(* Part 1. Renamings of variables, and the relation: renamed, with adjacent value definitions   *)
(* of groups exchanged.                                                                         *)
(* ------------------------------------------------------------------------------------------- *)

Definition up (r : nat -> nat) (j : nat) : nat := match j with O => O | S j' => S (r j') end.
Definition upn (n : nat) (r : nat -> nat) (j : nat) : nat := if j <? n then j else n + r (j - n).
(* exchange the variables a and a + 1 *)
Definition swp (a j : nat) : nat := if Nat.eqb j a then S a else if Nat.eqb j (S a) then a else j.
Definition idr (j : nat) : nat := j.

Lemma swp_invol a j : swp a (swp a j) = j.
Proof.
  unfold swp. destruct (Nat.eqb_spec j a); [subst; rewrite Nat.eqb_refl; destruct (Nat.eqb_spec (S a) a); lia|].
  destruct (Nat.eqb_spec j (S a)); [subst; rewrite Nat.eqb_refl; reflexivity|].
  destruct (Nat.eqb_spec j a); [lia|]. destruct (Nat.eqb_spec j (S a)); lia.
Qed.
Lemma swp_lt a n j : S a < n -> (swp a j < n <-> j < n).
Proof. unfold swp. intros. destruct (Nat.eqb_spec j a); [lia|]. destruct (Nat.eqb_spec j (S a)); lia. Qed.

(* the renaming of a term: variable j (counted from the cutoff c) becomes r j *)
Fixpoint rename (r : nat -> nat) (t : term) : term :=
  match t with
  | THole _ _ | TType | TInt | TBool | TTrue | TFalse | TLit _ => t
  | TVar j => TVar (r j)
  | TLam im d b => TLam im (rename r d) (rename (up r) b)
  | TPi im d b => TPi im (rename r d) (rename (up r) b)
  | TApp f a => TApp (rename r f) (rename r a)
  | TLet ds b => let n := length ds in
      TLet (map (fun p => let '(a, x) := p in (rename (upn n r) a, rename (upn n r) x)) ds) (rename (upn n r) b)
  | TNeg a => TNeg (rename r a)
  | TBin o a b => TBin o (rename r a) (rename r b)
  | TIf c t e => TIf (rename r c) (rename r t) (rename r e)
  end.

Definition Tdef (R : term -> term -> Prop) (p p' : term * term) : Prop := R (fst p) (fst p') /\ R (snd p) (snd p').

(* T r t t': t' is t with its free variables renamed by r and, at any number of groups, two adjacent VALUE
   definitions exchanged (the group variables renamed accordingly in all definitions, annotations and the body) *)
Inductive T : (nat -> nat) -> term -> term -> Prop :=
| T_hole r i s : T r (THole i s) (THole i s)
| T_type r : T r TType TType
| T_int r : T r TInt TInt
| T_bool r : T r TBool TBool
| T_true r : T r TTrue TTrue
| T_false r : T r TFalse TFalse
| T_lit r z : T r (TLit z) (TLit z)
| T_var r j j' : r j = j' -> T r (TVar j) (TVar j')
| T_lam r im d d' b b' : T r d d' -> T (up r) b b' -> T r (TLam im d b) (TLam im d' b')
| T_pi r im d d' b b' : T r d d' -> T (up r) b b' -> T r (TPi im d b) (TPi im d' b')
| T_app r f f' a a' : T r f f' -> T r a a' -> T r (TApp f a) (TApp f' a')
| T_let r ds ds' b b' : Forall2 (Tdef (T (upn (length ds) r))) ds ds' -> T (upn (length ds) r) b b' ->
    T r (TLet ds b) (TLet ds' b')
| T_swap r pre x y post pre' x' y' post' b b' :
    let n := length (pre ++ x :: y :: post) in
    let r2 := fun j => swp (length post) (upn n r j) in
    is_value (snd x) = true -> is_value (snd y) = true ->
    Forall2 (Tdef (T r2)) pre pre' -> Tdef (T r2) x x' -> Tdef (T r2) y y' -> Forall2 (Tdef (T r2)) post post' ->
    T r2 b b' ->
    T r (TLet (pre ++ x :: y :: post) b) (TLet (pre' ++ y' :: x' :: post') b')
| T_neg r a a' : T r a a' -> T r (TNeg a) (TNeg a')
| T_bin r o a a' b b' : T r a a' -> T r b b' -> T r (TBin o a b) (TBin o a' b')
| T_if r c c' t t' e e' : T r c c' -> T r t t' -> T r e e' -> T r (TIf c t e) (TIf c' t' e').

Lemma up_ext r r2 : (forall j, r j = r2 j) -> forall j, up r j = up r2 j.
Proof. intros H [|j]; cbn; auto. Qed.
Lemma upn_ext n r r2 : (forall j, r j = r2 j) -> forall j, upn n r j = upn n r2 j.
Proof. intros H j. unfold upn. destruct (j <? n); auto. Qed.
Lemma up_id r : (forall j, r j = j) -> forall j, up r j = j.
Proof. intros H [|j]; cbn; auto. Qed.
Lemma upn_id n r : (forall j, r j = j) -> forall j, upn n r j = j.
Proof. intros H j. unfold upn. destruct (Nat.ltb_spec j n); auto. rewrite H. lia. Qed.

Lemma Forall2_Tdef_refl (R : term -> term -> Prop) ds :
  Forall (fun p => R (fst p) (fst p) /\ R (snd p) (snd p)) ds -> Forall2 (Tdef R) ds ds.
Proof. induction 1; constructor; auto. Qed.

Lemma T_refl : forall t r, (forall j, r j = j) -> T r t t.
Proof.
  induction t using term_ind'; intros r Hr; try (constructor; auto using up_id; fail).
  constructor; [|apply IHt; now apply upn_id].
  apply Forall2_Tdef_refl. eapply Forall_impl; [|exact H]. intros p [Ha Hd]. split; [apply Ha|apply Hd]; now apply upn_id.
Qed.

Lemma Forall2_Tdef_map (R : term -> term -> Prop) (g : term -> term) ds :
  Forall (fun p => R (fst p) (g (fst p)) /\ R (snd p) (g (snd p))) ds ->
  Forall2 (Tdef R) ds (map (fun p => let '(a, x) := p in (g a, g x)) ds).
Proof. induction 1 as [|[a x] l [Ha Hx] _ IH]; cbn [map]; constructor; auto. split; auto. Qed.

(* a plain renaming is an instance *)
Lemma T_rename : forall t r, T r t (rename r t).
Proof.
  induction t using term_ind'; intros r; cbn [rename]; try (constructor; auto; fail).
  constructor; [|apply IHt].
  apply Forall2_Tdef_map. eapply Forall_impl; [|exact H]. intros p [Ha Hd]. split; [apply Ha|apply Hd].
Qed.

Lemma Forall2_Tdef_impl (R R2 : term -> term -> Prop) ds ds' :
  Forall (fun p => (forall q, R (fst p) q -> R2 (fst p) q) /\ (forall q, R (snd p) q -> R2 (snd p) q)) ds ->
  Forall2 (Tdef R) ds ds' -> Forall2 (Tdef R2) ds ds'.
Proof.
  intros H F. induction F as [|p p' l l' [Ha Hx] _ IH]; constructor.
  - inversion H as [|? ? [Ka Kx] _]; subst. split; auto.
  - apply IH. now inversion H.
Qed.

Lemma Forall_app_inv {A} (P : A -> Prop) l1 l2 : Forall P (l1 ++ l2) -> Forall P l1 /\ Forall P l2.
Proof. intros H. rewrite Forall_forall in H. split; apply Forall_forall; intros x Hx; apply H, in_or_app; auto. Qed.

(* T only depends on the values of the renaming *)
Lemma T_ext : forall t r r2 t', (forall j, r j = r2 j) -> T r t t' -> T r2 t t'.
Proof.
  induction t using term_ind'; intros r r2 t' E HT; inversion HT; subst; try (constructor; eauto using up_ext; fail).
  - constructor; [|eapply IHt; [|eassumption]; now apply upn_ext].
    eapply Forall2_Tdef_impl; [|eassumption]. eapply Forall_impl; [|exact H].
    intros p [Ha Hx]. split; intros q Hq; [eapply Ha|eapply Hx]; try exact Hq; now apply upn_ext.
  - assert (E2 : forall j, swp (length post) (upn (length (pre ++ x :: y :: post)) r j) =
                           swp (length post) (upn (length (pre ++ x :: y :: post)) r2 j))
      by (intros j; f_equal; now apply upn_ext).
    apply Forall_app_inv in H as [Hpre H]. inversion H as [|? ? Hx H']; subst. inversion H' as [|? ? Hy Hpost]; subst.
    apply T_swap; auto.
    + eapply Forall2_Tdef_impl; [|eassumption]. eapply Forall_impl; [|exact Hpre].
      intros p [Ka Kx]. split; intros q Hq; [eapply Ka|eapply Kx]; try exact Hq; try exact E2.
    + destruct Hx as [Ka Kx]. match goal with Q : Tdef _ x x' |- _ => destruct Q as [Qa Qx] end.
      split; [eapply Ka; [exact E2|exact Qa]|eapply Kx; [exact E2|exact Qx]].
    + destruct Hy as [Ka Kx]. match goal with Q : Tdef _ y y' |- _ => destruct Q as [Qa Qx] end.
      split; [eapply Ka; [exact E2|exact Qa]|eapply Kx; [exact E2|exact Qx]].
    + eapply Forall2_Tdef_impl; [|eassumption]. eapply Forall_impl; [|exact Hpost].
      intros p [Ka Kx]. split; intros q Hq; [eapply Ka|eapply Kx]; try exact Hq; try exact E2.
    + eapply IHt; [|eassumption]. exact E2.
Qed.

Lemma T_value r t t' : T r t t' -> is_value t' = is_value t.
Proof. destruct 1; reflexivity. Qed.

Lemma Forall2_length' {A B} (R : A -> B -> Prop) l l' : Forall2 R l l' -> length l' = length l.
Proof. induction 1; cbn; auto. Qed.

Lemma Forall2_forallb_pair (R : term -> term -> Prop) (P Q : term -> bool) ds ds' :
  Forall2 (Tdef R) ds ds' ->
  Forall (fun p => (forall q, R (fst p) q -> P (fst p) = true -> Q q = true) /\
                   (forall q, R (snd p) q -> P (snd p) = true -> Q q = true)) ds ->
  forallb (fun p : term * term => let '(a, d) := p in P a && P d) ds = true ->
  forallb (fun p : term * term => let '(a, d) := p in Q a && Q d) ds' = true.
Proof.
  induction 1 as [|[a d] [a' d'] l l' [Ha Hd] _ IH]; intros HF HP; cbn [forallb] in *; auto.
  inversion HF as [|? ? [Ka Kd] HF']; subst. cbn [fst snd] in *.
  apply andb_prop in HP as [HP1 HP2]. apply andb_prop in HP1 as [Pa Pd].
  rewrite (Ka _ Ha Pa), (Kd _ Hd Pd), (IH HF' HP2). reflexivity.
Qed.

Lemma forallb_app' {A} (f : A -> bool) l1 l2 : forallb f (l1 ++ l2) = forallb f l1 && forallb f l2.
Proof. induction l1; cbn; auto. now rewrite IHl1, andb_assoc. Qed.

Lemma T_hole_free : forall t r t', T r t t' -> hole_free t = true -> hole_free t' = true.
Proof.
  induction t using term_ind'; intros r t' HT F; inversion HT; subst; cbn [hole_free] in *; auto; split_andb;
    try (repeat (apply andb_true_intro; split); eauto; fail).
  - apply andb_true_intro. split; [|eauto].
    eapply Forall2_forallb_pair; [eassumption| |eassumption].
    eapply Forall_impl; [|exact H]. intros p [Ka Kd]. split; intros q Hq Hp; eauto.
  - apply andb_true_intro. split; [|eauto].
    apply Forall_app_inv in H as [Hpre H]. inversion H as [|? ? Hx H']; subst. inversion H' as [|? ? Hy Hpost]; subst.
    rewrite forallb_app' in *. cbn [forallb] in *. split_andb.
    destruct x as [xa xd], y as [ya yd], x' as [xa' xd'], y' as [ya' yd'].
    unfold Tdef in *. cbn [fst snd] in *. split_andb.
    repeat match goal with Q : _ /\ _ |- _ => destruct Q end.
    repeat (apply andb_true_intro; split); eauto.
    + eapply Forall2_forallb_pair; [eassumption| |eassumption].
      eapply Forall_impl; [|exact Hpre]. intros p [Ka Kd]. split; intros q Hq Hp; eauto.
    + eapply Forall2_forallb_pair; [eassumption| |eassumption].
      eapply Forall_impl; [|exact Hpost]. intros p [Ka Kd]. split; intros q Hq Hp; eauto.
Qed.

Lemma up_bound r n n' : (forall j, j < n -> r j < n') -> forall j, j < S n -> up r j < S n'.
Proof. intros H [|j] L; cbn; [lia|]. specialize (H j ltac:(lia)). lia. Qed.
Lemma upn_bound m r n n' : (forall j, j < n -> r j < n') -> forall j, j < m + n -> upn m r j < m + n'.
Proof. intros H j L. unfold upn. destruct (Nat.ltb_spec j m); [lia|]. specialize (H (j - m) ltac:(lia)). lia. Qed.
Lemma swp_bound a N j : S a < N -> j < N -> swp a j < N.
Proof. intros. now apply swp_lt. Qed.

Lemma T_bnd : forall t r t' n n', T r t t' -> (forall j, j < n -> r j < n') -> bnd n t = true -> bnd n' t' = true.
Proof.
  induction t using term_ind'; intros r t' n n' HT Hr B; inversion HT; subst; cbn [bnd] in *; auto; split_andb;
    try (repeat (apply andb_true_intro; split); eauto using up_bound; fail).
  - apply Nat.ltb_lt. apply Hr. now apply Nat.ltb_lt.
  - cbv zeta in *. split_andb. match goal with Q : Forall2 _ ds _ |- _ => rewrite (Forall2_length' _ _ _ Q) end.
    apply andb_true_intro. split; [|eapply IHt; eauto using upn_bound].
    eapply Forall2_forallb_pair; [eassumption| |eassumption].
    eapply Forall_impl; [|exact H]. intros p [Ka Kd]. split; intros q Hq Hp; [eapply Ka|eapply Kd]; eauto using upn_bound.
  - cbv zeta in *. split_andb.
    assert (L' : length (pre' ++ y' :: x' :: post') = length (pre ++ x :: y :: post)).
    { rewrite !app_length. cbn [length].
      match goal with Q1 : Forall2 _ pre pre', Q2 : Forall2 _ post post' |- _ =>
        rewrite (Forall2_length' _ _ _ Q1), (Forall2_length' _ _ _ Q2) end. reflexivity. }
    rewrite L'. set (N := length (pre ++ x :: y :: post)) in *.
    assert (La : S (length post) < N) by (unfold N; rewrite app_length; cbn [length]; lia).
    assert (Hr2 : forall j, j < N + n -> r2 j < N + n').
    { intros j Lj. unfold r2. fold N. apply swp_bound; [lia|]. now apply (upn_bound N r n n'). }
    apply andb_true_intro. split; [|eapply IHt; eauto].
    apply Forall_app_inv in H as [Hpre H]. inversion H as [|? ? Hx H']; subst. inversion H' as [|? ? Hy Hpost]; subst.
    rewrite forallb_app' in *. cbn [forallb] in *.
    destruct x as [xa xd], y as [ya yd], x' as [xa' xd'], y' as [ya' yd'].
    unfold Tdef in *. cbn [fst snd] in *. split_andb.
    repeat match goal with Q : _ /\ _ |- _ => destruct Q end.
    repeat (apply andb_true_intro; split); eauto.
    + eapply Forall2_forallb_pair; [eassumption| |eassumption].
      eapply Forall_impl; [|exact Hpre]. intros p [Ka Kd]. split; intros q Hq Hp; [eapply Ka|eapply Kd]; eauto.
    + eapply Forall2_forallb_pair; [eassumption| |eassumption].
      eapply Forall_impl; [|exact Hpost]. intros p [Ka Kd]. split; intros q Hq Hp; [eapply Ka|eapply Kd]; eauto.
Qed.

Lemma T_okt' t t' : T idr t t' -> okt' t -> okt' t'.
Proof.
  intros HT [B F]. split; [eapply (T_bnd t idr t' 0 0); eauto; intros j L; lia|eapply T_hole_free; eauto].
Qed.

(* ------------------------------------------------------------------------------------------- *)
(* Part 2. Stores equal up to a bijection of cells.                                            *)
(* ------------------------------------------------------------------------------------------- *)

(* the bijection is a list: cell c of the first store corresponds to cell pi_c of the second *)
Definition pirel (pi : list nat) (c c' : nat) : Prop := nth_error pi c = Some c'.

Definition envrel (pi : list nat) (r : nat -> nat) (env env' : list nat) : Prop :=
  (forall j c, nth_error env j = Some c -> exists c', nth_error env' (r j) = Some c' /\ pirel pi c c') /\
  (forall j, nth_error env j = None -> nth_error env' (r j) = None).

Inductive vrel (pi : list nat) : value -> value -> Prop :=
| VR_lit z : vrel pi (VLit z) (VLit z)
| VR_true : vrel pi VTrue VTrue
| VR_false : vrel pi VFalse VFalse
| VR_type : vrel pi VTypeT VTypeT
| VR_int : vrel pi VIntT VIntT
| VR_bool : vrel pi VBoolT VBoolT
| VR_clos env env' im im' d d' b b' r : T (up r) b b' -> envrel pi r env env' ->
    vrel pi (VClos env im d b) (VClos env' im' d' b')
| VR_pi env env' im im' d d' b b' : vrel pi (VPi env im d b) (VPi env' im' d' b').

Definition cellrel (pi : list nat) (x y : option (option value)) : Prop :=
  match x, y with
  | Some None, Some None => True
  | Some (Some v), Some (Some v') => vrel pi v v'
  | _, _ => False
  end.

Definition storerel (pi : list nat) (s s' : store) : Prop :=
  length pi = length s /\ length s' = length s /\ NoDup pi /\
  forall c c', pirel pi c c' -> c' < length s /\ cellrel pi (nth_error s c) (nth_error s' c').

Definition resrel (pi : list nat) (r r' : result) : Prop :=
  match r, r' with
  | ROk v, ROk v' => vrel pi v v'
  | RStuck k, RStuck k' => k = k'
  | RFuel, RFuel => True
  | _, _ => False
  end.

Lemma pirel_app pi x c c' : pirel pi c c' -> pirel (pi ++ x) c c'.
Proof. unfold pirel. intros H. rewrite nth_error_app1; auto. apply nth_error_Some. congruence. Qed.

Lemma envrel_app pi x r env env' : envrel pi r env env' -> envrel (pi ++ x) r env env'.
Proof. intros [H1 H2]. split; auto. intros j c Hj. destruct (H1 _ _ Hj) as (c' & Hc & P). eauto using pirel_app. Qed.

Lemma vrel_app pi x v v' : vrel pi v v' -> vrel (pi ++ x) v v'.
Proof. destruct 1; econstructor; eauto using envrel_app. Qed.

Lemma vrel_ext pi pi' v v' : ext pi pi' -> vrel pi v v' -> vrel pi' v v'.
Proof. intros [x ->]. apply vrel_app. Qed.
Lemma envrel_ext pi pi' r env env' : ext pi pi' -> envrel pi r env env' -> envrel pi' r env env'.
Proof. intros [x ->]. apply envrel_app. Qed.

Lemma cellrel_app pi x a b : cellrel pi a b -> cellrel (pi ++ x) a b.
Proof. destruct a as [[v|]|], b as [[v'|]|]; cbn; auto. apply vrel_app. Qed.

Lemma vrel_obs pi v v' : vrel pi v v' -> obs_of_value v = obs_of_value v'.
Proof. destruct 1; reflexivity. Qed.

Lemma storerel_nil : storerel [] [] [].
Proof. repeat split; auto; try constructor; destruct c; discriminate. Qed.

Lemma pi_range pi s s' x : storerel pi s s' -> In x pi -> x < length s.
Proof. intros (_ & _ & _ & H) Hin. apply In_nth_error in Hin as [c Hc]. now destruct (H _ _ Hc). Qed.

Lemma NoDup_app' {A} (l1 l2 : list A) : NoDup l1 -> NoDup l2 -> (forall x, In x l1 -> In x l2 -> False) -> NoDup (l1 ++ l2).
Proof.
  induction 1 as [|a l1 Ha _ IH]; intros N2 D; cbn [app]; auto. constructor.
  - intros Hin. apply in_app_or in Hin as [Hin|Hin]; [auto|]. eapply D; eauto. now left.
  - apply IH; auto. intros x H1 H2. eapply D; eauto. now right.
Qed.

(* both stores allocate corresponding new cells; the new cells may be matched in any order sigma *)
Lemma storerel_alloc pi s s' (sigma : list nat) (cs cs' : list (option value)) :
  storerel pi s s' -> length sigma = length cs -> length cs' = length cs -> NoDup sigma ->
  (forall x, In x sigma -> length s <= x < length s + length cs) ->
  (forall m c', nth_error sigma m = Some c' ->
     cellrel (pi ++ sigma) (nth_error cs m) (nth_error cs' (c' - length s))) ->
  storerel (pi ++ sigma) (s ++ cs) (s' ++ cs').
Proof.
  intros SR Ls Lc NDs Hr Hcells. pose proof SR as (L1 & L2 & ND & H). repeat split.
  - rewrite !app_length. lia.
  - rewrite !app_length. lia.
  - apply NoDup_app'; auto. intros x Hx Hx'. apply (pi_range pi s s' x SR) in Hx. apply Hr in Hx'. lia.
  - unfold pirel in H0. destruct (Nat.lt_ge_cases c (length pi)).
    + rewrite nth_error_app1 in H0 by auto. destruct (H _ _ H0). rewrite app_length. lia.
    + rewrite nth_error_app2 in H0 by auto. apply nth_error_In, Hr in H0. rewrite app_length. lia.
  - unfold pirel in H0. destruct (Nat.lt_ge_cases c (length pi)).
    + rewrite nth_error_app1 in H0 by auto. destruct (H _ _ H0) as [Lc' Hc].
      rewrite nth_error_app1 by lia. rewrite nth_error_app1 by lia. now apply cellrel_app.
    + rewrite nth_error_app2 in H0 by auto. pose proof (Hcells _ _ H0) as K.
      pose proof (Hr _ (nth_error_In _ _ H0)) as Rg.
      rewrite nth_error_app2 by lia. rewrite nth_error_app2 by lia. rewrite <- L1, L2. exact K.
Qed.

Lemma pirel_inj pi c1 c2 c' : NoDup pi -> pirel pi c1 c' -> pirel pi c2 c' -> c1 = c2.
Proof.
  unfold pirel. intros ND H1 H2. apply (proj1 (NoDup_nth_error pi) ND); [apply nth_error_Some; congruence|congruence].
Qed.

Lemma storerel_set pi s s' k k' v v' : storerel pi s s' -> pirel pi k k' -> vrel pi v v' ->
  storerel pi (set_cell s k v) (set_cell s' k' v').
Proof.
  intros (L1 & L2 & ND & H) Pk Vv. destruct (H _ _ Pk) as [Lk' _].
  assert (Lk : k < length s) by (rewrite <- L1; apply nth_error_Some; unfold pirel in Pk; congruence).
  repeat split; rewrite ?set_cell_length; auto.
  - now destruct (H _ _ H0).
  - destruct (H _ _ H0) as [Lc' Hc]. destruct (Nat.eq_dec c k) as [->|N].
    + assert (c' = k') by (unfold pirel in *; congruence). subst c'.
      rewrite !set_cell_nth_eq by lia. exact Vv.
    + assert (c' <> k') by (intros ->; apply N; eapply pirel_inj; eauto).
      now rewrite !set_cell_nth_ne by auto.
Qed.

Lemma set_cell_comm : forall (s : store) k1 k2 v1 v2, k1 <> k2 ->
  set_cell (set_cell s k1 v1) k2 v2 = set_cell (set_cell s k2 v2) k1 v1.
Proof.
  induction s as [|c s IH]; intros [|k1] [|k2] v1 v2 N; cbn; auto; try congruence. f_equal. apply IH. congruence.
Qed.

Lemma lookup_rel pi s s' r env env' j : storerel pi s s' -> envrel pi r env env' ->
  resrel pi (lookup s env j) (lookup s' env' (r j)).
Proof.
  intros (L1 & L2 & ND & H) [E1 E2]. unfold lookup.
  destruct (nth_error env j) as [c|] eqn:En.
  - destruct (E1 _ _ En) as (c' & -> & P). destruct (H _ _ P) as [_ Hc].
    destruct (nth_error s c) as [[v|]|], (nth_error s' c') as [[v'|]|]; cbn in *; auto; contradiction.
  - rewrite (E2 _ En). reflexivity.
Qed.

Lemma val_of_rel pi r env env' d d' : is_value d = true -> T r d d' -> envrel pi r env env' ->
  vrel pi (val_of env d) (val_of env' d').
Proof.
  intros V HT He. destruct HT; cbn in V; try discriminate; cbn [val_of]; econstructor; eauto.
Qed.

Lemma defs_of_app ev : forall l1 l2 s kc,
  defs_of ev s kc (l1 ++ l2) =
  match defs_of ev s kc l1 with
  | (s1, None) => defs_of ev s1 (kc + length l1) l2
  | (s1, Some r) => (s1, Some r)
  end.
Proof.
  induction l1 as [|[a d] l1 IH]; intros l2 s kc; cbn [app defs_of length].
  - now rewrite Nat.add_0_r.
  - destruct (ev s d) as [s1 [v|k|]]; auto. rewrite IH. now rewrite Nat.add_succ_r.
Qed.

Definition orel (pi : list nat) (o o' : option result) : Prop :=
  match o, o' with
  | None, None => True
  | Some r, Some r' => resrel pi r r'
  | _, _ => False
  end.

Definition sim_at (f : nat) : Prop := forall s s' pi env env' r t t' s1 res,
  eval_env f s env t = (s1, res) -> T r t t' -> storerel pi s s' -> envrel pi r env env' ->
  exists s1' res' pi1, eval_env f s' env' t' = (s1', res') /\ ext pi pi1 /\ storerel pi1 s1 s1' /\ resrel pi1 res res'.

(* definitions of two groups evaluated in lockstep, cell kc + m on both sides *)
Lemma defs_lock f (IH : sim_at f) env env' r2 : forall l l' kc s s' pi s1 o,
  Forall2 (Tdef (T r2)) l l' ->
  defs_of (fun s d => eval_env f s env d) s kc l = (s1, o) ->
  storerel pi s s' -> envrel pi r2 env env' ->
  (forall m, m < length l -> pirel pi (kc + m) (kc + m)) ->
  exists s1' o' pi1, defs_of (fun s d => eval_env f s env' d) s' kc l' = (s1', o') /\
    ext pi pi1 /\ storerel pi1 s1 s1' /\ orel pi1 o o'.
Proof.
  induction l as [|[a d] l IHl]; intros l' kc s s' pi s1 o HF H SR ER Hk; inversion HF as [|? [a' d'] ? l2 [_ Hd] HF']; subst; cbn [defs_of] in *.
  - injection H as <- <-. exists s', None, pi. split; [reflexivity|split; [apply ext_refl|split; [exact SR|exact I]]].
  - cbn [snd] in Hd. destruct (eval_env f s env d) as [s2 rd] eqn:Ed.
    destruct (IH _ _ _ _ _ _ _ _ _ _ Ed Hd SR ER) as (s2' & rd' & pi2 & Ed' & X2 & SR2 & RR). rewrite Ed'.
    destruct rd as [v|k|], rd' as [v'|k'|]; cbn [resrel] in RR; try contradiction.
    + assert (Pk : pirel pi2 kc kc).
      { destruct X2 as [x ->]. apply pirel_app. specialize (Hk 0 ltac:(cbn; lia)). now rewrite Nat.add_0_r in Hk. }
      destruct (IHl l2 (S kc) (set_cell s2 kc v) (set_cell s2' kc v') pi2 s1 o HF' H) as (s1' & o' & pi1 & E1 & X1 & SR1 & OR).
      * now apply storerel_set.
      * eapply envrel_ext; eauto.
      * intros m Lm. destruct X2 as [x ->]. apply pirel_app. specialize (Hk (S m) ltac:(cbn; lia)).
        now rewrite Nat.add_succ_r in Hk.
      * exists s1', o', pi1. split; [exact E1|split; [eapply ext_trans; eauto|split; [exact SR1|exact OR]]].
    + injection H as <- <-. exists s2', (Some (RStuck k')), pi2. split; [reflexivity|split; [exact X2|split; [exact SR2|exact RR]]].
    + injection H as <- <-. exists s2', (Some RFuel), pi2. split; [reflexivity|split; [exact X2|split; [exact SR2|exact I]]].
Qed.

(* the group environments of two groups of the same size, allocated at the same base: related by upn n r
   composed with any permutation q of the group variables that matches the cell bijection *)
Lemma envrel_group pi0 pi r env env' base n (q : nat -> nat) :
  ext pi pi0 -> envrel pi r env env' ->
  (forall j, j < n -> q j < n /\ pirel pi0 (base + (n - 1 - j)) (base + (n - 1 - q j))) ->
  (forall j, n <= j -> q j = j) ->
  envrel pi0 (fun j => q (upn n r j)) (group_env base n env) (group_env base n env').
Proof.
  intros X [E1 E2] Hq Hq2. split.
  - intros j c Hj. unfold upn. destruct (Nat.ltb_spec j n) as [Lj|Lj].
    + rewrite nth_group_env_lt in Hj by auto. injection Hj as <-. destruct (Hq j Lj) as [Lq Pq].
      exists (base + (n - 1 - q j)). split; auto. now apply nth_group_env_lt.
    + rewrite nth_group_env_ge in Hj by auto. destruct (E1 _ _ Hj) as (c' & Hc' & P).
      exists c'. split; [|destruct X as [x ->]; now apply pirel_app].
      rewrite Hq2 by lia. rewrite nth_group_env_ge by lia. now replace (n + r (j - n) - n) with (r (j - n)) by lia.
  - intros j Hj. unfold upn. destruct (Nat.ltb_spec j n) as [Lj|Lj].
    + rewrite nth_group_env_lt in Hj by auto. discriminate.
    + rewrite nth_group_env_ge in Hj by auto. rewrite Hq2 by lia. rewrite nth_group_env_ge by lia.
      replace (n + r (j - n) - n) with (r (j - n)) by lia. auto.
Qed.

Lemma nth_repeat_none n m : m < n -> nth_error (repeat (@None value) n) m = Some None.
Proof. revert m; induction n; intros [|m] L; cbn; auto; try lia. apply IHn. lia. Qed.

(* the cell bijection of a group whose definitions i and i + 1 are exchanged *)
Definition swap_sigma (base i npost : nat) : list nat :=
  seq base i ++ [base + i + 1; base + i] ++ seq (base + i + 2) npost.

Lemma swap_sigma_length base i npost : length (swap_sigma base i npost) = i + 2 + npost.
Proof. unfold swap_sigma. rewrite !app_length, !seq_length. cbn. lia. Qed.

Lemma swap_sigma_nth base i npost m : m < i + 2 + npost ->
  nth_error (swap_sigma base i npost) m =
  Some (if Nat.eqb m i then base + i + 1 else if Nat.eqb m (S i) then base + i else base + m).
Proof.
  intros L. unfold swap_sigma. destruct (Nat.lt_ge_cases m i).
  - rewrite nth_error_app1 by (now rewrite seq_length). rewrite nth_error_seq by auto.
    destruct (Nat.eqb_spec m i); [lia|]. destruct (Nat.eqb_spec m (S i)); [lia|]. reflexivity.
  - rewrite nth_error_app2 by (now rewrite seq_length). rewrite seq_length.
    destruct (Nat.eqb_spec m i) as [->|N1]; [now rewrite Nat.sub_diag|].
    destruct (Nat.eqb_spec m (S i)) as [->|N2]; [now replace (S i - i) with 1 by lia|].
    replace (m - i) with (S (S (m - i - 2))) by lia. cbn [nth_error app].
    rewrite nth_error_seq by lia. f_equal. lia.
Qed.

Lemma swap_sigma_range base i npost x : In x (swap_sigma base i npost) -> base <= x < base + (i + 2 + npost).
Proof.
  unfold swap_sigma. intros H. apply in_app_or in H as [H|H]; [apply in_seq in H; lia|].
  apply in_app_or in H as [H|H]; [cbn in H; lia|apply in_seq in H; lia].
Qed.

Lemma swap_sigma_nodup base i npost : NoDup (swap_sigma base i npost).
Proof.
  unfold swap_sigma. apply NoDup_app'; [apply seq_NoDup| |].
  - apply NoDup_app'; [|apply seq_NoDup|].
    + constructor; [cbn; lia|]. constructor; [intros []|constructor].
    + intros x H1 H2. apply in_seq in H2. cbn in H1. lia.
  - intros x H1 H2. apply in_seq in H1. apply in_app_or in H2 as [H2|H2]; [cbn in H2; lia|apply in_seq in H2; lia].
Qed.

(* ------------------------------------------------------------------------------------------- *)
(* Part 3. The lockstep simulation.                                                            *)
(* ------------------------------------------------------------------------------------------- *)

Definition sim_goal (f : nat) (s' : store) (pi : list nat) (env' : list nat) (t' : term) (s1 : store) (res : result) : Prop :=
  exists s1' res' pi1, eval_env f s' env' t' = (s1', res') /\ ext pi pi1 /\ storerel pi1 s1 s1' /\ resrel pi1 res res'.

Lemma storerel_lengths pi s s' : storerel pi s s' -> length pi = length s /\ length s' = length s.
Proof. intros (A & B & _). auto. Qed.

(* a group whose definitions stay in place *)
Lemma sim_let f (IH : sim_at f) s s' pi env env' r ds ds' b b' s1 res :
  eval_env (S f) s env (TLet ds b) = (s1, res) ->
  Forall2 (Tdef (T (upn (length ds) r))) ds ds' -> T (upn (length ds) r) b b' ->
  storerel pi s s' -> envrel pi r env env' ->
  sim_goal (S f) s' pi env' (TLet ds' b') s1 res.
Proof.
  intros H HF Hb SR ER. destruct (storerel_lengths _ _ _ SR) as [Lp Ls].
  rewrite eval_env_let_cont in H. unfold sim_goal. rewrite eval_env_let_cont.
  rewrite (Forall2_length' _ _ _ HF), Ls. set (n := length ds) in *. set (base := length s) in *.
  set (pi0 := pi ++ seq base n).
  assert (X0 : ext pi pi0) by apply ext_app.
  assert (P0 : forall m, m < n -> pirel pi0 (base + m) (base + m)).
  { intros m Lm. unfold pirel, pi0. rewrite nth_error_app2 by lia. rewrite Lp. replace (base + m - base) with m by lia.
    now apply nth_error_seq. }
  assert (SR0 : storerel pi0 (s ++ repeat None n) (s' ++ repeat None n)).
  { apply storerel_alloc; auto; rewrite ?seq_length, ?repeat_length; auto.
    - apply seq_NoDup.
    - intros x Hx. apply in_seq in Hx. fold base. lia.
    - intros m c' Hm. assert (Lm : m < n) by (rewrite <- (seq_length n base); apply nth_error_Some; congruence).
      rewrite nth_error_seq in Hm by auto. injection Hm as <-. fold base.
      rewrite !nth_repeat_none by lia. exact I. }
  assert (ER0 : envrel pi0 (upn n r) (group_env base n env) (group_env base n env')).
  { apply (envrel_group pi0 pi r env env' base n (fun j => j)); auto. intros j Lj. split; auto. apply P0. lia. }
  unfold cont in *.
  destruct (defs_of (fun s0 d => eval_env f s0 (group_env base n env) d) (s ++ repeat None n) base ds) as [sa oa] eqn:Ea.
  destruct (defs_lock f IH _ _ _ ds ds' base _ _ pi0 sa oa HF Ea SR0 ER0) as (sa' & oa' & pia & Ea' & Xa & SRa & ORa).
  { intros m Lm. apply P0. exact Lm. }
  rewrite Ea'. destruct oa as [ra|], oa' as [ra'|]; cbn [orel] in ORa; try contradiction.
  - injection H as <- <-. exists sa', ra', pia. split; [reflexivity|split; [eapply ext_trans; eauto|split; auto]].
  - destruct (IH _ _ _ _ _ _ _ _ _ _ H Hb SRa (envrel_ext _ _ _ _ _ Xa ER0)) as (s1' & res' & pi1 & E1 & X1 & SR1 & RR).
    exists s1', res', pi1. split; [exact E1|split; [|split; auto]].
    eapply ext_trans; [exact X0|]. eapply ext_trans; eauto.
Qed.

(* a group two of whose adjacent value definitions are exchanged *)
Lemma sim_swap f (IH : sim_at f) s s' pi env env' r pre x y post pre' x' y' post' b b' s1 res :
  let n := length (pre ++ x :: y :: post) in
  let r2 := fun j => swp (length post) (upn n r j) in
  eval_env (S f) s env (TLet (pre ++ x :: y :: post) b) = (s1, res) ->
  is_value (snd x) = true -> is_value (snd y) = true ->
  Forall2 (Tdef (T r2)) pre pre' -> Tdef (T r2) x x' -> Tdef (T r2) y y' -> Forall2 (Tdef (T r2)) post post' ->
  T r2 b b' -> storerel pi s s' -> envrel pi r env env' ->
  sim_goal (S f) s' pi env' (TLet (pre' ++ y' :: x' :: post') b') s1 res.
Proof.
  intros n r2 H Vx Vy Hpre Hx Hy Hpost Hb SR ER. destruct (storerel_lengths _ _ _ SR) as [Lp Ls].
  rewrite eval_env_let_cont in H. unfold sim_goal. rewrite eval_env_let_cont.
  set (i := length pre) in *. set (np := length post) in *.
  assert (Ln : n = i + 2 + np) by (unfold n; rewrite app_length; cbn [length]; fold i np; lia).
  assert (Ln' : length (pre' ++ y' :: x' :: post') = n).
  { rewrite app_length. cbn [length]. rewrite (Forall2_length' _ _ _ Hpre), (Forall2_length' _ _ _ Hpost). fold i np. lia. }
  rewrite Ln', Ls. fold n in H. set (base := length s) in *.
  set (sigma := swap_sigma base i np). set (pi0 := pi ++ sigma).
  assert (X0 : ext pi pi0) by apply ext_app.
  assert (P0 : forall m, m < n -> pirel pi0 (base + m)
                 (if Nat.eqb m i then base + i + 1 else if Nat.eqb m (S i) then base + i else base + m)).
  { intros m Lm. unfold pirel, pi0. rewrite nth_error_app2 by lia. rewrite Lp. replace (base + m - base) with m by lia.
    apply swap_sigma_nth. lia. }
  assert (SR0 : storerel pi0 (s ++ repeat None n) (s' ++ repeat None n)).
  { apply storerel_alloc; auto; rewrite ?repeat_length; auto.
    - unfold sigma. rewrite swap_sigma_length. lia.
    - apply swap_sigma_nodup.
    - intros z Hz. apply swap_sigma_range in Hz. fold base. lia.
    - intros m c' Hm. assert (Lm : m < n).
      { rewrite Ln, <- (swap_sigma_length base i np). apply nth_error_Some. unfold sigma in Hm. congruence. }
      pose proof (swap_sigma_range _ _ _ _ (nth_error_In _ _ Hm)) as Rg. fold base.
      rewrite !nth_repeat_none by lia. exact I. }
  assert (ER0 : envrel pi0 r2 (group_env base n env) (group_env base n env')).
  { apply (envrel_group pi0 pi r env env' base n (swp np)); auto.
    - intros j Lj. split; [apply swp_lt; lia|].
      pose proof (P0 (n - 1 - j) ltac:(lia)) as K. unfold swp.
      destruct (Nat.eqb_spec j np) as [->|N1].
      + destruct (Nat.eqb_spec (n - 1 - np) i); [lia|]. destruct (Nat.eqb_spec (n - 1 - np) (S i)); [|lia].
        replace (base + (n - 1 - S np)) with (base + i) by lia. exact K.
      + destruct (Nat.eqb_spec j (S np)) as [->|N2].
        * destruct (Nat.eqb_spec (n - 1 - S np) i); [|lia].
          replace (base + (n - 1 - np)) with (base + i + 1) by lia. exact K.
        * destruct (Nat.eqb_spec (n - 1 - j) i); [lia|]. destruct (Nat.eqb_spec (n - 1 - j) (S i)); [lia|]. exact K.
    - intros j Lj. unfold swp. destruct (Nat.eqb_spec j np); [lia|]. destruct (Nat.eqb_spec j (S np)); [lia|]. reflexivity. }
  unfold cont in *. rewrite defs_of_app in H. rewrite defs_of_app.
  destruct (defs_of (fun s0 d => eval_env f s0 (group_env base n env) d) (s ++ repeat None n) base pre) as [sa oa] eqn:Ea.
  destruct (defs_lock f IH _ _ _ pre pre' base _ _ pi0 sa oa Hpre Ea SR0 ER0) as (sa' & oa' & pia & Ea' & Xa & SRa & ORa).
  { intros m Lm. fold i in Lm. pose proof (P0 m ltac:(lia)) as K.
    destruct (Nat.eqb_spec m i); [lia|]. destruct (Nat.eqb_spec m (S i)); [lia|]. exact K. }
  rewrite Ea'. rewrite <- (Forall2_length' _ _ _ Hpre) in H. rewrite (Forall2_length' _ _ _ Hpre) in *. fold i in H |- *.
  destruct oa as [ra|], oa' as [ra'|]; cbn [orel] in ORa; try contradiction.
  { injection H as <- <-. exists sa', ra', pia. split; [reflexivity|split; [eapply ext_trans; eauto|split; auto]]. }
  pose proof (envrel_ext _ _ _ _ _ Xa ER0) as ERa.
  destruct x as [xa xd], y as [ya yd], x' as [xa' xd'], y' as [ya' yd']. destruct Hx as [_ Hxd], Hy as [_ Hyd]. cbn [fst snd] in *.
  cbn [defs_of] in H |- *.
  destruct f as [|f'].
  { cbn [eval_env] in H |- *. injection H as <- <-. exists sa', RFuel, pia.
    split; [reflexivity|split; [eapply ext_trans; eauto|split; [auto|exact I]]]. }
  assert (Vx' : is_value xd' = true) by (rewrite (T_value _ _ _ Hxd); auto).
  assert (Vy' : is_value yd' = true) by (rewrite (T_value _ _ _ Hyd); auto).
  rewrite (eval_value f' _ _ _ Vx), (eval_value f' _ _ _ Vy) in H.
  rewrite (eval_value f' _ _ _ Vy'), (eval_value f' _ _ _ Vx').
  set (vx := val_of (group_env base n env) xd) in *. set (vy := val_of (group_env base n env) yd) in *.
  set (vx' := val_of (group_env base n env') xd'). set (vy' := val_of (group_env base n env') yd').
  assert (Rx : vrel pia vx vx') by (apply (val_of_rel pia r2); auto).
  assert (Ry : vrel pia vy vy') by (apply (val_of_rel pia r2); auto).
  assert (Pi1 : pirel pia (base + i) (S (base + i))).
  { destruct Xa as [z ->]. apply pirel_app. pose proof (P0 i ltac:(lia)) as K. rewrite Nat.eqb_refl in K.
    now replace (S (base + i)) with (base + i + 1) by lia. }
  assert (Pi2 : pirel pia (S (base + i)) (base + i)).
  { destruct Xa as [z ->]. apply pirel_app. pose proof (P0 (S i) ltac:(lia)) as K.
    destruct (Nat.eqb_spec (S i) i); [lia|]. rewrite Nat.eqb_refl in K. now replace (S (base + i)) with (base + S i) by lia. }
  assert (SRb : storerel pia (set_cell (set_cell sa (base + i) vx) (S (base + i)) vy)
                             (set_cell (set_cell sa' (base + i) vy') (S (base + i)) vx')).
  { rewrite (set_cell_comm sa' (base + i) (S (base + i))) by lia.
    apply storerel_set; auto. apply storerel_set; auto. }
  destruct (defs_of (fun s0 d => eval_env (S f') s0 (group_env base n env) d)
              (set_cell (set_cell sa (base + i) vx) (S (base + i)) vy) (S (S (base + i))) post) as [sb ob] eqn:Eb.
  destruct (defs_lock (S f') IH _ _ _ post post' (S (S (base + i))) _ _ pia sb ob Hpost Eb SRb ERa) as (sb' & ob' & pib & Eb' & Xb & SRb' & ORb).
  { intros m Lm. fold np in Lm. destruct Xa as [z ->]. apply pirel_app. pose proof (P0 (i + 2 + m) ltac:(lia)) as K.
    destruct (Nat.eqb_spec (i + 2 + m) i); [lia|]. destruct (Nat.eqb_spec (i + 2 + m) (S i)); [lia|].
    now replace (S (S (base + i)) + m) with (base + (i + 2 + m)) by lia. }
  rewrite Eb'. destruct ob as [rb|], ob' as [rb'|]; cbn [orel] in ORb; try contradiction.
  { injection H as <- <-. exists sb', rb', pib. split; [reflexivity|split; [|split; auto]].
    eapply ext_trans; [exact X0|]. eapply ext_trans; eauto. }
  destruct (IH _ _ _ _ _ _ _ _ _ _ H Hb SRb' (envrel_ext _ _ _ _ _ Xb ERa)) as (s1' & res' & pi1 & E1 & X1 & SR1 & RR).
  exists s1', res', pi1. split; [exact E1|split; [|split; auto]].
  eapply ext_trans; [exact X0|]. eapply ext_trans; [exact Xa|]. eapply ext_trans; eauto.
Qed.

Lemma storerel_snoc pi s s' v v' : storerel pi s s' -> vrel pi v v' ->
  storerel (pi ++ [length s]) (s ++ [Some v]) (s' ++ [Some v']) /\ pirel (pi ++ [length s]) (length s) (length s).
Proof.
  intros SR Vv. destruct (storerel_lengths _ _ _ SR) as [Lp Ls]. split.
  - apply storerel_alloc; auto.
    + constructor; [intros []|constructor].
    + intros x [<-|[]]. cbn. lia.
    + intros m c' Hm. destruct m as [|[|m]]; cbn in Hm; try discriminate. injection Hm as <-.
      rewrite Nat.sub_diag. cbn. now apply vrel_app.
  - unfold pirel. rewrite nth_error_app2 by lia. now rewrite Lp, Nat.sub_diag.
Qed.

Lemma envrel_cons pi r env env' c c' : envrel pi r env env' -> pirel pi c c' -> envrel pi (up r) (c :: env) (c' :: env').
Proof.
  intros [E1 E2] P. split.
  - intros [|j] x Hj; cbn in *; [injection Hj as <-; eauto|auto].
  - intros [|j] Hj; cbn in *; [discriminate|auto].
Qed.

Lemma prim_rel pi o x y : resrel pi (prim o x y) (prim o x y).
Proof.
  destruct o; cbn; try constructor; try (match goal with |- context [if ?c then _ else _] => destruct c end; cbn; constructor).
Qed.

Ltac done_with s' r' pi' := exists s', r', pi'; split; [reflexivity|split; [auto|split; [auto|auto]]].

Theorem sim : forall f, sim_at f.
Proof.
  induction f as [|f IH]; intros s s' pi env env' r t t' s1 res H HT SR ER.
  { cbn in H. injection H as <- <-. exists s', RFuel, pi. split; [reflexivity|split; [apply ext_refl|split; [auto|exact I]]]. }
  destruct HT.
  1-7: (rewrite eval_env_unfold in H; cbn [eval_body] in H; injection H as <- <-; rewrite eval_env_unfold; cbn [eval_body];
        eexists _, _, pi; split; [reflexivity|split; [apply ext_refl|split; [auto|cbn; auto; constructor]]]).
  - (* var *)
    rewrite eval_env_unfold in H; cbn [eval_body] in H; injection H as <- <-. rewrite eval_env_unfold; cbn [eval_body].
    subst j'. eexists _, _, pi. split; [reflexivity|split; [apply ext_refl|split; [auto|]]]. now apply lookup_rel.
  - (* lam *)
    rewrite eval_env_unfold in H; cbn [eval_body] in H; injection H as <- <-. rewrite eval_env_unfold; cbn [eval_body].
    eexists _, _, pi. split; [reflexivity|split; [apply ext_refl|split; [auto|]]]. cbn. econstructor; eauto.
  - (* pi *)
    rewrite eval_env_unfold in H; cbn [eval_body] in H; injection H as <- <-. rewrite eval_env_unfold; cbn [eval_body].
    eexists _, _, pi. split; [reflexivity|split; [apply ext_refl|split; [auto|]]]. cbn. constructor.
  - (* app *)
    rewrite eval_env_unfold in H; cbn [eval_body] in H. rewrite eval_env_unfold; cbn [eval_body].
    destruct (eval_env f s env f0) as [sg rg] eqn:Eg.
    destruct (IH _ _ _ _ _ _ _ _ _ _ Eg HT1 SR ER) as (sg' & rg' & pig & Eg' & Xg & SRg & RRg). rewrite Eg'.
    destruct rg as [vg|k|], rg' as [vg'|k'|]; cbn [resrel] in RRg; try contradiction;
      [|injection H as <- <-; subst; exists sg', (RStuck k'), pig; split; [reflexivity|split; [auto|split; [auto|reflexivity]]]
       |injection H as <- <-; exists sg', RFuel, pig; split; [reflexivity|split; [auto|split; [auto|exact I]]]].
    destruct (eval_env f sg env a) as [sa ra] eqn:Ea.
    destruct (IH _ _ _ _ _ _ _ _ _ _ Ea HT2 SRg (envrel_ext _ _ _ _ _ Xg ER)) as (sa' & ra' & pia & Ea' & Xa & SRa & RRa). rewrite Ea'.
    assert (Xga : ext pi pia) by (eapply ext_trans; eauto).
    destruct ra as [va|k|], ra' as [va'|k'|]; cbn [resrel] in RRa; try contradiction;
      [|injection H as <- <-; subst; exists sa', (RStuck k'), pia; split; [reflexivity|split; [auto|split; [auto|reflexivity]]]
       |injection H as <- <-; exists sa', RFuel, pia; split; [reflexivity|split; [auto|split; [auto|exact I]]]].
    pose proof (vrel_ext _ _ _ _ Xa RRg) as RRg'.
    destruct RRg' as [z| | | | | |cenv cenv' im im' d d' body body' rc Hbody Hce|];
      try (injection H as <- <-; eexists sa', (RStuck NotAFunction), pia; split; [reflexivity|split; [auto|split; [auto|reflexivity]]]).
    destruct (storerel_lengths _ _ _ SRa) as [Lp Ls].
    destruct (storerel_snoc _ _ _ _ _ SRa RRa) as [SR3 P3]. rewrite Ls.
    assert (X3 : ext pia (pia ++ [length sa])) by apply ext_app.
    destruct (IH _ _ _ _ _ _ _ _ _ _ H Hbody SR3 (envrel_cons _ _ _ _ _ _ (envrel_ext _ _ _ _ _ X3 Hce) P3))
      as (s1' & res' & pi1 & E1 & X1 & SR1 & RR1).
    exists s1', res', pi1. split; [exact E1|split; [|split; auto]].
    eapply ext_trans; [exact Xga|]. eapply ext_trans; eauto.
  - (* let *) eapply sim_let; eauto.
  - (* let, two value definitions exchanged *) eapply sim_swap; eauto.
  - (* neg *)
    rewrite eval_env_unfold in H; cbn [eval_body] in H. rewrite eval_env_unfold; cbn [eval_body].
    destruct (eval_env f s env a) as [sa ra] eqn:Ea.
    destruct (IH _ _ _ _ _ _ _ _ _ _ Ea HT SR ER) as (sa' & ra' & pia & Ea' & Xa & SRa & RRa). rewrite Ea'.
    destruct ra as [va|k|], ra' as [va'|k'|]; cbn [resrel] in RRa; try contradiction;
      [|injection H as <- <-; subst; exists sa', (RStuck k'), pia; split; [reflexivity|split; [auto|split; [auto|reflexivity]]]
       |injection H as <- <-; exists sa', RFuel, pia; split; [reflexivity|split; [auto|split; [auto|exact I]]]].
    destruct RRa; injection H as <- <-; eexists sa', _, pia; (split; [reflexivity|split; [auto|split; [auto|cbn; auto; constructor]]]).
  - (* bin *)
    rewrite eval_env_unfold in H; cbn [eval_body] in H. rewrite eval_env_unfold; cbn [eval_body].
    destruct (eval_env f s env a) as [sa ra] eqn:Ea.
    destruct (IH _ _ _ _ _ _ _ _ _ _ Ea HT1 SR ER) as (sa' & ra' & pia & Ea' & Xa & SRa & RRa). rewrite Ea'.
    destruct ra as [va|k|], ra' as [va'|k'|]; cbn [resrel] in RRa; try contradiction;
      [|injection H as <- <-; subst; exists sa', (RStuck k'), pia; split; [reflexivity|split; [auto|split; [auto|reflexivity]]]
       |injection H as <- <-; exists sa', RFuel, pia; split; [reflexivity|split; [auto|split; [auto|exact I]]]].
    destruct (eval_env f sa env b) as [sb rb] eqn:Eb.
    destruct (IH _ _ _ _ _ _ _ _ _ _ Eb HT2 SRa (envrel_ext _ _ _ _ _ Xa ER)) as (sb' & rb' & pib & Eb' & Xb & SRb & RRb). rewrite Eb'.
    assert (Xab : ext pi pib) by (eapply ext_trans; eauto).
    destruct rb as [vb|k|], rb' as [vb'|k'|]; cbn [resrel] in RRb; try contradiction;
      [|injection H as <- <-; subst; exists sb', (RStuck k'), pib; split; [reflexivity|split; [auto|split; [auto|reflexivity]]]
       |injection H as <- <-; exists sb', RFuel, pib; split; [reflexivity|split; [auto|split; [auto|exact I]]]].
    destruct RRa; destruct RRb; injection H as <- <-; eexists sb', _, pib;
      (split; [reflexivity|split; [auto|split; [auto|try reflexivity; apply prim_rel]]]).
  - (* if *)
    rewrite eval_env_unfold in H; cbn [eval_body] in H. rewrite eval_env_unfold; cbn [eval_body].
    destruct (eval_env f s env c) as [sc rc] eqn:Ec.
    destruct (IH _ _ _ _ _ _ _ _ _ _ Ec HT1 SR ER) as (sc' & rc' & pic & Ec' & Xc & SRc & RRc). rewrite Ec'.
    destruct rc as [vc|k|], rc' as [vc'|k'|]; cbn [resrel] in RRc; try contradiction;
      [|injection H as <- <-; subst; exists sc', (RStuck k'), pic; split; [reflexivity|split; [auto|split; [auto|reflexivity]]]
       |injection H as <- <-; exists sc', RFuel, pic; split; [reflexivity|split; [auto|split; [auto|exact I]]]].
    destruct RRc;
      try (injection H as <- <-; eexists sc', (RStuck NotABoolean), pic; split; [reflexivity|split; [auto|split; [auto|reflexivity]]]).
    + destruct (IH _ _ _ _ _ _ _ _ _ _ H HT2 SRc (envrel_ext _ _ _ _ _ Xc ER)) as (s1' & res' & pi1 & E1 & X1 & SR1 & RR1).
      exists s1', res', pi1. split; [exact E1|split; [eapply ext_trans; eauto|split; auto]].
    + destruct (IH _ _ _ _ _ _ _ _ _ _ H HT3 SRc (envrel_ext _ _ _ _ _ Xc ER)) as (s1' & res' & pi1 & E1 & X1 & SR1 & RR1).
      exists s1', res', pi1. split; [exact E1|split; [eapply ext_trans; eauto|split; auto]].
Qed.

(* ------------------------------------------------------------------------------------------- *)
(* Part 4. Outcomes.                                                                            *)
(* ------------------------------------------------------------------------------------------- *)

Definition res_same (r r' : result) : Prop :=
  match r, r' with
  | ROk v, ROk v' => obs_of_value v = obs_of_value v' /\ exists pi, vrel pi v v'
  | RStuck k, RStuck k' => k = k'
  | RFuel, RFuel => True
  | _, _ => False
  end.

(* the reference interpreter, with the same fuel, on a program and on the program with value definitions
   exchanged (at any number of groups, anywhere): the same literal or boolean, related closures, the same
   stuck reason, or both out of fuel *)
Theorem reorder_run_env t t' : T idr t t' -> forall f, res_same (run_env f t) (run_env f t').
Proof.
  intros HT f. unfold run_env. destruct (eval_env f [] [] t) as [s1 res] eqn:E.
  destruct (sim f [] [] [] [] [] idr t t' s1 res E HT storerel_nil) as (s1' & res' & pi1 & E' & _ & _ & RR).
  { split; intros [|j]; cbn; try discriminate; auto. }
  rewrite E'. cbn [snd]. destruct res, res'; cbn in *; auto. split; [eapply vrel_obs; eauto|eauto].
Qed.

(* observable outcomes of the evaluator model: the same observation of a value, the same stuck reason,
   both diverge *)
Definition obs_equiv (a b : term) : Prop :=
  (forall o, (exists f v, evaluate f a = Some v /\ is_value v = true /\ obs_of_term v = Some o) <->
             (exists f w, evaluate f b = Some w /\ is_value w = true /\ obs_of_term w = Some o)) /\
  (forall k, (exists f v, evaluate f a = Some v /\ is_value v = false /\ stuck_reason v = Some k) <->
             (exists f w, evaluate f b = Some w /\ is_value w = false /\ stuck_reason w = Some k)) /\
  ((forall f, evaluate f a = None) <-> (forall f, evaluate f b = None)).

Lemma obs_equiv_refl a : obs_equiv a a.
Proof. repeat split; auto. Qed.
Lemma obs_equiv_sym a b : obs_equiv a b -> obs_equiv b a.
Proof. intros (H1 & H2 & H3). repeat split; intros; try apply H1; try apply H2; try apply H3; auto. Qed.
Lemma obs_equiv_trans a b c : obs_equiv a b -> obs_equiv b c -> obs_equiv a c.
Proof.
  intros (H1 & H2 & H3) (K1 & K2 & K3). split; [|split].
  - intros o. rewrite (H1 o). apply K1.
  - intros k. rewrite (H2 k). apply K2.
  - rewrite H3. apply K3.
Qed.

(* integers and booleans: the very same value is printed *)
Lemma obs_equiv_lit a b z : obs_equiv a b -> ((exists f, evaluate f a = Some (TLit z)) <-> (exists f, evaluate f b = Some (TLit z))).
Proof.
  assert (K : forall a b, obs_equiv a b -> (exists f, evaluate f a = Some (TLit z)) -> exists f, evaluate f b = Some (TLit z)).
  { clear. intros a b (H1 & _) [f E]. destruct (proj1 (H1 (OLit z))) as (f' & w & Ew & Vw & Ow); [exists f, (TLit z); auto|].
    exists f'. destruct w; cbn in Ow; try discriminate; now injection Ow as ->. }
  intros H. split; apply K; [exact H|now apply obs_equiv_sym].
Qed.

Lemma obs_equiv_bool a b (c : bool) : obs_equiv a b ->
  ((exists f, evaluate f a = Some (if c then TTrue else TFalse)) <-> (exists f, evaluate f b = Some (if c then TTrue else TFalse))).
Proof.
  assert (K : forall a b, obs_equiv a b -> (exists f, evaluate f a = Some (if c then TTrue else TFalse)) ->
                          exists f, evaluate f b = Some (if c then TTrue else TFalse)).
  { clear. intros a b (H1 & _) [f E].
    destruct (proj1 (H1 (if c then OTrue else OFalse))) as (f' & w & Ew & Vw & Ow); [exists f, (if c then TTrue else TFalse); destruct c; auto|].
    exists f'. destruct c; destruct w; cbn in Ow; try discriminate; auto. }
  intros H. split; apply K; [exact H|now apply obs_equiv_sym].
Qed.

(* the same statement for the reference interpreter, as equivalences *)
Lemma reorder_run_env_obs t t' o : T idr t t' ->
  ((exists f v, run_env f t = ROk v /\ obs_of_value v = o) <-> (exists f v, run_env f t' = ROk v /\ obs_of_value v = o)).
Proof.
  intros HT. split; intros (f & v & R & O); pose proof (reorder_run_env t t' HT f) as K; rewrite R in K.
  - destruct (run_env f t') as [v'|k|] eqn:R'; cbn in K; try contradiction. destruct K as [K _]. exists f, v'. split; [exact R'|congruence].
  - destruct (run_env f t) as [v'|k|] eqn:R'; cbn in K; try contradiction. destruct K as [K _]. exists f, v'. split; [exact R'|congruence].
Qed.

Lemma reorder_run_env_stuck t t' k : T idr t t' ->
  ((exists f, run_env f t = RStuck k) <-> (exists f, run_env f t' = RStuck k)).
Proof.
  intros HT. split; intros (f & R); pose proof (reorder_run_env t t' HT f) as K; rewrite R in K.
  - destruct (run_env f t') as [v'|k'|] eqn:R'; cbn in K; try contradiction. exists f. congruence.
  - destruct (run_env f t) as [v'|k'|] eqn:R'; cbn in K; try contradiction. exists f. congruence.
Qed.

Lemma reorder_run_env_fuel t t' : T idr t t' -> ((forall f, run_env f t = RFuel) <-> (forall f, run_env f t' = RFuel)).
Proof.
  intros HT. split; intros H f; pose proof (reorder_run_env t t' HT f) as K; rewrite (H f) in K.
  - destruct (run_env f t'); cbn in K; try contradiction; auto.
  - destruct (run_env f t); cbn in K; try contradiction; auto.
Qed.

(* Main theorem: exchanging adjacent value definitions (any number of groups, anywhere in a closed hole-free
   program) does not change the outcome of the evaluator model *)
Theorem reorder_outcome t t' : okt' t -> T idr t t' -> obs_equiv t t'.
Proof.
  intros Hok HT. pose proof (T_okt' _ _ HT Hok) as Hok'. split; [|split].
  - intros o. rewrite <- (interpreters_agree_G3_obs t o Hok), <- (interpreters_agree_G3_obs t' o Hok').
    now apply reorder_run_env_obs.
  - intros k. rewrite <- (interpreters_agree_G3_stuck t k Hok), <- (interpreters_agree_G3_stuck t' k Hok').
    now apply reorder_run_env_stuck.
  - rewrite <- (interpreters_diverge_together_G3 t Hok), <- (interpreters_diverge_together_G3 t' Hok').
    now apply reorder_run_env_fuel.
Qed.

(* ------------------------------------------------------------------------------------------- *)
(* Part 5. The executable swap, swaps anywhere, sequences of swaps.                             *)
(* ------------------------------------------------------------------------------------------- *)

(* exchange definitions i and i + 1 of the group at the root; the group variables of the two definitions
   (n - 1 - i and n - 2 - i) are exchanged in all definitions, annotations and the body *)
Definition rnp (a : nat) (p : term * term) : term * term := let '(x, d) := p in (rename (swp a) x, rename (swp a) d).
Definition swap_defs (i : nat) (t : term) : term :=
  match t with
  | TLet ds b =>
      match skipn i ds with
      | x :: y :: post =>
          let a := length post in
          TLet (map (rnp a) (firstn i ds) ++ rnp a y :: rnp a x :: map (rnp a) post) (rename (swp a) b)
      | _ => t
      end
  | _ => t
  end.

Lemma Forall2_Tdef_rnp (R : term -> term -> Prop) a (l : list (term * term)) : (forall t, R t (rename (swp a) t)) -> Forall2 (Tdef R) l (map (rnp a) l).
Proof. intros H. induction l as [|[x d] l IH]; cbn; constructor; auto. split; cbn; auto. Qed.

Lemma swap_defs_T i ds b x y : nth_error ds i = Some x -> nth_error ds (S i) = Some y ->
  is_value (snd x) = true -> is_value (snd y) = true -> T idr (TLet ds b) (swap_defs i (TLet ds b)).
Proof.
  intros Hx Hy Vx Vy. cbn [swap_defs].
  assert (Hs : exists post, skipn i ds = x :: y :: post /\ length (firstn i ds) = i).
  { pose proof (firstn_skipn i ds) as E. assert (Li : i < length ds) by (apply nth_error_Some; congruence).
    assert (Lf : length (firstn i ds) = i) by (rewrite firstn_length; lia).
    rewrite <- E in Hx, Hy. rewrite nth_error_app2 in Hx, Hy by lia. rewrite Lf in Hx, Hy.
    rewrite Nat.sub_diag in Hx. replace (S i - i) with 1 in Hy by lia.
    destruct (skipn i ds) as [|x0 [|y0 post]]; cbn in Hx, Hy; try discriminate.
    injection Hx as <-. injection Hy as <-. eauto. }
  destruct Hs as (post & Es & Lf). rewrite Es.
  rewrite <- (firstn_skipn i ds) at 1. rewrite Es.
  set (a := length post). set (n := length (firstn i ds ++ x :: y :: post)).
  assert (E2 : forall j, swp a j = swp a (upn n idr j)) by (intros j; now rewrite (upn_id n idr)).
  assert (RT : forall t, T (fun j => swp a (upn n idr j)) t (rename (swp a) t)).
  { intros t. eapply T_ext; [exact E2|apply T_rename]. }
  apply T_swap; auto.
  - now apply Forall2_Tdef_rnp.
  - destruct x; split; cbn; apply RT.
  - destruct y; split; cbn; apply RT.
  - now apply Forall2_Tdef_rnp.
Qed.

(* (a) at the root *)
Theorem swap_value_definitions_outcome i ds b x y : okt' (TLet ds b) ->
  nth_error ds i = Some x -> nth_error ds (S i) = Some y -> is_value (snd x) = true -> is_value (snd y) = true ->
  obs_equiv (TLet ds b) (swap_defs i (TLet ds b)).
Proof. intros Hok Hx Hy Vx Vy. apply reorder_outcome; auto. eapply swap_defs_T; eauto. Qed.

(* (b) anywhere: the relation "one group, somewhere in the term, has two adjacent value definitions exchanged" *)
Inductive swap_in : term -> term -> Prop :=
| SI_root i ds b x y : nth_error ds i = Some x -> nth_error ds (S i) = Some y ->
    is_value (snd x) = true -> is_value (snd y) = true -> swap_in (TLet ds b) (swap_defs i (TLet ds b))
| SI_lam_dom im d d' b : swap_in d d' -> swap_in (TLam im d b) (TLam im d' b)
| SI_lam_body im d b b' : swap_in b b' -> swap_in (TLam im d b) (TLam im d b')
| SI_pi_dom im d d' b : swap_in d d' -> swap_in (TPi im d b) (TPi im d' b)
| SI_pi_cod im d b b' : swap_in b b' -> swap_in (TPi im d b) (TPi im d b')
| SI_app_l f f' a : swap_in f f' -> swap_in (TApp f a) (TApp f' a)
| SI_app_r f a a' : swap_in a a' -> swap_in (TApp f a) (TApp f a')
| SI_let_body ds b b' : swap_in b b' -> swap_in (TLet ds b) (TLet ds b')
| SI_let_def pre a d d' post b : swap_in d d' -> swap_in (TLet (pre ++ (a, d) :: post) b) (TLet (pre ++ (a, d') :: post) b)
| SI_let_ann pre a a' d post b : swap_in a a' -> swap_in (TLet (pre ++ (a, d) :: post) b) (TLet (pre ++ (a', d) :: post) b)
| SI_neg a a' : swap_in a a' -> swap_in (TNeg a) (TNeg a')
| SI_bin_l o a a' b : swap_in a a' -> swap_in (TBin o a b) (TBin o a' b)
| SI_bin_r o a b b' : swap_in b b' -> swap_in (TBin o a b) (TBin o a b')
| SI_if_c c c' t e : swap_in c c' -> swap_in (TIf c t e) (TIf c' t e)
| SI_if_t c t t' e : swap_in t t' -> swap_in (TIf c t e) (TIf c t' e)
| SI_if_e c t e e' : swap_in e e' -> swap_in (TIf c t e) (TIf c t e').

Lemma Forall2_Tdef_refl' r l : (forall j, r j = j) -> Forall2 (Tdef (T r)) l l.
Proof. intros Hr. induction l as [|[a d] l IH]; constructor; auto. split; cbn; now apply T_refl. Qed.

Lemma swap_in_T : forall t t', swap_in t t' -> forall r, (forall j, r j = j) -> T r t t'.
Proof.
  induction 1; intros r Hr; try (constructor; auto using T_refl, up_id, upn_id; fail).
  - eapply T_ext; [|eapply swap_defs_T; eauto]. intros j. now rewrite Hr.
  - apply T_let; [apply Forall2_Tdef_refl'; now apply upn_id|apply IHswap_in; now apply upn_id].
  - apply T_let; [|apply T_refl; now apply upn_id].
    apply Forall2_app; [apply Forall2_Tdef_refl'; now apply upn_id|]. constructor; [|apply Forall2_Tdef_refl'; now apply upn_id].
    split; cbn; [apply T_refl|apply IHswap_in]; now apply upn_id.
  - apply T_let; [|apply T_refl; now apply upn_id].
    apply Forall2_app; [apply Forall2_Tdef_refl'; now apply upn_id|]. constructor; [|apply Forall2_Tdef_refl'; now apply upn_id].
    split; cbn; [apply IHswap_in|apply T_refl]; now apply upn_id.
Qed.

Theorem swap_value_definitions_anywhere t t' : okt' t -> swap_in t t' -> obs_equiv t t'.
Proof. intros Hok H. apply reorder_outcome; auto. apply swap_in_T; auto. Qed.

(* (c) any sequence of such swaps, hence any permutation of a block of value definitions *)
Inductive swaps : term -> term -> Prop :=
| swaps_refl t : swaps t t
| swaps_step t t' t'' : swap_in t t' -> swaps t' t'' -> swaps t t''.

Lemma swap_in_okt' t t' : okt' t -> swap_in t t' -> okt' t'.
Proof. intros Hok H. eapply T_okt'; eauto. apply swap_in_T; auto. Qed.

Theorem permute_value_definitions_outcome t t' : okt' t -> swaps t t' -> obs_equiv t t'.
Proof.
  intros Hok H. induction H; [apply obs_equiv_refl|].
  eapply obs_equiv_trans; [eapply swap_value_definitions_anywhere; eauto|].
  apply IHswaps. eapply swap_in_okt'; eauto.
Qed.

(* ------------------------------------------------------------------------------------------- *)
(* Part 6. Examples and counterexamples.                                                        *)
(* ------------------------------------------------------------------------------------------- *)

(* even / odd with the two definitions exchanged: odd first *)
Definition evenodd2_swapped :=
  TLet [ (TPi false TInt TBool, TLam false TInt (TIf (TBin OEq (TVar 0) (TLit 0)) TFalse (TApp (TVar 1) (TBin ODiff (TVar 0) (TLit 1)))));
         (TPi false TInt TBool, TLam false TInt (TIf (TBin OEq (TVar 0) (TLit 0)) TTrue (TApp (TVar 2) (TBin ODiff (TVar 0) (TLit 1))))) ]
       (TApp (TVar 0) (TLit 7)).
Example evenodd2_swap : swap_defs 0 evenodd2 = evenodd2_swapped.
Proof. vm_compute. reflexivity. Qed.
Example evenodd2_both_run_env : run_env 60 evenodd2 = ROk VFalse /\ run_env 60 evenodd2_swapped = ROk VFalse.
Proof. vm_compute. split; reflexivity. Qed.
Example evenodd2_both_evaluate : evaluate 400 evenodd2 = Some TFalse /\ evaluate 400 evenodd2_swapped = Some TFalse.
Proof. vm_compute. split; reflexivity. Qed.
Example evenodd2_equiv : obs_equiv evenodd2 evenodd2_swapped.
Proof.
  rewrite <- evenodd2_swap. unfold evenodd2.
  eapply swap_value_definitions_outcome; try reflexivity. apply evenodd2_ok.
Qed.
(* through the theorem: the swapped program prints the same boolean *)
Example evenodd2_swapped_agree : exists f, evaluate f evenodd2_swapped = Some TFalse.
Proof. apply (proj1 (obs_equiv_bool _ _ false evenodd2_equiv)). exists 400. apply evenodd2_both_evaluate. Qed.

(* the three-definition evenodd of CbvProofs.v (a computed third definition that calls even): even and odd exchanged *)
Example evenodd_swap_equiv : obs_equiv evenodd (swap_defs 0 evenodd).
Proof. unfold evenodd. eapply swap_value_definitions_outcome; try reflexivity. apply evenodd_ok. Qed.
Example evenodd_swapped_agree : exists f, evaluate f (swap_defs 0 evenodd) = Some TFalse.
Proof. apply (proj1 (obs_equiv_bool _ _ false evenodd_swap_equiv)). exists 400. exact even7. Qed.

(* the group under a lambda, the swap inside *)
Definition under_lambda (g : term) : term := TApp (TLam false TInt g) (TLit 0).
Example under_lambda_equiv : obs_equiv (under_lambda evenodd2) (under_lambda evenodd2_swapped).
Proof.
  rewrite <- evenodd2_swap. apply swap_value_definitions_anywhere; [repeat split|].
  apply SI_app_l, SI_lam_body. unfold evenodd2. eapply SI_root; reflexivity.
Qed.

(* Two NON-value definitions may not be exchanged: x = 1 / 0; y = true + 1; 0 is stuck on the division, the
   exchanged program on the ill-typed addition. (With a diverging second definition the first program is stuck
   and the exchanged one diverges.) *)
Definition two_computed := TLet [(TInt, TBin OQuot (TLit 1) (TLit 0)); (TInt, TBin OSum TTrue (TLit 1))] (TLit 0).
Example two_computed_differ :
  run_env 20 two_computed = RStuck DivByZero /\ run_env 20 (swap_defs 0 two_computed) = RStuck NotAnInteger /\
  (exists v, evaluate 20 two_computed = Some v /\ stuck_reason v = Some DivByZero) /\
  (exists v, evaluate 20 (swap_defs 0 two_computed) = Some v /\ stuck_reason v = Some NotAnInteger).
Proof. vm_compute. repeat split; eexists; split; reflexivity. Qed.

(* A value definition and an adjacent computed definition that does not MENTION it may not be exchanged in
   general: h = n => v n; v = n => n; c = h 1; c.  The computed c does not mention v but reaches it through h;
   with c before v the cell of v is still empty when c runs. *)
Definition indep_prog :=
  TLet [ (TPi false TInt TInt, TLam false TInt (TApp (TVar 2) (TVar 0)));
         (TPi false TInt TInt, TLam false TInt (TVar 0));
         (TInt, TApp (TVar 2) (TLit 1)) ] (TVar 0).
Example indep_prog_differ :
  occurs (TApp (TVar 2) (TLit 1)) 0 1 = false /\
  run_env 30 indep_prog = ROk (VLit 1) /\ run_env 30 (swap_defs 1 indep_prog) = RStuck FreeVariable.
Proof. vm_compute. repeat split; reflexivity. Qed.

Print Assumptions sim.
Print Assumptions reorder_run_env.
Print Assumptions reorder_outcome.
Print Assumptions swap_value_definitions_outcome.
Print Assumptions swap_value_definitions_anywhere.
Print Assumptions permute_value_definitions_outcome.
Print Assumptions evenodd2_swapped_agree.
Print Assumptions evenodd_swapped_agree.
Print Assumptions under_lambda_equiv.
