(* Two corollaries of the parser theorems (PegSem / CompleteProofs / Unambiguous / TreeDerivation):
   L. a separating line break is interchangeable with `;` : exchanging terminator kinds in a token list changes
      neither acceptance nor the tree (layout_acceptance, layout_same_tree);
   P. adding redundant parentheses leaves the program unchanged: parenthesising the tokens of a sub-derivation
      that is not the unparenthesised tail of a chain of its own kind gives an accepted token list with the same
      final tree (parens_redundant); the excluded positions really change the tree (a - (b - c)).
   See REPORT5.md. *)
From Coq Require Import List ZArith NArith Lia Bool Arith PArith FMapPositive.
Import ListNotations.
Require Import Gram.Model.Term Gram.Model.Token Gram.Model.Grammar Gram.Gen.ParserSkeleton Gram.Gen.GrammarY Gram.Model.Parser Gram.Model.ParserPost.
Require Import Gram.Proofs.ReassocProofs.
Require Import Gram.Proofs.ParserProofs Gram.Proofs.PackratProofs Gram.Proofs.SoundProofs Gram.Proofs.PrintProofs.
Require Import Gram.Proofs.PegSem Gram.Proofs.CompleteProofs Gram.Proofs.Unambiguous Gram.Proofs.TreeDerivation.
Require Gram.Proofs.PrintRoundTrip.

(* ---------- the raw tree of a derivation tree, read off a LIST of tokens ---------- *)
Definition lchild := (ptok + gterm)%type.
Definition dummy_tok : ptok := {| pk := KType; ps := 0; pe := 0; pname := []; pz := 0%Z |}.

Definition abuildl (n : nt) (cs : list lchild) : gterm :=
  let bin o a b := ABin false o a b in
  match n, cs with
  | Type_, [inl _] => ALeaf false LType
  | Variable_, [inl p] => ALeaf false (LVar (pname p))
  | Integer, [inl _] => ALeaf false LInt
  | IntegerLiteral, [inl p] => ALeaf false (LLit (pz p))
  | Boolean, [inl _] => ALeaf false LBool
  | True_, [inl _] => ALeaf false LTrue
  | False_, [inl _] => ALeaf false LFalse
  | Lambda, [inl x; inl _; inr b] => ALam false (pname x) false None b
  | LambdaImplicit, [inl _; inl x; inl _; inl _; inr b] => ALam false (pname x) true None b
  | AnnotatedLambda, [inl _; inl x; inl _; inr d; inl _; inl _; inr b] => ALam false (pname x) false (Some d) b
  | AnnotatedLambdaImplicit, [inl _; inl x; inl _; inr d; inl _; inl _; inr b] => ALam false (pname x) true (Some d) b
  | Pi, [inl _; inl x; inl _; inr d; inl _; inl _; inr b] => APi false (pname x) false d b
  | PiImplicit, [inl _; inl x; inl _; inr d; inl _; inl _; inr b] => APi false (pname x) true d b
  | NonDependentPi, [inr d; inl _; inr b] => APi false [95%N] false d b
  | Application, [inr f; inr a] => AApp false f a
  | Negation, [inl _; inr a] => ANeg false a
  | Sum, [inr a; inl _; inr b] => bin OSum a b
  | Difference, [inr a; inl _; inr b] => bin ODiff a b
  | Product, [inr a; inl _; inr b] => bin OProd a b
  | Quotient, [inr a; inl _; inr b] => bin OQuot a b
  | LessThan, [inr a; inl _; inr b] => bin OLt a b
  | LessThanOrEqualTo, [inr a; inl _; inr b] => bin OLe a b
  | EqualTo, [inr a; inl _; inr b] => bin OEq a b
  | GreaterThan, [inr a; inl _; inr b] => bin OGt a b
  | GreaterThanOrEqualTo, [inr a; inl _; inr b] => bin OGe a b
  | Group, [inl _; inr t; inl _] => set_ann true t
  | If, [inl _; inr c; inl _; inr a; inl _; inr b] => AIf false c a b
  | Let, [inl x; inl _; inr d; inl _; inr b] => ALet false (pname x) None d b
  | Let, [inl x; inl _; inr an; inl _; inr d; inl _; inr b] => ALet false (pname x) (Some an) d b
  | (Term | Atom | SmallTerm | MediumTerm | LargeTerm | HugeTerm | GiantTerm | JumboTerm), [inr t] => t
  | _, _ => ALeaf false LError
  end.

Fixpoint todl (d : dtree) (l : list ptok) : gterm * list ptok :=
  match d with DNode n _ f => let '(cs, r) := tofl f l in (abuildl n cs, r) end
with tofl (f : dforest) (l : list ptok) : list lchild * list ptok :=
  match f with
  | FNil => ([], l)
  | FTok _ f => let '(cs, r) := tofl f (tl l) in (inl (hd dummy_tok l) :: cs, r)
  | FSub d f => let '(t, q) := todl d l in let '(cs, r) := tofl f q in (inr t :: cs, r)
  end.

Lemma todl_node n rhs f l : todl (DNode n rhs f) l = (abuildl n (fst (tofl f l)), snd (tofl f l)).
Proof. change (todl (DNode n rhs f) l) with (let '(cs, r) := tofl f l in (abuildl n cs, r)). destruct (tofl f l). reflexivity. Qed.
Lemma tofl_tok k f l : tofl (FTok k f) l = (inl (hd dummy_tok l) :: fst (tofl f (tl l)), snd (tofl f (tl l))).
Proof. change (tofl (FTok k f) l) with (let '(cs, r) := tofl f (tl l) in (inl (hd dummy_tok l) :: cs, r)). destruct (tofl f (tl l)). reflexivity. Qed.
Lemma tofl_sub d f l : tofl (FSub d f) l =
  (inr (fst (todl d l)) :: fst (tofl f (snd (todl d l))), snd (tofl f (snd (todl d l)))).
Proof.
  change (tofl (FSub d f) l) with (let '(t, q) := todl d l in let '(cs, r) := tofl f q in (inr t :: cs, r)).
  destruct (todl d l) as [t q]. cbn [fst snd]. destruct (tofl f q). reflexivity.
Qed.
Lemma tofl_nil l : tofl FNil l = ([], l).
Proof. reflexivity. Qed.
Ltac todl_simpl := repeat (rewrite todl_node || rewrite tofl_tok || rewrite tofl_sub || rewrite tofl_nil); cbn [fst snd].

(* children that carry the same payload give the same node *)
Definition crel_ml (m : PositiveMap.t ptok) (c : gchild) (c' : lchild) : Prop :=
  match c, c' with
  | inl p, inl tk => tok_name m p = pname tk /\ tok_z m p = pz tk
  | inr g, inr g' => g = g'
  | _, _ => False
  end.
Definition psim (a b : ptok) : Prop := pname a = pname b /\ pz a = pz b.
Definition crel_ll (c c' : lchild) : Prop :=
  match c, c' with
  | inl a, inl b => psim a b
  | inr g, inr g' => g = g'
  | _, _ => False
  end.

Ltac walk_children :=
  repeat (match goal with
          | F : Forall2 _ _ _ |- _ =>
              destruct F as [|[?p|?g] [?q|?h] ? ? ?R F]; cbn [crel_ml crel_ll] in *; try contradiction; try reflexivity
          end).

Lemma abuild_abuildl m n : forall cs cs', Forall2 (crel_ml m) cs cs' -> abuild m n cs = abuildl n cs'.
Proof.
  intros cs cs' F. unfold abuild, abuildl.
  destruct n; walk_children;
    repeat match goal with R : _ /\ _ |- _ => destruct R as [? ?] end; subst;
    repeat match goal with
           | E : tok_name _ _ = _ |- _ => rewrite E; clear E
           | E : tok_z _ _ = _ |- _ => rewrite E; clear E
           end; reflexivity.
Qed.

Lemma abuildl_ext n : forall cs cs', Forall2 crel_ll cs cs' -> abuildl n cs = abuildl n cs'.
Proof.
  intros cs cs' F. unfold abuildl, psim in *.
  destruct n; walk_children; unfold psim in *;
    repeat match goal with R : _ /\ _ |- _ => destruct R as [? ?] end; subst;
    repeat match goal with
           | E : pname _ = _ |- _ => rewrite E; clear E
           | E : pz _ = _ |- _ => rewrite E; clear E
           end; reflexivity.
Qed.

Lemma tl_skipn {A} n (l : list A) : tl (skipn n l) = skipn (S n) l.
Proof. revert l. induction n as [|n IH]; intros [|x l]; try reflexivity. cbn [skipn]. rewrite IH. destruct l; reflexivity. Qed.
Lemma hd_skipn {A} (d : A) n l : hd d (skipn n l) = nth n l d.
Proof. revert l. induction n as [|n IH]; intros [|x l]; try reflexivity. apply IH. Qed.

(* reading the payload by position in the token array = reading it off the list *)
Lemma tod_todl toks : forall d p,
  fst (tod (tokmap_of toks) d p) = fst (todl d (skipn (N.to_nat p) toks)) /\
  snd (todl d (skipn (N.to_nat p) toks)) = skipn (N.to_nat (snd (tod (tokmap_of toks) d p))) toks.
Proof.
  set (m := tokmap_of toks).
  apply (dtree_mind
    (fun d => forall p, fst (tod m d p) = fst (todl d (skipn (N.to_nat p) toks)) /\
                        snd (todl d (skipn (N.to_nat p) toks)) = skipn (N.to_nat (snd (tod m d p))) toks)
    (fun f => forall p, Forall2 (crel_ml m) (fst (tof m f p)) (fst (tofl f (skipn (N.to_nat p) toks))) /\
                        snd (tofl f (skipn (N.to_nat p) toks)) = skipn (N.to_nat (snd (tof m f p))) toks)).
  - intros n rhs f IH p. destruct (IH p) as [A B]. rewrite PrintRoundTrip.tod_node, todl_node. cbn [fst snd]. split; [|exact B].
    now apply abuild_abuildl.
  - intros p. split; [constructor | reflexivity].
  - intros k f IH p. rewrite PrintRoundTrip.tof_tok, tofl_tok. cbn [fst snd]. rewrite tl_skipn, <- N2Nat.inj_succ.
    destruct (IH (N.succ p)) as [A B]. split; [|exact B]. constructor; [|exact A].
    cbn [crel_ml]. unfold tok_name, tok_z, m. rewrite (at_nth toks p), hd_skipn.
    destruct (nth_error toks (N.to_nat p)) as [t|] eqn:E.
    + rewrite (nth_error_nth _ _ _ E). auto.
    + rewrite nth_overflow by (now apply nth_error_None). auto.
  - intros d IHd f IHf p. rewrite PrintRoundTrip.tof_sub, tofl_sub. cbn [fst snd].
    destruct (IHd p) as [A B]. rewrite B. destruct (IHf (snd (tod m d p))) as [C E]. split; [|exact E].
    constructor; [exact A | exact C].
Qed.
Lemma gtree_of_todl toks d : gtree_of toks d = fst (todl d toks).
Proof. unfold gtree_of. exact (proj1 (tod_todl toks d 0%N)). Qed.

(* ================================================================================================ *)
(* L. line break = semicolon                                                                          *)
(* ================================================================================================ *)
Definition ksim (k k' : tkind) : Prop := k = k' \/ (is_terminator_kind k = true /\ is_terminator_kind k' = true).
(* the same tokens, except that a terminator may be a line break here and a semicolon there *)
Definition tok_sim (a b : ptok) : Prop := ksim (pk a) (pk b) /\ pname a = pname b /\ pz a = pz b.
Definition layout_sim (toks toks' : list ptok) : Prop := Forall2 tok_sim toks toks'.

Lemma ksim_sym k k' : ksim k k' -> ksim k' k.
Proof. intros [->|[A B]]; [now left | right; auto]. Qed.
Lemma layout_sim_sym toks toks' : layout_sim toks toks' -> layout_sim toks' toks.
Proof.
  induction 1 as [|a b l l' (K & N & Z) _ IH]; constructor; [|exact IH]. repeat split; auto using ksim_sym.
Qed.
Lemma layout_sim_kinds toks toks' : layout_sim toks toks' -> Forall2 ksim (map pk toks) (map pk toks').
Proof. induction 1 as [|a b l l' (K & _) _ IH]; constructor; auto. Qed.

(* no production names a terminator kind as a plain terminal *)
Definition no_term_gt (rhs : list gsym) : bool :=
  forallb (fun g => match g with GT k => negb (is_terminator_kind k) | _ => true end) rhs.
Theorem grammar_no_term_gt : forallb (fun p : production => no_term_gt (snd p)) grammar = true.
Proof. vm_compute. reflexivity. Qed.

(* the trees that differ only in the kinds of their token leaves *)
Fixpoint dblank (d : dtree) : dtree := match d with DNode n rhs f => DNode n rhs (fblank f) end
with fblank (f : dforest) : dforest :=
  match f with FNil => FNil | FTok _ f => FTok KType (fblank f) | FSub d f => FSub (dblank d) (fblank f) end.

Lemma exchange_tree : forall d, dt_ok d -> forall w', Forall2 ksim (dyield d) w' ->
  exists d', dt_ok d' /\ root d' = root d /\ dyield d' = w' /\ dblank d' = dblank d.
Proof.
  apply (dt_ok_mind
    (fun d => forall w', Forall2 ksim (dyield d) w' -> exists d', dt_ok d' /\ root d' = root d /\ dyield d' = w' /\ dblank d' = dblank d)
    (fun rhs f => no_term_gt rhs = true -> forall w', Forall2 ksim (fyield f) w' ->
                  exists f', df_ok rhs f' /\ fyield f' = w' /\ fblank f' = fblank f)).
  - intros n rhs f Hin _ IH w' F.
    pose proof grammar_no_term_gt as G. rewrite forallb_forall in G. specialize (G _ Hin). cbn [snd] in G.
    destruct (IH G w' F) as (f' & A & B & C). exists (DNode n rhs f'). split; [now constructor|]. split; [reflexivity|].
    split; [exact B | cbn; now rewrite C].
  - intros _ w' F. inversion F; subst. exists FNil. repeat split; constructor.
  - intros k rhs f _ IH NT w' F. cbn [no_term_gt forallb] in NT. apply andb_true_iff in NT as [NK NT].
    cbn [fyield] in F. inversion F as [|? k' ? w0 K F0]; subst.
    assert (k' = k) by (destruct K as [E|[E _]]; [now subst | rewrite E in NK; discriminate NK]). subst k'.
    destruct (IH NT w0 F0) as (f' & A & B & C). exists (FTok k f'). split; [now constructor|]. cbn. now rewrite B, C.
  - intros k rhs f Hk _ IH NT w' F. cbn [no_term_gt forallb] in NT.
    cbn [fyield] in F. inversion F as [|? k' ? w0 K F0]; subst.
    assert (Hk' : is_terminator_kind k' = true) by (destruct K as [E|[_ E]]; [now subst | exact E]).
    destruct (IH NT w0 F0) as (f' & A & B & C). exists (FTok k' f'). split; [now apply df_term|]. cbn. now rewrite B, C.
  - intros d rhs f _ IHd _ IHf NT w' F. cbn [no_term_gt forallb] in NT. cbn [fyield] in F.
    apply Forall2_app_inv_l in F as (w1 & w2 & F1 & F2 & ->).
    destruct (IHd w1 F1) as (d' & A & R & B & C). destruct (IHf NT w2 F2) as (f' & A' & B' & C').
    exists (FSub d' f'). split; [rewrite <- R; now constructor|]. cbn. now rewrite B, B', C, C'.
Qed.

Lemma derives_exchange n w w' : derives n w -> Forall2 ksim w w' -> derives n w'.
Proof.
  intros D F. destruct (derives_tree _ _ D) as (d & Hd & <- & <-).
  destruct (exchange_tree d Hd w' F) as (d' & Hd' & <- & <- & _). now apply tree_derives.
Qed.

(* L (1): acceptance does not depend on which terminator is used *)
Theorem layout_acceptance toks toks' memo : layout_sim toks toks' ->
  ((exists t, fst (fst (parse_stage1 toks memo)) = S1Tree t) <-> (exists t, fst (fst (parse_stage1 toks' memo)) = S1Tree t)).
Proof.
  intros L. rewrite !parse_accepts_iff_sentence. split; intros D.
  - exact (derives_exchange _ _ _ D (layout_sim_kinds _ _ L)).
  - exact (derives_exchange _ _ _ D (layout_sim_kinds _ _ (layout_sim_sym _ _ L))).
Qed.

(* the raw tree only reads names and literal values, and not the kinds of the leaves *)
Lemma todl_exchange : forall d d' l l', dblank d = dblank d' -> Forall2 psim l l' ->
  fst (todl d l) = fst (todl d' l') /\ Forall2 psim (snd (todl d l)) (snd (todl d' l')).
Proof.
  apply (dtree_mind
    (fun d => forall d' l l', dblank d = dblank d' -> Forall2 psim l l' ->
              fst (todl d l) = fst (todl d' l') /\ Forall2 psim (snd (todl d l)) (snd (todl d' l')))
    (fun f => forall f' l l', fblank f = fblank f' -> Forall2 psim l l' ->
              Forall2 crel_ll (fst (tofl f l)) (fst (tofl f' l')) /\ Forall2 psim (snd (tofl f l)) (snd (tofl f' l')))).
  - intros n rhs f IH [n' rhs' f'] l l' E F. cbn [dblank] in E. injection E as -> -> E.
    rewrite !todl_node. cbn [fst snd]. destruct (IH f' l l' E F) as [A B]. split; [now apply abuildl_ext | exact B].
  - intros [|? ?|? ?] l l' E F; try discriminate E. rewrite !tofl_nil. split; [constructor | exact F].
  - intros k f IH [|k' f'|? ?] l l' E F; try discriminate E. cbn [fblank] in E. injection E as E.
    rewrite !tofl_tok. cbn [fst snd].
    assert (Ft : Forall2 psim (tl l) (tl l')) by (destruct F; [constructor | assumption]).
    destruct (IH f' _ _ E Ft) as [A B]. split; [|exact B]. constructor; [|exact A].
    cbn [crel_ll]. destruct F; [split; reflexivity | assumption].
  - intros d IHd f IHf [|? ?|d' f'] l l' E F; try discriminate E. cbn [fblank] in E. injection E as E1 E2.
    rewrite !tofl_sub. cbn [fst snd]. destruct (IHd d' l l' E1 F) as [A B]. destruct (IHf f' _ _ E2 B) as [C G].
    split; [|exact G]. constructor; [exact A | exact C].
Qed.

(* L (2): ... and neither does the tree *)
Theorem layout_same_tree toks toks' memo raw m s raw' m' s' : layout_sim toks toks' ->
  parse_stage1 toks memo = (S1Tree raw, m, s) -> parse_stage1 toks' memo = (S1Tree raw', m', s') ->
  gstrip raw = gstrip raw' /\ strip (reassociate raw) = strip (reassociate raw').
Proof.
  intros L P P'.
  destruct (parser_builds_derivation _ _ _ _ _ P) as (d & (Hd & Hr & Hy) & _ & _ & G & R).
  destruct (parser_builds_derivation _ _ _ _ _ P') as (d' & _ & U' & _ & G' & R').
  assert (F : Forall2 ksim (dyield d) (map pk toks')) by (rewrite Hy; now apply layout_sim_kinds).
  destruct (exchange_tree d Hd _ F) as (d2 & Hd2 & Hr2 & Hy2 & B).
  assert (d2 = d') by (apply U'; [exact Hd2 | congruence | exact Hy2]). subst d2.
  assert (E : gstrip raw = gstrip raw').
  { rewrite G, G', !gtree_of_todl. apply todl_exchange; [now symmetry|].
    clear -L. induction L as [|a b l l' (_ & N & Z) _ IH]; constructor; [split; assumption | exact IH]. }
  split; [exact E|]. rewrite R, R', <- G, <- G', E. reflexivity.
Qed.

(* ================================================================================================ *)
(* P. redundant parentheses                                                                           *)
(* ================================================================================================ *)
(* P1. Which group flags the re-association passes look at: only the flag of a chain node that is the RIGHT
   operand of a node of the same chain kind. Two trees that agree up to the other flags have the same final tree. *)
Definition crit (k : chain) (b b' : gterm) : Prop := is_chain k b = true -> ann b = ann b'.

Fixpoint Qk (K : chain -> bool) (g g' : gterm) : Prop :=
  match g, g' with
  | ALeaf _ l, ALeaf _ l' => l = l'
  | ALam _ x im d b, ALam _ x' im' d' b' =>
      x = x' /\ im = im' /\ match d, d' with Some d, Some d' => Qk K d d' | None, None => True | _, _ => False end /\ Qk K b b'
  | APi _ x im d c, APi _ x' im' d' c' => x = x' /\ im = im' /\ Qk K d d' /\ Qk K c c'
  | AApp _ f a, AApp _ f' a' => Qk K f f' /\ Qk K a a' /\ (K ChApp = true -> crit ChApp a a')
  | ALet _ x an d b, ALet _ x' an' d' b' =>
      x = x' /\ match an, an' with Some a, Some a' => Qk K a a' | None, None => True | _, _ => False end /\ Qk K d d' /\ Qk K b b'
  | ANeg _ a, ANeg _ a' => Qk K a a'
  | ABin _ o a b, ABin _ o' a' b' => o = o' /\ Qk K a a' /\ Qk K b b' /\ (forall k, K k = true -> is_op k o = true -> crit k b b')
  | AIf _ c a b, AIf _ c' a' b' => Qk K c c' /\ Qk K a a' /\ Qk K b b'
  | _, _ => False
  end.

Lemma Qk_chain K g g' : Qk K g g' -> forall k, is_chain k g = is_chain k g'.
Proof. destruct g, g'; cbn; try contradiction; intros H k; try reflexivity. destruct H as (-> & _). reflexivity. Qed.
Lemma Qk_forget K : forall g g', Qk K g g' -> forget g = forget g'.
Proof.
  induction g using aterm_ind'; destruct g'; cbn; try contradiction; intros HQ;
    repeat match goal with H : _ /\ _ |- _ => destruct H end; subst;
    repeat match goal with H : Aopt _ ?d |- _ => destruct d; cbn in H end;
    repeat match goal with H : match ?d with Some _ => _ | None => _ end |- _ => destruct d; try contradiction end;
    f_equal; auto; f_equal; auto.
Qed.
Lemma Qk_refl K : forall g, Qk K g g.
Proof.
  induction g using aterm_ind'; cbn; repeat match goal with H : Aopt _ ?d |- _ => destruct d; cbn in H end;
    repeat split; auto; intros; intros _; reflexivity.
Qed.
Lemma Qk_weaken (K K' : chain -> bool) : (forall k, K' k = true -> K k = true) -> forall g g', Qk K g g' -> Qk K' g g'.
Proof.
  intros HK. induction g using aterm_ind'; destruct g'; cbn; try contradiction; intros HQ;
    repeat match goal with H : _ /\ _ |- _ => destruct H end; subst;
    repeat match goal with H : Aopt _ ?d |- _ => destruct d; cbn in H end;
    repeat match goal with H : match ?d with Some _ => _ | None => _ end |- _ => destruct d; try contradiction end;
    repeat split; auto.
Qed.
Lemma Qk_set_ann K i j g g' : Qk K g g' -> Qk K (set_ann i g) (set_ann j g').
Proof. destruct g, g'; cbn; auto. Qed.

Lemma chain_unique k k' (g : gterm) : k <> k' -> is_chain k g = true -> is_chain k' g = false.
Proof. intros N. destruct g; try (destruct k; discriminate). - destruct k, k'; try discriminate; try reflexivity; congruence.
  - destruct k, k', o; try discriminate; try reflexivity; congruence. Qed.

Lemma flatg_items_kop k : forall g, forallb (fun ox => kop k (fst ox)) (snd (flatg k g)) = true.
Proof.
  induction g using aterm_ind'; try reflexivity.
  - destruct k; try reflexivity. cbn -[closeg]. unfold link. destruct (atomic ChApp g2); [reflexivity|]. cbn [snd forallb fst kop]. exact IHg2.
  - cbn -[closeg]. destruct (is_op k o) eqn:E; [|reflexivity]. unfold link.
    assert (K : kop k o = true) by (destruct k; [discriminate E | exact E | exact E]).
    destruct (atomic k g2); cbn [snd forallb fst]; rewrite K; [reflexivity | exact IHg2].
Qed.

(* a pass of another kind keeps a k'-node a k'-node with its flag, and creates none *)
Lemma specg_other_chain k k' g : k <> k' -> is_chain k' (specg k g) = true -> is_chain k' g = true /\ ann (specg k g) = ann g.
Proof.
  intros N H. unfold specg, closeg in *. destruct (is_chain k g) eqn:C.
  - rewrite is_chain_foldl_other in H by (assumption || apply flatg_items_kop).
    pose proof (flatg_chain_items k g C). destruct (snd (flatg k g)); [congruence | discriminate H].
  - destruct (flatg_nonchain k g C) as (E1 & E2 & E3). rewrite E1 in *. cbn in *. rewrite E3 in H. auto.
Qed.
Lemma specg_other_ann k k' g : k <> k' -> is_chain k' g = true -> ann (specg k g) = ann g.
Proof.
  intros N H. assert (C : is_chain k g = false) by (apply (chain_unique k' k); [congruence | exact H]).
  unfold specg, closeg. destruct (flatg_nonchain k g C) as (E1 & E2 & _). rewrite E1. exact E2.
Qed.
Lemma crit_specg k k' K b b' : k <> k' -> Qk K b b' -> crit k' b b' -> crit k' (specg k b) (specg k b').
Proof.
  intros N Q C H. destruct (specg_other_chain k k' b N H) as [H1 H2]. rewrite H2, (C H1).
  symmetry. apply (specg_other_ann k k'); [exact N|]. rewrite <- (Qk_chain _ _ _ Q). exact H1.
Qed.

Definition Kminus (K : chain -> bool) (k : chain) : chain -> bool :=
  fun x => K x && negb (match x, k with ChApp, ChApp | ChMul, ChMul | ChAdd, ChAdd => true | _, _ => false end).
Lemma Kminus_self K k : Kminus K k k = false.
Proof. unfold Kminus. destruct k; now rewrite andb_false_r. Qed.
Lemma Kminus_sub K k x : Kminus K k x = true -> K x = true /\ x <> k.
Proof. unfold Kminus. intros H. apply andb_true_iff in H as [H1 H2]. split; [exact H1|]. intros ->. destruct k; discriminate H2. Qed.

Definition items_rel (K : chain -> bool) (l l' : list (binop * gterm)) : Prop :=
  Forall2 (fun x y => fst x = fst y /\ Qk K (snd x) (snd y)) l l'.

Lemma Qk_amk K k i i' o x x' y y' : K k = false -> kop k o = true -> Qk K x x' -> Qk K y y' -> Qk K (amk k i o x y) (amk k i' o x' y').
Proof.
  intros HK Ko Qx Qy. destruct k; cbn [amk Qk].
  - repeat split; auto. intros E. congruence.
  - repeat split; auto. intros k' Hk' Op. destruct k'; try congruence; destruct o; discriminate.
  - repeat split; auto. intros k' Hk' Op. destruct k'; try congruence; destruct o; discriminate.
Qed.
Lemma Qk_foldl K k i i' : K k = false -> forall l l', items_rel K l l' -> forallb (fun ox => kop k (fst ox)) l = true ->
  forall x x', Qk K x x' -> Qk K (foldl_chain k i x l) (foldl_chain k i' x' l').
Proof.
  intros HK. unfold foldl_chain. induction 1 as [|[o y] [o' y'] l l' [E Qy] _ IH]; intros Ko x x' Qx; [exact Qx|].
  cbn [fst snd] in *. subst o'. cbn [forallb fst] in Ko. apply andb_true_iff in Ko as [Ko1 Ko2]. cbn [fold_left fst snd].
  apply IH; [exact Ko2|]. now apply Qk_amk.
Qed.

(* one pass *)
Theorem Qk_pass k K : K k = true -> forall g g', Qk K g g' ->
  Qk (Kminus K k) (fst (flatg k g)) (fst (flatg k g')) /\ items_rel (Kminus K k) (snd (flatg k g)) (snd (flatg k g')).
Proof.
  intros HK. set (K' := Kminus K k).
  assert (HK' : K' k = false) by apply Kminus_self.
  assert (CL : forall u u', Qk K' (fst (flatg k u)) (fst (flatg k u')) /\ items_rel K' (snd (flatg k u)) (snd (flatg k u')) ->
               Qk K' (specg k u) (specg k u')).
  { intros u u' [A B]. unfold specg, closeg. apply Qk_foldl; auto. apply flatg_items_kop. }
  assert (CR : forall k' b b', K' k' = true -> Qk K b b' -> crit k' b b' -> crit k' (specg k b) (specg k b')).
  { intros k' b b' Hk' Q C. destruct (Kminus_sub K k k' Hk') as [_ N]. apply (crit_specg k k' K); auto. }
  induction g using aterm_ind'; destruct g'; cbn [Qk]; try contradiction; intros HQ.
  - cbn. split; [exact HQ | constructor].
  - destruct HQ as (-> & -> & Hd & Hb). cbn -[closeg]. split; [|constructor]. cbn [Qk].
    repeat match goal with Hd : match ?a with Some _ => _ | None => _ end |- _ => destruct a; try contradiction end;
      cbn in H; repeat split; auto using (CL _ _ (IHg _ Hb)); exact (CL _ _ (H _ Hd)).
  - destruct HQ as (-> & -> & Hd & Hc). cbn -[closeg]. split; [|constructor]. cbn [Qk].
    repeat split; [exact (CL _ _ (IHg1 _ Hd)) | exact (CL _ _ (IHg2 _ Hc))].
  - destruct HQ as (Hf & Ha & Hc). destruct k.
    + (* the application pass *)
      cbn -[closeg]. unfold link.
      assert (EA : atomic ChApp g2 = atomic ChApp g'2).
      { unfold atomic. rewrite <- (Qk_chain _ _ _ Ha ChApp). destruct (is_chain ChApp g2) eqn:C; [|now rewrite !orb_true_r].
        rewrite (Hc HK C). reflexivity. }
      rewrite <- EA. destruct (atomic ChApp g2); cbn [fst snd].
      * split; [exact (CL _ _ (IHg1 _ Hf))|]. constructor; [|constructor]. split; [reflexivity | exact (CL _ _ (IHg2 _ Ha))].
      * destruct (IHg2 _ Ha) as [A B]. split; [exact (CL _ _ (IHg1 _ Hf))|]. constructor; [split; [reflexivity | exact A] | exact B].
    + cbn -[closeg]. split; [|constructor]. cbn [Qk]. repeat split; [exact (CL _ _ (IHg1 _ Hf)) | exact (CL _ _ (IHg2 _ Ha))|].
      intros Hk'. apply (CR ChApp); auto. apply Hc. exact (proj1 (Kminus_sub K ChMul ChApp Hk')).
    + cbn -[closeg]. split; [|constructor]. cbn [Qk]. repeat split; [exact (CL _ _ (IHg1 _ Hf)) | exact (CL _ _ (IHg2 _ Ha))|].
      intros Hk'. apply (CR ChApp); auto. apply Hc. exact (proj1 (Kminus_sub K ChAdd ChApp Hk')).
  - destruct HQ as (-> & Ha & Hd & Hb). cbn -[closeg]. split; [|constructor]. cbn [Qk].
    repeat match goal with Hd : match ?a with Some _ => _ | None => _ end |- _ => destruct a; try contradiction end;
      cbn in H; repeat split; auto using (CL _ _ (IHg1 _ Hd)), (CL _ _ (IHg2 _ Hb)); exact (CL _ _ (H _ Ha)).
  - cbn -[closeg]. split; [|constructor]. cbn [Qk]. exact (CL _ _ (IHg _ HQ)).
  - destruct HQ as (-> & Ha & Hb & Hc). cbn -[closeg]. destruct (is_op k o0) eqn:Op.
    + unfold link.
      assert (EA : atomic k g2 = atomic k g'2).
      { unfold atomic. rewrite <- (Qk_chain _ _ _ Hb k). destruct (is_chain k g2) eqn:C; [|now rewrite !orb_true_r].
        rewrite (Hc k HK Op C). reflexivity. }
      rewrite <- EA. destruct (atomic k g2); cbn [fst snd].
      * split; [exact (CL _ _ (IHg1 _ Ha))|]. constructor; [|constructor]. split; [reflexivity | exact (CL _ _ (IHg2 _ Hb))].
      * destruct (IHg2 _ Hb) as [A B]. split; [exact (CL _ _ (IHg1 _ Ha))|]. constructor; [split; [reflexivity | exact A] | exact B].
    + split; [|constructor]. cbn [Qk]. repeat split; [exact (CL _ _ (IHg1 _ Ha)) | exact (CL _ _ (IHg2 _ Hb))|].
      intros k' Hk' Op'. apply (CR k'); auto. apply Hc; [exact (proj1 (Kminus_sub K k k' Hk')) | exact Op'].
  - destruct HQ as (Hc & Ha & Hb). cbn -[closeg]. split; [|constructor]. cbn [Qk].
    repeat split; [exact (CL _ _ (IHg1 _ Hc)) | exact (CL _ _ (IHg2 _ Ha)) | exact (CL _ _ (IHg3 _ Hb))].
Qed.

Corollary Qk_specg k K g g' : K k = true -> Qk K g g' -> Qk (Kminus K k) (specg k g) (specg k g').
Proof.
  intros HK Q. destruct (Qk_pass k K HK g g' Q) as [A B]. unfold specg, closeg.
  apply Qk_foldl; auto; [apply Kminus_self | apply flatg_items_kop].
Qed.

Definition Kall : chain -> bool := fun _ => true.
(* the final tree only depends on the flags of chain nodes in right-operand position of their own kind *)
Theorem spec_all_flags g g' : Qk Kall g g' -> spec_all g = spec_all g'.
Proof.
  intros Q. unfold spec_all.
  pose proof (Qk_specg ChApp _ _ _ eq_refl Q) as Q1.
  pose proof (Qk_specg ChMul _ _ _ eq_refl Q1) as Q2.
  pose proof (Qk_specg ChAdd _ _ _ eq_refl Q2) as Q3.
  rewrite <- !(forget_specg ChAdd). exact (Qk_forget _ _ _ Q3).
Qed.

(* P2. parenthesising the tokens of one sub-derivation *)
Notation lift_to := PrintRoundTrip.lift_to.
Notation lvl := PrintRoundTrip.lvl.
Notation chain_ntb := PrintRoundTrip.chain_ntb.
Definition size (d : dtree) : nat := length (dyield d).

(* d0 as a parenthesised term, at the nonterminal of d0 *)
Definition wrap (d0 : dtree) : dtree := lift_to (lvl (root d0)) (group_atom (lift_to 7 d0)).

(* which chain a production continues in its i-th child (tokens count) *)
Definition rslot (n : nt) (i : nat) : option chain :=
  match n, i with
  | Application, 1 => Some ChApp
  | (Sum | Difference), 2 => Some ChAdd
  | (Product | Quotient), 2 => Some ChMul
  | _, _ => None
  end.
Definition prodkind (n : nt) : option chain :=
  match n with Application => Some ChApp | Sum | Difference => Some ChAdd | Product | Quotient => Some ChMul | _ => None end.
(* the chain kind of the raw tree of d, when its root is an unparenthesised chain node *)
Fixpoint gclass (d : dtree) : option chain :=
  match d with
  | DNode n _ f =>
      match prodkind n with
      | Some k => Some k
      | None => if chain_ntb n then match f with FSub c FNil => gclass c | _ => None end else None
      end
  end.

(* d2 is d with the sub-derivation at token offset o, of len tokens, parenthesised; top: the sub-derivation is d
   itself up to unit productions *)
Inductive PS : bool -> nat -> nat -> dtree -> dtree -> Prop :=
| PS_here d0 : chain_ntb (root d0) = true -> PS true 0 (size d0) d0 (wrap d0)
| PS_unit top o len n rhs c c2 : chain_ntb n = true -> PS top o len c c2 ->
    PS top o len (DNode n rhs (FSub c FNil)) (DNode n rhs (FSub c2 FNil))
| PS_node o len n rhs f f2 : chain_ntb n = false -> PSF n 0 o len f f2 -> PS false o len (DNode n rhs f) (DNode n rhs f2)
with PSF : nt -> nat -> nat -> nat -> dforest -> dforest -> Prop :=
| PSF_tok n i o len k f f2 : PSF n (S i) o len f f2 -> PSF n i (S o) len (FTok k f) (FTok k f2)
| PSF_skip n i o len c f f2 : PSF n (S i) o len f f2 -> PSF n i (size c + o) len (FSub c f) (FSub c f2)
| PSF_hit n i top o len c c2 f : PS top o len c c2 ->
    (* not the unparenthesised tail of a chain of the same kind *)
    (top = true -> forall k, rslot n i = Some k -> gclass c <> Some k) ->
    PSF n i o len (FSub c f) (FSub c2 f).
Scheme PS_mind := Minimality for PS Sort Prop
  with PSF_mind := Minimality for PSF Sort Prop.

(* token lists and kind lists with the two parentheses inserted *)
Definition ins {A} (lp rp : A) (o len : nat) (l : list A) : list A :=
  firstn o l ++ lp :: firstn len (skipn o l) ++ rp :: skipn (o + len) l.

Lemma ins_cons {A} (lp rp : A) o len x l : ins lp rp (S o) len (x :: l) = x :: ins lp rp o len l.
Proof. reflexivity. Qed.
Lemma ins_app {A} (lp rp : A) w o len l : ins lp rp (length w + o) len (w ++ l) = w ++ ins lp rp o len l.
Proof. induction w as [|x w IH]; [reflexivity|]. cbn [length app plus]. now rewrite ins_cons, IH. Qed.
Lemma ins_app_l {A} (lp rp : A) w r : forall o len, o + len <= length w -> ins lp rp o len (w ++ r) = ins lp rp o len w ++ r.
Proof.
  induction w as [|x w IH]; intros o len H.
  - cbn in H. assert (o = 0) by lia. assert (len = 0) by lia. subst. reflexivity.
  - destruct o as [|o].
    + unfold ins. change (0 + len) with len. change (firstn 0 ((x :: w) ++ r)) with (@nil A). change (firstn 0 (x :: w)) with (@nil A).
      change (skipn 0 ((x :: w) ++ r)) with ((x :: w) ++ r). change (skipn 0 (x :: w)) with (x :: w).
      rewrite firstn_app, skipn_app. replace (len - length (x :: w)) with 0 by lia.
      change (firstn 0 r) with (@nil A). change (skipn 0 r) with r. rewrite app_nil_r. cbn [app]. rewrite <- app_assoc. reflexivity.
    + cbn [app]. rewrite !ins_cons, IH by (cbn in H; lia). reflexivity.
Qed.
Lemma ins_map {A B} (f : A -> B) lp rp o len l : map f (ins lp rp o len l) = ins (f lp) (f rp) o len (map f l).
Proof. unfold ins. rewrite map_app. cbn [map]. rewrite map_app. cbn [map]. now rewrite <- !firstn_map, <- !skipn_map. Qed.
Lemma split_at {A} n (l : list A) : n <= length l -> exists w r, l = w ++ r /\ length w = n.
Proof. intros H. exists (firstn n l), (skipn n l). split; [now rewrite firstn_skipn | apply firstn_length_le; exact H]. Qed.

(* locality of todl *)
Lemma skipn_tl {A} n (l : list A) : skipn n (tl l) = skipn (S n) l.
Proof. destruct l; [now rewrite !skipn_nil | reflexivity]. Qed.
Lemma todl_rest : forall d l, snd (todl d l) = skipn (size d) l.
Proof.
  unfold size. apply (dtree_mind (fun d => forall l, snd (todl d l) = skipn (length (dyield d)) l)
                                 (fun f => forall l, snd (tofl f l) = skipn (length (fyield f)) l)).
  - intros n rhs f IH l. rewrite todl_node. apply IH.
  - reflexivity.
  - intros k f IH l. rewrite tofl_tok. cbn [snd fyield length]. rewrite IH. apply skipn_tl.
  - intros d IHd f IHf l. rewrite tofl_sub. cbn [snd fyield]. rewrite IHf, IHd, app_length. apply skipn_plus.
Qed.
Lemma tofl_rest : forall f l, snd (tofl f l) = skipn (length (fyield f)) l.
Proof.
  induction f as [|k f IH|d f IH]; intros l.
  - reflexivity.
  - rewrite tofl_tok. cbn [snd fyield length]. rewrite IH. apply skipn_tl.
  - rewrite tofl_sub. cbn [snd fyield]. rewrite IH, todl_rest, app_length. apply skipn_plus.
Qed.
Lemma todl_app : forall d w r, length w = size d -> todl d (w ++ r) = (fst (todl d (w ++ r)), r).
Proof.
  intros d w r E. rewrite (surjective_pairing (todl d (w ++ r))) at 1. f_equal. rewrite todl_rest, <- E.
  rewrite skipn_app, Nat.sub_diag, skipn_all. reflexivity.
Qed.
Lemma todl_prefix : forall d w r r', length w = size d -> fst (todl d (w ++ r)) = fst (todl d (w ++ r')).
Proof.
  unfold size. intros d.
  apply (dtree_mind (fun d => forall w r r', length w = length (dyield d) -> fst (todl d (w ++ r)) = fst (todl d (w ++ r')))
                    (fun f => forall w r r', length w = length (fyield f) -> fst (tofl f (w ++ r)) = fst (tofl f (w ++ r')))).
  - intros n rhs f IH w r r' E. rewrite !todl_node. cbn [fst]. f_equal. now apply IH.
  - reflexivity.
  - intros k f IH w r r' E. cbn [fyield length] in E. destruct w as [|x w]; [discriminate E|]. injection E as E.
    rewrite !tofl_tok. cbn [fst app hd tl]. f_equal. now apply IH.
  - intros d0 IHd f IHf w r r' E. cbn [fyield] in E. rewrite app_length in E.
    destruct (split_at (length (dyield d0)) w ltac:(lia)) as (w1 & w2 & -> & E1).
    rewrite app_length in E. rewrite <- !app_assoc, !tofl_sub. cbn [fst].
    rewrite !(todl_rest d0). unfold size. rewrite <- E1, !skipn_app, !Nat.sub_diag, !skipn_all. cbn [skipn app].
    f_equal; [f_equal; apply IHd; exact E1 | apply IHf; lia].
Qed.

(* unit productions over chain nonterminals are invisible in the raw tree *)
Lemma todl_upn l : Forall PrintRoundTrip.is_chain_nt l -> forall d x, todl (PrintRoundTrip.upn l d) x = todl d x.
Proof.
  induction 1 as [|n l Hn _ IH]; intros d x; [reflexivity|]. cbn [PrintRoundTrip.upn]. rewrite IH.
  unfold PrintRoundTrip.unit. todl_simpl. destruct (todl d x) as [g r]. cbn [fst snd]. f_equal.
  unfold PrintRoundTrip.is_chain_nt in Hn. destruct n; try discriminate Hn; reflexivity.
Qed.
Lemma Forall_firstn {A} (P : A -> Prop) n l : Forall P l -> Forall P (firstn n l).
Proof. intros F. revert n. induction F; intros [|n]; cbn; constructor; auto. Qed.
Lemma Forall_skipn {A} (P : A -> Prop) n l : Forall P l -> Forall P (skipn n l).
Proof. intros F. revert n. induction F; intros [|n]; cbn; auto. Qed.
Lemma todl_lift tg d x : todl (lift_to tg d) x = todl d x.
Proof.
  unfold PrintRoundTrip.lift_to. apply todl_upn. apply Forall_firstn, Forall_skipn. repeat constructor.
Qed.

Lemma wrap_ok d0 : dt_ok d0 -> chain_ntb (root d0) = true ->
  dt_ok (wrap d0) /\ root (wrap d0) = root d0 /\ dyield (wrap d0) = KLeftParen :: dyield d0 ++ [KRightParen].
Proof.
  intros H C. unfold wrap.
  assert (L : PrintRoundTrip.liftable (root d0) = true) by (destruct (root d0); try discriminate C; reflexivity).
  destruct (PrintRoundTrip.lift_ok 7 d0 H L (le_n _)) as (A1 & A2 & A3 & _).
  assert (R7 : root (lift_to 7 d0) = Term) by (rewrite A2; destruct (root d0); try discriminate C; reflexivity).
  destruct (PrintRoundTrip.dt_group_atom _ A1 R7) as (B1 & B2 & B3).
  destruct (PrintRoundTrip.lift_ok (lvl (root d0)) _ B1) as (C1 & C2 & C3 & _);
    [now rewrite B2 | destruct (root d0); try discriminate C; cbn; lia|].
  split; [exact C1|]. split; [rewrite C2, B2; destruct (root d0); try discriminate C; reflexivity|].
  rewrite C3, B3, A3. reflexivity.
Qed.
Lemma todl_wrap d0 lp rp w r : length w = size d0 ->
  todl (wrap d0) (lp :: w ++ rp :: r) = (set_ann true (fst (todl d0 (w ++ r))), r).
Proof.
  intros E. unfold wrap. rewrite todl_lift. unfold group_atom. todl_simpl. cbn [hd tl abuildl].
  rewrite !todl_lift, !todl_rest, <- E, skipn_app, Nat.sub_diag, skipn_all. cbn [app skipn tl].
  f_equal. f_equal. now apply todl_prefix.
Qed.

(* well-formedness and yield *)
Lemma PS_ok : forall top o len d d2, PS top o len d d2 -> dt_ok d ->
  dt_ok d2 /\ root d2 = root d /\ o + len <= size d /\ dyield d2 = ins KLeftParen KRightParen o len (dyield d).
Proof.
  apply (PS_mind
    (fun top o len d d2 => dt_ok d -> dt_ok d2 /\ root d2 = root d /\ o + len <= size d /\ dyield d2 = ins KLeftParen KRightParen o len (dyield d))
    (fun n i o len f f2 => forall rhs, df_ok rhs f -> df_ok rhs f2 /\ o + len <= length (fyield f) /\ fyield f2 = ins KLeftParen KRightParen o len (fyield f))).
  - intros d0 C H. destruct (wrap_ok d0 H C) as (A & B & Y). split; [exact A|]. split; [exact B|]. split; [unfold size; lia|].
    rewrite Y. unfold ins, size. cbn [firstn skipn app plus]. now rewrite firstn_all, skipn_all.
  - intros top o len n rhs c c2 C _ IH H. inversion H as [? ? ? Hin Hf]; subst. inversion Hf as [| | |? ? ? Hc Hn]; subst.
    destruct (IH Hc) as (A & B & L & Y). split; [|split; [reflexivity|]].
    + constructor; [exact Hin|]. rewrite <- B. constructor; [exact A | exact Hn].
    + unfold size in *. cbn [dyield fyield]. rewrite app_nil_r. split; [exact L|]. now rewrite Y, app_nil_r.
  - intros o len n rhs f f2 _ _ IH H. inversion H as [? ? ? Hin Hf]; subst. destruct (IH _ Hf) as (A & L & Y).
    split; [now constructor|]. split; [reflexivity|]. split; [exact L | exact Y].
  - intros n i o len k f f2 _ IH rhs Hf. inversion Hf; subst;
      match goal with H : df_ok _ f |- _ => destruct (IH _ H) as (A & L & Y) end;
      (split; [first [now constructor | now apply df_term]|]); cbn [fyield length]; (split; [lia|]); now rewrite Y.
  - intros n i o len c f f2 _ IH rhs Hf. inversion Hf; subst.
    match goal with H : df_ok _ f |- _ => destruct (IH _ H) as (A & L & Y) end.
    split; [now constructor|]. cbn [fyield]. rewrite app_length. unfold size. split; [lia|]. now rewrite Y, ins_app.
  - intros n i top o len c c2 f _ IH _ rhs Hf. inversion Hf; subst.
    match goal with H : dt_ok c |- _ => destruct (IH H) as (A & B & L & Y) end.
    split; [rewrite <- B; now constructor|]. cbn [fyield]. rewrite app_length. unfold size in L. split; [lia|].
    rewrite Y. symmetry. apply ins_app_l. exact L.
Qed.

(* the raw tree of a node from the raw trees of its children *)
Fixpoint crels (n : nt) (i : nat) (cs cs2 : list lchild) : Prop :=
  match cs, cs2 with
  | [], [] => True
  | inl a :: r, inl b :: r2 => psim a b /\ crels n (S i) r r2
  | inr g :: r, inr g2 :: r2 => (Qk Kall g g2 /\ (forall k, rslot n i = Some k -> crit k g g2)) /\ crels n (S i) r r2
  | _, _ => False
  end.
Lemma crels_refl n : forall cs i, crels n i cs cs.
Proof.
  induction cs as [|[a|g] cs IH]; intros i; cbn; auto.
  - split; [split; reflexivity | apply IH].
  - split; [split; [apply Qk_refl | intros k _ _; reflexivity] | apply IH].
Qed.
Lemma ann_set_ann A (i : A) g : ann (set_ann i g) = i.
Proof. destruct g; reflexivity. Qed.

Ltac walk2 cs cs2 H :=
  repeat (destruct cs as [|[?a|?g] cs]; destruct cs2 as [|[?b|?h] cs2]; cbn [crels] in H; try contradiction;
          try (destruct H as [?R H]); try (split; [apply Qk_refl | reflexivity])).

Lemma abuildl_Qk n cs cs2 : chain_ntb n = false -> crels n 0 cs cs2 ->
  Qk Kall (abuildl n cs) (abuildl n cs2) /\ ann (abuildl n cs) = ann (abuildl n cs2).
Proof.
  intros C H. unfold abuildl. destruct n; try discriminate C; walk2 cs cs2 H;
    unfold psim in *; cbn [rslot] in *;
    repeat match goal with R : _ /\ _ |- _ => destruct R end;
    try (split; [|reflexivity]; cbn [Qk]; repeat split; auto; try congruence;
         try (intros; match goal with R : forall k, Some ?c = Some k -> _ |- _ => apply (R c eq_refl) end);
         try (intros k _ Op; destruct k; try discriminate Op;
              match goal with R : forall k, Some ?c = Some k -> _ |- _ => apply (R c eq_refl) end)).
  (* Group *)
  split; [now apply Qk_set_ann | now rewrite !ann_set_ann].
Qed.

Lemma abuildl_atomic n cs k : atomic k (abuildl n cs) = false ->
  prodkind n = Some k \/ (chain_ntb n = true /\ exists t, cs = [inr t] /\ atomic k t = false).
Proof.
  intros H. unfold abuildl in H.
  destruct k; destruct n;
    do 8 (try (destruct cs as [|[?a|?g] cs]; cbn [atomic ann is_chain is_op set_ann orb negb] in H; try discriminate H));
    first [ left; reflexivity
          | right; split; [reflexivity | eexists; split; [reflexivity | exact H]]
          | match goal with H : context [set_ann true ?g] |- _ => destruct g; discriminate H end ].
Qed.

Lemma gclass_of_chain : forall d l k, atomic k (fst (todl d l)) = false -> gclass d = Some k.
Proof.
  apply (dtree_mind (fun d => forall l k, atomic k (fst (todl d l)) = false -> gclass d = Some k)
                    (fun f => forall c, f = FSub c FNil -> forall l k, atomic k (fst (todl c l)) = false -> gclass c = Some k)).
  - intros n rhs f IH l k At. rewrite todl_node in At. cbn [fst] in At. cbn [gclass].
    destruct (abuildl_atomic _ _ _ At) as [P|(C & t & Ecs & At')]; [now rewrite P|].
    assert (P : prodkind n = None) by (destruct n; try discriminate C; reflexivity). rewrite P, C.
    destruct f as [|k0 f|c f]; [discriminate Ecs | rewrite tofl_tok in Ecs; discriminate Ecs|].
    rewrite tofl_sub in Ecs. cbn [fst] in Ecs. destruct f as [|k1 f|c1 f];
      [| rewrite tofl_tok in Ecs; discriminate Ecs | rewrite tofl_sub in Ecs; discriminate Ecs].
    injection Ecs as <-. exact (IH c eq_refl l k At').
  - intros c E. discriminate E.
  - intros k f _ c E. discriminate E.
  - intros d IHd f _ c E. injection E as <- _. exact IHd.
Qed.
Lemma gclass_atomic d l k : gclass d <> Some k -> atomic k (fst (todl d l)) = true.
Proof. intros G. destruct (atomic k (fst (todl d l))) eqn:E; [reflexivity|]. now apply gclass_of_chain in E. Qed.

Lemma Qk_raise K g : Qk K g (set_ann true g).
Proof.
  destruct g; cbn [set_ann Qk]; repeat split; auto using Qk_refl; unfold crit; auto;
    match goal with |- match ?d with Some _ => _ | None => _ end => destruct d; auto using Qk_refl end.
Qed.

Lemma ins_whole {A} (lp rp : A) w : ins lp rp 0 (length w) w = lp :: w ++ [rp].
Proof. unfold ins. cbn [firstn skipn app plus]. now rewrite firstn_all, skipn_all. Qed.

Lemma todl_unit n rhs c x : chain_ntb n = true -> todl (DNode n rhs (FSub c FNil)) x = todl c x.
Proof.
  intros C. todl_simpl. destruct (todl c x) as [g r]. cbn [fst snd]. f_equal. destruct n; try discriminate C; reflexivity.
Qed.

(* the raw tree of the parenthesised derivation, read off the token list with the two parentheses inserted *)
Lemma PS_sound (lp rp : ptok) : forall top o len d d2, PS top o len d d2 -> forall w r, length w = size d ->
  o + len <= size d /\
  snd (todl d2 (ins lp rp o len w ++ r)) = r /\
  let g := fst (todl d (w ++ r)) in let g2 := fst (todl d2 (ins lp rp o len w ++ r)) in
  if top then g2 = set_ann true g else Qk Kall g g2 /\ ann g = ann g2.
Proof.
  apply (PS_mind
    (fun top o len d d2 => forall w r, length w = size d ->
       o + len <= size d /\ snd (todl d2 (ins lp rp o len w ++ r)) = r /\
       let g := fst (todl d (w ++ r)) in let g2 := fst (todl d2 (ins lp rp o len w ++ r)) in
       if top then g2 = set_ann true g else Qk Kall g g2 /\ ann g = ann g2)
    (fun n i o len f f2 => forall w r, length w = length (fyield f) ->
       o + len <= length w /\ snd (tofl f2 (ins lp rp o len w ++ r)) = r /\
       crels n i (fst (tofl f (w ++ r))) (fst (tofl f2 (ins lp rp o len w ++ r))))).
  - intros d0 C w r E. split; [lia|]. rewrite <- E, ins_whole. cbn [app]. rewrite <- app_assoc. cbn [app].
    rewrite (todl_wrap d0 lp rp w r E). cbn [fst snd]. auto.
  - intros top o len n rhs c c2 C _ IH w r E. unfold size in E. cbn [dyield fyield] in E. rewrite app_nil_r in E.
    destruct (IH w r E) as (L & R & G). unfold size. cbn [dyield fyield]. rewrite app_nil_r.
    rewrite !(todl_unit n) by exact C. auto.
  - intros o len n rhs f f2 C _ IH w r E. destruct (IH w r E) as (L & R & G).
    split; [unfold size in *; cbn [dyield] in *; lia|]. rewrite !todl_node. cbn [fst snd]. split; [exact R|].
    now apply abuildl_Qk.
  - intros n i o len k f f2 _ IH w r E. cbn [fyield length] in E. destruct w as [|x w]; [discriminate E|]. injection E as E.
    destruct (IH w r E) as (L & R & G). split; [cbn [length]; lia|].
    rewrite ins_cons. cbn [app]. rewrite !tofl_tok. cbn [fst snd hd tl]. split; [exact R|].
    cbn [crels]. split; [split; reflexivity | exact G].
  - intros n i o len c f f2 _ IH w r E. cbn [fyield] in E. rewrite app_length in E.
    destruct (split_at (size c) w ltac:(unfold size; lia)) as (w1 & w2 & -> & E1).
    rewrite app_length in E. destruct (IH w2 r ltac:(unfold size in E1; lia)) as (L & R & G).
    split; [rewrite app_length; lia|]. rewrite <- E1, ins_app, <- !app_assoc, !tofl_sub. cbn [fst snd].
    rewrite !(todl_rest c), <- E1, !skipn_app, !Nat.sub_diag, !skipn_all. cbn [skipn app]. split; [exact R|].
    cbn [crels]. split; [|exact G]. rewrite (todl_prefix c w1 (w2 ++ r) (ins lp rp o len w2 ++ r) E1).
    split; [apply Qk_refl | intros k _ _; reflexivity].
  - intros n i top o len c c2 f _ IH Safe w r E. cbn [fyield] in E. rewrite app_length in E.
    destruct (split_at (size c) w ltac:(unfold size; lia)) as (w1 & w2 & -> & E1).
    destruct (IH w1 (w2 ++ r) E1) as (L & R & G). cbv zeta in G.
    split; [rewrite app_length; lia|]. rewrite ins_app_l by lia. rewrite <- !app_assoc, !tofl_sub. cbn [fst snd].
    rewrite R, (todl_rest c), <- E1, skipn_app, Nat.sub_diag, skipn_all. cbn [skipn app].
    split; [rewrite tofl_rest; rewrite app_length in E; replace (length (fyield f)) with (length w2) by (unfold size in E1; lia);
            now rewrite skipn_app, Nat.sub_diag, skipn_all|].
    cbn [crels]. split; [|apply crels_refl].
    destruct top.
    + rewrite G. split; [apply Qk_raise|]. intros k Hk Ch. rewrite ann_set_ann.
      pose proof (gclass_atomic c (w1 ++ w2 ++ r) k (Safe eq_refl k Hk)) as At. unfold atomic in At. rewrite Ch in At.
      now rewrite orb_false_r in At.
    + destruct G as [Q An]. split; [exact Q | intros k _ _; exact An].
Qed.

(* P: redundant parentheses. d is the derivation tree of the accepted token list; the parentheses go around the
   tokens [o, o+len) of a sub-derivation (PS), which is not the unparenthesised tail of a chain of its own kind *)
Theorem parens_redundant toks memo raw m s d top o len d2 lp rp :
  parse_stage1 toks memo = (S1Tree raw, m, s) ->
  dt_ok d -> root d = Term -> dyield d = map pk toks ->
  PS top o len d d2 -> pk lp = KLeftParen -> pk rp = KRightParen ->
  exists raw2 m2 s2, parse_stage1 (ins lp rp o len toks) memo = (S1Tree raw2, m2, s2) /\
    strip raw2 = strip raw /\ strip (reassociate raw2) = strip (reassociate raw).
Proof.
  intros P Hd Hr Hy HPS Klp Krp.
  destruct (PS_ok _ _ _ _ _ HPS Hd) as (Hd2 & Hr2 & L & Hy2).
  assert (Y2 : dyield d2 = map pk (ins lp rp o len toks)) by (rewrite ins_map, Klp, Krp, <- Hy; exact Hy2).
  assert (Dv : derives Term (map pk (ins lp rp o len toks))) by (rewrite <- Y2, <- Hr, <- Hr2; now apply tree_derives).
  destruct (parse_complete_memo _ memo Dv) as [raw2 Hraw2].
  destruct (parse_stage1 (ins lp rp o len toks) memo) as [[st m2] s2] eqn:P2. cbn [fst] in Hraw2. subst st.
  exists raw2, m2, s2. split; [reflexivity|].
  destruct (parser_builds_derivation _ _ _ _ _ P) as (d' & _ & U & _ & G & R).
  destruct (parser_builds_derivation _ _ _ _ _ P2) as (d2' & _ & U2 & _ & G2 & R2).
  assert (d = d') by (apply U; assumption). subst d'.
  assert (d2 = d2') by (apply U2; [exact Hd2 | congruence | exact Y2]). subst d2'.
  assert (Sz : length toks = size d) by (unfold size; now rewrite Hy, map_length).
  destruct (PS_sound lp rp _ _ _ _ _ HPS toks [] Sz) as (_ & _ & Q). cbv zeta in Q. rewrite !app_nil_r in Q.
  assert (QQ : Qk Kall (gtree_of toks d) (gtree_of (ins lp rp o len toks) d2)).
  { rewrite !gtree_of_todl. destruct top; [rewrite Q; apply Qk_raise | exact (proj1 Q)]. }
  split.
  - rewrite !strip_gstrip, G, G2. symmetry. exact (Qk_forget _ _ _ QQ).
  - rewrite R, R2. symmetry. now apply spec_all_flags.
Qed.

(* instance: the whole program *)
Corollary parens_whole_program toks memo raw m s lp rp :
  parse_stage1 toks memo = (S1Tree raw, m, s) -> pk lp = KLeftParen -> pk rp = KRightParen ->
  exists raw2 m2 s2, parse_stage1 (lp :: toks ++ [rp]) memo = (S1Tree raw2, m2, s2) /\
    strip (reassociate raw2) = strip (reassociate raw).
Proof.
  intros P Klp Krp. destruct (parser_builds_derivation _ _ _ _ _ P) as (d & (Hd & Hr & Hy) & _).
  assert (HPS : PS true 0 (size d) d (wrap d)) by (apply PS_here; now rewrite Hr).
  destruct (parens_redundant _ _ _ _ _ _ _ _ _ _ lp rp P Hd Hr Hy HPS Klp Krp) as (raw2 & m2 & s2 & P2 & _ & E).
  assert (Sz : size d = length toks) by (unfold size; now rewrite Hy, map_length).
  rewrite Sz, ins_whole in P2. eauto.
Qed.

Print Assumptions layout_acceptance.
Print Assumptions layout_same_tree.
Print Assumptions spec_all_flags.
Print Assumptions parens_redundant.

(* ---------- examples ---------- *)
Definition final (toks : list ptok) : option sterm :=
  match fst (fst (parse_stage1 toks true)) with S1Tree raw => Some (strip (reassociate raw)) | _ => None end.
Definition LP : ptok := punct KLeftParen 0.
Definition RP : ptok := punct KRightParen 0.

(* L: x = 1 ; x  and  x = 1 <line break> x *)
Definition let_semi : list ptok := [ident 120 0; punct KEquals 1; {| pk := KIntegerLiteral; ps := 2; pe := 3; pname := []; pz := 1 |}; punct KSemicolon 3; ident 120 4].
Definition let_break : list ptok := [ident 120 0; punct KEquals 1; {| pk := KIntegerLiteral; ps := 2; pe := 3; pname := []; pz := 1 |}; punct KLineBreak 3; ident 120 9].
Example layout_example_sim : layout_sim let_semi let_break.
Proof. repeat constructor; right; split; reflexivity. Qed.
Example layout_example : final let_semi = final let_break /\ final let_semi <> None.
Proof. vm_compute. split; [reflexivity | discriminate]. Qed.

(* P: a - b - c  (TreeDerivation.abc, derivation tree Unambiguous.sub_sub_term) *)
(* the left operand: ( a ) - b - c *)
Example paren_left_operand : exists d2, PS false 0 1 sub_sub_term d2.
Proof.
  eexists. unfold sub_sub_term, unit_chain, diff. do 4 (apply PS_unit; [reflexivity|]).
  apply PS_node; [reflexivity|]. eapply PSF_hit; [exact (PS_here var_large eq_refl) | intros _ k E; discriminate E].
Qed.
Example paren_left_operand_same : final (ins LP RP 0 1 abc) = final abc /\ final abc <> None.
Proof. vm_compute. split; [reflexivity | discriminate]. Qed.
(* inside the right operand: a - ( b ) - c *)
Example paren_middle : exists d2, PS false 2 1 sub_sub_term d2.
Proof.
  eexists. unfold sub_sub_term, unit_chain, diff. do 4 (apply PS_unit; [reflexivity|]).
  apply PS_node; [reflexivity|]. change 2 with (size var_large + 1). apply PSF_skip. apply PSF_tok.
  eapply PSF_hit.
  - apply PS_unit; [reflexivity|]. apply PS_node; [reflexivity|].
    eapply PSF_hit; [exact (PS_here var_large eq_refl) | intros _ k E; discriminate E].
  - intros E; discriminate E.
Qed.
Example paren_middle_same : final (ins LP RP 2 1 abc) = final abc.
Proof. vm_compute. reflexivity. Qed.
(* the theorem on these instances *)
Example paren_left_by_theorem : exists raw raw2 m s m2 s2,
  parse_stage1 abc true = (S1Tree raw, m, s) /\ parse_stage1 (ins LP RP 0 1 abc) true = (S1Tree raw2, m2, s2) /\
  strip (reassociate raw2) = strip (reassociate raw).
Proof.
  destruct (parse_stage1 abc true) as [[st m] s] eqn:P.
  assert (exists raw, st = S1Tree raw) as [raw ->].
  { assert (E : fst (fst (parse_stage1 abc true)) = st) by (rewrite P; reflexivity). vm_compute in E. subst st. eauto. }
  destruct paren_left_operand as [d2 HPS]. destruct sub_sub_ok as (Hd & Hr & Hy).
  destruct (parens_redundant abc true raw m s sub_sub_term false 0 1 d2 LP RP P Hd Hr Hy HPS eq_refl eq_refl) as (raw2 & m2 & s2 & P2 & _ & E).
  exists raw, raw2, m, s, m2, s2. auto.
Qed.

(* the excluded position: the tail b - c of the chain. a - ( b - c ) is another program ... *)
Example paren_tail_changes_tree :
  final (ins LP RP 2 3 abc) <> final abc /\
  final (ins LP RP 2 3 abc) = Some (ABin tt ODiff (var 97) (ABin tt ODiff (var 98) (var 99))) /\
  final abc = Some (ABin tt ODiff (ABin tt ODiff (var 97) (var 98)) (var 99)).
Proof. vm_compute. repeat split; try reflexivity. discriminate. Qed.
(* ... and PS excludes it: the right operand of the Difference node is an unparenthesised ChAdd chain *)
Example tail_is_excluded :
  rslot Difference 2 = Some ChAdd /\
  gclass (diff var_large (DNode HugeTerm [GN LargeTerm] (FSub var_large FNil))) = Some ChAdd.
Proof. split; reflexivity. Qed.
(* not covered by parens_redundant (a - b is a node of the FINAL tree but not a sub-derivation): ( a - b ) - c;
   it is redundant on this instance *)
Example paren_chain_prefix_same : final (ins LP RP 0 3 abc) = final abc.
Proof. vm_compute. reflexivity. Qed.
