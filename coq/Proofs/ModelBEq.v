(* Unfolding equations for the big fixpoints of Model B, proved ONCE by reflexivity.

   Unfolding `unifyB (S f)` directly (cbn [unifyB] / simpl) re-expands its local definitions (solve, and2,
   structural) in each of the 196 branches of the final match; the tactic is quick but the kernel then
   needs minutes at Qed.  The detour through unify_body / unify_head costs nothing: rewrite unifyB_S,
   unfold unify_body, and only when both weak-head normal forms are constructors
   `cbv beta iota zeta delta [unify_head]`.  (In a file of its own, depending on Model/ModelB.v only, so that
   StoreProofs.v, AcyclicProofs.v and ModelBHoleFree.v can all use them.) *)
From Coq Require Import List ZArith Lia Bool Arith.
Import ListNotations.
Require Import Gram.Model.Term Gram.Model.DeBruijn Gram.Model.ModelB.

(* one layer of unify, after both sides have been weak-head normalised: the text of unifyB with the
   recursive call abstracted.  (Unfolding unifyB itself costs the kernel minutes, because its local
   definitions are re-expanded in each of the 196 branches; the detour through unifyB' costs nothing.) *)
Definition unify_head (f : nat) (rec : storeB -> dctx -> term -> term -> option (bool * storeB))
                      (s2 : storeB) (D : dctx) (w1 w2 : term) : option (bool * storeB) :=
  let solve (id sh : nat) (other : term) (k : unit -> option (bool * storeB)) : option (bool * storeB) :=
      match sshiftB f s2 other 0 (- Z.of_nat sh) with None => None | Some low =>
      match low with
      | None => k tt
      | Some sol => match occursB f s2 id other with None => None | Some oc =>
                    if oc then Some (false, s2) else Some (true, sset s2 id sol) end
      end end in
  let and2 (x : option (bool * storeB)) (y : storeB -> option (bool * storeB)) :=
      match x with None => None | Some r => let '(u, s') := r in if u then y s' else Some (false, s') end in
  let structural (_ : unit) : option (bool * storeB) :=
    match w1, w2 with
    | TType, TType | TInt, TInt | TBool, TBool | TTrue, TTrue | TFalse, TFalse => Some (true, s2)
    | TVar i, TVar j => Some (Nat.eqb i j, s2)
    | TLam i1 _ b1, TLam i2 _ b2 => if Bool.eqb i1 i2 then rec s2 (None :: D) b1 b2 else Some (false, s2)
    | TPi i1 d1 b1, TPi i2 d2 b2 =>
        if Bool.eqb i1 i2 then and2 (rec s2 D d1 d2) (fun s' => rec s' (None :: D) b1 b2) else Some (false, s2)
    | TApp a1 b1, TApp a2 b2 => and2 (rec s2 D a1 a2) (fun s' => rec s' D b1 b2)
    | TLit x, TLit y => Some (Z.eqb x y, s2)
    | TNeg x, TNeg y => rec s2 D x y
    | TBin o1 a1 b1, TBin o2 a2 b2 =>
        if binop_eqbB o1 o2 then and2 (rec s2 D a1 a2) (fun s' => rec s' D b1 b2) else Some (false, s2)
    | TIf c1 a1 b1, TIf c2 a2 b2 =>
        and2 (rec s2 D c1 c2) (fun s' => and2 (rec s' D a1 a2) (fun s'' => rec s'' D b1 b2))
    | _, _ => Some (false, s2)
    end in
  match w1, w2 with
  | THole i1 h1, THole i2 h2 =>
      if Nat.eqb i1 i2 && Nat.eqb h1 h2 then Some (true, s2)
      else solve i1 h1 w2 (fun _ => solve i2 h2 w1 (fun _ => Some (false, s2)))
  | THole i1 h1, _ => solve i1 h1 w2 (fun _ => Some (false, s2))
  | _, THole i2 h2 => solve i2 h2 w1 (fun _ => Some (false, s2))
  | _, _ => structural tt
  end.

Definition unify_body (f : nat) (rec : storeB -> dctx -> term -> term -> option (bool * storeB))
                      (s : storeB) (D : dctx) (a b : term) : option (bool * storeB) :=
  match syn_eqB f s a b with None => None | Some e =>
  if e then Some (true, s) else
  match whnfB f s D a with None => None | Some p => let '(w1, s1) := p in
  match whnfB f s1 D b with None => None | Some q => let '(w2, s2) := q in
  unify_head f rec s2 D w1 w2 end end end.

Fixpoint unifyB' (fuel : nat) (s : storeB) (D : dctx) (a b : term) : option (bool * storeB) :=
  match fuel with O => None | S f => unify_body f (unifyB' f) s D a b end.

Lemma unifyB_eq : unifyB = unifyB'.
Proof. reflexivity. Qed.

Lemma unifyB_S f s D a b : unifyB (S f) s D a b = unify_body f (unifyB f) s D a b.
Proof. rewrite unifyB_eq. reflexivity. Qed.
