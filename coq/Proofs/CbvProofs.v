(* step = cbv, determinism, classification of stuck terms. *)
From Coq Require Import List ZArith Lia Bool Arith.
Import ListNotations.
Require Import Gram.Model.Term Gram.Model.DeBruijn Gram.Model.Eval Gram.Spec.Cbv.
Lemma value_no_step v : is_value v = true -> step v = None.
Proof. destruct v; cbn; try discriminate; reflexivity. Qed.

Lemma redex_step r r' : redex r r' -> step r = Some r'.
Proof.
  destruct 1; cbn [step is_value negb]; try reflexivity.
  - rewrite (value_no_step a H), H. reflexivity.
  - rewrite (value_no_step d H), H. reflexivity.
  - exact H.
Qed.

Lemma redex_not_value r r' : redex r r' -> is_value r = false.
Proof. destruct 1; reflexivity. Qed.

Lemma plug_not_value E r : is_value r = false -> is_value (plug E r) = false.
Proof. destruct E; cbn; auto. Qed.

Lemma plug_step : forall E r r', ectx_ok E = true -> step r = Some r' -> step (plug E r) = Some (plug E r').
Proof.
  induction E; intros r r' Hok Hs; cbn [plug ectx_ok] in *; auto.
  - cbn [step]. now rewrite (IHE _ _ Hok Hs).
  - apply andb_prop in Hok as [Hv Hok]. cbn [step]. rewrite (value_no_step f Hv), Hv. cbn [negb].
    now rewrite (IHE _ _ Hok Hs).
  - cbn [step]. now rewrite (IHE _ _ Hok Hs).
  - cbn [step]. now rewrite (IHE _ _ Hok Hs).
  - cbn [step]. now rewrite (IHE _ _ Hok Hs).
  - apply andb_prop in Hok as [Hv Hok]. cbn [step]. rewrite (value_no_step a Hv), Hv. cbn [negb].
    now rewrite (IHE _ _ Hok Hs).
  - cbn [step]. now rewrite (IHE _ _ Hok Hs).
Qed.

Theorem cbv_step t t' : cbv t t' -> step t = Some t'.
Proof. intros (E & r & r' & Hok & -> & Hr & ->). apply plug_step; auto. now apply redex_step. Qed.

Ltac wrap C :=
  match goal with
  | IH : forall t', step ?x = Some t' -> cbv ?x t', HH : step ?x = Some ?y |- _ =>
      destruct (IH _ HH) as (E & r & r' & Hok & Hp & Hr & Hq);
      exists (C E), r, r'; cbn [plug ectx_ok]; rewrite ?Hok, <- ?Hp, <- ?Hq; repeat split; auto
  end.

Theorem step_cbv : forall t t', step t = Some t' -> cbv t t'.
Proof.
  induction t using term_ind'; intros t' Hs; cbn [step] in Hs; try discriminate.
  - (* app *)
    destruct (step t1) as [f'|] eqn:S1.
    + injection Hs as <-. destruct (IHt1 _ eq_refl) as (E & r & r' & Hok & Hp & Hr & Hq).
      exists (EAppL E t2), r, r'. cbn [plug ectx_ok]. rewrite Hok, <- Hp, <- Hq. repeat split; auto.
    + destruct (is_value t1) eqn:V1; cbn [negb] in Hs; [|discriminate].
      destruct (step t2) as [a'|] eqn:S2.
      * injection Hs as <-.
        destruct (IHt2 _ eq_refl) as (E & r & r' & Hok & Hp & Hr & Hq).
        exists (EAppR t1 E), r, r'. cbn [plug ectx_ok]. rewrite V1, Hok, <- Hp, <- Hq. repeat split; auto.
      * destruct (is_value t2) eqn:V2; cbn [negb] in Hs; [|discriminate].
        destruct t1; try discriminate. injection Hs as <-.
        exists EHole, (TApp (TLam impl t1_1 t1_2) t2), (open t1_2 0 t2 0). repeat split; auto. now constructor.
  - (* let *)
    destruct ds as [|[ann d] rest].
    + injection Hs as <-. exists EHole, (TLet [] t), t. repeat split; auto. constructor.
    + inversion H as [|? ? [_ IHd] _]; subst. cbn [snd] in IHd.
      destruct (step d) as [d'|] eqn:Sd.
      * injection Hs as <-.
        destruct (IHd _ eq_refl) as (E & r & r' & Hok & Hp & Hr & Hq).
        exists (ELet ann E rest t), r, r'. cbn [plug ectx_ok]. rewrite Hok, <- Hp, <- Hq. repeat split; auto.
      * destruct (is_value d) eqn:Vd; cbn [negb] in Hs; [|discriminate]. injection Hs as <-.
        exists EHole, (TLet ((ann, d) :: rest) t), (group_unfold ann d rest t). repeat split; auto. now constructor.
  - (* neg *)
    destruct (step t) as [a'|] eqn:S1.
    + injection Hs as <-. destruct (IHt _ eq_refl) as (E & r & r' & Hok & Hp & Hr & Hq).
      exists (ENeg E), r, r'. cbn [plug ectx_ok]. rewrite Hok, <- Hp, <- Hq. repeat split; auto.
    + destruct t; try discriminate. injection Hs as <-.
      exists EHole, (TNeg (TLit z)), (TLit (- z)). repeat split; auto. constructor.
  - (* bin *)
    destruct (step t1) as [a'|] eqn:S1.
    + injection Hs as <-. destruct (IHt1 _ eq_refl) as (E & r & r' & Hok & Hp & Hr & Hq).
      exists (EBinL o E t2), r, r'. cbn [plug ectx_ok]. rewrite Hok, <- Hp, <- Hq. repeat split; auto.
    + destruct (is_value t1) eqn:V1; cbn [negb] in Hs; [|discriminate].
      destruct (step t2) as [b'|] eqn:S2.
      * injection Hs as <-.
        destruct (IHt2 _ eq_refl) as (E & r & r' & Hok & Hp & Hr & Hq).
        exists (EBinR o t1 E), r, r'. cbn [plug ectx_ok]. rewrite V1, Hok, <- Hp, <- Hq. repeat split; auto.
      * destruct t1; try discriminate. destruct t2; try discriminate.
        exists EHole, (TBin o (TLit z) (TLit z0)), t'. repeat split; auto. now constructor.
  - (* if *)
    destruct (step t1) as [c'|] eqn:S1.
    + injection Hs as <-. destruct (IHt1 _ eq_refl) as (E & r & r' & Hok & Hp & Hr & Hq).
      exists (EIf E t2 t3), r, r'. cbn [plug ectx_ok]. rewrite Hok, <- Hp, <- Hq. repeat split; auto.
    + destruct t1; try discriminate; injection Hs as <-.
      * exists EHole, (TIf TTrue t2 t3), t2. repeat split; auto. constructor.
      * exists EHole, (TIf TFalse t2 t3), t3. repeat split; auto. constructor.
Qed.

Theorem step_iff_cbv t t' : step t = Some t' <-> cbv t t'.
Proof. split; [apply step_cbv | apply cbv_step]. Qed.

Corollary cbv_deterministic t a b : cbv t a -> cbv t b -> a = b.
Proof. intros Ha Hb. apply cbv_step in Ha, Hb. congruence. Qed.
Ltac fin k := eexists EHole, _, k; split; [reflexivity | split; [reflexivity | split; [constructor; auto | reflexivity]]].

Theorem stuck_classified : forall t, step t = None -> is_value t = false ->
  exists E r k, ectx_ok E = true /\ t = plug E r /\ stuck_redex r k /\ stuck_reason t = Some k.
Proof.
  induction t using term_ind'; intros Hs Hv; cbn [is_value] in Hv; try discriminate.
  - exists EHole, (THole i s), UnfilledHole. repeat split; constructor.
  - exists EHole, (TVar i), FreeVariable. repeat split; constructor.
  - (* app *) cbn [step] in Hs. cbn [stuck_reason].
    destruct (step t1) eqn:S1; [discriminate|].
    destruct (is_value t1) eqn:V1; cbn [negb] in *.
    + destruct (step t2) eqn:S2; [discriminate|].
      destruct (is_value t2) eqn:V2; cbn [negb] in *.
      * destruct t1; try discriminate;
          fin NotAFunction.
      * destruct (IHt2 eq_refl eq_refl) as (E & r & k & Hok & Hp & Hr & Hq).
        exists (EAppR t1 E), r, k. cbn [plug ectx_ok]. rewrite V1, Hok, <- Hp. repeat split; auto.
    + destruct (IHt1 eq_refl eq_refl) as (E & r & k & Hok & Hp & Hr & Hq).
      exists (EAppL E t2), r, k. cbn [plug ectx_ok]. rewrite Hok, <- Hp. repeat split; auto.
  - (* let *) cbn [step] in Hs. cbn [stuck_reason].
    destruct ds as [|[ann d] rest]; [discriminate|].
    inversion H as [|? ? [_ IHd] _]; subst. cbn [snd] in IHd.
    destruct (step d) eqn:Sd; [discriminate|].
    destruct (is_value d) eqn:Vd; cbn [negb] in *; [discriminate|].
    destruct (IHd eq_refl eq_refl) as (E & r & k & Hok & Hp & Hr & Hq).
    exists (ELet ann E rest t), r, k. cbn [plug ectx_ok]. rewrite Hok, <- Hp. repeat split; auto.
  - (* neg *) cbn [step] in Hs. cbn [stuck_reason].
    destruct (step t) eqn:S1; [discriminate|].
    destruct (is_value t) eqn:V1; cbn [negb].
    + destruct t; try discriminate;
        fin NotAnInteger.
    + destruct (IHt eq_refl eq_refl) as (E & r & k & Hok & Hp & Hr & Hq).
      exists (ENeg E), r, k. cbn [plug ectx_ok]. rewrite Hok, <- Hp. repeat split; auto.
  - (* bin *) cbn [step] in Hs. cbn [stuck_reason].
    destruct (step t1) eqn:S1; [discriminate|].
    destruct (is_value t1) eqn:V1; cbn [negb] in *.
    + destruct (step t2) eqn:S2; [discriminate|].
      destruct (is_value t2) eqn:V2; cbn [negb] in *.
      * destruct t1; try discriminate; destruct t2; try discriminate;
          try (fin NotAnInteger).
        (* both literals: only division by zero is stuck *)
        destruct o; cbn [arith] in Hs; try discriminate.
        destruct (z0 =? 0)%Z eqn:Z0; [|discriminate]. apply Z.eqb_eq in Z0; subst.
        exists EHole, (TBin OQuot (TLit z) (TLit 0)), DivByZero. repeat split; constructor.
      * destruct (IHt2 eq_refl eq_refl) as (E & r & k & Hok & Hp & Hr & Hq).
        exists (EBinR o t1 E), r, k. cbn [plug ectx_ok]. rewrite V1, Hok, <- Hp. repeat split; auto.
    + destruct (IHt1 eq_refl eq_refl) as (E & r & k & Hok & Hp & Hr & Hq).
      exists (EBinL o E t2), r, k. cbn [plug ectx_ok]. rewrite Hok, <- Hp. repeat split; auto.
  - (* if *) cbn [step] in Hs. cbn [stuck_reason].
    destruct (step t1) eqn:S1; [discriminate|].
    destruct (is_value t1) eqn:V1; cbn [negb].
    + destruct t1; try discriminate;
        fin NotABoolean.
    + destruct (IHt1 eq_refl eq_refl) as (E & r & k & Hok & Hp & Hr & Hq).
      exists (EIf E t2 t3), r, k. cbn [plug ectx_ok]. rewrite Hok, <- Hp. repeat split; auto.
Qed.

(* the recorded finding D7 in the model: x = y + 1; y = 2; x   is stuck on a free (group) variable *)
Example d7_witness :
  let p := TLet [(TInt, TBin OSum (TVar 0) (TLit 1)); (TInt, TLit 2)] (TVar 1) in
  step p = None /\ is_value p = false /\ stuck_reason p = Some FreeVariable.
Proof. vm_compute. repeat split; reflexivity. Qed.

(* factorial 5 through a recursive single-definition group:
   fact = (n : int) => if n == 0 then 1 else n * fact (n - 1); fact 5 *)
Definition fact_prog :=
  TLet [(TPi false TInt TInt,
         TLam false TInt (TIf (TBin OEq (TVar 0) (TLit 0)) (TLit 1)
                              (TBin OProd (TVar 0) (TApp (TVar 1) (TBin ODiff (TVar 0) (TLit 1))))))]
       (TApp (TVar 0) (TLit 5)).
Example fact5 : evaluate 200 fact_prog = Some (TLit 120).
Proof. vm_compute. reflexivity. Qed.

(* mutual recursion: even/odd, then a non-value definition using them *)
Definition evenodd :=
  TLet [ (TPi false TInt TBool, TLam false TInt (TIf (TBin OEq (TVar 0) (TLit 0)) TTrue (TApp (TVar 2) (TBin ODiff (TVar 0) (TLit 1)))));
         (TPi false TInt TBool, TLam false TInt (TIf (TBin OEq (TVar 0) (TLit 0)) TFalse (TApp (TVar 3) (TBin ODiff (TVar 0) (TLit 1)))));
         (TBool, TApp (TVar 2) (TLit 7)) ]
       (TVar 0).
Example even7 : evaluate 400 evenodd = Some TFalse.
Proof. vm_compute. reflexivity. Qed.

(* the three possible outcomes of running a term: still running, a value, or stuck at a classified redex *)
Lemma evaluate_end : forall f t v, evaluate f t = Some v -> step v = None.
Proof.
  induction f as [|f IH]; intros t v H; cbn [evaluate] in H; [discriminate|].
  destruct (step t) as [t'|] eqn:S; [eauto|]. now injection H as <-.
Qed.

Theorem outcome_classified : forall f t,
  evaluate f t = None \/
  exists v, evaluate f t = Some v /\
    (is_value v = true \/
     exists E r k, ectx_ok E = true /\ v = plug E r /\ stuck_redex r k /\ stuck_reason v = Some k).
Proof.
  intros f t. destruct (evaluate f t) as [v|] eqn:Ev; [right|left; reflexivity].
  exists v. split; [reflexivity|]. destruct (is_value v) eqn:V; [left; reflexivity|right].
  apply stuck_classified; [eapply evaluate_end; eauto | exact V].
Qed.
