(* Completeness of the checker model (Model B, tcB) against the verified checker `infer`, continued:
   definition groups nested ANYWHERE (in definitions, annotations, function bodies, arguments).

   F   hr on all hole-free terms: reduction and hr commute with substitution for a bound variable AND for
       the variable of a single-definition group (red_openG, hr_openG, hr_group_exit) - uses
       ConflLaws.open_open / let_whnf_body_open and PGPres.lwb_single / unfold_first_0.
   G   NO FALSE REJECTION for every hole-free program whose groups have at most one definition
       (sg of PreservationGroups.v), with conv at the root: tcB_accepts_sg, tcB_no_false_rejection.
   H   fuel sufficiency of let_substB / whnfB / syn_eqB / unifyB / the function-type probe on fully
       solved terms WITH groups (the _suffG lemmas; unifyB_completeG).
   I   COMPLETENESS given that the codomains of applied function types normalise (inferT), same class:
       tcB_total_sg, tcB_complete_hole_free; goal A: tcB_*_spine_conv.
   J   the widest class: groups of ANY size on the spine, sg-terms below them (spineG; relation hrg).
   K   the exact relation:  inferT accepts  <->  infer accepts /\ tcB answers
       (inferT_iff_infer_and_tcB_answers), and the two separating programs (checkers_incomparable):
       ex_div (infer accepts, tcB diverges) and ex_shortcut (tcB accepts, infer diverges).
   Not covered: groups with SEVERAL definitions nested below the spine - at the exit of such a group neither hr
   nor, in general, conv between the two reported types is preserved (cf. PGCounter.v). *)
From Coq Require Import List ZArith Lia Bool Arith Relations.
Import ListNotations.
Require Import Gram.Model.Term Gram.Model.DeBruijn Gram.Model.Eval Gram.Model.ModelB Gram.Spec.Typing Gram.Oracle.Infer.
Require Import Gram.Proofs.ConflLaws Gram.Proofs.PGConv Gram.Proofs.PGCtx Gram.Proofs.PGTyping Gram.Proofs.PGPres Gram.Proofs.PreservationGroups.
Require Import Gram.Proofs.DeBruijnLaws Gram.Proofs.CtxProofs Gram.Proofs.WeakenProofs Gram.Proofs.RewriteProofs Gram.Proofs.WeakenInfer.
Require Import Gram.Proofs.ModelBProofs Gram.Proofs.InferSound Gram.Proofs.ConvProofs
               Gram.Proofs.ConvSym Gram.Proofs.StoreProofs Gram.Proofs.StoreTc Gram.Proofs.ModelBHoleFree.
Require Import Gram.Proofs.RewriteTyping.
Require Import Gram.Proofs.TcSoundHF Gram.Proofs.TcCompleteHF.


(* ====================================================================================== *)
(* F.  hr on all hole-free terms: substitution for a bound variable and for the variable of a *)
(*     single-definition group                                                               *)
(* ====================================================================================== *)
Definition nodefsL := TcCompleteHF.nodefs.

Lemma lookup_def_mid (L : ctx) (e : entry) (G : ctx) : snd (fst e) <= 1 ->
  lookup_def (L ++ e :: G) (length L) = option_map (fun d => ushift d 0 (length L)) (lookup_def (e :: G) 0).
Proof.
  intros Ho. destruct e as [[T0 o] od]. cbn [fst snd] in Ho.
  unfold lookup_def. rewrite nth_error_app2 by lia. rewrite Nat.sub_diag. cbn [nth_error].
  destruct od as [d|]; cbn [option_map]; [|reflexivity]. f_equal. rewrite ushift_add. f_equal. lia.
Qed.

Lemma red_openG (L : ctx) (e : entry) (G L' : ctx) s : nodefsL L -> nodefsL L' -> length L' = length L -> snd (fst e) <= 1 ->
  wf_offsets G -> ldefs_hf (L ++ e :: G) -> hole_free s = true ->
  (forall d0, lookup_def (e :: G) 0 = Some d0 -> red G s (open d0 0 s 0)) ->
  forall t t1, red (L ++ e :: G) t t1 -> hole_free t = true ->
    red (L' ++ G) (open t (length L) s (length L)) (open t1 (length L) s (length L)).
Proof.
  intros HL HL' Hlen Ho WG HF Hs Hbase t t1 H. pose (i := length L). assert (Ei : i = length L) by reflexivity. fold i.
  induction H as [im d b a | j d Hd | ds b | z | o1 y1 y2 r Ha | a b | a b
                  | f0 f0' a Hr IH | a a' Hr IH | o1 a a' b Hr IH | o1 a b b' Hr IH | c c' a b Hr IH];
    intros Hf; cbn [open].
  - (* beta *)
    cbn [hole_free] in Hf. apply andb_true_iff in Hf. destruct Hf as [Hf Hfa]. apply andb_true_iff in Hf. destruct Hf as [_ Hfb].
    rewrite (ConflLaws.open_open0 b a i s i) by assumption. apply r_beta.
  - (* delta *)
    pose proof (HF _ _ Hd) as Hfd.
    destruct (Nat.lt_trichotomy j i) as [Hlt|[->|Hgt]].
    + exfalso. rewrite (lookup_def_nodefs_lt L _ j HL) in Hd by exact Hlt. discriminate.
    + (* the substituted variable itself *)
      rewrite Nat.eqb_refl. unfold i in *. rewrite (lookup_def_mid L e G Ho) in Hd.
      destruct (lookup_def (e :: G) 0) as [d0|] eqn:E0; [|discriminate]. cbn [option_map] in Hd. injection Hd as <-.
      rewrite hole_free_ushift in Hfd.
      pose proof (red_insert L' G WG [] s (open d0 0 s 0) wf_offsets_nil Hs (Hbase _ eq_refl)) as R.
      rewrite insert_ctx_nil in R. cbn [length] in R. rewrite Hlen in R.
      rewrite (ConflLaws.ushift_open_below d0 0 s 0 0 (length L)) in R by (auto; lia). exact R.
    + unfold lookup_def in Hd. rewrite nth_error_app2 in Hd by (subst i; lia).
      replace (j - length L) with (S (j - S i)) in Hd by (subst i; lia). cbn [nth_error] in Hd.
      destruct (nth_error G (j - S i)) as [[[T1 k0] [d0|]]|] eqn:En; try discriminate. injection Hd as <-.
      pose proof (WG _ _ _ _ En) as Hk.
      assert (Nat.eqb j i = false) as -> by (apply Nat.eqb_neq; lia).
      assert (open_idx j i = j - 1) as -> by (unfold open_idx; destruct (Nat.ltb_spec i j); lia).
      replace (j + 1 - k0) with (S (j - k0)) in * by lia.
      rewrite hole_free_ushift in Hfd.
      rewrite open_shift_cancel by (auto; lia).
      apply r_delta. unfold lookup_def. rewrite nth_error_app2 by lia.
      replace (j - 1 - length L') with (j - S i) by (subst i; lia). rewrite En. do 2 f_equal. lia.
  - (* let *)
    change (hf_defs ds && hole_free b = true) in Hf. apply andb_true_iff in Hf. destruct Hf as [Hfd Hfb].
    rewrite <- (let_whnf_body_open ds b i s i) by assumption.
    change (map (fun p : term * term => let '(a, d) := p in (open a (length ds + i) s (length ds + i), open d (length ds + i) s (length ds + i))) ds)
      with (map (opp (length ds + i) s (length ds + i)) ds).
    apply r_let.
  - apply r_neg.
  - rewrite (open_arith_res _ _ _ _ _ _ _ Ha). now apply r_bin.
  - apply r_if_t.
  - apply r_if_f.
  - cbn [hole_free] in Hf. apply andb_true_iff in Hf. destruct Hf. apply r_app1. auto.
  - cbn [hole_free] in Hf. apply r_neg1. auto.
  - cbn [hole_free] in Hf. apply andb_true_iff in Hf. destruct Hf. apply r_bin1. auto.
  - cbn [hole_free] in Hf. apply andb_true_iff in Hf. destruct Hf. apply r_bin2. auto.
  - cbn [hole_free] in Hf. apply andb_true_iff in Hf. destruct Hf as [Hf _]. apply andb_true_iff in Hf. destruct Hf. apply r_if1. auto.
Qed.

Lemma red_hfG G a b : ldefs_hf G -> red G a b -> hole_free a = true -> hole_free b = true.
Proof. exact (red_hf G a b). Qed.

Lemma ldefs_hf_bind_appG (L : ctx) (e : entry) (G : ctx) a : ldefs_hf (L ++ e :: G) -> ldefs_hf (bind L a ++ e :: G).
Proof. apply ldefs_hf_bind_app. Qed.

Lemma hr_openG s : hole_free s = true ->
  forall Gb t t', hr Gb t t' ->
  forall (L : ctx) (e : entry) (G L' : ctx), Gb = L ++ e :: G -> nodefsL L -> nodefsL L' -> length L' = length L ->
    snd (fst e) <= 1 -> wf_offsets G -> ldefs_hf Gb ->
    (forall d0, lookup_def (e :: G) 0 = Some d0 -> red G s (open d0 0 s 0)) ->
    hole_free t = true ->
    hr (L' ++ G) (open t (length L) s (length L)) (open t' (length L) s (length L)).
Proof.
  intros Hs Gb t t' H. induction H as [Gb t | Gb t t1 t' Hr H IH | Gb im a a' b b' Ha IHa Hb IHb];
    intros L e G L' -> HL HL' Hlen Ho WG HF Hbase Hf.
  - apply hr_refl.
  - eapply hr_step; [eapply red_openG; eassumption|].
    eapply IH; try eassumption; [reflexivity | eapply red_hfG; eassumption].
  - cbn [hole_free] in Hf. apply andb_true_iff in Hf. destruct Hf as [Hfa Hfb].
    cbn [open]. apply hr_pi; [eapply IHa; try eassumption; reflexivity|].
    change (bind (L' ++ G) (open a (length L) s (length L))) with (bind L' (open a (length L) s (length L)) ++ G).
    change (S (length L)) with (length (bind L a)).
    eapply IHb; try eassumption.
    + reflexivity.
    + constructor; [reflexivity | exact HL].
    + constructor; [reflexivity | exact HL'].
    + cbn [bind length]. now rewrite Hlen.
    + now apply ldefs_hf_bind_appG.
Qed.

(* substituting the argument for the bound variable (application rule) *)
Corollary hr_open_bound G A B B' x : hole_free x = true -> wf_offsets G -> ctx_hf G -> hole_free B = true ->
  hr (bind G A) B B' -> hr G (open B 0 x 0) (open B' 0 x 0).
Proof.
  intros Hx WG HG Hf H.
  refine (hr_openG x Hx _ _ _ H [] (A, 0, None) G [] eq_refl (Forall_nil _) (Forall_nil _) eq_refl (Nat.le_0_l 1) WG _ _ Hf).
  - apply ctx_hf_ldefs. apply ctx_hf_bind. exact HG.
  - intros d0 E. discriminate E.
Qed.

(* leaving a group with at most one definition *)
Lemma proj1g_red G a d : hole_free a = true -> hole_free d = true -> red G (proj1g a d) (open d 0 (proj1g a d) 0).
Proof.
  intros Ha Hd. rewrite <- unfold_first_0, <- lwb_single by assumption. unfold proj1g. apply r_let.
Qed.

Lemma group_type_nil B : group_type 0 [] 0 0 B = B.
Proof. reflexivity. Qed.

Theorem hr_group_exit G ds B B' : length ds <= 1 -> WeakenProofs.hf_defs ds = true -> wf_offsets G -> ctx_hf G ->
  hole_free B = true -> hr (enter ds G) B B' ->
  hr G (group_type (length ds) ds 0 (length ds) B) (group_type (length ds) ds 0 (length ds) B').
Proof.
  intros Hl Hf WG HG HfB H. destruct ds as [|[a d] [|]]; [exact H | | cbn [length] in Hl; lia].
  cbn [length]. rewrite !group_type_one.
  cbn [WeakenProofs.hf_defs forallb] in Hf. rewrite andb_true_r in Hf. apply andb_true_iff in Hf. destruct Hf as [Ha Hd].
  change (enter [(a, d)] G) with ((a, 1, Some d) :: G) in H.
  refine (hr_openG (proj1g a d) _ _ _ _ H [] (a, 1, Some d) G [] eq_refl (Forall_nil _) (Forall_nil _) eq_refl (le_n 1) WG _ _ HfB).
  - unfold proj1g. cbn [hole_free forallb]. now rewrite Ha, Hd.
  - apply ctx_hf_ldefs. constructor; [exact Hd | exact HG].
  - intros d0 E. unfold lookup_def in E. cbn [nth_error Nat.add Nat.sub] in E. injection E as <-.
    rewrite ushift_zero. now apply proj1g_red.
Qed.

(* ====================================================================================== *)
(* G.  No false rejection for ALL hole-free programs whose groups have at most one definition *)
(*     (predicate sg of PreservationGroups: groups nested anywhere - in definitions,          *)
(*     annotations, function bodies, arguments)                                              *)
(* ====================================================================================== *)
Definition gzF (Gz : ctx) : Prop := wf_offsets Gz /\ ctx_hf' Gz.

Lemma gzF_nil : gzF [].
Proof. split; [apply wf_offsets_nil | constructor]. Qed.
Lemma gzF_bind Gz d : gzF Gz -> hole_free d = true -> gzF (bind Gz d).
Proof. intros (H1 & H2) Hf. split; [now apply wf_offsets_bind | now apply ctx_hf'_bind]. Qed.
Lemma gzF_enter ds Gz : gzF Gz -> ModelBHoleFree.hf_defs ds = true -> gzF (enter ds Gz).
Proof. intros (H1 & H2) Hf. split; [now apply wf_offsets_enter | apply ctx_hf'_enter; assumption]. Qed.

Definition sg_defs (l : list (term * term)) : bool := forallb (fun p : term * term => let '(a, d) := p in sg a && sg d) l.
Lemma sg_defs_cons a d r : sg_defs ((a, d) :: r) = true <-> sg a = true /\ sg d = true /\ sg_defs r = true.
Proof. unfold sg_defs. cbn [forallb]. rewrite !andb_true_iff. tauto. Qed.

Lemma ctx_relF_lookup_none G D Gz i : ctx_relF G D Gz -> nth_error G i = None -> lookup_ty Gz i = None.
Proof.
  intros (H1 & _) E. unfold lookup_ty.
  assert (N : nth_error Gz i = None).
  { revert i E. induction H1 as [|x y l l' _ _ IHl]; intros [|i] E; cbn [nth_error] in *; try discriminate; try reflexivity.
    apply IHl. exact E. }
  now rewrite N.
Qed.

Lemma tc_defs_acceptsF f' (tc : storeB -> term -> option tcres) D' Gz' (inf : term -> option term) (cv : term -> term -> option bool) :
  (forall s0 t r, hole_free t = true -> sg t = true -> tc s0 t = Some r -> forall T, inf t = Some T ->
     b_errs r = [] /\ exists T', zk (b_st r) (b_ty r) T' /\ hr Gz' T T') ->
  (forall a b, is_true (cv a b) = true -> exists f0, convb f0 Gz' a b = Some true) ->
  hf_dctx D' -> same_defs Gz' (G_of_D D') ->
  forall l s0 es l' s1 es1, ModelBHoleFree.hf_defs l = true -> sg_defs l = true -> infer_defs inf cv l = true ->
    tc_defs f' tc D' l s0 es = Some (l', s1, es1) -> es1 = es.
Proof.
  intros Htc Hcv HD HS. induction l as [|[a d] rest IHl]; intros s0 es l' s1 es1 Hf Hn HI H; cbn [tc_defs] in H.
  - now injection H as _ _ <-.
  - apply hf_defs_cons in Hf. destruct Hf as (Ha & Hd & Hr). apply sg_defs_cons in Hn. destruct Hn as (Na & Nd & Nr).
    cbn [infer_defs] in HI.
    destruct (inf a) as [Ta|] eqn:I1; [|discriminate]. destruct (inf d) as [Td|] eqn:I2; [|discriminate].
    apply andb_true_iff in HI. destruct HI as [HI HI3]. apply andb_true_iff in HI. destruct HI as [C1 C2].
    destruct (Hcv _ _ C1) as [n1 C1']. destruct (Hcv _ _ C2) as [n2 C2'].
    destruct (tc s0 a) as [ra|] eqn:E1; [|discriminate].
    destruct (expectB f' (b_st ra) D' (b_ty ra) TType ENotType (es ++ b_errs ra)) as [[s0a es0]|] eqn:X1; [|discriminate].
    destruct (tc s0a d) as [rd|] eqn:E2; [|discriminate].
    destruct (expectB f' (b_st rd) D' (b_ty rd) a EAnnotation (es0 ++ b_errs rd)) as [[s2 es2]|] eqn:X2; [|discriminate].
    destruct (tc_defs f' tc D' rest s2 es2) as [[[rest' s3] es3]|] eqn:E3; [|discriminate].
    injection H as _ _ <-.
    destruct (Htc _ _ _ Ha Na E1 _ I1) as (Hea & Ta' & Za & Ra).
    destruct (convb_hr _ _ _ _ _ C1' _ _ Ra (hr_refl _ _)) as [m1 K1].
    destruct (expectB_ok _ _ _ _ _ _ _ _ _ _ _ _ _ HS HD Za (zk_type _) X1 K1) as [-> ->].
    destruct (Htc _ _ _ Hd Nd E2 _ I2) as (Hed & Td' & Zd & Rd).
    destruct (convb_hr _ _ _ _ _ C2' _ _ Rd (hr_refl _ _)) as [m2 K2].
    destruct (expectB_ok _ _ _ _ _ _ _ _ _ _ _ _ _ HS HD Zd (zk_refl_hf _ _ Ha) X2 K2) as [-> ->].
    rewrite (IHl _ _ _ _ _ Hr Nr HI3 E3). now rewrite Hea, Hed, !app_nil_r.
Qed.

Ltac sg_split :=
  repeat match goal with
  | H : sg (_ _) = true |- _ => progress cbn [sg] in H
  | H : _ && _ = true |- _ => apply andb_true_iff in H; destruct H
  end.

Theorem tcB_accepts_sg : forall f' s G D t r Gz,
  ctx_relF G D Gz -> gzF Gz -> hole_free t = true -> sg t = true ->
  tcB f' s G D t = Some r -> forall f T, infer f Gz t = Some T ->
  b_errs r = [] /\ exists T', zk (b_st r) (b_ty r) T' /\ hr Gz T T'.
Proof.
  induction f' as [|f' IH]; intros s G D t r Gz HC HZ Hf Hn H f T HI; [discriminate|].
  pose proof HC as (HC1 & HS & HD). pose proof HZ as (WZ & HZf).
  destruct f as [|f]; [discriminate|].
  destruct t; [| | | | | | | | | | | rewrite tcB_let_eq in H; cbv zeta in H; rewrite infer_let_eq in HI | | | ];
    try (cbn [tcB] in H); cbn [hole_free] in Hf; try (cbn [infer] in HI).
  - discriminate Hf.
  - injection H as <-. injection HI as <-. split; [reflexivity|]. exists TType. split; [constructor | apply hr_refl].
  - injection H as <-. injection HI as <-. split; [reflexivity|]. exists TType. split; [constructor | apply hr_refl].
  - injection H as <-. injection HI as <-. split; [reflexivity|]. exists TType. split; [constructor | apply hr_refl].
  - injection H as <-. injection HI as <-. split; [reflexivity|]. exists TBool. split; [constructor | apply hr_refl].
  - injection H as <-. injection HI as <-. split; [reflexivity|]. exists TBool. split; [constructor | apply hr_refl].
  - injection H as <-. injection HI as <-. split; [reflexivity|]. exists TInt. split; [constructor | apply hr_refl].
  - (* var *)
    destruct (nth_error G i) as [[T0 off]|] eqn:En.
    + destruct (ushiftB f' s T0 0 (i + 1 - off)) as [T1|] eqn:U; [|discriminate]. injection H as <-. cbn [b_st b_ty b_errs].
      destruct (ctx_relF_lookup _ _ _ _ _ _ HC En) as (L & HfT). rewrite L in HI. injection HI as <-.
      apply (ushiftB_hole_free _ _ _ _ _ _ HfT) in U. subst T1.
      split; [reflexivity|]. eexists. split; [apply zk_refl_hf; now rewrite hf_ushift | apply hr_refl].
    + rewrite (ctx_relF_lookup_none _ _ _ _ HC En) in HI. discriminate.
  - (* lam *)
    apply andb_true_iff in Hf; destruct Hf as [Hf1 Hf2]. sg_split.
    destruct (infer f Gz t1) as [Td|] eqn:I1; [|discriminate].
    destruct (is_true (convb f Gz Td TType)) eqn:C1; [|discriminate]. apply is_true_some in C1.
    destruct (infer f (bind Gz t1) t2) as [B|] eqn:I2; [|discriminate]. injection HI as <-.
    destruct (tcB f' s G D t1) as [rd|] eqn:E1; [|discriminate].
    destruct (expectB f' (b_st rd) D (b_ty rd) TType ENotType (b_errs rd)) as [[s1 es1]|] eqn:X1; [|discriminate].
    destruct (tcB f' s1 ((b_elab rd, 0) :: G) (None :: D) t2) as [rb|] eqn:E2; [|discriminate].
    injection H as <-. cbn [b_errs b_st b_ty].
    destruct (IH _ _ _ _ _ _ HC HZ Hf1 ltac:(assumption) E1 _ _ I1) as (Hed & Td' & Zd & Rd).
    destruct (convb_hr _ _ _ _ _ C1 _ _ Rd (hr_refl _ _)) as [n1 C1'].
    destruct (expectB_ok _ _ _ _ _ _ _ _ _ _ _ _ _ HS HD Zd (zk_type _) X1 C1') as [-> ->].
    rewrite (tcB_elab_identity _ _ _ _ _ _ E1) in *.
    destruct (IH _ _ _ _ _ _ (ctx_relF_bind _ _ _ _ HC Hf1) (gzF_bind _ _ HZ Hf1) Hf2 ltac:(assumption) E2 _ _ I2) as (Heb & B' & Zb & Rb).
    split; [now rewrite Hed, Heb|]. exists (TPi impl t1 B').
    split; [constructor; [apply zk_refl_hf; exact Hf1 | exact Zb] | apply hr_pi; [apply hr_refl | exact Rb]].
  - (* pi *)
    apply andb_true_iff in Hf; destruct Hf as [Hf1 Hf2]. sg_split.
    destruct (infer f Gz t1) as [Td|] eqn:I1; [|discriminate].
    destruct (is_true (convb f Gz Td TType)) eqn:C1; [|discriminate]. apply is_true_some in C1.
    destruct (infer f (bind Gz t1) t2) as [Tb|] eqn:I2; [|discriminate].
    destruct (is_true (convb f (bind Gz t1) Tb TType)) eqn:C2; [|discriminate]. apply is_true_some in C2. injection HI as <-.
    destruct (tcB f' s G D t1) as [rd|] eqn:E1; [|discriminate].
    destruct (expectB f' (b_st rd) D (b_ty rd) TType ENotType (b_errs rd)) as [[s1 es1]|] eqn:X1; [|discriminate].
    destruct (tcB f' s1 ((b_elab rd, 0) :: G) (None :: D) t2) as [rb|] eqn:E2; [|discriminate].
    destruct (expectB f' (b_st rb) (None :: D) (b_ty rb) TType ENotType (es1 ++ b_errs rb)) as [[s2 es2]|] eqn:X2; [|discriminate].
    injection H as <-. cbn [b_errs b_st b_ty].
    destruct (IH _ _ _ _ _ _ HC HZ Hf1 ltac:(assumption) E1 _ _ I1) as (Hed & Td' & Zd & Rd).
    destruct (convb_hr _ _ _ _ _ C1 _ _ Rd (hr_refl _ _)) as [n1 C1'].
    destruct (expectB_ok _ _ _ _ _ _ _ _ _ _ _ _ _ HS HD Zd (zk_type _) X1 C1') as [-> ->].
    rewrite (tcB_elab_identity _ _ _ _ _ _ E1) in *.
    pose proof (ctx_relF_bind _ _ _ _ HC Hf1) as HC'. pose proof HC' as (_ & HS' & HD').
    destruct (IH _ _ _ _ _ _ HC' (gzF_bind _ _ HZ Hf1) Hf2 ltac:(assumption) E2 _ _ I2) as (Heb & Tb' & Zb & Rb).
    destruct (convb_hr _ _ _ _ _ C2 _ _ Rb (hr_refl _ _)) as [n2 C2'].
    destruct (expectB_ok _ _ _ _ _ _ _ _ _ _ _ _ _ HS' HD' Zb (zk_type _) X2 C2') as [-> ->].
    split; [now rewrite Hed, Heb|]. exists TType. split; [constructor | apply hr_refl].
  - (* app *)
    apply andb_true_iff in Hf; destruct Hf as [Hf1 Hf2]. sg_split.
    destruct (infer f Gz t1) as [F|] eqn:I1; [|discriminate].
    destruct (whnf f Gz F) as [[ ? ? | | | | | | ? | ? | ? ? ? | im A B | ? ? | ? ? | ? | ? ? ? | ? ? ? ]|] eqn:W1; try discriminate.
    destruct im; try discriminate.
    destruct (infer f Gz t2) as [A0|] eqn:I2; [|discriminate].
    destruct (is_true (convb f Gz A0 A)) eqn:C1; [|discriminate]. apply is_true_some in C1. injection HI as <-.
    destruct (tcB f' s G D t1) as [ra|] eqn:E1; [|discriminate].
    unfold fresh_hole, salloc in H.
    set (s0 := b_st ra) in *. set (s2 := (s0 ++ [None]) ++ [None]) in *.
    destruct (expectB f' s2 D (TPi false (THole (length s0) 0) (THole (length (s0 ++ [None])) 0)) (b_ty ra) ENotFunction (b_errs ra))
      as [[s3 es3]|] eqn:X1; [|discriminate].
    destruct (tcB f' s3 G D t2) as [rb|] eqn:E2; [|discriminate].
    destruct (expectB f' (b_st rb) D (THole (length s0) 0) (b_ty rb) EArgument (es3 ++ b_errs rb)) as [[s4 es4]|] eqn:X2; [|discriminate].
    destruct (openB f' s4 (THole (length (s0 ++ [None])) 0) 0 (b_elab rb) 0) as [[T s5]|] eqn:O; [|discriminate].
    injection H as <-. cbn [b_errs b_st b_ty].
    destruct (IH _ _ _ _ _ _ HC HZ Hf1 ltac:(assumption) E1 _ _ I1) as (Hea & F' & Zf & Rf). fold s0 in Zf.
    pose proof (infer_hole_free _ _ _ _ HZf Hf1 I1) as HfF.
    pose proof (whnf_hole_free _ _ _ _ (ctx_hf'_hf _ HZf) HfF W1) as HfW.
    cbn [hole_free] in HfW. apply andb_true_iff in HfW; destruct HfW as [HfA HfB].
    destruct (hr_whnf _ _ _ Rf _ _ W1) as (f1 & u' & W1' & Hu).
    destruct (hrw_pi_inv _ _ _ _ _ Hu) as (A' & B' & -> & RA & RB).
    assert (G02 : grow s0 s2) by (eapply grow_trans; apply grow_snoc).
    assert (Zf2 : zk s2 (b_ty ra) F') by (eapply zk_ext; [apply grow_ext; exact G02 | exact Zf]).
    assert (L2 : length s2 = S (S (length s0))) by (unfold s2; rewrite !app_length; cbn [length]; lia).
    assert (L1 : length (s0 ++ [None]) = S (length s0)) by (rewrite app_length; cbn [length]; lia).
    assert (Hn_dom : sget s2 (length s0) = None) by (rewrite (grow_sget _ _ _ G02); apply sget_ge; lia).
    assert (Hn_cod : sget s2 (length (s0 ++ [None])) = None).
    { unfold s2. rewrite (grow_sget _ _ _ (grow_snoc (s0 ++ [None]))). apply sget_ge. lia. }
    assert (Hne : length s0 <> length (s0 ++ [None])) by lia.
    assert (Hl1 : length s0 < length s2) by lia. assert (Hl2 : length (s0 ++ [None]) < length s2) by lia.
    unfold expectB in X1.
    destruct (unifyB f' s2 D (TPi false (THole (length s0) 0) (THole (length (s0 ++ [None])) 0)) (b_ty ra)) as [[ok1 s3']|] eqn:U1; [|discriminate].
    injection X1 as <- <-.
    destruct (unifyB_pi_fresh_dec _ _ _ _ _ _ _ _ _ Gz _ _ _ HD HS Hne Hn_dom Hn_cod Hl1 Hl2 Zf2 W1' U1)
      as (-> & X23 & A2 & B2 & ZA & ZB & SA & SB).
    assert (RA2 : hr Gz A A2) by (eapply hr_rstar_r; eassumption).
    assert (RB2 : hr (bind Gz A) B B2).
    { eapply hr_rstar_r; [exact RB|]. eapply rstar_same_defs; [|exact SB]. apply same_defs_bind, same_defs_refl. }
    destruct (IH _ _ _ _ _ _ HC HZ Hf2 ltac:(assumption) E2 _ _ I2) as (Heb & A0' & Za0 & Ra0).
    pose proof (tcB_ext _ _ _ _ _ _ E2) as X3b.
    destruct (convb_hr _ _ _ _ _ C1 _ _ Ra0 RA2) as [n1 C1']. rewrite convb_sym in C1'.
    destruct (expectB_ok _ _ _ _ _ _ _ _ _ _ _ _ _ HS HD (zk_ext _ _ _ _ X3b ZA) Za0 X2 C1') as [-> ->].
    rewrite (tcB_elab_identity _ _ _ _ _ _ E2) in O.
    destruct (openB_zk _ _ _ _ _ _ _ _ _ _ (zk_ext _ _ _ _ X3b ZB) (zk_refl_hf _ _ Hf2) O) as [-> ZT].
    split; [now rewrite Hea, Heb|]. exists (open B2 0 t2 0). split; [exact ZT|].
    apply (hr_open_bound Gz A); auto. exact (ctx_hf'_hf _ HZf).
  - (* let *)
    change (ModelBHoleFree.hf_defs defs && hole_free t = true) in Hf. apply andb_true_iff in Hf. destruct Hf as [Hfd Hfb].
    cbn [sg] in Hn. apply andb_true_iff in Hn. destruct Hn as [Hn Hsb]. apply andb_true_iff in Hn. destruct Hn as [Hl Hsd].
    apply Nat.leb_le in Hl. change (sg_defs defs = true) in Hsd.
    set (G' := pushG (length defs) defs 0 G) in *. set (D' := pushD (length defs) defs 0 D) in *.
    assert (HC' : ctx_relF G' D' (enter defs Gz)) by (apply ctx_relF_push; assumption).
    assert (HZ' : gzF (enter defs Gz)) by (apply gzF_enter; assumption).
    pose proof HC' as (_ & HS' & HD').
    destruct (infer_defs (infer f (enter defs Gz)) (convb f (enter defs Gz)) defs) eqn:ID; [|discriminate].
    destruct (infer f (enter defs Gz) t) as [B|] eqn:IB; [|discriminate]. injection HI as <-.
    destruct (tc_defs f' (fun s0 d => tcB f' s0 G' D' d) D' defs s []) as [[[ds' s1] es1]|] eqn:E1; [|discriminate].
    destruct (tcB f' s1 G' D' t) as [rb|] eqn:E2; [|discriminate].
    destruct (group_typeB f' (length defs) ds' 0 (length defs) (b_ty rb) (b_st rb)) as [[T' s3]|] eqn:E3; [|discriminate].
    injection H as <-. cbn [b_errs b_st b_ty].
    assert (ds' = defs).
    { eapply tc_defs_id'; [|exact E1]. intros s0 d r0 Hr. exact (tcB_elab_identity _ _ _ _ _ _ Hr). }
    subst ds'.
    assert (es1 = []).
    { eapply (tc_defs_acceptsF f' _ D' (enter defs Gz) (infer f (enter defs Gz)) (convb f (enter defs Gz))); try eassumption.
      - intros s0 t0 r0 Hf0 Hn0 Hr0 T0 HI0. exact (IH _ _ _ _ _ _ HC' HZ' Hf0 Hn0 Hr0 _ _ HI0).
      - intros a b C. exists f. now apply is_true_some. }
    subst es1.
    destruct (IH _ _ _ _ _ _ HC' HZ' Hfb Hsb E2 _ _ IB) as (Heb & B' & Zb & Rb).
    destruct (group_typeB_zk _ _ _ Hfd _ _ _ _ _ _ _ Zb E3) as [-> ZT].
    split; [now rewrite Heb|]. eexists. split; [exact ZT|].
    apply hr_group_exit; auto; [exact (ctx_hf'_hf _ HZf) | exact (infer_hole_free _ _ _ _ (proj2 HZ') Hfb IB)].
  - (* neg *)
    sg_split.
    destruct (infer f Gz t) as [Ta|] eqn:I1; [|discriminate].
    destruct (is_true (convb f Gz Ta TInt)) eqn:C1; [|discriminate]. apply is_true_some in C1. injection HI as <-.
    destruct (tcB f' s G D t) as [ra|] eqn:E1; [|discriminate].
    destruct (expectB f' (b_st ra) D (b_ty ra) TInt ENotInt (b_errs ra)) as [[s1 es1]|] eqn:X1; [|discriminate].
    injection H as <-. cbn [b_errs b_st b_ty].
    destruct (IH _ _ _ _ _ _ HC HZ Hf Hn E1 _ _ I1) as (Hea & Ta' & Za & Ra).
    destruct (convb_hr _ _ _ _ _ C1 _ _ Ra (hr_refl _ _)) as [n1 C1'].
    destruct (expectB_ok _ _ _ _ _ _ _ _ _ _ _ _ _ HS HD Za (zk_int _) X1 C1') as [-> ->].
    split; [exact Hea|]. exists TInt. split; [constructor | apply hr_refl].
  - (* bin *)
    apply andb_true_iff in Hf; destruct Hf as [Hf1 Hf2]. sg_split.
    destruct (infer f Gz t1) as [Ta|] eqn:I1; [|discriminate].
    destruct (infer f Gz t2) as [Tb|] eqn:I2; [|discriminate].
    destruct (is_true (convb f Gz Ta TInt) && is_true (convb f Gz Tb TInt)) eqn:C; [|discriminate].
    apply andb_true_iff in C; destruct C as [C1 C2]. apply is_true_some in C1. apply is_true_some in C2. injection HI as <-.
    destruct (tcB f' s G D t1) as [ra|] eqn:E1; [|discriminate].
    destruct (expectB f' (b_st ra) D (b_ty ra) TInt ENotInt (b_errs ra)) as [[s1 es1]|] eqn:X1; [|discriminate].
    destruct (tcB f' s1 G D t2) as [rb|] eqn:E2; [|discriminate].
    destruct (expectB f' (b_st rb) D (b_ty rb) TInt ENotInt (es1 ++ b_errs rb)) as [[s2 es2]|] eqn:X2; [|discriminate].
    injection H as <-. cbn [b_errs b_st b_ty].
    destruct (IH _ _ _ _ _ _ HC HZ Hf1 ltac:(assumption) E1 _ _ I1) as (Hea & Ta' & Za & Ra).
    destruct (convb_hr _ _ _ _ _ C1 _ _ Ra (hr_refl _ _)) as [n1 C1'].
    destruct (expectB_ok _ _ _ _ _ _ _ _ _ _ _ _ _ HS HD Za (zk_int _) X1 C1') as [-> ->].
    destruct (IH _ _ _ _ _ _ HC HZ Hf2 ltac:(assumption) E2 _ _ I2) as (Heb & Tb' & Zb & Rb).
    destruct (convb_hr _ _ _ _ _ C2 _ _ Rb (hr_refl _ _)) as [n2 C2'].
    destruct (expectB_ok _ _ _ _ _ _ _ _ _ _ _ _ _ HS HD Zb (zk_int _) X2 C2') as [-> ->].
    split; [now rewrite Hea, Heb|]. exists (bin_ty o). split; [apply zk_bin_ty | apply hr_refl].
  - (* if *)
    apply andb_true_iff in Hf; destruct Hf as [Hf12 Hf3]. apply andb_true_iff in Hf12; destruct Hf12 as [Hf1 Hf2]. sg_split.
    destruct (infer f Gz t1) as [Tc|] eqn:I1; [|discriminate].
    destruct (infer f Gz t2) as [Ta|] eqn:I2; [|discriminate].
    destruct (infer f Gz t3) as [Tb|] eqn:I3; [|discriminate].
    destruct (is_true (convb f Gz Tc TBool) && is_true (convb f Gz Tb Ta)) eqn:C; [|discriminate].
    apply andb_true_iff in C; destruct C as [C1 C2]. apply is_true_some in C1. apply is_true_some in C2. injection HI as <-.
    destruct (tcB f' s G D t1) as [rc|] eqn:E1; [|discriminate].
    destruct (expectB f' (b_st rc) D (b_ty rc) TBool ENotBool (b_errs rc)) as [[s1 es1]|] eqn:X1; [|discriminate].
    destruct (tcB f' s1 G D t2) as [ra|] eqn:E2; [|discriminate].
    destruct (tcB f' (b_st ra) G D t3) as [rb|] eqn:E3; [|discriminate].
    destruct (expectB f' (b_st rb) D (b_ty ra) (b_ty rb) EBranches (es1 ++ b_errs ra ++ b_errs rb)) as [[s2 es2]|] eqn:X2; [|discriminate].
    injection H as <-. cbn [b_errs b_st b_ty].
    destruct (IH _ _ _ _ _ _ HC HZ Hf1 ltac:(assumption) E1 _ _ I1) as (Hec & Tc' & Zc & Rc).
    destruct (convb_hr _ _ _ _ _ C1 _ _ Rc (hr_refl _ _)) as [n1 C1'].
    destruct (expectB_ok _ _ _ _ _ _ _ _ _ _ _ _ _ HS HD Zc (zk_bool _) X1 C1') as [-> ->].
    destruct (IH _ _ _ _ _ _ HC HZ Hf2 ltac:(assumption) E2 _ _ I2) as (Hea & Ta' & Za & Ra).
    destruct (IH _ _ _ _ _ _ HC HZ Hf3 ltac:(assumption) E3 _ _ I3) as (Heb & Tb' & Zb & Rb).
    pose proof (tcB_ext _ _ _ _ _ _ E3) as Xab.
    destruct (convb_hr _ _ _ _ _ C2 _ _ Rb Ra) as [n2 C2']. rewrite convb_sym in C2'.
    destruct (expectB_ok _ _ _ _ _ _ _ _ _ _ _ _ _ HS HD (zk_ext _ _ _ _ Xab Za) Zb X2 C2') as [-> ->].
    split; [now rewrite Hec, Hea, Heb|]. exists Ta'. split; [exact (zk_ext _ _ _ _ Xab Za) | exact Ra].
Qed.

(* ====================================================================================== *)
(* H.  Fuel sufficiency on fully solved terms WITH groups                                    *)
(* ====================================================================================== *)

(* ---------- the group loop of the normaliser ---------- *)
Lemma subst_defs_suff s n i unf unfu : zk s unf unfu ->
  forall l lu j, zkds s l lu -> exists f l', subst_defs f n i unf l j s = Some (l', s) /\ zkds s l' (open_from j i (n - 1 - i) unfu lu).
Proof.
  intros Hu. induction l as [|[a d] rest IHl]; intros lu j Hz; apply zkds_inv in Hz.
  - subst lu. exists 0, []. split; [reflexivity | constructor].
  - destruct Hz as (a' & d' & r' & -> & Ha & Hd & Hr). destruct (IHl _ (S j) Hr) as (f3 & l3 & E3 & Z3).
    cbn [open_from]. destruct (Nat.ltb j i) eqn:Lt.
    + exists f3, ((a, d) :: l3). split; [cbn [subst_defs]; now rewrite Lt, E3 | constructor; assumption].
    + destruct (openB_suff s a a' unf unfu (n - 1 - i) 0 Ha Hu) as [f1 O1].
      destruct (openB_suff s d d' unf unfu (n - 1 - i) 0 Hd Hu) as [f2 O2].
      set (N := Nat.max f1 (Nat.max f2 f3)). assert (L1 : f1 <= N) by lia. assert (L2 : f2 <= N) by lia. assert (L3 : f3 <= N) by lia.
      exists N. eexists. split.
      * cbn [subst_defs]. rewrite Lt, (openB_mono _ _ _ _ _ _ _ _ L1 O1), (openB_mono _ _ _ _ _ _ _ _ L2 O2).
        rewrite (subst_defs_mono _ _ _ _ _ L3 _ _ _ _ E3). reflexivity.
      * constructor; [| |exact Z3]; apply zk_refl_hf; apply hf_open; eauto using zk_hf.
Qed.

Theorem let_substB_suff s n : forall k i ds dsu body bu, n - i = k -> zkds s ds dsu -> zk s body bu ->
  exists f r, let_substB f s n i ds body = Some r.
Proof.
  induction k as [|k IH]; intros i ds dsu body bu Hk Hds Hb.
  - exists 1. eexists. cbn [let_substB]. assert (Nat.leb n i = true) as -> by (apply Nat.leb_le; lia). reflexivity.
  - assert (Hlt : Nat.leb n i = false) by (apply Nat.leb_gt; lia).
    pose proof (zkds_nth _ _ _ Hds i) as Hn.
    destruct (nth_error ds i) as [[ann def]|] eqn:En.
    2:{ exists 1. eexists. cbn [let_substB]. rewrite Hlt, En. reflexivity. }
    destruct Hn as (annu & defu & En' & Ha & Hd).
    destruct (ushiftB_suff s ann annu 0 1 Ha) as [f1 U1]. destruct (ushiftB_suff s def defu 0 1 Hd) as [f2 U2].
    assert (Hv : zk s (TVar 0) (TVar 0)) by constructor.
    assert (Z1 : zk s (ushift annu 0 1) (ushift annu 0 1)) by (apply zk_refl_hf; rewrite hf_ushift; exact (zk_hf _ _ _ Ha)).
    assert (Z2 : zk s (ushift defu 0 1) (ushift defu 0 1)) by (apply zk_refl_hf; rewrite hf_ushift; exact (zk_hf _ _ _ Hd)).
    destruct (openB_suff s _ _ (TVar 0) (TVar 0) (S (n - 1 - i)) 0 Z1 Hv) as [f3 O3].
    destruct (openB_suff s _ _ (TVar 0) (TVar 0) (S (n - 1 - i)) 0 Z2 Hv) as [f4 O4].
    set (a2 := open (ushift annu 0 1) (S (n - 1 - i)) (TVar 0) 0) in *.
    set (d2 := open (ushift defu 0 1) (S (n - 1 - i)) (TVar 0) 0) in *.
    assert (Hfa2 : hole_free a2 = true) by (apply hf_open; [rewrite hf_ushift; exact (zk_hf _ _ _ Ha) | reflexivity]).
    assert (Hfd2 : hole_free d2 = true) by (apply hf_open; [rewrite hf_ushift; exact (zk_hf _ _ _ Hd) | reflexivity]).
    assert (Hx : zk s (TLet [(a2, d2)] (TVar 0)) (TLet [(a2, d2)] (TVar 0))).
    { apply zk_refl_hf. cbn [hole_free forallb]. now rewrite Hfa2, Hfd2. }
    destruct (openB_suff s def defu _ _ (n - 1 - i) 0 Hd Hx) as [f5 O5].
    set (unf := open defu (n - 1 - i) (TLet [(a2, d2)] (TVar 0)) 0) in *.
    assert (Hfu : hole_free unf = true) by (apply hf_open; [exact (zk_hf _ _ _ Hd) | exact (zk_hf _ _ _ Hx)]).
    assert (Zu : zk s unf unf) by (apply zk_refl_hf; exact Hfu).
    destruct (subst_defs_suff s n i unf unf Zu ds dsu 0 Hds) as (f6 & ds' & E6 & Z6).
    destruct (openB_suff s body bu unf unf (n - 1 - i) 0 Hb Zu) as [f7 O7].
    assert (Zb' : zk s (open bu (n - 1 - i) unf 0) (open bu (n - 1 - i) unf 0)).
    { apply zk_refl_hf. apply hf_open; [exact (zk_hf _ _ _ Hb) | exact Hfu]. }
    destruct (IH (S i) ds' _ _ _ ltac:(lia) Z6 Zb') as (f8 & r & E8).
    set (N := Nat.max f1 (Nat.max f2 (Nat.max f3 (Nat.max f4 (Nat.max f5 (Nat.max f6 (Nat.max f7 f8))))))).
    assert (L1 : f1 <= N) by lia. assert (L2 : f2 <= N) by lia. assert (L3 : f3 <= N) by lia. assert (L4 : f4 <= N) by lia.
    assert (L5 : f5 <= N) by lia. assert (L6 : f6 <= N) by lia. assert (L7 : f7 <= N) by lia. assert (L8 : f8 <= N) by lia.
    exists (S N), r. cbn [let_substB]. rewrite Hlt, En.
    rewrite (ushiftB_mono _ _ _ _ _ _ _ L1 U1), (ushiftB_mono _ _ _ _ _ _ _ L2 U2).
    rewrite (openB_mono _ _ _ _ _ _ _ _ L3 O3), (openB_mono _ _ _ _ _ _ _ _ L4 O4). fold a2 d2.
    rewrite (openB_mono _ _ _ _ _ _ _ _ L5 O5). fold unf.
    change (match subst_defs N n i unf ds 0 s with
            | Some z => let '(ds', s4) := z in
                match openB N s4 body (n - 1 - i) unf 0 with
                | Some pb => let '(body', s5) := pb in let_substB N s5 n (S i) ds' body'
                | None => None end
            | None => None end = Some r).
    rewrite (subst_defs_mono _ _ _ _ _ L6 _ _ _ _ E6), (openB_mono _ _ _ _ _ _ _ _ L7 O7).
    exact (let_substB_mono _ _ _ _ _ _ _ _ L8 E8).
Qed.

(* ---------- weak-head normalisation, all terms ---------- *)
Theorem whnfB_suffG0 : forall f D u wu, whnf f (G_of_D D) u = Some wu -> hf_dctx D ->
  forall s t, zk s t u -> exists f' r, whnfB f' s D t = Some r.
Proof.
  induction f as [|f IH]; intros D u wu W HD s t Hz; [discriminate|].
  assert (NH : forall t', zk s t' u -> is_hole t' = false -> exists f' r, whnfB f' s D t' = Some r).
  { clear t Hz. intros t Hz Nh.
    destruct t; try discriminate Nh; apply zk_inv in Hz; cbn beta iota in Hz;
      try (exists 1; eexists; reflexivity).
    - (* var *) subst u. cbn [whnf] in W. rewrite lookup_def_G_of_D in W.
      destruct (nth_error D i) as [[[d0 off]|]|] eqn:En; try (exists 1; eexists; cbn [whnfB]; rewrite En; reflexivity).
      pose proof (hf_dctx_lookup _ _ _ _ HD En) as Hd0.
      destruct (ushiftB_suff s d0 d0 0 (i + 1 - off) (zk_refl_hf _ _ Hd0)) as [f1 U].
      assert (Hfd : hole_free (ushift d0 0 (i + 1 - off)) = true) by now rewrite hf_ushift.
      destruct (IH _ _ _ W HD s _ (zk_refl_hf _ _ Hfd)) as (f2 & r & E2).
      exists (S (Nat.max f1 f2)), r. cbn [whnfB]. rewrite En.
      rewrite (ushiftB_mono _ _ _ _ _ _ _ (Nat.le_max_l f1 f2) U). exact (whnfB_mono _ _ _ _ _ _ (Nat.le_max_r f1 f2) E2).
    - (* app *)
      destruct Hz as (u1 & u2 & -> & H1 & H2).
      cbn [whnf] in W. destruct (whnf f (G_of_D D) u1) as [au|] eqn:W1; [|discriminate].
      destruct (IH _ _ _ W1 HD s _ H1) as (f1 & [a' s1] & E1).
      destruct (whnfB_zk _ _ _ _ _ _ _ HD H1 E1) as (-> & Nha & au' & Za & W1').
      pose proof (whnf_det _ _ _ _ _ _ W1' W1) as ->.
      destruct a'; try discriminate Nha; apply zk_inv in Za; cbn beta iota in Za;
        repeat match goal with X : exists _, _ |- _ => destruct X | X : _ /\ _ |- _ => destruct X end; subst;
        try (exists (S f1); eexists; cbn [whnfB]; rewrite E1; reflexivity).
      (* lambda *)
      match goal with Hb : zk s a'2 ?bu |- _ =>
        destruct (openB_suff s a'2 bu t2 u2 0 0 Hb H2) as [f2 O];
        assert (Hfo : hole_free (open bu 0 u2 0) = true) by (apply hf_open; [exact (zk_hf _ _ _ Hb) | exact (zk_hf _ _ _ H2)]);
        destruct (IH _ _ _ W HD s _ (zk_refl_hf _ _ Hfo)) as (f3 & r & E3)
      end.
      set (N := Nat.max f1 (Nat.max f2 f3)). assert (L1 : f1 <= N) by lia. assert (L2 : f2 <= N) by lia. assert (L3 : f3 <= N) by lia.
      exists (S N), r. cbn [whnfB]. rewrite (whnfB_mono _ _ _ _ _ _ L1 E1), (openB_mono _ _ _ _ _ _ _ _ L2 O).
      exact (whnfB_mono _ _ _ _ _ _ L3 E3).
    - (* let *)
      destruct Hz as (dsu & bu & -> & Hds & Hb). cbn [whnf] in W.
      destruct (let_substB_suff s (length defs) (length defs) 0 defs dsu t bu (Nat.sub_0_r _) Hds Hb) as (f1 & [b' s1] & E1).
      destruct (let_substB_zk_body _ _ _ _ _ _ _ _ Hds Hb E1) as [-> Zb].
      destruct (IH _ _ _ W HD s _ Zb) as (f2 & r & E2).
      exists (S (Nat.max f1 f2)), r. cbn [whnfB]. rewrite (let_substB_mono _ _ _ _ _ _ _ _ (Nat.le_max_l f1 f2) E1).
      exact (whnfB_mono _ _ _ _ _ _ (Nat.le_max_r f1 f2) E2).
    - (* neg *)
      destruct Hz as (u1 & -> & H1). cbn [whnf] in W.
      destruct (whnf f (G_of_D D) u1) as [au|] eqn:W1; [|discriminate].
      destruct (IH _ _ _ W1 HD s _ H1) as (f1 & [a' s1] & E1).
      exists (S f1). eexists. cbn [whnfB]. rewrite E1. reflexivity.
    - (* bin *)
      destruct Hz as (u1 & u2 & -> & H1 & H2).
      cbn [whnf] in W. destruct (whnf f (G_of_D D) u1) as [au|] eqn:W1; [|discriminate].
      destruct (whnf f (G_of_D D) u2) as [bu|] eqn:W2; [|destruct au; discriminate].
      destruct (IH _ _ _ W1 HD s _ H1) as (f1 & [a' s1] & E1).
      destruct (whnfB_zk _ _ _ _ _ _ _ HD H1 E1) as (-> & _).
      destruct (IH _ _ _ W2 HD s _ H2) as (f2 & [b' s2] & E2).
      exists (S (Nat.max f1 f2)). eexists. cbn [whnfB].
      rewrite (whnfB_mono _ _ _ _ _ _ (Nat.le_max_l f1 f2) E1), (whnfB_mono _ _ _ _ _ _ (Nat.le_max_r f1 f2) E2). reflexivity.
    - (* if *)
      destruct Hz as (u1 & u2 & u3 & -> & H1 & H2 & H3).
      cbn [whnf] in W. destruct (whnf f (G_of_D D) u1) as [cu|] eqn:W1; [|discriminate].
      destruct (IH _ _ _ W1 HD s _ H1) as (f1 & [c' s1] & E1).
      destruct (whnfB_zk _ _ _ _ _ _ _ HD H1 E1) as (-> & Nhc & cu' & Zc & W1').
      pose proof (whnf_det _ _ _ _ _ _ W1' W1) as ->.
      destruct c'; try discriminate Nhc; apply zk_inv in Zc; cbn beta iota in Zc;
        repeat match goal with X : exists _, _ |- _ => destruct X | X : _ /\ _ |- _ => destruct X end; subst;
        try (exists (S f1); eexists; cbn [whnfB]; rewrite E1; reflexivity).
      + destruct (IH _ _ _ W HD s _ H2) as (f2 & r & E2).
        exists (S (Nat.max f1 f2)), r. cbn [whnfB]. rewrite (whnfB_mono _ _ _ _ _ _ (Nat.le_max_l f1 f2) E1).
        exact (whnfB_mono _ _ _ _ _ _ (Nat.le_max_r f1 f2) E2).
      + destruct (IH _ _ _ W HD s _ H3) as (f2 & r & E2).
        exists (S (Nat.max f1 f2)), r. cbn [whnfB]. rewrite (whnfB_mono _ _ _ _ _ _ (Nat.le_max_l f1 f2) E1).
        exact (whnfB_mono _ _ _ _ _ _ (Nat.le_max_r f1 f2) E2). }
  destruct (is_hole t) eqn:Ht; [|exact (NH _ Hz Ht)].
  destruct t; try discriminate Ht. pose proof Hz as Hz'. apply zk_inv in Hz'. destruct Hz' as (sol & u0 & Es & Hs & ->).
  destruct (ushiftB_suff s sol u0 0 shift Hs) as [f1 U].
  assert (Hfu : hole_free (ushift u0 0 shift) = true) by (rewrite hf_ushift; exact (zk_hf _ _ _ Hs)).
  destruct (NH _ (zk_refl_hf _ _ Hfu) (hf_not_hole _ Hfu)) as (f2 & r & E2).
  exists (S (Nat.max f1 f2)), r. cbn [whnfB]. rewrite Es.
  rewrite (ushiftB_mono _ _ _ _ _ _ _ (Nat.le_max_l f1 f2) U). exact (whnfB_mono _ _ _ _ _ _ (Nat.le_max_r f1 f2) E2).
Qed.

(* with the shape of the result, in any context with the same definitions *)
Corollary whnfB_suffG f G D u wu s t :
  same_defs G (G_of_D D) -> hf_dctx D -> zk s t u -> whnf f G u = Some wu ->
  exists f' w, whnfB f' s D t = Some (w, s) /\ zk s w wu /\ is_hole w = false.
Proof.
  intros HG HD Hz W. rewrite (whnf_same_defs f G (G_of_D D) u HG) in W.
  destruct (whnfB_suffG0 _ _ _ _ W HD s t Hz) as (f' & [w s'] & E).
  destruct (whnfB_zk _ _ _ _ _ _ _ HD Hz E) as (-> & Nh & wu' & Zw & W').
  pose proof (whnf_det _ _ _ _ _ _ W' W) as ->. exists f', w. auto.
Qed.


(* ---------- the syntactic shortcut, all terms ---------- *)
Theorem syn_eqB_suffG s : forall au a b bu, zk s a au -> zk s b bu ->
  exists f, syn_eqB f s a b <> None.
Proof.
  induction au using term_ind'; intros a b bu Ha Hb;
    destruct (headB_suff _ _ _ Ha) as (f1 & a' & E1 & Za & Na); destruct (headB_suff _ _ _ Hb) as (f2 & b' & E2 & Zb & Nb);
    pose proof (zk_nonhole_inv _ _ _ Za Na) as Sa; cbn beta iota in Sa; try contradiction.
  1-7: subst a'; destruct b'; try discriminate Nb;
       (exists (S (Nat.max f1 f2)); se_heads E1 E2 (Nat.max f1 f2) (Nat.le_max_l f1 f2) (Nat.le_max_r f1 f2); discriminate).
  - (* lam *) destruct Sa as (d0 & b0 & -> & Zd & Zb0).
    destruct b'; try discriminate Nb;
      try (exists (S (Nat.max f1 f2)); se_heads E1 E2 (Nat.max f1 f2) (Nat.le_max_l f1 f2) (Nat.le_max_r f1 f2); discriminate).
    apply zk_inv in Zb. destruct Zb as (d2 & b2 & -> & _ & Zb2).
    destruct (IHau2 _ _ _ Zb0 Zb2) as (f3 & HE3). destruct (syn_eqB f3 s _ _) as [r|] eqn:E3 in HE3; [clear HE3|contradiction].
    set (N := Nat.max f1 (Nat.max f2 f3)). assert (L1 : f1 <= N) by lia. assert (L2 : f2 <= N) by lia. assert (L3 : f3 <= N) by lia.
    exists (S N). se_heads E1 E2 N L1 L2. rewrite (syn_eqB_mono _ _ _ _ _ _ L3 E3). destruct (Bool.eqb _ _); discriminate.
  - (* pi *) destruct Sa as (d0 & b0 & -> & Zd & Zb0).
    destruct b'; try discriminate Nb;
      try (exists (S (Nat.max f1 f2)); se_heads E1 E2 (Nat.max f1 f2) (Nat.le_max_l f1 f2) (Nat.le_max_r f1 f2); discriminate).
    apply zk_inv in Zb. destruct Zb as (d2 & b2 & -> & Zd2 & Zb2).
    destruct (IHau1 _ _ _ Zd Zd2) as (f3 & HE3). destruct (syn_eqB f3 s _ _) as [r3|] eqn:E3 in HE3; [clear HE3|contradiction]. destruct (IHau2 _ _ _ Zb0 Zb2) as (f4 & HE4). destruct (syn_eqB f4 s _ _) as [r4|] eqn:E4 in HE4; [clear HE4|contradiction].
    set (N := Nat.max f1 (Nat.max f2 (Nat.max f3 f4))).
    assert (L1 : f1 <= N) by lia. assert (L2 : f2 <= N) by lia. assert (L3 : f3 <= N) by lia. assert (L4 : f4 <= N) by lia.
    exists (S N). se_heads E1 E2 N L1 L2. rewrite (syn_eqB_mono _ _ _ _ _ _ L3 E3), (syn_eqB_mono _ _ _ _ _ _ L4 E4).
    destruct (Bool.eqb _ _); [destruct r3|]; discriminate.
  - (* app *) destruct Sa as (d0 & b0 & -> & Zd & Zb0).
    destruct b'; try discriminate Nb;
      try (exists (S (Nat.max f1 f2)); se_heads E1 E2 (Nat.max f1 f2) (Nat.le_max_l f1 f2) (Nat.le_max_r f1 f2); discriminate).
    apply zk_inv in Zb. destruct Zb as (d2 & b2 & -> & Zd2 & Zb2).
    destruct (IHau1 _ _ _ Zd Zd2) as (f3 & HE3). destruct (syn_eqB f3 s _ _) as [r3|] eqn:E3 in HE3; [clear HE3|contradiction]. destruct (IHau2 _ _ _ Zb0 Zb2) as (f4 & HE4). destruct (syn_eqB f4 s _ _) as [r4|] eqn:E4 in HE4; [clear HE4|contradiction].
    set (N := Nat.max f1 (Nat.max f2 (Nat.max f3 f4))).
    assert (L1 : f1 <= N) by lia. assert (L2 : f2 <= N) by lia. assert (L3 : f3 <= N) by lia. assert (L4 : f4 <= N) by lia.
    exists (S N). se_heads E1 E2 N L1 L2. rewrite (syn_eqB_mono _ _ _ _ _ _ L3 E3), (syn_eqB_mono _ _ _ _ _ _ L4 E4).
    destruct r3; discriminate.
  - (* let *) destruct Sa as (ds0 & b0 & -> & Zds & Zb0).
    destruct b'; try discriminate Nb;
      try (exists (S (Nat.max f1 f2)); se_heads E1 E2 (Nat.max f1 f2) (Nat.le_max_l f1 f2) (Nat.le_max_r f1 f2); discriminate).
    apply zk_inv in Zb. destruct Zb as (ds2u & b2u & -> & Zds2 & Zb2).
    destruct (IHau _ _ _ Zb0 Zb2) as (f3 & HE3). destruct (syn_eqB f3 s _ _) as [r3|] eqn:E3 in HE3; [clear HE3|contradiction].
    assert (DS : exists f4 r4, syn_eqB_defs f4 s ds0 defs = Some r4).
    { clear - H Zds Zds2. revert defs ds2u Zds2. induction Zds as [|xa xd xa' xd' xr xr' Hxa Hxd Hxr IHr]; intros l2 l2u Z2.
      - exists 0, true. reflexivity.
      - inversion H as [|? ? [_ IHd] Hrest]; subst. cbn [snd] in IHd.
        destruct l2 as [|[ya yd] yr]; [exists 0, true; reflexivity|].
        apply zkds_inv in Z2. destruct Z2 as (ya' & yd' & yr' & -> & _ & Hyd & Hyr).
        destruct (IHd _ _ _ Hxd Hyd) as (g1 & HG1). destruct (syn_eqB g1 s xd yd) as [q1|] eqn:G1; [clear HG1|contradiction].
        destruct (IHr Hrest _ _ Hyr) as (g2 & q2 & G2).
        exists (Nat.max g1 g2). cbn [syn_eqB_defs]. rewrite (syn_eqB_mono _ _ _ _ _ _ (Nat.le_max_l g1 g2) G1).
        destruct q1; [|eexists; reflexivity].
        exists q2. exact (syn_eqB_defs_mono g2 (Nat.max g1 g2) s (fun a b r => syn_eqB_mono _ _ s a b r (Nat.le_max_r g1 g2)) _ _ _ G2). }
    destruct DS as (f4 & r4 & E4).
    set (N := Nat.max f1 (Nat.max f2 (Nat.max f3 f4))).
    assert (L1 : f1 <= N) by lia. assert (L2 : f2 <= N) by lia. assert (L3 : f3 <= N) by lia. assert (L4 : f4 <= N) by lia.
    exists (S N). se_heads E1 E2 N L1 L2.
    destruct (Nat.eqb (length ds0) (length defs)); [|discriminate].
    change (match syn_eqB_defs N s ds0 defs with
            | Some u => if u then syn_eqB N s b0 b' else Some false | None => None end <> None).
    rewrite (syn_eqB_defs_mono f4 N s (fun a b r => syn_eqB_mono _ _ s a b r L4) _ _ _ E4), (syn_eqB_mono _ _ _ _ _ _ L3 E3).
    destruct r4; discriminate.
  - (* neg *) destruct Sa as (d0 & -> & Zd).
    destruct b'; try discriminate Nb;
      try (exists (S (Nat.max f1 f2)); se_heads E1 E2 (Nat.max f1 f2) (Nat.le_max_l f1 f2) (Nat.le_max_r f1 f2); discriminate).
    apply zk_inv in Zb. destruct Zb as (d2 & -> & Zd2).
    destruct (IHau _ _ _ Zd Zd2) as (f3 & HE3). destruct (syn_eqB f3 s _ _) as [r3|] eqn:E3 in HE3; [clear HE3|contradiction].
    set (N := Nat.max f1 (Nat.max f2 f3)). assert (L1 : f1 <= N) by lia. assert (L2 : f2 <= N) by lia. assert (L3 : f3 <= N) by lia.
    exists (S N). se_heads E1 E2 N L1 L2. rewrite (syn_eqB_mono _ _ _ _ _ _ L3 E3). discriminate.
  - (* bin *) destruct Sa as (d0 & b0 & -> & Zd & Zb0).
    destruct b'; try discriminate Nb;
      try (exists (S (Nat.max f1 f2)); se_heads E1 E2 (Nat.max f1 f2) (Nat.le_max_l f1 f2) (Nat.le_max_r f1 f2); discriminate).
    apply zk_inv in Zb. destruct Zb as (d2 & b2 & -> & Zd2 & Zb2).
    destruct (IHau1 _ _ _ Zd Zd2) as (f3 & HE3). destruct (syn_eqB f3 s _ _) as [r3|] eqn:E3 in HE3; [clear HE3|contradiction]. destruct (IHau2 _ _ _ Zb0 Zb2) as (f4 & HE4). destruct (syn_eqB f4 s _ _) as [r4|] eqn:E4 in HE4; [clear HE4|contradiction].
    set (N := Nat.max f1 (Nat.max f2 (Nat.max f3 f4))).
    assert (L1 : f1 <= N) by lia. assert (L2 : f2 <= N) by lia. assert (L3 : f3 <= N) by lia. assert (L4 : f4 <= N) by lia.
    exists (S N). se_heads E1 E2 N L1 L2. rewrite (syn_eqB_mono _ _ _ _ _ _ L3 E3), (syn_eqB_mono _ _ _ _ _ _ L4 E4).
    destruct (binop_eqbB _ _); [destruct r3|]; discriminate.
  - (* if *) destruct Sa as (c0 & d0 & b0 & -> & Zc & Zd & Zb0).
    destruct b'; try discriminate Nb;
      try (exists (S (Nat.max f1 f2)); se_heads E1 E2 (Nat.max f1 f2) (Nat.le_max_l f1 f2) (Nat.le_max_r f1 f2); discriminate).
    apply zk_inv in Zb. destruct Zb as (c2 & d2 & b2 & -> & Zc2 & Zd2 & Zb2).
    destruct (IHau1 _ _ _ Zc Zc2) as (f3 & HE3). destruct (syn_eqB f3 s _ _) as [r3|] eqn:E3 in HE3; [clear HE3|contradiction]. destruct (IHau2 _ _ _ Zd Zd2) as (f4 & HE4). destruct (syn_eqB f4 s _ _) as [r4|] eqn:E4 in HE4; [clear HE4|contradiction].
    destruct (IHau3 _ _ _ Zb0 Zb2) as (f5 & HE5). destruct (syn_eqB f5 s _ _) as [r5|] eqn:E5 in HE5; [clear HE5|contradiction].
    set (N := Nat.max f1 (Nat.max f2 (Nat.max f3 (Nat.max f4 f5)))).
    assert (L1 : f1 <= N) by lia. assert (L2 : f2 <= N) by lia. assert (L3 : f3 <= N) by lia. assert (L4 : f4 <= N) by lia.
    assert (L5 : f5 <= N) by lia.
    exists (S N). se_heads E1 E2 N L1 L2.
    rewrite (syn_eqB_mono _ _ _ _ _ _ L3 E3), (syn_eqB_mono _ _ _ _ _ _ L4 E4), (syn_eqB_mono _ _ _ _ _ _ L5 E5).
    destruct r3; [destruct r4|]; discriminate.
Qed.


(* ---------- unification, all terms ---------- *)
Theorem unifyB_suffG : forall f G au bu r, convb f G au bu = Some r ->
  forall s D a b, same_defs G (G_of_D D) -> hf_dctx D ->
  zk s a au -> zk s b bu -> exists f' r', unifyB f' s D a b = Some (r', s).
Proof.
  induction f as [|f IH]; intros G au bu r H s D a b HG HD Ha Hb; [discriminate|].
  destruct (syn_eqB_suffG s au a b bu Ha Hb) as (f1 & HE).
  destruct (syn_eqB f1 s a b) as [e|] eqn:Es; [clear HE|contradiction].
  destruct e.
  { exists (S f1), true. rewrite unifyB_S. unfold unify_body. now rewrite Es. }
  rewrite convb_S in H.
  destruct (whnf f G au) as [u|] eqn:Wa; [|discriminate]. destruct (whnf f G bu) as [v|] eqn:Wb; [|discriminate].
  destruct (whnfB_suffG _ _ _ _ _ s a HG HD Ha Wa) as (f2 & w1 & E2 & Z1 & Nh1).
  destruct (whnfB_suffG _ _ _ _ _ s b HG HD Hb Wb) as (f3 & w2 & E3 & Z2 & Nh2).
  assert (Key : exists f4 r', unify_head f4 (unifyB f4) s D w1 w2 = Some (r', s)).
  { clear Es E2 E3 Wa Wb Ha Hb.
    pose proof (zk_nonhole_inv _ _ _ Z1 Nh1) as S1. pose proof (zk_nonhole_inv _ _ _ Z2 Nh2) as S2.
    destruct u; try contradiction; destruct v; try contradiction; cbn beta iota in S1, S2; zk_shapes;
      try (exists 0; eexists; reflexivity); cbn [convb_head] in H.
    - (* lam *)
      destruct (Bool.eqb impl impl0) eqn:Ei; [|exists 0; eexists; cbv beta iota zeta delta [unify_head]; rewrite Ei; reflexivity].
      match goal with Hb1 : zk s ?b1 u2, Hb2 : zk s ?b2 v2 |- _ =>
        destruct (IH _ _ _ _ H s (None :: D) b1 b2 (same_defs_bind _ _ _ _ HG) (hf_dctx_cons_None _ HD) Hb1 Hb2) as (f4 & r4 & U4) end.
      exists f4, r4. cbv beta iota zeta delta [unify_head]. rewrite Ei. exact U4.
    - (* pi *)
      destruct (Bool.eqb impl impl0) eqn:Ei; [|exists 0; eexists; cbv beta iota zeta delta [unify_head]; rewrite Ei; reflexivity].
      unfold and3 in H. destruct (convb f G u1 v1) as [[|]|] eqn:C1; try discriminate H.
      + match goal with Hd1 : zk s ?d1 u1, Hd2 : zk s ?d2 v1, Hb1 : zk s ?b1 u2, Hb2 : zk s ?b2 v2 |- _ =>
          destruct (IH _ _ _ _ C1 s D d1 d2 HG HD Hd1 Hd2) as (f4 & r4 & U4);
          destruct (unifyB_zk_convb _ _ _ _ _ _ _ _ _ _ HG HD Hd1 Hd2 U4) as [_ K4]; pose proof (K4 _ _ C1) as E4; subst r4;
          destruct (IH _ _ _ _ H s (None :: D) b1 b2 (same_defs_bind _ _ _ _ HG) (hf_dctx_cons_None _ HD) Hb1 Hb2) as (f5 & r5 & U5) end.
        exists (Nat.max f4 f5), r5. cbv beta iota zeta delta [unify_head]. rewrite Ei.
        rewrite (unifyB_mono _ _ _ _ _ _ _ (Nat.le_max_l f4 f5) U4). exact (unifyB_mono _ _ _ _ _ _ _ (Nat.le_max_r f4 f5) U5).
      + match goal with Hd1 : zk s ?d1 u1, Hd2 : zk s ?d2 v1 |- _ =>
          destruct (IH _ _ _ _ C1 s D d1 d2 HG HD Hd1 Hd2) as (f4 & r4 & U4);
          destruct (unifyB_zk_convb _ _ _ _ _ _ _ _ _ _ HG HD Hd1 Hd2 U4) as [_ K4]; pose proof (K4 _ _ C1) as E4; subst r4 end.
        exists f4, false. cbv beta iota zeta delta [unify_head]. rewrite Ei, U4. reflexivity.
    - (* app *)
      unfold and3 in H. destruct (convb f G u1 v1) as [[|]|] eqn:C1; try discriminate H.
      + match goal with Hd1 : zk s ?d1 u1, Hd2 : zk s ?d2 v1, Hb1 : zk s ?b1 u2, Hb2 : zk s ?b2 v2 |- _ =>
          destruct (IH _ _ _ _ C1 s D d1 d2 HG HD Hd1 Hd2) as (f4 & r4 & U4);
          destruct (unifyB_zk_convb _ _ _ _ _ _ _ _ _ _ HG HD Hd1 Hd2 U4) as [_ K4]; pose proof (K4 _ _ C1) as E4; subst r4;
          destruct (IH _ _ _ _ H s D b1 b2 HG HD Hb1 Hb2) as (f5 & r5 & U5) end.
        exists (Nat.max f4 f5), r5. cbv beta iota zeta delta [unify_head].
        rewrite (unifyB_mono _ _ _ _ _ _ _ (Nat.le_max_l f4 f5) U4). exact (unifyB_mono _ _ _ _ _ _ _ (Nat.le_max_r f4 f5) U5).
      + match goal with Hd1 : zk s ?d1 u1, Hd2 : zk s ?d2 v1 |- _ =>
          destruct (IH _ _ _ _ C1 s D d1 d2 HG HD Hd1 Hd2) as (f4 & r4 & U4);
          destruct (unifyB_zk_convb _ _ _ _ _ _ _ _ _ _ HG HD Hd1 Hd2 U4) as [_ K4]; pose proof (K4 _ _ C1) as E4; subst r4 end.
        exists f4, false. cbv beta iota zeta delta [unify_head]. rewrite U4. reflexivity.
    - (* neg *)
      match goal with Hd1 : zk s ?d1 u, Hd2 : zk s ?d2 v |- _ =>
        destruct (IH _ _ _ _ H s D d1 d2 HG HD Hd1 Hd2) as (f4 & r4 & U4) end.
      exists f4, r4. exact U4.
    - (* bin *)
      replace (binop_eqb o o0) with (binop_eqbB o o0) in H by reflexivity.
      destruct (binop_eqbB o o0) eqn:Eo; [|exists 0; eexists; cbv beta iota zeta delta [unify_head]; rewrite Eo; reflexivity].
      unfold and3 in H. destruct (convb f G u1 v1) as [[|]|] eqn:C1; try discriminate H.
      + match goal with Hd1 : zk s ?d1 u1, Hd2 : zk s ?d2 v1, Hb1 : zk s ?b1 u2, Hb2 : zk s ?b2 v2 |- _ =>
          destruct (IH _ _ _ _ C1 s D d1 d2 HG HD Hd1 Hd2) as (f4 & r4 & U4);
          destruct (unifyB_zk_convb _ _ _ _ _ _ _ _ _ _ HG HD Hd1 Hd2 U4) as [_ K4]; pose proof (K4 _ _ C1) as E4; subst r4;
          destruct (IH _ _ _ _ H s D b1 b2 HG HD Hb1 Hb2) as (f5 & r5 & U5) end.
        exists (Nat.max f4 f5), r5. cbv beta iota zeta delta [unify_head]. rewrite Eo.
        rewrite (unifyB_mono _ _ _ _ _ _ _ (Nat.le_max_l f4 f5) U4). exact (unifyB_mono _ _ _ _ _ _ _ (Nat.le_max_r f4 f5) U5).
      + match goal with Hd1 : zk s ?d1 u1, Hd2 : zk s ?d2 v1 |- _ =>
          destruct (IH _ _ _ _ C1 s D d1 d2 HG HD Hd1 Hd2) as (f4 & r4 & U4);
          destruct (unifyB_zk_convb _ _ _ _ _ _ _ _ _ _ HG HD Hd1 Hd2 U4) as [_ K4]; pose proof (K4 _ _ C1) as E4; subst r4 end.
        exists f4, false. cbv beta iota zeta delta [unify_head]. rewrite Eo, U4. reflexivity.
    - (* if *)
      unfold and3 in H. destruct (convb f G u1 v1) as [[|]|] eqn:C1; try discriminate H.
      + destruct (convb f G u2 v2) as [[|]|] eqn:C2; try discriminate H.
        * match goal with Hc1 : zk s ?c1 u1, Hc2 : zk s ?c2 v1, Hd1 : zk s ?d1 u2, Hd2 : zk s ?d2 v2, Hb1 : zk s ?b1 u3, Hb2 : zk s ?b2 v3 |- _ =>
            destruct (IH _ _ _ _ C1 s D c1 c2 HG HD Hc1 Hc2) as (f4 & r4 & U4);
            destruct (unifyB_zk_convb _ _ _ _ _ _ _ _ _ _ HG HD Hc1 Hc2 U4) as [_ K4]; pose proof (K4 _ _ C1) as E4; subst r4;
            destruct (IH _ _ _ _ C2 s D d1 d2 HG HD Hd1 Hd2) as (f5 & r5 & U5);
            destruct (unifyB_zk_convb _ _ _ _ _ _ _ _ _ _ HG HD Hd1 Hd2 U5) as [_ K5]; pose proof (K5 _ _ C2) as E5; subst r5;
            destruct (IH _ _ _ _ H s D b1 b2 HG HD Hb1 Hb2) as (f6 & r6 & U6) end.
          set (N := Nat.max f4 (Nat.max f5 f6)). assert (L4 : f4 <= N) by lia. assert (L5 : f5 <= N) by lia. assert (L6 : f6 <= N) by lia.
          exists N, r6. cbv beta iota zeta delta [unify_head].
          rewrite (unifyB_mono _ _ _ _ _ _ _ L4 U4), (unifyB_mono _ _ _ _ _ _ _ L5 U5). exact (unifyB_mono _ _ _ _ _ _ _ L6 U6).
        * match goal with Hc1 : zk s ?c1 u1, Hc2 : zk s ?c2 v1, Hd1 : zk s ?d1 u2, Hd2 : zk s ?d2 v2 |- _ =>
            destruct (IH _ _ _ _ C1 s D c1 c2 HG HD Hc1 Hc2) as (f4 & r4 & U4);
            destruct (unifyB_zk_convb _ _ _ _ _ _ _ _ _ _ HG HD Hc1 Hc2 U4) as [_ K4]; pose proof (K4 _ _ C1) as E4; subst r4;
            destruct (IH _ _ _ _ C2 s D d1 d2 HG HD Hd1 Hd2) as (f5 & r5 & U5);
            destruct (unifyB_zk_convb _ _ _ _ _ _ _ _ _ _ HG HD Hd1 Hd2 U5) as [_ K5]; pose proof (K5 _ _ C2) as E5; subst r5 end.
          exists (Nat.max f4 f5), false. cbv beta iota zeta delta [unify_head].
          rewrite (unifyB_mono _ _ _ _ _ _ _ (Nat.le_max_l f4 f5) U4), (unifyB_mono _ _ _ _ _ _ _ (Nat.le_max_r f4 f5) U5). reflexivity.
      + match goal with Hc1 : zk s ?c1 u1, Hc2 : zk s ?c2 v1 |- _ =>
          destruct (IH _ _ _ _ C1 s D c1 c2 HG HD Hc1 Hc2) as (f4 & r4 & U4);
          destruct (unifyB_zk_convb _ _ _ _ _ _ _ _ _ _ HG HD Hc1 Hc2 U4) as [_ K4]; pose proof (K4 _ _ C1) as E4; subst r4 end.
        exists f4, false. cbv beta iota zeta delta [unify_head]. rewrite U4. reflexivity. }
  destruct Key as (f4 & r' & K).
  set (N := Nat.max f1 (Nat.max f2 (Nat.max f3 f4))).
  assert (L1 : f1 <= N) by lia. assert (L2 : f2 <= N) by lia. assert (L3 : f3 <= N) by lia. assert (L4 : f4 <= N) by lia.
  exists (S N), r'. rewrite unifyB_S. unfold unify_body.
  rewrite (syn_eqB_mono _ _ _ _ _ _ L1 Es), (whnfB_mono _ _ _ _ _ _ L2 E2), (whnfB_mono _ _ _ _ _ _ L3 E3).
  eapply unify_head_mono; [exact L4 | apply unifyB_rec_mono; exact L4 | exact K].
Qed.


(* ---------- L3 totality, all terms ---------- *)
Theorem unifyB_fresh_hole_suffG s D id t tu f0 wu :
  hf_dctx D -> sget s id = None -> zk s t tu ->
  whnf f0 (G_of_D D) tu = Some wu ->
  exists f', unifyB f' s D (THole id 0) t = Some (true, sset s id wu) /\ hole_free wu = true.
Proof.
  intros HD Hn Hz W.
  destruct (syn_eqB_unsolved_suff s id 0 t tu Hn Hz) as [f1 Es].
  destruct (whnfB_suffG f0 (G_of_D D) D tu wu s t (same_defs_refl _) HD Hz W) as (f2 & w & E2 & Zw & Nh).
  destruct (sshiftB_suff s w wu 0 0 Zw) as [f3 E3]. rewrite ushift_zero in E3.
  destruct (occursB_suff s id w wu Zw Hn) as [f4 E4].
  set (N := S (Nat.max f1 (Nat.max f2 (Nat.max f3 f4)))).
  assert (L1 : f1 <= N) by lia. assert (L2 : f2 <= N) by lia. assert (L3 : f3 <= N) by lia. assert (L4 : f4 <= N) by lia.
  exists (S N). split; [|exact (zk_hf _ _ _ Zw)]. rewrite unifyB_S. unfold unify_body.
  rewrite (syn_eqB_mono _ _ _ _ _ _ L1 Es).
  assert (WH : whnfB N s D (THole id 0) = Some (THole id 0, s)) by (unfold N; cbn [whnfB]; now rewrite Hn).
  rewrite WH, (whnfB_mono _ _ _ _ _ _ L2 E2).
  rewrite (unify_head_hole_l _ _ _ _ _ _ _ Nh). change (- Z.of_nat 0)%Z with (Z.of_nat 0).
  rewrite (sshiftB_mono _ _ _ _ _ _ _ L3 E3), (occursB_mono _ _ _ _ _ _ L4 E4). reflexivity.
Qed.

Theorem unifyB_pi_fresh_suffG s D dom cod F Fu f0 A B fa A2 fb B2 :
  hf_dctx D -> dom <> cod -> sget s dom = None -> sget s cod = None ->
  zk s F Fu ->
  whnf f0 (G_of_D D) Fu = Some (TPi false A B) ->
  whnf fa (G_of_D D) A = Some A2 -> whnf fb (G_of_D (None :: D)) B = Some B2 ->
  exists f' s', unifyB f' s D (TPi false (THole dom 0) (THole cod 0)) F = Some (true, s').
Proof.
  intros HD Hne Hn1 Hn2 Hz W WA WB.
  (* the syntactic shortcut says "different" *)
  assert (SE : exists f1, syn_eqB f1 s (TPi false (THole dom 0) (THole cod 0)) F = Some false).
  { destruct (headB_suff _ _ _ Hz) as (f1 & b' & E1 & Zb & Nb).
    assert (HP : forall n, headB (S n) s (TPi false (THole dom 0) (THole cod 0)) = Some (TPi false (THole dom 0) (THole cod 0))) by reflexivity.
    destruct b'; try discriminate Nb;
      try (exists (S (S f1)); cbn [syn_eqB]; rewrite HP, (headB_mono f1 (S f1) _ _ _ (Nat.le_succ_diag_r f1) E1); reflexivity).
    apply zk_inv in Zb. destruct Zb as (d' & b' & _ & Zd & _).
    destruct (syn_eqB_unsolved_suff s dom 0 _ _ Hn1 Zd) as [f2 E2].
    remember (Nat.max f1 f2) as M eqn:EM. assert (La : f1 <= S M) by lia. assert (Lb : f2 <= S M) by lia.
    remember (S M) as N eqn:EN.
    assert (HPN : headB N s (TPi false (THole dom 0) (THole cod 0)) = Some (TPi false (THole dom 0) (THole cod 0))) by (rewrite EN; reflexivity).
    exists (S N). cbn [syn_eqB]. rewrite HPN, (headB_mono _ _ _ _ _ La E1). cbv beta zeta.
    rewrite (syn_eqB_mono _ _ _ _ _ _ Lb E2). destruct (Bool.eqb false impl); reflexivity. }
  destruct SE as [f1 Es].
  destruct (whnfB_suffG f0 (G_of_D D) D Fu _ s F (same_defs_refl _) HD Hz W) as (f2 & w & E2 & Zw & Nh).
  pose proof (zk_nonhole_inv _ _ _ Zw Nh) as Sw. cbn beta iota in Sw. destruct Sw as (d2 & b2 & -> & Zd2 & Zb2).
  destruct (unifyB_fresh_hole_suffG s D dom d2 A fa A2 HD Hn1 Zd2 WA) as (f3 & U3 & HfA2).
  assert (E1 : StoreProofs.ext s (sset s dom A2)) by (apply sset_ext; exact Hn1).
  assert (Hn2' : sget (sset s dom A2) cod = None) by (rewrite sget_sset_other; [exact Hn2 | congruence]).
  destruct (unifyB_fresh_hole_suffG (sset s dom A2) (None :: D) cod b2 B fb B2 (hf_dctx_cons_None _ HD)
              Hn2' (zk_ext _ _ _ _ E1 Zb2) WB) as (f4 & U4 & _).
  set (N := S (Nat.max f1 (Nat.max f2 (Nat.max f3 f4)))).
  assert (L1 : f1 <= N) by lia. assert (L2 : f2 <= N) by lia. assert (L3 : f3 <= N) by lia. assert (L4 : f4 <= N) by lia.
  exists (S N). eexists. rewrite unifyB_S. unfold unify_body.
  rewrite (syn_eqB_mono _ _ _ _ _ _ L1 Es).
  assert (WP : whnfB N s D (TPi false (THole dom 0) (THole cod 0)) = Some (TPi false (THole dom 0) (THole cod 0), s)) by reflexivity.
  rewrite WP, (whnfB_mono _ _ _ _ _ _ L2 E2).
  cbv beta iota zeta delta [unify_head]. cbn [Bool.eqb].
  rewrite (unifyB_mono _ _ _ _ _ _ _ L3 U3). exact (unifyB_mono _ _ _ _ _ _ _ L4 U4).
Qed.



Lemma expectB_suffG s D a w e es au wu G f0 :
  same_defs G (G_of_D D) -> hf_dctx D -> zk s a au -> zk s w wu ->
  convb f0 G au wu = Some true -> exists f', expectB f' s D a w e es = Some (s, es).
Proof.
  intros HG HD Ha Hw C.
  destruct (unifyB_suffG _ _ _ _ _ C s D a w HG HD Ha Hw) as (f' & r' & U).
  destruct (unify_true_of_convb _ _ _ _ _ _ _ _ _ _ _ HG HD Ha Hw U C) as [-> _].
  exists f'. unfold expectB. now rewrite U.
Qed.

(* the agreement lemma read in the other direction, all terms *)
Corollary unifyB_completeG f G au bu r s D a b :
  convb f G au bu = Some r -> same_defs G (G_of_D D) -> hf_dctx D -> zk s a au -> zk s b bu ->
  exists f0, forall f', f0 <= f' -> unifyB f' s D a b = Some (r, s).
Proof.
  intros C HG HD Ha Hb.
  destruct (unifyB_suffG _ _ _ _ _ C s D a b HG HD Ha Hb) as (f0 & r' & U).
  destruct (unifyB_zk_convb _ _ _ _ _ _ _ _ _ _ HG HD Ha Hb U) as [_ K]. rewrite (K _ _ C) in *.
  exists f0. intros f' L. exact (unifyB_mono _ _ _ _ _ _ _ L U).
Qed.

(* ====================================================================================== *)
(* I.  Completeness (given that codomains normalise) for hole-free programs whose groups have *)
(*     at most one definition, nested anywhere                                               *)
(* ====================================================================================== *)
Lemma tc_defs_totalF Gz' G' D' f0 (fT : nat) : ctx_relF G' D' Gz' -> gzF Gz' ->
  (forall t T, inferT f0 Gz' t = Some T -> forall s, hole_free t = true -> sg t = true -> exists f' r, tcB f' s G' D' t = Some r) ->
  forall l, ModelBHoleFree.hf_defs l = true -> sg_defs l = true ->
  infer_defs (inferT f0 Gz') (convb f0 Gz') l = true ->
  forall s0 es, exists f' res, tc_defs f' (fun s d => tcB f' s G' D' d) D' l s0 es = Some res.
Proof.
  intros HC HZ Htot. pose proof HC as (_ & HS & HD).
  induction l as [|[a d] rest IHl]; intros Hf Hn HI s0 es; [exists 0; eexists; reflexivity|].
  apply hf_defs_cons in Hf. destruct Hf as (Ha & Hd & Hr). apply sg_defs_cons in Hn. destruct Hn as (Na & Nd & Nr).
  cbn [infer_defs] in HI.
  destruct (inferT f0 Gz' a) as [Ta|] eqn:I1; [|discriminate]. destruct (inferT f0 Gz' d) as [Td|] eqn:I2; [|discriminate].
  apply andb_true_iff in HI. destruct HI as [HI HI3]. apply andb_true_iff in HI. destruct HI as [C1 C2].
  apply is_true_some in C1. apply is_true_some in C2.
  destruct (Htot _ _ I1 s0 Ha Na) as (f1 & ra & E1).
  destruct (tcB_accepts_sg _ _ _ _ _ _ _ HC HZ Ha Na E1 _ _ (inferT_infer _ _ _ _ I1)) as (Hea & Ta' & Za & Ra).
  destruct (convb_hr _ _ _ _ _ C1 _ _ Ra (hr_refl _ _)) as [n1 C1'].
  destruct (expectB_suffG (b_st ra) D' (b_ty ra) TType ENotType (es ++ b_errs ra) _ _ _ _ HS HD Za (zk_type _) C1') as [f2 X1].
  destruct (Htot _ _ I2 (b_st ra) Hd Nd) as (f3 & rd & E2).
  destruct (tcB_accepts_sg _ _ _ _ _ _ _ HC HZ Hd Nd E2 _ _ (inferT_infer _ _ _ _ I2)) as (Hed & Td' & Zd & Rd).
  destruct (convb_hr _ _ _ _ _ C2 _ _ Rd (hr_refl _ _)) as [n2 C2'].
  destruct (expectB_suffG (b_st rd) D' (b_ty rd) a EAnnotation ((es ++ b_errs ra) ++ b_errs rd) _ _ _ _ HS HD Zd (zk_refl_hf _ _ Ha) C2') as [f4 X2].
  destruct (IHl Hr Nr HI3 (b_st rd) ((es ++ b_errs ra) ++ b_errs rd)) as (f5 & [[rest' s3] es3] & E3).
  set (N := Nat.max f1 (Nat.max f2 (Nat.max f3 (Nat.max f4 f5)))).
  assert (L1 : f1 <= N) by lia. assert (L2 : f2 <= N) by lia. assert (L3 : f3 <= N) by lia. assert (L4 : f4 <= N) by lia.
  assert (L5 : f5 <= N) by lia.
  exists N. eexists. cbn [tc_defs].
  rewrite (tcB_mono _ _ _ _ _ _ _ L1 E1), (expectB_mono _ _ _ _ _ _ _ _ _ L2 X1).
  rewrite (tcB_mono _ _ _ _ _ _ _ L3 E2), (expectB_mono _ _ _ _ _ _ _ _ _ L4 X2).
  rewrite (tc_defs_mono f5 N _ (fun s d => tcB N s G' D' d) D' L5 (fun s t r Hr => tcB_mono _ _ s G' D' t r L5 Hr) _ _ _ _ E3).
  reflexivity.
Qed.

Theorem tcB_total_sg : forall f Gz t T, inferT f Gz t = Some T ->
  forall s G D, ctx_relF G D Gz -> gzF Gz -> hole_free t = true -> sg t = true ->
  exists f' r, tcB f' s G D t = Some r.
Proof.
  induction f as [|f IH]; intros Gz t T HI s G D HC HZ Hf Hn; [discriminate|].
  pose proof HC as (HC1 & HS & HD). pose proof HZ as (WZ & HZf).
  destruct t; cbn [hole_free] in Hf; cbn [sg] in Hn; cbn [inferT] in HI; try (exists 1; eexists; reflexivity).
  - (* var *)
    destruct (nth_error G i) as [[T0 off]|] eqn:En; [|exists 1; eexists; cbn [tcB]; rewrite En; reflexivity].
    destruct (ctx_relF_lookup _ _ _ _ _ _ HC En) as (_ & HfT).
    destruct (ushiftB_suff s T0 T0 0 (i + 1 - off) (zk_refl_hf _ _ HfT)) as [f1 U].
    exists (S f1). eexists. cbn [tcB]. rewrite En, U. reflexivity.
  - (* lam *)
    apply andb_true_iff in Hf; destruct Hf as [Hf1 Hf2]. apply andb_true_iff in Hn; destruct Hn as [Hn1 Hn2].
    destruct (inferT f Gz t1) as [Td|] eqn:I1; [|discriminate].
    destruct (is_true (convb f Gz Td TType)) eqn:C1; [|discriminate]. apply is_true_some in C1.
    destruct (inferT f (bind Gz t1) t2) as [B|] eqn:I2; [|discriminate].
    destruct (IH _ _ _ I1 s G D HC HZ Hf1 Hn1) as (f1 & rd & E1).
    destruct (tcB_accepts_sg _ _ _ _ _ _ _ HC HZ Hf1 Hn1 E1 _ _ (inferT_infer _ _ _ _ I1)) as (Hed & Td' & Zd & Rd).
    destruct (convb_hr _ _ _ _ _ C1 _ _ Rd (hr_refl _ _)) as [n1 C1'].
    destruct (expectB_suffG (b_st rd) D (b_ty rd) TType ENotType (b_errs rd) _ _ _ _ HS HD Zd (zk_type _) C1') as [f2 X1].
    destruct (IH _ _ _ I2 (b_st rd) ((t1, 0) :: G) (None :: D) (ctx_relF_bind _ _ _ _ HC Hf1) (gzF_bind _ _ HZ Hf1) Hf2 Hn2) as (f3 & rb & E2).
    set (N := Nat.max f1 (Nat.max f2 f3)). assert (L1 : f1 <= N) by lia. assert (L2 : f2 <= N) by lia. assert (L3 : f3 <= N) by lia.
    exists (S N). eexists. cbn [tcB]. rewrite (tcB_mono _ _ _ _ _ _ _ L1 E1), (expectB_mono _ _ _ _ _ _ _ _ _ L2 X1).
    rewrite (tcB_elab_identity _ _ _ _ _ _ E1), (tcB_mono _ _ _ _ _ _ _ L3 E2). reflexivity.
  - (* pi *)
    apply andb_true_iff in Hf; destruct Hf as [Hf1 Hf2]. apply andb_true_iff in Hn; destruct Hn as [Hn1 Hn2].
    destruct (inferT f Gz t1) as [Td|] eqn:I1; [|discriminate].
    destruct (is_true (convb f Gz Td TType)) eqn:C1; [|discriminate]. apply is_true_some in C1.
    destruct (inferT f (bind Gz t1) t2) as [Tb|] eqn:I2; [|discriminate].
    destruct (is_true (convb f (bind Gz t1) Tb TType)) eqn:C2; [|discriminate]. apply is_true_some in C2.
    destruct (IH _ _ _ I1 s G D HC HZ Hf1 Hn1) as (f1 & rd & E1).
    destruct (tcB_accepts_sg _ _ _ _ _ _ _ HC HZ Hf1 Hn1 E1 _ _ (inferT_infer _ _ _ _ I1)) as (Hed & Td' & Zd & Rd).
    destruct (convb_hr _ _ _ _ _ C1 _ _ Rd (hr_refl _ _)) as [n1 C1'].
    destruct (expectB_suffG (b_st rd) D (b_ty rd) TType ENotType (b_errs rd) _ _ _ _ HS HD Zd (zk_type _) C1') as [f2 X1].
    pose proof (ctx_relF_bind _ _ _ _ HC Hf1) as HC'. pose proof HC' as (_ & HS' & HD').
    pose proof (gzF_bind _ _ HZ Hf1) as HZ'.
    destruct (IH _ _ _ I2 (b_st rd) ((t1, 0) :: G) (None :: D) HC' HZ' Hf2 Hn2) as (f3 & rb & E2).
    destruct (tcB_accepts_sg _ _ _ _ _ _ _ HC' HZ' Hf2 Hn2 E2 _ _ (inferT_infer _ _ _ _ I2)) as (Heb & Tb' & Zb & Rb).
    destruct (convb_hr _ _ _ _ _ C2 _ _ Rb (hr_refl _ _)) as [n2 C2'].
    destruct (expectB_suffG (b_st rb) (None :: D) (b_ty rb) TType ENotType (b_errs rd ++ b_errs rb) _ _ _ _ HS' HD' Zb (zk_type _) C2') as [f4 X2].
    set (N := Nat.max f1 (Nat.max f2 (Nat.max f3 f4))).
    assert (L1 : f1 <= N) by lia. assert (L2 : f2 <= N) by lia. assert (L3 : f3 <= N) by lia. assert (L4 : f4 <= N) by lia.
    exists (S N). eexists. cbn [tcB]. rewrite (tcB_mono _ _ _ _ _ _ _ L1 E1), (expectB_mono _ _ _ _ _ _ _ _ _ L2 X1).
    rewrite (tcB_elab_identity _ _ _ _ _ _ E1), (tcB_mono _ _ _ _ _ _ _ L3 E2), (expectB_mono _ _ _ _ _ _ _ _ _ L4 X2). reflexivity.
  - (* app *)
    apply andb_true_iff in Hf; destruct Hf as [Hf1 Hf2]. apply andb_true_iff in Hn; destruct Hn as [Hn1 Hn2].
    destruct (inferT f Gz t1) as [F|] eqn:I1; [|discriminate].
    destruct (whnf f Gz F) as [[ ? ? | | | | | | ? | ? | ? ? ? | im A B | ? ? | ? ? | ? | ? ? ? | ? ? ? ]|] eqn:W1; try discriminate.
    destruct im; try discriminate.
    destruct (whnf f (bind Gz A) B) as [B0|] eqn:WB; [|discriminate].
    destruct (inferT f Gz t2) as [A0|] eqn:I2; [|discriminate].
    destruct (is_true (convb f Gz A0 A)) eqn:C1; [|discriminate]. apply is_true_some in C1.
    destruct (IH _ _ _ I1 s G D HC HZ Hf1 Hn1) as (f1 & ra & E1).
    destruct (tcB_accepts_sg _ _ _ _ _ _ _ HC HZ Hf1 Hn1 E1 _ _ (inferT_infer _ _ _ _ I1)) as (Hea & F' & Zf & Rf).
    pose proof (infer_hole_free _ _ _ _ HZf Hf1 (inferT_infer _ _ _ _ I1)) as HfF.
    pose proof (whnf_hole_free _ _ _ _ (ctx_hf'_hf _ HZf) HfF W1) as HfW.
    cbn [hole_free] in HfW.
    apply andb_true_iff in HfW; destruct HfW as [HfA HfB].
    destruct (hr_whnf _ _ _ Rf _ _ W1) as (g1 & u' & W1' & Hu).
    destruct (hrw_pi_inv _ _ _ _ _ Hu) as (A' & B' & -> & RA & RB).
    destruct (convb_whnf_r _ _ _ _ _ C1) as (g2 & Av & WA).
    destruct (hr_whnf _ _ _ RA _ _ WA) as (g3 & A2 & WA' & _).
    destruct (hr_whnf _ _ _ RB _ _ WB) as (g4 & B2 & WB' & _).
    set (s0 := b_st ra) in *. set (s2 := (s0 ++ [None]) ++ [None]).
    assert (G02 : grow s0 s2) by (eapply grow_trans; apply grow_snoc).
    assert (Zf2 : zk s2 (b_ty ra) F') by (eapply zk_ext; [apply grow_ext; exact G02 | exact Zf]).
    assert (L2s : length s2 = S (S (length s0))) by (unfold s2; rewrite !app_length; cbn [length]; lia).
    assert (L1s : length (s0 ++ [None]) = S (length s0)) by (rewrite app_length; cbn [length]; lia).
    assert (Hn_dom : sget s2 (length s0) = None) by (rewrite (grow_sget _ _ _ G02); apply sget_ge; lia).
    assert (Hn_cod : sget s2 (length (s0 ++ [None])) = None).
    { unfold s2. rewrite (grow_sget _ _ _ (grow_snoc (s0 ++ [None]))). apply sget_ge. lia. }
    assert (Hne : length s0 <> length (s0 ++ [None])) by lia.
    assert (Hl1 : length s0 < length s2) by lia. assert (Hl2 : length (s0 ++ [None]) < length s2) by lia.
    rewrite (whnf_same_defs g1 Gz (G_of_D D) F' HS) in W1'.
    rewrite (whnf_same_defs g3 Gz (G_of_D D) A' HS) in WA'.
    rewrite (whnf_same_defs g4 (bind Gz A) (G_of_D (None :: D)) B') in WB' by (apply same_defs_bind; exact HS).
    destruct (unifyB_pi_fresh_suffG s2 D (length s0) (length (s0 ++ [None])) (b_ty ra) F' _ _ _ _ _ _ _ HD Hne Hn_dom Hn_cod Zf2 W1' WA' WB')
      as (f2 & s3 & U1).
    rewrite <- (whnf_same_defs g1 Gz (G_of_D D) F' HS) in W1'.
    destruct (unifyB_pi_fresh_dec _ _ _ _ _ _ _ _ _ Gz _ _ _ HD HS Hne Hn_dom Hn_cod Hl1 Hl2 Zf2 W1' U1)
      as (_ & X23 & A3 & B3 & ZA & ZB & SA & SB).
    assert (RA3 : hr Gz A A3) by (eapply hr_rstar_r; eassumption).
    destruct (IH _ _ _ I2 s3 G D HC HZ Hf2 Hn2) as (f3 & rb & E2).
    destruct (tcB_accepts_sg _ _ _ _ _ _ _ HC HZ Hf2 Hn2 E2 _ _ (inferT_infer _ _ _ _ I2)) as (Heb & A0' & Za0 & Ra0).
    pose proof (tcB_ext _ _ _ _ _ _ E2) as X3b.
    destruct (convb_hr _ _ _ _ _ C1 _ _ Ra0 RA3) as [n1 C1']. rewrite convb_sym in C1'.
    destruct (expectB_suffG (b_st rb) D (THole (length s0) 0) (b_ty rb) EArgument (b_errs ra ++ b_errs rb) _ _ _ _ HS HD (zk_ext _ _ _ _ X3b ZA) Za0 C1') as [f4 X2].
    destruct (openB_suff (b_st rb) (THole (length (s0 ++ [None])) 0) B3 t2 t2 0 0 (zk_ext _ _ _ _ X3b ZB) (zk_refl_hf _ _ Hf2)) as [f5 O].
    set (N := Nat.max f1 (Nat.max f2 (Nat.max f3 (Nat.max f4 f5)))).
    assert (L1 : f1 <= N) by lia. assert (L2 : f2 <= N) by lia. assert (L3 : f3 <= N) by lia. assert (L4 : f4 <= N) by lia.
    assert (L5 : f5 <= N) by lia.
    exists (S N). eexists. cbn [tcB]. rewrite (tcB_mono _ _ _ _ _ _ _ L1 E1). unfold fresh_hole, salloc. fold s0. fold s2.
    unfold expectB at 1. rewrite (unifyB_mono _ _ _ _ _ _ _ L2 U1).
    rewrite (tcB_mono _ _ _ _ _ _ _ L3 E2), (expectB_mono _ _ _ _ _ _ _ _ _ L4 X2).
    rewrite (tcB_elab_identity _ _ _ _ _ _ E2), (openB_mono _ _ _ _ _ _ _ _ L5 O). reflexivity.
  - (* let *)
    cbv zeta in HI.
    change (ModelBHoleFree.hf_defs defs && hole_free t = true) in Hf. apply andb_true_iff in Hf. destruct Hf as [Hfd Hfb].
    apply andb_true_iff in Hn. destruct Hn as [Hn Hsb]. apply andb_true_iff in Hn. destruct Hn as [Hl Hsd].
    apply Nat.leb_le in Hl. change (sg_defs defs = true) in Hsd.
    set (G' := pushG (length defs) defs 0 G). set (D' := pushD (length defs) defs 0 D).
    assert (HC' : ctx_relF G' D' (enter defs Gz)) by (apply ctx_relF_push; assumption).
    assert (HZ' : gzF (enter defs Gz)) by (apply gzF_enter; assumption).
    destruct (infer_defs (inferT f (enter defs Gz)) (convb f (enter defs Gz)) defs) eqn:ID; [|discriminate].
    destruct (inferT f (enter defs Gz) t) as [B|] eqn:IB; [|discriminate].
    destruct (tc_defs_totalF _ _ _ _ f HC' HZ' (fun t0 T0 I0 s0 Hf0 Hn0 => IH _ _ _ I0 s0 G' D' HC' HZ' Hf0 Hn0) defs Hfd Hsd ID s [])
      as (f1 & [[ds' s1] es1] & E1).
    assert (ds' = defs).
    { eapply tc_defs_id'; [|exact E1]. intros s0 d r0 Hr. exact (tcB_elab_identity _ _ _ _ _ _ Hr). }
    subst ds'.
    destruct (IH _ _ _ IB s1 G' D' HC' HZ' Hfb Hsb) as (f2 & rb & E2).
    destruct (tcB_accepts_sg _ _ _ _ _ _ _ HC' HZ' Hfb Hsb E2 _ _ (inferT_infer _ _ _ _ IB)) as (_ & B' & Zb & _).
    destruct (group_typeB_suff (b_st rb) (length defs) defs Hfd (length defs) 0 _ _ Zb) as (f3 & [T' s3] & E3).
    set (N := Nat.max f1 (Nat.max f2 f3)). assert (L1 : f1 <= N) by lia. assert (L2 : f2 <= N) by lia. assert (L3 : f3 <= N) by lia.
    exists (S N). eexists. rewrite tcB_let_eq. cbv zeta. fold G'. fold D'.
    rewrite (tc_defs_mono f1 N _ (fun s0 d => tcB N s0 G' D' d) D' L1 (fun s0 t0 r0 Hr => tcB_mono _ _ s0 G' D' t0 r0 L1 Hr) _ _ _ _ E1).
    rewrite (tcB_mono _ _ _ _ _ _ _ L2 E2), (group_typeB_mono _ _ _ _ L3 _ _ _ _ _ E3). reflexivity.
  - (* neg *)
    destruct (inferT f Gz t) as [Ta|] eqn:I1; [|discriminate].
    destruct (is_true (convb f Gz Ta TInt)) eqn:C1; [|discriminate]. apply is_true_some in C1.
    destruct (IH _ _ _ I1 s G D HC HZ Hf Hn) as (f1 & ra & E1).
    destruct (tcB_accepts_sg _ _ _ _ _ _ _ HC HZ Hf Hn E1 _ _ (inferT_infer _ _ _ _ I1)) as (Hea & Ta' & Za & Ra).
    destruct (convb_hr _ _ _ _ _ C1 _ _ Ra (hr_refl _ _)) as [n1 C1'].
    destruct (expectB_suffG (b_st ra) D (b_ty ra) TInt ENotInt (b_errs ra) _ _ _ _ HS HD Za (zk_int _) C1') as [f2 X1].
    exists (S (Nat.max f1 f2)). eexists. cbn [tcB].
    rewrite (tcB_mono _ _ _ _ _ _ _ (Nat.le_max_l f1 f2) E1), (expectB_mono _ _ _ _ _ _ _ _ _ (Nat.le_max_r f1 f2) X1). reflexivity.
  - (* bin *)
    apply andb_true_iff in Hf; destruct Hf as [Hf1 Hf2]. apply andb_true_iff in Hn; destruct Hn as [Hn1 Hn2].
    destruct (inferT f Gz t1) as [Ta|] eqn:I1; [|discriminate].
    destruct (inferT f Gz t2) as [Tb|] eqn:I2; [|discriminate].
    destruct (is_true (convb f Gz Ta TInt) && is_true (convb f Gz Tb TInt)) eqn:C; [|discriminate].
    apply andb_true_iff in C; destruct C as [C1 C2]. apply is_true_some in C1. apply is_true_some in C2.
    destruct (IH _ _ _ I1 s G D HC HZ Hf1 Hn1) as (f1 & ra & E1).
    destruct (tcB_accepts_sg _ _ _ _ _ _ _ HC HZ Hf1 Hn1 E1 _ _ (inferT_infer _ _ _ _ I1)) as (Hea & Ta' & Za & Ra).
    destruct (convb_hr _ _ _ _ _ C1 _ _ Ra (hr_refl _ _)) as [n1 C1'].
    destruct (expectB_suffG (b_st ra) D (b_ty ra) TInt ENotInt (b_errs ra) _ _ _ _ HS HD Za (zk_int _) C1') as [f2 X1].
    destruct (IH _ _ _ I2 (b_st ra) G D HC HZ Hf2 Hn2) as (f3 & rb & E2).
    destruct (tcB_accepts_sg _ _ _ _ _ _ _ HC HZ Hf2 Hn2 E2 _ _ (inferT_infer _ _ _ _ I2)) as (Heb & Tb' & Zb & Rb).
    destruct (convb_hr _ _ _ _ _ C2 _ _ Rb (hr_refl _ _)) as [n2 C2'].
    destruct (expectB_suffG (b_st rb) D (b_ty rb) TInt ENotInt (b_errs ra ++ b_errs rb) _ _ _ _ HS HD Zb (zk_int _) C2') as [f4 X2].
    set (N := Nat.max f1 (Nat.max f2 (Nat.max f3 f4))).
    assert (L1 : f1 <= N) by lia. assert (L2 : f2 <= N) by lia. assert (L3 : f3 <= N) by lia. assert (L4 : f4 <= N) by lia.
    exists (S N). eexists. cbn [tcB]. rewrite (tcB_mono _ _ _ _ _ _ _ L1 E1), (expectB_mono _ _ _ _ _ _ _ _ _ L2 X1).
    rewrite (tcB_mono _ _ _ _ _ _ _ L3 E2), (expectB_mono _ _ _ _ _ _ _ _ _ L4 X2). reflexivity.
  - (* if *)
    apply andb_true_iff in Hf; destruct Hf as [Hf12 Hf3]. apply andb_true_iff in Hf12; destruct Hf12 as [Hf1 Hf2].
    apply andb_true_iff in Hn; destruct Hn as [Hn12 Hn3]. apply andb_true_iff in Hn12; destruct Hn12 as [Hn1 Hn2].
    destruct (inferT f Gz t1) as [Tc|] eqn:I1; [|discriminate].
    destruct (inferT f Gz t2) as [Ta|] eqn:I2; [|discriminate].
    destruct (inferT f Gz t3) as [Tb|] eqn:I3; [|discriminate].
    destruct (is_true (convb f Gz Tc TBool) && is_true (convb f Gz Tb Ta)) eqn:C; [|discriminate].
    apply andb_true_iff in C; destruct C as [C1 C2]. apply is_true_some in C1. apply is_true_some in C2.
    destruct (IH _ _ _ I1 s G D HC HZ Hf1 Hn1) as (f1 & rc & E1).
    destruct (tcB_accepts_sg _ _ _ _ _ _ _ HC HZ Hf1 Hn1 E1 _ _ (inferT_infer _ _ _ _ I1)) as (Hec & Tc' & Zc & Rc).
    destruct (convb_hr _ _ _ _ _ C1 _ _ Rc (hr_refl _ _)) as [n1 C1'].
    destruct (expectB_suffG (b_st rc) D (b_ty rc) TBool ENotBool (b_errs rc) _ _ _ _ HS HD Zc (zk_bool _) C1') as [f2 X1].
    destruct (IH _ _ _ I2 (b_st rc) G D HC HZ Hf2 Hn2) as (f3 & ra & E2).
    destruct (tcB_accepts_sg _ _ _ _ _ _ _ HC HZ Hf2 Hn2 E2 _ _ (inferT_infer _ _ _ _ I2)) as (Hea & Ta' & Za & Ra).
    destruct (IH _ _ _ I3 (b_st ra) G D HC HZ Hf3 Hn3) as (f4 & rb & E3).
    destruct (tcB_accepts_sg _ _ _ _ _ _ _ HC HZ Hf3 Hn3 E3 _ _ (inferT_infer _ _ _ _ I3)) as (Heb & Tb' & Zb & Rb).
    pose proof (tcB_ext _ _ _ _ _ _ E3) as Xab.
    destruct (convb_hr _ _ _ _ _ C2 _ _ Rb Ra) as [n2 C2']. rewrite convb_sym in C2'.
    destruct (expectB_suffG (b_st rb) D (b_ty ra) (b_ty rb) EBranches (b_errs rc ++ b_errs ra ++ b_errs rb) _ _ _ _ HS HD
                (zk_ext _ _ _ _ Xab Za) Zb C2') as [f5 X2].
    set (N := Nat.max f1 (Nat.max f2 (Nat.max f3 (Nat.max f4 f5)))).
    assert (L1 : f1 <= N) by lia. assert (L2 : f2 <= N) by lia. assert (L3 : f3 <= N) by lia. assert (L4 : f4 <= N) by lia.
    assert (L5 : f5 <= N) by lia.
    exists (S N). eexists. cbn [tcB]. rewrite (tcB_mono _ _ _ _ _ _ _ L1 E1), (expectB_mono _ _ _ _ _ _ _ _ _ L2 X1).
    rewrite (tcB_mono _ _ _ _ _ _ _ L3 E2), (tcB_mono _ _ _ _ _ _ _ L4 E3), (expectB_mono _ _ _ _ _ _ _ _ _ L5 X2). reflexivity.
Qed.

(* ====================================================================================== *)
(* Main statements                                                                         *)
(* ====================================================================================== *)
Lemma no_let_sg : forall t, no_let t = true -> sg t = true.
Proof.
  induction t; cbn [no_let sg]; intros H; try reflexivity; try discriminate;
    repeat match goal with X : _ && _ = true |- _ => apply andb_true_iff in X; destruct X end;
    rewrite ?IHt, ?IHt1, ?IHt2, ?IHt3 by assumption; reflexivity.
Qed.

(* B, first half.  NO FALSE REJECTION for every hole-free program whose groups have at most one
   definition each, nested anywhere (in definitions, annotations, function bodies, arguments): whenever
   tcB answers on a program accepted by infer, it accepts, and the reported type is definitionally
   equal to infer's (indeed a more evaluated presentation of it: hr). *)
Theorem tcB_no_false_rejection : forall f t T,
  hole_free t = true -> sg t = true -> infer f [] t = Some T ->
  forall f' r, tcB f' [] [] [] t = Some r ->
  b_errs r = [] /\ exists T', zk (b_st r) (b_ty r) T' /\ hr [] T T' /\ conv [] T' T.
Proof.
  intros f t T Hf Hs HI f' r H.
  destruct (tcB_accepts_sg _ _ _ _ _ _ _ ctx_relF_nil gzF_nil Hf Hs H _ _ HI) as (He & T' & Z & R).
  split; [exact He|]. exists T'. repeat split; [exact Z | exact R | apply c_sym, hr_conv; exact R].
Qed.

(* B, second half.  COMPLETENESS given that the codomains of applied function types normalise. *)
Theorem tcB_complete_hole_free : forall f t T,
  hole_free t = true -> sg t = true -> inferT f [] t = Some T ->
  exists f0 r, (forall f', f0 <= f' -> tcB f' [] [] [] t = Some r) /\ b_errs r = [] /\
    exists T', zk (b_st r) (b_ty r) T' /\ hr [] T T' /\ conv [] T' T.
Proof.
  intros f t T Hf Hs HI.
  destruct (tcB_total_sg _ _ _ _ HI [] [] [] ctx_relF_nil gzF_nil Hf Hs) as (f0 & r & E).
  exists f0, r. split; [intros f' L; exact (tcB_mono _ _ _ _ _ _ _ L E)|].
  exact (tcB_no_false_rejection _ _ _ Hf Hs (inferT_infer _ _ _ _ HI) _ _ E).
Qed.

(* A.  Spine programs whose groups have at most one definition: conv at the root instead of hrg. *)
Corollary tcB_no_false_rejection_spine_conv : forall f t T,
  hole_free t = true -> spine t = true -> sg t = true -> infer f [] t = Some T ->
  forall f' r, tcB f' [] [] [] t = Some r ->
  b_errs r = [] /\ exists T', zk (b_st r) (b_ty r) T' /\ conv [] T' T.
Proof.
  intros f t T Hf _ Hs HI f' r H. destruct (tcB_no_false_rejection _ _ _ Hf Hs HI _ _ H) as (He & T' & Z & _ & C). eauto.
Qed.
Corollary tcB_complete_hole_free_spine_conv : forall f t T,
  hole_free t = true -> spine t = true -> sg t = true -> inferT f [] t = Some T ->
  exists f0 r, (forall f', f0 <= f' -> tcB f' [] [] [] t = Some r) /\ b_errs r = [] /\
    exists T', zk (b_st r) (b_ty r) T' /\ conv [] T' T.
Proof.
  intros f t T Hf _ Hs HI. destruct (tcB_complete_hole_free _ _ _ Hf Hs HI) as (f0 & r & H & He & T' & Z & _ & C). eauto 8.
Qed.

(* C.  The two checkers on hole-free programs with groups of at most one definition:
   inferT accepts  ->  tcB accepts (for every large fuel), the program has the reported type in the
   declarative system, and that type is definitionally equal to the one infer computes. *)
Theorem inferT_implies_tcB_accepts_and_typed : forall t,
  hole_free t = true -> sg t = true ->
  (exists f T, inferT f [] t = Some T) ->
  exists f r T T', infer f [] t = Some T /\ tcB f [] [] [] t = Some r /\ b_errs r = [] /\
    zk (b_st r) (b_ty r) T' /\ has_type [] t T' /\ has_type [] t T /\ conv [] T' T.
Proof.
  intros t Hf Hs (f & T & HI).
  destruct (tcB_complete_hole_free _ _ _ Hf Hs HI) as (f0 & r & H & He & T' & Z & _ & C).
  pose proof (inferT_infer _ _ _ _ HI) as HI'.
  exists (Nat.max f f0), r, T, T'.
  split; [exact (infer_mono _ _ _ _ _ (Nat.le_max_l f f0) HI')|].
  split; [apply H; lia|]. split; [exact He|]. split; [exact Z|].
  destruct (tcB_sound_hole_free _ _ _ Hf (H _ (le_n f0)) He) as (T'' & HT & Z' & _).
  rewrite (zk_fun _ _ _ _ Z Z') in HT. split; [exact HT|]. split; [exact (infer_sound _ _ _ _ HI') | exact C].
Qed.

(* ====================================================================================== *)
(* What separates the two checkers: neither accepts everything the other accepts             *)
(* ====================================================================================== *)
(* (1) ex_div (TcCompleteHF): infer accepts, tcB diverges - tcB normalises the codomain of an applied
       function type, infer does not.
   (2) ex_shortcut below: tcB accepts, infer diverges - unify has a syntactic shortcut, the conversion
       test of infer always normalises:   w : type = w; x : w = x; 0   (two nested groups) *)
Definition ex_shortcut : term := TLet [(TType, TVar 0)] (TLet [(TVar 1, TVar 0)] (TLit 0)).

Lemma convb_self_loop f G i : lookup_def G i = Some (TVar i) -> convb f G (TVar i) (TVar i) = None.
Proof. intros H. destruct f as [|f]; [reflexivity|]. rewrite convb_S. now rewrite (whnf_self_loop _ _ _ H). Qed.

Theorem infer_diverges_on_ex_shortcut : forall f, infer f [] ex_shortcut = None.
Proof.
  intros [|f]; [reflexivity|]. unfold ex_shortcut. rewrite infer_let_eq.
  destruct (infer_defs _ _ _); [|reflexivity].
  destruct f as [|f]; [reflexivity|]. rewrite infer_let_eq.
  set (G2 := enter [(TVar 1, TVar 0)] (enter [(TType, TVar 0)] [])).
  assert (ID : infer_defs (infer f G2) (convb f G2) [(TVar 1, TVar 0)] = false).
  { cbn [infer_defs]. destruct (infer f G2 (TVar 1)) as [Ta|]; [|reflexivity].
    destruct f as [|f]; [reflexivity|]. cbn [infer]. change (lookup_ty G2 0) with (Some (TVar 1)). cbv beta iota.
    rewrite (convb_self_loop (S f) G2 1 eq_refl). cbn [is_true]. now rewrite andb_false_r. }
  now rewrite ID.
Qed.

Theorem checkers_incomparable :
  (* infer accepts, tcB never answers *)
  (hole_free ex_div = true /\ sg ex_div = true /\ (exists T, infer 10 [] ex_div = Some T /\ has_type [] ex_div T) /\
   forall f, tcB f [] [] [] ex_div = None) /\
  (* tcB accepts (and the program is well typed), infer never answers *)
  (hole_free ex_shortcut = true /\ sg ex_shortcut = true /\
   (exists r T', tcB 40 [] [] [] ex_shortcut = Some r /\ b_errs r = [] /\ zk (b_st r) (b_ty r) T' /\ has_type [] ex_shortcut T') /\
   forall f, infer f [] ex_shortcut = None).
Proof.
  split.
  - destruct tcB_complete_hole_free_refuted as (H1 & _ & H3 & H4). repeat split; auto.
  - split; [reflexivity|]. split; [reflexivity|]. split; [|exact infer_diverges_on_ex_shortcut].
    destruct (tcB 40 [] [] [] ex_shortcut) as [r|] eqn:E; [|vm_compute in E; discriminate E].
    assert (He : b_errs r = []) by (vm_compute in E; injection E as <-; reflexivity).
    destruct (tcB_sound_hole_free 40 ex_shortcut r eq_refl E He) as (T' & HT & Z & _).
    exists r, T'. auto.
Qed.

(* ---------- non-vacuity: groups nested inside a definition, as an argument, in a dependent position ---------- *)
(* f : int -> int = (n : int) => (y : int = n + 1; y * 2); f 3 *)
Definition ex_nested_def : term :=
  TLet [(TPi false TInt TInt, TLam false TInt (TLet [(TInt, TBin OSum (TVar 1) (TLit 1))] (TBin OProd (TVar 0) (TLit 2))))]
       (TApp (TVar 0) (TLit 3)).
(* ((x : int) => x + 1) (y : int = 2; y) *)
Definition ex_group_arg : term := TApp (TLam false TInt (TBin OSum (TVar 0) (TLit 1))) (TLet [(TInt, TLit 2)] (TVar 0)).
(* ((a : type) => (x : a) => x) (t : type = int; t) 3    -- a group as a TYPE argument *)
Definition ex_group_type_arg : term :=
  TApp (TApp (TLam false TType (TLam false (TVar 0) (TVar 0))) (TLet [(TType, TInt)] (TVar 0))) (TLit 3).

Example ex_nested_def_facts : hole_free ex_nested_def = true /\ sg ex_nested_def = true /\ spine ex_nested_def = false /\
  inferT 30 [] ex_nested_def = Some TInt.
Proof. vm_compute. repeat split; reflexivity. Qed.
Example ex_group_arg_facts : hole_free ex_group_arg = true /\ sg ex_group_arg = true /\ spine ex_group_arg = false /\
  inferT 30 [] ex_group_arg = Some TInt.
Proof. vm_compute. repeat split; reflexivity. Qed.
(* here the two checkers report different (convertible) types: infer the group, tcB its value *)
Example ex_group_type_arg_inferT : inferT 30 [] ex_group_type_arg = Some (TLet [(TType, TInt)] (TVar 0)).
Proof. vm_compute. reflexivity. Qed.
Example ex_group_type_arg_facts : hole_free ex_group_type_arg = true /\ sg ex_group_type_arg = true /\
  inferT 30 [] ex_group_type_arg = Some (TLet [(TType, TInt)] (TVar 0)) /\
  match tcB 60 [] [] [] ex_group_type_arg with Some r => b_errs r = [] /\ zonkB 30 (b_st r) (b_ty r) = TInt | None => False end.
Proof. split; [reflexivity|]. split; [reflexivity|]. split; [exact ex_group_type_arg_inferT|]. vm_compute. split; reflexivity. Qed.

Example ex_nested_def_complete : exists f0 r, (forall f', f0 <= f' -> tcB f' [] [] [] ex_nested_def = Some r) /\ b_errs r = [].
Proof.
  destruct (tcB_complete_hole_free 30 ex_nested_def TInt eq_refl eq_refl (proj2 (proj2 (proj2 ex_nested_def_facts)))) as (f0 & r & H & He & _). eauto.
Qed.
Example ex_group_arg_complete : exists f0 r, (forall f', f0 <= f' -> tcB f' [] [] [] ex_group_arg = Some r) /\ b_errs r = [].
Proof.
  destruct (tcB_complete_hole_free 30 ex_group_arg TInt eq_refl eq_refl (proj2 (proj2 (proj2 ex_group_arg_facts)))) as (f0 & r & H & He & _). eauto.
Qed.
Example ex_group_type_arg_complete : exists f0 r T', (forall f', f0 <= f' -> tcB f' [] [] [] ex_group_type_arg = Some r) /\ b_errs r = [] /\
  zk (b_st r) (b_ty r) T' /\ conv [] T' (TLet [(TType, TInt)] (TVar 0)).
Proof.
  destruct (tcB_complete_hole_free 30 ex_group_type_arg _ eq_refl eq_refl ex_group_type_arg_inferT)
    as (f0 & r & H & He & T' & Z & _ & C). eauto 8.
Qed.

(* ====================================================================================== *)
(* J.  Groups of ANY size on the spine, groups of at most one definition nested below them   *)
(* ====================================================================================== *)
(* spineG t : t = ds1 ; ds2 ; ... ; e  where ds_i are groups of any size and every annotation,
   definition and e is an sg-term (groups of at most one definition nested anywhere).  This contains
   both `spine` (TcSoundHF) and `sg`.  The relation at the root is hrg (through the exits of the
   multi-definition groups, where neither hr nor - in general - conv is preserved: PGCounter.v). *)
Fixpoint spineG (t : term) : bool :=
  match t with
  | TLet ds b => sg_defs ds && spineG b
  | _ => sg t
  end.

Lemma sg_spineG t : sg t = true -> spineG t = true.
Proof.
  destruct t; cbn [spineG]; try (intros H; exact H).
  cbn [sg]. intros H. apply andb_true_iff in H. destruct H as [H Hb]. apply andb_true_iff in H. destruct H as [_ Hd].
  change (sg_defs defs = true) in Hd. rewrite Hd. cbn [andb].
  (* the body of an sg group is sg; spineG of it follows by the same case analysis *)
  revert Hb. generalize t. clear. fix IH 1. intros t Hb. destruct t; cbn [spineG]; try exact Hb.
  cbn [sg] in Hb. apply andb_true_iff in Hb. destruct Hb as [H Hb]. apply andb_true_iff in H. destruct H as [_ Hd].
  change (sg_defs defs = true) in Hd. rewrite Hd. cbn [andb]. apply IH. exact Hb.
Qed.

Lemma nl_defs_sg_defs ds : nl_defs ds = true -> sg_defs ds = true.
Proof.
  induction ds as [|[a d] r IH]; intros H; [reflexivity|].
  apply nl_defs_cons in H. destruct H as (Ha & Hd & Hr). apply sg_defs_cons. auto using no_let_sg.
Qed.

Lemma spine_spineG : forall t, spine t = true -> spineG t = true.
Proof.
  fix IH 1. intros t H. destruct t; cbn [spine spineG] in *; try (apply no_let_sg; exact H).
  apply andb_true_iff in H. destruct H as [Hd Hb]. rewrite (nl_defs_sg_defs _ Hd). cbn [andb]. apply IH. exact Hb.
Qed.

Theorem tcB_accepts_spineG : forall f' s G D t r Gz,
  ctx_relF G D Gz -> gzF Gz -> hole_free t = true -> spineG t = true ->
  tcB f' s G D t = Some r -> forall f T, infer f Gz t = Some T ->
  b_errs r = [] /\ exists T', zk (b_st r) (b_ty r) T' /\ hrg Gz T T'.
Proof.
  induction f' as [|f' IH]; intros s G D t r Gz HC HZ Hf Hs H f T HI; [discriminate|].
  assert (NL : sg t = true -> b_errs r = [] /\ exists T', zk (b_st r) (b_ty r) T' /\ hrg Gz T T').
  { intros Hn. destruct (tcB_accepts_sg _ _ _ _ _ _ _ HC HZ Hf Hn H _ _ HI) as (He & T' & Z & R).
    split; [exact He|]. exists T'. split; [exact Z | now apply hrg_base]. }
  destruct t; try (apply NL; exact Hs).
  clear NL. rewrite tcB_let_eq in H. cbv zeta in H.
  destruct f as [|f]; [discriminate|]. rewrite infer_let_eq in HI.
  rewrite hf_let in Hf. apply andb_true_iff in Hf. destruct Hf as [Hfd Hfb].
  cbn [spineG] in Hs. apply andb_true_iff in Hs. destruct Hs as [Hnd Hsb].
  set (G' := pushG (length defs) defs 0 G) in *. set (D' := pushD (length defs) defs 0 D) in *.
  assert (HC' : ctx_relF G' D' (enter defs Gz)) by (apply ctx_relF_push; assumption).
  assert (HZ' : gzF (enter defs Gz)) by (apply gzF_enter; assumption).
  pose proof HC' as (_ & HS' & HD').
  destruct (infer_defs (infer f (enter defs Gz)) (convb f (enter defs Gz)) defs) eqn:ID; [|discriminate].
  destruct (infer f (enter defs Gz) t) as [B|] eqn:IB; [|discriminate]. injection HI as <-.
  destruct (tc_defs f' (fun s0 d => tcB f' s0 G' D' d) D' defs s []) as [[[ds' s1] es1]|] eqn:E1; [|discriminate].
  destruct (tcB f' s1 G' D' t) as [rb|] eqn:E2; [|discriminate].
  destruct (group_typeB f' (length defs) ds' 0 (length defs) (b_ty rb) (b_st rb)) as [[T' s3]|] eqn:E3; [|discriminate].
  injection H as <-. cbn [b_errs b_st b_ty].
  assert (ds' = defs).
  { eapply tc_defs_id'; [|exact E1]. intros s0 d r0 Hr. exact (tcB_elab_identity _ _ _ _ _ _ Hr). }
  subst ds'.
  assert (es1 = []).
  { eapply (tc_defs_acceptsF f' _ D' (enter defs Gz) (infer f (enter defs Gz)) (convb f (enter defs Gz))); try eassumption.
    - intros s0 t0 r0 Hf0 Hn0 Hr0 T0 HI0. exact (tcB_accepts_sg _ _ _ _ _ _ _ HC' HZ' Hf0 Hn0 Hr0 _ _ HI0).
    - intros a b C. exists f. now apply is_true_some. }
  subst es1.
  destruct (IH _ _ _ _ _ _ HC' HZ' Hfb Hsb E2 _ _ IB) as (Heb & B' & Zb & Rb).
  destruct (group_typeB_zk _ _ _ Hfd _ _ _ _ _ _ _ Zb E3) as [-> ZT].
  split; [now rewrite Heb|]. eexists. split; [exact ZT | now apply hrg_group].
Qed.

Theorem tcB_total_spineG : forall f Gz t T, inferT f Gz t = Some T ->
  forall s G D, ctx_relF G D Gz -> gzF Gz -> hole_free t = true -> spineG t = true ->
  exists f' r, tcB f' s G D t = Some r.
Proof.
  induction f as [|f IH]; intros Gz t T HI s G D HC HZ Hf Hs; [discriminate|].
  assert (NL : sg t = true -> exists f' r, tcB f' s G D t = Some r).
  { intros Hn. exact (tcB_total_sg _ _ _ _ HI s G D HC HZ Hf Hn). }
  destruct t; try (apply NL; exact Hs). clear NL.
  cbn [inferT] in HI. cbv zeta in HI.
  rewrite hf_let in Hf. apply andb_true_iff in Hf. destruct Hf as [Hfd Hfb].
  cbn [spineG] in Hs. apply andb_true_iff in Hs. destruct Hs as [Hnd Hsb].
  set (G' := pushG (length defs) defs 0 G). set (D' := pushD (length defs) defs 0 D).
  assert (HC' : ctx_relF G' D' (enter defs Gz)) by (apply ctx_relF_push; assumption).
  assert (HZ' : gzF (enter defs Gz)) by (apply gzF_enter; assumption).
  destruct (infer_defs (inferT f (enter defs Gz)) (convb f (enter defs Gz)) defs) eqn:ID; [|discriminate].
  destruct (inferT f (enter defs Gz) t) as [B|] eqn:IB; [|discriminate].
  destruct (tc_defs_totalF _ _ _ _ f HC' HZ' (fun t0 T0 I0 s0 Hf0 Hn0 => tcB_total_sg _ _ _ _ I0 s0 G' D' HC' HZ' Hf0 Hn0) defs Hfd Hnd ID s [])
    as (f1 & [[ds' s1] es1] & E1).
  assert (ds' = defs).
  { eapply tc_defs_id'; [|exact E1]. intros s0 d r0 Hr. exact (tcB_elab_identity _ _ _ _ _ _ Hr). }
  subst ds'.
  destruct (IH _ _ _ IB s1 G' D' HC' HZ' Hfb Hsb) as (f2 & rb & E2).
  destruct (tcB_accepts_spineG _ _ _ _ _ _ _ HC' HZ' Hfb Hsb E2 _ _ (inferT_infer _ _ _ _ IB)) as (_ & B' & Zb & _).
  destruct (group_typeB_suff (b_st rb) (length defs) defs Hfd (length defs) 0 _ _ Zb) as (f3 & [T' s3] & E3).
  set (N := Nat.max f1 (Nat.max f2 f3)). assert (L1 : f1 <= N) by lia. assert (L2 : f2 <= N) by lia. assert (L3 : f3 <= N) by lia.
  exists (S N). eexists. rewrite tcB_let_eq. cbv zeta. fold G'. fold D'.
  rewrite (tc_defs_mono f1 N _ (fun s0 d => tcB N s0 G' D' d) D' L1 (fun s0 t0 r0 Hr => tcB_mono _ _ s0 G' D' t0 r0 L1 Hr) _ _ _ _ E1).
  rewrite (tcB_mono _ _ _ _ _ _ _ L2 E2), (group_typeB_mono _ _ _ _ L3 _ _ _ _ _ E3). reflexivity.
Qed.

(* the widest class covered: no false rejection, and completeness given that codomains normalise *)
Theorem tcB_no_false_rejection_spineG : forall f t T,
  hole_free t = true -> spineG t = true -> infer f [] t = Some T ->
  forall f' r, tcB f' [] [] [] t = Some r ->
  b_errs r = [] /\ exists T', zk (b_st r) (b_ty r) T' /\ hrg [] T T'.
Proof.
  intros f t T Hf Hs HI f' r H. exact (tcB_accepts_spineG _ _ _ _ _ _ _ ctx_relF_nil gzF_nil Hf Hs H _ _ HI).
Qed.

Theorem tcB_complete_hole_free_spineG : forall f t T,
  hole_free t = true -> spineG t = true -> inferT f [] t = Some T ->
  exists f0 r, (forall f', f0 <= f' -> tcB f' [] [] [] t = Some r) /\ b_errs r = [] /\
    exists T', zk (b_st r) (b_ty r) T' /\ hrg [] T T'.
Proof.
  intros f t T Hf Hs HI.
  destruct (tcB_total_spineG _ _ _ _ HI [] [] [] ctx_relF_nil gzF_nil Hf Hs) as (f0 & r & E).
  exists f0, r. split; [intros f' L; exact (tcB_mono _ _ _ _ _ _ _ L E)|].
  exact (tcB_no_false_rejection_spineG _ _ _ Hf Hs (inferT_infer _ _ _ _ HI) _ _ E).
Qed.

(* ====================================================================================== *)
(* K.  The exact relation between the three checkers (sg programs):                          *)
(*        inferT accepts   <->   infer accepts  /\  tcB answers                              *)
(* ====================================================================================== *)

(* ---------- inferT is monotone in the fuel ---------- *)
Theorem inferT_mono : forall f f' G t T, f <= f' -> inferT f G t = Some T -> inferT f' G t = Some T.
Proof.
  induction f as [|f IH]; intros f' G t T L H; [discriminate|].
  destruct f' as [|f']; [lia|]. assert (L' : f <= f') by lia.
  destruct t; cbn [inferT] in H |- *; try exact H.
  - destruct (inferT f G t1) as [Td|] eqn:E1; [|discriminate]. rewrite (IH _ _ _ _ L' E1).
    destruct (is_true (convb f G Td TType)) eqn:C1; [|discriminate]. rewrite (is_true_mono _ _ _ _ _ L' C1).
    destruct (inferT f (bind G t1) t2) as [B|] eqn:E2; [|discriminate]. rewrite (IH _ _ _ _ L' E2). exact H.
  - destruct (inferT f G t1) as [Td|] eqn:E1; [|discriminate]. rewrite (IH _ _ _ _ L' E1).
    destruct (is_true (convb f G Td TType)) eqn:C1; [|discriminate]. rewrite (is_true_mono _ _ _ _ _ L' C1).
    destruct (inferT f (bind G t1) t2) as [B|] eqn:E2; [|discriminate]. rewrite (IH _ _ _ _ L' E2).
    destruct (is_true (convb f (bind G t1) B TType)) eqn:C2; [|discriminate]. rewrite (is_true_mono _ _ _ _ _ L' C2).
    exact H.
  - destruct (inferT f G t1) as [F|] eqn:E1; [|discriminate]. rewrite (IH _ _ _ _ L' E1).
    destruct (whnf f G F) as [w|] eqn:W1; [|discriminate]. rewrite (whnf_mono _ _ _ _ _ L' W1).
    destruct w; try discriminate. destruct impl; try discriminate.
    destruct (whnf f (bind G w1) w2) as [w'|] eqn:W2; [|discriminate]. rewrite (whnf_mono _ _ _ _ _ L' W2).
    destruct (inferT f G t2) as [A'|] eqn:E2; [|discriminate]. rewrite (IH _ _ _ _ L' E2).
    destruct (is_true (convb f G A' w1)) eqn:C; [|discriminate]. rewrite (is_true_mono _ _ _ _ _ L' C). exact H.
  - cbv zeta in H |- *.
    destruct (infer_defs (inferT f (enter defs G)) (convb f (enter defs G)) defs) eqn:D; [|discriminate].
    assert (D' : infer_defs (inferT f' (enter defs G)) (convb f' (enter defs G)) defs = true).
    { eapply infer_defs_mono; [| |exact D].
      - intros; eapply IH; eauto.
      - intros; eapply is_true_mono; eauto. }
    rewrite D'.
    destruct (inferT f (enter defs G) t) as [B|] eqn:E; [|discriminate]. rewrite (IH _ _ _ _ L' E). exact H.
  - destruct (inferT f G t) as [Ta|] eqn:E1; [|discriminate]. rewrite (IH _ _ _ _ L' E1).
    destruct (is_true (convb f G Ta TInt)) eqn:C1; [|discriminate]. rewrite (is_true_mono _ _ _ _ _ L' C1). exact H.
  - destruct (inferT f G t1) as [Ta|] eqn:E1; [|discriminate]. rewrite (IH _ _ _ _ L' E1).
    destruct (inferT f G t2) as [Tb|] eqn:E2; [|discriminate]. rewrite (IH _ _ _ _ L' E2).
    destruct (is_true (convb f G Ta TInt) && is_true (convb f G Tb TInt)) eqn:C; [|discriminate].
    apply andb_prop in C as [C1 C2].
    rewrite (is_true_mono _ _ _ _ _ L' C1), (is_true_mono _ _ _ _ _ L' C2). exact H.
  - destruct (inferT f G t1) as [Tc|] eqn:E1; [|discriminate]. rewrite (IH _ _ _ _ L' E1).
    destruct (inferT f G t2) as [Ta|] eqn:E2; [|discriminate]. rewrite (IH _ _ _ _ L' E2).
    destruct (inferT f G t3) as [Tb|] eqn:E3; [|discriminate]. rewrite (IH _ _ _ _ L' E3).
    destruct (is_true (convb f G Tc TBool) && is_true (convb f G Tb Ta)) eqn:C; [|discriminate].
    apply andb_prop in C as [C1 C2].
    rewrite (is_true_mono _ _ _ _ _ L' C1), (is_true_mono _ _ _ _ _ L' C2). exact H.
Qed.

(* ---------- a term has a whnf as soon as one of its reducts has (converse of red_whnf) ---------- *)
Lemma red_whnf_inv G t t1 : red G t t1 -> forall f u, whnf f G t1 = Some u -> exists f', whnf f' G t = Some u.
Proof.
  induction 1 as [im d b a | i d Hd | ds b | z | o x y r Ha | a b | a b
                  | f0 f0' a Hr IH | a a' Hr IH | o a a' b Hr IH | o a b b' Hr IH | c c' a b Hr IH];
    intros n u H.
  - exists (S (S n)). cbn [whnf]. exact (whnf_mono _ _ _ _ _ (Nat.le_succ_diag_r n) H).
  - exists (S n). cbn [whnf]. now rewrite Hd.
  - exists (S n). exact H.
  - destruct n as [|n]; [discriminate|]. cbn [whnf] in H. injection H as <-. exists 2. reflexivity.
  - destruct n as [|n]; [discriminate|]. rewrite (whnf_arith_res _ _ _ _ n G Ha) in H. injection H as <-.
    exists 2. cbn [whnf]. now rewrite Ha.
  - exists (S (S n)). cbn [whnf]. exact (whnf_mono _ _ _ _ _ (Nat.le_succ_diag_r n) H).
  - exists (S (S n)). cbn [whnf]. exact (whnf_mono _ _ _ _ _ (Nat.le_succ_diag_r n) H).
  - destruct n as [|n]; [discriminate|]. cbn [whnf] in H.
    destruct (whnf n G f0') as [a'|] eqn:E1; [|discriminate]. destruct (IH _ _ E1) as [n' E1'].
    exists (S (Nat.max n n')). cbn [whnf]. rewrite (whnf_mono n' (Nat.max n n') _ _ _ ltac:(lia) E1').
    destruct a'; try exact H. eapply whnf_mono; [|exact H]. lia.
  - destruct n as [|n]; [discriminate|]. cbn [whnf] in H.
    destruct (whnf n G a') as [x|] eqn:E1; [|discriminate]. destruct (IH _ _ E1) as [n' E1'].
    exists (S n'). cbn [whnf]. rewrite E1'. exact H.
  - destruct n as [|n]; [discriminate|]. cbn [whnf] in H.
    destruct (whnf n G a') as [x|] eqn:E1; [|discriminate]. destruct (IH _ _ E1) as [n' E1'].
    destruct (whnf n G b) as [y|] eqn:E2; [|destruct x; discriminate].
    exists (S (Nat.max n n')). cbn [whnf].
    rewrite (whnf_mono n' (Nat.max n n') _ _ _ ltac:(lia) E1'), (whnf_mono n (Nat.max n n') _ _ _ ltac:(lia) E2). exact H.
  - destruct n as [|n]; [discriminate|]. cbn [whnf] in H.
    destruct (whnf n G a) as [x|] eqn:E1; [|discriminate].
    destruct (whnf n G b') as [y|] eqn:E2; [|destruct x; discriminate]. destruct (IH _ _ E2) as [n' E2'].
    exists (S (Nat.max n n')). cbn [whnf].
    rewrite (whnf_mono n (Nat.max n n') _ _ _ ltac:(lia) E1), (whnf_mono n' (Nat.max n n') _ _ _ ltac:(lia) E2'). exact H.
  - destruct n as [|n]; [discriminate|]. cbn [whnf] in H.
    destruct (whnf n G c') as [x|] eqn:E1; [|discriminate]. destruct (IH _ _ E1) as [n' E1'].
    exists (S (Nat.max n n')). cbn [whnf]. rewrite (whnf_mono n' (Nat.max n n') _ _ _ ltac:(lia) E1').
    destruct x; try exact H; (eapply whnf_mono; [|exact H]; lia).
Qed.

Lemma hr_whnf_inv G t t' : hr G t t' -> forall f u', whnf f G t' = Some u' -> exists f' u, whnf f' G t = Some u.
Proof.
  induction 1; intros f u' W.
  - eauto.
  - destruct (IHhr _ _ W) as (f1 & u & W1). destruct (red_whnf_inv _ _ _ H _ _ W1) as [f2 W2]. eauto.
  - exists 1. eexists. reflexivity.
Qed.

(* L3 once more: when the probe answers, the codomain of the function type has a whnf *)
Theorem unifyB_pi_fresh_whnf f s D dom cod F Fu ok s' G f0 A B :
  hf_dctx D -> same_defs G (G_of_D D) -> dom <> cod ->
  sget s dom = None -> sget s cod = None -> dom < length s -> cod < length s ->
  zk s F Fu -> whnf f0 G Fu = Some (TPi false A B) ->
  unifyB f s D (TPi false (THole dom 0) (THole cod 0)) F = Some (ok, s') ->
  exists fb B2, whnf fb (bind G A) B = Some B2.
Proof.
  intros HD HG Hne Hn1 Hn2 Hl1 Hl2 Hz HW H. destruct f as [|f]; [discriminate|].
  rewrite unifyB_S in H. unfold unify_body in H.
  destruct (syn_eqB f s (TPi false (THole dom 0) (THole cod 0)) F) as [e|] eqn:Es; [|discriminate].
  apply (syn_eqB_pi_fresh _ _ _ _ _ _ _ _ _ Hn1 Hz) in Es. subst e.
  destruct (whnfB f s D (TPi false (THole dom 0) (THole cod 0))) as [[w1 s1]|] eqn:W1; [|discriminate].
  destruct (whnfB_pi _ _ _ _ _ _ _ _ W1) as [-> ->].
  destruct (whnfB f s D F) as [[w2 s2]|] eqn:W2; [|discriminate].
  destruct (whnfB_zk _ _ _ _ _ _ _ HD Hz W2) as (-> & Nh & wu & Zw & W).
  rewrite <- (whnf_same_defs f G (G_of_D D) Fu HG) in W.
  pose proof (whnf_det _ _ _ _ _ _ W HW) as ->.
  destruct w2; try discriminate Nh; apply zk_inv in Zw; cbn beta iota in Zw;
    repeat match goal with X : exists _, _ |- _ => destruct X | X : _ /\ _ |- _ => destruct X end; try discriminate.
  match goal with X : TPi _ _ _ = TPi _ _ _ |- _ => injection X as <- <- <- end.
  cbv beta iota zeta delta [unify_head] in H. cbn [Bool.eqb] in H.
  destruct (unifyB f s D (THole dom 0) w2_1) as [[u1 sa]|] eqn:U1; [|discriminate].
  match goal with Hd2 : zk s w2_1 _, Hb2 : zk s w2_2 _ |- _ =>
    destruct (unifyB_fresh_hole _ _ _ _ _ _ _ _ HD Hn1 Hd2 U1) as (-> & sol1 & A2 & f1 & -> & Zs1 & WA);
    assert (E1 : StoreProofs.ext s (sset s dom sol1)) by (apply sset_ext; exact Hn1);
    assert (Hn2' : sget (sset s dom sol1) cod = None) by (rewrite sget_sset_other; [exact Hn2 | congruence]);
    destruct (unifyB_fresh_hole _ _ _ _ _ _ _ _ (hf_dctx_cons_None _ HD) Hn2' (zk_ext _ _ _ _ E1 Hb2) H)
      as (-> & sol2 & B2 & f2 & -> & Zs2 & WB)
  end.
  exists f2, B2. rewrite (whnf_same_defs f2 (bind G A) (G_of_D (None :: D)) _) by (apply same_defs_bind; exact HG). exact WB.
Qed.

(* the sub-runs of the loop over the definitions of a group *)
Lemma tc_defs_runs f' (tc : storeB -> term -> option tcres) D' : forall l s0 es res,
  tc_defs f' tc D' l s0 es = Some res ->
  Forall (fun p : term * term => (exists s r, tc s (fst p) = Some r) /\ (exists s r, tc s (snd p) = Some r)) l.
Proof.
  induction l as [|[a d] rest IHl]; intros s0 es res H; [constructor|]. cbn [tc_defs] in H.
  destruct (tc s0 a) as [ra|] eqn:E1; [|discriminate].
  destruct (expectB f' (b_st ra) D' (b_ty ra) TType ENotType (es ++ b_errs ra)) as [[s0a es0]|]; [|discriminate].
  destruct (tc s0a d) as [rd|] eqn:E2; [|discriminate].
  destruct (expectB f' (b_st rd) D' (b_ty rd) a EAnnotation (es0 ++ b_errs rd)) as [[s2 es2]|]; [|discriminate].
  destruct (tc_defs f' tc D' rest s2 es2) as [res'|] eqn:E3; [|discriminate].
  constructor; [cbn [fst snd]; split; eauto | eapply IHl; exact E3].
Qed.

Lemma infer_defs_inferT f G' : forall l, infer_defs (infer f G') (convb f G') l = true ->
  Forall (fun p : term * term => (forall T, infer f G' (fst p) = Some T -> exists n, inferT n G' (fst p) = Some T) /\
                                 (forall T, infer f G' (snd p) = Some T -> exists n, inferT n G' (snd p) = Some T)) l ->
  exists N, f <= N /\ infer_defs (inferT N G') (convb N G') l = true.
Proof.
  induction l as [|[a d] rest IHl]; intros HI HF; [exists f; split; [lia | reflexivity]|].
  inversion HF as [|? ? [Ha Hd] Hrest]; subst. cbn [fst snd] in *. cbn [infer_defs] in HI.
  destruct (infer f G' a) as [Ta|] eqn:I1; [|discriminate]. destruct (infer f G' d) as [Td|] eqn:I2; [|discriminate].
  apply andb_true_iff in HI. destruct HI as [HI HI3]. apply andb_true_iff in HI. destruct HI as [C1 C2].
  destruct (Ha _ eq_refl) as [n1 J1]. destruct (Hd _ eq_refl) as [n2 J2]. destruct (IHl HI3 Hrest) as (n3 & L3 & J3).
  set (N := Nat.max n1 (Nat.max n2 n3)). assert (L1 : n1 <= N) by lia. assert (L2 : n2 <= N) by lia. assert (L3' : n3 <= N) by lia.
  assert (Lf : f <= N) by lia.
  exists N. split; [exact Lf|]. cbn [infer_defs].
  rewrite (inferT_mono _ _ _ _ _ L1 J1), (inferT_mono _ _ _ _ _ L2 J2).
  rewrite (is_true_mono _ _ _ _ _ Lf C1), (is_true_mono _ _ _ _ _ Lf C2). cbn [andb].
  eapply infer_defs_mono; [| |exact J3].
  - intros t T H. exact (inferT_mono _ _ _ _ _ L3' H).
  - intros x y H. exact (is_true_mono _ _ _ _ _ L3' H).
Qed.

Theorem infer_tcB_inferT : forall f Gz t T, infer f Gz t = Some T ->
  forall f' s G D r, ctx_relF G D Gz -> gzF Gz -> hole_free t = true -> sg t = true ->
  tcB f' s G D t = Some r -> exists n, inferT n Gz t = Some T.
Proof.
  induction f as [|f IH]; intros Gz t T HI f' s G D r HC HZ Hf Hn H; [discriminate|].
  destruct f' as [|f']; [discriminate|].
  pose proof HC as (HC1 & HS & HD). pose proof HZ as (WZ & HZf).
  destruct t; [| | | | | | | | | | | rewrite tcB_let_eq in H; cbv zeta in H; rewrite infer_let_eq in HI | | | ];
    try (cbn [tcB] in H); cbn [hole_free] in Hf; cbn [sg] in Hn; try (cbn [infer] in HI); try (exists 1; exact HI).
  - (* lam *)
    apply andb_true_iff in Hf; destruct Hf as [Hf1 Hf2]. apply andb_true_iff in Hn; destruct Hn as [Hn1 Hn2].
    destruct (infer f Gz t1) as [Td|] eqn:I1; [|discriminate].
    destruct (is_true (convb f Gz Td TType)) eqn:C1; [|discriminate].
    destruct (infer f (bind Gz t1) t2) as [B|] eqn:I2; [|discriminate]. injection HI as <-.
    destruct (tcB f' s G D t1) as [rd|] eqn:E1; [|discriminate].
    destruct (expectB f' (b_st rd) D (b_ty rd) TType ENotType (b_errs rd)) as [[s1 es1]|] eqn:X1; [|discriminate].
    destruct (tcB f' s1 ((b_elab rd, 0) :: G) (None :: D) t2) as [rb|] eqn:E2; [|discriminate].
    rewrite (tcB_elab_identity _ _ _ _ _ _ E1) in E2.
    destruct (IH _ _ _ I1 _ _ _ _ _ HC HZ Hf1 Hn1 E1) as [n1 J1].
    destruct (IH _ _ _ I2 _ _ _ _ _ (ctx_relF_bind _ _ _ _ HC Hf1) (gzF_bind _ _ HZ Hf1) Hf2 Hn2 E2) as [n2 J2].
    set (N := Nat.max f (Nat.max n1 n2)). assert (L0 : f <= N) by lia. assert (L1 : n1 <= N) by lia. assert (L2 : n2 <= N) by lia.
    exists (S N). cbn [inferT]. rewrite (inferT_mono _ _ _ _ _ L1 J1), (is_true_mono _ _ _ _ _ L0 C1), (inferT_mono _ _ _ _ _ L2 J2). reflexivity.
  - (* pi *)
    apply andb_true_iff in Hf; destruct Hf as [Hf1 Hf2]. apply andb_true_iff in Hn; destruct Hn as [Hn1 Hn2].
    destruct (infer f Gz t1) as [Td|] eqn:I1; [|discriminate].
    destruct (is_true (convb f Gz Td TType)) eqn:C1; [|discriminate].
    destruct (infer f (bind Gz t1) t2) as [Tb|] eqn:I2; [|discriminate].
    destruct (is_true (convb f (bind Gz t1) Tb TType)) eqn:C2; [|discriminate]. injection HI as <-.
    destruct (tcB f' s G D t1) as [rd|] eqn:E1; [|discriminate].
    destruct (expectB f' (b_st rd) D (b_ty rd) TType ENotType (b_errs rd)) as [[s1 es1]|] eqn:X1; [|discriminate].
    destruct (tcB f' s1 ((b_elab rd, 0) :: G) (None :: D) t2) as [rb|] eqn:E2; [|discriminate].
    rewrite (tcB_elab_identity _ _ _ _ _ _ E1) in E2.
    destruct (IH _ _ _ I1 _ _ _ _ _ HC HZ Hf1 Hn1 E1) as [n1 J1].
    destruct (IH _ _ _ I2 _ _ _ _ _ (ctx_relF_bind _ _ _ _ HC Hf1) (gzF_bind _ _ HZ Hf1) Hf2 Hn2 E2) as [n2 J2].
    set (N := Nat.max f (Nat.max n1 n2)). assert (L0 : f <= N) by lia. assert (L1 : n1 <= N) by lia. assert (L2 : n2 <= N) by lia.
    exists (S N). cbn [inferT]. rewrite (inferT_mono _ _ _ _ _ L1 J1), (is_true_mono _ _ _ _ _ L0 C1), (inferT_mono _ _ _ _ _ L2 J2).
    rewrite (is_true_mono _ _ _ _ _ L0 C2). reflexivity.
  - (* app *)
    apply andb_true_iff in Hf; destruct Hf as [Hf1 Hf2]. apply andb_true_iff in Hn; destruct Hn as [Hn1 Hn2].
    destruct (infer f Gz t1) as [F|] eqn:I1; [|discriminate].
    destruct (whnf f Gz F) as [[ ? ? | | | | | | ? | ? | ? ? ? | im A B | ? ? | ? ? | ? | ? ? ? | ? ? ? ]|] eqn:W1; try discriminate.
    destruct im; try discriminate.
    destruct (infer f Gz t2) as [A0|] eqn:I2; [|discriminate].
    destruct (is_true (convb f Gz A0 A)) eqn:C1; [|discriminate]. injection HI as <-.
    destruct (tcB f' s G D t1) as [ra|] eqn:E1; [|discriminate].
    unfold fresh_hole, salloc in H.
    set (s0 := b_st ra) in *. set (s2 := (s0 ++ [None]) ++ [None]) in *.
    destruct (expectB f' s2 D (TPi false (THole (length s0) 0) (THole (length (s0 ++ [None])) 0)) (b_ty ra) ENotFunction (b_errs ra))
      as [[s3 es3]|] eqn:X1; [|discriminate].
    destruct (tcB f' s3 G D t2) as [rb|] eqn:E2; [|discriminate].
    destruct (IH _ _ _ I1 _ _ _ _ _ HC HZ Hf1 Hn1 E1) as [n1 J1].
    destruct (IH _ _ _ I2 _ _ _ _ _ HC HZ Hf2 Hn2 E2) as [n2 J2].
    (* the codomain has a whnf, because the probe answered *)
    destruct (tcB_accepts_sg _ _ _ _ _ _ _ HC HZ Hf1 Hn1 E1 _ _ I1) as (_ & F' & Zf & Rf). fold s0 in Zf.
    destruct (hr_whnf _ _ _ Rf _ _ W1) as (g1 & u' & W1' & Hu).
    destruct (hrw_pi_inv _ _ _ _ _ Hu) as (A' & B' & -> & RA & RB).
    assert (G02 : grow s0 s2) by (eapply grow_trans; apply grow_snoc).
    assert (Zf2 : zk s2 (b_ty ra) F') by (eapply zk_ext; [apply grow_ext; exact G02 | exact Zf]).
    assert (L2s : length s2 = S (S (length s0))) by (unfold s2; rewrite !app_length; cbn [length]; lia).
    assert (L1s : length (s0 ++ [None]) = S (length s0)) by (rewrite app_length; cbn [length]; lia).
    assert (Hn_dom : sget s2 (length s0) = None) by (rewrite (grow_sget _ _ _ G02); apply sget_ge; lia).
    assert (Hn_cod : sget s2 (length (s0 ++ [None])) = None).
    { unfold s2. rewrite (grow_sget _ _ _ (grow_snoc (s0 ++ [None]))). apply sget_ge. lia. }
    assert (Hne : length s0 <> length (s0 ++ [None])) by lia.
    assert (Hl1 : length s0 < length s2) by lia. assert (Hl2 : length (s0 ++ [None]) < length s2) by lia.
    unfold expectB in X1.
    destruct (unifyB f' s2 D (TPi false (THole (length s0) 0) (THole (length (s0 ++ [None])) 0)) (b_ty ra)) as [[ok1 s3']|] eqn:U1; [|discriminate].
    destruct (unifyB_pi_fresh_whnf _ _ _ _ _ _ _ _ _ Gz _ _ _ HD HS Hne Hn_dom Hn_cod Hl1 Hl2 Zf2 W1' U1) as (fb & B2 & WB').
    rewrite (whnf_same_defs fb (bind Gz A') (bind Gz A) B') in WB' by (apply same_defs_bind, same_defs_refl).
    destruct (hr_whnf_inv _ _ _ RB _ _ WB') as (fb' & Bu & WB).
    set (N := Nat.max f (Nat.max n1 (Nat.max n2 fb'))).
    assert (L0 : f <= N) by lia. assert (L1 : n1 <= N) by lia. assert (L2 : n2 <= N) by lia. assert (L3 : fb' <= N) by lia.
    exists (S N). cbn [inferT]. rewrite (inferT_mono _ _ _ _ _ L1 J1), (whnf_mono _ _ _ _ _ L0 W1), (whnf_mono _ _ _ _ _ L3 WB).
    rewrite (inferT_mono _ _ _ _ _ L2 J2), (is_true_mono _ _ _ _ _ L0 C1). reflexivity.
  - (* let *)
    change (ModelBHoleFree.hf_defs defs && hole_free t = true) in Hf. apply andb_true_iff in Hf. destruct Hf as [Hfd Hfb].
    apply andb_true_iff in Hn. destruct Hn as [Hn Hsb]. apply andb_true_iff in Hn. destruct Hn as [Hl Hsd].
    change (sg_defs defs = true) in Hsd.
    set (G' := pushG (length defs) defs 0 G) in *. set (D' := pushD (length defs) defs 0 D) in *.
    assert (HC' : ctx_relF G' D' (enter defs Gz)) by (apply ctx_relF_push; assumption).
    assert (HZ' : gzF (enter defs Gz)) by (apply gzF_enter; assumption).
    destruct (infer_defs (infer f (enter defs Gz)) (convb f (enter defs Gz)) defs) eqn:ID; [|discriminate].
    destruct (infer f (enter defs Gz) t) as [B|] eqn:IB; [|discriminate]. injection HI as <-.
    destruct (tc_defs f' (fun s0 d => tcB f' s0 G' D' d) D' defs s []) as [[[ds' s1] es1]|] eqn:E1; [|discriminate].
    destruct (tcB f' s1 G' D' t) as [rb|] eqn:E2; [|discriminate].
    destruct (IH _ _ _ IB _ _ _ _ _ HC' HZ' Hfb Hsb E2) as [n2 J2].
    pose proof (tc_defs_runs _ _ _ _ _ _ _ E1) as Runs.
    assert (HF : Forall (fun p : term * term =>
                   (forall T, infer f (enter defs Gz) (fst p) = Some T -> exists n, inferT n (enter defs Gz) (fst p) = Some T) /\
                   (forall T, infer f (enter defs Gz) (snd p) = Some T -> exists n, inferT n (enter defs Gz) (snd p) = Some T)) defs).
    { apply hf_defs_Forall in Hfd. unfold sg_defs in Hsd. rewrite forallb_forall in Hsd.
      rewrite Forall_forall in Runs, Hfd |- *. intros [a d] Hin. specialize (Runs _ Hin). specialize (Hfd _ Hin). specialize (Hsd _ Hin).
      cbn [fst snd] in *. apply andb_true_iff in Hsd. destruct Hsd as [Sa Sd]. destruct Hfd as [Fa Fd].
      destruct Runs as [(sa & ra & Ra) (sd & rd & Rd)]. split; intros T0 I0.
      - exact (IH _ _ _ I0 _ _ _ _ _ HC' HZ' Fa Sa Ra).
      - exact (IH _ _ _ I0 _ _ _ _ _ HC' HZ' Fd Sd Rd). }
    destruct (infer_defs_inferT _ _ _ ID HF) as (n1 & L1' & J1).
    set (N := Nat.max n1 n2). assert (L1 : n1 <= N) by lia. assert (L2 : n2 <= N) by lia.
    exists (S N). cbn [inferT]. cbv zeta.
    assert (J1' : infer_defs (inferT N (enter defs Gz)) (convb N (enter defs Gz)) defs = true).
    { eapply infer_defs_mono; [| |exact J1].
      - intros t0 T0 H0. exact (inferT_mono _ _ _ _ _ L1 H0).
      - intros x y H0. exact (is_true_mono _ _ _ _ _ L1 H0). }
    rewrite J1', (inferT_mono _ _ _ _ _ L2 J2). reflexivity.
  - (* neg *)
    destruct (infer f Gz t) as [Ta|] eqn:I1; [|discriminate].
    destruct (is_true (convb f Gz Ta TInt)) eqn:C1; [|discriminate]. injection HI as <-.
    destruct (tcB f' s G D t) as [ra|] eqn:E1; [|discriminate].
    destruct (IH _ _ _ I1 _ _ _ _ _ HC HZ Hf Hn E1) as [n1 J1].
    set (N := Nat.max f n1). assert (L0 : f <= N) by lia. assert (L1 : n1 <= N) by lia.
    exists (S N). cbn [inferT]. rewrite (inferT_mono _ _ _ _ _ L1 J1), (is_true_mono _ _ _ _ _ L0 C1). reflexivity.
  - (* bin *)
    apply andb_true_iff in Hf; destruct Hf as [Hf1 Hf2]. apply andb_true_iff in Hn; destruct Hn as [Hn1 Hn2].
    destruct (infer f Gz t1) as [Ta|] eqn:I1; [|discriminate].
    destruct (infer f Gz t2) as [Tb|] eqn:I2; [|discriminate].
    destruct (is_true (convb f Gz Ta TInt) && is_true (convb f Gz Tb TInt)) eqn:C; [|discriminate].
    apply andb_true_iff in C; destruct C as [C1 C2]. injection HI as <-.
    destruct (tcB f' s G D t1) as [ra|] eqn:E1; [|discriminate].
    destruct (expectB f' (b_st ra) D (b_ty ra) TInt ENotInt (b_errs ra)) as [[s1 es1]|] eqn:X1; [|discriminate].
    destruct (tcB f' s1 G D t2) as [rb|] eqn:E2; [|discriminate].
    destruct (IH _ _ _ I1 _ _ _ _ _ HC HZ Hf1 Hn1 E1) as [n1 J1].
    destruct (IH _ _ _ I2 _ _ _ _ _ HC HZ Hf2 Hn2 E2) as [n2 J2].
    set (N := Nat.max f (Nat.max n1 n2)). assert (L0 : f <= N) by lia. assert (L1 : n1 <= N) by lia. assert (L2 : n2 <= N) by lia.
    exists (S N). cbn [inferT]. rewrite (inferT_mono _ _ _ _ _ L1 J1), (inferT_mono _ _ _ _ _ L2 J2).
    rewrite (is_true_mono _ _ _ _ _ L0 C1), (is_true_mono _ _ _ _ _ L0 C2). reflexivity.
  - (* if *)
    apply andb_true_iff in Hf; destruct Hf as [Hf12 Hf3]. apply andb_true_iff in Hf12; destruct Hf12 as [Hf1 Hf2].
    apply andb_true_iff in Hn; destruct Hn as [Hn12 Hn3]. apply andb_true_iff in Hn12; destruct Hn12 as [Hn1 Hn2].
    destruct (infer f Gz t1) as [Tc|] eqn:I1; [|discriminate].
    destruct (infer f Gz t2) as [Ta|] eqn:I2; [|discriminate].
    destruct (infer f Gz t3) as [Tb|] eqn:I3; [|discriminate].
    destruct (is_true (convb f Gz Tc TBool) && is_true (convb f Gz Tb Ta)) eqn:C; [|discriminate].
    apply andb_true_iff in C; destruct C as [C1 C2]. injection HI as <-.
    destruct (tcB f' s G D t1) as [rc|] eqn:E1; [|discriminate].
    destruct (expectB f' (b_st rc) D (b_ty rc) TBool ENotBool (b_errs rc)) as [[s1 es1]|] eqn:X1; [|discriminate].
    destruct (tcB f' s1 G D t2) as [ra|] eqn:E2; [|discriminate].
    destruct (tcB f' (b_st ra) G D t3) as [rb|] eqn:E3; [|discriminate].
    destruct (IH _ _ _ I1 _ _ _ _ _ HC HZ Hf1 Hn1 E1) as [n1 J1].
    destruct (IH _ _ _ I2 _ _ _ _ _ HC HZ Hf2 Hn2 E2) as [n2 J2].
    destruct (IH _ _ _ I3 _ _ _ _ _ HC HZ Hf3 Hn3 E3) as [n3 J3].
    set (N := Nat.max f (Nat.max n1 (Nat.max n2 n3))).
    assert (L0 : f <= N) by lia. assert (L1 : n1 <= N) by lia. assert (L2 : n2 <= N) by lia. assert (L3 : n3 <= N) by lia.
    exists (S N). cbn [inferT]. rewrite (inferT_mono _ _ _ _ _ L1 J1), (inferT_mono _ _ _ _ _ L2 J2), (inferT_mono _ _ _ _ _ L3 J3).
    rewrite (is_true_mono _ _ _ _ _ L0 C1), (is_true_mono _ _ _ _ _ L0 C2). reflexivity.
Qed.

(* C.  The exact relation: on hole-free programs whose groups have at most one definition, inferT
   accepts exactly when infer accepts AND tcB answers (for some fuel; it then accepts, for every
   larger fuel, with a definitionally equal type: tcB_complete_hole_free).  So the ONLY thing that
   separates "infer accepts" from "tcB accepts", in this direction, is termination of the
   normalisation of the codomains of applied function types. *)
Theorem inferT_iff_infer_and_tcB_answers : forall t, hole_free t = true -> sg t = true ->
  ((exists f T, inferT f [] t = Some T) <->
   ((exists f T, infer f [] t = Some T) /\ (exists f r, tcB f [] [] [] t = Some r))).
Proof.
  intros t Hf Hs. split.
  - intros (f & T & HI). split; [exists f, T; exact (inferT_infer _ _ _ _ HI)|].
    destruct (tcB_complete_hole_free _ _ _ Hf Hs HI) as (f0 & r & H & _). exists f0, r. apply H. lia.
  - intros [(f & T & HI) (f' & r & H)].
    destruct (infer_tcB_inferT _ _ _ _ HI _ _ _ _ _ ctx_relF_nil gzF_nil Hf Hs H) as [n J]. eauto.
Qed.

(* the headline theorems (Print Assumptions is transitive: the lemmas they use are covered) *)
Print Assumptions hr_group_exit.
Print Assumptions tcB_accepts_sg.
Print Assumptions unifyB_completeG.
Print Assumptions tcB_no_false_rejection.
Print Assumptions tcB_complete_hole_free.
Print Assumptions checkers_incomparable.
Print Assumptions ex_group_type_arg_complete.
Print Assumptions tcB_complete_hole_free_spineG.
Print Assumptions inferT_iff_infer_and_tcB_answers.
