(* C19: meaning-preserving rewrites of a program change neither acceptance by the verified checker
   (`infer`, Oracle/Infer.v) nor the result of the evaluator model (`evaluate`, Model/Eval.v).
     R1  if true then e else e'              TIf TTrue e e'
     R2  annotated identity wrapper          TApp (TLam false A (TVar 0)) e
     R3  unused definition                   TLet [(A, v)] (ushift e 0 1)
     R4  naming a subexpression              TLet [(ushift A 0 1, ushift e 0 1)] (TVar 0)
     R5  sequences of rewrites, R6 rewrites under a head context.
   Hole-free terms. *)
From Coq Require Import List ZArith Lia Bool Arith Relations.
Import ListNotations.
Require Import Gram.Model.Term Gram.Model.DeBruijn Gram.Model.Eval Gram.Spec.Cbv Gram.Spec.Typing Gram.Oracle.Infer.
Require Import Gram.Proofs.DeBruijnLaws Gram.Proofs.CbvProofs Gram.Proofs.CtxProofs Gram.Proofs.InferSound
  Gram.Proofs.ConvProofs Gram.Proofs.RewriteProofs Gram.Proofs.EvalEnvProofs.
Require Gram.Proofs.ModelBHoleFree.
Require Import Gram.Proofs.WeakenProofs Gram.Proofs.WeakenInfer.

(* ------------------------------------------------------------------------------------------- *)
(* Part 0. Fuel monotonicity of the conversion test and of the checker.                        *)
(* ------------------------------------------------------------------------------------------- *)

Definition whnf_mono := Gram.Proofs.ModelBHoleFree.whnf_mono.

Lemma and3_mono x x' (y y' : unit -> option bool) r :
  (forall r, x = Some r -> x' = Some r) -> (forall r, y tt = Some r -> y' tt = Some r) ->
  and3 x y = Some r -> and3 x' y' = Some r.
Proof.
  intros Hx Hy H. unfold and3 in *. destruct x as [[|]|]; try discriminate.
  - rewrite (Hx _ eq_refl). auto.
  - rewrite (Hx _ eq_refl). exact H.
Qed.

Theorem convb_mono : forall f f' G a b r, f <= f' -> convb f G a b = Some r -> convb f' G a b = Some r.
Proof.
  induction f as [|f IH]; intros f' G a b r L H; [discriminate|].
  destruct f' as [|f']; [lia|]. assert (L' : f <= f') by lia.
  cbn [convb] in H |- *.
  destruct (whnf f G a) as [a'|] eqn:Ea; [|discriminate].
  destruct (whnf f G b) as [b'|] eqn:Eb; [|discriminate].
  rewrite (whnf_mono _ _ _ _ _ L' Ea), (whnf_mono _ _ _ _ _ L' Eb).
  destruct a', b'; try exact H.
  - destruct (Bool.eqb impl impl0); [eauto | exact H].
  - destruct (Bool.eqb impl impl0); [|exact H]. eapply and3_mono; [| |exact H]; eauto.
  - eapply and3_mono; [| |exact H]; eauto.
  - eauto.
  - destruct (binop_eqb o o0); [|exact H]. eapply and3_mono; [| |exact H]; eauto.
  - eapply and3_mono; [| |exact H]; eauto. intros r0 H0. eapply and3_mono; [| |exact H0]; eauto.
Qed.

Lemma is_true_mono f f' G a b : f <= f' -> is_true (convb f G a b) = true -> is_true (convb f' G a b) = true.
Proof.
  intros L H. unfold is_true in *. destruct (convb f G a b) as [[|]|] eqn:E; try discriminate.
  now rewrite (convb_mono _ _ _ _ _ _ L E).
Qed.

Lemma is_true_iff o : is_true o = true <-> o = Some true.
Proof. unfold is_true. destruct o as [[|]|]; split; congruence. Qed.

Lemma infer_defs_mono (inf inf' : term -> option term) (cv cv' : term -> term -> option bool) :
  (forall t T, inf t = Some T -> inf' t = Some T) ->
  (forall a b, is_true (cv a b) = true -> is_true (cv' a b) = true) ->
  forall l, infer_defs inf cv l = true -> infer_defs inf' cv' l = true.
Proof.
  intros Hi Hc. induction l as [|[a d] r IHl]; cbn [infer_defs]; intros H; [reflexivity|].
  destruct (inf a) as [Ta|] eqn:Ia; [|discriminate]. destruct (inf d) as [Td|] eqn:Id; [|discriminate].
  rewrite (Hi _ _ Ia), (Hi _ _ Id).
  apply andb_prop in H as [H12 H3]. apply andb_prop in H12 as [H1 H2].
  rewrite (Hc _ _ H1), (Hc _ _ H2), (IHl H3). reflexivity.
Qed.

Theorem infer_mono : forall f f' G t T, f <= f' -> infer f G t = Some T -> infer f' G t = Some T.
Proof.
  induction f as [|f IH]; intros f' G t T L H; [discriminate|].
  destruct f' as [|f']; [lia|]. assert (L' : f <= f') by lia.
  destruct t; cbn [infer] in H |- *; try exact H.
  - (* lam *)
    destruct (infer f G t1) as [Td|] eqn:E1; [|discriminate]. rewrite (IH _ _ _ _ L' E1).
    destruct (is_true (convb f G Td TType)) eqn:C1; [|discriminate]. rewrite (is_true_mono _ _ _ _ _ L' C1).
    destruct (infer f (bind G t1) t2) as [B|] eqn:E2; [|discriminate]. rewrite (IH _ _ _ _ L' E2). exact H.
  - (* pi *)
    destruct (infer f G t1) as [Td|] eqn:E1; [|discriminate]. rewrite (IH _ _ _ _ L' E1).
    destruct (is_true (convb f G Td TType)) eqn:C1; [|discriminate]. rewrite (is_true_mono _ _ _ _ _ L' C1).
    destruct (infer f (bind G t1) t2) as [B|] eqn:E2; [|discriminate]. rewrite (IH _ _ _ _ L' E2).
    destruct (is_true (convb f (bind G t1) B TType)) eqn:C2; [|discriminate]. rewrite (is_true_mono _ _ _ _ _ L' C2).
    exact H.
  - (* app *)
    destruct (infer f G t1) as [F|] eqn:E1; [|discriminate]. rewrite (IH _ _ _ _ L' E1).
    destruct (whnf f G F) as [w|] eqn:W1; [|discriminate]. rewrite (whnf_mono _ _ _ _ _ L' W1).
    destruct w; try discriminate. destruct impl; try discriminate.
    destruct (infer f G t2) as [A'|] eqn:E2; [|discriminate]. rewrite (IH _ _ _ _ L' E2).
    destruct (is_true (convb f G A' w1)) eqn:C; [|discriminate]. rewrite (is_true_mono _ _ _ _ _ L' C). exact H.
  - (* let *)
    destruct (infer_defs (infer f (enter defs G)) (convb f (enter defs G)) defs) eqn:D; [|discriminate].
    assert (D' : infer_defs (infer f' (enter defs G)) (convb f' (enter defs G)) defs = true).
    { eapply infer_defs_mono; [| |exact D].
      - intros; eapply IH; eauto.
      - intros; eapply is_true_mono; eauto. }
    rewrite D'.
    destruct (infer f (enter defs G) t) as [B|] eqn:E; [|discriminate]. rewrite (IH _ _ _ _ L' E). exact H.
  - (* neg *)
    destruct (infer f G t) as [Ta|] eqn:E1; [|discriminate]. rewrite (IH _ _ _ _ L' E1).
    destruct (is_true (convb f G Ta TInt)) eqn:C1; [|discriminate]. rewrite (is_true_mono _ _ _ _ _ L' C1). exact H.
  - (* bin *)
    destruct (infer f G t1) as [Ta|] eqn:E1; [|discriminate]. rewrite (IH _ _ _ _ L' E1).
    destruct (infer f G t2) as [Tb|] eqn:E2; [|discriminate]. rewrite (IH _ _ _ _ L' E2).
    destruct (is_true (convb f G Ta TInt) && is_true (convb f G Tb TInt)) eqn:C; [|discriminate].
    apply andb_prop in C as [C1 C2].
    rewrite (is_true_mono _ _ _ _ _ L' C1), (is_true_mono _ _ _ _ _ L' C2). exact H.
  - (* if *)
    destruct (infer f G t1) as [Tc|] eqn:E1; [|discriminate]. rewrite (IH _ _ _ _ L' E1).
    destruct (infer f G t2) as [Ta|] eqn:E2; [|discriminate]. rewrite (IH _ _ _ _ L' E2).
    destruct (infer f G t3) as [Tb|] eqn:E3; [|discriminate]. rewrite (IH _ _ _ _ L' E3).
    destruct (is_true (convb f G Tc TBool) && is_true (convb f G Tb Ta)) eqn:C; [|discriminate].
    apply andb_prop in C as [C1 C2].
    rewrite (is_true_mono _ _ _ _ _ L' C1), (is_true_mono _ _ _ _ _ L' C2). exact H.
Qed.

(* the checker is a partial function of the term: two successful runs agree, whatever the fuel *)
Corollary infer_det f1 f2 G t T1 T2 : infer f1 G t = Some T1 -> infer f2 G t = Some T2 -> T1 = T2.
Proof.
  intros H1 H2. apply (infer_mono _ (Nat.max f1 f2)) in H1; [|lia]. apply (infer_mono _ (Nat.max f1 f2)) in H2; [|lia].
  congruence.
Qed.

Corollary convb_det f1 f2 G a b r1 r2 : convb f1 G a b = Some r1 -> convb f2 G a b = Some r2 -> r1 = r2.
Proof.
  intros H1 H2. apply (convb_mono _ (Nat.max f1 f2)) in H1; [|lia]. apply (convb_mono _ (Nat.max f1 f2)) in H2; [|lia].
  congruence.
Qed.

(* ------------------------------------------------------------------------------------------- *)
(* Part 1. Acceptance: the four rewrites, both directions.                                     *)
(* ------------------------------------------------------------------------------------------- *)

Lemma infer_if_eq f G c a b :
  infer (S f) G (TIf c a b) =
  match infer f G c, infer f G a, infer f G b with
  | Some Tc, Some Ta, Some Tb => if is_true (convb f G Tc TBool) && is_true (convb f G Tb Ta) then Some Ta else None
  | _, _, _ => None end.
Proof. reflexivity. Qed.

Lemma infer_app_eq f G a b :
  infer (S f) G (TApp a b) =
  match infer f G a with
  | Some F => match whnf f G F with
    | Some (TPi false A B) => match infer f G b with
        | Some A' => if is_true (convb f G A' A) then Some (open B 0 b 0) else None
        | None => None end
    | _ => None end
  | None => None end.
Proof. reflexivity. Qed.

Lemma infer_lam_eq f G im d b :
  infer (S f) G (TLam im d b) =
  match infer f G d with
  | Some Td => if is_true (convb f G Td TType)
               then match infer f (bind G d) b with Some B => Some (TPi im d B) | None => None end else None
  | None => None end.
Proof. reflexivity. Qed.

Lemma convb_bool f G : convb (S (S f)) G TBool TBool = Some true.
Proof. reflexivity. Qed.
Lemma convb_type f G : convb (S (S f)) G TType TType = Some true.
Proof. reflexivity. Qed.

(* a successful conversion test has spent at least two units of fuel *)
Lemma convb_fuel f G a b r : convb f G a b = Some r -> 2 <= f.
Proof. destruct f as [|[|f]]; try discriminate. lia. Qed.

(* ---------- R1: if true then e else e' ---------- *)
Theorem R1_accept f G e e' T T' :
  infer f G e = Some T -> infer f G e' = Some T' -> convb f G T' T = Some true ->
  infer (S f) G (TIf TTrue e e') = Some T.
Proof.
  intros He He' C. pose proof (convb_fuel _ _ _ _ _ C) as F2.
  destruct f as [|[|f]]; try lia.
  rewrite infer_if_eq, He, He'. cbn [infer]. rewrite convb_bool, C. reflexivity.
Qed.

Theorem R1_invert f G e e' T :
  infer f G (TIf TTrue e e') = Some T ->
  exists f0 T', f = S f0 /\ infer f0 G e = Some T /\ infer f0 G e' = Some T' /\ convb f0 G T' T = Some true.
Proof.
  intros H. destruct f as [|f]; [discriminate|]. rewrite infer_if_eq in H.
  destruct (infer f G TTrue) as [Tc|]; [|discriminate].
  destruct (infer f G e) as [Ta|] eqn:E2; [|discriminate].
  destruct (infer f G e') as [Tb|] eqn:E3; [|discriminate].
  destruct (is_true (convb f G Tc TBool) && is_true (convb f G Tb Ta)) eqn:C; [|discriminate].
  apply andb_prop in C as [_ C2]. injection H as <-. apply is_true_iff in C2.
  exists f, Tb. auto.
Qed.

(* the statement in the requested shape: acceptance and the type (exactly) are preserved *)
Corollary R1_preserves_acceptance G e e' f T f1 T' f2 :
  infer f G e = Some T -> infer f1 G e' = Some T' -> convb f2 G T' T = Some true ->
  exists f', infer f' G (TIf TTrue e e') = Some T /\ conv G T T.
Proof.
  intros He He' C. exists (S (Nat.max f (Nat.max f1 f2))). split; [|apply c_refl].
  apply R1_accept with (T' := T').
  - eapply infer_mono; [|exact He]; lia.
  - eapply infer_mono; [|exact He']; lia.
  - eapply convb_mono; [|exact C]; lia.
Qed.

Corollary R1_preserves_rejection G e e' f' T' :
  infer f' G (TIf TTrue e e') = Some T' -> exists f, infer f G e = Some T'.
Proof. intros H. destruct (R1_invert _ _ _ _ _ H) as (f0 & Tb & _ & He & _). eauto. Qed.

(* ---------- R2: the annotated identity wrapper ---------- *)
Definition idw (A e : term) : term := TApp (TLam false A (TVar 0)) e.

Lemma infer_idfun f G A TA :
  infer f G A = Some TA -> convb f G TA TType = Some true ->
  infer (S f) G (TLam false A (TVar 0)) = Some (TPi false A (ushift A 0 1)).
Proof.
  intros HA C. rewrite infer_lam_eq, HA, C. cbn [is_true].
  destruct f as [|f]; [discriminate|]. cbn [infer]. rewrite lookup_ty_bind0. reflexivity.
Qed.

Theorem R2_accept f G A e T TA :
  hole_free A = true ->
  infer f G e = Some T -> infer f G A = Some TA -> convb f G TA TType = Some true -> convb f G T A = Some true ->
  infer (S (S f)) G (idw A e) = Some A.
Proof.
  intros HA He HAt C1 C2. unfold idw. rewrite infer_app_eq.
  rewrite (infer_idfun _ _ _ _ HAt C1).
  pose proof (convb_fuel _ _ _ _ _ C1) as F2. destruct f as [|f]; [lia|].
  cbn [whnf]. rewrite (infer_mono _ (S (S f)) _ _ _ (Nat.le_succ_diag_r _) He).
  rewrite (convb_mono _ (S (S f)) _ _ _ _ (Nat.le_succ_diag_r _) C2). cbn [is_true].
  now rewrite open_ushift_cancel.
Qed.

Theorem R2_invert f G A e T' :
  hole_free A = true ->
  infer f G (idw A e) = Some T' ->
  T' = A /\ exists f0 T TA, f = S (S f0) /\ infer (S f0) G e = Some T /\ convb (S f0) G T A = Some true /\
                            infer f0 G A = Some TA /\ convb f0 G TA TType = Some true.
Proof.
  intros HA H. unfold idw in H. destruct f as [|f]; [discriminate|]. rewrite infer_app_eq in H.
  destruct f as [|f]; [discriminate|]. rewrite infer_lam_eq in H.
  destruct (infer f G A) as [TA|] eqn:EA; [|discriminate].
  destruct (is_true (convb f G TA TType)) eqn:C1; [|discriminate].
  destruct (infer f (bind G A) (TVar 0)) as [B|] eqn:EB; [|discriminate].
  destruct f as [|f]; [discriminate|]. cbn [infer] in EB. rewrite lookup_ty_bind0 in EB. injection EB as <-.
  cbn [whnf] in H.
  destruct (infer (S (S f)) G e) as [T|] eqn:Ee; [|discriminate].
  destruct (is_true (convb (S (S f)) G T A)) eqn:C2; [|discriminate].
  injection H as <-. rewrite open_ushift_cancel by exact HA. split; [reflexivity|].
  apply is_true_iff in C1, C2. exists (S f), T, TA. auto.
Qed.

Corollary R2_preserves_acceptance G A e f T f1 TA f2 f3 :
  hole_free A = true ->
  infer f G e = Some T -> infer f1 G A = Some TA -> convb f2 G TA TType = Some true -> convb f3 G T A = Some true ->
  exists f' T', infer f' G (idw A e) = Some T' /\ conv G T' T /\ T' = A.
Proof.
  intros HA He HAt C1 C2. set (m := Nat.max (Nat.max f f1) (Nat.max f2 f3)).
  exists (S (S m)), A. split; [|split; [apply c_sym; eapply convb_sound; eauto | reflexivity]].
  apply R2_accept with (T := T) (TA := TA); auto.
  - eapply infer_mono; [|exact He]; lia.
  - eapply infer_mono; [|exact HAt]; lia.
  - eapply convb_mono; [|exact C1]; lia.
  - eapply convb_mono; [|exact C2]; lia.
Qed.

Corollary R2_preserves_rejection G A e f' T' :
  hole_free A = true -> infer f' G (idw A e) = Some T' ->
  exists f T, infer f G e = Some T /\ conv G T' T.
Proof.
  intros HA H. destruct (R2_invert _ _ _ _ _ HA H) as (-> & f0 & T & TA & _ & He & C & _).
  exists (S f0), T. split; [exact He|]. apply c_sym. eapply convb_sound; eauto.
Qed.

(* ---------- single-definition groups ---------- *)
Lemma enter_single A v G : enter [(A, v)] G = (A, 1, Some v) :: G.
Proof. reflexivity. Qed.

Lemma infer_weaken1 x G f t : wf_offsets G -> ctx_hf' G -> hole_free t = true ->
  infer f (x :: G) (ushift t 0 1) = option_map (fun T => ushift T 0 1) (infer f G t).
Proof. intros WG HG Ht. exact (infer_weaken [x] G f t WG HG Ht). Qed.

Lemma convb_weaken1 x G f a b : wf_offsets G -> ctx_hf G -> hole_free a = true -> hole_free b = true ->
  convb f (x :: G) (ushift a 0 1) (ushift b 0 1) = convb f G a b.
Proof. intros WG HG Ha Hb. exact (convb_weaken [x] G f a b WG HG Ha Hb). Qed.

Lemma convb_weaken1_type x G f a : wf_offsets G -> ctx_hf G -> hole_free a = true ->
  convb f (x :: G) (ushift a 0 1) TType = convb f G a TType.
Proof. intros WG HG Ha. exact (convb_weaken1 x G f a TType WG HG Ha eq_refl). Qed.

Lemma group_type_single A v B :
  group_type 1 [(A, v)] 0 1 B = open B 0 (TLet [(ushift A 1 0, ushift v 1 0)] (TVar 0)) 0.
Proof. reflexivity. Qed.

Lemma group_type_single_shift A v T : hole_free T = true -> group_type 1 [(A, v)] 0 1 (ushift T 0 1) = T.
Proof. intros HT. rewrite group_type_single. now apply open_ushift_cancel. Qed.

Lemma infer_single_eq f G A v b :
  infer (S f) G (TLet [(A, v)] b) =
  match infer f ((A, 1, Some v) :: G) A, infer f ((A, 1, Some v) :: G) v with
  | Some Ta, Some Tv =>
      if is_true (convb f ((A, 1, Some v) :: G) Ta TType) && is_true (convb f ((A, 1, Some v) :: G) Tv A)
      then match infer f ((A, 1, Some v) :: G) b with Some B => Some (group_type 1 [(A, v)] 0 1 B) | None => None end
      else None
  | _, _ => None end.
Proof.
  rewrite infer_let_eq. cbn [infer_defs length]. rewrite enter_single.
  destruct (infer f ((A, 1, Some v) :: G) A); [|reflexivity]. destruct (infer f ((A, 1, Some v) :: G) v); [|reflexivity].
  now rewrite andb_true_r.
Qed.

(* ---------- R3: an unused definition ---------- *)
Definition unused (A v e : term) : term := TLet [(A, v)] (ushift e 0 1).

Theorem R3_accept f G A v e T Ta Tv :
  wf_offsets G -> ctx_hf' G -> hole_free e = true ->
  infer f (enter [(A, v)] G) A = Some Ta -> convb f (enter [(A, v)] G) Ta TType = Some true ->
  infer f (enter [(A, v)] G) v = Some Tv -> convb f (enter [(A, v)] G) Tv A = Some true ->
  infer f G e = Some T ->
  infer (S f) G (unused A v e) = Some T.
Proof.
  rewrite enter_single. intros WG HG He HA C1 Hv C2 HT. unfold unused.
  rewrite infer_single_eq, HA, Hv, C1, C2. cbn [is_true andb].
  rewrite (infer_weaken1 _ G f e WG HG He), HT. cbn [option_map].
  rewrite group_type_single_shift; [reflexivity|]. eapply infer_hole_free; eauto.
Qed.

Theorem R3_invert f G A v e T' :
  wf_offsets G -> ctx_hf' G -> hole_free e = true ->
  infer f G (unused A v e) = Some T' ->
  exists f0 Ta Tv, f = S f0 /\ infer f0 G e = Some T' /\
    infer f0 (enter [(A, v)] G) A = Some Ta /\ convb f0 (enter [(A, v)] G) Ta TType = Some true /\
    infer f0 (enter [(A, v)] G) v = Some Tv /\ convb f0 (enter [(A, v)] G) Tv A = Some true.
Proof.
  rewrite enter_single. intros WG HG He H. unfold unused in H. destruct f as [|f]; [discriminate|].
  rewrite infer_single_eq in H.
  destruct (infer f ((A, 1, Some v) :: G) A) as [Ta|] eqn:HA; [|discriminate].
  destruct (infer f ((A, 1, Some v) :: G) v) as [Tv|] eqn:Hv; [|discriminate].
  destruct (is_true (convb f ((A, 1, Some v) :: G) Ta TType)) eqn:C1; [|discriminate].
  destruct (is_true (convb f ((A, 1, Some v) :: G) Tv A)) eqn:C2; [|discriminate].
  cbn [andb] in H.
  rewrite (infer_weaken1 _ G f e WG HG He) in H.
  destruct (infer f G e) as [T|] eqn:HT; [|discriminate]. cbn [option_map] in H.
  rewrite group_type_single_shift in H by (eapply infer_hole_free; eauto). injection H as <-.
  apply is_true_iff in C1, C2. exists f, Ta, Tv. repeat split; assumption.
Qed.

(* the instance asked for: annotation and definition typed in G itself, used shifted by one *)
Theorem R3_accept_shifted f G A0 v0 e T TA Tv :
  wf_offsets G -> ctx_hf' G -> hole_free e = true -> hole_free A0 = true -> hole_free v0 = true ->
  infer f G A0 = Some TA -> convb f G TA TType = Some true ->
  infer f G v0 = Some Tv -> convb f G Tv A0 = Some true ->
  infer f G e = Some T ->
  infer (S f) G (unused (ushift A0 0 1) (ushift v0 0 1) e) = Some T.
Proof.
  intros WG HG He HA0 Hv0 HA C1 Hv C2 HT.
  pose proof (ctx_hf'_hf _ HG) as HG0.
  eapply R3_accept with (Ta := ushift TA 0 1) (Tv := ushift Tv 0 1); auto; rewrite enter_single.
  - rewrite (infer_weaken1 _ G f A0 WG HG HA0), HA. reflexivity.
  - rewrite convb_weaken1_type; auto. exact (infer_hole_free _ _ _ _ HG HA0 HA).
  - rewrite (infer_weaken1 _ G f v0 WG HG Hv0), Hv. reflexivity.
  - rewrite convb_weaken1; auto. exact (infer_hole_free _ _ _ _ HG Hv0 Hv).
Qed.

Corollary R3_preserves_acceptance G A0 v0 e f T f1 TA f2 f3 Tv f4 :
  wf_offsets G -> ctx_hf' G -> hole_free e = true -> hole_free A0 = true -> hole_free v0 = true ->
  infer f G e = Some T ->
  infer f1 G A0 = Some TA -> convb f2 G TA TType = Some true ->
  infer f3 G v0 = Some Tv -> convb f4 G Tv A0 = Some true ->
  exists f', infer f' G (unused (ushift A0 0 1) (ushift v0 0 1) e) = Some T /\ conv G T T.
Proof.
  intros WG HG He HA0 Hv0 HT HA C1 Hv C2.
  set (m := Nat.max f (Nat.max (Nat.max f1 f2) (Nat.max f3 f4))).
  exists (S m). split; [|apply c_refl].
  apply R3_accept_shifted with (TA := TA) (Tv := Tv); auto.
  - eapply infer_mono; [|exact HA]; lia.
  - eapply convb_mono; [|exact C1]; lia.
  - eapply infer_mono; [|exact Hv]; lia.
  - eapply convb_mono; [|exact C2]; lia.
  - eapply infer_mono; [|exact HT]; lia.
Qed.

Corollary R3_preserves_rejection G A v e f' T' :
  wf_offsets G -> ctx_hf' G -> hole_free e = true ->
  infer f' G (unused A v e) = Some T' -> exists f, infer f G e = Some T'.
Proof. intros WG HG He H. destruct (R3_invert _ _ _ _ _ _ WG HG He H) as (f0 & Ta & Tv & _ & HT & _). eauto. Qed.

(* ---------- R4: naming a subexpression ---------- *)
Definition named (A e : term) : term := TLet [(ushift A 0 1, ushift e 0 1)] (TVar 0).

Lemma lookup_ty_single A v G : lookup_ty ((A, 1, Some v) :: G) 0 = Some A.
Proof. unfold lookup_ty. cbn [nth_error Nat.add Nat.sub]. now rewrite ushift_zero. Qed.

Theorem R4_accept f G A e T TA :
  wf_offsets G -> ctx_hf' G -> hole_free e = true -> hole_free A = true ->
  infer f G e = Some T -> infer f G A = Some TA -> convb f G TA TType = Some true -> convb f G T A = Some true ->
  infer (S f) G (named A e) = Some A.
Proof.
  intros WG HG He HA HT HAt C1 C2. unfold named.
  pose proof (ctx_hf'_hf _ HG) as HG0.
  assert (FT : hole_free T = true) by exact (infer_hole_free _ _ _ _ HG He HT).
  assert (FTA : hole_free TA = true) by exact (infer_hole_free _ _ _ _ HG HA HAt).
  rewrite infer_single_eq.
  rewrite (infer_weaken1 _ G f A WG HG HA), HAt, (infer_weaken1 _ G f e WG HG He), HT. cbn [option_map].
  rewrite convb_weaken1_type, convb_weaken1 by auto. rewrite C1, C2. cbn [is_true andb].
  destruct f as [|f]; [discriminate|]. cbn [infer]. rewrite lookup_ty_single.
  now rewrite group_type_single_shift.
Qed.

Theorem R4_invert f G A e T' :
  wf_offsets G -> ctx_hf' G -> hole_free e = true -> hole_free A = true ->
  infer f G (named A e) = Some T' ->
  T' = A /\ exists f0 T TA, f = S f0 /\ infer f0 G e = Some T /\ convb f0 G T A = Some true /\
                            infer f0 G A = Some TA /\ convb f0 G TA TType = Some true.
Proof.
  intros WG HG He HA H. unfold named in H. pose proof (ctx_hf'_hf _ HG) as HG0.
  destruct f as [|f]; [discriminate|]. rewrite infer_single_eq in H.
  rewrite (infer_weaken1 _ G f A WG HG HA), (infer_weaken1 _ G f e WG HG He) in H.
  destruct (infer f G A) as [TA|] eqn:HAt; [|discriminate].
  destruct (infer f G e) as [T|] eqn:HT; cbn [option_map] in H; [|discriminate].
  assert (FT : hole_free T = true) by exact (infer_hole_free _ _ _ _ HG He HT).
  assert (FTA : hole_free TA = true) by exact (infer_hole_free _ _ _ _ HG HA HAt).
  rewrite convb_weaken1_type, convb_weaken1 in H by auto.
  destruct (is_true (convb f G TA TType)) eqn:C1; [|discriminate].
  destruct (is_true (convb f G T A)) eqn:C2; [|discriminate]. cbn [andb] in H.
  destruct f as [|f]; [discriminate|]. cbn [infer] in H. rewrite lookup_ty_single in H.
  rewrite group_type_single_shift in H by exact HA. injection H as <-.
  split; [reflexivity|]. apply is_true_iff in C1, C2. exists (S f), T, TA. repeat split; assumption.
Qed.

Corollary R4_preserves_acceptance G A e f T f1 TA f2 f3 :
  wf_offsets G -> ctx_hf' G -> hole_free e = true -> hole_free A = true ->
  infer f G e = Some T -> infer f1 G A = Some TA -> convb f2 G TA TType = Some true -> convb f3 G T A = Some true ->
  exists f' T', infer f' G (named A e) = Some T' /\ conv G T' T /\ T' = A.
Proof.
  intros WG HG He HA HT HAt C1 C2. set (m := Nat.max (Nat.max f f1) (Nat.max f2 f3)).
  exists (S m), A. split; [|split; [apply c_sym; eapply convb_sound; eauto | reflexivity]].
  apply R4_accept with (T := T) (TA := TA); auto.
  - eapply infer_mono; [|exact HT]; lia.
  - eapply infer_mono; [|exact HAt]; lia.
  - eapply convb_mono; [|exact C1]; lia.
  - eapply convb_mono; [|exact C2]; lia.
Qed.

Corollary R4_preserves_rejection G A e f' T' :
  wf_offsets G -> ctx_hf' G -> hole_free e = true -> hole_free A = true ->
  infer f' G (named A e) = Some T' -> exists f T, infer f G e = Some T /\ conv G T' T.
Proof.
  intros WG HG He HA H. destruct (R4_invert _ _ _ _ _ WG HG He HA H) as (-> & f0 & T & TA & _ & HT & C & _).
  exists f0, T. split; [exact HT|]. apply c_sym. eapply convb_sound; eauto.
Qed.

(* ------------------------------------------------------------------------------------------- *)
(* Part 2. Results: runs of the evaluator model.                                               *)
(* ------------------------------------------------------------------------------------------- *)

(* t evaluates to the final term v (a value or a stuck term) with some fuel *)
Definition evals (t v : term) : Prop := exists f, evaluate f t = Some v.

Lemma evals_iff t v : evals t v <-> steps t v /\ step v = None.
Proof.
  split.
  - intros [f H]. eapply evaluate_steps; eauto.
  - intros [S F]. destruct (steps_evaluate _ _ S F) as [f0 H]. exists f0. apply H. lia.
Qed.

Lemma steps_to_final a b v : steps a b -> steps a v -> step v = None -> steps b v.
Proof.
  induction 1 as [t|t t' t'' S1 _ IH]; intros Hv Fv; [exact Hv|].
  apply IH; [|exact Fv]. inversion Hv; subst; [congruence|]. congruence.
Qed.

(* a term and any of its reducts have exactly the same final results (values and stuck terms alike),
   and diverge together *)
Theorem steps_same_result a b : steps a b -> forall v, evals a v <-> evals b v.
Proof.
  intros S v. rewrite !evals_iff. split; intros [S1 F]; split; auto.
  - eapply steps_to_final; eauto.
  - eapply steps_trans; eauto.
Qed.

Lemma evals_value v : step v = None -> evals v v.
Proof. intros F. exists 1. cbn [evaluate]. now rewrite F. Qed.

Lemma evals_det t v w : evals t v -> evals t w -> v = w.
Proof. rewrite !evals_iff. intros [S1 F1] [S2 F2]. eapply steps_final_unique; eauto. Qed.

(* ---------- R1 ---------- *)
Theorem R1_evaluate f e e' : evaluate (S f) (TIf TTrue e e') = evaluate f e.
Proof. reflexivity. Qed.

Theorem R1_result e e' v : evals (TIf TTrue e e') v <-> evals e v.
Proof. apply steps_same_result. apply steps_one. reflexivity. Qed.

(* ---------- R2 ---------- *)
Lemma idw_plug A e : idw A e = plug (EAppR (TLam false A (TVar 0)) EHole) e.
Proof. reflexivity. Qed.

Lemma idw_steps A e v : steps e v -> steps (idw A e) (idw A v).
Proof. intros S. rewrite !idw_plug. apply steps_plug; [reflexivity | exact S]. Qed.

Lemma idw_value_step A v : is_value v = true -> step (idw A v) = Some v.
Proof. apply identity_wrapper_step. Qed.

Lemma idw_stuck_step A v : step v = None -> is_value v = false -> step (idw A v) = None.
Proof. intros F V. unfold idw. cbn [step is_value negb]. now rewrite F, V. Qed.

Lemma idw_stuck_reason A v : is_value v = false -> stuck_reason (idw A v) = stuck_reason v.
Proof. intros V. unfold idw. cbn [stuck_reason is_value negb]. now rewrite V. Qed.

Theorem R2_result_value A e v : evals e v -> is_value v = true -> evals (idw A e) v.
Proof.
  rewrite !evals_iff. intros [S F] V. split; [|exact F].
  eapply steps_trans; [apply idw_steps; exact S|]. apply steps_one. now apply idw_value_step.
Qed.

Theorem R2_result_stuck A e v : evals e v -> is_value v = false ->
  evals (idw A e) (idw A v) /\ is_value (idw A v) = false /\ stuck_reason (idw A v) = stuck_reason v.
Proof.
  rewrite !evals_iff. intros [S F] V. repeat split.
  - apply idw_steps; exact S.
  - now apply idw_stuck_step.
  - now apply idw_stuck_reason.
Qed.

Theorem R2_result_inv A e w : evals (idw A e) w ->
  exists v, evals e v /\ ((is_value v = true /\ w = v) \/ (is_value v = false /\ w = idw A v)).
Proof.
  intros H. apply evals_iff in H as [S F]. apply steps_stepsn in S as [n S]. rewrite idw_plug in S.
  destruct (ctx_decompose n (EAppR (TLam false A (TVar 0)) EHole) e w eq_refl S F) as (n1 & v & _ & S1 & F1 & S2).
  rewrite <- idw_plug in S2. apply stepsn_steps in S1, S2.
  exists v. split; [apply evals_iff; auto|].
  destruct (is_value v) eqn:V; [left | right]; split; auto.
  - eapply steps_final_unique; [exact S2 | exact F | | exact F1]. apply steps_one. now apply idw_value_step.
  - pose proof (idw_stuck_step A v F1 V) as F2. inversion S2; subst; [reflexivity | congruence].
Qed.

(* in the requested shape *)
Corollary R2_evaluate_value A e f v : evaluate f e = Some v -> is_value v = true ->
  exists f', evaluate f' (idw A e) = Some v.
Proof. intros H V. apply (R2_result_value A e v); [exists f; exact H | exact V]. Qed.

Corollary R2_evaluate_value_inv A e f' v : evaluate f' (idw A e) = Some v -> is_value v = true ->
  exists f, evaluate f e = Some v.
Proof.
  intros H V. destruct (R2_result_inv A e v (ex_intro _ f' H)) as (v0 & E & [[_ ->] | [_ ->]]); [exact E|].
  discriminate V.
Qed.

Corollary R2_terminates_iff A e : (exists w, evals (idw A e) w) <-> (exists v, evals e v).
Proof.
  split.
  - intros [w H]. destruct (R2_result_inv _ _ _ H) as (v & E & _). eauto.
  - intros [v E]. destruct (is_value v) eqn:V.
    + exists v. now apply R2_result_value.
    + exists (idw A v). now apply R2_result_stuck.
Qed.

(* ---------- R3 ---------- *)
Lemma let_def_steps A d d' rest b : steps d d' -> steps (TLet ((A, d) :: rest) b) (TLet ((A, d') :: rest) b).
Proof. intros S. apply (steps_plug (ELet A EHole rest b) d d' eq_refl S). Qed.

Theorem R3_steps A d dv e : hole_free e = true -> steps d dv -> is_value dv = true -> steps (unused A d e) e.
Proof.
  intros He S V. unfold unused. eapply steps_trans; [apply let_def_steps; exact S|].
  destruct (unused_definition_steps A dv e He V) as [S1 S2].
  eapply steps_step; [exact S1|]. apply steps_one. exact S2.
Qed.

(* an unused definition that evaluates to a value: every result (value or stuck) is preserved, both ways *)
Theorem R3_result A d dv e v : hole_free e = true -> evals d dv -> is_value dv = true ->
  (evals (unused A d e) v <-> evals e v).
Proof.
  intros He Ed V. apply evals_iff in Ed as [S _]. apply steps_same_result. eapply R3_steps; eauto.
Qed.

Corollary R3_result_value_def A d e v : hole_free e = true -> is_value d = true ->
  (evals (unused A d e) v <-> evals e v).
Proof. intros He V. apply (R3_result A d d e v He); [apply evals_value, value_no_step, V | exact V]. Qed.

(* if the unused definition does not reach a value, the group never starts its body: the result of the
   rewritten program is the stuck definition, whatever e is *)
Theorem R3_stuck_definition A d dv e : evals d dv -> is_value dv = false ->
  evals (unused A d e) (unused A dv e) /\ is_value (unused A dv e) = false /\
  stuck_reason (unused A dv e) = stuck_reason dv.
Proof.
  intros Ed V. apply evals_iff in Ed as [S F]. repeat split.
  - apply evals_iff. split; [apply let_def_steps; exact S|]. unfold unused. cbn [step]. now rewrite F, V.
  - unfold unused. cbn [stuck_reason]. now rewrite V.
Qed.

(* ---------- the evaluator commutes with shifting (hole-free terms) ---------- *)
Lemma is_value_ushift t c n : is_value (ushift t c n) = is_value t.
Proof. destruct t; reflexivity. Qed.

Lemma hf_let_cons ann d rest b : hole_free (TLet ((ann, d) :: rest) b) = true ->
  hole_free ann = true /\ hole_free d = true /\ hf_defs rest = true /\ hole_free b = true.
Proof.
  cbn [hole_free forallb]. intros H. apply andb_prop in H as [H1 Fb]. apply andb_prop in H1 as [H2 Fr].
  apply andb_prop in H2 as [Fa Fd]. auto.
Qed.

Theorem step_ushift : forall t c n, hole_free t = true ->
  step (ushift t c n) = option_map (fun u => ushift u c n) (step t).
Proof.
  induction t using term_ind'; intros c n Hf; try discriminate Hf; try reflexivity.
  - (* app *)
    cbn [hole_free] in Hf. apply andb_prop in Hf as [F1 F2].
    cbn [ushift step]. rewrite IHt1, IHt2, !is_value_ushift by assumption.
    destruct (step t1); [reflexivity|]. cbn [option_map].
    destruct (is_value t1); cbn [negb]; [|reflexivity].
    destruct (step t2); [reflexivity|]. cbn [option_map].
    destruct (is_value t2); cbn [negb]; [|reflexivity].
    destruct t1; try reflexivity. cbn [ushift option_map]. f_equal. symmetry.
    cbn [hole_free] in F1. apply andb_prop in F1 as [_ Fb]. apply ushift_open0; [exact Fb | lia].
  - (* let *)
    destruct ds as [|[ann d] rest]; [reflexivity|].
    destruct (hf_let_cons _ _ _ _ Hf) as (Fa & Fd & Fr & Fb).
    inversion H as [|? ? [_ IHd] _]; subst. cbn [snd] in IHd.
    cbn [ushift map length step]. rewrite IHd, is_value_ushift by assumption.
    destruct (step d); [reflexivity|]. cbn [option_map].
    destruct (is_value d); cbn [negb]; [|reflexivity]. cbn [option_map]. f_equal.
    cbn [ushift]. rewrite !map_length.
    change (S (length rest) + c) with (S (length rest + c)).
    rewrite unfold_first_shift by assumption.
    set (u := unfold_first ann d (length rest)).
    f_equal.
    + rewrite !map_map. apply map_ext_in. intros [a x] Hin.
      destruct (hf_defs_In _ _ _ Fr Hin) as [Fa' Fx'].
      f_equal; symmetry; apply ushift_open0; auto; lia.
    + symmetry; apply ushift_open0; auto; lia.
  - (* neg *)
    cbn [hole_free] in Hf. cbn [ushift step]. rewrite IHt by assumption.
    destruct (step t); [reflexivity|]. destruct t; reflexivity.
  - (* bin *)
    cbn [hole_free] in Hf. apply andb_prop in Hf as [F1 F2].
    cbn [ushift step]. rewrite IHt1, IHt2, !is_value_ushift by assumption.
    destruct (step t1); [reflexivity|]. cbn [option_map].
    destruct (is_value t1); cbn [negb]; [|reflexivity].
    destruct (step t2); [reflexivity|]. cbn [option_map].
    destruct t1; try reflexivity. destruct t2; try reflexivity. cbn [ushift].
    destruct (arith o z z0) eqn:Ar; [|reflexivity]. cbn [option_map]. f_equal. symmetry. eapply arith_closed; eauto.
  - (* if *)
    cbn [hole_free] in Hf. apply andb_prop in Hf as [F12 F3]. apply andb_prop in F12 as [F1 F2].
    cbn [ushift step]. rewrite IHt1 by assumption.
    destruct (step t1); [reflexivity|]. destruct t1; reflexivity.
Qed.

Theorem step_hole_free : forall t t', hole_free t = true -> step t = Some t' -> hole_free t' = true.
Proof.
  induction t using term_ind'; intros t' Hf Hs; cbn [step] in Hs; try discriminate.
  - (* app *)
    cbn [hole_free] in Hf. apply andb_prop in Hf as [F1 F2].
    destruct (step t1) as [f'|] eqn:S1.
    { injection Hs as <-. cbn [hole_free]. now rewrite (IHt1 _ F1 eq_refl), F2. }
    destruct (is_value t1); cbn [negb] in Hs; [|discriminate].
    destruct (step t2) as [a'|] eqn:S2.
    { injection Hs as <-. cbn [hole_free]. now rewrite F1, (IHt2 _ F2 eq_refl). }
    destruct (is_value t2); cbn [negb] in Hs; [|discriminate].
    destruct t1; try discriminate. injection Hs as <-.
    cbn [hole_free] in F1. apply andb_prop in F1 as [_ Fb]. apply hole_free_open; auto.
  - (* let *)
    destruct ds as [|[ann d] rest].
    { injection Hs as <-. cbn [hole_free forallb] in Hf. exact Hf. }
    destruct (hf_let_cons _ _ _ _ Hf) as (Fa & Fd & Fr & Fb).
    inversion H as [|? ? [_ IHd] _]; subst. cbn [snd] in IHd.
    destruct (step d) as [d'|] eqn:Sd.
    { injection Hs as <-. cbn [hole_free forallb]. unfold hf_defs in Fr. now rewrite Fa, (IHd _ Fd eq_refl), Fr, Fb. }
    destruct (is_value d); cbn [negb] in Hs; [|discriminate]. injection Hs as <-.
    assert (Fu : hole_free (unfold_first ann d (length rest)) = true) by (apply hole_free_unfold_first; auto).
    cbn [hole_free]. apply andb_true_intro. split; [|apply hole_free_open; auto].
    apply (hf_defs_map (fun p => let '(a, x) := p in
             (open a (length rest) (unfold_first ann d (length rest)) 0,
              open x (length rest) (unfold_first ann d (length rest)) 0)) rest).
    intros a x Hin. destruct (hf_defs_In _ _ _ Fr Hin) as [Fa' Fx']. cbn [fst snd].
    split; apply hole_free_open; auto.
  - (* neg *)
    cbn [hole_free] in Hf. destruct (step t) as [a'|] eqn:S1.
    { injection Hs as <-. cbn [hole_free]. eauto. }
    destruct t; try discriminate. injection Hs as <-. reflexivity.
  - (* bin *)
    cbn [hole_free] in Hf. apply andb_prop in Hf as [F1 F2].
    destruct (step t1) as [a'|] eqn:S1.
    { injection Hs as <-. cbn [hole_free]. now rewrite (IHt1 _ F1 eq_refl), F2. }
    destruct (is_value t1); cbn [negb] in Hs; [|discriminate].
    destruct (step t2) as [b'|] eqn:S2.
    { injection Hs as <-. cbn [hole_free]. now rewrite F1, (IHt2 _ F2 eq_refl). }
    destruct t1; try discriminate. destruct t2; try discriminate. eapply arith_hole_free; eauto.
  - (* if *)
    cbn [hole_free] in Hf. apply andb_prop in Hf as [F12 F3]. apply andb_prop in F12 as [F1 F2].
    destruct (step t1) as [c'|] eqn:S1.
    { injection Hs as <-. cbn [hole_free]. now rewrite (IHt1 _ F1 eq_refl), F2, F3. }
    destruct t1; try discriminate; injection Hs as <-; assumption.
Qed.

Lemma steps_hole_free a b : steps a b -> hole_free a = true -> hole_free b = true.
Proof. induction 1; intros Hf; auto. apply IHsteps. eapply step_hole_free; eauto. Qed.

Lemma steps_ushift a b c n : steps a b -> hole_free a = true -> steps (ushift a c n) (ushift b c n).
Proof.
  induction 1 as [t|t t' t'' S1 _ IH]; intros Hf; [constructor|].
  eapply steps_step; [rewrite step_ushift, S1 by exact Hf; reflexivity|].
  apply IH. eapply step_hole_free; eauto.
Qed.

Lemma final_ushift v c n : hole_free v = true -> step v = None -> step (ushift v c n) = None.
Proof. intros Hf F. now rewrite step_ushift, F. Qed.

(* a run of a shifted term is the shift of a run *)
Lemma stepsn_ushift_inv : forall k a c n b', hole_free a = true -> stepsn k (ushift a c n) b' ->
  exists b, b' = ushift b c n /\ steps a b /\ hole_free b = true.
Proof.
  induction k as [|k IH]; intros a c n b' Hf S; inversion S; subst.
  - exists a. repeat split; auto. constructor.
  - rewrite step_ushift in H0 by exact Hf. destruct (step a) as [a1|] eqn:Sa; [|discriminate].
    injection H0 as <-. pose proof (step_hole_free _ _ Hf Sa) as Hf1.
    destruct (IH _ _ _ _ Hf1 H1) as (b & -> & S1 & Fb). exists b. repeat split; auto. econstructor; eauto.
Qed.

Lemma ushift_inj_final v c n : hole_free v = true -> step (ushift v c n) = None -> step v = None.
Proof. intros Hf F. rewrite step_ushift in F by exact Hf. destruct (step v); [discriminate | reflexivity]. Qed.

Theorem evals_ushift e v c n : hole_free e = true -> evals e v -> evals (ushift e c n) (ushift v c n).
Proof.
  intros Hf H. apply evals_iff in H as [S F]. apply evals_iff. split; [now apply steps_ushift|].
  apply final_ushift; [eapply steps_hole_free; eauto | exact F].
Qed.

Lemma is_lam_ushift t c n : is_lam (ushift t c n) = is_lam t.
Proof. destruct t; reflexivity. Qed.
Lemma is_lit_ushift t c n : is_lit (ushift t c n) = is_lit t.
Proof. destruct t; reflexivity. Qed.
Lemma is_boolc_ushift t c n : is_boolc (ushift t c n) = is_boolc t.
Proof. destruct t; reflexivity. Qed.

(* the reason a term is stuck does not depend on the names of its free variables *)
Theorem stuck_reason_ushift : forall t c n, stuck_reason (ushift t c n) = stuck_reason t.
Proof.
  induction t using term_ind'; intros c n; try reflexivity.
  - cbn [ushift stuck_reason]. rewrite !is_value_ushift, is_lam_ushift, IHt1, IHt2. reflexivity.
  - destruct ds as [|[ann d] rest]; [reflexivity|].
    inversion H as [|? ? [_ IHd] _]; subst. cbn [snd] in IHd.
    cbn [ushift map stuck_reason]. now rewrite is_value_ushift, IHd.
  - cbn [ushift stuck_reason]. rewrite is_value_ushift, is_lit_ushift, IHt. reflexivity.
  - cbn [ushift stuck_reason]. rewrite !is_value_ushift, IHt1, IHt2.
    destruct (is_value t1); cbn [negb]; [|reflexivity]. destruct (is_value t2); cbn [negb]; [|reflexivity].
    destruct t1; try reflexivity. destruct t2; reflexivity.
  - cbn [ushift stuck_reason]. rewrite is_value_ushift, is_boolc_ushift, IHt1. reflexivity.
Qed.

(* ---------- R4 ---------- *)
Lemma named_value_step A' v : hole_free v = true -> is_value v = true ->
  step (TLet [(A', ushift v 0 1)] (TVar 0)) = Some (TLet [] v).
Proof.
  intros Hf V. cbn [step]. rewrite (value_no_step (ushift v 0 1)) by (now rewrite is_value_ushift).
  rewrite is_value_ushift, V. cbn [negb length map open Nat.eqb]. rewrite ushift_zero.
  unfold unfold_first. now rewrite open_ushift_cancel.
Qed.

Lemma named_steps A e v : hole_free e = true -> steps e v ->
  steps (named A e) (named A v).
Proof. intros Hf S. unfold named. apply let_def_steps. now apply steps_ushift. Qed.

Theorem R4_result_value A e v : hole_free e = true -> evals e v -> is_value v = true -> evals (named A e) v.
Proof.
  intros Hf H V. apply evals_iff in H as [S F]. apply evals_iff. split; [|exact F].
  eapply steps_trans; [apply named_steps; eauto|]. unfold named.
  eapply steps_step; [apply named_value_step; [eapply steps_hole_free; eauto | exact V]|].
  apply steps_one. reflexivity.
Qed.

Lemma named_stuck_step A v : hole_free v = true -> step v = None -> is_value v = false -> step (named A v) = None.
Proof. intros Hf F V. unfold named. cbn [step]. now rewrite (final_ushift v 0 1 Hf F), is_value_ushift, V. Qed.

Theorem R4_result_stuck A e v : hole_free e = true -> evals e v -> is_value v = false ->
  evals (named A e) (named A v) /\ is_value (named A v) = false /\ stuck_reason (named A v) = stuck_reason v.
Proof.
  intros Hf H V. apply evals_iff in H as [S F]. repeat split.
  - apply evals_iff. split; [now apply named_steps|]. apply named_stuck_step; auto. eapply steps_hole_free; eauto.
  - unfold named. cbn [stuck_reason]. now rewrite is_value_ushift, V, stuck_reason_ushift.
Qed.

Theorem R4_result_inv A e w : hole_free e = true -> evals (named A e) w ->
  exists v, evals e v /\ ((is_value v = true /\ w = v) \/ (is_value v = false /\ w = named A v)).
Proof.
  intros Hf H. apply evals_iff in H as [S F]. apply steps_stepsn in S as [n S]. unfold named in S.
  destruct (ctx_decompose n (ELet (ushift A 0 1) EHole [] (TVar 0)) (ushift e 0 1) w eq_refl S F)
    as (n1 & v' & _ & S1 & F1 & S2).
  destruct (stepsn_ushift_inv _ _ _ _ _ Hf S1) as (v & -> & Sv & Fv).
  pose proof (ushift_inj_final _ _ _ Fv F1) as F0.
  cbn [plug] in S2. apply stepsn_steps in S2.
  exists v. split; [apply evals_iff; auto|].
  destruct (is_value v) eqn:V; [left | right]; split; auto.
  - eapply steps_final_unique; [exact S2 | exact F | | exact F0].
    eapply steps_step; [apply named_value_step; auto|]. apply steps_one. reflexivity.
  - pose proof (named_stuck_step A v Fv F0 V) as F2. unfold named in F2.
    inversion S2; subst; [reflexivity | congruence].
Qed.

Corollary R4_evaluate_value A e f v : hole_free e = true -> evaluate f e = Some v -> is_value v = true ->
  exists f', evaluate f' (named A e) = Some v.
Proof. intros Hf H V. apply (R4_result_value A e v Hf); [exists f; exact H | exact V]. Qed.

Corollary R4_evaluate_value_inv A e f' v : hole_free e = true -> evaluate f' (named A e) = Some v -> is_value v = true ->
  exists f, evaluate f e = Some v.
Proof.
  intros Hf H V. destruct (R4_result_inv A e v Hf (ex_intro _ f' H)) as (v0 & E & [[_ ->] | [_ ->]]); [exact E|].
  discriminate V.
Qed.

Corollary R4_terminates_iff A e : hole_free e = true -> ((exists w, evals (named A e) w) <-> (exists v, evals e v)).
Proof.
  intros Hf. split.
  - intros [w H]. destruct (R4_result_inv _ _ _ Hf H) as (v & E & _). eauto.
  - intros [v E]. destruct (is_value v) eqn:V.
    + exists v. now apply R4_result_value.
    + exists (named A v). now apply R4_result_stuck.
Qed.

(* for a closed e the shift in the rewritten program is invisible *)
Lemma named_closed A e : closed A -> closed e -> named A e = TLet [(A, e)] (TVar 0).
Proof.
  intros [BA FA] [Be Fe]. unfold named. now rewrite (ushift_closed A 0 0 1 BA FA), (ushift_closed e 0 0 1 Be Fe).
Qed.
Lemma unused_closed A v e : closed e -> unused A v e = TLet [(A, v)] e.
Proof. intros [Be Fe]. unfold unused. now rewrite (ushift_closed e 0 0 1 Be Fe). Qed.

(* ------------------------------------------------------------------------------------------- *)
(* Part 3. R6: a rewrite under a head context (function position, left operand, condition,     *)
(* operand of a negation). These positions bind nothing, are evaluation contexts, and the type *)
(* of the enclosing term does not mention the subterm.                                         *)
(* ------------------------------------------------------------------------------------------- *)

Inductive hctx :=
| HHole
| HApp (H : hctx) (a : term)
| HBinL (o : binop) (H : hctx) (b : term)
| HIf (H : hctx) (a b : term)
| HNeg (H : hctx).

Fixpoint hplug (H : hctx) (e : term) : term :=
  match H with
  | HHole => e
  | HApp H a => TApp (hplug H e) a
  | HBinL o H b => TBin o (hplug H e) b
  | HIf H a b => TIf (hplug H e) a b
  | HNeg H => TNeg (hplug H e)
  end.

Fixpoint ectx_of (H : hctx) : ectx :=
  match H with
  | HHole => EHole
  | HApp H a => EAppL (ectx_of H) a
  | HBinL o H b => EBinL o (ectx_of H) b
  | HIf H a b => EIf (ectx_of H) a b
  | HNeg H => ENeg (ectx_of H)
  end.

Lemma ectx_of_ok H : ectx_ok (ectx_of H) = true.
Proof. induction H; cbn [ectx_of ectx_ok]; auto. Qed.
Lemma plug_ectx_of H e : plug (ectx_of H) e = hplug H e.
Proof. induction H; cbn [ectx_of plug hplug]; congruence. Qed.

Definition accepts (G : ctx) (t T : term) : Prop := exists f, infer f G t = Some T.

Lemma accepts_det G t T1 T2 : accepts G t T1 -> accepts G t T2 -> T1 = T2.
Proof. intros [f1 H1] [f2 H2]. eapply infer_det; eauto. Qed.

(* two subterms with the same inferred type are interchangeable in head position: same verdict, same type *)
Theorem R6_infer_congr G e1 e2 T : accepts G e1 T -> accepts G e2 T ->
  forall H U, accepts G (hplug H e1) U -> accepts G (hplug H e2) U.
Proof.
  intros A1 A2. induction H as [|H IH a|o H IH b|H IH a b|H IH]; intros U [f HU]; cbn [hplug] in *.
  - rewrite (accepts_det _ _ _ _ (ex_intro _ f HU) A1). exact A2.
  - destruct f as [|f]; [discriminate|].
    destruct (infer f G (hplug H e1)) as [F|] eqn:E1; [|cbn [infer] in HU; rewrite E1 in HU; discriminate].
    destruct (IH F (ex_intro _ f E1)) as [f' E2]. set (m := Nat.max f f').
    apply (infer_mono _ m) in E1, E2; try lia. apply (infer_mono _ (S m)) in HU; [|lia].
    exists (S m). cbn [infer] in HU |- *. rewrite E1 in HU. rewrite E2. exact HU.
  - destruct f as [|f]; [discriminate|].
    destruct (infer f G (hplug H e1)) as [F|] eqn:E1; [|cbn [infer] in HU; rewrite E1 in HU; discriminate].
    destruct (IH F (ex_intro _ f E1)) as [f' E2]. set (m := Nat.max f f').
    apply (infer_mono _ m) in E1, E2; try lia. apply (infer_mono _ (S m)) in HU; [|lia].
    exists (S m). cbn [infer] in HU |- *. rewrite E1 in HU. rewrite E2. exact HU.
  - destruct f as [|f]; [discriminate|].
    destruct (infer f G (hplug H e1)) as [F|] eqn:E1; [|cbn [infer] in HU; rewrite E1 in HU; discriminate].
    destruct (IH F (ex_intro _ f E1)) as [f' E2]. set (m := Nat.max f f').
    apply (infer_mono _ m) in E1, E2; try lia. apply (infer_mono _ (S m)) in HU; [|lia].
    exists (S m). cbn [infer] in HU |- *. rewrite E1 in HU. rewrite E2. exact HU.
  - destruct f as [|f]; [discriminate|].
    destruct (infer f G (hplug H e1)) as [F|] eqn:E1; [|cbn [infer] in HU; rewrite E1 in HU; discriminate].
    destruct (IH F (ex_intro _ f E1)) as [f' E2]. set (m := Nat.max f f').
    apply (infer_mono _ m) in E1, E2; try lia. apply (infer_mono _ (S m)) in HU; [|lia].
    exists (S m). cbn [infer] in HU |- *. rewrite E1 in HU. rewrite E2. exact HU.
Qed.

(* if the enclosing term is accepted, so is the subterm in head position *)
Lemma hplug_accepts_inv G e : forall H U, accepts G (hplug H e) U -> exists T, accepts G e T.
Proof.
  induction H as [|H IH a|o H IH b|H IH a b|H IH]; intros U [f HU]; cbn [hplug] in *.
  - exists U, f. exact HU.
  - destruct f as [|f]; [discriminate|]. cbn [infer] in HU.
    destruct (infer f G (hplug H e)) as [F|] eqn:E1; [|discriminate]. exact (IH F (ex_intro _ f E1)).
  - destruct f as [|f]; [discriminate|]. cbn [infer] in HU.
    destruct (infer f G (hplug H e)) as [F|] eqn:E1; [|discriminate]. exact (IH F (ex_intro _ f E1)).
  - destruct f as [|f]; [discriminate|]. cbn [infer] in HU.
    destruct (infer f G (hplug H e)) as [F|] eqn:E1; [|discriminate]. exact (IH F (ex_intro _ f E1)).
  - destruct f as [|f]; [discriminate|]. cbn [infer] in HU.
    destruct (infer f G (hplug H e)) as [F|] eqn:E1; [|discriminate]. exact (IH F (ex_intro _ f E1)).
Qed.

Corollary R6_accept_congr G e1 e2 : (forall T, accepts G e1 T <-> accepts G e2 T) ->
  forall H U, accepts G (hplug H e1) U <-> accepts G (hplug H e2) U.
Proof.
  intros Eq H U. split; intros HU.
  - destruct (hplug_accepts_inv _ _ _ _ HU) as [T A1]. eapply R6_infer_congr; [exact A1 | apply Eq; exact A1 | exact HU].
  - destruct (hplug_accepts_inv _ _ _ _ HU) as [T A2]. eapply R6_infer_congr; [exact A2 | apply Eq; exact A2 | exact HU].
Qed.

(* ---------- observable outcomes: the same value, or stuck for the same reason, or both diverge ---------- *)
Definition outcome_equiv (a b : term) : Prop :=
  (forall v, is_value v = true -> (evals a v <-> evals b v)) /\
  (forall k, (exists v, evals a v /\ stuck v k) <-> (exists w, evals b w /\ stuck w k)).

Lemma outcome_equiv_refl a : outcome_equiv a a.
Proof. split; intros; reflexivity. Qed.
Lemma outcome_equiv_sym a b : outcome_equiv a b -> outcome_equiv b a.
Proof. intros [H1 H2]. split; intros; symmetry; auto. Qed.
Lemma outcome_equiv_trans a b c : outcome_equiv a b -> outcome_equiv b c -> outcome_equiv a c.
Proof.
  intros [H1 H2] [H3 H4]. split.
  - intros v V. rewrite (H1 v V). apply H3; exact V.
  - intros k. rewrite (H2 k). apply H4.
Qed.

Lemma outcome_equiv_steps a b : steps a b -> outcome_equiv a b.
Proof.
  intros S. split.
  - intros v _. now apply steps_same_result.
  - intros k. split; intros (v & E & St); exists v; (split; [|exact St]); apply (steps_same_result a b S); exact E.
Qed.

(* both terminate or both diverge *)
Lemma outcome_equiv_terminates a b : outcome_equiv a b -> ((exists v, evals a v) <-> (exists w, evals b w)).
Proof.
  assert (K : forall a b, outcome_equiv a b -> (exists v, evals a v) -> exists w, evals b w).
  { clear. intros a b [H1 H2] [v E]. destruct (is_value v) eqn:V.
    - exists v. now apply H1.
    - pose proof E as E0. apply evals_iff in E0 as [_ F].
      destruct (stuck_classified v F V) as (E1 & r & k & _ & _ & _ & R).
      destruct (proj1 (H2 k)) as (w & Ew & _); [exists v; split; [exact E | repeat split; auto]|]. eauto. }
  intros H. split; apply K; [exact H | apply outcome_equiv_sym; exact H].
Qed.

Lemma final_nonvalue_stuck v : step v = None -> is_value v = false -> exists k, stuck v k.
Proof.
  intros F V. destruct (stuck_classified v F V) as (E1 & r & k & _ & _ & _ & R). exists k. repeat split; auto.
Qed.

Lemma stuck_reason_unique v k k' : stuck v k -> stuck v k' -> k = k'.
Proof. intros (_ & _ & R1) (_ & _ & R2). congruence. Qed.

(* a run of plug E a, read through the run of a *)
Lemma evals_plug_inv E a w : ectx_ok E = true -> evals (plug E a) w ->
  exists a', evals a a' /\ evals (plug E a') w.
Proof.
  intros Hok H. apply evals_iff in H as [S F]. apply steps_stepsn in S as [n S].
  destruct (ctx_decompose n E a w Hok S F) as (n1 & a' & _ & S1 & F1 & S2).
  exists a'. split; apply evals_iff; split; auto; eapply stepsn_steps; eauto.
Qed.

Lemma evals_plug E a a' w : ectx_ok E = true -> evals a a' -> evals (plug E a') w -> evals (plug E a) w.
Proof.
  intros Hok H1 H2. apply evals_iff in H1 as [S1 _]. apply evals_iff in H2 as [S2 F]. apply evals_iff. split; [|exact F].
  eapply steps_trans; [apply steps_plug; eauto | exact S2].
Qed.

Lemma evals_plug_stuck E a a' k : ectx_ok E = true -> evals a a' -> stuck a' k ->
  evals (plug E a) (plug E a') /\ stuck (plug E a') k.
Proof.
  intros Hok H St. pose proof (stuck_plug E a' k Hok St) as St'. split; [|exact St'].
  eapply evals_plug; eauto. apply evals_value. exact (proj1 St').
Qed.

Lemma outcome_plug_half E a b : ectx_ok E = true -> outcome_equiv a b ->
  (forall v, is_value v = true -> evals (plug E a) v -> evals (plug E b) v) /\
  (forall k, (exists v, evals (plug E a) v /\ stuck v k) -> (exists w, evals (plug E b) w /\ stuck w k)).
Proof.
  intros Hok [H1 H2]. split.
  - intros v V Ev. destruct (evals_plug_inv E a v Hok Ev) as (a' & Ea & Ep).
    destruct (is_value a') eqn:Va.
    + eapply evals_plug; [exact Hok | apply H1; eauto | exact Ep].
    + pose proof Ea as Ea0. apply evals_iff in Ea0 as [_ Fa].
      destruct (final_nonvalue_stuck a' Fa Va) as [k St].
      destruct (evals_plug_stuck E a a' k Hok Ea St) as [Ev' St'].
      rewrite (evals_det _ _ _ Ev Ev') in V. destruct St' as (_ & V' & _). congruence.
  - intros k (v & Ev & Stv). destruct (evals_plug_inv E a v Hok Ev) as (a' & Ea & Ep).
    destruct (is_value a') eqn:Va.
    + exists v. split; [|exact Stv]. eapply evals_plug; [exact Hok | apply H1; eauto | exact Ep].
    + pose proof Ea as Ea0. apply evals_iff in Ea0 as [_ Fa].
      destruct (final_nonvalue_stuck a' Fa Va) as [k' St].
      destruct (evals_plug_stuck E a a' k' Hok Ea St) as [Ev' St'].
      rewrite (evals_det _ _ _ Ev Ev') in Stv. rewrite (stuck_reason_unique _ _ _ Stv St') in *.
      destruct (proj1 (H2 k')) as (w & Ew & Stw); [eauto|].
      destruct (evals_plug_stuck E b w k' Hok Ew Stw) as [Ew' Stw']. eauto.
Qed.

(* outcome equivalence is a congruence for evaluation contexts, in particular for head contexts *)
Theorem R6_outcome_congr E a b : ectx_ok E = true -> outcome_equiv a b -> outcome_equiv (plug E a) (plug E b).
Proof.
  intros Hok H.
  destruct (outcome_plug_half E a b Hok H) as [K1 K2].
  destruct (outcome_plug_half E b a Hok (outcome_equiv_sym _ _ H)) as [K3 K4].
  split; [intros v V | intros k]; split; auto.
Qed.

Corollary R6_outcome_hctx H a b : outcome_equiv a b -> outcome_equiv (hplug H a) (hplug H b).
Proof. intros K. rewrite <- !plug_ectx_of. apply R6_outcome_congr; [apply ectx_of_ok | exact K]. Qed.

(* ---------- the four rewrites as outcome equivalences ---------- *)
Theorem R1_outcome e e' : outcome_equiv e (TIf TTrue e e').
Proof. apply outcome_equiv_sym, outcome_equiv_steps, steps_one. reflexivity. Qed.

Theorem R3_outcome A d dv e : hole_free e = true -> evals d dv -> is_value dv = true -> outcome_equiv e (unused A d e).
Proof.
  intros He Ed V. apply evals_iff in Ed as [S _]. apply outcome_equiv_sym, outcome_equiv_steps. eapply R3_steps; eauto.
Qed.

Lemma wrapper_outcome (W : term -> term) e :
  (forall v, evals e v -> is_value v = true -> evals (W e) v) ->
  (forall v, evals e v -> is_value v = false ->
     evals (W e) (W v) /\ is_value (W v) = false /\ stuck_reason (W v) = stuck_reason v) ->
  (forall w, evals (W e) w ->
     exists v, evals e v /\ ((is_value v = true /\ w = v) \/ (is_value v = false /\ w = W v))) ->
  outcome_equiv e (W e).
Proof.
  intros Hv Hs Hi. split.
  - intros v V. split; [intros E; now apply Hv|].
    intros E. destruct (Hi _ E) as (v0 & E0 & [[_ ->] | [V0 ->]]); [exact E0|].
    destruct (Hs _ E0 V0) as (_ & V1 & _). congruence.
  - intros k. split.
    + intros (v & E & (F & V & R)). destruct (Hs _ E V) as (E1 & V1 & R1).
      exists (W v). split; [exact E1|]. split; [|split; [exact V1 | congruence]].
      apply evals_iff in E1. apply E1.
    + intros (w & E & (F & V & R)). destruct (Hi _ E) as (v0 & E0 & [[V0 ->] | [V0 ->]]); [congruence|].
      destruct (Hs _ E0 V0) as (_ & _ & R1). exists v0. split; [exact E0|].
      split; [apply evals_iff in E0; apply E0 | split; [exact V0 | congruence]].
Qed.

Theorem R2_outcome A e : outcome_equiv e (idw A e).
Proof.
  apply (wrapper_outcome (idw A)).
  - intros; now apply R2_result_value.
  - intros; now apply R2_result_stuck.
  - apply R2_result_inv.
Qed.

Theorem R4_outcome A e : hole_free e = true -> outcome_equiv e (named A e).
Proof.
  intros Hf. apply (wrapper_outcome (named A)).
  - intros; now apply R4_result_value.
  - intros; now apply R4_result_stuck.
  - intros; now apply R4_result_inv.
Qed.

(* ------------------------------------------------------------------------------------------- *)
(* Part 4. R5: sequences of rewrites.                                                          *)
(* ------------------------------------------------------------------------------------------- *)

Definition convertible (G : ctx) (a b : term) : Prop := exists f, convb f G a b = Some true.

Lemma convertible_conv G a b : convertible G a b -> conv G a b.
Proof. intros [f H]. eapply convb_sound; eauto. Qed.

(* (a) at the root, with arbitrary annotations: the type is preserved up to definitional equality *)
Inductive rw_root (G : ctx) : term -> term -> Prop :=
| rr_if e e' T T' : accepts G e T -> accepts G e' T' -> convertible G T' T -> rw_root G e (TIf TTrue e e')
| rr_idw A e T TA : hole_free A = true ->
    accepts G e T -> accepts G A TA -> convertible G TA TType -> convertible G T A -> rw_root G e (idw A e)
| rr_unused A v e T Ta Tv : hole_free e = true -> accepts G e T ->
    accepts (enter [(A, v)] G) A Ta -> convertible (enter [(A, v)] G) Ta TType ->
    accepts (enter [(A, v)] G) v Tv -> convertible (enter [(A, v)] G) Tv A -> rw_root G e (unused A v e)
| rr_named A e T TA : hole_free e = true -> hole_free A = true ->
    accepts G e T -> accepts G A TA -> convertible G TA TType -> convertible G T A -> rw_root G e (named A e)
| rr_refl e : rw_root G e e
| rr_trans a b c : rw_root G a b -> rw_root G b c -> rw_root G a c.

Lemma R3_accepts G A v e T Ta Tv : wf_offsets G -> ctx_hf' G -> hole_free e = true -> accepts G e T ->
  accepts (enter [(A, v)] G) A Ta -> convertible (enter [(A, v)] G) Ta TType ->
  accepts (enter [(A, v)] G) v Tv -> convertible (enter [(A, v)] G) Tv A -> accepts G (unused A v e) T.
Proof.
  intros WG HG He [f HT] [f1 HA] [f2 C1] [f3 Hv] [f4 C2].
  set (m := Nat.max f (Nat.max (Nat.max f1 f2) (Nat.max f3 f4))). exists (S m).
  apply R3_accept with (Ta := Ta) (Tv := Tv); auto.
  - eapply infer_mono; [|exact HA]; lia.
  - eapply convb_mono; [|exact C1]; lia.
  - eapply infer_mono; [|exact Hv]; lia.
  - eapply convb_mono; [|exact C2]; lia.
  - eapply infer_mono; [|exact HT]; lia.
Qed.

Theorem rw_root_sound G a b : wf_offsets G -> ctx_hf' G -> rw_root G a b ->
  (forall T, accepts G a T -> exists T', accepts G b T' /\ conv G T' T) /\
  (forall T', accepts G b T' -> exists T, accepts G a T /\ conv G T' T).
Proof.
  intros WG HG R. induction R as [e e' T T' [f He] [f1 He'] [f2 C] | A e T TA HA [f He] [f1 HAt] [f2 C1] [f3 C2]
    | A v e T Ta Tv Hf He HAt C1 Hv C2 | A e T TA Hf HA [f He] [f1 HAt] [f2 C1] [f3 C2] | e | a b c R1 [IH1 IH1'] R2 [IH2 IH2']].
  - split.
    + intros T0 A0. rewrite (accepts_det _ _ _ _ A0 (ex_intro _ f He)).
      destruct (R1_preserves_acceptance _ _ _ _ _ _ _ _ He He' C) as (f' & H & K). exists T. split; [exists f'; exact H | exact K].
    + intros T0 [f' H]. exists T0. split; [eapply R1_preserves_rejection; eauto | apply c_refl].
  - split.
    + intros T0 A0. rewrite (accepts_det _ _ _ _ A0 (ex_intro _ f He)).
      destruct (R2_preserves_acceptance _ _ _ _ _ _ _ _ _ HA He HAt C1 C2) as (f' & T1 & H & K & _). exists T1. split; [exists f'; exact H | exact K].
    + intros T0 [f' H]. destruct (R2_preserves_rejection _ _ _ _ _ HA H) as (f0 & T1 & H1 & K). exists T1. split; [exists f0; exact H1 | exact K].
  - split.
    + intros T0 A0. rewrite (accepts_det _ _ _ _ A0 He). exists T. split; [|apply c_refl]. eapply R3_accepts; eauto.
    + intros T0 [f' H]. exists T0. split; [eapply R3_preserves_rejection; eauto | apply c_refl].
  - split.
    + intros T0 A0. rewrite (accepts_det _ _ _ _ A0 (ex_intro _ f He)).
      destruct (R4_preserves_acceptance _ _ _ _ _ _ _ _ _ WG HG Hf HA He HAt C1 C2) as (f' & T1 & H & K & _). exists T1. split; [exists f'; exact H | exact K].
    + intros T0 [f' H]. destruct (R4_preserves_rejection _ _ _ _ _ WG HG Hf HA H) as (f0 & T1 & H1 & K). exists T1. split; [exists f0; exact H1 | exact K].
  - split; intros T A0; exists T; split; auto using c_refl.
  - split.
    + intros T A0. destruct (IH1 _ A0) as (T1 & A1 & K1). destruct (IH2 _ A1) as (T2 & A2 & K2).
      exists T2. split; [exact A2 | eapply c_trans; eauto].
    + intros T' A0. destruct (IH2' _ A0) as (T1 & A1 & K1). destruct (IH1' _ A1) as (T2 & A2 & K2).
      exists T2. split; [exact A2|].
      (* T' ~ T1 (type of b), and b's two types: A1 gives T1; IH1' relates T1 to T2 *)
      eapply c_trans; eauto.
Qed.

(* (b) anywhere in head position, annotations equal to the inferred type: the type is preserved exactly,
   and so is the observable outcome; such rewrites can be chained and undone *)
Inductive rw (G : ctx) : term -> term -> Prop :=
| rw_if e e' T T' : accepts G e T -> accepts G e' T' -> convertible G T' T -> rw G e (TIf TTrue e e')
| rw_idw e T TT : hole_free T = true ->
    accepts G e T -> accepts G T TT -> convertible G TT TType -> convertible G T T -> rw G e (idw T e)
| rw_unused A v dv e T Ta Tv : hole_free e = true -> accepts G e T ->
    accepts (enter [(A, v)] G) A Ta -> convertible (enter [(A, v)] G) Ta TType ->
    accepts (enter [(A, v)] G) v Tv -> convertible (enter [(A, v)] G) Tv A ->
    evals v dv -> is_value dv = true -> rw G e (unused A v e)
| rw_named e T TT : hole_free e = true -> hole_free T = true ->
    accepts G e T -> accepts G T TT -> convertible G TT TType -> convertible G T T -> rw G e (named T e)
| rw_ctx H e1 e2 : rw G e1 e2 -> rw G (hplug H e1) (hplug H e2)
| rw_refl e : rw G e e
| rw_sym a b : rw G a b -> rw G b a
| rw_trans a b c : rw G a b -> rw G b c -> rw G a c.

Theorem rw_sound G a b : wf_offsets G -> ctx_hf' G -> rw G a b ->
  (forall T, accepts G a T <-> accepts G b T) /\ outcome_equiv a b.
Proof.
  intros WG HG R. induction R as [e e' T T' [f He] [f1 He'] [f2 C] | e T TT HT [f He] [f1 HTt] [f2 C1] [f3 C2]
    | A v dv e T Ta Tv Hf He HAt C1 Hv C2 Ev Vd | e T TT Hf HT [f He] [f1 HTt] [f2 C1] [f3 C2]
    | H e1 e2 R [IHa IHo] | e | a b R [IHa IHo] | a b c R1 [IH1 IO1] R2 [IH2 IO2]].
  - split; [|apply R1_outcome]. intros T0. split.
    + intros A0. rewrite (accepts_det _ _ _ _ A0 (ex_intro _ f He)).
      destruct (R1_preserves_acceptance _ _ _ _ _ _ _ _ He He' C) as (f' & H & _). exists f'; exact H.
    + intros [f' H]. eapply R1_preserves_rejection; eauto.
  - split; [|apply R2_outcome]. intros T0. split.
    + intros A0. rewrite (accepts_det _ _ _ _ A0 (ex_intro _ f He)).
      destruct (R2_preserves_acceptance _ _ _ _ _ _ _ _ _ HT He HTt C1 C2) as (f' & T1 & H & _ & ->). exists f'; exact H.
    + intros [f' H]. destruct (R2_invert _ _ _ _ _ HT H) as (-> & _). exists f; exact He.
  - split; [|eapply R3_outcome; eauto]. intros T0. split.
    + intros A0. rewrite (accepts_det _ _ _ _ A0 He). eapply R3_accepts; eauto.
    + intros [f' H]. eapply R3_preserves_rejection; eauto.
  - split; [|apply R4_outcome; exact Hf]. intros T0. split.
    + intros A0. rewrite (accepts_det _ _ _ _ A0 (ex_intro _ f He)).
      destruct (R4_preserves_acceptance _ _ _ _ _ _ _ _ _ WG HG Hf HT He HTt C1 C2) as (f' & T1 & H & _ & ->). exists f'; exact H.
    + intros [f' H]. destruct (R4_invert _ _ _ _ _ WG HG Hf HT H) as (-> & _). exists f; exact He.
  - split; [apply R6_accept_congr; exact IHa | apply R6_outcome_hctx; exact IHo].
  - split; [intros; reflexivity | apply outcome_equiv_refl].
  - split; [intros T; symmetry; apply IHa | apply outcome_equiv_sym; exact IHo].
  - split; [intros T; rewrite (IH1 T); apply IH2 | eapply outcome_equiv_trans; eauto].
Qed.

(* the requested shapes, with explicit fuel, for R1 and R3 (R2, R4: R2_evaluate_value, R4_evaluate_value above) *)
Corollary R1_evaluate_value e e' f v : evaluate f e = Some v -> exists f', evaluate f' (TIf TTrue e e') = Some v.
Proof. intros H. exists (S f). now rewrite R1_evaluate. Qed.
Corollary R1_evaluate_inv e e' f' v : evaluate f' (TIf TTrue e e') = Some v -> exists f, evaluate f e = Some v.
Proof. intros H. apply (R1_result e e' v). exists f'; exact H. Qed.
Corollary R3_evaluate_value A d fd dv e f v : hole_free e = true -> evaluate fd d = Some dv -> is_value dv = true ->
  evaluate f e = Some v -> exists f', evaluate f' (unused A d e) = Some v.
Proof. intros He Ed V H. apply (R3_result A d dv e v He (ex_intro _ fd Ed) V). exists f; exact H. Qed.
Corollary R3_evaluate_inv A d fd dv e f' v : hole_free e = true -> evaluate fd d = Some dv -> is_value dv = true ->
  evaluate f' (unused A d e) = Some v -> exists f, evaluate f e = Some v.
Proof. intros He Ed V H. apply (R3_result A d dv e v He (ex_intro _ fd Ed) V). exists f'; exact H. Qed.

(* against the declarative typing judgement: the rewritten program has the original type *)
Corollary rw_has_type G a b T : wf_offsets G -> ctx_hf' G -> rw G a b -> accepts G a T -> has_type G b T.
Proof.
  intros WG HG R A0. destruct (rw_sound G a b WG HG R) as [K _]. destruct (proj1 (K T) A0) as [f H].
  eapply infer_sound; eauto.
Qed.
Corollary rw_root_has_type G a b T : wf_offsets G -> ctx_hf' G -> rw_root G a b -> accepts G a T -> has_type G b T.
Proof.
  intros WG HG R A0. destruct (rw_root_sound G a b WG HG R) as [K _]. destruct (K T A0) as (T' & [f H] & C).
  eapply t_conv; [eapply infer_sound; eauto | exact C].
Qed.

(* ------------------------------------------------------------------------------------------- *)
(* Part 5. Non-vacuity: each rewrite on small well-typed terms, both sides computed.           *)
(* ------------------------------------------------------------------------------------------- *)

Definition ex_e := TBin OSum (TLit 1) (TLit 2).

Example ex_R1 :
  infer 10 [] ex_e = Some TInt /\ infer 10 [] (TIf TTrue ex_e (TLit 0)) = Some TInt /\
  evaluate 10 ex_e = Some (TLit 3) /\ evaluate 10 (TIf TTrue ex_e (TLit 0)) = Some (TLit 3).
Proof. vm_compute. repeat split; reflexivity. Qed.

Example ex_R2 :
  infer 10 [] ex_e = Some TInt /\ infer 10 [] (idw TInt ex_e) = Some TInt /\
  evaluate 10 ex_e = Some (TLit 3) /\ evaluate 10 (idw TInt ex_e) = Some (TLit 3).
Proof. vm_compute. repeat split; reflexivity. Qed.

(* unused definition: a value, and a non-value that evaluates to a value *)
Example ex_R3 :
  infer 10 [] (unused TInt (TLit 7) ex_e) = Some TInt /\ evaluate 10 (unused TInt (TLit 7) ex_e) = Some (TLit 3) /\
  infer 10 [] (unused TInt (TBin OProd (TLit 3) (TLit 4)) ex_e) = Some TInt /\
  evaluate 10 (unused TInt (TBin OProd (TLit 3) (TLit 4)) ex_e) = Some (TLit 3).
Proof. vm_compute. repeat split; reflexivity. Qed.

Example ex_R4 :
  named TInt ex_e = TLet [(TInt, ex_e)] (TVar 0) /\
  infer 10 [] (named TInt ex_e) = Some TInt /\ evaluate 10 (named TInt ex_e) = Some (TLit 3).
Proof. vm_compute. repeat split; reflexivity. Qed.

(* under a non-empty context, with a type that is a variable: X : type, x : X |- x : X *)
Definition ex_G : ctx := bind (bind [] TType) (TVar 0).
Example ex_R2_R4_open :
  infer 10 ex_G (TVar 0) = Some (TVar 1) /\
  infer 10 ex_G (idw (TVar 1) (TVar 0)) = Some (TVar 1) /\
  named (TVar 1) (TVar 0) = TLet [(TVar 2, TVar 1)] (TVar 0) /\
  infer 10 ex_G (named (TVar 1) (TVar 0)) = Some (TVar 1).
Proof. vm_compute. repeat split; reflexivity. Qed.

(* an unused definition that mentions the context: y : int |- (z : int = y; y + 1) *)
Example ex_R3_open :
  let G := bind [] TInt in let e := TBin OSum (TVar 0) (TLit 1) in
  unused (ushift TInt 0 1) (ushift (TVar 0) 0 1) e = TLet [(TInt, TVar 1)] (TBin OSum (TVar 1) (TLit 1)) /\
  infer 10 G e = Some TInt /\ infer 10 G (unused (ushift TInt 0 1) (ushift (TVar 0) 0 1) e) = Some TInt.
Proof. vm_compute. repeat split; reflexivity. Qed.

(* the same facts obtained from the theorems (their hypotheses are satisfiable) *)
Example ex_R1_by_theorem : infer 11 [] (TIf TTrue ex_e (TLit 0)) = Some TInt.
Proof. apply R1_accept with (T' := TInt); vm_compute; reflexivity. Qed.
Example ex_R2_by_theorem : infer 12 [] (idw TInt ex_e) = Some TInt.
Proof. apply R2_accept with (T := TInt) (TA := TType); vm_compute; reflexivity. Qed.
Example ex_R3_by_theorem : infer 11 (bind [] TInt) (unused (ushift TInt 0 1) (ushift (TVar 0) 0 1) (TBin OSum (TVar 0) (TLit 1))) = Some TInt.
Proof.
  apply R3_accept_shifted with (TA := TType) (Tv := TInt); try (vm_compute; reflexivity).
  - apply wf_offsets_bind, wf_offsets_nil.
  - apply ctx_hf'_bind; [reflexivity | apply ctx_hf'_nil].
Qed.
Example ex_R4_by_theorem : infer 11 ex_G (named (TVar 1) (TVar 0)) = Some (TVar 1).
Proof.
  apply R4_accept with (T := TVar 1) (TA := TType); try (vm_compute; reflexivity).
  - apply wf_offsets_bind, wf_offsets_bind, wf_offsets_nil.
  - apply ctx_hf'_bind; [reflexivity | apply ctx_hf'_bind; [reflexivity | apply ctx_hf'_nil]].
Qed.

(* stuck results: the wrappers keep the reason *)
Definition ex_div0 := TBin OQuot (TLit 1) (TLit 0).
Example ex_stuck :
  evaluate 10 ex_div0 = Some ex_div0 /\ stuck_reason ex_div0 = Some DivByZero /\
  evaluate 10 (idw TInt ex_div0) = Some (idw TInt ex_div0) /\ stuck_reason (idw TInt ex_div0) = Some DivByZero /\
  evaluate 10 (named TInt ex_div0) = Some (named TInt ex_div0) /\ stuck_reason (named TInt ex_div0) = Some DivByZero.
Proof. vm_compute. repeat split; reflexivity. Qed.

(* FINDING (limit of R3): an unused definition whose evaluation is stuck is accepted by the checker
   (1/0 : int) but changes the result: the program 3 becomes a program stuck on a division by zero.
   The hypothesis "the definition evaluates to a value" of R3_result / R3_outcome is necessary. *)
Example ex_R3_stuck_definition :
  let p := unused TInt ex_div0 (TLit 3) in
  infer 10 [] (TLit 3) = Some TInt /\ infer 10 [] p = Some TInt /\
  evaluate 10 (TLit 3) = Some (TLit 3) /\ evaluate 10 p = Some p /\ stuck_reason p = Some DivByZero.
Proof. vm_compute. repeat split; reflexivity. Qed.

(* a sequence of rewrites in head position, through the relation rw and its soundness theorem *)
Definition ex_big := TBin OSum (named TInt (idw TInt (TIf TTrue (TLit 2) (TLit 0)))) (TLit 1).

Ltac acc := match goal with
  | |- accepts _ _ _ => exists 12; vm_compute; reflexivity
  | |- convertible _ _ _ => exists 12; vm_compute; reflexivity
  | |- hole_free _ = true => reflexivity end.

Example ex_rw_chain : rw [] (TBin OSum (TLit 2) (TLit 1)) ex_big.
Proof.
  apply (rw_ctx [] (HBinL OSum HHole (TLit 1)) (TLit 2) (named TInt (idw TInt (TIf TTrue (TLit 2) (TLit 0))))).
  eapply rw_trans; [apply (rw_if [] (TLit 2) (TLit 0) TInt TInt); acc|].
  eapply rw_trans; [apply (rw_idw [] _ TInt TType); acc|].
  apply (rw_named [] _ TInt TType); acc.
Qed.

Example ex_rw_chain_sound :
  (forall T, accepts [] (TBin OSum (TLit 2) (TLit 1)) T <-> accepts [] ex_big T) /\
  outcome_equiv (TBin OSum (TLit 2) (TLit 1)) ex_big.
Proof. apply rw_sound; [apply wf_offsets_nil | apply ctx_hf'_nil | apply ex_rw_chain]. Qed.

Example ex_rw_chain_computed :
  infer 12 [] (TBin OSum (TLit 2) (TLit 1)) = Some TInt /\ infer 12 [] ex_big = Some TInt /\
  evaluate 12 (TBin OSum (TLit 2) (TLit 1)) = Some (TLit 3) /\ evaluate 12 ex_big = Some (TLit 3).
Proof. vm_compute. repeat split; reflexivity. Qed.

(* ------------------------------------------------------------------------------------------- *)
Print Assumptions convb_mono.
Print Assumptions infer_mono.
Print Assumptions R1_accept.
Print Assumptions R1_invert.
Print Assumptions R1_preserves_acceptance.
Print Assumptions R1_preserves_rejection.
Print Assumptions R2_accept.
Print Assumptions R2_invert.
Print Assumptions R2_preserves_acceptance.
Print Assumptions R2_preserves_rejection.
Print Assumptions R3_accept.
Print Assumptions R3_invert.
Print Assumptions R3_accept_shifted.
Print Assumptions R3_preserves_acceptance.
Print Assumptions R3_preserves_rejection.
Print Assumptions R4_accept.
Print Assumptions R4_invert.
Print Assumptions R4_preserves_acceptance.
Print Assumptions R4_preserves_rejection.
Print Assumptions steps_same_result.
Print Assumptions R1_evaluate.
Print Assumptions R1_result.
Print Assumptions R2_result_value.
Print Assumptions R2_result_stuck.
Print Assumptions R2_result_inv.
Print Assumptions R2_terminates_iff.
Print Assumptions R3_result.
Print Assumptions R3_stuck_definition.
Print Assumptions step_ushift.
Print Assumptions step_hole_free.
Print Assumptions stuck_reason_ushift.
Print Assumptions evals_ushift.
Print Assumptions R4_result_value.
Print Assumptions R4_result_stuck.
Print Assumptions R4_result_inv.
Print Assumptions R4_terminates_iff.
Print Assumptions R6_infer_congr.
Print Assumptions R6_accept_congr.
Print Assumptions R6_outcome_congr.
Print Assumptions R1_outcome.
Print Assumptions R2_outcome.
Print Assumptions R3_outcome.
Print Assumptions R4_outcome.
Print Assumptions rw_root_sound.
Print Assumptions rw_sound.
Print Assumptions rw_has_type.
Print Assumptions rw_root_has_type.
Print Assumptions R3_evaluate_value.
Print Assumptions R3_evaluate_inv.
Print Assumptions ex_rw_chain_sound.
Print Assumptions ex_R3_stuck_definition.
