(* Source ranges: every syntax node of an accepted parse carries the byte range that runs from the first
   byte of its first token to the last byte of its last token.

   The proof threads an invariant through the interpreter of the generated skeleton and through the memo
   table, in the style of SoundProofs: a CLEAN result `PRes t nx _` (no error factories, no error nodes)
   of a call at position p consumed at least one token (p < nx <= number of tokens), the root range of t
   is (ps (token p), pe (token (nx - 1))), and - hereditarily (`lay`) - the children of every node tile the
   node's token interval exactly as the productions prescribe (with the keyword tokens in between), each child
   again carrying the range of its own interval; a parenthesised node carries the range of the outermost
   parentheses around it and its children tile an interval inside them. *)
From Coq Require Import List ZArith NArith Lia Bool Arith PArith FMapPositive.
Import ListNotations.
Require Import Gram.Model.Term Gram.Model.Token Gram.Model.Grammar Gram.Gen.ParserSkeleton Gram.Gen.GrammarY Gram.Model.Parser.
Require Import Gram.Proofs.ParserProofs Gram.Proofs.PanicProofs Gram.Proofs.PackratProofs Gram.Proofs.SoundProofs.

(* ---------- lists ---------- *)
Lemma hd_app_ne {A} (d : A) l l' : l <> [] -> hd d (l ++ l') = hd d l.
Proof. destruct l; [congruence | reflexivity]. Qed.
Lemma rev_ne {A} (l : list A) : l <> [] -> rev l <> [].
Proof. destruct l; [congruence|]. cbn. intros _ H. apply app_eq_nil in H as [_ H]. discriminate. Qed.
Lemma hd_rev_last {A} (d : A) l : hd d (rev l) = last l d.
Proof.
  induction l as [|a l IH]; [reflexivity|]. destruct l as [|b l]; [reflexivity|].
  change (rev (a :: b :: l)) with (rev (b :: l) ++ [a]). rewrite hd_app_ne by (apply rev_ne; discriminate).
  rewrite IH. reflexivity.
Qed.
Lemma last_rev_hd {A} (d : A) l : last (rev l) d = hd d l.
Proof. destruct l as [|a l]; [reflexivity|]. cbn [rev hd]. apply last_last. Qed.

(* the children of a node, whatever its own label *)
Definition kids_of (P : pterm -> Prop) (t : pterm) : Prop :=
  match t with
  | PLam _ _ _ _ _ d b => match d with Some d => P d | None => True end /\ P b
  | PPi _ _ _ _ _ d b => P d /\ P b
  | PApp _ f a => P f /\ P a
  | PLet _ _ _ _ an d b => match an with Some a => P a | None => True end /\ P d /\ P b
  | PNeg _ a => P a
  | PBin _ _ a b => P a /\ P b
  | PIf _ c t e => P c /\ P t /\ P e
  | _ => True
  end.

Lemma kids_of_with_info P t i : kids_of P (with_info t i) = kids_of P t.
Proof. destruct t; reflexivity. Qed.
Lemma info_with_info t i : info (with_info t i) = i.
Proof. destruct t; reflexivity. Qed.
Lemma kids_of_impl (P Q : pterm -> Prop) t : (forall c, P c -> Q c) -> kids_of P t -> kids_of Q t.
Proof.
  intros H. destruct t; cbn; try tauto; try (intuition auto; fail).
  - destruct dom; intuition auto.
  - destruct ann; intuition auto.
Qed.

Section Range.
Variable use_memo : bool.
Variable toks : list ptok.
Let tokmap := tokmap_of toks.
Let ntoks := length toks.
Let last_tok := last_opt toks.
Let NT : N := N.of_nat ntoks.
Notation at' := (at_ tokmap).
Notation is' := (is tokmap).
Notation tok_range' := (tok_range tokmap last_tok).
Notation crange' := (crange tokmap last_tok).
Notation error_term' := (error_term tokmap last_tok).
Notation silent_error' := (silent_error tokmap last_tok).
Notation choose' := (choose tokmap last_tok).
Notation run' := (run tokmap last_tok).
Notation build' := (build tokmap last_tok).
Notation expect' := (expect tokmap ntoks).
Notation scan' := (scan tokmap).
Notation parse_let' := (parse_let tokmap ntoks last_tok).
Notation parse_if' := (parse_if tokmap ntoks last_tok).
Notation parse_group' := (parse_group tokmap ntoks last_tok).
Notation parse' := (parse use_memo tokmap ntoks last_tok).

Lemma at_lt p t : at' p = Some t -> (p < NT)%N.
Proof. intros H. exact (at_some toks p t H). Qed.
Lemma tok_range_at p a : at' p = Some a -> tok_range' p = (ps a, pe a).
Proof. intros H. unfold tok_range. now rewrite H. Qed.

(* the helper facts of SoundProofs, in the notation of this section *)
Lemma is_kind' p k : is' p k = true -> exists t, at' p = Some t /\ pk t = k.
Proof. exact (is_kind toks p k). Qed.
Lemma expect_here' want p s :
  let r := expect' want p true s in
  snd (fst r) = 0 ->
  fst (fst (fst r)) = true /\ snd (fst (fst r)) = N.succ p /\ (exists t, at' p = Some t /\ want (pk t) = true) /\ tbl (snd r) = tbl s.
Proof. exact (expect_here toks want p s). Qed.
Lemma keyword_step' want p conf s t0 : Jt t0 conf -> clean t0 ->
  let r := expect' want p conf s in
  snd (fst r) = 0 ->
  fst (fst (fst r)) = true /\ snd (fst (fst r)) = N.succ p /\ (exists tk, at' p = Some tk /\ want (pk tk) = true).
Proof. exact (keyword_step toks want p conf s t0). Qed.
Lemma expect_tbl' want p conf s : tbl (snd (expect' want p conf s)) = tbl s.
Proof. exact (expect_tbl toks want p conf s). Qed.

(* ---------- the range statement ---------- *)
(* the node t carries the range of the non-empty token interval [p, q) *)
Definition Rng (t : pterm) (p q : N) : Prop :=
  (p < q)%N /\ (q <= NT)%N /\ prs (info t) = fst (tok_range' p) /\ pre (info t) = snd (tok_range' (N.pred q)).

(* every node of t carries the range of a non-empty token interval, inside [lo, hi) for the root and
   inside the interval of its parent below *)
Fixpoint nested (t : pterm) (lo hi : N) {struct t} : Prop :=
  exists p q, (lo <= p)%N /\ (q <= hi)%N /\ Rng t p q /\
  match t with
  | PLam _ _ _ _ _ d b => match d with Some d => nested d p q | None => True end /\ nested b p q
  | PPi _ _ _ _ _ d b => nested d p q /\ nested b p q
  | PApp _ f a => nested f p q /\ nested a p q
  | PLet _ _ _ _ an d b => match an with Some a => nested a p q | None => True end /\ nested d p q /\ nested b p q
  | PNeg _ a => nested a p q
  | PBin _ _ a b => nested a p q /\ nested b p q
  | PIf _ c t e => nested c p q /\ nested t p q /\ nested e p q
  | _ => True
  end.
Definition kids (t : pterm) (p q : N) : Prop := kids_of (fun c => nested c p q) t.

Lemma nested_unfold t lo hi : nested t lo hi <-> exists p q, (lo <= p)%N /\ (q <= hi)%N /\ Rng t p q /\ kids t p q.
Proof. destruct t; reflexivity. Qed.

Lemma nested_mono t lo hi lo' hi' : nested t lo hi -> (lo' <= lo)%N -> (hi <= hi')%N -> nested t lo' hi'.
Proof. rewrite !nested_unfold. intros (p & q & A & B & C) H1 H2. exists p, q. split; [lia|]. split; [lia|]. exact C. Qed.
Lemma kids_mono t p q p' q' : kids t p q -> (p' <= p)%N -> (q <= q')%N -> kids t p' q'.
Proof. intros K H1 H2. unfold kids in *. eapply kids_of_impl; [|exact K]. intros c Hc. cbv beta in *. eapply nested_mono; eauto. Qed.

(* the exact layout: t carries the range of [p, q); its constituents tile [p', q'), which is [p, q) itself
   unless t was parenthesised (then [p', q') lies inside the parentheses); between the children stand the
   keyword tokens of the production *)
Fixpoint lay (t : pterm) (p q : N) {struct t} : Prop :=
  Rng t p q /\ exists p' q', (p <= p')%N /\ (q' <= q)%N /\ (pgroup (info t) = false -> p' = p /\ q' = q) /\
  match t with
  | PError _ => True
  | PType _ | PInt _ | PBool _ | PTrue _ | PFalse _ | PVar _ _ | PLit _ _ => q' = N.succ p'
  | PLam _ _ _ _ _ dom b =>
      exists m, (p' < m)%N /\ lay b m q' /\
                match dom with None => True | Some d => exists m1 m2, (p' < m1)%N /\ lay d m1 m2 /\ (m2 < m)%N end
  | PPi _ _ _ _ _ d b => exists m1 m2 m, (p' <= m1)%N /\ lay d m1 m2 /\ (m2 < m)%N /\ lay b m q'
  | PApp _ f a => exists m, lay f p' m /\ lay a m q'
  | PLet _ _ _ _ an d b =>
      match an with
      | None => exists m2, lay d (N.succ (N.succ p')) m2 /\ lay b (N.succ m2) q'
      | Some a => exists k m2, lay a (N.succ (N.succ p')) k /\ lay d (N.succ k) m2 /\ lay b (N.succ m2) q'
      end
  | PNeg _ a => lay a (N.succ p') q'
  | PBin _ _ a b => exists m, lay a p' m /\ lay b (N.succ m) q'
  | PIf _ c t e => exists m1 m2, lay c (N.succ p') m1 /\ lay t (N.succ m1) m2 /\ lay e (N.succ m2) q'
  end.
Definition inner (t : pterm) (p' q' : N) : Prop :=
  match t with
  | PError _ => True
  | PType _ | PInt _ | PBool _ | PTrue _ | PFalse _ | PVar _ _ | PLit _ _ => q' = N.succ p'
  | PLam _ _ _ _ _ dom b =>
      exists m, (p' < m)%N /\ lay b m q' /\
                match dom with None => True | Some d => exists m1 m2, (p' < m1)%N /\ lay d m1 m2 /\ (m2 < m)%N end
  | PPi _ _ _ _ _ d b => exists m1 m2 m, (p' <= m1)%N /\ lay d m1 m2 /\ (m2 < m)%N /\ lay b m q'
  | PApp _ f a => exists m, lay f p' m /\ lay a m q'
  | PLet _ _ _ _ an d b =>
      match an with
      | None => exists m2, lay d (N.succ (N.succ p')) m2 /\ lay b (N.succ m2) q'
      | Some a => exists k m2, lay a (N.succ (N.succ p')) k /\ lay d (N.succ k) m2 /\ lay b (N.succ m2) q'
      end
  | PNeg _ a => lay a (N.succ p') q'
  | PBin _ _ a b => exists m, lay a p' m /\ lay b (N.succ m) q'
  | PIf _ c t e => exists m1 m2, lay c (N.succ p') m1 /\ lay t (N.succ m1) m2 /\ lay e (N.succ m2) q'
  end.
Lemma lay_unfold t p q : lay t p q <->
  Rng t p q /\ exists p' q', (p <= p')%N /\ (q' <= q)%N /\ (pgroup (info t) = false -> p' = p /\ q' = q) /\ inner t p' q'.
Proof. destruct t; reflexivity. Qed.
Lemma inner_with_info t i p q : inner (with_info t i) p q = inner t p q.
Proof. destruct t; reflexivity. Qed.
Lemma lay_Rng t p q : lay t p q -> Rng t p q.
Proof. intros H. apply lay_unfold in H. tauto. Qed.
Lemma lay_plain t p q : Rng t p q -> inner t p q -> lay t p q.
Proof. intros R I. apply lay_unfold. split; [exact R|]. exists p, q. split; [lia|]. split; [lia|]. split; [auto | exact I]. Qed.

Lemma lay_lt t p q : lay t p q -> (p < q)%N.
Proof. intros H. apply lay_Rng in H. destruct H; assumption. Qed.
(* (a wrapper that tactics do not look into) *)
Definition layp (t : pterm) (p q : N) : Prop := lay t p q.
Lemma layp_lay t p q : layp t p q -> lay t p q.
Proof. exact (fun H => H). Qed.
Lemma lay_both t p q : lay t p q -> (p < q)%N /\ layp t p q.
Proof. intros H. split; [exact (lay_lt _ _ _ H) | exact H]. Qed.

(* the layout implies the nesting of the token intervals *)
Lemma lay_nested : forall t p q, lay t p q -> nested t p q.
Proof.
  fix IH 1. intros t p q H.
  assert (W : forall c a b p' q', lay c a b -> (p <= p')%N -> (q' <= q)%N -> (p' <= a)%N -> (b <= q')%N -> nested c p q).
  { intros c a b p' q' Hc H1 H2 H3 H4. apply (nested_mono c a b); [apply IH; exact Hc | lia | lia]. }
  assert (O : forall c a b, lay c a b -> (a < b)%N) by (intros c a b Hc; apply lay_Rng in Hc; destruct Hc; assumption).
  apply nested_unfold. exists p, q. split; [lia|]. split; [lia|].
  destruct t; cbn [lay] in H; destruct H as (R & p' & q' & H1 & H2 & _ & K); (split; [exact R|]); unfold kids; cbn [kids_of]; try exact I.
  - destruct K as (m & L & Kb & Kd). pose proof (O _ _ _ Kb). split; [|eapply W; eauto; lia].
    destruct dom as [d|]; [|exact I]. destruct Kd as (m1 & m2 & L1 & Kd & L2). pose proof (O _ _ _ Kd). eapply W; eauto; lia.
  - destruct K as (m1 & m2 & m & L1 & Kd & L2 & Kb). pose proof (O _ _ _ Kd). pose proof (O _ _ _ Kb). split; eapply W; eauto; lia.
  - destruct K as (m & Kf & Ka). pose proof (O _ _ _ Kf). pose proof (O _ _ _ Ka). split; eapply W; eauto; lia.
  - destruct ann as [a|].
    + destruct K as (k & m2 & Ka & Kd & Kb). pose proof (O _ _ _ Ka). pose proof (O _ _ _ Kd). pose proof (O _ _ _ Kb).
      split; [|split]; eapply W; eauto; lia.
    + destruct K as (m2 & Kd & Kb). pose proof (O _ _ _ Kd). pose proof (O _ _ _ Kb). split; [exact I|]. split; eapply W; eauto; lia.
  - pose proof (O _ _ _ K). eapply W; eauto; lia.
  - destruct K as (m & Ka & Kb). pose proof (O _ _ _ Ka). pose proof (O _ _ _ Kb). split; eapply W; eauto; lia.
  - destruct K as (m1 & m2 & Kc & Kt & Ke). pose proof (O _ _ _ Kc). pose proof (O _ _ _ Kt). pose proof (O _ _ _ Ke).
    split; [|split]; eapply W; eauto; lia.
Qed.

(* ---------- the invariant ---------- *)
Definition RangeR (p : N) (r : pres) : Prop :=
  match r with
  | PFuel => True
  | PRes t nx _ => clean t -> lay t p nx
  end.
Definition TR (s : mstate) : Prop := forall n p r, PositiveMap.find (key n p) (tbl s) = Some r -> RangeR p r.

Definition RecOK (rec : mrec) : Prop := forall n p s, TJ s -> TR s ->
  J (fst (rec n p s)) /\ TJ (snd (rec n p s)) /\ RangeR p (fst (rec n p s)) /\ TR (snd (rec n p s)).

Lemma RangeR_error p q c : RangeR p (PRes (error_term' q) q c).
Proof. intros H. now apply not_clean_error in H. Qed.
Lemma TR_same_tbl s s' : tbl s' = tbl s -> TR s -> TR s'.
Proof. intros E T n p r. rewrite E. apply T. Qed.

(* ---------- what `build` does with the ranges of what was collected ---------- *)
Definition dc : child := CTok 0%N.

Lemma build_range n cs t : build' n cs = Some t ->
  cs <> [] /\ prs (info t) = fst (crange' (hd dc cs)) /\ pre (info t) = snd (crange' (last cs dc)).
Proof.
  unfold build. intros H.
  destruct n; try discriminate H;
  repeat (match type of H with
          | match ?l with [] => _ | _ :: _ => _ end = Some _ => destruct l as [|[?p|?u] ?cs]; try discriminate H
          | (let '(_, _) := ?e in _) = Some _ => destruct e eqn:?
          end);
  injection H as <-; (split; [discriminate|]); cbn; rewrite ?Heqp; cbn; split; reflexivity.
Qed.

(* the collected children tile [p, q) *)
Fixpoint tiles (cs : list child) (p q : N) : Prop :=
  match cs with
  | [] => p = q
  | CTok x :: r => x = p /\ tiles r (N.succ p) q
  | CTerm t :: r => exists m, lay t p m /\ tiles r m q
  end.
Lemma tiles_app : forall a b p m q, tiles a p m -> tiles b m q -> tiles (a ++ b) p q.
Proof.
  induction a as [|[x|t] a IH]; intros b p m q Ha Hb; cbn [tiles app] in *.
  - now subst.
  - destruct Ha as [-> Ha]. split; [reflexivity | eapply IH; eauto].
  - destruct Ha as (m' & Ht & Ha). exists m'. split; [exact Ht | eapply IH; eauto].
Qed.

Lemma build_inner n cs t p q : build' n cs = Some t -> tiles cs p q -> inner t p q.
Proof.
  unfold build. intros H T.
  destruct n; try discriminate H;
  repeat (match type of H with
          | match ?l with [] => _ | _ :: _ => _ end = Some _ => destruct l as [|[?p|?u] ?cs]; try discriminate H
          | (let '(_, _) := ?e in _) = Some _ => destruct e eqn:?
          end);
  injection H as <-; cbn [tiles] in T;
  repeat (match goal with
          | H : _ /\ _ |- _ => destruct H
          | H : exists _, _ |- _ => destruct H
          end); subst; cbn [inner]; try reflexivity;
  repeat (match goal with H : lay _ _ _ |- _ => apply lay_both in H; destruct H as [? H] end);
  repeat (match goal with |- exists _, _ => eexists | |- _ /\ _ => split end);
  try (match goal with |- lay _ _ _ => apply layp_lay; eassumption end); try exact I; try lia.
Qed.

(* what a sequence function has collected so far, at [start, cur) *)
Definition acc_rng (start cur : N) (acc : list child) : Prop :=
  (start <= cur)%N /\ (acc = [] -> cur = start) /\
  (acc <> [] -> (start < cur)%N /\ (cur <= NT)%N /\ fst (crange' (last acc dc)) = fst (tok_range' start) /\
                snd (crange' (hd dc acc)) = snd (tok_range' (N.pred cur))) /\
  tiles (rev acc) start cur.

Lemma acc_rng_tok start cur acc t : at' cur = Some t -> acc_rng start cur acc -> acc_rng start (N.succ cur) (CTok cur :: acc).
Proof.
  intros At (A & C & D & E). pose proof (at_lt _ _ At) as Lt. unfold acc_rng.
  split; [lia|]. split; [discriminate|]. split.
  - intros _. split; [lia|]. split; [lia|]. split.
    + destruct acc as [|x acc]; [rewrite (C eq_refl); reflexivity|]. destruct D as (_ & _ & D & _); [discriminate|]. exact D.
    + cbn [hd crange]. now rewrite N.pred_succ.
  - cbn [rev]. eapply tiles_app; [exact E|]. cbn. auto.
Qed.

Lemma acc_rng_term start cur acc t nx : lay t cur nx -> acc_rng start cur acc -> acc_rng start nx (CTerm t :: acc).
Proof.
  intros F (A & C & D & E). pose proof (lay_Rng _ _ _ F) as (R1 & R2 & R3 & R4). unfold acc_rng.
  split; [lia|]. split; [discriminate|]. split.
  - intros _. split; [lia|]. split; [lia|]. split.
    + destruct acc as [|x acc]; [rewrite <- (C eq_refl); exact R3|]. destruct D as (_ & _ & D & _); [discriminate|]. exact D.
    + exact R4.
  - cbn [rev]. eapply tiles_app; [exact E|]. cbn. eauto.
Qed.

Section BodyRange.
Variable rec : mrec.
Hypothesis HRec : RecOK rec.

Lemma choose_range p : forall alts s, TJ s -> TR s ->
  RangeR p (fst (choose' rec p alts s)) /\ TJ (snd (choose' rec p alts s)) /\ TR (snd (choose' rec p alts s)).
Proof.
  induction alts as [|a r IH]; intros s T1 T2; cbn [choose].
  - split; [apply RangeR_error | split; assumption].
  - destruct (HRec a p s T1 T2) as (Ja & T1' & Sa & T2'). destruct (rec a p s) as [[|t nx c] s']; cbn [fst snd] in *; [repeat split; auto|].
    destruct (is_perror t) eqn:P.
    + apply IH; auto.
    + split; [exact Sa | split; assumption].
Qed.

Lemma run_range n start :
  forall steps cur acc conf s, TJ s -> TR s ->
  (clean_acc acc -> acc_rng start cur acc) ->
  let out := run' rec n steps cur acc conf s in
  RangeR start (fst out) /\ TJ (snd out) /\ TR (snd out).
Proof.
  induction steps as [|st steps IH]; intros cur acc conf s T1 T2 Inv; cbv zeta; cbn [run].
  - cbn [fst snd]. split; [|split; assumption]. destruct (build' n (rev acc)) as [t|] eqn:B; [|apply RangeR_error].
    intros [C1 C2]. pose proof (build_facts _ _ _ _ _ B) as [B1 B2].
    assert (CA : clean_acc acc) by (apply clean_acc_rev; split; congruence).
    destruct (Inv CA) as (A1 & A3 & A4 & A5).
    pose proof (build_range _ _ _ B) as (Ne & Bs & Be). rewrite hd_rev_last in Bs. rewrite last_rev_hd in Be.
    assert (Na : acc <> []) by (intros ->; now apply Ne).
    destruct (A4 Na) as (L & A2 & Hs & He). apply lay_plain.
    + unfold Rng. split; [exact L|]. split; [exact A2|]. split; congruence.
    + eapply build_inner; [exact B | exact A5].
  - destruct st as [k|m|m].
    + destruct (is' cur k) eqn:K; [|split; [apply RangeR_error | split; assumption]].
      destruct (is_kind' _ _ K) as (t & At & Pk).
      apply IH; auto. intros CA. apply clean_acc_cons_tok in CA. eapply acc_rng_tok; [exact At | auto].
    + destruct (HRec m cur s T1 T2) as (Jm & T1' & Sm & T2'). destruct (rec m cur s) as [[|t nx c] s']; cbn [fst snd] in *; [repeat split; auto|].
      destruct (is_perror t) eqn:P.
      * split; [|split; assumption]. intros C. apply clean_not_perror in C. congruence.
      * apply IH; auto. intros CA. apply (clean_acc_cons_term toks) in CA as [Ct CA]. apply acc_rng_term with (cur := cur); auto.
    + destruct (HRec m cur s T1 T2) as (Jm & T1' & Sm & T2'). destruct (rec m cur s) as [[|t nx c] s']; cbn [fst snd] in *; [repeat split; auto|].
      apply IH; auto. intros CA. apply (clean_acc_cons_term toks) in CA as [Ct CA]. apply acc_rng_term with (cur := cur); auto.
Qed.

(* a sub-parse, or a silent error when its keyword was not found *)
Lemma sub_range (found : bool) p s : TJ s -> TR s ->
  let x := (if found then rec Term p else ret (PRes (silent_error' p) p false)) in
  match fst (x s) with
  | PFuel => True
  | PRes t nx c => (clean t -> found = true /\ lay t p nx) /\ (found = true -> Jt t c)
  end /\ TJ (snd (x s)) /\ TR (snd (x s)).
Proof.
  intros T1 T2. destruct found; cbv zeta.
  - destruct (HRec Term p s T1 T2) as (Jr & T1' & Sr & T2'). split; [|split; assumption].
    destruct (fst (rec Term p s)) as [|t nx c]; [exact I|]. split; [intros C; split; [reflexivity | exact (Sr C)] | intros _; exact Jr].
  - cbn. split; [|split; assumption]. split; [intros C; now apply not_clean_silent in C | discriminate].
Qed.

Lemma bind_range (start : N) (x : M pres) k s (Pmid : pterm -> N -> bool -> Prop) :
  (match fst (x s) with PFuel => True | PRes t nx c => Pmid t nx c end /\ TJ (snd (x s)) /\ TR (snd (x s))) ->
  (forall t nx c s', Pmid t nx c -> TJ s' -> TR s' ->
     RangeR start (fst (k t nx c s')) /\ TJ (snd (k t nx c s')) /\ TR (snd (k t nx c s'))) ->
  RangeR start (fst (bindP x k s)) /\ TJ (snd (bindP x k s)) /\ TR (snd (bindP x k s)).
Proof.
  intros (Px & T1 & T2) Hk. unfold bindP. destruct (x s) as [[|t nx c] s']; cbn [fst snd] in *; [repeat split; auto|].
  apply Hk; assumption.
Qed.

Lemma rec_range m p s : TJ s -> TR s ->
  match fst (rec m p s) with PFuel => True | PRes t nx c => (clean t -> lay t p nx) /\ Jt t c end
  /\ TJ (snd (rec m p s)) /\ TR (snd (rec m p s)).
Proof.
  intros T1 T2. destruct (HRec m p s T1 T2) as (Jr & T1' & Sr & T2'). split; [|split; assumption].
  destruct (fst (rec m p s)) as [|t nx c]; [exact I | split; assumption].
Qed.

Lemma parse_group_range start s : TJ s -> TR s ->
  RangeR start (fst (parse_group' rec start s)) /\ TJ (snd (parse_group' rec start s)) /\ TR (snd (parse_group' rec start s)).
Proof.
  intros T1 T2. unfold parse_group. destruct (is' start KLeftParen) eqn:K; cbn [negb]; [|split; [apply RangeR_error | split; assumption]].
  apply (bind_range start _ _ _ (fun t nx c => (clean t -> lay t (N.succ start) nx) /\ Jt t c));
    [apply rec_range; assumption|].
  intros t p1 c s1 [St Jt1] T1' T2'. destruct (is_perror t) eqn:P.
  - cbn. split; [|split; assumption]. intros C. apply clean_not_perror in C. congruence.
  - pose proof (expect_facts tokmap ntoks (want_kind KRightParen) p1 c s1) as [Et _]. cbv zeta in Et.
    pose proof (expect_here' (want_kind KRightParen) p1 s1) as EH. cbv zeta in EH.
    destruct c.
    + destruct (expect' (want_kind KRightParen) p1 true s1) as [[[found p2] phony] s2]. cbn [fst snd] in *.
      destruct (tok_range' start) as [gs ge0] eqn:R0. destruct (tok_range' (N.pred p2)) as [gs1 ge] eqn:R1.
      cbn [fst snd]. split; [|split; [exact (TJ_same_tbl _ _ Et T1') | exact (TR_same_tbl _ _ Et T2')]].
      intros [C1 C2]. pose proof (nerrs_with_info t (mk gs ge true (pnerr (info t) + (if found then phony else 1))) P) as Nw. cbn [pnerr mk] in Nw.
      rewrite (has_error_with_info _ _ P) in C2.
      assert (found = true /\ phony = 0 /\ nerrs t = 0) as (-> & -> & Nt) by (destruct found; lia).
      destruct (EH eq_refl) as (_ & -> & (t1 & A1 & W1) & _).
      pose proof (St (conj Nt C2)) as Lt0. apply lay_unfold in Lt0 as [(Q1 & Q2 & Q3 & Q4) (p' & q' & B1 & B2 & _ & Kt)].
      pose proof (at_lt _ _ A1) as Lt.
      apply lay_unfold. split.
      * unfold Rng. rewrite info_with_info. cbn [prs pre mk]. rewrite R0, R1. cbn [fst snd].
        split; [lia|]. split; [lia|]. split; reflexivity.
      * exists p', q'. split; [lia|]. split; [lia|]. rewrite info_with_info, inner_with_info. cbn [pgroup mk].
        split; [discriminate | exact Kt].
    + destruct (expect' (want_kind KRightParen) p1 false s1) as [[[found p2] phony] s2]. cbn [fst snd] in *.
      destruct (tok_range' start) as [gs ge0]. destruct (tok_range' (N.pred p2)) as [gs1 ge].
      cbn [fst snd]. split; [|split; [exact (TJ_same_tbl _ _ Et T1') | exact (TR_same_tbl _ _ Et T2')]].
      intros [C1 C2]. pose proof (nerrs_with_info t (mk gs ge true (pnerr (info t) + (if found then phony else 1))) P) as Nw. cbn [pnerr mk] in Nw.
      destruct Jt1 as [J1 _]. specialize (J1 eq_refl). lia.
Qed.

Lemma parse_if_range start s : TJ s -> TR s ->
  RangeR start (fst (parse_if' rec start s)) /\ TJ (snd (parse_if' rec start s)) /\ TR (snd (parse_if' rec start s)).
Proof.
  intros T1 T2. unfold parse_if. destruct (is' start KIf) eqn:K; cbn [negb]; [|split; [apply RangeR_error | split; assumption]].
  destruct (is_kind' _ _ K) as (t0 & A0 & K0). pose proof (at_lt _ _ A0) as L0.
  destruct (tok_range' start) as [is_ ie] eqn:R0.
  apply (bind_range start _ _ _ (fun t nx c => (clean t -> lay t (N.succ start) nx) /\ Jt t c));
    [apply rec_range; assumption|].
  intros c p1 cconf s1 [Sc Jc] T1a T2a.
  pose proof (keyword_step' (want_kind KThen) p1 cconf s1 c Jc) as KS1. cbv zeta in KS1.
  pose proof (expect_tbl' (want_kind KThen) p1 cconf s1) as Et1.
  destruct (expect' (want_kind KThen) p1 cconf s1) as [[[found_then p2] e1] s2]. cbn [fst snd] in *.
  apply (bind_range start _ _ _ (fun t nx tc => (clean t -> found_then = true /\ lay t p2 nx) /\ (found_then = true -> Jt t tc)));
    [apply sub_range; [exact (TJ_same_tbl _ _ Et1 T1a) | exact (TR_same_tbl _ _ Et1 T2a)]|].
  intros t p3 tconf s3 [St Jtt] T1b T2b.
  assert (KS2 : clean t -> let r := expect' (want_kind KElse) p3 tconf s3 in snd (fst r) = 0 ->
            fst (fst (fst r)) = true /\ snd (fst (fst r)) = N.succ p3 /\ (exists tk, at' p3 = Some tk /\ want_kind KElse (pk tk) = true)).
  { intros Ct. destruct (St Ct) as (F & _). apply keyword_step' with (t0 := t); [apply Jtt; exact F | exact Ct]. }
  pose proof (expect_tbl' (want_kind KElse) p3 tconf s3) as Et2.
  destruct (expect' (want_kind KElse) p3 tconf s3) as [[[found_else p4] e2] s4]. cbn [fst snd] in *.
  apply (bind_range start _ _ _ (fun t nx tc => (clean t -> found_else = true /\ lay t p4 nx) /\ (found_else = true -> Jt t tc)));
    [apply sub_range; [exact (TJ_same_tbl _ _ Et2 T1b) | exact (TR_same_tbl _ _ Et2 T2b)]|].
  intros e p5 econf s5 [Se _] T1c T2c. cbn [ret fst snd]. split; [|split; assumption].
  intros [C1 C2]. cbn [nerrs has_error_node info pnerr mk] in C1, C2.
  apply orb_false_elim in C2 as [C2 Ce]. apply orb_false_elim in C2 as [Cc Ct].
  assert (CC : clean c) by (split; [lia | exact Cc]). assert (CT : clean t) by (split; [lia | exact Ct]). assert (CE : clean e) by (split; [lia | exact Ce]).
  pose proof (Sc CC) as Fc. destruct (St CT) as (_ & Ft). destruct (Se CE) as (_ & Fe).
  destruct (KS1 CC ltac:(lia)) as (_ & -> & (tk1 & Ak1 & Wk1)).
  destruct (KS2 CT ltac:(lia)) as (_ & -> & (tk2 & Ak2 & Wk2)).
  pose proof (lay_Rng _ _ _ Fc) as (c1 & c2 & _). pose proof (lay_Rng _ _ _ Ft) as (t1 & t2 & _). pose proof (lay_Rng _ _ _ Fe) as (e1' & e2' & _ & e4).
  apply lay_plain.
  - unfold Rng. cbn [info prs pre mk]. rewrite R0. cbn [fst]. split; [lia|]. split; [lia|]. split; [reflexivity | exact e4].
  - cbn [inner]. exists p1, p3. auto.
Qed.

(* where the definition of a let starts: after `x =`, or after `x : a =` *)
Definition ann_lay (ann : option pterm) (start p3 : N) : Prop :=
  match ann with
  | Some a => exists k, lay a (N.succ (N.succ start)) k /\ p3 = N.succ k
  | None => p3 = N.succ (N.succ start)
  end.

Lemma let_tail_range start x xs xe ann (eq_found : bool) p3 e1 s :
  xs = fst (tok_range' start) -> TJ s -> TR s ->
  (e1 = 0 -> ann_clean ann -> eq_found = true -> (start < p3)%N /\ ann_lay ann start p3) ->
  let r := bindP (if eq_found then rec Term p3 else ret (PRes (silent_error' p3) p3 false)) (fun d p4 dconf =>
        fun s =>
        let '((t_found, p5, e2), s1) := expect' want_terminator p4 dconf s in
        bindP (if t_found then rec Term p5 else ret (PRes (silent_error' p5) p5 false)) (fun b p6 bconf =>
          ret (PRes (PLet (mk xs (pre (info b)) false (e1 + e2)) x xs xe ann d b) p6 bconf)) s1) s in
  RangeR start (fst r) /\ TJ (snd r) /\ TR (snd r).
Proof.
  intros Exs T1 T2 Pre. cbv zeta.
  apply (bind_range start _ _ _ (fun t nx tc => (clean t -> eq_found = true /\ lay t p3 nx) /\ (eq_found = true -> Jt t tc)));
    [apply sub_range; assumption|].
  intros d p4 dconf s2 [Sd Jd] T1a T2a.
  assert (KS : clean d -> let r := expect' want_terminator p4 dconf s2 in snd (fst r) = 0 ->
            fst (fst (fst r)) = true /\ snd (fst (fst r)) = N.succ p4 /\ (exists tk, at' p4 = Some tk /\ want_terminator (pk tk) = true)).
  { intros Cd. destruct (Sd Cd) as (F & _). apply keyword_step' with (t0 := d); [apply Jd; exact F | exact Cd]. }
  pose proof (expect_tbl' want_terminator p4 dconf s2) as Et.
  destruct (expect' want_terminator p4 dconf s2) as [[[t_found p5] e2] s3]. cbn [fst snd] in *.
  apply (bind_range start _ _ _ (fun t nx tc => (clean t -> t_found = true /\ lay t p5 nx) /\ (t_found = true -> Jt t tc)));
    [apply sub_range; [exact (TJ_same_tbl _ _ Et T1a) | exact (TR_same_tbl _ _ Et T2a)]|].
  intros b p6 bconf s4 [Sb _] T1b T2b. cbn [ret fst snd]. split; [|split; assumption].
  intros [C1 C2]. cbn [nerrs has_error_node info pnerr mk] in C1, C2.
  apply orb_false_elim in C2 as [C2 Cb]. apply orb_false_elim in C2 as [Ca Cd].
  assert (CD : clean d) by (split; [lia | exact Cd]). assert (CB : clean b) by (split; [lia | exact Cb]).
  assert (CA : ann_clean ann) by (destruct ann as [a|]; [split; [lia | exact Ca] | exact I]).
  destruct (Sd CD) as (F & Fd). destruct (Sb CB) as (_ & Fb).
  destruct (Pre ltac:(lia) CA F) as [Hp3 Na].
  destruct (KS CD ltac:(lia)) as (_ & -> & (tk & Ak & Wk)).
  pose proof (lay_Rng _ _ _ Fd) as (d1 & d2 & _). pose proof (lay_Rng _ _ _ Fb) as (b1 & b2 & _ & b4).
  apply lay_plain.
  - unfold Rng. cbn [info prs pre mk]. split; [lia|]. split; [lia|]. split; [exact Exs | exact b4].
  - cbn [inner]. destruct ann as [a|]; cbn [ann_lay] in Na.
    + destruct Na as (k & La & ->). exists k, p4. auto.
    + subst p3. exists p4. auto.
Qed.

Lemma parse_let_range start s : TJ s -> TR s ->
  RangeR start (fst (parse_let' rec start s)) /\ TJ (snd (parse_let' rec start s)) /\ TR (snd (parse_let' rec start s)).
Proof.
  intros T1 T2. unfold parse_let. destruct (is' start KIdentifier) eqn:K; cbn [negb]; [|split; [apply RangeR_error | split; assumption]].
  destruct (is_kind' _ _ K) as (t0 & A0 & K0). pose proof (at_lt _ _ A0) as L0.
  destruct (tok_range' start) as [xs xe] eqn:R0.
  assert (Exs : xs = fst (tok_range' start)) by now rewrite R0.
  destruct (is' (N.succ start) KColon) eqn:C.
  - destruct (is_kind' _ _ C) as (t1 & A1 & K1). pose proof (at_lt _ _ A1) as L1.
    apply (bind_range start _ _ _ (fun t nx c => (clean t -> lay t (N.succ (N.succ start)) nx) /\ Jt t c));
      [apply rec_range; assumption|].
    intros a p2 c s1 [Sa Ja] T1a T2a. destruct (is_perror a) eqn:P.
    + cbn. split; [|split; assumption]. intros Cl. apply clean_not_perror in Cl. congruence.
    + pose proof (keyword_step' (want_kind KEquals) p2 c s1 a Ja) as KS. cbv zeta in KS.
      pose proof (expect_tbl' (want_kind KEquals) p2 c s1) as Et.
      destruct (expect' (want_kind KEquals) p2 c s1) as [[[eq_found p3] e1] s2]. cbn [fst snd] in *.
      apply (let_tail_range start (tok_name tokmap start) xs xe (Some a) eq_found p3 e1 s2 Exs
               (TJ_same_tbl _ _ Et T1a) (TR_same_tbl _ _ Et T2a)).
      intros -> Ca _. cbn [ann_clean] in Ca. pose proof (Sa Ca) as Fa. pose proof (lay_Rng _ _ _ Fa) as (a1 & a2 & _).
      destruct (KS Ca eq_refl) as (_ & -> & (tk & Ak & Wk)).
      split; [lia|]. cbn [ann_lay]. exists p2. auto.
  - destruct (is' (N.succ start) KEquals) eqn:E; [|split; [apply RangeR_error | split; assumption]].
    refine (let_tail_range start (tok_name tokmap start) xs xe None true (N.succ (N.succ start)) 0 s Exs T1 T2 _).
    intros _ _ _. split; [lia | reflexivity].
Qed.
End BodyRange.

(* ---------- every call, through the memo table ---------- *)
Lemma parse_range_rec : forall fuel, RecOK (parse' fuel).
Proof.
  induction fuel as [|f IH]; intros n p s T1 T2.
  { cbn. repeat split; auto. }
  destruct (parse_good use_memo tokmap ntoks last_tok (S f) n p s T1) as [Jr T1r].
  split; [exact Jr|]. split; [exact T1r|]. clear Jr T1r.
  cbn [parse].
  destruct (if use_memo && memoised_fast n then PositiveMap.find (key n p) (tbl s) else None) as [r|] eqn:Hit.
  - cbn [fst snd]. split; [|exact T2]. destruct (use_memo && memoised_fast n); [exact (T2 _ _ _ Hit) | discriminate].
  - set (s0 := {| tbl := tbl s; misses := S (misses s); scans := scans s |}).
    assert (T10 : TJ s0) by exact T1. assert (T20 : TR s0) by exact T2.
    assert (B : forall x : M pres, (RangeR p (fst (x s0)) /\ TJ (snd (x s0)) /\ TR (snd (x s0))) ->
              RangeR p (fst (let '(r, s') := x s0 in (r, if use_memo && memoised_fast n
                   then {| tbl := PositiveMap.add (key n p) r (tbl s'); misses := misses s'; scans := scans s' |} else s'))) /\
              TR (snd (let '(r, s') := x s0 in (r, if use_memo && memoised_fast n
                   then {| tbl := PositiveMap.add (key n p) r (tbl s'); misses := misses s'; scans := scans s' |} else s')))).
    { intros x (Sx & _ & Tx). destruct (x s0) as [r s']. cbn [fst snd] in *. split; [exact Sx|].
      destruct (use_memo && memoised_fast n); [|exact Tx].
      intros m q r0. cbn [tbl]. rewrite PositiveMapAdditionalFacts.gsspec.
      destruct (PositiveMap.E.eq_dec (key m q) (key n p)) as [E|_]; [|apply Tx].
      apply (key_inj toks) in E as [-> ->]. intros [= <-]. exact Sx. }
    destruct (skel_fast n) as [alts|steps|].
    + apply (B (choose' (parse' f) p alts)). apply (choose_range (parse' f) IH); auto.
    + apply (B (run' (parse' f) n steps p [] true)).
      apply (run_range (parse' f) IH n p steps p [] true s0 T10 T20).
      intros _. unfold acc_rng. split; [lia|]. split; [reflexivity|]. split; [congruence | reflexivity].
    + destruct n;
        first [ apply (B (parse_group' (parse' f) p)); now apply parse_group_range
              | apply (B (parse_let' (parse' f) p)); now apply parse_let_range
              | apply (B (parse_if' (parse' f) p)); now apply parse_if_range
              | apply (B (ret (PRes (error_term' p) p false))); cbn [ret fst snd]; split; [apply RangeR_error | split; assumption] ].
Qed.

(* the statement in terms of the token list *)
Lemma Rng_tokens t p q : Rng t p q ->
  N.to_nat p < N.to_nat q <= length toks /\
  exists a b, nth_error toks (N.to_nat p) = Some a /\ nth_error toks (N.to_nat q - 1) = Some b /\
              prs (info t) = ps a /\ pre (info t) = pe b.
Proof.
  intros (L1 & L2 & Hs & He). unfold NT, ntoks in L2. split; [lia|].
  destruct (nth_error toks (N.to_nat p)) as [a|] eqn:Ea; [|apply nth_error_None in Ea; lia].
  destruct (nth_error toks (N.to_nat q - 1)) as [b|] eqn:Eb; [|apply nth_error_None in Eb; lia].
  exists a, b. split; [reflexivity|]. split; [reflexivity|].
  assert (Aa : at' p = Some a) by (unfold tokmap; rewrite (at_nth toks); exact Ea).
  assert (Ab : at' (N.pred q) = Some b) by (unfold tokmap; rewrite (at_nth toks); rewrite N2Nat.inj_pred; rewrite <- Eb; f_equal; lia).
  rewrite (tok_range_at _ _ Aa) in Hs. rewrite (tok_range_at _ _ Ab) in He. split; assumption.
Qed.
End Range.

(* ---------- statements over the token list ---------- *)
(* node t carries the byte range from the first byte of token p to the last byte of token q - 1 *)
Definition spans_tokens (toks : list ptok) (t : pterm) (p q : nat) : Prop :=
  p < q <= length toks /\
  exists a b, nth_error toks p = Some a /\ nth_error toks (q - 1) = Some b /\ prs (info t) = ps a /\ pre (info t) = pe b.

Fixpoint every_node (P : pterm -> Prop) (t : pterm) {struct t} : Prop :=
  P t /\
  match t with
  | PLam _ _ _ _ _ d b => match d with Some d => every_node P d | None => True end /\ every_node P b
  | PPi _ _ _ _ _ d b => every_node P d /\ every_node P b
  | PApp _ f a => every_node P f /\ every_node P a
  | PLet _ _ _ _ an d b => match an with Some a => every_node P a | None => True end /\ every_node P d /\ every_node P b
  | PNeg _ a => every_node P a
  | PBin _ _ a b => every_node P a /\ every_node P b
  | PIf _ c t e => every_node P c /\ every_node P t /\ every_node P e
  | _ => True
  end.

(* every node of t spans a non-empty interval of tokens, inside [lo, hi) *)
Definition node_spanned (toks : list ptok) (lo hi : nat) (t : pterm) : Prop :=
  exists p q, lo <= p /\ q <= hi /\ spans_tokens toks t p q.

Lemma nested_every_node toks : forall t lo hi, nested toks t lo hi -> every_node (node_spanned toks (N.to_nat lo) (N.to_nat hi)) t.
Proof.
  fix IH 1. intros t lo hi H.
  assert (W : forall c p q, nested toks c p q -> (lo <= p)%N -> (q <= hi)%N -> nested toks c lo hi)
    by (intros c p q Hc H1 H2; eapply nested_mono; eauto).
  destruct t; cbn [nested every_node] in *; destruct H as (p & q & H1 & H2 & R & K);
    (split; [exists (N.to_nat p), (N.to_nat q); split; [lia|]; split; [lia|]; exact (Rng_tokens toks _ _ _ R)|]); try exact I.
  - destruct K as [K1 K2]. split; [destruct dom as [d|]; [|exact I]; apply IH; eapply W; eauto | apply IH; eapply W; eauto].
  - destruct K as [K1 K2]. split; apply IH; eapply W; eauto.
  - destruct K as [K1 K2]. split; apply IH; eapply W; eauto.
  - destruct K as (K1 & K2 & K3). split; [destruct ann as [a|]; [|exact I]; apply IH; eapply W; eauto|]. split; apply IH; eapply W; eauto.
  - apply IH; eapply W; eauto.
  - destruct K as [K1 K2]. split; apply IH; eapply W; eauto.
  - destruct K as (K1 & K2 & K3). split; [|split]; apply IH; eapply W; eauto.
Qed.

Lemma TR_empty toks : TR toks empty_state.
Proof. intros n p r. cbn. rewrite PositiveMap.gempty. discriminate. Qed.

(* ---------- the layout in terms of the token list ---------- *)
(* `layout toks t p q`: node t covers exactly the tokens [p, q) (positions in the token list), it carries the
   byte range from the first byte of token p to the last byte of token q - 1, and its constituents tile
   [p', q') - which is [p, q) itself unless t was parenthesised - as its production prescribes, every child
   again laid out on its own interval *)
Fixpoint layout (toks : list ptok) (t : pterm) (p q : nat) {struct t} : Prop :=
  spans_tokens toks t p q /\ exists p' q', p <= p' /\ q' <= q /\ (pgroup (info t) = false -> p' = p /\ q' = q) /\
  match t with
  | PError _ => True
  | PType _ | PInt _ | PBool _ | PTrue _ | PFalse _ | PVar _ _ | PLit _ _ => q' = S p'
  | PLam _ _ _ _ _ dom b =>
      exists m, p' < m /\ layout toks b m q' /\
                match dom with None => True | Some d => exists m1 m2, p' < m1 /\ layout toks d m1 m2 /\ m2 < m end
  | PPi _ _ _ _ _ d b => exists m1 m2 m, p' <= m1 /\ layout toks d m1 m2 /\ m2 < m /\ layout toks b m q'
  | PApp _ f a => exists m, layout toks f p' m /\ layout toks a m q'
  | PLet _ _ _ _ an d b =>
      match an with
      | None => exists m2, layout toks d (S (S p')) m2 /\ layout toks b (S m2) q'
      | Some a => exists k m2, layout toks a (S (S p')) k /\ layout toks d (S k) m2 /\ layout toks b (S m2) q'
      end
  | PNeg _ a => layout toks a (S p') q'
  | PBin _ _ a b => exists m, layout toks a p' m /\ layout toks b (S m) q'
  | PIf _ c t e => exists m1 m2, layout toks c (S p') m1 /\ layout toks t (S m1) m2 /\ layout toks e (S m2) q'
  end.

Lemma lay_layout toks : forall t p q, lay toks t p q -> layout toks t (N.to_nat p) (N.to_nat q).
Proof.
  fix IH 1. intros t p q H.
  destruct t; cbn [lay layout] in *; destruct H as (R & p' & q' & H1 & H2 & G & K);
    (split; [exact (Rng_tokens toks _ _ _ R)|]); exists (N.to_nat p'), (N.to_nat q');
    (split; [lia|]); (split; [lia|]); (split; [intros E; destruct (G E); subst; auto|]); try exact I; try lia.
  - destruct K as (m & L & Kb & Kd). exists (N.to_nat m). split; [lia|]. split; [apply IH; exact Kb|].
    destruct dom as [d|]; [|exact I]. destruct Kd as (m1 & m2 & L1 & Kd & L2). exists (N.to_nat m1), (N.to_nat m2).
    split; [lia|]. split; [apply IH; exact Kd | lia].
  - destruct K as (m1 & m2 & m & L1 & Kd & L2 & Kb). exists (N.to_nat m1), (N.to_nat m2), (N.to_nat m).
    split; [lia|]. split; [apply IH; exact Kd|]. split; [lia | apply IH; exact Kb].
  - destruct K as (m & Kf & Ka). exists (N.to_nat m). split; apply IH; assumption.
  - destruct ann as [a|].
    + destruct K as (k & m2 & Ka & Kd & Kb). exists (N.to_nat k), (N.to_nat m2).
      apply IH in Ka. apply IH in Kd. apply IH in Kb. rewrite !N2Nat.inj_succ in *. auto.
    + destruct K as (m2 & Kd & Kb). exists (N.to_nat m2).
      apply IH in Kd. apply IH in Kb. rewrite !N2Nat.inj_succ in *. auto.
  - apply IH in K. rewrite !N2Nat.inj_succ in *. exact K.
  - destruct K as (m & Ka & Kb). exists (N.to_nat m). apply IH in Ka. apply IH in Kb. rewrite !N2Nat.inj_succ in *. auto.
  - destruct K as (m1 & m2 & Kc & Kt & Ke). exists (N.to_nat m1), (N.to_nat m2).
    apply IH in Kc. apply IH in Kt. apply IH in Ke. rewrite !N2Nat.inj_succ in *. auto.
Qed.

(* every call of the parser (any nonterminal, any position, any reachable memo table): a clean result spans
   the tokens it consumed, its tree is laid out on them, and every node spans a non-empty token interval *)
Theorem call_range : forall memo toks fuel n p s, TJ s -> TR toks s ->
  match fst (parse memo (tokmap_of toks) (length toks) (last_opt toks) fuel n p s) with
  | PFuel => True
  | PRes t nx _ => clean t ->
      spans_tokens toks t (N.to_nat p) (N.to_nat nx) /\
      layout toks t (N.to_nat p) (N.to_nat nx) /\
      every_node (node_spanned toks (N.to_nat p) (N.to_nat nx)) t
  end /\ TJ (snd (parse memo (tokmap_of toks) (length toks) (last_opt toks) fuel n p s))
      /\ TR toks (snd (parse memo (tokmap_of toks) (length toks) (last_opt toks) fuel n p s)).
Proof.
  intros memo toks fuel n p s T1 T2.
  destruct (parse_range_rec memo toks fuel n p s T1 T2) as (_ & T1' & R & T2').
  split; [|split; assumption].
  destruct (fst (parse memo (tokmap_of toks) (length toks) (last_opt toks) fuel n p s)) as [|t nx c]; [exact I|].
  intros C. specialize (R C). split; [|split].
  - exact (Rng_tokens toks _ _ _ (lay_Rng toks _ _ _ R)).
  - apply lay_layout. exact R.
  - apply nested_every_node. apply lay_nested. exact R.
Qed.

(* the same for the entries of the memo table: each was the result of a call at its key's position *)
Theorem table_range : forall toks s, TR toks s -> forall n p t nx c,
  PositiveMap.find (key n p) (tbl s) = Some (PRes t nx c) -> clean t ->
  spans_tokens toks t (N.to_nat p) (N.to_nat nx) /\
  layout toks t (N.to_nat p) (N.to_nat nx) /\
  every_node (node_spanned toks (N.to_nat p) (N.to_nat nx)) t.
Proof.
  intros toks s T n p t nx c H C. specialize (T n p _ H C). split; [|split].
  - exact (Rng_tokens toks _ _ _ (lay_Rng toks _ _ _ T)).
  - apply lay_layout. exact T.
  - apply nested_every_node. apply lay_nested. exact T.
Qed.

(* ---------- whole inputs ---------- *)
Lemma stage1_lay : forall toks memo t, fst (fst (parse_stage1 toks memo)) = S1Tree t ->
  lay toks t 0%N (N.of_nat (length toks)).
Proof.
  intros toks memo t. unfold parse_stage1, parse_stage1_.
  assert (T1 : TJ empty_state) by apply TJ_empty.
  destruct (parse_range_rec memo toks (parse_fuel (length toks)) Term 0%N empty_state T1 (TR_empty toks)) as (_ & _ & S & _).
  destruct (parse memo (tokmap_of toks) (length toks) (last_opt toks) (parse_fuel (length toks)) Term 0%N empty_state) as [[|t' nx c] s];
    cbn [fst snd] in *; [discriminate|].
  destruct (Nat.eqb (nerrs t') 0) eqn:Z; cbn [negb]; [|discriminate].
  destruct (N.eqb nx (ntoksN (length toks))) eqn:Enx; cbn [negb]; [|discriminate].
  destruct (has_error_node t') eqn:He; [discriminate|]. intros [= <-].
  apply Nat.eqb_eq in Z. apply N.eqb_eq in Enx. unfold ntoksN in Enx. subst nx. exact (S (conj Z He)).
Qed.

(* the root of an accepted parse spans the whole input *)
Theorem parsed_tree_spans_input : forall toks memo t, fst (fst (parse_stage1 toks memo)) = S1Tree t -> toks <> [] ->
  exists first last, nth_error toks 0 = Some first /\ nth_error toks (length toks - 1) = Some last /\
                     prs (info t) = ps first /\ pre (info t) = pe last.
Proof.
  intros toks memo t H _. pose proof (lay_Rng toks _ _ _ (stage1_lay toks memo t H)) as R.
  destruct (Rng_tokens toks _ _ _ R) as (_ & a & b & Ha & Hb & Hs & He).
  rewrite Nat2N.id in Hb. cbn in Ha. exists a, b. auto.
Qed.

(* an accepted input is never empty (so the hypothesis toks <> [] above is not needed) *)
Theorem accepted_input_nonempty : forall toks memo t, fst (fst (parse_stage1 toks memo)) = S1Tree t -> toks <> [].
Proof.
  intros toks memo t H. pose proof (lay_Rng toks _ _ _ (stage1_lay toks memo t H)) as (L & _). intros ->. cbn in L. lia.
Qed.

(* the whole tree of an accepted parse is laid out on the token list: every node carries the byte range from
   the first byte of its first token to the last byte of its last token *)
Theorem parsed_tree_layout : forall toks memo t, fst (fst (parse_stage1 toks memo)) = S1Tree t ->
  layout toks t 0 (length toks).
Proof.
  intros toks memo t H. pose proof (lay_layout toks _ _ _ (stage1_lay toks memo t H)) as L.
  rewrite Nat2N.id in L. exact L.
Qed.

(* the weaker, production-independent reading: every node of an accepted parse carries the byte range from the
   first byte of the first token to the last byte of the last token of a non-empty interval of tokens *)
Theorem parsed_tree_every_node_spans_tokens : forall toks memo t, fst (fst (parse_stage1 toks memo)) = S1Tree t ->
  every_node (node_spanned toks 0 (length toks)) t.
Proof.
  intros toks memo t H. pose proof (stage1_lay toks memo t H) as F.
  pose proof (nested_every_node toks t 0%N (N.of_nat (length toks))) as E. rewrite Nat2N.id in E. apply E.
  apply lay_nested. exact F.
Qed.

(* ... and the token intervals are nested: that of a node lies inside that of its parent *)
Theorem parsed_tree_nested : forall toks memo t, fst (fst (parse_stage1 toks memo)) = S1Tree t ->
  nested toks t 0%N (N.of_nat (length toks)).
Proof. intros toks memo t H. apply lay_nested. exact (stage1_lay toks memo t H). Qed.

Print Assumptions parse_range_rec.
Print Assumptions call_range.
Print Assumptions table_range.
Print Assumptions parsed_tree_spans_input.
Print Assumptions accepted_input_nonempty.
Print Assumptions parsed_tree_layout.
Print Assumptions parsed_tree_every_node_spans_tokens.
Print Assumptions parsed_tree_nested.
