(* "Printed terms read back" (sentence half): the token kinds that the printer model (Model/Printer.v)
   emits for a term form a sentence of the grammar GENERATED from grammar.y (Gen/GrammarY.v, semantics
   `derives` of Proofs/SoundProofs.v), with the structure the printer intended: the printed form of a
   term derives the nonterminal that each printing position requires (record `positions`: Term as a
   body, JumboTerm as a binder annotation, Atom as a grouped operand, Application as a spine, SmallTerm
   as the domain of an arrow).

     print_is_sentence       : printable t = true -> derives Term (print t)
     print_positions         : printable t = true -> positions t
   printable excludes the unused implicit function type (D12) and negative literals. The empty
   definition group needs NO exclusion (it prints as its body).

   Sharper: printable_exact keeps D12 excluded but allows a negative literal wherever the result is
   still a sentence (everywhere but as a definition's annotation and in the domain spine of a
   non-dependent arrow), although then with another structure (`f -1` reads back as a difference).
     print_is_sentence_exact : printable_exact t = true -> derives Term (print t)
     printable_is_exact      : printable t = true -> printable_exact t = true
   That the excluded shapes are NOT sentences is shown with a verified refutation procedure
   (recog_refutes) on examples (the ..._not_sentence lemmas) and on a bounded-exhaustive family of 10395 small
   terms, on which printable_exact is exactly sentencehood (exact_on_small_terms). *)
From Coq Require Import List ZArith Lia Bool Arith.
Import ListNotations.
Require Import Gram.Model.Term Gram.Model.DeBruijn Gram.Model.Token Gram.Model.Grammar Gram.Gen.ValueForms
  Gram.Gen.GrammarY Gram.Model.Printer Gram.Proofs.FormsProofs Gram.Proofs.ParserProofs Gram.Proofs.SoundProofs.

(* ---------- the printer's local helpers, named ---------- *)
Definition group (u : term) : list tkind :=
  if in_formers group_bare u || former_eqb (former_of u) FHole then print u else paren (print u).
Definition binder_domain (u : term) : list tkind :=
  match u with TLet _ _ => paren (print u) | _ => print u end.
Definition head (f : term) : list tkind := match f with TApp _ _ => print f | _ => group f end.
Definition def_tokens (p : term * term) : list tkind :=
  let '(an, d) := p in [KIdentifier; KColon] ++ group an ++ [KEquals] ++ group d ++ [KSemicolon].
Definition opener (im : bool) := if im then [KLeftCurly] else [KLeftParen].
Definition closer (im : bool) := if im then [KRightCurly] else [KRightParen].

Lemma print_lam im d b :
  print (TLam im d b) = opener im ++ [KIdentifier; KColon] ++ binder_domain d ++ closer im ++ [KThickArrow] ++ print b.
Proof. reflexivity. Qed.
Lemma print_pi im d c :
  print (TPi im d c) =
    if occurs c 0 0 then opener im ++ [KIdentifier; KColon] ++ binder_domain d ++ closer im ++ [KThinArrow] ++ print c
    else if im then [KLeftCurly] ++ print d ++ [KRightCurly; KThinArrow] ++ print c
    else head d ++ [KThinArrow] ++ print c.
Proof. reflexivity. Qed.
Lemma print_app f a : print (TApp f a) = head f ++ group a.
Proof. reflexivity. Qed.
Lemma print_let ds b : print (TLet ds b) = flat_map def_tokens ds ++ print b.
Proof. reflexivity. Qed.
Lemma print_neg a : print (TNeg a) = [KMinus] ++ group a.
Proof. reflexivity. Qed.
Lemma print_bin o a b : print (TBin o a b) = group a ++ [binop_kind o] ++ group b.
Proof. reflexivity. Qed.
Lemma print_if c a b : print (TIf c a b) = [KIf] ++ print c ++ [KThen] ++ print a ++ [KElse] ++ print b.
Proof. reflexivity. Qed.

(* ---------- the shapes the theorem is about ---------- *)
Fixpoint no_negative_literal (t : term) : bool :=
  match t with
  | THole _ _ | TType | TInt | TBool | TTrue | TFalse | TVar _ => true
  | TLit z => (0 <=? z)%Z
  | TLam _ d b => no_negative_literal d && no_negative_literal b
  | TPi _ d c => no_negative_literal d && no_negative_literal c
  | TApp f a => no_negative_literal f && no_negative_literal a
  | TLet ds b => forallb (fun p => let '(an, d) := p in no_negative_literal an && no_negative_literal d) ds && no_negative_literal b
  | TNeg a => no_negative_literal a
  | TBin _ a b => no_negative_literal a && no_negative_literal b
  | TIf c a b => no_negative_literal c && no_negative_literal a && no_negative_literal b
  end.

Fixpoint no_empty_let (t : term) : bool :=
  match t with
  | THole _ _ | TType | TInt | TBool | TTrue | TFalse | TVar _ | TLit _ => true
  | TLam _ d b => no_empty_let d && no_empty_let b
  | TPi _ d c => no_empty_let d && no_empty_let c
  | TApp f a => no_empty_let f && no_empty_let a
  | TLet ds b => negb (match ds with [] => true | _ => false end) &&
                 forallb (fun p => let '(an, d) := p in no_empty_let an && no_empty_let d) ds && no_empty_let b
  | TNeg a => no_empty_let a
  | TBin _ a b => no_empty_let a && no_empty_let b
  | TIf c a b => no_empty_let c && no_empty_let a && no_empty_let b
  end.

(* the statement's side condition: no D12 shape, no negative literal *)
Definition printable (t : term) : bool := negb (has_unused_implicit_pi t) && no_negative_literal t.
(* the narrower class named in the property's description (also no empty definition group) *)
Definition printable_strict (t : term) : bool := printable t && no_empty_let t.

(* ---------- productions as rules ---------- *)
Lemma dr_nt_last m w : derives m w -> derives_rhs [GN m] w.
Proof. intros D. rewrite <- (app_nil_r w). constructor; [exact D | constructor]. Qed.

Ltac in_grammar := apply prod_in_grammar; vm_compute; reflexivity.
Ltac rhs_steps :=
  repeat first [ apply dr_nil | apply dr_tok | apply dr_term; [reflexivity|]
               | apply dr_nt_last; [eassumption] | apply dr_nt; [eassumption|] ].
Ltac by_prod_with r := apply (d_prod _ r); [in_grammar | cbn [app]; rhs_steps].
Ltac by_prod :=
  lazymatch goal with |- derives ?n _ =>
    let l := eval vm_compute in (productions_of n) in
    lazymatch l with [?r] => by_prod_with r end end.

Lemma unit_prod n a w : prod_in n [GN a] = true -> derives a w -> derives n w.
Proof. intros H D. eapply d_prod; [apply prod_in_grammar; exact H | now apply dr_nt_last]. Qed.
Ltac up n a := apply (unit_prod n a); [vm_compute; reflexivity|].

Lemma atom_small w : derives Atom w -> derives SmallTerm w. Proof. intros. now up SmallTerm Atom. Qed.
Lemma app_small w : derives Application w -> derives SmallTerm w. Proof. intros. now up SmallTerm Application. Qed.
Lemma small_medium w : derives SmallTerm w -> derives MediumTerm w. Proof. intros. now up MediumTerm SmallTerm. Qed.
Lemma medium_large w : derives MediumTerm w -> derives LargeTerm w. Proof. intros. now up LargeTerm MediumTerm. Qed.
Lemma large_huge w : derives LargeTerm w -> derives HugeTerm w. Proof. intros. now up HugeTerm LargeTerm. Qed.
Lemma huge_giant w : derives HugeTerm w -> derives GiantTerm w. Proof. intros. now up GiantTerm HugeTerm. Qed.
Lemma giant_jumbo w : derives GiantTerm w -> derives JumboTerm w. Proof. intros. now up JumboTerm GiantTerm. Qed.
Lemma jumbo_term w : derives JumboTerm w -> derives Term w. Proof. intros. now up Term JumboTerm. Qed.
Lemma let_term w : derives Let w -> derives Term w. Proof. intros. now up Term Let. Qed.

Lemma small_large w : derives SmallTerm w -> derives LargeTerm w. Proof. intros. now apply medium_large, small_medium. Qed.
Lemma small_huge w : derives SmallTerm w -> derives HugeTerm w. Proof. intros. now apply large_huge, small_large. Qed.
Lemma huge_jumbo w : derives HugeTerm w -> derives JumboTerm w. Proof. intros. now apply giant_jumbo, huge_giant. Qed.
Lemma small_jumbo w : derives SmallTerm w -> derives JumboTerm w. Proof. intros. now apply huge_jumbo, small_huge. Qed.
Lemma atom_large w : derives Atom w -> derives LargeTerm w. Proof. intros. now apply small_large, atom_small. Qed.
Lemma atom_huge w : derives Atom w -> derives HugeTerm w. Proof. intros. now apply small_huge, atom_small. Qed.
Lemma atom_jumbo w : derives Atom w -> derives JumboTerm w. Proof. intros. now apply small_jumbo, atom_small. Qed.
Lemma atom_term w : derives Atom w -> derives Term w. Proof. intros. now apply jumbo_term, atom_jumbo. Qed.

Lemma atom_type : derives Atom [KType]. Proof. up Atom Type_. by_prod. Qed.
Lemma atom_ident : derives Atom [KIdentifier]. Proof. up Atom Variable_. by_prod. Qed.
Lemma atom_integer : derives Atom [KInteger]. Proof. up Atom Integer. by_prod. Qed.
Lemma atom_literal : derives Atom [KIntegerLiteral]. Proof. up Atom IntegerLiteral. by_prod. Qed.
Lemma atom_boolean : derives Atom [KBoolean]. Proof. up Atom Boolean. by_prod. Qed.
Lemma atom_true : derives Atom [KTrue]. Proof. up Atom True_. by_prod. Qed.
Lemma atom_false : derives Atom [KFalse]. Proof. up Atom False_. by_prod. Qed.
Lemma atom_group w : derives Term w -> derives Atom (paren w).
Proof. intros D. up Atom Group. unfold paren. by_prod. Qed.

Lemma rule_application a s : derives Atom a -> derives SmallTerm s -> derives Application (a ++ s).
Proof. intros. by_prod. Qed.
Lemma rule_negation a : derives LargeTerm a -> derives Negation ([KMinus] ++ a).
Proof. intros. by_prod. Qed.
Lemma rule_if c a b : derives Term c -> derives Term a -> derives Term b ->
  derives If ([KIf] ++ c ++ [KThen] ++ a ++ [KElse] ++ b).
Proof. intros. by_prod. Qed.
Lemma rule_arrow d c : derives SmallTerm d -> derives Term c -> derives NonDependentPi (d ++ [KThinArrow] ++ c).
Proof. intros. by_prod. Qed.
Lemma rule_lam im d b : derives JumboTerm d -> derives Term b ->
  derives JumboTerm (opener im ++ [KIdentifier; KColon] ++ d ++ closer im ++ [KThickArrow] ++ b).
Proof.
  intros. destruct im; cbn [opener closer].
  - up JumboTerm AnnotatedLambdaImplicit. by_prod.
  - up JumboTerm AnnotatedLambda. by_prod.
Qed.
Lemma rule_pi im d b : derives JumboTerm d -> derives Term b ->
  derives JumboTerm (opener im ++ [KIdentifier; KColon] ++ d ++ closer im ++ [KThinArrow] ++ b).
Proof.
  intros. destruct im; cbn [opener closer].
  - up JumboTerm PiImplicit. by_prod.
  - up JumboTerm Pi. by_prod.
Qed.
Lemma rule_let an d r : derives SmallTerm an -> derives Term d -> derives Term r ->
  derives Let ([KIdentifier; KColon] ++ an ++ [KEquals] ++ d ++ [KSemicolon] ++ r).
Proof. intros. by_prod_with [GT KIdentifier; GT KColon; GN SmallTerm; GT KEquals; GN Term; GTerminator; GN Term]. Qed.
Lemma rule_bin o a b : derives Atom a -> derives Atom b -> derives GiantTerm (a ++ [binop_kind o] ++ b).
Proof.
  intros Ha Hb. pose proof (atom_small _ Ha) as Sa. pose proof (atom_large _ Ha) as La. pose proof (atom_huge _ Ha) as Ga.
  pose proof (atom_large _ Hb) as Lb. pose proof (atom_huge _ Hb) as Gb.
  destruct o; cbn [binop_kind].
  - apply huge_giant. up HugeTerm Sum. by_prod.
  - apply huge_giant. up HugeTerm Difference. by_prod.
  - apply huge_giant, large_huge, medium_large. up MediumTerm Product. by_prod.
  - apply huge_giant, large_huge, medium_large. up MediumTerm Quotient. by_prod.
  - up GiantTerm LessThan. by_prod.
  - up GiantTerm LessThanOrEqualTo. by_prod.
  - up GiantTerm EqualTo. by_prod.
  - up GiantTerm GreaterThan. by_prod.
  - up GiantTerm GreaterThanOrEqualTo. by_prod.
Qed.

(* ---------- the side condition, by constructor ---------- *)
Ltac split_printable :=
  unfold printable in *; cbn [has_unused_implicit_pi no_negative_literal] in *;
  repeat (rewrite ?negb_orb, ?andb_true_iff, ?negb_true_iff in * ).

Lemma printable_lam i d b : printable (TLam i d b) = true -> printable d = true /\ printable b = true.
Proof. split_printable. tauto. Qed.
Lemma printable_pi i d c : printable (TPi i d c) = true ->
  i && negb (occurs c 0 0) = false /\ printable d = true /\ printable c = true.
Proof. split_printable. tauto. Qed.
Lemma printable_app f a : printable (TApp f a) = true -> printable f = true /\ printable a = true.
Proof. split_printable. tauto. Qed.
Lemma printable_neg a : printable (TNeg a) = true -> printable a = true.
Proof. split_printable. tauto. Qed.
Lemma printable_bin o a b : printable (TBin o a b) = true -> printable a = true /\ printable b = true.
Proof. split_printable. tauto. Qed.
Lemma printable_if c a b : printable (TIf c a b) = true -> printable c = true /\ printable a = true /\ printable b = true.
Proof. split_printable. tauto. Qed.
Lemma printable_lit z : printable (TLit z) = true -> lit_tokens z = [KIntegerLiteral].
Proof. split_printable. intros [_ H]. unfold lit_tokens. apply Z.leb_le in H. destruct (Z.ltb_spec z 0); [lia | reflexivity]. Qed.
Lemma printable_let ds b : printable (TLet ds b) = true ->
  Forall (fun p => printable (fst p) = true /\ printable (snd p) = true) ds /\ printable b = true.
Proof.
  split_printable. intros [[H1 H2] [H3 H4]]. split; [|tauto]. clear H2 H4.
  induction ds as [|[an d] ds IH]; constructor; cbn [existsb forallb] in H1, H3;
    apply orb_false_iff in H1 as [H1 H1']; apply andb_true_iff in H3 as [H3 H3'].
  - apply orb_false_iff in H1 as [Ha Hd]. apply andb_true_iff in H3 as [Na Nd].
    cbn [fst snd]. now rewrite Ha, Hd, Na, Nd.
  - now apply IH.
Qed.

(* ---------- what each printing position receives ---------- *)
Definition is_let (t : term) : bool := match t with TLet _ _ => true | _ => false end.
Definition is_app (t : term) : bool := match t with TApp _ _ => true | _ => false end.
Definition bare (u : term) : bool := in_formers group_bare u || former_eqb (former_of u) FHole.

Record positions (t : term) : Prop := {
  (* as a body, a branch, a definition group's tail, inside parentheses *)
  pos_term : derives Term (print t);
  (* as a binder's annotation (a definition group is parenthesised there) *)
  pos_annotation : derives JumboTerm (binder_domain t);
  (* everything but a definition group is a JumboTerm, i.e. never needs a terminator *)
  pos_jumbo : is_let t = false -> derives JumboTerm (print t);
  (* as an operand of an operator or of an application, as the annotation or definition of a group entry *)
  pos_operand : derives Atom (group t);
  (* as the function part of an application: any operand list may follow *)
  pos_spine : forall s, derives SmallTerm s -> derives Application (head t ++ s);
  (* as the domain of an arrow *)
  pos_domain : derives SmallTerm (head t)
}.

Lemma group_atom t : derives Term (print t) -> (bare t = true -> derives Atom (print t)) -> derives Atom (group t).
Proof. intros HT HB. unfold group. fold (bare t). destruct (bare t); [now apply HB | now apply atom_group]. Qed.

Lemma annotation_jumbo t : derives Term (print t) -> (is_let t = false -> derives JumboTerm (print t)) ->
  derives JumboTerm (binder_domain t).
Proof. intros HT HJ. destruct t; try (now apply HJ). cbn [binder_domain]. now apply atom_jumbo, atom_group. Qed.

Lemma positions_nonapp t : is_app t = false -> derives Term (print t) ->
  (is_let t = false -> derives JumboTerm (print t)) -> (bare t = true -> derives Atom (print t)) -> positions t.
Proof.
  intros NA HT HJ HB. pose proof (group_atom t HT HB) as HA.
  assert (E : head t = group t) by (destruct t; try reflexivity; discriminate NA).
  constructor; try assumption.
  - now apply annotation_jumbo.
  - intros s Hs. rewrite E. now apply rule_application.
  - rewrite E. now apply atom_small.
Qed.

Lemma positions_atom t : is_app t = false -> is_let t = false -> derives Atom (print t) -> positions t.
Proof. intros NA NL HA. apply positions_nonapp; auto using atom_term, atom_jumbo. Qed.

Lemma positions_jumbo t : is_app t = false -> is_let t = false -> bare t = false -> derives JumboTerm (print t) -> positions t.
Proof. intros NA NL NB HJ. apply positions_nonapp; auto using jumbo_term. intros H. congruence. Qed.

Lemma defs_let ds r : Forall (fun p => positions (fst p) /\ positions (snd p)) ds -> derives Term r ->
  derives Term (flat_map def_tokens ds ++ r).
Proof.
  intros HF Hr. induction HF as [|[an d] ds [Han Hd] _ IH]; [exact Hr|].
  cbn [flat_map def_tokens fst snd] in *. apply let_term. rewrite <- !app_assoc.
  apply rule_let; [apply atom_small, Han | apply atom_term, Hd | exact IH].
Qed.

Theorem print_positions : forall t, printable t = true -> positions t.
Proof.
  induction t as [i s| | | | | |z|i|im d b IHd IHb|im d c IHd IHc|f a IHf IHa|ds b IHds IHb|a IHa|o a b IHa IHb|c a b IHc IHa IHb]
    using term_ind'; intros OK.
  - apply positions_atom; try reflexivity. apply atom_ident.
  - apply positions_atom; try reflexivity. apply atom_type.
  - apply positions_atom; try reflexivity. apply atom_integer.
  - apply positions_atom; try reflexivity. apply atom_boolean.
  - apply positions_atom; try reflexivity. apply atom_true.
  - apply positions_atom; try reflexivity. apply atom_false.
  - apply positions_atom; try reflexivity. cbn [print]. rewrite (printable_lit _ OK). apply atom_literal.
  - apply positions_atom; try reflexivity. apply atom_ident.
  - apply printable_lam in OK as [Od Ob]. specialize (IHd Od). specialize (IHb Ob).
    apply positions_jumbo; try reflexivity. rewrite print_lam.
    apply rule_lam; [apply IHd | apply IHb].
  - apply printable_pi in OK as (Ou & Od & Oc). specialize (IHd Od). specialize (IHc Oc).
    apply positions_jumbo; try reflexivity. rewrite print_pi.
    destruct (occurs c 0 0).
    + apply rule_pi; [apply IHd | apply IHc].
    + destruct im; [discriminate Ou|]. up JumboTerm NonDependentPi.
      apply rule_arrow; [apply IHd | apply IHc].
  - apply printable_app in OK as [Of Oa]. specialize (IHf Of). specialize (IHa Oa).
    assert (HA : derives Application (print (TApp f a))).
    { rewrite print_app. apply IHf. apply atom_small, IHa. }
    assert (HJ : derives JumboTerm (print (TApp f a))) by now apply small_jumbo, app_small.
    constructor.
    + now apply jumbo_term.
    + exact HJ.
    + intros _. exact HJ.
    + apply group_atom; [now apply jumbo_term | intros H; discriminate H].
    + intros s Hs. cbn [head]. rewrite print_app, <- app_assoc. apply IHf.
      apply app_small, rule_application; [apply IHa | exact Hs].
    + now apply app_small.
  - apply printable_let in OK as [Ods Ob]. specialize (IHb Ob).
    assert (HF : Forall (fun p => positions (fst p) /\ positions (snd p)) ds).
    { clear -IHds Ods. induction IHds as [|p ds [H1 H2] _ IH]; constructor.
      - inversion Ods as [|? ? [O1 O2] ?]; subst. split; [now apply H1 | now apply H2].
      - apply IH. now inversion Ods. }
    apply positions_nonapp; try reflexivity.
    + rewrite print_let. apply defs_let; [exact HF | apply IHb].
    + intros H; discriminate H.
    + intros H; discriminate H.
  - apply printable_neg in OK. specialize (IHa OK).
    apply positions_jumbo; try reflexivity. rewrite print_neg.
    apply huge_jumbo, large_huge. up LargeTerm Negation. apply rule_negation, atom_large, IHa.
  - apply printable_bin in OK as [Oa Ob]. specialize (IHa Oa). specialize (IHb Ob).
    apply positions_jumbo; try reflexivity; [destruct o; reflexivity|]. rewrite print_bin.
    apply giant_jumbo, rule_bin; [apply IHa | apply IHb].
  - apply printable_if in OK as (Oc & Oa & Ob). specialize (IHc Oc). specialize (IHa Oa). specialize (IHb Ob).
    apply positions_jumbo; try reflexivity. rewrite print_if.
    up JumboTerm If. apply rule_if; [apply IHc | apply IHa | apply IHb].
Qed.

(* the property: what the printer shows is a sentence of grammar.y *)
Theorem print_is_sentence : forall t, printable t = true -> derives Term (print t).
Proof. intros t H. apply print_positions, H. Qed.

Corollary print_is_sentence_strict : forall t, printable_strict t = true -> derives Term (print t).
Proof. intros t H. apply andb_true_iff in H as [H _]. now apply print_is_sentence. Qed.

(* ---------- a verified refutation procedure for the generated grammar ---------- *)
(* Three-valued recogniser: `Some false` is only answered when every production and every split has
   been refuted, so it is sound for NON-membership whatever the fuel (recog_refutes). Used below to show
   that the excluded shapes really are not sentences. *)
Scheme derives_mind := Minimality for derives Sort Prop
  with derives_rhs_mind := Minimality for derives_rhs Sort Prop.

Lemma grammar_rhs_nonempty : forallb (fun p : production => match snd p with [] => false | _ => true end) grammar = true.
Proof. vm_compute. reflexivity. Qed.

Lemma derives_nonempty : forall n w, derives n w -> w <> [].
Proof.
  apply (derives_mind (fun n w => w <> []) (fun rhs w => rhs <> [] -> w <> [])).
  - intros n rhs w Hin _ IH. apply IH. pose proof grammar_rhs_nonempty as G. rewrite forallb_forall in G.
    specialize (G _ Hin). cbn in G. destruct rhs; [discriminate G | discriminate].
  - intros H. now contradiction H.
  - intros; discriminate.
  - intros; discriminate.
  - intros m rhs w1 w2 _ H1 _ _ _. destruct w1; [now contradiction H1 | discriminate].
Qed.

Definition or3 (a b : option bool) : option bool :=
  match a, b with
  | Some true, _ => Some true
  | _, Some true => Some true
  | Some false, Some false => Some false
  | _, _ => None
  end.
Definition and3 (a b : option bool) : option bool :=
  match a, b with
  | Some false, _ => Some false
  | _, Some false => Some false
  | Some true, Some true => Some true
  | _, _ => None
  end.

Section Refute.
Variable R : nt -> list tkind -> option bool.

(* all splits w = firstn i w ++ skipn i w with 1 <= i; whichever side is cheaper to refute is tried first *)
Fixpoint try_splits (rest_first : bool) (m : nt) (k : list tkind -> option bool) (w : list tkind) (i : nat) : option bool :=
  match i with
  | 0 => Some false
  | S j =>
      or3 (if rest_first
           then match k (skipn i w) with Some false => Some false | x => and3 (R m (firstn i w)) x end
           else match R m (firstn i w) with Some false => Some false | x => and3 x (k (skipn i w)) end)
          (try_splits rest_first m k w j)
  end.

Fixpoint rhs_rec (rhs : list gsym) (w : list tkind) : option bool :=
  match rhs with
  | [] => Some (match w with [] => true | _ => false end)
  | GT k :: r => match w with k' :: w' => if tkind_eqb k k' then rhs_rec r w' else Some false | [] => Some false end
  | GTerminator :: r => match w with k' :: w' => if is_terminator_kind k' then rhs_rec r w' else Some false | [] => Some false end
  | GN m :: r => try_splits (match r with GN _ :: _ => false | _ => true end) m (rhs_rec r) w (length w)
  end.

Hypothesis R_refutes : forall n w, R n w = Some false -> ~ derives n w.

Lemma try_splits_false rf m k w : forall i, try_splits rf m k w i = Some false ->
  forall j, 1 <= j <= i -> R m (firstn j w) = Some false \/ k (skipn j w) = Some false.
Proof.
  induction i as [|i IH]; intros H j Hj; [lia|]. cbn [try_splits] in H.
  match type of H with or3 ?x ?y = _ => assert (H1 : x = Some false /\ y = Some false)
    by (destruct x as [[|]|]; destruct y as [[|]|]; cbn in H; try discriminate H; split; reflexivity) end.
  destruct H1 as [Ha Hb]. destruct (Nat.eq_dec j (S i)) as [->|Hne].
  - destruct rf; destruct (k (skipn (S i) w)) as [[|]|]; destruct (R m (firstn (S i) w)) as [[|]|];
      cbn in Ha; try discriminate Ha; auto.
  - apply IH; [exact Hb | lia].
Qed.

Lemma rhs_rec_refutes : forall rhs w, rhs_rec rhs w = Some false -> ~ derives_rhs rhs w.
Proof.
  induction rhs as [|g r IH]; intros w H D.
  - inversion D; subst. discriminate H.
  - destruct g as [k| |m]; cbn [rhs_rec] in H.
    + inversion D; subst. assert (E : tkind_eqb k k = true) by now apply Token.tkind_eqb_eq. rewrite E in H.
      eapply IH; eassumption.
    + inversion D; subst. match goal with E : is_terminator_kind _ = true |- _ => rewrite E in H end.
      eapply IH; eassumption.
    + inversion D as [| | |m' r' w1 w2 D1 D2]; subst.
      pose proof (derives_nonempty _ _ D1) as NE.
      destruct (try_splits_false _ m (rhs_rec r) (w1 ++ w2) _ H (length w1)) as [F|F].
      * rewrite app_length. destruct w1; [now contradiction NE | cbn; lia].
      * rewrite firstn_app, Nat.sub_diag, firstn_all in F. cbn in F. rewrite app_nil_r in F.
        now apply R_refutes in F.
      * rewrite skipn_app, Nat.sub_diag, skipn_all in F. cbn in F. eapply IH; eassumption.
Qed.
End Refute.

Definition try_prods (R : nt -> list tkind -> option bool) (n : nt) (w : list tkind) (g : list production) : option bool :=
  fold_right (fun p acc => if nt_eqb (fst p) n then or3 (rhs_rec R (snd p) w) acc else acc) (Some false) g.

Fixpoint recog (fuel : nat) (n : nt) (w : list tkind) : option bool :=
  match fuel with
  | 0 => None
  | S f => match w with [] => Some false | _ => try_prods (recog f) n w grammar end
  end.

Lemma try_prods_false R n w : forall g, try_prods R n w g = Some false ->
  forall rhs, In (n, rhs) g -> rhs_rec R rhs w = Some false.
Proof.
  induction g as [|[n' r'] g IH]; intros H rhs Hin; [destruct Hin|]. cbn [try_prods fold_right fst snd] in H.
  fold (try_prods R n w g) in H. destruct Hin as [E|Hin].
  - injection E as -> ->. assert (E : nt_eqb n n = true) by now apply nt_eqb_eq. rewrite E in H.
    destruct (rhs_rec R rhs w) as [[|]|]; destruct (try_prods R n w g) as [[|]|]; cbn in H; try discriminate H; reflexivity.
  - apply IH; [|exact Hin]. destruct (nt_eqb n' n); [|exact H].
    destruct (rhs_rec R r' w) as [[|]|]; destruct (try_prods R n w g) as [[|]|]; cbn in H; try discriminate H; reflexivity.
Qed.

Theorem recog_refutes : forall fuel n w, recog fuel n w = Some false -> ~ derives n w.
Proof.
  induction fuel as [|f IH]; intros n w H D; [discriminate H|]. cbn [recog] in H.
  destruct w as [|x w]; [now apply derives_nonempty in D|].
  inversion D as [n' rhs w' Hin Dr]; subst.
  eapply rhs_rec_refutes; [exact IH | | exact Dr]. eapply try_prods_false; eassumption.
Qed.

Ltac refute := apply (recog_refutes 60); vm_compute; reflexivity.

(* ---------- the exact class: where a negative literal still prints a sentence ---------- *)
(* A negative literal is printed as `-` `literal` without parentheses. Almost everywhere the result is
   still a sentence (with ANOTHER structure: `f -1` reads back as a difference): the only positions
   whose nonterminal is too small to hold a negation or a difference are the annotation of a
   definition-group entry and the domain of a non-dependent arrow (itself or along its spine). *)
Definition is_neglit (t : term) : bool := match t with TLit z => (z <? 0)%Z | _ => false end.
Fixpoint spine_clean (t : term) : bool :=
  match t with TApp f a => spine_clean f && negb (is_neglit a) | _ => negb (is_neglit t) end.
Fixpoint printable_exact (t : term) : bool :=
  match t with
  | THole _ _ | TType | TInt | TBool | TTrue | TFalse | TVar _ | TLit _ => true
  | TLam _ d b => printable_exact d && printable_exact b
  | TPi im d c => printable_exact d && printable_exact c &&
                  (if occurs c 0 0 then true else if im then false else spine_clean d)
  | TApp f a => printable_exact f && printable_exact a
  | TLet ds b => forallb (fun p => let '(an, d) := p in negb (is_neglit an) && printable_exact an && printable_exact d) ds
                 && printable_exact b
  | TNeg a => printable_exact a
  | TBin _ a b => printable_exact a && printable_exact b
  | TIf c a b => printable_exact c && printable_exact a && printable_exact b
  end.

Definition neg_literal : list tkind := [KMinus; KIntegerLiteral].
Definition operand (w : list tkind) : Prop := derives Atom w \/ w = neg_literal.
(* what may follow the function part of an application: operands; the whole is then a HugeTerm *)
Definition tail_ok (s : list tkind) : Prop :=
  forall pre l, pre = [] \/ pre = [KMinus] -> l <> [] -> Forall (derives Atom) l -> derives HugeTerm (pre ++ concat l ++ s).

Lemma rule_difference a b : derives LargeTerm a -> derives HugeTerm b -> derives HugeTerm (a ++ [KMinus] ++ b).
Proof. intros. up HugeTerm Difference. by_prod. Qed.
Lemma large_negation a : derives LargeTerm a -> derives LargeTerm ([KMinus] ++ a).
Proof. intros. up LargeTerm Negation. now apply rule_negation. Qed.
Lemma neg_literal_large : derives LargeTerm neg_literal.
Proof. apply (large_negation [KIntegerLiteral]), atom_large, atom_literal. Qed.
Lemma operand_large w : operand w -> derives LargeTerm w.
Proof. intros [H| ->]; [now apply atom_large | apply neg_literal_large]. Qed.

Lemma atoms_small : forall l, l <> [] -> Forall (derives Atom) l -> derives SmallTerm (concat l).
Proof.
  induction l as [|a l IH]; intros NE HF; [now contradiction NE|]. inversion HF as [|? ? Ha Hl]; subst. cbn [concat].
  destruct l as [|b l].
  - cbn. rewrite app_nil_r. now apply atom_small.
  - apply app_small, rule_application; [exact Ha | apply IH; [discriminate | exact Hl]].
Qed.

Lemma tail_nil : tail_ok [].
Proof.
  intros pre l Hp NE HF. rewrite app_nil_r. pose proof (atoms_small l NE HF) as HS.
  destruct Hp as [-> | ->]; [now apply small_huge | now apply large_huge, large_negation, small_large].
Qed.
Lemma tail_atom a s : derives Atom a -> tail_ok s -> tail_ok (a ++ s).
Proof.
  intros Ha Hs pre l Hp NE HF. specialize (Hs pre (l ++ [a]) Hp).
  rewrite concat_app in Hs. cbn [concat] in Hs. rewrite app_nil_r, <- app_assoc in Hs. apply Hs.
  - destruct l; discriminate.
  - apply Forall_app. split; [exact HF | now constructor].
Qed.
Lemma tail_neg_literal s : tail_ok s -> tail_ok (neg_literal ++ s).
Proof.
  intros Hs pre l Hp NE HF.
  assert (HL : derives LargeTerm (pre ++ concat l)).
  { pose proof (atoms_small l NE HF) as HS. destruct Hp as [-> | ->]; [now apply small_large | now apply large_negation, small_large]. }
  assert (HH : derives HugeTerm ([KIntegerLiteral] ++ s)).
  { specialize (Hs [] [[KIntegerLiteral]] (or_introl eq_refl)). cbn in Hs. apply Hs; [discriminate | constructor; [apply atom_literal | constructor]]. }
  pose proof (rule_difference _ _ HL HH) as D. unfold neg_literal. cbn [app] in *. rewrite <- app_assoc in D. exact D.
Qed.
Lemma tail_operand w s : operand w -> tail_ok s -> tail_ok (w ++ s).
Proof. intros [H| ->] Hs; [now apply tail_atom | now apply tail_neg_literal]. Qed.
Lemma operand_then_tail w s : operand w -> tail_ok s -> derives HugeTerm (w ++ s).
Proof.
  intros [H| ->] Hs.
  - specialize (Hs [] [w] (or_introl eq_refl)). cbn in Hs. rewrite app_nil_r in Hs. apply Hs; [discriminate | now constructor].
  - specialize (Hs [KMinus] [[KIntegerLiteral]] (or_intror eq_refl)). cbn in Hs. apply Hs; [discriminate | constructor; [apply atom_literal | constructor]].
Qed.

Lemma rule_bin_operands o a b : operand a -> operand b -> derives GiantTerm (a ++ [binop_kind o] ++ b).
Proof.
  intros Ha Hb. pose proof (operand_large _ Ha) as La. pose proof (operand_large _ Hb) as Lb.
  pose proof (large_huge _ La) as Ga. pose proof (large_huge _ Lb) as Gb.
  assert (M : forall x k, derives SmallTerm x -> k = KAsterisk \/ k = KSlash -> derives LargeTerm (x ++ [k] ++ b)).
  { intros x k Hx [-> | ->]; apply medium_large; [up MediumTerm Product | up MediumTerm Quotient]; by_prod. }
  assert (PL : forall k, k = KAsterisk \/ k = KSlash -> derives LargeTerm (a ++ [k] ++ b)).
  { intros k Hk. destruct Ha as [Ha| ->]; [apply M; auto using atom_small|].
    apply (large_negation ([KIntegerLiteral] ++ [k] ++ b)), M; auto using atom_small, atom_literal. }
  destruct o; cbn [binop_kind].
  - apply huge_giant. up HugeTerm Sum. by_prod.
  - apply huge_giant. up HugeTerm Difference. by_prod.
  - apply huge_giant, large_huge, PL. now left.
  - apply huge_giant, large_huge, PL. now right.
  - up GiantTerm LessThan. by_prod.
  - up GiantTerm LessThanOrEqualTo. by_prod.
  - up GiantTerm EqualTo. by_prod.
  - up GiantTerm GreaterThan. by_prod.
  - up GiantTerm GreaterThanOrEqualTo. by_prod.
Qed.

Record positions_exact (t : term) : Prop := {
  px_term : derives Term (print t);
  px_annotation : derives JumboTerm (binder_domain t);
  px_jumbo : is_let t = false -> derives JumboTerm (print t);
  px_operand : operand (group t);
  px_atom : is_neglit t = false -> derives Atom (group t);
  px_spine : forall s, tail_ok s -> derives HugeTerm (head t ++ s);
  px_clean_spine : spine_clean t = true -> forall s, derives SmallTerm s -> derives Application (head t ++ s);
  px_domain : spine_clean t = true -> derives SmallTerm (head t)
}.

Lemma neglit_tokens t : is_neglit t = true -> print t = neg_literal /\ bare t = true /\ is_app t = false /\ is_let t = false.
Proof. destruct t; try discriminate. cbn [is_neglit print]. unfold lit_tokens. intros ->. repeat split; reflexivity. Qed.
Lemma not_bare_not_neglit t : bare t = false -> is_neglit t = false.
Proof. destruct t; try reflexivity. discriminate. Qed.

Lemma positions_exact_nonapp t : is_app t = false -> derives Term (print t) ->
  (is_let t = false -> derives JumboTerm (print t)) ->
  (bare t = true -> operand (print t) /\ (is_neglit t = false -> derives Atom (print t))) -> positions_exact t.
Proof.
  intros NA HT HJ HB.
  assert (E : head t = group t) by (destruct t; try reflexivity; discriminate NA).
  assert (C : spine_clean t = negb (is_neglit t)) by (destruct t; try reflexivity; discriminate NA).
  assert (HO : operand (group t) /\ (is_neglit t = false -> derives Atom (group t))).
  { unfold group. fold (bare t). destruct (bare t) eqn:B; [now apply HB|].
    split; [left|intros _]; now apply atom_group. }
  destruct HO as [HO HA].
  assert (HA' : spine_clean t = true -> derives Atom (group t)).
  { rewrite C. intros H. apply HA. now destruct (is_neglit t). }
  constructor; try assumption.
  - now apply annotation_jumbo.
  - intros s Hs. rewrite E. now apply operand_then_tail.
  - intros Hc s Hs. rewrite E. apply rule_application; [now apply HA' | exact Hs].
  - intros Hc. rewrite E. now apply atom_small, HA'.
Qed.

Lemma positions_exact_atom t : is_app t = false -> is_let t = false -> derives Atom (print t) -> positions_exact t.
Proof. intros NA NL HA. apply positions_exact_nonapp; auto using atom_term, atom_jumbo. intros _. split; [now left | auto]. Qed.

Lemma positions_exact_jumbo t : is_app t = false -> is_let t = false -> bare t = false -> derives JumboTerm (print t) -> positions_exact t.
Proof. intros NA NL NB HJ. apply positions_exact_nonapp; auto using jumbo_term. intros H. congruence. Qed.

Lemma defs_let_exact ds r :
  Forall (fun p => is_neglit (fst p) = false /\ positions_exact (fst p) /\ positions_exact (snd p)) ds -> derives Term r ->
  derives Term (flat_map def_tokens ds ++ r).
Proof.
  intros HF Hr. induction HF as [|[an d] ds (Hn & Han & Hd) _ IH]; [exact Hr|].
  cbn [flat_map def_tokens fst snd] in *. apply let_term. rewrite <- !app_assoc.
  apply rule_let; [now apply atom_small, Han | | exact IH].
  apply jumbo_term, huge_jumbo, large_huge, operand_large, Hd.
Qed.

Theorem print_positions_exact : forall t, printable_exact t = true -> positions_exact t.
Proof.
  induction t as [i s| | | | | |z|i|im d b IHd IHb|im d c IHd IHc|f a IHf IHa|ds b IHds IHb|a IHa|o a b IHa IHb|c a b IHc IHa IHb]
    using term_ind'; intros OK; cbn [printable_exact] in OK.
  - apply positions_exact_atom; try reflexivity. apply atom_ident.
  - apply positions_exact_atom; try reflexivity. apply atom_type.
  - apply positions_exact_atom; try reflexivity. apply atom_integer.
  - apply positions_exact_atom; try reflexivity. apply atom_boolean.
  - apply positions_exact_atom; try reflexivity. apply atom_true.
  - apply positions_exact_atom; try reflexivity. apply atom_false.
  - destruct (z <? 0)%Z eqn:Z.
    + assert (HL : derives LargeTerm (print (TLit z))) by (cbn [print]; unfold lit_tokens; rewrite Z; apply neg_literal_large).
      apply positions_exact_nonapp; try reflexivity.
      * now apply jumbo_term, huge_jumbo, large_huge.
      * intros _. now apply huge_jumbo, large_huge.
      * intros _. split; [right; cbn [print]; unfold lit_tokens; now rewrite Z | cbn [is_neglit]; congruence].
    + apply positions_exact_atom; try reflexivity. cbn [print]. unfold lit_tokens. rewrite Z. apply atom_literal.
  - apply positions_exact_atom; try reflexivity. apply atom_ident.
  - apply andb_true_iff in OK as [Od Ob]. specialize (IHd Od). specialize (IHb Ob).
    apply positions_exact_jumbo; try reflexivity. rewrite print_lam.
    apply rule_lam; [apply IHd | apply IHb].
  - apply andb_true_iff in OK as [OK Ou]. apply andb_true_iff in OK as [Od Oc]. specialize (IHd Od). specialize (IHc Oc).
    apply positions_exact_jumbo; try reflexivity. rewrite print_pi.
    destruct (occurs c 0 0).
    + apply rule_pi; [apply IHd | apply IHc].
    + destruct im; [discriminate Ou|]. up JumboTerm NonDependentPi.
      apply rule_arrow; [now apply IHd | apply IHc].
  - apply andb_true_iff in OK as [Of Oa]. specialize (IHf Of). specialize (IHa Oa).
    assert (HH : derives HugeTerm (print (TApp f a))).
    { rewrite print_app, <- (app_nil_r (group a)). apply IHf, tail_operand; [apply IHa | apply tail_nil]. }
    assert (HJ : derives JumboTerm (print (TApp f a))) by now apply huge_jumbo.
    assert (HC : spine_clean (TApp f a) = true -> forall s, derives SmallTerm s -> derives Application (head (TApp f a) ++ s)).
    { cbn [spine_clean head]. intros Hc s Hs. apply andb_true_iff in Hc as [Hf Ha]. apply negb_true_iff in Ha.
      rewrite print_app, <- app_assoc. apply IHf; [exact Hf|].
      apply app_small, rule_application; [now apply IHa | exact Hs]. }
    assert (HA : spine_clean (TApp f a) = true -> derives Application (print (TApp f a))).
    { cbn [spine_clean]. intros Hc. apply andb_true_iff in Hc as [Hf Ha]. apply negb_true_iff in Ha.
      rewrite print_app. apply IHf; [exact Hf|]. now apply atom_small, IHa. }
    assert (HG : derives Atom (group (TApp f a))) by (apply group_atom; [now apply jumbo_term | intros H; discriminate H]).
    constructor.
    + now apply jumbo_term.
    + exact HJ.
    + intros _. exact HJ.
    + now left.
    + intros _. exact HG.
    + intros s Hs. cbn [head]. rewrite print_app, <- app_assoc. apply IHf, tail_operand; [apply IHa | exact Hs].
    + exact HC.
    + intros Hc. now apply app_small, HA.
  - apply andb_true_iff in OK as [Ods Ob]. specialize (IHb Ob).
    assert (HF : Forall (fun p => is_neglit (fst p) = false /\ positions_exact (fst p) /\ positions_exact (snd p)) ds).
    { clear -IHds Ods. induction IHds as [|[an d] ds [H1 H2] _ IH]; constructor; cbn [forallb] in Ods;
        apply andb_true_iff in Ods as [O1 O2].
      - apply andb_true_iff in O1 as [O1 Od]. apply andb_true_iff in O1 as [On Oa]. apply negb_true_iff in On.
        cbn [fst snd] in *. split; [exact On | split; [now apply H1 | now apply H2]].
      - now apply IH. }
    apply positions_exact_nonapp; try reflexivity.
    + rewrite print_let. apply defs_let_exact; [exact HF | apply IHb].
    + intros H; discriminate H.
    + intros H; discriminate H.
  - specialize (IHa OK).
    apply positions_exact_jumbo; try reflexivity. rewrite print_neg.
    apply huge_jumbo, large_huge, large_negation, operand_large, IHa.
  - apply andb_true_iff in OK as [Oa Ob]. specialize (IHa Oa). specialize (IHb Ob).
    apply positions_exact_jumbo; try reflexivity; [destruct o; reflexivity|]. rewrite print_bin.
    apply giant_jumbo, rule_bin_operands; [apply IHa | apply IHb].
  - apply andb_true_iff in OK as [OK Ob]. apply andb_true_iff in OK as [Oc Oa].
    specialize (IHc Oc). specialize (IHa Oa). specialize (IHb Ob).
    apply positions_exact_jumbo; try reflexivity. rewrite print_if.
    up JumboTerm If. apply rule_if; [apply IHc | apply IHa | apply IHb].
Qed.

Theorem print_is_sentence_exact : forall t, printable_exact t = true -> derives Term (print t).
Proof. intros t H. apply print_positions_exact, H. Qed.

(* the class of the main theorem lies inside the exact class *)
Lemma no_negative_literal_not_neglit t : no_negative_literal t = true -> is_neglit t = false.
Proof. destruct t; try reflexivity. cbn. intros H. apply Z.leb_le in H. apply Z.ltb_ge. exact H. Qed.
Lemma no_negative_literal_spine_clean : forall t, no_negative_literal t = true -> spine_clean t = true.
Proof.
  induction t as [| | | | | |z| | | |f a IHf IHa| | | |] using term_ind'; intros Hn; try reflexivity.
  - cbn [spine_clean]. now rewrite (no_negative_literal_not_neglit _ Hn).
  - cbn [no_negative_literal] in Hn. apply andb_true_iff in Hn as [Hf Ha]. cbn [spine_clean].
    rewrite IHf by exact Hf. now rewrite (no_negative_literal_not_neglit _ Ha).
Qed.
Lemma printable_no_negative_literal t : printable t = true -> no_negative_literal t = true.
Proof. unfold printable. intros H. now apply andb_true_iff in H. Qed.

Theorem printable_is_exact : forall t, printable t = true -> printable_exact t = true.
Proof.
  induction t as [i s| | | | | |z|i|im d b IHd IHb|im d c IHd IHc|f a IHf IHa|ds b IHds IHb|a IHa|o a b IHa IHb|c a b IHc IHa IHb]
    using term_ind'; intros OK; try reflexivity; cbn [printable_exact].
  - apply printable_lam in OK as [Od Ob]. now rewrite IHd, IHb.
  - apply printable_pi in OK as (Ou & Od & Oc). rewrite IHd, IHc by assumption. cbn [andb].
    destruct (occurs c 0 0); [reflexivity|]. destruct im; [discriminate Ou|].
    now apply no_negative_literal_spine_clean, printable_no_negative_literal.
  - apply printable_app in OK as [Of Oa]. now rewrite IHf, IHa.
  - apply printable_let in OK as [Ods Ob]. rewrite IHb by assumption. rewrite andb_true_r.
    clear -IHds Ods. induction IHds as [|[an d] ds [H1 H2] _ IH]; [reflexivity|].
    inversion Ods as [|? ? [O1 O2] Ods']; subst. cbn [fst snd forallb] in *.
    rewrite H1, H2, IH by assumption.
    now rewrite (no_negative_literal_not_neglit _ (printable_no_negative_literal _ O1)).
  - apply printable_neg in OK. now apply IHa.
  - apply printable_bin in OK as [Oa Ob]. now rewrite IHa, IHb.
  - apply printable_if in OK as (Oc & Oa & Ob). now rewrite IHc, IHa, IHb.
Qed.

(* ---------- the excluded shapes are not sentences ---------- *)
(* D12: `{a : int} -> int` is shown as `{ int } -> int` *)
Example unused_implicit_pi_not_sentence :
  print (TPi true TInt TInt) = [KLeftCurly; KInteger; KRightCurly; KThinArrow; KInteger] /\
  ~ derives Term (print (TPi true TInt TInt)).
Proof. split; [reflexivity | refute]. Qed.
Example unused_implicit_pi_var_not_sentence :   (* `{ x } -> int` *)
  ~ derives Term (print (TLam false TType (TPi true (TVar 0) TInt))).
Proof. refute. Qed.
(* a negative literal as the domain of an arrow: `-1 -> int` *)
Example negative_domain_not_sentence :
  print (TPi false (TLit (-1)) TInt) = [KMinus; KIntegerLiteral; KThinArrow; KInteger] /\
  ~ derives Term (print (TPi false (TLit (-1)) TInt)).
Proof. split; [reflexivity | refute]. Qed.
(* ... or as an operand in the spine of that domain: `f -1 -> int`, `-1 x -> int` *)
Example negative_domain_operand_not_sentence :
  ~ derives Term (print (TPi false (TApp (TVar 0) (TLit (-1))) TInt)) /\
  ~ derives Term (print (TPi false (TApp (TLit (-1)) (TVar 0)) TInt)) /\
  ~ derives Term (print (TPi false (TApp (TApp (TVar 0) (TLit (-1))) (TVar 1)) TInt)).
Proof. repeat split; refute. Qed.
(* a negative literal as the annotation of a definition: `x : -1 = 1; x` *)
Example negative_annotation_not_sentence :
  print (TLet [(TLit (-1), TLit 1)] (TVar 0)) =
    [KIdentifier; KColon; KMinus; KIntegerLiteral; KEquals; KIntegerLiteral; KSemicolon; KIdentifier] /\
  ~ derives Term (print (TLet [(TLit (-1), TLit 1)] (TVar 0))).
Proof. split; [reflexivity | refute]. Qed.
(* elsewhere a negative literal yields a sentence, but not the structure the printer meant:
   `f -1` is shown as `f - 1`, an application printed as a difference (never an Application) *)
Example negative_operand_changes_structure :
  print (TApp (TVar 0) (TLit (-1))) = print (TBin ODiff (TVar 0) (TLit 1)) /\
  derives Term (print (TApp (TVar 0) (TLit (-1)))) /\
  ~ derives Application (print (TApp (TVar 0) (TLit (-1)))).
Proof. split; [reflexivity | split; [now apply print_is_sentence_exact | refute]]. Qed.
(* the empty definition group prints as its body: a sentence (it needs no exclusion) *)
Example empty_let_is_sentence : forall b, printable b = true -> derives Term (print (TLet [] b)).
Proof. intros b H. apply print_is_sentence. unfold printable in *. cbn [has_unused_implicit_pi no_negative_literal existsb forallb orb andb]. exact H. Qed.

(* ---------- bounded-exhaustive evidence that the exact class is exact ---------- *)
(* All terms of depth <= 1 over five leaves (a variable, int, 1, -1, a hole), and each of them (and each
   leaf) placed in 32 one-hole contexts covering every printing position: 10395 terms. On all of them
   `print t` is a sentence exactly when printable_exact t holds (the 1162 terms outside the class are
   refuted by the verified procedure above). *)
Definition small_leaves : list term := [TVar 0; TInt; TLit 1; TLit (-1); THole 0 0].
Definition small_level (l : list term) : list term :=
  flat_map (fun p : term * term =>
              let (x, y) := p in
              [TLam false x y; TLam true x y; TPi false x y; TPi true x y; TApp x y;
               TBin OSum x y; TBin OProd x y; TBin OLt x y;
               TLet [(x, y)] (TVar 0); TLet [(TInt, x)] y; TIf x y (TVar 0); TIf (TVar 0) x y])
           (flat_map (fun a => map (fun b => (a, b)) l) l)
  ++ flat_map (fun a => [TNeg a; TLet [] a]) l.
Definition small_contexts (u : term) : list term :=
  [TLam false u (TVar 0); TLam true u (TVar 1); TLam false TInt u; TPi false u (TVar 0); TPi false u (TVar 1); TPi true u (TVar 0);
   TPi false TInt u; TPi true TInt u; TApp u (TVar 0); TApp (TVar 0) u; TApp (TApp u (TVar 0)) (TVar 1); TApp (TApp (TVar 0) u) (TVar 1);
   TPi false (TApp u (TVar 0)) TInt; TPi false (TApp (TVar 0) u) TInt; TPi false (TApp (TApp (TVar 0) u) (TVar 1)) TInt;
   TNeg u; TBin OSum u (TVar 0); TBin OSum (TVar 0) u; TBin OProd u (TVar 0); TBin OProd (TVar 0) u; TBin OEq u (TVar 0); TBin OEq (TVar 0) u;
   TBin ODiff u (TLit (-1)); TBin OQuot (TLit (-1)) u;
   TLet [(u, TVar 0)] (TVar 0); TLet [(TInt, u)] (TVar 0); TLet [(TInt, TLit 1)] u; TLet [(TInt, TLit 1); (u, TLit (-1))] (TVar 0); TLet [] u;
   TIf u (TVar 0) (TVar 0); TIf (TVar 0) u (TVar 0); TIf (TVar 0) (TVar 0) u].
Definition small_terms : list term :=
  let l1 := small_leaves ++ small_level small_leaves in l1 ++ flat_map small_contexts l1.

Definition refuted (t : term) : bool := match recog 80 Term (print t) with Some false => true | _ => false end.

Lemma small_terms_checked : forallb (fun t => if printable_exact t then true else refuted t) small_terms = true.
Proof. vm_cast_no_check (eq_refl true). Qed.

Theorem exact_on_small_terms : forall t, In t small_terms -> (derives Term (print t) <-> printable_exact t = true).
Proof.
  intros t Hin. split; [|apply print_is_sentence_exact]. intros D.
  pose proof small_terms_checked as C. rewrite forallb_forall in C. specialize (C t Hin).
  destruct (printable_exact t); [reflexivity|]. exfalso. unfold refuted in C.
  destruct (recog 80 Term (print t)) as [[|]|] eqn:E; try discriminate C. exact (recog_refutes _ _ _ E D).
Qed.

Print Assumptions print_positions.
Print Assumptions print_is_sentence.
Print Assumptions print_is_sentence_strict.
Print Assumptions print_positions_exact.
Print Assumptions print_is_sentence_exact.
Print Assumptions printable_is_exact.
Print Assumptions recog_refutes.
Print Assumptions unused_implicit_pi_not_sentence.
Print Assumptions negative_domain_not_sentence.
Print Assumptions negative_domain_operand_not_sentence.
Print Assumptions negative_annotation_not_sentence.
Print Assumptions negative_operand_changes_structure.
Print Assumptions exact_on_small_terms.
