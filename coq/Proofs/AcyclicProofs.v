(* C12 on Model B: "no hole is solved by a term containing itself". The store stays acyclic through
   unification: the solution that `unify` records contains only UNSOLVED holes (solved ones are inlined by
   the lowering shift), none of them the assigned cell (occurs check), so the assignment adds edges from the
   assigned cell to cells without outgoing edges and cannot close a cycle. *)
From Coq Require Import List ZArith Lia Bool Arith Relations.
Import ListNotations.
Require Import Gram.Model.Term Gram.Model.DeBruijn Gram.Model.ModelB Gram.Proofs.ModelBProofs Gram.Proofs.ModelBEq Gram.Proofs.StoreProofs.

(* the cells mentioned by a term *)
Fixpoint holes_of (t : term) : list nat :=
  match t with
  | THole id _ => [id]
  | TLam _ a b | TPi _ a b | TApp a b | TBin _ a b => holes_of a ++ holes_of b
  | TLet ds b => flat_map (fun p => holes_of (fst p) ++ holes_of (snd p)) ds ++ holes_of b
  | TNeg a => holes_of a
  | TIf a b c => holes_of a ++ holes_of b ++ holes_of c
  | _ => []
  end.

(* the unsolved cells reachable from a term through solved cells *)
Inductive leaf (s : storeB) : term -> nat -> Prop :=
| leaf_here t j : In j (holes_of t) -> sget s j = None -> leaf s t j
| leaf_via t i sol j : In i (holes_of t) -> sget s i = Some sol -> leaf s sol j -> leaf s t j.

Definition edge (s : storeB) (i j : nat) : Prop := exists sol, sget s i = Some sol /\ In j (holes_of sol).
Definition acyclic (s : storeB) : Prop := forall i, ~ clos_trans nat (edge s) i i.

Lemma leaf_sub s t u j : (forall i, In i (holes_of t) -> In i (holes_of u)) -> leaf s t j -> leaf s u j.
Proof. intros H L. inversion L; subst; [apply leaf_here | eapply leaf_via]; eauto. Qed.

(* terms all of whose holes are unsolved *)
Definition unsolved_holes (s : storeB) (t : term) : Prop := forall j, In j (holes_of t) -> sget s j = None.

Lemma leaf_unsolved s t j : unsolved_holes s t -> leaf s t j -> In j (holes_of t).
Proof. intros U L. inversion L; subst; [assumption|]. rewrite (U _ H) in H0. discriminate. Qed.

Lemma leaf_none s t j : leaf s t j -> sget s j = None.
Proof. induction 1; assumption. Qed.

Lemma in_app_l {A} (x : A) l r : In x l -> In x (l ++ r). Proof. intros; apply in_or_app; now left. Qed.
Lemma in_app_r {A} (x : A) l r : In x r -> In x (l ++ r). Proof. intros; apply in_or_app; now right. Qed.

(* the lowering / raising shift inlines solved cells: what remains are unsolved cells reachable from the input *)
Lemma sshiftB_leaves : forall f s t c k t', sshiftB f s t c k = Some (Some t') -> forall j, In j (holes_of t') -> leaf s t j.
Proof.
  induction f as [|f IH]; intros s t c k t' H j Hj; [discriminate|].
  destruct t; cbn [sshiftB] in H; cbv zeta in H.
  - (* hole *)
    destruct (sget s id) as [sol|] eqn:G.
    + destruct (sshiftB f s sol 0 (Z.of_nat shift)) as [[sol'|]|] eqn:S1; try discriminate.
      pose proof (IH _ _ _ _ _ H j Hj) as L.
      assert (U : unsolved_holes s sol') by (intros i Hi; exact (leaf_none _ _ _ (IH _ _ _ _ _ S1 i Hi))).
      apply (leaf_unsolved _ _ _ U) in L. eapply leaf_via; [left; reflexivity | exact G | exact (IH _ _ _ _ _ S1 j L)].
    + destruct (shift_idx shift c k); [|discriminate]. injection H as <-. cbn in Hj. destruct Hj as [<-|[]]. apply leaf_here; [now left | exact G].
  - injection H as <-. contradiction.
  - injection H as <-. contradiction.
  - injection H as <-. contradiction.
  - injection H as <-. contradiction.
  - injection H as <-. contradiction.
  - injection H as <-. contradiction.
  - destruct (shift_idx i c k); [|discriminate]. injection H as <-. contradiction.
  - (* lam *)
    destruct (sshiftB f s t1 c k) as [[a'|]|] eqn:A; try discriminate; destruct (sshiftB f s t2 (S c) k) as [[b'|]|] eqn:B; try discriminate.
    injection H as <-. cbn [holes_of] in Hj. apply in_app_or in Hj as [Hj|Hj];
      [apply (leaf_sub s t1); [intros; cbn [holes_of]; now apply in_app_l | exact (IH _ _ _ _ _ A j Hj)]
      | apply (leaf_sub s t2); [intros; cbn [holes_of]; now apply in_app_r | exact (IH _ _ _ _ _ B j Hj)]].
  - (* pi *)
    destruct (sshiftB f s t1 c k) as [[a'|]|] eqn:A; try discriminate; destruct (sshiftB f s t2 (S c) k) as [[b'|]|] eqn:B; try discriminate.
    injection H as <-. cbn [holes_of] in Hj. apply in_app_or in Hj as [Hj|Hj];
      [apply (leaf_sub s t1); [intros; cbn [holes_of]; now apply in_app_l | exact (IH _ _ _ _ _ A j Hj)]
      | apply (leaf_sub s t2); [intros; cbn [holes_of]; now apply in_app_r | exact (IH _ _ _ _ _ B j Hj)]].
  - (* app *)
    destruct (sshiftB f s t1 c k) as [[a'|]|] eqn:A; try discriminate; destruct (sshiftB f s t2 c k) as [[b'|]|] eqn:B; try discriminate.
    injection H as <-. cbn [holes_of] in Hj. apply in_app_or in Hj as [Hj|Hj];
      [apply (leaf_sub s t1); [intros; cbn [holes_of]; now apply in_app_l | exact (IH _ _ _ _ _ A j Hj)]
      | apply (leaf_sub s t2); [intros; cbn [holes_of]; now apply in_app_r | exact (IH _ _ _ _ _ B j Hj)]].
  - (* let *)
    pose (go := fix go (l : list (term * term)) : option (option (list (term * term))) :=
                match l with
                | [] => Some (Some [])
                | (a, d) :: r => a' <- sshiftB f s a (length defs + c) k ;; d' <- sshiftB f s d (length defs + c) k ;; r' <- go r ;;
                    Some (match a', d', r' with Some x, Some y, Some z => Some ((x, y) :: z) | _, _, _ => None end)
                end).
    assert (G : forall l l', go l = Some (Some l') ->
                forall j, In j (flat_map (fun p => holes_of (fst p) ++ holes_of (snd p)) l') ->
                exists p, In p l /\ (leaf s (fst p) j \/ leaf s (snd p) j)).
    { induction l as [|[a d] r IHl]; intros l' Hg j0 Hj0; cbn in Hg; [injection Hg as <-; contradiction|].
      destruct (sshiftB f s a (length defs + c) k) as [[a'|]|] eqn:A; try discriminate;
      destruct (sshiftB f s d (length defs + c) k) as [[d'|]|] eqn:Dd; try discriminate;
      fold go in Hg; destruct (go r) as [[r'|]|] eqn:R; try discriminate. injection Hg as <-.
      cbn [flat_map fst snd] in Hj0. apply in_app_or in Hj0 as [Hj0|Hj0].
      - exists (a, d). split; [now left|]. apply in_app_or in Hj0 as [Hj0|Hj0]; [left; exact (IH _ _ _ _ _ A j0 Hj0) | right; exact (IH _ _ _ _ _ Dd j0 Hj0)].
      - destruct (IHl r' eq_refl j0 Hj0) as (p & Hp & Lp). exists p. split; [now right | exact Lp]. }
    change ((fix go (l : list (term * term)) : option (option (list (term * term))) := _) defs) with (go defs) in H.
    destruct (go defs) as [[ds'|]|] eqn:Gd; destruct (sshiftB f s t (length defs + c) k) as [[b'|]|] eqn:B; try discriminate. injection H as <-.
    cbn [holes_of] in Hj. apply in_app_or in Hj as [Hj|Hj].
    + destruct (G defs ds' Gd j Hj) as (p & Hp & [Lp|Lp]).
      * apply (leaf_sub s (fst p)); [|exact Lp]. intros i Hi. cbn [holes_of]. apply in_app_l. apply in_flat_map. exists p. split; [exact Hp | now apply in_app_l].
      * apply (leaf_sub s (snd p)); [|exact Lp]. intros i Hi. cbn [holes_of]. apply in_app_l. apply in_flat_map. exists p. split; [exact Hp | now apply in_app_r].
    + apply (leaf_sub s t); [|exact (IH _ _ _ _ _ B j Hj)]. intros i Hi. cbn [holes_of]. now apply in_app_r.
  - (* neg *)
    destruct (sshiftB f s t c k) as [[a'|]|] eqn:A; try discriminate. injection H as <-. cbn [holes_of] in Hj.
    apply (leaf_sub s t); [auto | exact (IH _ _ _ _ _ A j Hj)].
  - (* bin *)
    destruct (sshiftB f s t1 c k) as [[a'|]|] eqn:A; try discriminate; destruct (sshiftB f s t2 c k) as [[b'|]|] eqn:B; try discriminate.
    injection H as <-. cbn [holes_of] in Hj. apply in_app_or in Hj as [Hj|Hj];
      [apply (leaf_sub s t1); [intros; cbn [holes_of]; now apply in_app_l | exact (IH _ _ _ _ _ A j Hj)]
      | apply (leaf_sub s t2); [intros; cbn [holes_of]; now apply in_app_r | exact (IH _ _ _ _ _ B j Hj)]].
  - (* if *)
    destruct (sshiftB f s t1 c k) as [[a'|]|] eqn:A; try discriminate; destruct (sshiftB f s t2 c k) as [[b'|]|] eqn:B; try discriminate;
      destruct (sshiftB f s t3 c k) as [[e'|]|] eqn:E; try discriminate.
    injection H as <-. cbn [holes_of] in Hj. apply in_app_or in Hj as [Hj|Hj]; [|apply in_app_or in Hj as [Hj|Hj]].
    + apply (leaf_sub s t1); [intros; cbn [holes_of]; now apply in_app_l | exact (IH _ _ _ _ _ A j Hj)].
    + apply (leaf_sub s t2); [intros; cbn [holes_of]; now apply in_app_r, in_app_l | exact (IH _ _ _ _ _ B j Hj)].
    + apply (leaf_sub s t3); [intros; cbn [holes_of]; now apply in_app_r, in_app_r | exact (IH _ _ _ _ _ E j Hj)].
Qed.

Lemma leaf_split s t a b j : (forall i, In i (holes_of t) -> In i (holes_of a) \/ In i (holes_of b)) ->
  leaf s t j -> leaf s a j \/ leaf s b j.
Proof.
  intros H L. inversion L; subst.
  - destruct (H _ H0); [left | right]; now apply leaf_here.
  - destruct (H _ H0); [left | right]; eapply leaf_via; eauto.
Qed.

(* the occurs check: a negative answer means the cell is not among the unsolved cells reachable from the term *)
Lemma occursB_sound : forall f s id t, occursB f s id t = Some false -> ~ leaf s t id.
Proof.
  induction f as [|f IH]; intros s id t H L; [discriminate|].
  destruct t; cbn [occursB] in H; cbv zeta in H.
  - (* hole *)
    inversion L; subst; cbn [holes_of] in *.
    + destruct H0 as [<-|[]]. rewrite H1 in H. injection H as H. apply Nat.eqb_neq in H. congruence.
    + destruct H0 as [<-|[]]. rewrite H1 in H. exact (IH _ _ _ H H2).
  - inversion L; subst; contradiction.
  - inversion L; subst; contradiction.
  - inversion L; subst; contradiction.
  - inversion L; subst; contradiction.
  - inversion L; subst; contradiction.
  - inversion L; subst; contradiction.
  - inversion L; subst; contradiction.
  - (* lam *)
    destruct (occursB f s id t1) as [[|]|] eqn:A; try discriminate.
    destruct (leaf_split s (TLam impl t1 t2) t1 t2 id (fun i Hi => in_app_or _ _ _ Hi) L) as [L1|L2]; [exact (IH _ _ _ A L1) | exact (IH _ _ _ H L2)].
  - destruct (occursB f s id t1) as [[|]|] eqn:A; try discriminate.
    destruct (leaf_split s (TPi impl t1 t2) t1 t2 id (fun i Hi => in_app_or _ _ _ Hi) L) as [L1|L2]; [exact (IH _ _ _ A L1) | exact (IH _ _ _ H L2)].
  - destruct (occursB f s id t1) as [[|]|] eqn:A; try discriminate.
    destruct (leaf_split s (TApp t1 t2) t1 t2 id (fun i Hi => in_app_or _ _ _ Hi) L) as [L1|L2]; [exact (IH _ _ _ A L1) | exact (IH _ _ _ H L2)].
  - (* let *)
    pose (go := fix go (l : list (term * term)) : option bool :=
             match l with [] => Some false
             | (a, d) :: r => u <- occursB f s id a ;; if u then Some true else (v <- occursB f s id d ;; if v then Some true else go r) end).
    assert (G : forall l, go l = Some false -> forall p, In p l -> ~ leaf s (fst p) id /\ ~ leaf s (snd p) id).
    { induction l as [|[a d] r IHl]; intros Hg p Hp; [contradiction|]. cbn in Hg.
      destruct (occursB f s id a) as [[|]|] eqn:A; try discriminate. destruct (occursB f s id d) as [[|]|] eqn:Dd; try discriminate.
      destruct Hp as [<-|Hp]; [split; cbn [fst snd]; [exact (IH _ _ _ A) | exact (IH _ _ _ Dd)] | exact (IHl Hg p Hp)]. }
    change ((fix go (l : list (term * term)) : option bool := _) defs) with (go defs) in H.
    destruct (go defs) as [[|]|] eqn:Gd; try discriminate.
    inversion L; subst; cbn [holes_of] in *.
    + apply in_app_or in H0 as [H0|H0].
      * apply in_flat_map in H0 as (p & Hp & Hi). destruct (G defs Gd p Hp) as [Na Nd].
        apply in_app_or in Hi as [Hi|Hi]; [apply Na | apply Nd]; now apply leaf_here.
      * apply (IH _ _ _ H). now apply leaf_here.
    + apply in_app_or in H0 as [H0|H0].
      * apply in_flat_map in H0 as (p & Hp & Hi). destruct (G defs Gd p Hp) as [Na Nd].
        apply in_app_or in Hi as [Hi|Hi]; [apply Na | apply Nd]; eapply leaf_via; eauto.
      * apply (IH _ _ _ H). eapply leaf_via; eauto.
  - (* neg *) apply (IH _ _ _ H). eapply leaf_sub; [|exact L]. auto.
  - (* bin *)
    destruct (occursB f s id t1) as [[|]|] eqn:A; try discriminate.
    destruct (leaf_split s (TBin o t1 t2) t1 t2 id (fun i Hi => in_app_or _ _ _ Hi) L) as [L1|L2]; [exact (IH _ _ _ A L1) | exact (IH _ _ _ H L2)].
  - (* if *)
    destruct (occursB f s id t1) as [[|]|] eqn:A; try discriminate. destruct (occursB f s id t2) as [[|]|] eqn:B; try discriminate.
    inversion L as [? ? Hin Hn | ? i0 sol ? Hin Hs Hl]; subst; cbn [holes_of] in Hin;
      (apply in_app_or in Hin as [Hin|Hin]; [|apply in_app_or in Hin as [Hin|Hin]]).
    + apply (IH _ _ _ A). now apply leaf_here.
    + apply (IH _ _ _ B). now apply leaf_here.
    + apply (IH _ _ _ H). now apply leaf_here.
    + apply (IH _ _ _ A). eapply leaf_via; eauto.
    + apply (IH _ _ _ B). eapply leaf_via; eauto.
    + apply (IH _ _ _ H). eapply leaf_via; eauto.
Qed.

(* ---------- assigning an unsolved cell a solution without solved cells and without the cell itself ---------- *)
Lemma sget_sset_same : forall s id t, id < length s -> sget (sset s id t) id = Some t.
Proof.
  unfold sget. induction s as [|x s IH]; intros [|id] t L; cbn in *; try lia; [reflexivity|]. apply IH. lia.
Qed.
Lemma sget_some_lt s id t : sget s id = Some t -> id < length s.
Proof. unfold sget. intros H. apply nth_error_Some. destruct (nth_error s id); [discriminate|discriminate]. Qed.

Lemma sset_acyclic s id sol : acyclic s -> sget s id = None -> unsolved_holes s sol -> ~ In id (holes_of sol) ->
  acyclic (sset s id sol).
Proof.
  intros AC Hn U Ni.
  set (s' := sset s id sol).
  assert (F2 : forall i j, i <> id -> edge s' i j -> edge s i j).
  { intros i j N (so & G & I). unfold s' in G. rewrite sget_sset_other in G by exact N. exists so. auto. }
  assert (F1 : forall j, edge s' id j -> sget s j = None /\ j <> id).
  { intros j (so & G & I). unfold s' in G.
    destruct (Nat.lt_ge_cases id (length s)) as [L|L].
    - rewrite sget_sset_same in G by exact L. injection G as <-. split; [now apply U | intros ->; contradiction].
    - assert (sget (sset s id sol) id = None).
      { unfold sget. rewrite (proj2 (nth_error_None _ _)); [reflexivity|]. rewrite sset_length. exact L. }
      congruence. }
  assert (DEAD : forall j k, sget s j = None -> j <> id -> ~ edge s' j k).
  { intros j k Hj N E. apply (F2 _ _ N) in E. destruct E as (so & G & _). congruence. }
  assert (FROM_ID : forall k, clos_trans_1n nat (edge s') id k -> sget s k = None /\ k <> id).
  { intros k P. inversion P as [? E | y ? E P']; subst; [exact (F1 _ E)|].
    destruct (F1 _ E) as [Hy Ny]. exfalso. inversion P' as [? E' | ? ? E' _]; subst; exact (DEAD _ _ Hy Ny E'). }
  assert (Q : forall i k, clos_trans_1n nat (edge s') i k -> i <> id -> clos_trans nat (edge s) i k \/ (sget s k = None /\ k <> id)).
  { induction 1 as [i k E | i y k E P IHP]; intros N.
    - left. apply t_step. exact (F2 _ _ N E).
    - destruct (Nat.eq_dec y id) as [->|Ny]; [right; exact (FROM_ID _ P)|].
      destruct (IHP Ny) as [T|D]; [left; eapply t_trans; [apply t_step; exact (F2 _ _ N E) | exact T] | right; exact D]. }
  intros i C. apply clos_trans_t1n in C.
  destruct (Nat.eq_dec i id) as [->|N].
  - destruct (FROM_ID _ C) as [_ X]. congruence.
  - destruct (Q _ _ C N) as [T|[D _]]; [exact (AC _ T)|].
    inversion C as [? E | y ? E _]; subst; exact (DEAD _ _ D N E).
Qed.

(* allocation of fresh cells adds no edge *)
Lemma grow_acyclic s s' : grow s s' -> acyclic s -> acyclic s'.
Proof.
  intros G AC i C. apply (AC i). clear AC.
  assert (T : forall a b, clos_trans nat (edge s') a b -> clos_trans nat (edge s) a b).
  { induction 1 as [a b (so & Gs & I) | a b c _ IH1 _ IH2].
    - apply t_step. exists so. pose proof (grow_sget s s' a G) as E. split; [congruence | exact I].
    - eapply t_trans; eauto. }
  exact (T _ _ C).
Qed.

(* ---------- unification keeps the store acyclic ---------- *)
Ltac ih_acyc IH :=
  repeat match goal with
  | E : unifyB _ ?x _ _ _ = Some (_, ?y) |- _ =>
      lazymatch goal with
      | _ : acyclic x -> acyclic y |- _ => fail
      | _ => pose proof (IH _ _ _ _ _ _ E)
      end
  end.

Lemma solve_acyclic f s2 id other sh sol :
  acyclic s2 -> sget s2 id = None ->
  sshiftB f s2 other 0 sh = Some (Some sol) -> occursB f s2 id other = Some false ->
  acyclic (sset s2 id sol).
Proof.
  intros AC Hn Hs Ho. apply sset_acyclic; [exact AC | exact Hn | |].
  - intros j Hj. exact (leaf_none _ _ _ (sshiftB_leaves _ _ _ _ _ _ Hs j Hj)).
  - intros Hi. exact (occursB_sound _ _ _ _ Ho (sshiftB_leaves _ _ _ _ _ _ Hs id Hi)).
Qed.

Theorem unifyB_acyclic : forall f s D a b ok s', unifyB f s D a b = Some (ok, s') -> acyclic s -> acyclic s'.
Proof.
  induction f as [|f IH]; intros s D a b ok s' H AC; [discriminate|].
  (* unfold one layer through the equations of ModelBEq.v: unfolding unifyB itself costs the kernel minutes *)
  rewrite unifyB_S in H. unfold unify_body in H.
  destruct (syn_eqB f s a b) as [[|]|]; [injection H as _ <-; exact AC | | discriminate].
  destruct (whnfB f s D a) as [[w1 s1]|] eqn:W1; [|discriminate].
  destruct (whnfB f s1 D b) as [[w2 s2]|] eqn:W2; [|discriminate].
  pose proof (whnfB_grow _ _ _ _ _ _ W1) as G1. pose proof (whnfB_grow _ _ _ _ _ _ W2) as G2.
  assert (AC2 : acyclic s2) by (eapply grow_acyclic; [exact G2|]; eapply grow_acyclic; [exact G1 | exact AC]).
  assert (U1 : forall id sh, w1 = THole id sh -> sget s2 id = None).
  { intros id sh ->. rewrite (grow_sget _ _ _ G2). eapply whnfB_hole_unsolved; eauto. }
  assert (U2 : forall id sh, w2 = THole id sh -> sget s2 id = None).
  { intros id sh ->. eapply whnfB_hole_unsolved; eauto. }
  clear W1 W2 G1 G2 AC.
  destruct w1, w2; cbv beta iota zeta delta [unify_head] in H;
    break_match H; try discriminate H; try (injection H as _ <-); ih_acyc IH;
    try exact AC2;
    try (eapply solve_acyclic; [exact AC2 | first [eapply U1; reflexivity | eapply U2; reflexivity] | eassumption | eassumption]);
    eauto 7.
Qed.

