(* REGRESSION documenting a defect of the definitional equality as FIRST written (now repaired in
   Spec/Typing.v).  `conv_old` below is a local copy of the old relation: identical to `conv` except for
   the group congruence, which compared the definitions and bodies of two groups in the context
   `enter ds G`, where the variables of the group ALREADY carry their definitions.  Then r_delta can be
   run backwards inside the definitions being compared:
        (x : A = v; x)  ~  (x : A = x; x)      for every v,
   the right-hand side does not depend on v, and conv_old is the TOTAL relation (conv_old_total).
   The repaired `conv` (group variables opaque: enter_o) does not relate TInt and TBool
   (conv_new_separates, from Proofs/ConvConsistent.v). *)
From Coq Require Import List ZArith Lia Bool Arith Relations.
Import ListNotations.
Require Import Gram.Model.Term Gram.Model.DeBruijn Gram.Model.Eval Gram.Spec.Cbv Gram.Spec.Typing
  Gram.Proofs.DeBruijnLaws Gram.Proofs.ConvConsistent.

Inductive conv_old (G : ctx) : term -> term -> Prop :=
| co_red a b : red G a b -> conv_old G a b
| co_refl a : conv_old G a a
| co_sym a b : conv_old G a b -> conv_old G b a
| co_trans a b c : conv_old G a b -> conv_old G b c -> conv_old G a c
| co_lam im d d' b b' : conv_old (bind G d) b b' -> conv_old G (TLam im d b) (TLam im d' b')
| co_pi im d d' b b' : conv_old G d d' -> conv_old (bind G d) b b' -> conv_old G (TPi im d b) (TPi im d' b')
| co_app f f' a a' : conv_old G f f' -> conv_old G a a' -> conv_old G (TApp f a) (TApp f' a')
| co_neg a a' : conv_old G a a' -> conv_old G (TNeg a) (TNeg a')
| co_bin o a a' b b' : conv_old G a a' -> conv_old G b b' -> conv_old G (TBin o a b) (TBin o a' b')
| co_if c c' a a' b b' : conv_old G c c' -> conv_old G a a' -> conv_old G b b' -> conv_old G (TIf c a b) (TIf c' a' b')
| co_let ds ds' b b' :                                   (* the OLD rule: definitions visible (enter, not enter_o) *)
    Forall2 (fun p q => conv_old (enter ds G) (fst p) (fst q) /\ conv_old (enter ds G) (snd p) (snd q)) ds ds' ->
    conv_old (enter ds G) b b' -> conv_old G (TLet ds b) (TLet ds' b').

Lemma open_idx_up_cancel s i : open_idx (up_idx s i 1) i = s.
Proof.
  unfold open_idx, up_idx. destruct (Nat.leb_spec i s).
  - destruct (Nat.ltb_spec i (s + 1)); lia.
  - destruct (Nat.ltb_spec i s); lia.
Qed.

(* holds for ALL terms (holes included) *)
Lemma open_ushift_cancel_all : forall t i s k, open (ushift t i 1) i s k = t.
Proof.
  induction t using term_ind'; intros i0 s0 k0; cbn [ushift open]; rewrite ?open_idx_up_cancel; try reflexivity;
    try (f_equal; auto; fail).
  - destruct (Nat.eqb_spec (up_idx i i0 1) i0) as [E|E].
    + exfalso. unfold up_idx in E. destruct (Nat.leb_spec i0 i); lia.
    + reflexivity.
  - rewrite !map_length, map_map. f_equal; [|apply IHt].
    apply map_id'. eapply Forall_impl; [|exact H]. intros [a d] [Ha Hd]; cbn [fst snd] in *.
    now rewrite Ha, Hd.
Qed.

(* every term is convertible to the one-definition group  x : A = x; x  *)
Definition omega_group (A : term) : term := TLet [(A, TVar 0)] (TVar 0).

Lemma conv_old_omega G A v : conv_old G v (omega_group A).
Proof.
  unfold omega_group.
  apply co_trans with (TLet [(A, ushift v 0 1)] (TVar 0)).
  - apply co_sym. eapply co_trans; [apply co_red, r_let|].
    unfold let_whnf_body. cbn [length let_subst nth_error]. cbn [Nat.sub].
    cbn [open Nat.eqb]. unfold unfold_def, unfold_first.
    rewrite open_ushift_cancel_all, ushift_zero. apply co_refl.
  - apply co_let.
    + constructor; [|constructor]. cbn [fst snd]. split; [apply co_refl|].
      apply co_sym, co_red, r_delta. unfold enter, lookup_def. cbn [length push_group nth_error Nat.sub Nat.add].
      now rewrite ushift_zero.
    + apply co_refl.
Qed.

Theorem conv_old_total : forall G a b, conv_old G a b.
Proof. intros G a b. eapply co_trans; [apply (conv_old_omega G TType a) | apply co_sym, conv_old_omega]. Qed.

Corollary conv_old_int_bool : conv_old [] TInt TBool.            Proof. apply conv_old_total. Qed.
Corollary conv_old_lit_lit : conv_old [] (TLit 5) (TLit 6).      Proof. apply conv_old_total. Qed.
Corollary conv_old_true_false : conv_old [] TTrue TFalse.        Proof. apply conv_old_total. Qed.

(* a typing relation whose conversion rule uses conv_old types every typable term at every type; e.g. the
   closed stuck program  if 5 then true else false  (not a value, no step, stuck_reason NotABoolean)
   would be typable, because  TLit 5 : TInt  and  conv_old [] TInt TBool *)
Definition bad_prog : term := TIf (TLit 5) TTrue TFalse.
Example bad_prog_stuck :
  is_value bad_prog = false /\ step bad_prog = None /\ stuck_reason bad_prog = Some NotABoolean.
Proof. repeat split; reflexivity. Qed.

(* the repaired relation separates what the old one identified; and the old derivation is not available:
   with the group's variables opaque the variable x has no definition inside the group being compared *)
Example conv_new_separates : ~ conv [] TInt TBool /\ ~ conv [] TTrue TFalse /\ (forall x y, conv [] (TLit x) (TLit y) -> x = y).
Proof. repeat split; [apply conv_nil_int_bool | apply conv_nil_true_false | apply conv_nil_lit_inj]. Qed.
Lemma if_cond_typed G c a b T : has_type G (TIf c a b) T -> has_type G c TBool.
Proof.
  intros H. remember (TIf c a b) as t eqn:E. induction H; try discriminate; auto.
  injection E as -> -> ->. assumption.
Qed.
Example bad_prog_untypable : forall T, ~ has_type [] bad_prog T.
Proof.
  intros T H. apply if_cond_typed in H. apply naturalG_gen in H. cbn [naturalG] in H.
  now apply conv_nil_int_bool in H.
Qed.
Example opaque_no_delta : lookup_def (enter_o [(TInt, TLit 5)] []) 0 = None /\ lookup_def (enter [(TInt, TLit 5)] []) 0 = Some (TLit 5).
Proof. split; reflexivity. Qed.

Print Assumptions conv_old_total.
Print Assumptions conv_new_separates.
Print Assumptions bad_prog_untypable.
