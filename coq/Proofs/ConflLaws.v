(* de Bruijn laws needed by the confluence proof (hole-free terms): shifting below an opened variable,
   opening a shifted term, and the commutation of two openings. *)
From Coq Require Import List ZArith Lia Bool Arith.
Import ListNotations.
Require Import Gram.Model.Term Gram.Model.DeBruijn Gram.Model.Eval Gram.Spec.Typing
  Gram.Proofs.DeBruijnLaws Gram.Proofs.CtxProofs Gram.Proofs.WeakenProofs.

Ltac split_hf :=
  repeat match goal with
  | H : hole_free (_ _) = true |- _ => progress cbn [hole_free] in H
  | H : _ && _ = true |- _ => apply andb_prop in H; destruct H
  end.

Ltac idx_cases :=
  repeat match goal with
  | |- context[Nat.leb ?x ?y] => destruct (Nat.leb_spec x y)
  | |- context[Nat.ltb ?x ?y] => destruct (Nat.ltb_spec x y)
  | |- context[Nat.eqb ?x ?y] => destruct (Nat.eqb_spec x y)
  end.

(* a map over the definitions of a group, pointwise equal on hole-free components *)
Lemma map_defs_ext (f g : term -> term) (ds : list (term * term)) :
  Forall (fun p => (hole_free (fst p) = true -> f (fst p) = g (fst p)) /\
                   (hole_free (snd p) = true -> f (snd p) = g (snd p))) ds ->
  forallb (fun p => let '(a, d) := p in hole_free a && hole_free d) ds = true ->
  map (fun p : term * term => let '(a, d) := p in (f a, f d)) ds =
  map (fun p : term * term => let '(a, d) := p in (g a, g d)) ds.
Proof.
  induction 1 as [|[a d] r [Ha Hd] _ IH]; cbn [forallb map]; intros F; [reflexivity|].
  apply andb_prop in F as [F1 F2]. apply andb_prop in F1 as [Fa Fd]. cbn [fst snd] in *.
  rewrite Ha, Hd, IH; auto.
Qed.

Lemma map_defs_map (f g : term -> term) (ds : list (term * term)) :
  map (fun p : term * term => let '(a, d) := p in (g a, g d))
      (map (fun p : term * term => let '(a, d) := p in (f a, f d)) ds) =
  map (fun p : term * term => let '(a, d) := p in (g (f a), g (f d))) ds.
Proof. rewrite map_map. apply map_ext. intros [a d]. reflexivity. Qed.

(* ---------- shifting below the opened variable ---------- *)
Theorem ushift_open_below : forall t i s k c n, hole_free t = true -> c <= i -> c <= k ->
  ushift (open t i s k) c n = open (ushift t c n) (i + n) s (k + n).
Proof.
  induction t using term_ind'; intros i0 s0 k0 c n Hf Hi Hk; cbn [hole_free] in Hf; try discriminate Hf;
    cbn [open ushift]; try reflexivity; split_hf.
  - (* var *)
    destruct (Nat.eqb_spec i i0) as [->|Hne].
    + replace (up_idx i0 c n) with (i0 + n) by (unfold up_idx; idx_cases; lia).
      rewrite Nat.eqb_refl. apply ushift_merge; lia.
    + destruct (Nat.eqb_spec (up_idx i c n) (i0 + n)) as [E|E].
      * exfalso. unfold up_idx in E. destruct (Nat.leb_spec c i); lia.
      * cbn [ushift]. f_equal. unfold up_idx, open_idx. idx_cases; lia.
  - f_equal; [apply IHt1; auto|]. apply (IHt2 (S i0) s0 (S k0) (S c) n); auto; lia.
  - f_equal; [apply IHt1; auto|]. apply (IHt2 (S i0) s0 (S k0) (S c) n); auto; lia.
  - f_equal; [apply IHt1 | apply IHt2]; auto.
  - rewrite !map_length, !map_defs_map.
    replace (length ds + (i0 + n)) with ((length ds + i0) + n) by lia.
    replace (length ds + (k0 + n)) with ((length ds + k0) + n) by lia.
    f_equal; [|apply IHt; auto; lia].
    apply map_defs_ext; auto. eapply Forall_impl; [|exact H]. intros [x y] [Hx Hy]; cbn [fst snd] in *.
    split; intros; [apply Hx | apply Hy]; auto; lia.
  - f_equal; apply IHt; auto.
  - f_equal; [apply IHt1 | apply IHt2]; auto.
  - f_equal; [apply IHt1 | apply IHt2 | apply IHt3]; auto.
Qed.

(* ---------- opening a term that was shifted over the opened variable ---------- *)
Theorem open_ushift_cancel_gen : forall t c m j y l, hole_free t = true -> c <= j -> j <= c + m ->
  open (ushift t c (S m)) j y l = ushift t c m.
Proof.
  induction t using term_ind'; intros c m j y l Hf H1 H2; cbn [hole_free] in Hf; try discriminate Hf;
    cbn [open ushift]; try reflexivity; split_hf.
  - destruct (Nat.eqb_spec (up_idx i c (S m)) j) as [E|E].
    + exfalso. unfold up_idx in E. destruct (Nat.leb_spec c i); lia.
    + f_equal. unfold up_idx, open_idx. idx_cases; lia.
  - f_equal; [apply IHt1 | apply IHt2]; auto; lia.
  - f_equal; [apply IHt1 | apply IHt2]; auto; lia.
  - f_equal; [apply IHt1 | apply IHt2]; auto.
  - rewrite !map_length, !map_defs_map.
    f_equal; [|apply IHt; auto; lia].
    apply map_defs_ext; auto. eapply Forall_impl; [|exact H]. intros [x z] [Hx Hz]; cbn [fst snd] in *.
    split; intros; [apply Hx | apply Hz]; auto; lia.
  - f_equal; apply IHt; auto.
  - f_equal; [apply IHt1 | apply IHt2]; auto.
  - f_equal; [apply IHt1 | apply IHt2 | apply IHt3]; auto.
Qed.

(* ---------- two openings commute ---------- *)
Theorem open_open : forall t j x m i s k, hole_free t = true -> hole_free x = true -> hole_free s = true ->
  j <= i + m -> j <= k + m ->
  open (open t j x m) (i + m) s (k + m) = open (open t (S (i + m)) s (S (k + m))) j (open x i s k) m.
Proof.
  induction t using term_ind'; intros j x m i0 s0 k0 Hf Hx Hs H1 H2; cbn [hole_free] in Hf; try discriminate Hf;
    cbn [open]; try reflexivity; split_hf.
  - (* var *)
    destruct (Nat.eqb_spec i j) as [->|Hne].
    + destruct (Nat.eqb_spec j (S (i0 + m))); [lia|].
      replace (open_idx j (S (i0 + m))) with j by (unfold open_idx; idx_cases; lia).
      cbn [open]. rewrite Nat.eqb_refl.
      rewrite (ushift_open_below x i0 s0 k0 0 m) by (auto; lia). reflexivity.
    + destruct (Nat.eqb_spec i (S (i0 + m))) as [->|Hne2].
      * replace (open_idx (S (i0 + m)) j) with (i0 + m) by (unfold open_idx; idx_cases; lia).
        cbn [open]. rewrite Nat.eqb_refl.
        symmetry. apply open_ushift_cancel_gen; auto; lia.
      * cbn [open].
        destruct (Nat.eqb_spec (open_idx i j) (i0 + m)) as [E|E];
          [exfalso; unfold open_idx in E; destruct (Nat.ltb_spec j i); lia|].
        destruct (Nat.eqb_spec (open_idx i (S (i0 + m))) j) as [E'|E'];
          [exfalso; unfold open_idx in E'; destruct (Nat.ltb_spec (S (i0 + m)) i); lia|].
        f_equal. unfold open_idx. idx_cases; lia.
  - f_equal; [apply IHt1; auto|].
    pose proof (IHt2 (S j) x (S m) i0 s0 k0) as E. rewrite <- !plus_n_Sm in E. apply E; auto; lia.
  - f_equal; [apply IHt1; auto|].
    pose proof (IHt2 (S j) x (S m) i0 s0 k0) as E. rewrite <- !plus_n_Sm in E. apply E; auto; lia.
  - f_equal; [apply IHt1 | apply IHt2]; auto.
  - rewrite !map_length, !map_defs_map.
    replace (length ds + (i0 + m)) with (i0 + (length ds + m)) by lia.
    replace (length ds + (k0 + m)) with (k0 + (length ds + m)) by lia.
    replace (length ds + S (i0 + m)) with (S (i0 + (length ds + m))) by lia.
    replace (length ds + S (k0 + m)) with (S (k0 + (length ds + m))) by lia.
    f_equal; [|apply IHt; auto; lia].
    apply map_defs_ext; auto. eapply Forall_impl; [|exact H]. intros [y z] [Hy Hz]; cbn [fst snd] in *.
    split; intros; [apply Hy | apply Hz]; auto; lia.
  - f_equal; apply IHt; auto.
  - f_equal; [apply IHt1 | apply IHt2]; auto.
  - f_equal; [apply IHt1 | apply IHt2 | apply IHt3]; auto.
Qed.

Corollary open_open0 t x i s k : hole_free t = true -> hole_free x = true -> hole_free s = true ->
  open (open t 0 x 0) i s k = open (open t (S i) s (S k)) 0 (open x i s k) 0.
Proof.
  intros. pose proof (open_open t 0 x 0 i s k) as E. rewrite !Nat.add_0_r in E. apply E; auto; lia.
Qed.

(* ---------- opening commutes with the group operations ---------- *)
Definition opp (i : nat) (s : term) (k : nat) (p : term * term) : term * term :=
  let '(a, d) := p in (open a i s k, open d i s k).

Lemma unfold_first_open ann d idx i s k : hole_free ann = true -> hole_free d = true -> hole_free s = true ->
  unfold_first (open ann (S (idx + i)) s (S (idx + k))) (open d (S (idx + i)) s (S (idx + k))) idx =
  open (unfold_first ann d idx) (idx + i) s (idx + k).
Proof.
  intros Fa Fd Fs. unfold unfold_first.
  assert (Fa1 : hole_free (open (ushift ann 0 1) (S idx) (TVar 0) 0) = true)
    by (apply hole_free_open; auto using hole_free_ushift).
  assert (Fd1 : hole_free (open (ushift d 0 1) (S idx) (TVar 0) 0) = true)
    by (apply hole_free_open; auto using hole_free_ushift).
  pose proof (open_open d idx
    (TLet [(open (ushift ann 0 1) (S idx) (TVar 0) 0, open (ushift d 0 1) (S idx) (TVar 0) 0)] (TVar 0))
    0 (idx + i) s (idx + k)) as E.
  rewrite !Nat.add_0_r in E. rewrite E; clear E;
    [| assumption | cbn [hole_free forallb]; now rewrite Fa1, Fd1 | assumption | lia | lia].
  f_equal. cbn [open length map Nat.add].
  assert (Ev : forall j, open (TVar 0) (S j) s (S (idx + k)) = TVar 0) by (intros; reflexivity).
  f_equal.
  assert (K : forall t, hole_free t = true ->
    open (ushift (open t (S (idx + i)) s (S (idx + k))) 0 1) (S idx) (TVar 0) 0 =
    open (open (ushift t 0 1) (S idx) (TVar 0) 0) (S (idx + i)) s (S (idx + k))).
  { intros t Ft.
    pose proof (open_open (ushift t 0 1) (S idx) (TVar 0) 0 (S (idx + i)) s (S (idx + k))) as E.
    rewrite !Nat.add_0_r in E. rewrite E; clear E; auto using hole_free_ushift; try lia.
    cbn [open Nat.eqb]. unfold open_idx. cbn [Nat.ltb Nat.leb].
    f_equal. rewrite (ushift_open_below t (S (idx + i)) s (S (idx + k)) 0 1) by (auto; lia).
    f_equal; lia. }
  rewrite (K ann Fa), (K d Fd). reflexivity.
Qed.

Lemma nth_error_open_from' : forall ds j0 i idx u j,
  nth_error (open_from j0 i idx u ds) j =
  option_map (fun p => if Nat.ltb (j0 + j) i then p else opp idx u 0 p) (nth_error ds j).
Proof. intros. rewrite nth_error_open_from. reflexivity. Qed.

Lemma let_subst_open : forall k n i ds ds' body io s ko,
  length ds = n -> length ds' = n ->
  (forall j, i <= j -> nth_error ds' j = option_map (opp ((n - i) + io) s ((n - i) + ko)) (nth_error ds j)) ->
  hf_defs ds = true -> hole_free body = true -> hole_free s = true ->
  let_subst k n i ds' (open body ((n - i) + io) s ((n - i) + ko)) =
  open (let_subst k n i ds body) ((n - i - k) + io) s ((n - i - k) + ko).
Proof.
  induction k as [|k IH]; intros n i ds ds' body io s ko L1 L2 Hn Hd Hb Hs; cbn [let_subst].
  - now rewrite Nat.sub_0_r.
  - rewrite (Hn i (le_n i)). destruct (nth_error ds i) as [[ann def]|] eqn:E; cbn [option_map opp].
    + assert (Hi : i < n) by (rewrite <- L1; apply nth_error_Some; congruence).
      destruct (hf_defs_In _ _ _ Hd (nth_error_In _ _ E)) as [Fa Fd].
      set (idx := n - 1 - i). replace (n - i) with (S idx) in * by lia. unfold unfold_def.
      cbn [Nat.add]. rewrite (unfold_first_open ann def idx io s ko Fa Fd Hs).
      set (u := unfold_first ann def idx).
      assert (Hu : hole_free u = true) by (apply hole_free_unfold_first; auto).
      assert (OO : forall t, hole_free t = true ->
        open (open t (S (idx + io)) s (S (idx + ko))) idx (open u (idx + io) s (idx + ko)) 0 =
        open (open t idx u 0) (idx + io) s (idx + ko)).
      { intros t Ft. pose proof (open_open t idx u 0 (idx + io) s (idx + ko)) as K.
        rewrite !Nat.add_0_r in K. symmetry. apply K; auto; lia. }
      rewrite (OO body Hb).
      assert (Eidx : n - S i = idx) by lia.
      pose proof (IH n (S i) (open_from 0 i idx u ds)
                    (open_from 0 i idx (open u (idx + io) s (idx + ko)) ds')
                    (open body idx u 0) io s ko) as K.
      rewrite Eidx in K. cbn [Nat.sub]. apply K; clear K; auto.
      * now rewrite open_from_length.
      * now rewrite open_from_length.
      * intros j Hj. rewrite !nth_error_open_from'. cbn [Nat.add].
        destruct (Nat.ltb_spec j i); [lia|]. rewrite (Hn j) by lia.
        destruct (nth_error ds j) as [[a d]|] eqn:Ej; cbn [option_map opp Nat.add]; [|reflexivity].
        destruct (hf_defs_In _ _ _ Hd (nth_error_In _ _ Ej)) as [Fa' Fd'].
        now rewrite (OO a Fa'), (OO d Fd').
      * apply hf_defs_open_from; auto.
      * apply hole_free_open; auto.
    + assert (Hi : n <= i) by (rewrite <- L1; apply nth_error_None; exact E).
      replace (n - i) with 0 by lia. reflexivity.
Qed.

Theorem let_whnf_body_open ds b i s k : hf_defs ds = true -> hole_free b = true -> hole_free s = true ->
  let_whnf_body (map (opp (length ds + i) s (length ds + k)) ds) (open b (length ds + i) s (length ds + k)) =
  open (let_whnf_body ds b) i s k.
Proof.
  intros Hd Hb Hs. unfold let_whnf_body. rewrite map_length.
  pose proof (let_subst_open (length ds) (length ds) 0 ds (map (opp (length ds + i) s (length ds + k)) ds) b i s k) as K.
  rewrite Nat.sub_0_r, Nat.sub_diag in K. apply K; auto using map_length.
  intros j _. apply nth_error_map.
Qed.

Print Assumptions open_open.
Print Assumptions let_whnf_body_open.
