(* C17 / C14: the packrat parser model terminates within its fuel and executes the body of each parse
   function at most once per (nonterminal, position).
   Ingredients: (1) a rank on nonterminals under which every call made at the caller's own start
   position goes to a strictly smaller rank (a closed obligation on the GENERATED skeleton: no left
   recursion); (2) every result ends at or after its start and inside the token list, and a
   successful result consumes at least one token; (3) a call only adds memo entries of smaller or
   equal measure, so the entry of a function in progress is still absent when it is stored, which
   makes the number of misses at most the number of stored keys; (4) keys are bounded by the
   36 nonterminals times the ntoks+1 positions. *)
From Coq Require Import List ZArith NArith Lia Bool Arith PArith FMapPositive FMapFacts.
Import ListNotations.
Require Import Gram.Model.Term Gram.Model.Token Gram.Model.Grammar Gram.Gen.ParserSkeleton Gram.Model.Parser Gram.Model.ParserPost Gram.Proofs.ParserProofs.

Module PMP := FMapFacts.WProperties_fun PositiveMap.E PositiveMap.

(* ---------- the rank: calls at the caller's start position go down ---------- *)
Definition rank (n : nt) : nat :=
  match n with
  | Term => 12 | JumboTerm => 11 | GiantTerm => 10
  | LessThan | LessThanOrEqualTo | EqualTo | GreaterThan | GreaterThanOrEqualTo => 9
  | HugeTerm => 8 | Sum | Difference => 7 | LargeTerm => 6 | MediumTerm => 5
  | Product | Quotient | NonDependentPi => 4 | SmallTerm => 3 | Application => 2 | Atom => 1
  | _ => 0
  end.
Definition max_rank : nat := 12.
Lemma rank_le n : rank n <= max_rank.
Proof. destruct n; cbn; unfold max_rank; lia. Qed.

Definition head_ok (n : nt) : bool :=
  match skel_fast n with
  | FChoice alts => forallb (fun a => Nat.ltb (rank a) (rank n)) alts
  | FSeq (SConsume _ :: _) => true
  | FSeq (STry m :: _) => Nat.ltb (rank m) (rank n)
  | FSeq _ => false
  | FSpecial => match n with Let | If | Group => true | _ => false end
  end.
Theorem no_left_recursion : forallb head_ok all_nts = true.
Proof. vm_compute. reflexivity. Qed.
Lemma head_ok_all n : head_ok n = true.
Proof. pose proof no_left_recursion as H. rewrite forallb_forall in H. apply H. destruct n; cbn; tauto. Qed.

Lemma memoised_fast_all n : memoised_fast n = true.
Proof. destruct n; vm_compute; reflexivity. Qed.

(* ---------- the token array ---------- *)
Lemma tokmap_of_spec toks p : PositiveMap.find (N.succ_pos p) (tokmap_of toks) = nth_error toks (N.to_nat p).
Proof.
  unfold tokmap_of.
  assert (G : forall l (base : N) m,
            (forall q, PositiveMap.find (N.succ_pos q) m = if (q <? base)%N then PositiveMap.find (N.succ_pos q) m else None) ->
            forall q, PositiveMap.find (N.succ_pos q) (snd (fold_left (fun (st : N * PositiveMap.t ptok) (t : ptok) =>
                         (N.succ (fst st), PositiveMap.add (N.succ_pos (fst st)) t (snd st))) l (base, m))) =
                      if (q <? base)%N then PositiveMap.find (N.succ_pos q) m else nth_error l (N.to_nat q - N.to_nat base)).
  { induction l as [|t l IH]; intros base m Hm q; cbn [fold_left fst snd].
    - rewrite Hm. destruct (q <? base)%N; [reflexivity|]. now destruct (N.to_nat q - N.to_nat base).
    - rewrite IH.
      + destruct (N.ltb_spec q (N.succ base)) as [L|L]; destruct (N.ltb_spec q base) as [L'|L']; try lia.
        * rewrite PositiveMap.gso; [reflexivity|]. intros E. apply (f_equal Pos.pred_N) in E. rewrite !N.pos_pred_succ in E. lia.
        * assert (q = base) by lia. subst q. rewrite PositiveMap.gss, Nat.sub_diag. reflexivity.
        * replace (N.to_nat q - N.to_nat base) with (S (N.to_nat q - N.to_nat (N.succ base))) by lia. reflexivity.
      + intros q'. destruct (N.ltb_spec q' (N.succ base)) as [L|L]; [reflexivity|].
        rewrite PositiveMap.gso; [|intros E; apply (f_equal Pos.pred_N) in E; rewrite !N.pos_pred_succ in E; lia].
        rewrite Hm. destruct (N.ltb_spec q' base); [lia|reflexivity]. }
  rewrite G.
  - destruct (N.ltb_spec p 0); [lia|]. cbn. rewrite Nat.sub_0_r. reflexivity.
  - intros q. destruct (N.ltb_spec q 0); [lia|]. apply PositiveMap.gempty.
Qed.

Section Packrat.
Variable use_memo : bool.
Variable toks : list ptok.
Let tokmap := tokmap_of toks.
Let ntoks := length toks.
Let last_tok := last_opt toks.
Let NT : N := N.of_nat ntoks.
Notation at' := (at_ tokmap).
Notation is' := (is tokmap).
Notation error_term' := (error_term tokmap last_tok).
Notation silent_error' := (silent_error tokmap last_tok).
Notation choose' := (choose tokmap last_tok).
Notation run' := (run tokmap last_tok).
Notation build' := (build tokmap last_tok).
Notation expect' := (expect tokmap ntoks).
Notation scan' := (scan tokmap).
Notation parse_let' := (parse_let tokmap ntoks last_tok).
Notation parse_if' := (parse_if tokmap ntoks last_tok).
Notation parse_group' := (parse_group tokmap ntoks last_tok).
Notation parse' := (parse use_memo tokmap ntoks last_tok).

Lemma at_some p t : at' p = Some t -> (p < NT)%N.
Proof.
  unfold at_, tokmap. rewrite tokmap_of_spec. intros H.
  assert (N.to_nat p < ntoks) by (apply nth_error_Some; congruence). unfold NT. lia.
Qed.
Lemma is_lt p k : is' p k = true -> (p < NT)%N.
Proof. unfold is. destruct (at' p) eqn:A; [intros _; eapply at_some; eauto | discriminate]. Qed.

(* scan: ends between its start and the end of the tokens *)
Lemma scan_range want : forall fuel p depth steps, (p <= NT)%N ->
  (p <= snd (fst (scan' fuel want p depth steps)) <= NT)%N.
Proof.
  induction fuel as [|f IH]; intros p depth steps H; cbn [scan]; [cbn; lia|].
  destruct (at' p) as [t|] eqn:A; [|cbn; lia]. apply at_some in A.
  assert (S1 : forall d st, (p <= snd (fst (scan' f want (N.succ p) d st)) <= NT)%N).
  { intros d st. specialize (IH (N.succ p) d st). lia. }
  destruct (want (pk t) && Nat.eqb depth 0); [cbn; lia|].
  destruct (pk t); try apply S1; destruct (Nat.eqb depth 0); try apply S1; cbn; lia.
Qed.

(* ---------- measure, results, table ---------- *)
Definition mu (n : nt) (p : N) : nat := (ntoks - N.to_nat p) * (S max_rank) + rank n.

Lemma mu_pos_lt n m p q : (p < q)%N -> (q <= NT)%N -> mu m q < mu n p.
Proof. intros L H. unfold mu, NT in *. pose proof (rank_le m). unfold max_rank in *. nia. Qed.
Lemma mu_rank_lt n m p : rank m < rank n -> mu m p < mu n p.
Proof. unfold mu. lia. Qed.

Definition Rok (p : N) (r : pres) : Prop :=
  match r with
  | PFuel => False
  | PRes t nx _ => (p <= nx <= NT)%N /\ (is_perror t = false -> (p < nx)%N)
  end.

Lemma key_inj n p m q : key n p = key m q -> n = m /\ p = q.
Proof.
  unfold key. intros H. apply (f_equal Pos.pred_N) in H. rewrite !N.pos_pred_succ in H.
  assert (nt_index n < 36 /\ nt_index m < 36) as [Hn Hm] by (split; [destruct n | destruct m]; cbn; lia).
  assert (p = q) by lia. subst q. split; [|reflexivity].
  assert (E : nt_index n = nt_index m) by lia. destruct n, m; try reflexivity; discriminate E.
Qed.

Definition TI (s : mstate) : Prop :=
  forall k r, PositiveMap.find k (tbl s) = Some r -> exists n p, k = key n p /\ (p <= NT)%N /\ Rok p r.

Definition card (s : mstate) : nat := PositiveMap.cardinal (tbl s).

(* what a call (n, p) may do to the state *)
Definition Frame (bound : nat) (s s' : mstate) : Prop :=
  forall m q, bound <= mu m q -> PositiveMap.find (key m q) (tbl s') = PositiveMap.find (key m q) (tbl s).
Definition Acc (s s' : mstate) : Prop := use_memo = true -> misses s' + card s <= misses s + card s'.

Definition Post (p : N) (bound : nat) (s : mstate) (out : pres * mstate) : Prop :=
  Rok p (fst out) /\ TI (snd out) /\ Frame bound s (snd out) /\ Acc s (snd out).
Definition Cok (p : N) (bound : nat) (x : M pres) : Prop := forall s, TI s -> Post p bound s (x s).

Lemma Frame_refl b s : Frame b s s.
Proof. intros m q _. reflexivity. Qed.
Lemma Frame_trans b s1 s2 s3 : Frame b s1 s2 -> Frame b s2 s3 -> Frame b s1 s3.
Proof. intros A B m q H. rewrite (B m q H). apply A; exact H. Qed.
Lemma Frame_weaken b b' s s' : b <= b' -> Frame b s s' -> Frame b' s s'.
Proof. intros L F m q H. apply F. lia. Qed.
Lemma Acc_refl s : Acc s s.
Proof. intros _. lia. Qed.
Lemma Acc_trans s1 s2 s3 : Acc s1 s2 -> Acc s2 s3 -> Acc s1 s3.
Proof. intros A B U. specialize (A U). specialize (B U). lia. Qed.

Lemma is_perror_error_term p : is_perror (error_term' p) = true.
Proof. unfold error_term. destruct (empty_range tokmap last_tok p). reflexivity. Qed.
Lemma is_perror_silent_error p : is_perror (silent_error' p) = true.
Proof. unfold silent_error. destruct (empty_range tokmap last_tok p). reflexivity. Qed.

Lemma Rok_error start p c : (start <= p <= NT)%N -> Rok start (PRes (error_term' p) p c).
Proof. intros H. cbn. split; [lia|]. rewrite is_perror_error_term. discriminate. Qed.

Lemma build_not_perror n cs t : build' n cs = Some t -> is_perror t = false.
Proof.
  unfold build. intros H.
  destruct n; try discriminate H;
  repeat (match type of H with
          | match ?l with [] => _ | _ :: _ => _ end = Some _ => destruct l as [|[?p|?u] ?cs]; try discriminate H
          | (let '(_, _) := ?e in _) = Some _ => destruct e
          end);
  injection H as <-; reflexivity.
Qed.

(* ---------- the body of a parse function, relative to its caller (n, start) ---------- *)
Section Body.
Variable n : nt.
Variable start : N.
Hypothesis Hstart : (start <= NT)%N.
Variable rec : mrec.
Hypothesis HRec : forall m q, mu m q < mu n start -> (q <= NT)%N -> Cok q (S (mu m q)) (rec m q).
Variable s0 : mstate.

Definition St (s : mstate) : Prop := TI s /\ Frame (mu n start) s0 s /\ Acc s0 s.

Lemma St_same s s' : tbl s' = tbl s -> misses s' = misses s -> St s -> St s'.
Proof.
  intros Et Em (T & F & A). split; [|split].
  - intros k r. rewrite Et. apply T.
  - intros m q H. rewrite Et. apply F; exact H.
  - intros U. specialize (A U). unfold card in *. rewrite Et, Em. exact A.
Qed.

Lemma call_ok m q s : St s -> mu m q < mu n start -> (q <= NT)%N ->
  Rok q (fst (rec m q s)) /\ St (snd (rec m q s)).
Proof.
  intros (T & F & A) L Q. destruct (HRec m q L Q s T) as (R & T' & F' & A').
  split; [exact R|]. split; [exact T'|]. split.
  - eapply Frame_trans; [exact F|]. eapply Frame_weaken; [|exact F']. lia.
  - eapply Acc_trans; eassumption.
Qed.

Lemma call_later m q s : St s -> (start < q)%N -> (q <= NT)%N -> Rok q (fst (rec m q s)) /\ St (snd (rec m q s)).
Proof. intros H L Q. apply call_ok; auto. now apply mu_pos_lt. Qed.
Lemma call_head m s : St s -> rank m < rank n -> Rok start (fst (rec m start s)) /\ St (snd (rec m start s)).
Proof. intros H L. apply call_ok; auto. now apply mu_rank_lt. Qed.

Lemma choose_ok : forall alts s, (forall a, In a alts -> rank a < rank n) -> St s ->
  Rok start (fst (choose' rec start alts s)) /\ St (snd (choose' rec start alts s)).
Proof.
  induction alts as [|a r IH]; intros s Hr HS; cbn [choose].
  - split; [apply Rok_error; lia | exact HS].
  - destruct (call_head a s HS (Hr a (or_introl eq_refl))) as [Ra Sa].
    destruct (rec a start s) as [[|t nx c] s']; cbn [fst snd] in *; [contradiction|].
    destruct (is_perror t); [apply IH; [intros; apply Hr; now right | exact Sa] | split; assumption].
Qed.

Definition headcond (steps : list pstep) : Prop :=
  match steps with SConsume _ :: _ => True | STry m :: _ => rank m < rank n | _ => False end.

Lemma run_ok : forall steps cur acc conf s, St s -> (start <= cur <= NT)%N -> ((start < cur)%N \/ headcond steps) ->
  Rok start (fst (run' rec n steps cur acc conf s)) /\ St (snd (run' rec n steps cur acc conf s)).
Proof.
  induction steps as [|st steps IH]; intros cur acc conf s HS Hc Hh; cbn [run].
  - cbn [fst snd]. split; [|exact HS]. destruct Hh as [Hh|[]].
    destruct (build' n (rev acc)) as [t|] eqn:B; [|apply Rok_error; lia].
    cbn. split; [lia|]. intros _. exact Hh.
  - destruct st as [k|m|m].
    + destruct (is' cur k) eqn:K; [|split; [apply Rok_error; lia | exact HS]].
      apply is_lt in K. apply IH; [exact HS | lia | left; lia].
    + assert (C : Rok cur (fst (rec m cur s)) /\ St (snd (rec m cur s))).
      { destruct Hh as [Hh|Hh]; [apply call_later; [exact HS | exact Hh | lia]|].
        assert (cur = start \/ (start < cur)%N) as [->|L] by lia; [apply call_head; [exact HS | exact Hh] | apply call_later; [exact HS | exact L | lia]]. }
      destruct C as [Rm Sm]. destruct (rec m cur s) as [[|t nx c] s']; cbn [fst snd] in *; [contradiction|].
      destruct Rm as [Rn Rp]. destruct (is_perror t) eqn:P.
      * split; [|exact Sm]. cbn. split; [lia|]. rewrite P. discriminate.
      * apply IH; [exact Sm | lia | left; specialize (Rp eq_refl); lia].
    + destruct Hh as [Hh|[]].
      destruct (call_later m cur s HS Hh ltac:(lia)) as [Rm Sm].
      destruct (rec m cur s) as [[|t nx c] s']; cbn [fst snd] in *; [contradiction|]. destruct Rm as [Rn _].
      apply IH; [exact Sm | lia | left; lia].
Qed.

Lemma expect_ok want p report s : (p <= NT)%N ->
  let r := expect' want p report s in
  (p <= snd (fst (fst r)) <= NT)%N /\ tbl (snd r) = tbl s /\ misses (snd r) = misses s.
Proof.
  intros H. unfold expect. pose proof (scan_range want (S ntoks) p 0 0 H) as R.
  destruct (scan' (S ntoks) want p 0 0) as [[found nx] st]. cbn [fst snd] in *. auto.
Qed.

Lemma bind_ok (x : M pres) k s q :
  Rok q (fst (x s)) /\ St (snd (x s)) ->
  (forall t nx c s', (q <= nx <= NT)%N -> (is_perror t = false -> (q < nx)%N) -> St s' ->
     Rok start (fst (k t nx c s')) /\ St (snd (k t nx c s'))) ->
  Rok start (fst (bindP x k s)) /\ St (snd (bindP x k s)).
Proof.
  intros [Rx Sx] Hk. unfold bindP. destruct (x s) as [[|t nx c] s']; cbn [fst snd] in *; [contradiction|].
  destruct Rx as [R1 R2]. apply Hk; assumption.
Qed.

Lemma sub_ok (found : bool) p s : St s -> (start < p)%N -> (p <= NT)%N ->
  let x := (if found then rec Term p else ret (PRes (silent_error' p) p false)) in
  Rok p (fst (x s)) /\ St (snd (x s)).
Proof.
  intros HS L Q. destruct found; cbv zeta; [now apply call_later|].
  cbn. split; [|exact HS]. split; [lia|]. rewrite is_perror_silent_error. discriminate.
Qed.

Lemma parse_group_ok s : St s -> Rok start (fst (parse_group' rec start s)) /\ St (snd (parse_group' rec start s)).
Proof.
  intros HS. unfold parse_group. destruct (is' start KLeftParen) eqn:K; cbn [negb]; [|split; [apply Rok_error; lia | exact HS]].
  apply is_lt in K. apply (bind_ok _ _ _ (N.succ start)); [apply call_later; [exact HS | lia | lia]|].
  intros t p1 c s1 R1 R2 S1. destruct (is_perror t) eqn:P.
  - cbn. split; [|exact S1]. split; [lia|]. rewrite P. discriminate.
  - pose proof (expect_ok (want_kind KRightParen) p1 c s1 ltac:(lia)) as (E1 & E2 & E3). cbv zeta in E1, E2, E3.
    destruct (expect' (want_kind KRightParen) p1 c s1) as [[[found p2] phony] s2]. cbn [fst snd] in *.
    destruct (tok_range tokmap last_tok start) as [gs ge0]. destruct (tok_range tokmap last_tok (N.pred p2)) as [gs1 ge].
    cbn [fst snd]. split; [|exact (St_same _ _ E2 E3 S1)]. cbn. split; [lia|]. intros _. lia.
Qed.

Lemma parse_if_ok s : St s -> Rok start (fst (parse_if' rec start s)) /\ St (snd (parse_if' rec start s)).
Proof.
  intros HS. unfold parse_if. destruct (is' start KIf) eqn:K; cbn [negb]; [|split; [apply Rok_error; lia | exact HS]].
  apply is_lt in K. destruct (tok_range tokmap last_tok start) as [is_ ie].
  apply (bind_ok _ _ _ (N.succ start)); [apply call_later; [exact HS | lia | lia]|].
  intros c p1 cconf s1 R1 _ S1.
  pose proof (expect_ok (want_kind KThen) p1 cconf s1 ltac:(lia)) as (E1 & E2 & E3). cbv zeta in E1, E2, E3.
  destruct (expect' (want_kind KThen) p1 cconf s1) as [[[found_then p2] e1] s2]. cbn [fst snd] in *.
  pose proof (St_same _ _ E2 E3 S1) as S2.
  apply (bind_ok _ _ _ p2); [apply sub_ok; [exact S2 | lia | lia]|].
  intros t p3 tconf s3 R3 _ S3.
  pose proof (expect_ok (want_kind KElse) p3 tconf s3 ltac:(lia)) as (F1 & F2 & F3). cbv zeta in F1, F2, F3.
  destruct (expect' (want_kind KElse) p3 tconf s3) as [[[found_else p4] e2] s4]. cbn [fst snd] in *.
  pose proof (St_same _ _ F2 F3 S3) as S4.
  apply (bind_ok _ _ _ p4); [apply sub_ok; [exact S4 | lia | lia]|].
  intros e p5 econf s5 R5 _ S5. cbn. split; [|exact S5]. split; [lia|]. intros _. lia.
Qed.

Lemma let_tail_ok x xs xe ann (eq_found : bool) p3 e1 s : St s -> (start < p3)%N -> (p3 <= NT)%N ->
  let r := bindP (if eq_found then rec Term p3 else ret (PRes (silent_error' p3) p3 false)) (fun d p4 dconf =>
        fun s =>
        let '((t_found, p5, e2), s1) := expect' want_terminator p4 dconf s in
        bindP (if t_found then rec Term p5 else ret (PRes (silent_error' p5) p5 false)) (fun b p6 bconf =>
          ret (PRes (PLet (mk xs (pre (info b)) false (e1 + e2)) x xs xe ann d b) p6 bconf)) s1) s in
  Rok start (fst r) /\ St (snd r).
Proof.
  intros HS L Q. cbv zeta.
  apply (bind_ok _ _ _ p3); [apply sub_ok; assumption|].
  intros d p4 dconf s2 R4 _ S2.
  pose proof (expect_ok want_terminator p4 dconf s2 ltac:(lia)) as (F1 & F2 & F3). cbv zeta in F1, F2, F3.
  destruct (expect' want_terminator p4 dconf s2) as [[[t_found p5] e2] s3]. cbn [fst snd] in *.
  pose proof (St_same _ _ F2 F3 S2) as S3.
  apply (bind_ok _ _ _ p5); [apply sub_ok; [exact S3 | lia | lia]|].
  intros b p6 bconf s4 R6 _ S4. cbn. split; [|exact S4]. split; [lia|]. intros _. lia.
Qed.

Lemma parse_let_ok s : St s -> Rok start (fst (parse_let' rec start s)) /\ St (snd (parse_let' rec start s)).
Proof.
  intros HS. unfold parse_let. destruct (is' start KIdentifier) eqn:K; cbn [negb]; [|split; [apply Rok_error; lia | exact HS]].
  apply is_lt in K. destruct (tok_range tokmap last_tok start) as [xs xe].
  destruct (is' (N.succ start) KColon) eqn:C.
  - apply is_lt in C. apply (bind_ok _ _ _ (N.succ (N.succ start))); [apply call_later; [exact HS | lia | lia]|].
    intros a p2 c s1 R2 _ S1. destruct (is_perror a) eqn:P.
    + cbn. split; [|exact S1]. split; [lia|]. rewrite P. discriminate.
    + pose proof (expect_ok (want_kind KEquals) p2 c s1 ltac:(lia)) as (E1 & E2 & E3). cbv zeta in E1, E2, E3.
      destruct (expect' (want_kind KEquals) p2 c s1) as [[[eq_found p3] e1] s2]. cbn [fst snd] in *.
      apply let_tail_ok; [exact (St_same _ _ E2 E3 S1) | lia | lia].
  - destruct (is' (N.succ start) KEquals) eqn:E; [|split; [apply Rok_error; lia | exact HS]].
    apply is_lt in E. refine (let_tail_ok (tok_name tokmap start) xs xe None true (N.succ (N.succ start)) 0 s HS _ _); lia.
Qed.
End Body.

(* ---------- every call of the parser ---------- *)
Lemma card_add s k r : PositiveMap.find k (tbl s) = None ->
  PositiveMap.cardinal (PositiveMap.add k r (tbl s)) = S (card s).
Proof.
  intros H. unfold card. apply (PMP.cardinal_2 (x := k) (e := r)).
  - now apply PMP.F.not_find_in_iff.
  - intros y. reflexivity.
Qed.

Lemma parse_ok : forall f n p, mu n p < f -> (p <= NT)%N -> Cok p (S (mu n p)) (parse' f n p).
Proof.
  induction f as [|f IH]; intros n p L Q s T; [lia|]. cbn [parse].
  destruct (if use_memo && memoised_fast n then PositiveMap.find (key n p) (tbl s) else None) as [r|] eqn:Hit.
  - (* hit *)
    cbn [fst snd]. split; [|split; [exact T | split; [apply Frame_refl | apply Acc_refl]]].
    destruct (use_memo && memoised_fast n); [|discriminate].
    destruct (T _ _ Hit) as (n' & p' & E & _ & R). apply key_inj in E as [_ <-]. exact R.
  - (* miss *)
    set (s0 := {| tbl := tbl s; misses := S (misses s); scans := scans s |}).
    assert (HRec : forall m q, mu m q < mu n p -> (q <= NT)%N -> Cok q (S (mu m q)) (parse' f m q))
      by (intros m q Lm Qm; apply IH; [lia | exact Qm]).
    assert (S00 : St n p s0 s0) by (split; [exact T | split; [apply Frame_refl | apply Acc_refl]]).
    assert (B : forall x : M pres, (Rok p (fst (x s0)) /\ St n p s0 (snd (x s0))) ->
              Post p (S (mu n p)) s
                (let '(r, s') := x s0 in (r, if use_memo && memoised_fast n
                   then {| tbl := PositiveMap.add (key n p) r (tbl s'); misses := misses s'; scans := scans s' |} else s'))).
    { intros x [Rx (Tx & Fx & Ax)]. destruct (x s0) as [r s']. cbn [fst snd] in *.
      destruct (use_memo && memoised_fast n) eqn:UM; unfold Post; cbn [fst snd].
      - split; [exact Rx|]. split; [|split].
        + intros k r0. cbn [tbl]. rewrite PositiveMapAdditionalFacts.gsspec.
          destruct (PositiveMap.E.eq_dec k (key n p)) as [->|_]; [intros [= <-]; exists n, p; auto | apply Tx].
        + intros m q Hm. cbn [tbl]. rewrite PositiveMap.gso.
          * rewrite (Fx m q ltac:(lia)). reflexivity.
          * intros E. apply key_inj in E as [-> ->]. lia.
        + intros U. specialize (Ax U). unfold card, s0 in *. cbn [tbl misses] in *.
          assert (Abs : PositiveMap.find (key n p) (tbl s') = None) by (rewrite (Fx n p (le_n _)); exact Hit).
          pose proof (card_add s' (key n p) r Abs) as CA. unfold card in CA. rewrite CA. lia.
      - split; [exact Rx|]. split; [exact Tx|]. split.
        + intros m q Hm. rewrite (Fx m q ltac:(lia)). reflexivity.
        + intros U. rewrite U, memoised_fast_all in UM. discriminate. }
    pose proof (head_ok_all n) as HO. unfold head_ok in HO.
    destruct (skel_fast n) as [alts|steps|].
    + apply (B (choose' (parse' f) p alts)). apply (choose_ok n p Q (parse' f) HRec s0); [|exact S00].
      intros a Ha. rewrite forallb_forall in HO. specialize (HO a Ha). now apply Nat.ltb_lt in HO.
    + apply (B (run' (parse' f) n steps p [] true)). apply (run_ok n p Q (parse' f) HRec s0); [exact S00 | lia|].
      right. destruct steps as [|[k|m|m] r]; try discriminate HO; cbn; [exact I | now apply Nat.ltb_lt in HO].
    + destruct n; try discriminate HO.
      * apply (B (parse_let' (parse' f) p)). now apply (parse_let_ok Let p Q (parse' f) HRec s0).
      * apply (B (parse_if' (parse' f) p)). now apply (parse_if_ok If p Q (parse' f) HRec s0).
      * apply (B (parse_group' (parse' f) p)). now apply (parse_group_ok Group p Q (parse' f) HRec s0).
Qed.
End Packrat.

(* ---------- a map whose keys are all at most B has at most B entries ---------- *)
Lemma cardinal_bound {A} (m : PositiveMap.t A) (B : nat) :
  (forall k v, PositiveMap.find k m = Some v -> Pos.to_nat k <= B) -> PositiveMap.cardinal m <= B.
Proof.
  intros H. rewrite PositiveMap.cardinal_1.
  set (l := PositiveMap.elements m).
  assert (In1 : forall kv, In kv l -> 1 <= Pos.to_nat (fst kv) <= B).
  { intros [k v] Hin. cbn [fst]. split; [lia|]. apply (H k v). apply PositiveMap.elements_complete. exact Hin. }
  assert (ND : NoDup (map (fun kv => Pos.to_nat (fst kv)) l)).
  { pose proof (PositiveMap.elements_3w m) as W. fold l in W. clearbody l. clear -W.
    induction W as [|[k v] l Hn W IH]; [constructor|]. cbn [map fst]. constructor; [|exact IH].
    intros Hin. apply in_map_iff in Hin as ([k' v'] & E & Hin). cbn [fst] in E. apply Pos2Nat.inj in E. subst k'.
    apply Hn. apply InA_alt. exists (k, v'). split; [reflexivity | exact Hin]. }
  apply Nat.le_trans with (length (map (fun kv => Pos.to_nat (fst kv)) l)); [rewrite map_length; apply le_n|].
  apply Nat.le_trans with (length (seq 1 B)); [|rewrite seq_length; apply le_n].
  apply NoDup_incl_length; [exact ND|]. intros x Hx. apply in_map_iff in Hx as (kv & <- & Hin). apply in_seq. destruct (In1 kv Hin) as [I1 I2]. split; [exact I1 | exact (le_n_S _ _ I2)].
Qed.

(* ---------- the two theorems ---------- *)
Theorem parse_within_fuel : forall use_memo toks,
  fst (parse use_memo (tokmap_of toks) (length toks) (last_opt toks) (parse_fuel (length toks)) Term 0%N empty_state) <> PFuel.
Proof.
  intros use_memo toks.
  assert (T0 : TI toks empty_state) by (intros k r; cbn; rewrite PositiveMap.gempty; discriminate).
  pose proof (parse_ok use_memo toks (parse_fuel (length toks)) Term 0%N) as P.
  destruct (P ltac:(unfold mu, parse_fuel, max_rank; cbn [rank]; lia) ltac:(lia) empty_state T0) as (R & _).
  intros E. rewrite E in R. exact R.
Qed.

Theorem parse_top_within_fuel : forall toks memo context, fst (fst (parse_top toks memo context)) <> POutOfFuel.
Proof.
  intros toks memo context. unfold parse_top, parse_stage1, parse_stage1_.
  pose proof (parse_within_fuel memo toks) as F.
  destruct (parse memo (tokmap_of toks) (length toks) (last_opt toks) (parse_fuel (length toks)) Term 0%N empty_state) as [[|t nx c] s];
    cbn [fst snd] in *; [contradiction|].
  destruct (negb (Nat.eqb (nerrs t) 0)); [discriminate|].
  destruct (negb (N.eqb nx (ntoksN (length toks)))); [discriminate|].
  destruct (has_error_node t); [discriminate|].
  destruct (resolve _ _ _ _ _) as [[rt c'] s']. destruct (check_definitions rt); [destruct (Nat.eqb _ 0)|destruct (Nat.eqb _ 0)]; discriminate.
Qed.

(* the packrat bound: at most one body execution per (nonterminal, position) *)
Theorem packrat_miss_bound : forall toks, snd (fst (parse_stage1 toks true)) <= 36 * (length toks + 1).
Proof.
  intros toks. unfold parse_stage1, parse_stage1_.
  assert (T0 : TI toks empty_state) by (intros k r; cbn; rewrite PositiveMap.gempty; discriminate).
  pose proof (parse_ok true toks (parse_fuel (length toks)) Term 0%N) as P.
  destruct (P ltac:(unfold mu, parse_fuel, max_rank; cbn [rank]; lia) ltac:(lia) empty_state T0) as (_ & T & _ & A).
  destruct (parse true (tokmap_of toks) (length toks) (last_opt toks) (parse_fuel (length toks)) Term 0%N empty_state) as [r s].
  cbn [fst snd] in *. specialize (A eq_refl). unfold card in A. cbn [tbl misses empty_state] in A.
  rewrite PMP.cardinal_1 in A by apply PositiveMap.empty_1.
  assert (C : PositiveMap.cardinal (tbl s) <= 36 * (length toks + 1)).
  { apply cardinal_bound. intros k v Hk. destruct (T k v Hk) as (n & p & -> & Q & _). unfold key.
    assert (nt_index n < 36) by (destruct n; cbn; lia).
    pose proof (N.succ_pos_spec (N.of_nat (nt_index n) + 36 * p)) as SP.
    assert (Z.pos (N.succ_pos (N.of_nat (nt_index n) + 36 * p)) = Z.of_N (N.succ (N.of_nat (nt_index n) + 36 * p))) as ZP by (rewrite <- SP; reflexivity).
    lia. }
  destruct r; cbn [snd fst]; lia.
Qed.
