(* C09: the tokens of a successful tokenization partition the source text (tokenize_partition).
   Route: (1) a forward view `lexf` of the accumulator-passing first pass (lex_lexf); (2) by induction
   on the text, simultaneously for all five lexer states, the walker `pwalk` of Spec/TokenSpec.v accepts
   every list obtained from the forward tokens by deleting line-break terminators (P_all); (3) the
   second pass only deletes line-break terminators (filter2_lbsub). The generated tables enter through
   closed obligations (tables_partition_obligations, tables_match_lexemes, tables_no_linebreak). *)
From Coq Require Import List ZArith NArith Lia Bool Arith.
Import ListNotations.
Require Import Gram.Model.Token Gram.Gen.TokenTables Gram.Model.Tokenizer Gram.Spec.TokenSpec Gram.Proofs.TokenizerProofs.

(* ---- a forward view of the first pass: the tokens emitted from a state onwards, or None if an
   unexpected symbol is met. `last` is the value of the most recently emitted token. ---- *)
Definition mkt (s e : nat) (v : tokv) : tok := {| tstart := s; tend := e; tv := v |}.

Definition dispatchf (last : option tokv) (i : nat) (c : ch) : option (st * list tok) :=
  match single_symbol (cp c) with
  | Some k => Some (Start, [mkt i (i + 1) (TK k)])
  | None =>
    if N.eqb (cp c) c_nl then
      Some (Start, match last with
                   | Some v => if ends_expr v then [mkt i (i + 1) (TK KLineBreak)] else []
                   | None => [] end)
    else match pend_of (cp c) with
    | Some (pairs, alone) => Some (InPend i pairs alone, [])
    | None =>
      if alpha c || N.eqb (cp c) c_us then Some (InWord i [cp c], [])
      else if is_digit (cp c) then Some (InNum i (Z.of_N (cp c) - 48), [])
      else if ws c then Some (Start, [])
      else if N.eqb (cp c) c_hash then Some (InComment, [])
      else None
    end
  end.

Definition flushf (s : st) (i : nat) : list tok :=
  match s with
  | Start | InComment => []
  | InWord st0 rt => [mkt st0 i (classify_word (rev rt))]
  | InNum st0 z => [mkt st0 i (TNum z)]
  | InPend st0 _ alone => [mkt st0 (st0 + 1) (TK alone)]
  end.

Definition last_of (l : list tok) (last : option tokv) : option tokv :=
  match rev l with t :: _ => Some (tv t) | [] => last end.

Fixpoint lexf (cs : list ch) (i : nat) (s : st) (last : option tokv) : option (list tok) :=
  match cs with
  | [] => Some (flushf s i)
  | c :: cs' =>
    let i' := i + width c in
    let via_dispatch (pre : list tok) :=
      match dispatchf (last_of pre last) i c with
      | None => None
      | Some (s', em) =>
          match lexf cs' i' s' (last_of em (last_of pre last)) with
          | Some r => Some (pre ++ em ++ r) | None => None end
      end in
    match s with
    | Start => via_dispatch []
    | InWord st0 rt => if alnum c || N.eqb (cp c) c_us then lexf cs' i' (InWord st0 (cp c :: rt)) last else via_dispatch (flushf s i)
    | InNum st0 z => if is_digit (cp c) then lexf cs' i' (InNum st0 (z * 10 + (Z.of_N (cp c) - 48))) last else via_dispatch (flushf s i)
    | InPend st0 pairs alone =>
        match assoc pairs (cp c) with
        | Some k => match lexf cs' i' Start (Some (TK k)) with Some r => Some (mkt st0 (st0 + 2) (TK k) :: r) | None => None end
        | None => via_dispatch (flushf s i)
        end
    | InComment => if N.eqb (cp c) c_nl then via_dispatch [] else lexf cs' i' InComment last
    end
  end.

Definition hd_tv (rts : list tok) : option tokv := match rts with t :: _ => Some (tv t) | [] => None end.

(* the accumulator-passing lexer and the forward view agree when no error is recorded *)
Lemma dispatch_dispatchf gend o i c s' o' :
  dispatch gend o i c = (s', o') ->
  match dispatchf (hd_tv (toks o)) i c with
  | Some (s2, em) => s2 = s' /\ toks o' = rev em ++ toks o /\ errs o' = errs o
  | None => exists e, errs o' = e :: errs o
  end.
Proof.
  unfold dispatch, dispatchf.
  destruct (single_symbol (cp c)) as [k|]; [intros [= <- <-]; cbn; auto|].
  destruct (N.eqb (cp c) c_nl).
  - intros [= <- <-]. destruct (toks o) as [|t r] eqn:E; cbn [hd_tv]; [cbn; rewrite E; auto|].
    destruct (ends_expr (tv t)); cbn; rewrite ?E; auto.
  - destruct (pend_of (cp c)) as [[ps al]|]; [intros [= <- <-]; cbn; auto|].
    destruct (alpha c || N.eqb (cp c) c_us); [intros [= <- <-]; cbn; auto|].
    destruct (is_digit (cp c)); [intros [= <- <-]; cbn; auto|].
    destruct (ws c); [intros [= <- <-]; cbn; auto|].
    destruct (N.eqb (cp c) c_hash); intros [= <- <-]; cbn; eauto.
Qed.

Lemma hd_tv_app em rts : hd_tv (rev em ++ rts) = last_of em (hd_tv rts).
Proof. unfold last_of. destruct (rev em); reflexivity. Qed.

Lemma flush_flushf s o i : toks (flush s o i) = rev (flushf s i) ++ toks o /\ errs (flush s o i) = errs o.
Proof. destruct s; cbn; auto. Qed.

Definition lex_rel (o o' : out) (r : option (list tok)) : Prop :=
  exists l, errs o' = l ++ errs o /\
            match r with Some ts => l = [] /\ toks o' = rev ts ++ toks o | None => l <> [] end.

Lemma lex_rel_trans o1 o2 o3 pre r :
  toks o2 = rev pre ++ toks o1 -> errs o2 = errs o1 ->
  lex_rel o2 o3 r ->
  lex_rel o1 o3 (match r with Some x => Some (pre ++ x) | None => None end).
Proof.
  intros Ht He (l & El & H). exists l. rewrite <- He. split; [exact El|].
  destruct r as [ts|]; [|exact H]. destruct H as [-> Hts]. split; [reflexivity|].
  rewrite Hts, Ht, rev_app_distr, app_assoc. reflexivity.
Qed.

Lemma lex_lexf gend : forall cs i s o, lex_rel o (lex gend cs i s o) (lexf cs i s (hd_tv (toks o))).
Proof.
  induction cs as [|c cs IH]; intros i s o.
  - cbn [lex lexf]. exists []. destruct (flush_flushf s o i) as [Ht He]. rewrite He. split; [reflexivity|]. split; [reflexivity|exact Ht].
  - (* the common "flush, then dispatch c from Start" path *)
    assert (VD : forall o1, toks o1 = rev (flushf s i) ++ toks o -> errs o1 = errs o ->
              forall s' o', dispatch gend o1 i c = (s', o') ->
              lex_rel o (lex gend cs (i + width c) s' o')
                (match dispatchf (last_of (flushf s i) (hd_tv (toks o))) i c with
                 | None => None
                 | Some (s2, em) =>
                     match lexf cs (i + width c) s2 (last_of em (last_of (flushf s i) (hd_tv (toks o)))) with
                     | Some r => Some (flushf s i ++ em ++ r) | None => None end
                 end)).
    { intros o1 Ht1 He1 s' o' D. pose proof (dispatch_dispatchf _ _ _ _ _ _ D) as DD.
      rewrite Ht1, hd_tv_app in DD.
      destruct (dispatchf (last_of (flushf s i) (hd_tv (toks o))) i c) as [[s2 em]|].
      - destruct DD as (-> & Ht2 & He2).
        pose proof (IH (i + width c) s' o') as R. rewrite Ht2, !hd_tv_app in R.
        assert (Ht3 : toks o' = rev (flushf s i ++ em) ++ toks o) by (rewrite Ht2, rev_app_distr, app_assoc; reflexivity).
        assert (He3 : errs o' = errs o) by congruence.
        pose proof (lex_rel_trans o o' _ (flushf s i ++ em) _ Ht3 He3 R) as R2.
        destruct (lexf cs (i + width c) s' _); [rewrite <- app_assoc in R2|]; exact R2.
      - destruct DD as (e & He2). destruct (IH (i + width c) s' o') as (l & El & _).
        exists (l ++ [e]). rewrite El, He2, He1, <- app_assoc. split; [reflexivity|]. destruct l; discriminate. }
    cbn [lex lexf]. destruct s.
    + destruct (dispatch gend o i c) as [s' o'] eqn:D. apply (VD o eq_refl eq_refl _ _ D).
    + destruct (alnum c || N.eqb (cp c) c_us); [apply IH|].
      destruct (dispatch gend _ i c) as [s' o'] eqn:D.
      destruct (flush_flushf (InWord start rev_text) o i) as [Ht He]. apply (VD _ Ht He _ _ D).
    + destruct (is_digit (cp c)); [apply IH|].
      destruct (dispatch gend _ i c) as [s' o'] eqn:D.
      destruct (flush_flushf (InNum start acc) o i) as [Ht He]. apply (VD _ Ht He _ _ D).
    + destruct (assoc pairs (cp c)) as [k|].
      * pose proof (IH (i + width c) Start (emit o start (start + 2) (TK k))) as R. cbn [emit toks hd_tv tv] in R.
        pose proof (lex_rel_trans o (emit o start (start + 2) (TK k)) _ [mkt start (start + 2) (TK k)] _ eq_refl eq_refl R) as R2.
        destruct (lexf cs (i + width c) Start (Some (TK k))); exact R2.
      * destruct (dispatch gend _ i c) as [s' o'] eqn:D.
        destruct (flush_flushf (InPend start pairs alone) o i) as [Ht He]. apply (VD _ Ht He _ _ D).
    + destruct (N.eqb (cp c) c_nl); [|apply IH].
      destruct (dispatch gend o i c) as [s' o'] eqn:D. apply (VD o eq_refl eq_refl _ _ D).
Qed.

(* ------------------------------------------------------------------------------------------------
   characters are well formed: positive width; ASCII characters carry the class bits of `asc` *)
Definition ch_wf (c : ch) : Prop := 1 <= width c /\ ((cp c < 128)%N -> c = asc (cp c)).

Definition hd_opt {A} (l : list A) : option A := match l with x :: _ => Some x | [] => None end.

(* tokens that no following character can extend *)
Definition amax (k : tkind) : bool :=
  negb (existsb (tkind_eqb k) keyword_kinds) &&
  negb (existsb (tkind_eqb k) [KMinus; KLessThan; KGreaterThan; KEquals; KIdentifier; KIntegerLiteral]).
Lemma amax_maximal k nx : amax k = true -> maximal (TK k) nx = true.
Proof. destruct nx as [c|]; [|reflexivity]. destruct k; cbn; intros H; try discriminate; reflexivity. Qed.

Definition code_in (d : N) (ps : list (N * tkind)) : bool := existsb (fun p => N.eqb (fst p) d) ps.
Definition alone_ok (ps : list (N * tkind)) (alone : tkind) : bool :=
  negb (existsb (tkind_eqb alone) keyword_kinds) && negb (tkind_eqb alone KIdentifier) && negb (tkind_eqb alone KIntegerLiteral) &&
  match alone with
  | KMinus => code_in 62 ps
  | KLessThan | KGreaterThan => code_in 61 ps
  | KEquals => code_in 61 ps && code_in 62 ps
  | _ => true
  end.

Definition symbol_entry_ok (p : N * tkind) : bool :=
  N.ltb (fst p) 128 && symbol_ok p && amax (snd p).
Definition pair_entry_ok (p : N * (list (N * tkind) * tkind)) : bool :=
  let '(c, (ps, alone)) := p in
  N.ltb c 128 && pair_ok p && alone_ok ps alone &&
  forallb (fun q => N.ltb (fst q) 128 && amax (snd q)) ps.

Theorem tables_partition_obligations :
  forallb symbol_entry_ok symbol_table = true /\ forallb pair_entry_ok pair_table = true /\
  amax KLineBreak = true /\ lexeme_of KLineBreak = Some [10%N].
Proof. repeat split; vm_compute; reflexivity. Qed.

Lemma assoc_none_code ps d : assoc ps d = None -> code_in d ps = false.
Proof.
  unfold assoc, code_in. intros H. apply not_true_is_false. intros E.
  apply existsb_exists in E as (p & Hin & Hp).
  destruct (find (fun p0 => N.eqb (fst p0) d) ps) as [[k v]|] eqn:F; [discriminate|].
  eapply find_none in F; eauto. cbn in F. congruence.
Qed.

Lemma alone_maximal ps alone c : alone_ok ps alone = true -> assoc ps (cp c) = None -> maximal (TK alone) (Some c) = true.
Proof.
  unfold alone_ok. intros H A. apply andb_prop in H as [H Hm]. apply andb_prop in H as [H Hl]. apply andb_prop in H as [Hk Hi].
  apply assoc_none_code in A.
  unfold maximal. cbn [is_word_kind]. apply negb_true_iff in Hk. rewrite Hk.
  destruct alone; try reflexivity; try discriminate.
  - destruct (N.eqb_spec (cp c) 61); [subst; apply andb_prop in Hm as [H1 _]; rewrite e in A; congruence|].
    destruct (N.eqb_spec (cp c) 62); [apply andb_prop in Hm as [_ H2]; rewrite e in A; congruence|]. reflexivity.
  - destruct (N.eqb_spec (cp c) 61); [rewrite e in A; congruence|reflexivity].
  - destruct (N.eqb_spec (cp c) 61); [rewrite e in A; congruence|reflexivity].
  - destruct (N.eqb_spec (cp c) 62); [rewrite e in A; congruence|reflexivity].
Qed.

(* ------------------------------------------------------------------------------------------------ *)
Lemma ascii_width c : ch_wf c -> (cp c < 128)%N -> width c = 1.
Proof. intros [_ H] L. rewrite (H L). reflexivity. Qed.

Lemma pwalk_finish : forall cs i t acc r,
  tend t = i -> lexeme_ok (tv t) (rev acc) = true -> maximal (tv t) (hd_opt cs) = true ->
  pwalk cs i PGap r = true -> pwalk cs i (PTok t acc) r = true.
Proof.
  intros [|c cs] i t acc r He Hl Hm Hg.
  - cbn [pwalk] in *. unfold finish. rewrite He, Nat.eqb_refl, Hl. cbn [hd_opt] in Hm. rewrite Hm. exact Hg.
  - cbn [pwalk] in *. rewrite He. rewrite Nat.ltb_irrefl, Nat.eqb_refl. unfold finish. cbn [hd_opt] in Hm. rewrite Hl, Hm. exact Hg.
Qed.

Definition state_start (s : st) (i : nat) : nat :=
  match s with InWord st0 _ | InNum st0 _ | InPend st0 _ _ => st0 | _ => i end.

Lemma dispatchf_starts last i c s' em : dispatchf last i c = Some (s', em) ->
  Forall (fun t => tstart t = i) em /\ (state_start s' (i + width c) = i \/ state_start s' (i + width c) = i + width c).
Proof.
  unfold dispatchf. destruct (single_symbol (cp c)); [intros [= <- <-]; cbn; auto|].
  destruct (N.eqb (cp c) c_nl).
  - intros [= <- <-]. split; [|cbn; auto]. destruct last as [v|]; [destruct (ends_expr v)|]; cbn; auto.
  - destruct (pend_of (cp c)) as [[ps al]|]; [intros [= <- <-]; cbn; auto|].
    destruct (alpha c || N.eqb (cp c) c_us); [intros [= <- <-]; cbn; auto|].
    destruct (is_digit (cp c)); [intros [= <- <-]; cbn; auto|].
    destruct (ws c); [intros [= <- <-]; cbn; auto|].
    destruct (N.eqb (cp c) c_hash); [intros [= <- <-]; cbn; auto|discriminate].
Qed.

Lemma flushf_starts s i : Forall (fun t => tstart t = state_start s i) (flushf s i).
Proof. destruct s; cbn; auto. Qed.

Lemma lexf_lb : forall cs i s last ts, state_start s i <= i -> lexf cs i s last = Some ts ->
  Forall (fun t => state_start s i <= tstart t) ts.
Proof.
  induction cs as [|c cs IH]; intros i s last ts Hle H.
  - cbn [lexf] in H. injection H as <-. eapply Forall_impl; [|apply flushf_starts]. intros t ->. lia.
  - assert (VD : forall pre, Forall (fun t => state_start s i <= tstart t) pre ->
             forall r, match dispatchf (last_of pre last) i c with
                       | None => None
                       | Some (s', em) => match lexf cs (i + width c) s' (last_of em (last_of pre last)) with
                                          | Some r => Some (pre ++ em ++ r) | None => None end end = Some r ->
             Forall (fun t => state_start s i <= tstart t) r).
    { intros pre Hpre r Hr. destruct (dispatchf (last_of pre last) i c) as [[s' em]|] eqn:D; [|discriminate].
      destruct (lexf cs (i + width c) s' _) as [r'|] eqn:L; [|discriminate]. injection Hr as <-.
      destruct (dispatchf_starts _ _ _ _ _ D) as [Hem Hs'].
      apply Forall_app; split; [exact Hpre|]. apply Forall_app; split.
      - eapply Forall_impl; [|exact Hem]. intros t ->. exact Hle.
      - assert (Hle' : state_start s' (i + width c) <= i + width c) by (destruct Hs' as [-> | ->]; lia).
        eapply Forall_impl; [|apply (IH _ _ _ _ Hle' L)]. intros t Ht. destruct Hs' as [E|E]; rewrite E in Ht; lia. }
    cbn [lexf] in H. destruct s; cbn [state_start] in *.
    + apply (VD [] (Forall_nil _) _ H).
    + destruct (alnum c || N.eqb (cp c) c_us).
      * apply (IH (i + width c) (InWord start (cp c :: rev_text)) last ts); [cbn; lia | exact H].
      * apply (VD _ (Forall_impl _ (fun t (E : tstart t = start) => eq_ind_r (fun x => start <= x) (le_n start) E) (flushf_starts (InWord start rev_text) i)) _ H).
    + destruct (is_digit (cp c)).
      * apply (IH (i + width c) (InNum start (acc * 10 + (Z.of_N (cp c) - 48))) last ts); [cbn; lia | exact H].
      * apply (VD _ (Forall_impl _ (fun t (E : tstart t = start) => eq_ind_r (fun x => start <= x) (le_n start) E) (flushf_starts (InNum start acc) i)) _ H).
    + destruct (assoc pairs (cp c)) as [k|].
      * destruct (lexf cs (i + width c) Start (Some (TK k))) as [r|] eqn:L; [|discriminate]. injection H as <-.
        constructor; [cbn; lia|]. eapply Forall_impl; [|apply (IH (i + width c) Start (Some (TK k)) r (le_n _) L)]. cbn. intros; lia.
      * apply (VD _ (Forall_impl _ (fun t (E : tstart t = start) => eq_ind_r (fun x => start <= x) (le_n start) E) (flushf_starts (InPend start pairs alone) i)) _ H).
    + destruct (N.eqb (cp c) c_nl); [apply (VD [] (Forall_nil _) _ H)|].
      eapply Forall_impl; [|apply (IH (i + width c) InComment last ts (le_n _) H)]. cbn. intros; lia.
Qed.

(* ------------------------------------------------------------------------------------------------ lexemes *)
Lemma list_N_eqb_eq : forall a b, list_N_eqb a b = true <-> a = b.
Proof.
  induction a as [|x a IH]; destruct b as [|y b]; cbn; split; try discriminate; try reflexivity.
  - intros H. apply andb_prop in H as [H1 H2]. apply N.eqb_eq in H1. apply IH in H2. congruence.
  - intros [= -> ->]. rewrite N.eqb_refl. now apply IH.
Qed.

Lemma lexeme_not_ident k w : lexeme_of k = Some w -> tkind_eqb k KIdentifier = false.
Proof. destruct k; cbn; intros H; try reflexivity; discriminate. Qed.

Lemma lexeme_ok_fixed k x w : lexeme_of k = Some w -> w = map cp x -> lexeme_ok (TK k) x = true.
Proof.
  intros H ->. cbn [lexeme_ok]. rewrite H, (lexeme_not_ident _ _ H).
  rewrite (proj2 (list_N_eqb_eq _ _) eq_refl). reflexivity.
Qed.

Lemma symbol_facts c k : ch_wf c -> single_symbol (cp c) = Some k ->
  width c = 1 /\ lexeme_ok (TK k) [c] = true /\ forall nx, maximal (TK k) nx = true.
Proof.
  intros W H. apply assoc_in in H. destruct tables_partition_obligations as (T & _).
  rewrite forallb_forall in T. specialize (T _ H). unfold symbol_entry_ok in T. cbn [fst snd] in T.
  apply andb_prop in T as [T Tm]. apply andb_prop in T as [Tl Ts]. apply N.ltb_lt in Tl.
  split; [now apply ascii_width|]. split; [|intros; now apply amax_maximal].
  unfold symbol_ok in Ts. cbn [fst snd] in Ts. destruct (lexeme_of k) as [w|] eqn:E; [|discriminate].
  apply list_N_eqb_eq in Ts. eapply lexeme_ok_fixed; eauto.
Qed.

Lemma pend_facts c ps alone : ch_wf c -> pend_of (cp c) = Some (ps, alone) ->
  width c = 1 /\ lexeme_ok (TK alone) [c] = true /\
  (forall d, assoc ps (cp d) = None -> maximal (TK alone) (Some d) = true) /\ maximal (TK alone) None = true /\
  (forall d k, ch_wf d -> assoc ps (cp d) = Some k ->
     width d = 1 /\ lexeme_ok (TK k) [c; d] = true /\ forall nx, maximal (TK k) nx = true).
Proof.
  intros W H. apply assoc_in in H. destruct tables_partition_obligations as (_ & T & _).
  rewrite forallb_forall in T. specialize (T _ H). cbn [pair_entry_ok] in T.
  apply andb_prop in T as [T Tq]. apply andb_prop in T as [T Ta]. apply andb_prop in T as [Tl Tp]. apply N.ltb_lt in Tl.
  unfold pair_ok in Tp. apply andb_prop in Tp as [Tp1 Tp2].
  destruct (lexeme_of alone) as [w|] eqn:E; [|discriminate]. apply list_N_eqb_eq in Tp1.
  split; [now apply ascii_width|]. split; [eapply lexeme_ok_fixed; eauto|].
  split; [intros d Hd; now apply alone_maximal with (ps := ps)|]. split; [reflexivity|].
  intros d k Wd Hk. apply assoc_in in Hk.
  rewrite forallb_forall in Tq, Tp2. specialize (Tq _ Hk). specialize (Tp2 _ Hk). cbn [fst snd] in *.
  apply andb_prop in Tq as [Tq1 Tq2]. apply N.ltb_lt in Tq1.
  split; [now apply ascii_width|]. split; [|intros; now apply amax_maximal].
  destruct (lexeme_of k) as [w2|] eqn:E2; [|discriminate]. apply list_N_eqb_eq in Tp2. eapply lexeme_ok_fixed; eauto.
Qed.

Lemma keyword_kinds_not_ident : existsb (tkind_eqb KIdentifier) keyword_kinds = false.
Proof. reflexivity. Qed.

Lemma classify_word_lexeme x : word_shaped x = true -> lexeme_ok (classify_word (map cp x)) x = true /\ is_word_kind (classify_word (map cp x)) = true.
Proof.
  intros Hw. unfold classify_word. destruct tables_match_lexemes as (_ & _ & Tk & Tall).
  destruct (find (fun p => list_N_eqb (fst p) (map cp x)) keyword_table) as [[kw k]|] eqn:F.
  - apply find_some in F as [Hin Heq]. cbn [fst] in Heq. apply list_N_eqb_eq in Heq.
    rewrite forallb_forall in Tk. specialize (Tk _ Hin). unfold keyword_ok in Tk. cbn [fst snd] in Tk.
    apply andb_prop in Tk as [T1 T2]. destruct (lexeme_of k) as [w|] eqn:E; [|discriminate].
    apply list_N_eqb_eq in T1. split; [eapply lexeme_ok_fixed; eauto; congruence|]. exact T2.
  - split; [|reflexivity]. cbn [lexeme_ok]. rewrite (proj2 (list_N_eqb_eq _ _) eq_refl), Hw. cbn [andb].
    apply negb_true_iff. apply not_true_is_false. intros K. unfold is_keyword_text in K.
    apply existsb_exists in K as (k & Hk & Hl). destruct (lexeme_of k) as [w|] eqn:E; [|discriminate].
    apply list_N_eqb_eq in Hl. subst w.
    rewrite forallb_forall in Tall. specialize (Tall _ Hk). apply existsb_exists in Tall as ([kw k'] & Hin & He).
    cbn [snd] in He. apply tkind_eqb_eq in He. subst k'.
    rewrite forallb_forall in Tk. specialize (Tk _ Hin). unfold keyword_ok in Tk. cbn [fst snd] in Tk.
    apply andb_prop in Tk as [T1 _]. rewrite E in T1. apply list_N_eqb_eq in T1.
    eapply find_none in F; eauto. cbn [fst] in F. rewrite <- T1 in F. rewrite (proj2 (list_N_eqb_eq _ _) eq_refl) in F. discriminate.
Qed.

(* ------------------------------------------------------------------------------------------------ main invariant *)
Definition word_inv (rt : list N) (acc : list ch) : Prop := map cp acc = rt /\ word_shaped (rev acc) = true.
Definition num_inv (z : Z) (acc : list ch) : Prop :=
  acc <> [] /\ forallb (fun c => is_digit (cp c)) (rev acc) = true /\ decimal 0 (rev acc) = z.

Lemma word_shaped_snoc x c : word_shaped x = true -> word_char c = true -> word_shaped (x ++ [c]) = true.
Proof.
  destruct x as [|a x]; [discriminate|]. cbn [word_shaped app]. intros H Hc. apply andb_prop in H as [H1 H2].
  rewrite H1, forallb_app, H2. cbn. now rewrite Hc.
Qed.
Lemma decimal_snoc : forall x a c, decimal a (x ++ [c]) = (decimal a x * 10 + (Z.of_N (cp c) - 48))%Z.
Proof. induction x as [|d x IH]; intros a c; cbn [decimal app]; [reflexivity|apply IH]. Qed.

(* sublists obtained by deleting line-break terminators (what the second pass does) *)
Inductive lbsub : list tok -> list tok -> Prop :=
| lbs_nil : lbsub [] []
| lbs_keep t a b : lbsub a b -> lbsub (t :: a) (t :: b)
| lbs_drop t a b : is_lbv (tv t) = true -> lbsub a b -> lbsub a (t :: b).

Lemma lbsub_refl l : lbsub l l.
Proof. induction l; constructor; auto. Qed.
Lemma lbsub_Forall (Q : tok -> Prop) a b : lbsub a b -> Forall Q b -> Forall Q a.
Proof. induction 1 as [|t a b S IH|t a b L S IH]; intros HF; auto; inversion HF; subst; auto. Qed.
Lemma lbsub_cons_inv t a b : lbsub a (t :: b) -> is_lbv (tv t) = false -> exists a', a = t :: a' /\ lbsub a' b.
Proof. intros H L. inversion H; subst; [eauto | congruence]. Qed.
Lemma lbsub_nil_inv a : lbsub a [] -> a = [].
Proof. inversion 1; reflexivity. Qed.

Definition tok_goal (cs : list ch) (i st0 : nat) (acc : list ch) (ts : list tok) : Prop :=
  exists t r, ts = t :: r /\ tstart t = st0 /\ i <= tend t /\ is_lbv (tv t) = false /\
              forall r', lbsub r' r -> pwalk cs i (PTok t acc) r' = true.

Definition P (cs : list ch) : Prop :=
  (forall i last ts ts', lexf cs i Start last = Some ts -> lbsub ts' ts -> pwalk cs i PGap ts' = true) /\
  (forall i last ts ts', lexf cs i InComment last = Some ts -> lbsub ts' ts -> pwalk cs i PComment ts' = true) /\
  (forall i st0 rt last ts acc, st0 <= i -> word_inv rt acc -> lexf cs i (InWord st0 rt) last = Some ts -> tok_goal cs i st0 acc ts) /\
  (forall i st0 z last ts acc, st0 <= i -> num_inv z acc -> lexf cs i (InNum st0 z) last = Some ts -> tok_goal cs i st0 acc ts) /\
  (forall i st0 ps alone last ts c0, i = st0 + 1 -> ch_wf c0 -> pend_of (cp c0) = Some (ps, alone) ->
      lexf cs i (InPend st0 ps alone) last = Some ts -> tok_goal cs i st0 [c0] ts).

(* the "flush the pending token, then dispatch c from Start" path of a state *)
Lemma via_start c cs i s last t0 :
  flushf s i = [t0] ->
  match dispatchf (last_of (flushf s i) last) i c with
  | None => None
  | Some (s', em) => match lexf cs (i + width c) s' (last_of em (last_of (flushf s i) last)) with
                     | Some r => Some (flushf s i ++ em ++ r) | None => None end
  end = match lexf (c :: cs) i Start (Some (tv t0)) with Some r => Some (t0 :: r) | None => None end.
Proof.
  intros ->. cbn [lexf last_of rev app]. destruct (dispatchf (Some (tv t0)) i c) as [[s' em]|]; [|reflexivity].
  destruct (lexf cs (i + width c) s' _); reflexivity.
Qed.

Lemma flush_goal c cs i st0 acc t0 ts :
  (forall i last ts ts', lexf (c :: cs) i Start last = Some ts -> lbsub ts' ts -> pwalk (c :: cs) i PGap ts' = true) ->
  tstart t0 = st0 -> tend t0 = i -> is_lbv (tv t0) = false -> lexeme_ok (tv t0) (rev acc) = true -> maximal (tv t0) (Some c) = true ->
  match lexf (c :: cs) i Start (Some (tv t0)) with Some r => Some (t0 :: r) | None => None end = Some ts ->
  tok_goal (c :: cs) i st0 acc ts.
Proof.
  intros A Hs He Hlb Hl Hm H. destruct (lexf (c :: cs) i Start (Some (tv t0))) as [r|] eqn:L; [|discriminate].
  injection H as <-. exists t0, r. split; [reflexivity|]. split; [exact Hs|]. split; [lia|]. split; [exact Hlb|].
  intros r' Hr'. apply pwalk_finish; auto. eapply A; eauto.
Qed.

Lemma pwalk_tokstart c cs i t r : tstart t = i -> pwalk (c :: cs) i PGap (t :: r) = pwalk cs (i + width c) (PTok t [c]) r.
Proof. intros H. cbn [pwalk]. rewrite H, Nat.eqb_refl. reflexivity. Qed.

Lemma pwalk_gap c cs i r m' : Forall (fun t => i < tstart t) r -> gap_step c = Some m' ->
  pwalk (c :: cs) i PGap r = pwalk cs (i + width c) m' r.
Proof.
  intros Hlb Hg. cbn [pwalk]. rewrite Hg. destruct r as [|t r']; [reflexivity|].
  inversion Hlb; subst. destruct (Nat.eqb_spec (tstart t) i); [lia|]. destruct (Nat.ltb_spec (tstart t) i); [lia|]. reflexivity.
Qed.

Lemma pwalk_comment_nl c cs i r : N.eqb (cp c) c_nl = true -> pwalk (c :: cs) i PComment r = pwalk (c :: cs) i PGap r.
Proof. intros H. cbn [pwalk]. rewrite H. reflexivity. Qed.

Lemma pwalk_comment_skip c cs i r : N.eqb (cp c) c_nl = false -> pwalk (c :: cs) i PComment r = pwalk cs (i + width c) PComment r.
Proof. intros H. cbn [pwalk]. rewrite H. reflexivity. Qed.

Lemma pwalk_tok_more c cs i t acc r : i < tend t -> pwalk (c :: cs) i (PTok t acc) r = pwalk cs (i + width c) (PTok t (c :: acc)) r.
Proof. intros H. cbn [pwalk]. destruct (Nat.ltb_spec i (tend t)); [reflexivity|lia]. Qed.

Lemma lb_strict cs i' s last r i : state_start s i' = i' -> i < i' -> lexf cs i' s last = Some r -> Forall (fun t => i < tstart t) r.
Proof.
  intros E Hlt H. eapply Forall_impl; [|eapply lexf_lb; [|exact H]]; [|rewrite E; lia]. cbn. intros t Ht. rewrite E in Ht. lia.
Qed.

Lemma P_nil : P [].
Proof.
  repeat split.
  - intros i last ts ts' H S. cbn in H. injection H as <-. apply lbsub_nil_inv in S. subst ts'. reflexivity.
  - intros i last ts ts' H S. cbn in H. injection H as <-. apply lbsub_nil_inv in S. subst ts'. reflexivity.
  - intros i st0 rt last ts acc Hle [Hm Hw] H. cbn [lexf flushf] in H. injection H as <-.
    eexists _, []. split; [reflexivity|]. split; [reflexivity|]. split; [cbn; lia|]. split; [apply classify_word_not_lb|].
    intros r' S. apply lbsub_nil_inv in S. subst r'.
    cbn [pwalk tend mkt]. rewrite Nat.eqb_refl. unfold finish. cbn [tv mkt maximal].
    rewrite <- Hm, <- map_rev. rewrite (proj1 (classify_word_lexeme _ Hw)). reflexivity.
  - intros i st0 z last ts acc Hle (Hne & Hd & Hz) H. cbn [lexf flushf] in H. injection H as <-.
    eexists _, []. split; [reflexivity|]. split; [reflexivity|]. split; [cbn; lia|]. split; [reflexivity|].
    intros r' S. apply lbsub_nil_inv in S. subst r'.
    cbn [pwalk tend mkt]. rewrite Nat.eqb_refl. unfold finish. cbn [tv mkt maximal lexeme_ok].
    destruct (rev acc) eqn:E; [apply (f_equal (@rev _)) in E; rewrite rev_involutive in E; cbn in E; congruence|].
    rewrite Hd, Hz, Z.eqb_refl. reflexivity.
  - intros i st0 ps alone last ts c0 Hi W Hp H. cbn [lexf flushf] in H. injection H as <-.
    destruct (pend_facts _ _ _ W Hp) as (_ & Hl & _ & _ & _).
    eexists _, []. split; [reflexivity|]. split; [reflexivity|]. split; [cbn; lia|]. split; [apply (proj1 (pend_of_not_lb _ _ _ Hp))|].
    intros r' S. apply lbsub_nil_inv in S. subst r'.
    cbn [pwalk tend mkt]. subst i. rewrite Nat.eqb_refl. unfold finish. cbn [tv mkt maximal rev app]. rewrite Hl. reflexivity.
Qed.

Lemma ws_not_hash c : ch_wf c -> ws c = true -> N.eqb (cp c) c_hash = false.
Proof.
  intros [_ H] Hw. destruct (N.eqb_spec (cp c) c_hash) as [E|]; [|reflexivity].
  assert (L : (cp c < 128)%N) by (rewrite E; reflexivity). rewrite (H L), E in Hw. discriminate.
Qed.

Lemma P_cons c cs : ch_wf c -> P cs -> P (c :: cs).
Proof.
  intros W (A & B & C & D & E).
  pose proof (proj1 W) as W1.
  (* (A) first *)
  assert (A' : forall i last ts ts', lexf (c :: cs) i Start last = Some ts -> lbsub ts' ts -> pwalk (c :: cs) i PGap ts' = true).
  { intros i last ts ts' H S. cbn [lexf last_of rev app] in H. unfold dispatchf in H.
    destruct (single_symbol (cp c)) as [k|] eqn:Es.
    - (* symbol *)
      destruct (symbol_facts _ _ W Es) as (Hw & Hl & Hm).
      destruct (lexf cs (i + width c) Start _) as [r|] eqn:L; [|discriminate]. injection H as <-.
      cbn [app] in S. destruct (lbsub_cons_inv _ _ _ S (single_symbol_not_lb _ _ Es)) as (b & -> & Sb).
      rewrite pwalk_tokstart by reflexivity. apply pwalk_finish; [cbn; lia | exact Hl | apply Hm | eapply A; eauto].
    - destruct (N.eqb (cp c) c_nl) eqn:En.
      + (* line break *)
        assert (Hw : width c = 1) by (apply ascii_width; [exact W | apply N.eqb_eq in En; rewrite En; reflexivity]).
        assert (Hg : gap_step c = Some PGap) by (unfold gap_step; now rewrite En).
        destruct (match last with Some v => if ends_expr v then [mkt i (i + 1) (TK KLineBreak)] else [] | None => [] end) as [|t em] eqn:Em.
        * cbn [last_of rev app] in H. destruct (lexf cs (i + width c) Start last) as [r|] eqn:L; [|discriminate]. injection H as <-.
          cbn [app] in S.
          rewrite (pwalk_gap _ _ _ _ _ (lbsub_Forall _ _ _ S (lb_strict cs (i + width c) Start last r i eq_refl ltac:(lia) L)) Hg). eapply A; eauto.
        * assert (Ht : t = mkt i (i + 1) (TK KLineBreak) /\ em = []).
          { destruct last as [v|]; [destruct (ends_expr v)|]; try discriminate; injection Em as <- <-; auto. }
          destruct Ht as [-> ->].
          destruct (lexf cs (i + width c) Start _) as [r|] eqn:L; [|discriminate]. injection H as <-.
          cbn [app] in S. inversion S as [|t0 a b Sb|t0 a b Hlb Sb]; subst.
          -- (* the terminator is kept *)
             rewrite pwalk_tokstart by reflexivity.
             destruct tables_partition_obligations as (_ & _ & Ha & Hlx).
             apply pwalk_finish; [cbn; lia | | apply amax_maximal; exact Ha | eapply A; eauto].
             cbn [tv mkt rev app]. eapply lexeme_ok_fixed; [exact Hlx|]. cbn. apply N.eqb_eq in En. now rewrite En.
          -- (* the terminator is dropped: the line break is a gap character *)
             rewrite (pwalk_gap _ _ _ _ _ (lbsub_Forall _ _ _ Sb (lb_strict cs (i + width c) Start _ r i eq_refl ltac:(lia) L)) Hg). eapply A; eauto.
      + destruct (pend_of (cp c)) as [[ps alone]|] eqn:Ep.
        * (* look-ahead symbol *)
          destruct (pend_facts _ _ _ W Ep) as (Hw & _).
          cbn [last_of rev app] in H. destruct (lexf cs (i + width c) (InPend i ps alone) last) as [r|] eqn:L; [|discriminate]. injection H as <-.
          cbn [app] in S. destruct (E (i + width c) i ps alone last r c ltac:(lia) W Ep L) as (t & ts0 & -> & Hst & _ & Hnl & Hp).
          destruct (lbsub_cons_inv _ _ _ S Hnl) as (b & -> & Sb).
          rewrite pwalk_tokstart by exact Hst. apply Hp; exact Sb.
        * destruct (alpha c || N.eqb (cp c) c_us) eqn:Ea.
          -- (* word *)
             cbn [last_of rev app] in H. destruct (lexf cs (i + width c) (InWord i [cp c]) last) as [r|] eqn:L; [|discriminate]. injection H as <-.
             cbn [app] in S.
             destruct (C (i + width c) i [cp c] last r [c] ltac:(lia) ltac:(split; [reflexivity | cbn; unfold word_start; now rewrite Ea]) L)
               as (t & ts0 & -> & Hst & _ & Hnl & Hp).
             destruct (lbsub_cons_inv _ _ _ S Hnl) as (b & -> & Sb).
             rewrite pwalk_tokstart by exact Hst. apply Hp; exact Sb.
          -- destruct (is_digit (cp c)) eqn:Ed.
             ++ (* number *)
                cbn [last_of rev app] in H. destruct (lexf cs (i + width c) (InNum i _) last) as [r|] eqn:L; [|discriminate]. injection H as <-.
                cbn [app] in S.
                destruct (D (i + width c) i (Z.of_N (cp c) - 48)%Z last r [c] ltac:(lia) ltac:(split; [discriminate | split; [cbn; now rewrite Ed | cbn [rev app decimal]; lia]]) L)
                  as (t & ts0 & -> & Hst & _ & Hnl & Hp).
                destruct (lbsub_cons_inv _ _ _ S Hnl) as (b & -> & Sb).
                rewrite pwalk_tokstart by exact Hst. apply Hp; exact Sb.
             ++ destruct (ws c) eqn:Ew.
                ** cbn [last_of rev app] in H. destruct (lexf cs (i + width c) Start last) as [r|] eqn:L; [|discriminate]. injection H as <-.
                   cbn [app] in S.
                   assert (Hg : gap_step c = Some PGap) by (unfold gap_step; rewrite En, (ws_not_hash _ W Ew), Ew; reflexivity).
                   rewrite (pwalk_gap _ _ _ _ _ (lbsub_Forall _ _ _ S (lb_strict cs (i + width c) Start last r i eq_refl ltac:(lia) L)) Hg). eapply A; eauto.
                ** destruct (N.eqb (cp c) c_hash) eqn:Eh; [|discriminate].
                   cbn [last_of rev app] in H. destruct (lexf cs (i + width c) InComment last) as [r|] eqn:L; [|discriminate]. injection H as <-.
                   cbn [app] in S.
                   assert (Hg : gap_step c = Some PComment) by (unfold gap_step; rewrite En, Eh; reflexivity).
                   rewrite (pwalk_gap _ _ _ _ _ (lbsub_Forall _ _ _ S (lb_strict cs (i + width c) InComment last r i eq_refl ltac:(lia) L)) Hg). eapply B; eauto. }
  split; [exact A'|]. split; [|split; [|split]].
  - (* (B) comment *)
    intros i last ts ts' H S. cbn [lexf] in H. destruct (N.eqb (cp c) c_nl) eqn:En.
    + rewrite pwalk_comment_nl by exact En. apply (A' i last ts ts'); [exact H | exact S].
    + rewrite pwalk_comment_skip by exact En. eapply B; eauto.
  - (* (C) word *)
    intros i st0 rt last ts acc Hle [Hm Hw] H. cbn [lexf] in H.
    destruct (alnum c || N.eqb (cp c) c_us) eqn:Ec.
    + destruct (C (i + width c) st0 (cp c :: rt) last ts (c :: acc) ltac:(lia)
                  ltac:(split; [cbn; now rewrite Hm | cbn [rev]; apply word_shaped_snoc; [exact Hw | exact Ec]]) H)
        as (t & ts0 & -> & Hst & Hle' & Hnl & Hp).
      exists t, ts0. split; [reflexivity|]. split; [exact Hst|]. split; [lia|]. split; [exact Hnl|]. intros r' Sr. rewrite pwalk_tok_more by lia. apply Hp; exact Sr.
    + rewrite (via_start c cs i (InWord st0 rt) last _ eq_refl) in H.
      eapply (flush_goal c cs i st0 acc (mkt st0 i (classify_word (rev rt)))); [exact A' | reflexivity | reflexivity | apply classify_word_not_lb | | | exact H].
      * cbn [tv mkt]. rewrite <- Hm, <- map_rev. apply (proj1 (classify_word_lexeme _ Hw)).
      * cbn [tv mkt]. unfold maximal. rewrite <- Hm, <- map_rev, (proj2 (classify_word_lexeme _ Hw)). unfold word_char. now rewrite Ec.
  - (* (D) number *)
    intros i st0 z last ts acc Hle (Hne & Hd & Hz) H. cbn [lexf] in H.
    destruct (is_digit (cp c)) eqn:Ec.
    + destruct (D (i + width c) st0 _ last ts (c :: acc) ltac:(lia)
                  ltac:(split; [discriminate | split; [cbn [rev]; rewrite forallb_app, Hd; cbn; now rewrite Ec | cbn [rev]; rewrite decimal_snoc, Hz; reflexivity]]) H)
        as (t & ts0 & -> & Hst & Hle' & Hnl & Hp).
      exists t, ts0. split; [reflexivity|]. split; [exact Hst|]. split; [lia|]. split; [exact Hnl|]. intros r' Sr. rewrite pwalk_tok_more by lia. apply Hp; exact Sr.
    + rewrite (via_start c cs i (InNum st0 z) last _ eq_refl) in H.
      eapply (flush_goal c cs i st0 acc (mkt st0 i (TNum z))); [exact A' | reflexivity | reflexivity | reflexivity | | | exact H].
      * cbn [tv mkt lexeme_ok]. destruct (rev acc) eqn:Er; [apply (f_equal (@rev _)) in Er; rewrite rev_involutive in Er; cbn in Er; congruence|].
        rewrite Hd, Hz, Z.eqb_refl. reflexivity.
      * cbn [tv mkt]. unfold maximal. cbn [is_word_kind]. now rewrite Ec.
  - (* (E) look-ahead *)
    intros i st0 ps alone last ts c0 Hi W0 Hp H. cbn [lexf] in H.
    destruct (pend_facts _ _ _ W0 Hp) as (_ & Hl & Hmax & _ & Hpair).
    destruct (pend_of_not_lb _ _ _ Hp) as [Hnla Hnlp].
    destruct (assoc ps (cp c)) as [k|] eqn:Ek.
    + destruct (Hpair c k W Ek) as (Hw & Hl2 & Hm2).
      destruct (lexf cs (i + width c) Start (Some (TK k))) as [r|] eqn:L; [|discriminate]. injection H as <-.
      eexists _, r. split; [reflexivity|]. split; [reflexivity|]. split; [cbn; lia|]. split; [apply (Hnlp _ _ Ek)|].
      intros r' Sr. rewrite pwalk_tok_more by (cbn; lia).
      apply pwalk_finish; [cbn; lia | exact Hl2 | apply Hm2 | eapply A; eauto].
    + rewrite (via_start c cs i (InPend st0 ps alone) last _ eq_refl) in H.
      eapply (flush_goal c cs i st0 [c0] (mkt st0 (st0 + 1) (TK alone))); [exact A' | reflexivity | cbn; lia | exact Hnla | exact Hl | apply Hmax; exact Ek | exact H].
Qed.

Theorem P_all : forall cs, Forall ch_wf cs -> P cs.
Proof. induction 1; [apply P_nil | now apply P_cons]. Qed.

Lemma filter2_lbsub : forall ts ts', filter2 ts = Some ts' -> lbsub ts' ts.
Proof.
  induction ts as [|t rest IH]; intros ts' H; cbn [filter2] in H.
  - injection H as <-. constructor.
  - destruct (is_lbv (tv t)) eqn:L.
    + destruct rest as [|n r]; [injection H as <-; apply lbs_drop; [exact L | constructor]|].
      destruct (is_lbv (tv n)); [discriminate|].
      destruct (filter2 (n :: r)) as [x|]; [|discriminate]. injection H as <-.
      destruct (starts_expr (tv n)); [apply lbs_keep | apply lbs_drop; [exact L|]]; apply IH; reflexivity.
    + destruct (filter2 rest) as [x|]; [|discriminate]. injection H as <-. apply lbs_keep. apply IH. reflexivity.
Qed.

(* C09: the tokens of a successful tokenization partition the source text *)
Theorem tokenize_partition : forall gend cs ts,
  Forall ch_wf cs -> tokenize gend cs = Ok ts -> partition_ok cs ts = true.
Proof.
  intros gend cs ts W H. unfold tokenize in H.
  pose proof (lex_lexf gend cs 0 Start {| toks := []; errs := [] |}) as (l & El & R).
  cbn [toks errs hd_tv] in *.
  destruct (errs (lex gend cs 0 Start {| toks := []; errs := [] |})) as [|e es] eqn:Ee; [|discriminate].
  rewrite app_nil_r in El. subst l.
  destruct (lexf cs 0 Start None) as [r|] eqn:L; [|now destruct R].
  destruct R as [_ Ht]. rewrite app_nil_r in Ht. rewrite Ht, rev_involutive in H.
  destruct (filter2 r) as [x|] eqn:F; [|discriminate]. injection H as <-.
  unfold partition_ok. destruct (P_all cs W) as (A & _). eapply A; [exact L | apply filter2_lbsub; exact F].
Qed.

(* the well-formedness hypothesis is satisfiable and is what the correspondence glue constructs *)
Lemma asc_wf n : (n < 128)%N -> ch_wf (asc n).
Proof. intros H. split; [cbn; lia|]. intros _. reflexivity. Qed.
