(* Subject reduction with definition groups, part 1: definitional equality `conv` of Spec/Typing.v is
   stable under context insertion (weakening), under substitution of a variable (with or without a
   definition) and under replacement of context definitions by convertible ones.  Everything goes
   through the parallel reduction `dpred` of Proofs/ConfluenceDelta.v (Church-Rosser), so all terms
   are hole-free. *)
From Coq Require Import List ZArith Lia Bool Arith Relations.
Import ListNotations.
Require Import Gram.Model.Term Gram.Model.DeBruijn Gram.Model.Eval Gram.Spec.Cbv Gram.Spec.Typing
  Gram.Proofs.DeBruijnLaws Gram.Proofs.CtxProofs Gram.Proofs.WeakenProofs Gram.Proofs.WeakenInfer Gram.Proofs.CbvProofs
  Gram.Proofs.ConflLaws Gram.Proofs.Confluence Gram.Proofs.ConfluenceEval Gram.Proofs.ConfluenceDelta
  Gram.Proofs.ConvConsistent Gram.Proofs.ConvProofs.

Definition dhf (D : nat -> option term) : Prop := forall j d, D j = Some d -> hole_free d = true.

(* ---------- parallel reduction under insertion of n entries at depth l of the base ---------- *)
Section Ins.
Variables D D' : nat -> option term.
Hypothesis Dh : dhf D.
Variables l n : nat.
Hypothesis HD : forall j d, D j = Some d -> D' (up_idx j l n) = Some (ushift d l n).

Lemma dpred_ins_mut :
  (forall m t t', dpred D m t t' -> dpred D' m (ushift t (l + m) n) (ushift t' (l + m) n)) /\
  (forall m ds ds', dpreds D m ds ds' ->
     dpreds D' m (map (fun p : term * term => let '(a, d) := p in (ushift a (l + m) n, ushift d (l + m) n)) ds)
                 (map (fun p : term * term => let '(a, d) := p in (ushift a (l + m) n, ushift d (l + m) n)) ds')).
Proof.
  apply dpred_mutind; intros; cbn [ushift map]; try (constructor; auto using hole_free_ushift; fail).
  - destruct t; try discriminate; apply d_atom; reflexivity.
  - replace (up_idx (j + m) (l + m) n) with (up_idx j l n + m)
      by (unfold up_idx; destruct (Nat.leb_spec l j), (Nat.leb_spec (l + m) (j + m)); lia).
    replace (ushift (ushift d 0 m) (l + m) n) with (ushift (ushift d l n) 0 m)
      by (symmetry; apply ushift_comm; lia).
    apply d_delta. now apply HD.
  - apply d_lam; auto using hole_free_ushift. replace (S (l + m)) with (l + S m) by lia. assumption.
  - apply d_pi; auto. replace (S (l + m)) with (l + S m) by lia. assumption.
  - rewrite <- (dpreds_length _ _ _ _ H).
    replace (length ds + (l + m)) with (l + (length ds + m)) by lia.
    apply d_let; rewrite map_length; assumption.
  - replace (length ds + (l + m)) with (l + (length ds + m)) in * by lia.
    assert (E : ushift (let_whnf_body ds' b') (l + m) n =
                let_whnf_body (map (shp (length ds' + (l + m)) n) ds') (ushift b' (length ds' + (l + m)) n)).
    { symmetry. apply let_whnf_body_shift; eauto using dpred_hf_r, dpreds_hf_r. }
    rewrite E. rewrite <- (dpreds_length _ _ _ _ H).
    replace (length ds + (l + m)) with (l + (length ds + m)) by lia.
    apply d_unfold; rewrite map_length; assumption.
  - rewrite ushift_open0 by (eauto using dpred_hf_r; lia).
    apply d_beta; auto using hole_free_ushift. replace (S (l + m)) with (l + S m) by lia. assumption.
  - rewrite (arith_closed _ _ _ _ (l + m) n H). now constructor.
Qed.

Lemma dpred_ins m t t' : dpred D m t t' -> dpred D' m (ushift t (l + m) n) (ushift t' (l + m) n).
Proof. apply dpred_ins_mut. Qed.
End Ins.

(* ---------- parallel reduction under substitution of the base variable i by s (shifted by k) ---------- *)
Section Sub.
Variables D D' : nat -> option term.
Hypothesis Dh : dhf D.
Hypothesis Dh' : dhf D'.
Variables (i : nat) (s : term) (k : nat).
Hypothesis Hs : hole_free s = true.
Hypothesis Hk : k <= i.
Hypothesis H1 : forall j d, j <> i -> D j = Some d -> D' (open_idx j i) = Some (open d i s k).
Hypothesis H2 : forall d, D i = Some d -> dpred D' 0 (ushift s 0 k) (open d i s k).

Lemma dpred_subst_mut :
  (forall m t t', dpred D m t t' -> dpred D' m (open t (i + m) s (k + m)) (open t' (i + m) s (k + m))) /\
  (forall m ds ds', dpreds D m ds ds' ->
     dpreds D' m (map (fun p : term * term => let '(a, d) := p in (open a (i + m) s (k + m), open d (i + m) s (k + m))) ds)
                 (map (fun p : term * term => let '(a, d) := p in (open a (i + m) s (k + m), open d (i + m) s (k + m))) ds')).
Proof.
  apply dpred_mutind; intros; cbn [open map];
    try (constructor; eauto using hole_free_open, dpred_hf_l, dpred_hf_r; fail).
  - (* atom *)
    destruct t; try discriminate; try (apply d_atom; reflexivity).
    cbn [open]. destruct (Nat.eqb i0 (i + m)); [|apply d_atom; reflexivity].
    apply dpred_refl. now apply hole_free_ushift.
  - (* delta *)
    assert (Fd : hole_free d = true) by eauto.
    assert (E : open (ushift d 0 m) (i + m) s (k + m) = ushift (open d i s k) 0 m)
      by (symmetry; apply ushift_open_below; auto; lia).
    rewrite E.
    destruct (Nat.eqb_spec (j + m) (i + m)) as [Ej|Ej].
    + assert (j = i) by lia. subst j.
      replace (ushift s 0 (k + m)) with (ushift (ushift s 0 k) 0 m) by (apply ushift_add).
      replace m with (0 + m) at 1 by lia. apply dpred_ushift; [exact Dh' | now apply H2 | lia].
    + replace (open_idx (j + m) (i + m)) with (open_idx j i + m)
        by (unfold open_idx; destruct (Nat.ltb_spec i j), (Nat.ltb_spec (i + m) (j + m)); lia).
      apply d_delta. apply H1; [lia | assumption].
  - (* lam *)
    apply d_lam; eauto using hole_free_open.
    replace (S (i + m)) with (i + S m) by lia. replace (S (k + m)) with (k + S m) by lia. assumption.
  - (* pi *)
    apply d_pi; eauto.
    replace (S (i + m)) with (i + S m) by lia. replace (S (k + m)) with (k + S m) by lia. assumption.
  - (* let *)
    rewrite <- (dpreds_length _ _ _ _ H).
    replace (length ds + (i + m)) with (i + (length ds + m)) by lia.
    replace (length ds + (k + m)) with (k + (length ds + m)) by lia.
    apply d_let; rewrite map_length; assumption.
  - (* unfold *)
    assert (E : open (let_whnf_body ds' b') (i + m) s (k + m) =
                let_whnf_body (map (opp (length ds' + (i + m)) s (length ds' + (k + m))) ds')
                              (open b' (length ds' + (i + m)) s (length ds' + (k + m)))).
    { symmetry. apply let_whnf_body_open; eauto using dpred_hf_r, dpreds_hf_r. }
    rewrite E. rewrite <- (dpreds_length _ _ _ _ H).
    replace (length ds + (i + m)) with (i + (length ds + m)) by lia.
    replace (length ds + (k + m)) with (k + (length ds + m)) by lia.
    apply d_unfold; rewrite map_length; assumption.
  - (* beta *)
    rewrite open_open0 by eauto using dpred_hf_r.
    apply d_beta; eauto using hole_free_open.
    replace (S (i + m)) with (i + S m) by lia. replace (S (k + m)) with (k + S m) by lia. assumption.
  - rewrite (arith_closed_open _ _ _ _ (i + m) s (k + m) H). now constructor.
Qed.

Lemma dpred_subst m t t' : dpred D m t t' -> dpred D' m (open t (i + m) s (k + m)) (open t' (i + m) s (k + m)).
Proof. apply dpred_subst_mut. Qed.
End Sub.

(* ---------- conv on hole-free terms is joinability ---------- *)
Lemma dstar_map D D' m m' (f : term -> term) :
  (forall t t', dpred D m t t' -> dpred D' m' (f t) (f t')) ->
  forall t t', dstar D m t t' -> dstar D' m' (f t) (f t').
Proof. intros H. apply (rt_cong (dpred D m) (dpred D' m' ) f). exact H. Qed.

Lemma conv_djoin G a b : wf_offsets G -> ctx_hf G -> hole_free a = true -> hole_free b = true ->
  conv G a b -> djoin (lookup_def G) 0 a b.
Proof. intros. now apply conv_church_rosser. Qed.

Lemma djoin_conv G a b : wf_offsets G -> ctx_hf G -> djoin (lookup_def G) 0 a b -> conv G a b.
Proof. intros. now apply cjoin_conv. Qed.

Lemma dstar_conv G a b : wf_offsets G -> ctx_hf G -> dstar (lookup_def G) 0 a b -> conv G a b.
Proof. intros W F H. apply djoin_conv; auto. exists b. split; [assumption | apply rt_refl]. Qed.

Lemma dpred_conv G a b : wf_offsets G -> ctx_hf G -> dpred (lookup_def G) 0 a b -> conv G a b.
Proof. intros W F H. apply dstar_conv; auto. now apply rt_step. Qed.

(* the generic transfer *)
Lemma conv_transfer G G' (f : term -> term) : wf_offsets G -> ctx_hf G -> wf_offsets G' -> ctx_hf G' ->
  (forall t t', dpred (lookup_def G) 0 t t' -> dpred (lookup_def G') 0 (f t) (f t')) ->
  forall a b, hole_free a = true -> hole_free b = true -> conv G a b -> conv G' (f a) (f b).
Proof.
  intros W F W' F' H a b Ha Hb C. destruct (conv_djoin _ _ _ W F Ha Hb C) as (c & Hc1 & Hc2).
  apply djoin_conv; auto. exists (f c). split; apply (dstar_map _ _ 0 0 f H); assumption.
Qed.

(* ---------- lookups in a context extended by one arbitrary entry ---------- *)
Lemma lookup_ty_cons_S e G j : wf_offsets G ->
  lookup_ty (e :: G) (S j) = option_map (fun T => ushift T 0 1) (lookup_ty G j).
Proof.
  intros W. unfold lookup_ty. cbn [nth_error].
  destruct (nth_error G j) as [[[T k] d]|] eqn:E; [|reflexivity].
  specialize (W _ _ _ _ E). cbn [option_map]. rewrite ushift_add. do 2 f_equal. lia.
Qed.

Lemma lookup_def_cons_S e G j : wf_offsets G ->
  lookup_def (e :: G) (S j) = option_map (fun T => ushift T 0 1) (lookup_def G j).
Proof.
  intros W. unfold lookup_def. cbn [nth_error].
  destruct (nth_error G j) as [[[T k] [d|]]|] eqn:E; try reflexivity.
  specialize (W _ _ _ _ E). cbn [option_map]. rewrite ushift_add. do 2 f_equal. lia.
Qed.

Lemma wf_offsets_cons T k d G : k <= 1 -> wf_offsets G -> wf_offsets ((T, k, d) :: G).
Proof.
  intros Hk W [|j] T' k' d' E; cbn in E.
  - injection E as <- <- <-. lia.
  - specialize (W _ _ _ _ E). lia.
Qed.

Lemma ctx_hf_cons T k d G : match d with Some x => hole_free x = true | None => True end -> ctx_hf G -> ctx_hf ((T, k, d) :: G).
Proof. intros H F. constructor; [exact H | exact F]. Qed.

(* ---------- the relation "G' is G with n entries inserted at depth c" ---------- *)
Record Ins (c n : nat) (G G' : ctx) : Prop := {
  ins_wf : wf_offsets G;
  ins_wf' : wf_offsets G';
  ins_ty : forall j, lookup_ty G' (up_idx j c n) = option_map (fun T => ushift T c n) (lookup_ty G j);
  ins_def : forall j, lookup_def G' (up_idx j c n) = option_map (fun T => ushift T c n) (lookup_def G j) }.

Lemma Ins_base B G : wf_offsets G -> wf_offsets (B ++ G) -> Ins 0 (length B) G (B ++ G).
Proof.
  intros W W'. split; auto; intros j.
  - exact (lookup_ty_insert [] B G j wf_offsets_nil W).
  - exact (lookup_def_insert [] B G j wf_offsets_nil W).
Qed.

Lemma Ins_cons c n G G' T k d : k <= 1 -> Ins c n G G' ->
  Ins (S c) n ((T, k, d) :: G)
      ((ushift T (k + c) n, k, option_map (fun x => ushift x (k + c) n) d) :: G').
Proof.
  intros Hk [W W' HT HD]. split; auto using wf_offsets_cons.
  - intros [|j].
    + unfold up_idx. cbn [Nat.leb]. unfold lookup_ty. cbn [nth_error option_map].
      f_equal. destruct k as [|[|k]]; [| |lia]; cbn [Nat.sub Nat.add].
      * replace (S c) with (c + 1) by lia. apply eq_sym, ushift_comm. lia.
      * now rewrite !ushift_zero.
    + replace (up_idx (S j) (S c) n) with (S (up_idx j c n))
        by (unfold up_idx; cbn [Nat.leb]; destruct (Nat.leb c j); lia).
      rewrite !lookup_ty_cons_S by assumption. rewrite HT.
      destruct (lookup_ty G j) as [X|]; cbn [option_map]; [|reflexivity].
      f_equal. replace (S c) with (c + 1) by lia. apply eq_sym, ushift_comm. lia.
  - intros [|j].
    + unfold up_idx. cbn [Nat.leb]. unfold lookup_def. cbn [nth_error].
      destruct d as [x|]; cbn [option_map]; [|reflexivity].
      f_equal. destruct k as [|[|k]]; [| |lia]; cbn [Nat.sub Nat.add].
      * replace (S c) with (c + 1) by lia. apply eq_sym, ushift_comm. lia.
      * now rewrite !ushift_zero.
    + replace (up_idx (S j) (S c) n) with (S (up_idx j c n))
        by (unfold up_idx; cbn [Nat.leb]; destruct (Nat.leb c j); lia).
      rewrite !lookup_def_cons_S by assumption. rewrite HD.
      destruct (lookup_def G j) as [X|]; cbn [option_map]; [|reflexivity].
      f_equal. replace (S c) with (c + 1) by lia. apply eq_sym, ushift_comm. lia.
Qed.

Lemma Ins_bind c n G G' A : Ins c n G G' -> Ins (S c) n (bind G A) (bind G' (ushift A c n)).
Proof. intros H. exact (Ins_cons c n G G' A 0 None (Nat.le_0_l 1) H). Qed.

Lemma conv_ins c n G G' a b : Ins c n G G' -> ctx_hf G -> ctx_hf G' ->
  hole_free a = true -> hole_free b = true -> conv G a b -> conv G' (ushift a c n) (ushift b c n).
Proof.
  intros [W W' HT HD] F F'. apply (conv_transfer G G' (fun t => ushift t c n)); auto.
  intros t t' H. replace c with (c + 0) by lia.
  apply (dpred_ins (lookup_def G) (lookup_def G') (lookup_def_hf G F) c n); [|exact H].
  intros j d E. now rewrite HD, E.
Qed.

Lemma ushift_open_below1 t i s k : hole_free t = true ->
  ushift (open t i s k) 0 1 = open (ushift t 0 1) (S i) s (S k).
Proof.
  intros H. replace (S i) with (i + 1) by lia. replace (S k) with (k + 1) by lia.
  apply ushift_open_below; auto; lia.
Qed.

(* ---------- the relation on definitions "G' is G with variable i replaced by s" ---------- *)
Record SubD (i : nat) (s : term) (k : nat) (G G' : ctx) : Prop := {
  sd_wf : wf_offsets G;
  sd_wf' : wf_offsets G';
  sd_hf : ctx_hf G;
  sd_hf' : ctx_hf G';
  sd_s : hole_free s = true;
  sd_k : k <= i;
  sd_def : forall j, j <> i -> lookup_def G' (open_idx j i) = option_map (fun d => open d i s k) (lookup_def G j);
  sd_eq : forall d, lookup_def G i = Some d -> dpred (lookup_def G') 0 (ushift s 0 k) (open d i s k) }.

Lemma conv_subst i s k G G' a b : SubD i s k G G' ->
  hole_free a = true -> hole_free b = true -> conv G a b -> conv G' (open a i s k) (open b i s k).
Proof.
  intros [W W' F F' Hs Hk HD HE]. apply (conv_transfer G G' (fun t => open t i s k)); auto.
  intros t t' H. replace i with (i + 0) by lia. replace k with (k + 0) by lia.
  apply (dpred_subst (lookup_def G) (lookup_def G') (lookup_def_hf G F) (lookup_def_hf G' F') i s k Hs Hk); auto.
  intros j d Hj E. now rewrite HD, E.
Qed.

Lemma SubD_cons i s k G G' T o d : o <= 1 -> (match d with Some x => hole_free x = true | None => True end) ->
  SubD i s k G G' ->
  SubD (S i) s (S k) ((T, o, d) :: G)
       ((open T (o + i) s (o + k), o, option_map (fun x => open x (o + i) s (o + k)) d) :: G').
Proof.
  intros Ho Fd [W W' F F' Hs Hk HD HE]. split; auto using wf_offsets_cons; try lia.
  - now apply ctx_hf_cons.
  - apply ctx_hf_cons; [|assumption]. destruct d; cbn [option_map]; auto using hole_free_open.
  - intros [|j] Hj.
    + unfold open_idx. cbn [Nat.ltb Nat.leb]. unfold lookup_def. cbn [nth_error].
      destruct d as [x|]; cbn [option_map]; [|reflexivity].
      f_equal. destruct o as [|[|o]]; [| |lia]; cbn [Nat.sub Nat.add].
      * now apply ushift_open_below1.
      * now rewrite !ushift_zero.
    + replace (open_idx (S j) (S i)) with (S (open_idx j i))
        by (unfold open_idx; destruct (Nat.ltb_spec i j), (Nat.ltb_spec (S i) (S j)); lia).
      rewrite !lookup_def_cons_S by assumption. rewrite HD by lia.
      destruct (lookup_def G j) as [X|] eqn:E; cbn [option_map]; [|reflexivity].
      f_equal. apply ushift_open_below1. exact (ctx_hf_lookup G j X F E).
  - intros x E. rewrite lookup_def_cons_S in E by assumption.
    destruct (lookup_def G i) as [y|] eqn:Ey; [|discriminate]. cbn [option_map] in E. injection E as <-.
    assert (Fy : hole_free y = true) by exact (ctx_hf_lookup G i y F Ey).
    replace (open (ushift y 0 1) (S i) s (S k)) with (ushift (open y i s k) 0 1)
      by (now apply ushift_open_below1).
    replace (ushift s 0 (S k)) with (ushift (ushift s 0 k) 0 1) by (rewrite ushift_add; f_equal; lia).
    pose proof (dpred_ins (lookup_def G')
                 (lookup_def ((open T (o + i) s (o + k), o, option_map (fun x => open x (o + i) s (o + k)) d) :: G'))
                 (lookup_def_hf G' F') 0 1) as K.
    cbn [Nat.add] in K. apply (K ltac:(intros j z Ez; unfold up_idx; cbn [Nat.leb];
      replace (j + 1) with (S j) by lia; rewrite lookup_def_cons_S by assumption; now rewrite Ez) 0).
    now apply HE.
Qed.

Lemma SubD_bind i s k G G' A : SubD i s k G G' -> SubD (S i) s (S k) (bind G A) (bind G' (open A i s k)).
Proof. intros H. exact (SubD_cons i s k G G' A 0 None (Nat.le_0_l 1) I H). Qed.

(* the two base cases: a bound variable (beta) and a single-definition group *)
Lemma open_ushift_cancel0 t s : hole_free t = true -> open (ushift t 0 1) 0 s 0 = t.
Proof. intros H. rewrite open_ushift_cancel_gen by (auto; lia). apply ushift_zero. Qed.

Lemma SubD_base T o d G s : wf_offsets G -> ctx_hf G -> o <= 1 ->
  (match d with Some x => hole_free x = true | None => True end) -> hole_free s = true ->
  (forall x, d = Some x -> dpred (lookup_def G) 0 s (open (ushift x 0 (1 - o)) 0 s 0)) ->
  SubD 0 s 0 ((T, o, d) :: G) G.
Proof.
  intros W F Ho Fd Hs HE. split; auto using wf_offsets_cons, ctx_hf_cons.
  - intros [|j] Hj; [lia|]. unfold open_idx. cbn [Nat.ltb Nat.leb Nat.sub].
    rewrite Nat.sub_0_r. rewrite lookup_def_cons_S by assumption.
    destruct (lookup_def G j) as [X|] eqn:E; cbn [option_map]; [|reflexivity].
    f_equal. symmetry. apply open_ushift_cancel0. exact (ctx_hf_lookup G j X F E).
  - intros x E. unfold lookup_def in E. cbn [nth_error] in E. destruct d as [y|]; [|discriminate].
    injection E as <-. rewrite ushift_zero. cbn [Nat.add]. now apply HE.
Qed.

(* substituting convertible terms for variable 0 *)
Lemma conv_open_arg0 G t s s' : wf_offsets G -> ctx_hf G ->
  hole_free t = true -> hole_free s = true -> hole_free s' = true ->
  conv G s s' -> conv G (open t 0 s 0) (open t 0 s' 0).
Proof.
  intros W F Ht Hs Hs' C. destruct (conv_djoin _ _ _ W F Hs Hs' C) as (c & H1 & H2).
  assert (Dh := lookup_def_hf G F).
  assert (K : forall x y, dpred (lookup_def G) 0 x y -> dpred (lookup_def G) 0 (open t 0 x 0) (open t 0 y 0)).
  { intros x y P. apply (dpred_open _ Dh 0 t t x y 0 0); [now apply dpred_refl | lia | lia | exact P]. }
  apply djoin_conv; auto. exists (open t 0 c 0).
  split; apply (dstar_map _ _ 0 0 (fun x => open t 0 x 0) K); assumption.
Qed.

(* opening variable 0 of two terms convertible under one opaque entry *)
Lemma dstar_open0 D (Dh : dhf D) t t' s : hole_free s = true -> dstar D 1 t t' -> dstar D 0 (open t 0 s 0) (open t' 0 s 0).
Proof.
  intros Hs. apply (dstar_map D D 1 0 (fun x => open x 0 s 0)). intros x y P.
  apply (dpred_open _ Dh 0 x y s s 0 0); [exact P | lia | lia | now apply dpred_refl].
Qed.

(* ---------- contexts whose definitions are replaced by convertible ones ---------- *)
Record CtxConv (G G' : ctx) : Prop := {
  cc_wf : wf_offsets G;
  cc_wf' : wf_offsets G';
  cc_hf : ctx_hf G;
  cc_hf' : ctx_hf G';
  cc_ty : forall j, lookup_ty G' j = lookup_ty G j;
  cc_def : forall j d, lookup_def G j = Some d -> exists d', lookup_def G' j = Some d' /\ conv G' d d' }.

Lemma CtxConv_cons G G' T o d d' : o <= 1 -> hole_free d = true -> hole_free d' = true ->
  CtxConv G G' -> conv ((T, o, Some d') :: G') (ushift d 0 (1 - o)) (ushift d' 0 (1 - o)) ->
  CtxConv ((T, o, Some d) :: G) ((T, o, Some d') :: G').
Proof.
  intros Ho Fd Fd' [W W' F F' HT HD] C. split; auto using wf_offsets_cons.
  - now apply ctx_hf_cons. - now apply ctx_hf_cons.
  - intros [|j]; [reflexivity|]. rewrite !lookup_ty_cons_S by assumption. now rewrite HT.
  - intros [|j] x E.
    + unfold lookup_def in *. cbn [nth_error] in *. injection E as <-. eexists. split; [reflexivity|]. exact C.
    + rewrite lookup_def_cons_S in E by assumption.
      destruct (lookup_def G j) as [y|] eqn:Ey; [|discriminate]. cbn [option_map] in E. injection E as <-.
      destruct (HD _ _ Ey) as (y' & Ey' & Cy). exists (ushift y' 0 1). split.
      * rewrite lookup_def_cons_S by assumption. now rewrite Ey'.
      * assert (I : Ins 0 1 G' ((T, o, Some d') :: G')).
        { exact (Ins_base [(T, o, Some d')] G' W' (wf_offsets_cons _ _ _ _ Ho W')). }
        apply (conv_ins 0 1 G' _ y y' I); auto.
        -- now apply ctx_hf_cons.
        -- exact (ctx_hf_lookup G j y F Ey).
        -- exact (ctx_hf_lookup G' j y' F' Ey').
Qed.

Lemma CtxConv_cons_same G G' T o d : o <= 1 -> (match d with Some x => hole_free x = true | None => True end) ->
  CtxConv G G' -> CtxConv ((T, o, d) :: G) ((T, o, d) :: G').
Proof.
  intros Ho Fd H. destruct d as [x|].
  - apply CtxConv_cons; auto. apply c_refl.
  - destruct H as [W W' F F' HT HD]. split; auto using wf_offsets_cons.
    + now apply ctx_hf_cons. + now apply ctx_hf_cons.
    + intros [|j]; [reflexivity|]. rewrite !lookup_ty_cons_S by assumption. now rewrite HT.
    + intros [|j] x E; [discriminate|].
      rewrite lookup_def_cons_S in E by assumption.
      destruct (lookup_def G j) as [y|] eqn:Ey; [|discriminate]. cbn [option_map] in E. injection E as <-.
      destruct (HD _ _ Ey) as (y' & Ey' & Cy). exists (ushift y' 0 1). split.
      * rewrite lookup_def_cons_S by assumption. now rewrite Ey'.
      * assert (I : Ins 0 1 G' ((T, o, None) :: G')).
        { exact (Ins_base [(T, o, None)] G' W' (wf_offsets_cons _ _ _ _ Ho W')). }
        apply (conv_ins 0 1 G' _ y y' I); auto.
        -- now apply ctx_hf_cons.
        -- exact (ctx_hf_lookup G j y F Ey).
        -- exact (ctx_hf_lookup G' j y' F' Ey').
Qed.
