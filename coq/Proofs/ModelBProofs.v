(* C05, second sentence, on Model B: the elaborated term IS the source term, cell for cell; every change
   made by checking lives in the store. *)
From Coq Require Import List ZArith Lia Bool Arith.
Import ListNotations.
Require Import Gram.Model.Term Gram.Model.DeBruijn Gram.Model.ModelB.

(* C05, second sentence, on the sketch: the elaborated term IS the source term. *)
Ltac break_match H :=
  repeat match type of H with
  | context [match ?x with _ => _ end] =>
      let E := fresh "E" in destruct x eqn:E; try discriminate H
  end.

Lemma tc_defs_id f tc D' : (forall s0 d r, tc s0 d = Some r -> b_elab r = d) ->
  forall l s0 es l' s1 es1, tc_defs f tc D' l s0 es = Some (l', s1, es1) -> l' = l.
Proof.
  intros Htc. induction l as [|[a d] rest IHl]; intros s0 es l' s1 es1 Hg; cbn [tc_defs] in Hg.
  - now injection Hg as <- _ _.
  - break_match Hg. injection Hg as <- _ _. f_equal; [f_equal; eauto | eauto].
Qed.

Theorem tcB_elab_identity : forall fuel s G D t r, tcB fuel s G D t = Some r -> b_elab r = t.
Proof.
  induction fuel as [|f IH]; intros s G D t r H; [discriminate|].
  destruct t; cbn [tcB] in H.
  1-7: try (injection H as <-; reflexivity).
  - (* var *) break_match H; injection H as <-; reflexivity.
  - (* lam *) break_match H; injection H as <-; cbn [b_elab]; f_equal; eauto.
  - (* pi *) break_match H; injection H as <-; cbn [b_elab]; f_equal; eauto.
  - (* app *) break_match H; injection H as <-; cbn [b_elab]; f_equal; eauto.
  - (* let *)
    break_match H; injection H as <-; cbn [b_elab]; f_equal; eauto.
    match goal with E : tc_defs _ _ _ _ _ _ = Some _ |- _ => eapply tc_defs_id in E; eauto end.
  - (* neg *) break_match H; injection H as <-; cbn [b_elab]; f_equal; eauto.
  - (* bin *) break_match H; injection H as <-; cbn [b_elab]; f_equal; eauto.
  - (* if *) break_match H; injection H as <-; cbn [b_elab]; f_equal; eauto.
Qed.
