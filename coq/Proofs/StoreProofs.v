(* C12 (consistency half) on Model B: the hole store only ever grows. Substitution and weak-head
   normalisation allocate fresh cells and solve none; unification and type checking solve cells that
   were unsolved and never touch a recorded solution (unifyB_ext, tcB_ext). A weak-head normal form
   that is a hole is an UNSOLVED hole (whnfB_hole_unsolved), which is what makes the assignment in
   `unify` an assignment to an unsolved cell. *)
From Coq Require Import List ZArith Lia Bool Arith.
Import ListNotations.
Require Import Gram.Model.Term Gram.Model.DeBruijn Gram.Model.ModelB Gram.Proofs.ModelBProofs Gram.Proofs.ModelBEq.

Definition grow (s s' : storeB) : Prop := exists k, s' = s ++ repeat None k.
Definition ext (s s' : storeB) : Prop := length s <= length s' /\ forall id t, sget s id = Some t -> sget s' id = Some t.

Lemma grow_refl s : grow s s.
Proof. exists 0. cbn. now rewrite app_nil_r. Qed.
Lemma grow_trans a b c : grow a b -> grow b c -> grow a c.
Proof. intros [k ->] [j ->]. exists (k + j). now rewrite <- app_assoc, repeat_app. Qed.

Lemma grow_sget s s' id : grow s s' -> sget s' id = sget s id.
Proof.
  intros [k ->]. unfold sget. destruct (Nat.lt_ge_cases id (length s)) as [L|L].
  - now rewrite nth_error_app1.
  - rewrite nth_error_app2 by exact L. rewrite (proj2 (nth_error_None s id) L).
    destruct (nth_error (repeat None k) (id - length s)) as [o|] eqn:E; [|reflexivity].
    apply nth_error_In, repeat_spec in E. now subst o.
Qed.

Lemma grow_salloc s : grow s (snd (salloc s)).
Proof. exists 1. reflexivity. Qed.

Lemma grow_ext s s' : grow s s' -> ext s s'.
Proof. intros G. split; [destruct G as [k ->]; rewrite app_length; lia|]. intros id t H. now rewrite (grow_sget _ _ _ G). Qed.
Lemma ext_refl s : ext s s.
Proof. split; auto. Qed.
Lemma ext_trans a b c : ext a b -> ext b c -> ext a c.
Proof. intros [L1 H1] [L2 H2]. split; [lia|]. auto. Qed.

Lemma sset_length : forall s id t, length (sset s id t) = length s.
Proof. induction s as [|x s IH]; intros [|id] t; cbn; auto. Qed.
Lemma sget_sset_other : forall s id t j, j <> id -> sget (sset s id t) j = sget s j.
Proof.
  unfold sget. induction s as [|x s IH]; intros [|id] t [|j] H; cbn; try reflexivity; try congruence.
  apply IH. congruence.
Qed.
Lemma sset_ext s id t : sget s id = None -> ext s (sset s id t).
Proof.
  intros H. split; [now rewrite sset_length|]. intros j u Hj.
  destruct (Nat.eq_dec j id) as [->|N]; [congruence|]. now rewrite sget_sset_other.
Qed.

(* ---------- substitution and normalisation only allocate ---------- *)
Lemma openB_grow : forall f s t i x k t' s', openB f s t i x k = Some (t', s') -> grow s s'.
Proof.
  induction f as [|f IH]; intros s t i x k t' s' H; [discriminate|].
  destruct t; cbn [openB] in H.
  - break_match H; try (eapply IH; eauto; fail);
      injection H as _ <-; match goal with E : salloc _ = _ |- _ => unfold salloc in E; injection E as _ <- end; exists 1; reflexivity.
  - injection H as _ <-; apply grow_refl.
  - injection H as _ <-; apply grow_refl.
  - injection H as _ <-; apply grow_refl.
  - injection H as _ <-; apply grow_refl.
  - injection H as _ <-; apply grow_refl.
  - injection H as _ <-; apply grow_refl.
  - break_match H; injection H as _ <-; apply grow_refl.
  - break_match H. injection H as _ <-. eapply grow_trans; eapply IH; eauto.
  - break_match H. injection H as _ <-. eapply grow_trans; eapply IH; eauto.
  - break_match H. injection H as _ <-. eapply grow_trans; eapply IH; eauto.
  - (* let *)
    pose (go := fix go (l : list (term * term)) (s0 : storeB) {struct l} : option (list (term * term) * storeB) :=
              match l with
              | [] => Some ([], s0)
              | (a, d) :: r => p <- openB f s0 a (length defs + i) x (length defs + k) ;; let '(a', s1) := p in
                               q <- openB f s1 d (length defs + i) x (length defs + k) ;; let '(d', s2) := q in
                               z <- go r s2 ;; let '(r', s3) := z in Some ((a', d') :: r', s3)
              end).
    assert (G : forall l s0 l' s1, go l s0 = Some (l', s1) -> grow s0 s1).
    { induction l as [|[a d] r IHl]; intros s0 l' s1 Hg; cbn in Hg; [injection Hg as _ <-; apply grow_refl|].
      break_match Hg. injection Hg as _ <-. eapply grow_trans; [eapply IH; eauto|]. eapply grow_trans; [eapply IH; eauto|]. eapply IHl; eauto. }
    break_match H. injection H as _ <-. eapply grow_trans; [|eapply IH; eauto].
    match goal with E : _ defs s = Some _ |- _ => exact (G defs s _ _ E) end.
  - break_match H. injection H as _ <-. eapply IH; eauto.
  - break_match H. injection H as _ <-. eapply grow_trans; eapply IH; eauto.
  - break_match H. injection H as _ <-. eapply grow_trans; [eapply IH; eauto|]. eapply grow_trans; eapply IH; eauto.
Qed.

Section SubstDefs.
Variables (f n i : nat) (unf : term).
Fixpoint subst_defs (l : list (term * term)) (j : nat) (s0 : storeB) {struct l}
  : option (list (term * term) * storeB) :=
  match l with
  | [] => Some ([], s0)
  | (a, d) :: rest =>
      if Nat.ltb j i then (w <- subst_defs rest (S j) s0 ;; let '(rest', s') := w in Some ((a, d) :: rest', s'))
      else pa <- openB f s0 a (n - 1 - i) unf 0 ;; let '(a', sa) := pa in
           pd <- openB f sa d (n - 1 - i) unf 0 ;; let '(d', sd) := pd in
           w <- subst_defs rest (S j) sd ;; let '(rest', s') := w in Some ((a', d') :: rest', s')
  end.
End SubstDefs.

Lemma subst_defs_grow f n i unf : forall l j s0 l' s1, subst_defs f n i unf l j s0 = Some (l', s1) -> grow s0 s1.
Proof.
  induction l as [|[a d] r IHl]; intros j s0 l' s1 Hg; cbn [subst_defs] in Hg; [injection Hg as _ <-; apply grow_refl|].
  destruct (Nat.ltb j i).
  - destruct (subst_defs f n i unf r (S j) s0) as [[rest' s2]|] eqn:E; [|discriminate].
    injection Hg as _ <-. exact (IHl _ _ _ _ E).
  - destruct (openB f s0 a (n - 1 - i) unf 0) as [[a' sa]|] eqn:Ea; [|discriminate].
    destruct (openB f sa d (n - 1 - i) unf 0) as [[d' sd]|] eqn:Ed; [|discriminate].
    destruct (subst_defs f n i unf r (S j) sd) as [[rest' s2]|] eqn:E; [|discriminate].
    injection Hg as _ <-. eapply grow_trans; [eapply openB_grow; eauto|]. eapply grow_trans; [eapply openB_grow; eauto|]. exact (IHl _ _ _ _ E).
Qed.

Lemma let_substB_grow : forall f s n i ds body b' s', let_substB f s n i ds body = Some (b', s') -> grow s s'.
Proof.
  induction f as [|f IH]; intros s n i ds body b' s' H; [discriminate|]. cbn [let_substB] in H.
  destruct (Nat.leb n i); [injection H as _ <-; apply grow_refl|].
  destruct (nth_error ds i) as [[ann def]|]; [|injection H as _ <-; apply grow_refl].
  destruct (ushiftB f s ann 0 1) as [a1|]; [|discriminate]. destruct (ushiftB f s def 0 1) as [d1|]; [|discriminate].
  destruct (openB f s a1 (S (n - 1 - i)) (TVar 0) 0) as [[a2 s1]|] eqn:E1; [|discriminate].
  destruct (openB f s1 d1 (S (n - 1 - i)) (TVar 0) 0) as [[d2 s2]|] eqn:E2; [|discriminate].
  destruct (openB f s2 def (n - 1 - i) (TLet [(a2, d2)] (TVar 0)) 0) as [[unf s3]|] eqn:E3; [|discriminate].
  match type of H with match ?x with _ => _ end = _ => destruct x as [[ds' s4]|] eqn:E4; [|discriminate] end.
  destruct (openB f s4 body (n - 1 - i) unf 0) as [[body' s5]|] eqn:E5; [|discriminate].
  eapply grow_trans; [exact (openB_grow _ _ _ _ _ _ _ _ E1)|].
  eapply grow_trans; [exact (openB_grow _ _ _ _ _ _ _ _ E2)|].
  eapply grow_trans; [exact (openB_grow _ _ _ _ _ _ _ _ E3)|].
  eapply grow_trans; [exact (subst_defs_grow f n i unf ds 0 s3 ds' s4 E4)|].
  eapply grow_trans; [exact (openB_grow _ _ _ _ _ _ _ _ E5)|].
  eapply IH; eauto.
Qed.

Lemma whnfB_grow : forall f s D t t' s', whnfB f s D t = Some (t', s') -> grow s s'.
Proof.
  induction f as [|f IH]; intros s D t t' s' H; [discriminate|].
  destruct t; cbn [whnfB] in H; try (injection H as _ <-; apply grow_refl).
  - break_match H; [eapply IH; eauto | injection H as _ <-; apply grow_refl].
  - break_match H; try (injection H as _ <-; apply grow_refl). eapply IH; eauto.
  - break_match H; try (injection H as _ <-; eapply IH; eauto; fail).
    all: try (eapply grow_trans; [eapply IH; eauto|]; eapply grow_trans; [eapply openB_grow; eauto|]; eapply IH; eauto).
  - break_match H. eapply grow_trans; [eapply let_substB_grow; eauto | eapply IH; eauto].
  - break_match H; injection H as _ <-; eapply IH; eauto.
  - break_match H; injection H as _ <-; (eapply grow_trans; eapply IH; eauto).
  - break_match H; try (injection H as _ <-; eapply IH; eauto; fail); (eapply grow_trans; eapply IH; eauto).
Qed.

(* a weak-head normal form that is a hole is an unsolved hole *)
Lemma whnfB_hole_unsolved : forall f s D t id sh s', whnfB f s D t = Some (THole id sh, s') -> sget s' id = None.
Proof.
  induction f as [|f IH]; intros s D t id sh s' H; [discriminate|].
  destruct t; cbn [whnfB] in H; try discriminate H.
  - break_match H; [eapply IH; eauto | injection H as <- _ <-; assumption].
  - break_match H; try discriminate H; eapply IH; eauto.
  - break_match H; try discriminate H; eapply IH; eauto.
  - break_match H. eapply IH; eauto.
  - break_match H; discriminate H.
  - break_match H; try discriminate H; match goal with E : bin_whnf _ _ _ = Some _ |- _ => destruct o; cbn in E; break_match E; injection E as <-; discriminate H end.
  - break_match H; try discriminate H; eapply IH; eauto.
Qed.

(* unification never touches a recorded solution *)
Ltac ih_facts IH :=
  repeat match goal with
  | E : unifyB _ ?x _ _ _ = Some (_, ?y) |- _ =>
      lazymatch goal with
      | _ : ext x y |- _ => fail
      | _ => pose proof (IH _ _ _ _ _ _ E)
      end
  end.

Theorem unifyB_ext : forall f s D a b ok s', unifyB f s D a b = Some (ok, s') -> ext s s'.
Proof.
  induction f as [|f IH]; intros s D a b ok s' H; [discriminate|].
  (* unfold one layer through the equations of ModelBEq.v: unfolding unifyB itself costs the kernel minutes *)
  rewrite unifyB_S in H. unfold unify_body in H.
  destruct (syn_eqB f s a b) as [[|]|]; [injection H as _ <-; apply ext_refl | | discriminate].
  destruct (whnfB f s D a) as [[w1 s1]|] eqn:W1; [|discriminate].
  destruct (whnfB f s1 D b) as [[w2 s2]|] eqn:W2; [|discriminate].
  pose proof (whnfB_grow _ _ _ _ _ _ W1) as G1. pose proof (whnfB_grow _ _ _ _ _ _ W2) as G2.
  apply ext_trans with s2; [apply grow_ext; eapply grow_trans; eassumption|].
  assert (U1 : forall id sh, w1 = THole id sh -> sget s2 id = None).
  { intros id sh ->. rewrite (grow_sget _ _ _ G2). eapply whnfB_hole_unsolved; eauto. }
  assert (U2 : forall id sh, w2 = THole id sh -> sget s2 id = None).
  { intros id sh ->. eapply whnfB_hole_unsolved; eauto. }
  clear W1 W2 G1 G2.
  destruct w1, w2; cbv beta iota zeta delta [unify_head] in H;
    break_match H; try discriminate H; try (injection H as _ <-); ih_facts IH;
    try (apply ext_refl);
    try (apply sset_ext; first [eapply U1; reflexivity | eapply U2; reflexivity]);
    eauto 6 using ext_refl, ext_trans.
Qed.

