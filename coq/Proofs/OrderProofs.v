(* C13: the one place where the pipeline iterates over a hash container (check_definition, free
   variables of a definition) feeds the iteration through a sort. Whatever order the HashSet yields
   (any permutation, with any multiplicity), the visited sequence is the same. *)
From Coq Require Import List Arith Lia Bool Sorted Permutation.
Import ListNotations.
Require Import Gram.Model.Term Gram.Model.Token Gram.Model.Grammar Gram.Model.Parser Gram.Model.ParserPost.

Fixpoint ins (x : nat) (a : list nat) : list nat :=
  match a with
  | [] => [x]
  | y :: a' => if Nat.ltb x y then x :: a else if Nat.eqb x y then a else y :: ins x a'
  end.
Fixpoint ins_all (l acc : list nat) : list nat := match l with [] => acc | x :: r => ins_all r (ins x acc) end.

Lemma sort_dedup_unfold l : sort_dedup l = ins_all l [].
Proof. reflexivity. Qed.

Inductive ssorted : list nat -> Prop :=
| ss_nil : ssorted []
| ss_one x : ssorted [x]
| ss_cons x y l : x < y -> ssorted (y :: l) -> ssorted (x :: y :: l).

Lemma ins_in x a v : In v (ins x a) <-> v = x \/ In v a.
Proof.
  induction a as [|y a IH]; cbn [ins In]; [intuition|].
  destruct (Nat.ltb_spec x y); [cbn [In]; intuition|].
  destruct (Nat.eqb_spec x y); [subst; cbn [In]; intuition|].
  cbn [In]. rewrite IH. intuition.
Qed.

Lemma ins_sorted x a : ssorted a -> ssorted (ins x a).
Proof.
  induction 1 as [|y|y z l Hyz Hs IH]; cbn [ins].
  - constructor.
  - destruct (Nat.ltb_spec x y); [constructor; [lia|constructor]|].
    destruct (Nat.eqb_spec x y); [constructor|]. constructor; [lia|constructor].
  - destruct (Nat.ltb_spec x y); [constructor; [lia|constructor; auto]|].
    destruct (Nat.eqb_spec x y); [constructor; auto|].
    cbn [ins] in IH. destruct (Nat.ltb_spec x z).
    + constructor; [lia|]. constructor; [lia|auto].
    + destruct (Nat.eqb_spec x z); [constructor; auto|]. constructor; auto.
Qed.

Lemma ins_all_in l acc v : In v (ins_all l acc) <-> In v l \/ In v acc.
Proof.
  revert acc; induction l as [|x l IH]; intros acc; cbn [ins_all In]; [intuition|].
  rewrite IH, ins_in. intuition.
Qed.
Lemma ins_all_sorted l acc : ssorted acc -> ssorted (ins_all l acc).
Proof. revert acc; induction l; intros; cbn [ins_all]; auto using ins_sorted. Qed.

Lemma ssorted_head_min x l : ssorted (x :: l) -> forall v, In v l -> x < v.
Proof.
  revert x; induction l as [|y l IH]; intros x H v Hin; [destruct Hin|].
  inversion H; subst. destruct Hin as [->|Hin]; [lia|]. specialize (IH y H4 v Hin). lia.
Qed.
Lemma ssorted_tail x l : ssorted (x :: l) -> ssorted l.
Proof. inversion 1; subst; [constructor|auto]. Qed.

(* strictly sorted lists with the same elements are equal *)
Lemma ssorted_ext : forall a b, ssorted a -> ssorted b -> (forall v, In v a <-> In v b) -> a = b.
Proof.
  induction a as [|x a IH]; intros b Ha Hb E.
  - destruct b as [|y b]; [reflexivity|]. exfalso. apply (E y). now left.
  - destruct b as [|y b]; [exfalso; apply (E x); now left|].
    assert (x = y).
    { pose proof (ssorted_head_min _ _ Ha) as Ma. pose proof (ssorted_head_min _ _ Hb) as Mb.
      destruct (proj1 (E x) (or_introl eq_refl)) as [->|Hx]; [reflexivity|].
      destruct (proj2 (E y) (or_introl eq_refl)) as [->|Hy]; [reflexivity|].
      specialize (Ma _ Hy). specialize (Mb _ Hx). lia. }
    subst y. f_equal. apply IH; eauto using ssorted_tail.
    intros v. pose proof (ssorted_head_min _ _ Ha) as Ma. pose proof (ssorted_head_min _ _ Hb) as Mb. split; intros Hv.
    + destruct (proj1 (E v) (or_intror Hv)) as [<-|]; auto. specialize (Ma _ Hv). lia.
    + destruct (proj2 (E v) (or_intror Hv)) as [<-|]; auto. specialize (Mb _ Hv). lia.
Qed.

(* the visiting order depends only on the SET of free variables *)
Theorem sort_dedup_set_only : forall l l', (forall v, In v l <-> In v l') -> sort_dedup l = sort_dedup l'.
Proof.
  intros l l' E. rewrite !sort_dedup_unfold.
  apply ssorted_ext; try (apply ins_all_sorted; constructor).
  intros v. rewrite !ins_all_in. cbn [In]. rewrite E. reflexivity.
Qed.

Corollary sort_dedup_perm : forall l l', Permutation l l' -> sort_dedup l = sort_dedup l'.
Proof.
  intros l l' P. apply sort_dedup_set_only. intros v; split; [apply Permutation_in; auto | apply Permutation_in; now apply Permutation_sym].
Qed.
